/-
  C19 — Every advertised style works and style strings resolve as documented (logic part).

  Model: `Model/Registry.lean` (`resolveStyle` = `auto.Wrap`'s dispatch, with
  `goLower` = `strings.ToLower` as far as comparison with the ASCII sub-package names goes: ASCII
  letters fold, U+212A KELVIN SIGN folds to `k`, U+0130 to `i`, nothing else does; `listStyles` =
  `auto.ListStyles`, `auto/auto.go`; `texttable/style.go` `SetDecorationNamed`).

  All theorems hold for EVERY registry `reg` (every state reachable by registering further
  decoration names, and more), every default decoration `heavy`, and every byte string.
  "Renders a well-formed table without error" for the csv/html/markdown/json/text renderers is the
  business of C05/C06/C07/C08/C03; here: the style resolves to a renderer that does not refuse.

  Three classes of listed names fall outside `Plain` and are RECORDED FINDINGS (D21), kept below as
  `example`s with concrete witnesses: a dotted registered name, a name registered with the empty
  decoration, a registered name that case-folds to a sub-package name.
-/
import Tabmodel.Props.C17
import Tabmodel.Proofs.RegStyle
namespace Tab
open Registry

/-- `sections[0]` of `strings.Split(style, ".")` -/
def firstSection (style : Bytes) : Bytes := (splitDot style).headD []

/-- no `.` in the name -/
abbrev NoDot (n : Bytes) : Prop := (46 : UInt8) ∉ n

/-- the names `auto.Wrap` matches (after lower-casing) before it tries a decoration name -/
def reservedNames : List Bytes :=
  [bytesOfString "csv", bytesOfString "html", bytesOfString "markdown", bytesOfString "json",
    bytesOfString "texttable"]

/-- the four non-text renderers -/
def formatNames : List Bytes :=
  [bytesOfString "csv", bytesOfString "html", bytesOfString "markdown", bytesOfString "json"]

/-- a decoration name that `auto` can reach by that name: no dot, does not case-fold to a
sub-package name, and is bound to a non-empty decoration -/
def Plain (reg : Registry) (n : Bytes) : Prop :=
  NoDot n ∧ goLower n ∉ reservedNames ∧ reg.named n ≠ emptyDecoration

-- `Format.wrapper` (the wrapper `auto.Wrap` builds for a resolved format) lives in Model/Render.lean:
-- the correspondence driver builds its `autowrap` wrappers with the same definition.

/-- `ListStyles` is sorted (`bytesLt`-nondecreasing), contains the four non-text renderers and every
registered decoration name, and nothing else; it is strictly increasing (duplicate-free) unless a
decoration is registered under one of the four renderer names. -/
theorem c19_listing (reg : Registry) :
    (listStyles reg).Pairwise (fun a b => bytesLt b a = false) ∧
    bytesOfString "csv" ∈ listStyles reg ∧ bytesOfString "html" ∈ listStyles reg ∧
    bytesOfString "json" ∈ listStyles reg ∧ bytesOfString "markdown" ∈ listStyles reg ∧
    (∀ n ∈ reg.names, n ∈ listStyles reg) ∧
    (∀ p ∈ reg, p.1 ∈ listStyles reg) ∧
    (∀ s, s ∈ listStyles reg ↔ (s ∈ reg.names ∨ s ∈ formatNames)) ∧
    ((reg.map Prod.fst).Nodup → (∀ s ∈ formatNames, s ∉ reg.map Prod.fst) →
      (listStyles reg).Pairwise (fun a b => bytesLt a b = true)) := by
  have mem : ∀ s, s ∈ listStyles reg ↔ (s ∈ reg.names ∨ s ∈ formatNames) := by
    intro s
    unfold listStyles formatNames
    rw [mem_sortBytes, List.mem_append]
    simp only [List.mem_cons, List.not_mem_nil, or_false]
    constructor
    · rintro (h | h | h | h | h)
      · exact .inl h
      · exact .inr (.inl h)
      · exact .inr (.inr (.inl h))
      · exact .inr (.inr (.inr (.inr h)))
      · exact .inr (.inr (.inr (.inl h)))
    · rintro (h | h | h | h | h)
      · exact .inl h
      · exact .inr (.inl h)
      · exact .inr (.inr (.inl h))
      · exact .inr (.inr (.inr (.inr h)))
      · exact .inr (.inr (.inr (.inl h)))
  refine ⟨sortBytes_sorted _, ?_, ?_, ?_, ?_, ?_, ?_, mem, ?_⟩
  · exact (mem _).mpr (.inr (by simp [formatNames]))
  · exact (mem _).mpr (.inr (by simp [formatNames]))
  · exact (mem _).mpr (.inr (by simp [formatNames]))
  · exact (mem _).mpr (.inr (by simp [formatNames]))
  · exact fun n hn => (mem n).mpr (.inl hn)
  · exact fun p hp => (mem p.1).mpr (.inl (mem_names.mpr (List.mem_map_of_mem (f := Prod.fst) hp)))
  · intro hnd hdisj
    apply sortBytes_strict
    rw [List.nodup_append]
    refine ⟨names_nodup hnd, ?_, ?_⟩
    · rw [bytes_csv, bytes_html, bytes_json, bytes_markdown]; decide
    · intro a ha b hb e
      subst e
      have hb' : a ∈ formatNames := by
        simp only [formatNames, List.mem_cons, List.not_mem_nil, or_false] at hb ⊢
        rcases hb with h | h | h | h
        · exact .inl h
        · exact .inr (.inl h)
        · exact .inr (.inr (.inr h))
        · exact .inr (.inr (.inl h))
      exact hdisj a hb' (mem_names.mp ha)

/-- A sub-package name selects that renderer: the decision is made on the lower-cased (`goLower`,
i.e. Go's `strings.ToLower`) first dot-separated section alone, so any casing of the name works
(including `marKdown` spelt with U+212A KELVIN SIGN) and any trailing sections are ignored.  On pure
ASCII input `goLower` is the plain ASCII fold. -/
theorem c19_subpackage (reg : Registry) (heavy : Decoration) :
    resolveStyle reg heavy (bytesOfString "csv") = .csv ∧
    resolveStyle reg heavy (bytesOfString "html") = .html ∧
    resolveStyle reg heavy (bytesOfString "markdown") = .markdown ∧
    resolveStyle reg heavy (bytesOfString "json") = .json ∧
    (∀ style s, s ∈ formatNames → goLower (firstSection style) = s →
      resolveStyle reg heavy style = resolveStyle reg heavy s) ∧
    (∀ s variant rest, s ∈ formatNames → goLower variant = s →
      firstSection variant = variant ∧ firstSection (variant ++ [46] ++ rest) = variant ∧
      resolveStyle reg heavy variant = resolveStyle reg heavy s ∧
      resolveStyle reg heavy (variant ++ [46] ++ rest) = resolveStyle reg heavy s) ∧
    (∀ v : Bytes, (∀ b ∈ v, b < 128) → goLower v = asciiLower v) := by
  have c1 : resolveStyle reg heavy (bytesOfString "csv") = .csv := by
    rw [bytes_csv]; exact resolveStyle_csv reg heavy (by decide : splitDot bCsv = [bCsv]) (by decide)
  have c2 : resolveStyle reg heavy (bytesOfString "html") = .html := by
    rw [bytes_html]; exact resolveStyle_html reg heavy (by decide : splitDot bHtml = [bHtml]) (by decide)
  have c3 : resolveStyle reg heavy (bytesOfString "markdown") = .markdown := by
    rw [bytes_markdown]
    exact resolveStyle_markdown reg heavy (by decide : splitDot bMarkdown = [bMarkdown]) (by decide)
  have c4 : resolveStyle reg heavy (bytesOfString "json") = .json := by
    rw [bytes_json]; exact resolveStyle_json reg heavy (by decide : splitDot bJson = [bJson]) (by decide)
  have gen : ∀ style s, s ∈ formatNames → goLower (firstSection style) = s →
      resolveStyle reg heavy style = resolveStyle reg heavy s := by
    intro style s hs hl
    obtain ⟨first, tl, h⟩ := splitDot_cons_exists style
    have hf : firstSection style = first := by unfold firstSection; rw [h]; rfl
    rw [hf] at hl
    simp only [formatNames, List.mem_cons, List.not_mem_nil, or_false] at hs
    rcases hs with rfl | rfl | rfl | rfl
    · rw [c1]; exact resolveStyle_csv reg heavy h (hl.trans bytes_csv)
    · rw [c2]; exact resolveStyle_html reg heavy h (hl.trans bytes_html)
    · rw [c3]; exact resolveStyle_markdown reg heavy h (hl.trans bytes_markdown)
    · rw [c4]; exact resolveStyle_json reg heavy h (hl.trans bytes_json)
  refine ⟨c1, c2, c3, c4, gen, ?_, goLower_ascii⟩
  intro s variant rest hs hl
  have hsdot : (46 : UInt8) ∉ s := by
    simp only [formatNames, List.mem_cons, List.not_mem_nil, or_false] at hs
    rcases hs with rfl | rfl | rfl | rfl
    · rw [bytes_csv]; decide
    · rw [bytes_html]; decide
    · rw [bytes_markdown]; decide
    · rw [bytes_json]; decide
  have hv : (46 : UInt8) ∉ variant := nodot_of_goLower hl hsdot
  have f1 : firstSection variant = variant := by unfold firstSection; rw [splitDot_nodot hv]; rfl
  have f2 : firstSection (variant ++ [46] ++ rest) = variant := by
    unfold firstSection
    rw [List.append_assoc, List.singleton_append, splitDot_append_dot hv]; rfl
  exact ⟨f1, f2, gen variant s hs (by rw [f1]; exact hl), gen _ s hs (by rw [f2]; exact hl)⟩

/-- `texttable.NAME` and bare `NAME` select the same decoration, `reg.named NAME`.
For a dot-free `n`: the `texttable.`-prefixed form (any casing of `texttable`, any trailing
sections) always gives `.text (reg.named n)`; the bare form (any trailing sections) does so when `n`
does not case-fold to a sub-package name. -/
theorem c19_alias (reg : Registry) (heavy : Decoration) (n : Bytes) (hdot : NoDot n) :
    (∀ tt rest, goLower tt = bytesOfString "texttable" →
      resolveStyle reg heavy (tt ++ [46] ++ n) = .text (reg.named n) ∧
      resolveStyle reg heavy (tt ++ [46] ++ n ++ [46] ++ rest) = .text (reg.named n)) ∧
    (goLower n ∉ reservedNames →
      resolveStyle reg heavy n = .text (reg.named n) ∧
      (∀ rest, resolveStyle reg heavy (n ++ [46] ++ rest) = .text (reg.named n)) ∧
      resolveStyle reg heavy (bytesOfString "texttable" ++ [46] ++ n) = resolveStyle reg heavy n) := by
  have tt1 : ∀ tt, goLower tt = bytesOfString "texttable" →
      resolveStyle reg heavy (tt ++ [46] ++ n) = .text (reg.named n) := by
    intro tt htt
    rw [bytes_texttable] at htt
    have httdot : (46 : UInt8) ∉ tt := nodot_of_goLower htt (by decide)
    have h : splitDot (tt ++ [46] ++ n) = tt :: n :: [] := by
      rw [List.append_assoc, List.singleton_append, splitDot_append_dot httdot, splitDot_nodot hdot]
    exact resolveStyle_tt_cons reg heavy h htt
  refine ⟨?_, ?_⟩
  · intro tt rest htt
    refine ⟨tt1 tt htt, ?_⟩
    rw [bytes_texttable] at htt
    have httdot : (46 : UInt8) ∉ tt := nodot_of_goLower htt (by decide)
    have h : splitDot (tt ++ [46] ++ n ++ [46] ++ rest) = tt :: n :: splitDot rest := by
      have : tt ++ [46] ++ n ++ [46] ++ rest = tt ++ 46 :: (n ++ 46 :: rest) := by simp
      rw [this, splitDot_append_dot httdot, splitDot_append_dot hdot]
    exact resolveStyle_tt_cons reg heavy h htt
  · intro hres
    rw [reservedNames, reserved_lit] at hres
    have b1 : resolveStyle reg heavy n = .text (reg.named n) :=
      resolveStyle_other reg heavy (splitDot_nodot hdot) hres
    refine ⟨b1, ?_, ?_⟩
    · intro rest
      have h : splitDot (n ++ [46] ++ rest) = n :: splitDot rest := by
        rw [List.append_assoc, List.singleton_append, splitDot_append_dot hdot]
      exact resolveStyle_other reg heavy h hres
    · rw [b1]
      exact tt1 _ (by rw [bytes_texttable]; decide)

/-- Plain `texttable` (any casing) selects the default decoration. -/
theorem c19_default (reg : Registry) (heavy : Decoration) (tt : Bytes)
    (htt : goLower tt = bytesOfString "texttable") :
    resolveStyle reg heavy tt = .text heavy := by
  rw [bytes_texttable] at htt
  have httdot : (46 : UInt8) ∉ tt := nodot_of_goLower htt (by decide)
  exact resolveStyle_tt_nil reg heavy (splitDot_nodot httdot) htt

/-- An unknown name (not registered, dot-free, not a sub-package name) resolves to a text table
carrying the EMPTY decoration, bare or `texttable.`-prefixed, and that table refuses to render
(`c17_fail_closed`): `noDecoration` error, nothing written, no callback run, `Render` = "". -/
theorem c19_unknown (reg : Registry) (heavy : Decoration) (n : Bytes)
    (hn : n ∉ reg.names) (hdot : NoDot n) :
    (∀ tt, goLower tt = bytesOfString "texttable" →
      resolveStyle reg heavy (tt ++ [46] ++ n) = .text emptyDecoration) ∧
    (goLower n ∉ reservedNames →
      resolveStyle reg heavy n = .text emptyDecoration ∧
      ∀ (x : Ext) (w : World) (core : Nat),
        (World.renderTo x w ((resolveStyle reg heavy n).wrapper core)).2.res
          = .error (.err .noDecoration) ∧
        (World.renderTo x w ((resolveStyle reg heavy n).wrapper core)).2.chunks = [] ∧
        (World.renderTo x w ((resolveStyle reg heavy n).wrapper core)).1 = w ∧
        World.renderString (World.renderTo x w ((resolveStyle reg heavy n).wrapper core)).2
          = ([], some (.err .noDecoration))) := by
  have he : reg.named n = emptyDecoration :=
    named_of_not_mem (fun hm => hn (mem_names.mpr hm))
  refine ⟨?_, ?_⟩
  · intro tt htt
    rw [((c19_alias reg heavy n hdot).1 tt [] htt).1, he]
  · intro hres
    have h1 : resolveStyle reg heavy n = .text emptyDecoration := by
      rw [((c19_alias reg heavy n hdot).2 hres).1, he]
    refine ⟨h1, ?_⟩
    intro x w core
    rw [h1]
    exact (c17_fail_closed reg n x w).2.1 _ rfl rfl

/-- Every listed style that is one of the four renderer names or `Plain` resolves to a format that
does not refuse to render: the renderer of that name, resp. a text table with the non-empty
decoration registered under that name.  (That those renderers then produce a well-formed table is
C05/C06/C07/C08/C03.) -/
theorem c19_listed_ok (reg : Registry) (heavy : Decoration) (s : Bytes)
    (_hs : s ∈ listStyles reg) (hok : Plain reg s ∨ s ∈ formatNames) :
    resolveStyle reg heavy s ≠ .text emptyDecoration ∧
    (Plain reg s → resolveStyle reg heavy s = .text (reg.named s) ∧ (s, reg.named s) ∈ reg) ∧
    (s = bytesOfString "csv" → resolveStyle reg heavy s = .csv) ∧
    (s = bytesOfString "html" → resolveStyle reg heavy s = .html) ∧
    (s = bytesOfString "markdown" → resolveStyle reg heavy s = .markdown) ∧
    (s = bytesOfString "json" → resolveStyle reg heavy s = .json) := by
  have sp := c19_subpackage reg heavy
  have hp : Plain reg s → resolveStyle reg heavy s = .text (reg.named s) ∧ (s, reg.named s) ∈ reg :=
    fun h => ⟨((c19_alias reg heavy s h.1).2 h.2.1).1, mem_of_named_ne_empty h.2.2⟩
  refine ⟨?_, hp, fun e => e ▸ sp.1, fun e => e ▸ sp.2.1, fun e => e ▸ sp.2.2.1, fun e => e ▸ sp.2.2.2.1⟩
  rcases hok with h | h
  · rw [(hp h).1]
    intro e; exact h.2.2 (Format.text.inj e)
  · simp only [formatNames, List.mem_cons, List.not_mem_nil, or_false] at h
    rcases h with rfl | rfl | rfl | rfl
    · rw [sp.1]; exact Format.noConfusion
    · rw [sp.2.1]; exact Format.noConfusion
    · rw [sp.2.2.1]; exact Format.noConfusion
    · rw [sp.2.2.2.1]; exact Format.noConfusion

/-- If every registered entry is plain (dot-free name that does not case-fold to a sub-package
name, non-empty decoration), then EVERY listed style resolves to a format that does not refuse. -/
theorem c19_listed_ok_all (reg : Registry) (heavy : Decoration)
    (hreg : ∀ p ∈ reg, NoDot p.1 ∧ goLower p.1 ∉ reservedNames ∧ p.2 ≠ emptyDecoration)
    (s : Bytes) (hs : s ∈ listStyles reg) :
    (Plain reg s ∨ s ∈ formatNames) ∧ resolveStyle reg heavy s ≠ .text emptyDecoration := by
  have hok : Plain reg s ∨ s ∈ formatNames := by
    rcases ((c19_listing reg).2.2.2.2.2.2.2.1 s).mp hs with h | h
    · have hm := mem_of_mem_keys (mem_names.mp h)
      have := hreg _ hm
      exact .inl ⟨this.1, this.2.1, this.2.2⟩
    · exact .inr h
  exact ⟨hok, (c19_listed_ok reg heavy s hs hok).1⟩

/-! ### non-vacuity, and the recorded findings, on small concrete registries -/

def c19D : Decoration := { horizontal := [45], vertical := [124] }
def c19Heavy : Decoration := { horizontal := [61] }
/-- `[("light", c19D)]` -/
def c19Reg : Registry := [([108, 105, 103, 104, 116], c19D)]

-- `Plain` is satisfiable, and such a name is listed
example : Plain c19Reg [108, 105, 103, 104, 116] :=
  ⟨by decide, by rw [reservedNames, reserved_lit]; decide, by decide⟩
example : ([108, 105, 103, 104, 116] : Bytes) ∈ listStyles c19Reg := by rw [listStyles_lit]; decide
example : ∀ p ∈ c19Reg, NoDot p.1 ∧ goLower p.1 ∉ reservedNames ∧ p.2 ≠ emptyDecoration := by
  rw [reservedNames, reserved_lit]; decide
example : listStyles c19Reg = [bCsv, bHtml, bJson, [108, 105, 103, 104, 116], bMarkdown] := by
  rw [listStyles_lit]; decide
example : (c19Reg.map Prod.fst).Nodup ∧ ∀ s ∈ formatNames, s ∉ c19Reg.map Prod.fst := by
  rw [formatNames, bytes_csv, bytes_html, bytes_markdown, bytes_json]; decide
-- `c19_subpackage`: "CsV.x.y" has first section "CsV", which lower-cases to "csv"
example : goLower (firstSection [67, 115, 86, 46, 120, 46, 121]) = bytesOfString "csv" := by
  rw [bytes_csv]; decide
example : resolveStyle c19Reg c19D [67, 115, 86, 46, 120, 46, 121] = .csv := by
  rw [resolveStyle_lit]; decide
-- ... and the ASCII variant is pure ASCII, where `goLower` is the ASCII fold
example : (∀ b ∈ ([67, 115, 86] : Bytes), b < 128) ∧ asciiLower [67, 115, 86] = bCsv := by decide
-- "mar\u212Adown" (KELVIN SIGN, E2 84 AA) folds to "markdown" and selects the markdown renderer, as in Go
example : goLower [109, 97, 114, 0xE2, 0x84, 0xAA, 100, 111, 119, 110] = bytesOfString "markdown" := by
  rw [bytes_markdown]; decide
example : resolveStyle c19Reg c19D [109, 97, 114, 0xE2, 0x84, 0xAA, 100, 111, 119, 110] = .markdown := by
  rw [resolveStyle_lit]; decide
-- LONG S (U+017F, C5 BF) does NOT fold to `s`: "c\u017Fv" is an ordinary decoration name
example : goLower [99, 0xC5, 0xBF, 118] = [99, 0xC5, 0xBF, 118] ∧
    resolveStyle c19Reg c19D [99, 0xC5, 0xBF, 118] = .text (c19Reg.named [99, 0xC5, 0xBF, 118]) ∧
    resolveStyle [([99, 0xC5, 0xBF, 118], c19D)] c19Heavy [99, 0xC5, 0xBF, 118] = .text c19D := by
  rw [resolveStyle_lit, resolveStyle_lit]; decide
-- `c19_alias` / `c19_default`: "TextTable" lower-cases to "texttable"
example : goLower [84, 101, 120, 116, 84, 97, 98, 108, 101] = bytesOfString "texttable" := by
  rw [bytes_texttable]; decide
example : NoDot [108, 105, 103, 104, 116] ∧ goLower [108, 105, 103, 104, 116] ∉ reservedNames :=
  ⟨by decide, by rw [reservedNames, reserved_lit]; decide⟩
-- `c19_unknown`: "nope" is not registered, has no dot, is not reserved
example : ([110, 111, 112, 101] : Bytes) ∉ c19Reg.names ∧ NoDot [110, 111, 112, 101] ∧
    goLower [110, 111, 112, 101] ∉ reservedNames :=
  ⟨by decide, by decide, by rw [reservedNames, reserved_lit]; decide⟩

/-! #### Recorded findings (D21): listed names outside `Plain` that `auto` cannot reach -/

/-- `[("my.style", c19D)]` -/
def c19KfDotted : Registry := [([109, 121, 46, 115, 116, 121, 108, 101], c19D)]
/-- `[("empty", Decoration{})]` -/
def c19KfEmpty : Registry := [([101, 109, 112, 116, 121], emptyDecoration)]
/-- `[("CSV", c19D)]` -/
def c19KfFold : Registry := [([67, 83, 86], c19D)]
/-- `[("texttable", c19D)]` -/
def c19KfTT : Registry := [([116, 101, 120, 116, 116, 97, 98, 108, 101], c19D)]

/-- KF 1, a dotted registered name: `"my.style"` is listed and bound to a non-empty decoration, but
`auto.New("my.style")` looks up `"my"` and yields a table that refuses to render. -/
example :
    ([109, 121, 46, 115, 116, 121, 108, 101] : Bytes) ∈ listStyles c19KfDotted ∧
    c19KfDotted.named [109, 121, 46, 115, 116, 121, 108, 101] = c19D ∧
    ¬ NoDot [109, 121, 46, 115, 116, 121, 108, 101] ∧
    resolveStyle c19KfDotted c19D [109, 121, 46, 115, 116, 121, 108, 101] = .text emptyDecoration := by
  rw [listStyles_lit, resolveStyle_lit]; decide

/-- KF 2, a name registered with the empty decoration: `"empty"` is listed, resolves to the empty
decoration and refuses to render. -/
example :
    ([101, 109, 112, 116, 121] : Bytes) ∈ listStyles c19KfEmpty ∧
    NoDot [101, 109, 112, 116, 121] ∧
    resolveStyle c19KfEmpty c19D [101, 109, 112, 116, 121] = .text emptyDecoration := by
  rw [listStyles_lit, resolveStyle_lit]; decide

/-- KF 3, a registered name that case-folds to a sub-package name: `"CSV"` is listed as a decoration,
but bare `"CSV"` selects the csv renderer while `"texttable.CSV"` selects the decoration: the
documented alias does not hold for it. -/
example :
    ([67, 83, 86] : Bytes) ∈ listStyles c19KfFold ∧
    resolveStyle c19KfFold c19D [67, 83, 86] = .csv ∧
    resolveStyle c19KfFold c19D ([116, 101, 120, 116, 116, 97, 98, 108, 101] ++ [46] ++ [67, 83, 86]) = .text c19D := by
  rw [listStyles_lit, resolveStyle_lit, resolveStyle_lit]; decide

/-- the same class through the non-ASCII fold: a decoration registered as `"mar\u212Adown"` (KELVIN
SIGN) is listed, but that style string selects the markdown renderer -/
example :
    ([109, 97, 114, 0xE2, 0x84, 0xAA, 100, 111, 119, 110] : Bytes) ∈
      listStyles [([109, 97, 114, 0xE2, 0x84, 0xAA, 100, 111, 119, 110], c19D)] ∧
    resolveStyle [([109, 97, 114, 0xE2, 0x84, 0xAA, 100, 111, 119, 110], c19D)] c19Heavy
      [109, 97, 114, 0xE2, 0x84, 0xAA, 100, 111, 119, 110] = .markdown := by
  rw [listStyles_lit, resolveStyle_lit]; decide

/-- the same class, with `texttable` itself as the registered name: bare `"texttable"` selects the
default decoration, not the registered one -/
example :
    ([116, 101, 120, 116, 116, 97, 98, 108, 101] : Bytes) ∈ listStyles c19KfTT ∧
    resolveStyle c19KfTT c19Heavy [116, 101, 120, 116, 116, 97, 98, 108, 101] = .text c19Heavy ∧
    c19Heavy ≠ c19D ∧
    c19KfTT.named [116, 101, 120, 116, 116, 97, 98, 108, 101] = c19D := by
  rw [listStyles_lit, resolveStyle_lit]; decide

/-- and a decoration registered as `"csv"` makes the listing contain `"csv"` twice -/
example : listStyles [(bCsv, c19D)] = [bCsv, bCsv, bHtml, bJson, bMarkdown] := by
  rw [listStyles_lit]; decide

end Tab
