/-
  C03 — A rendered text table is a rectangle whose columns fit their widest cell.

  Objects: `renderTextBody d v : Emit Unit` (Model/Text.lean, = `TextTable.RenderTo` after the
  callbacks pass) writes one chunk per line.  Spec-side definitions (segments, `specChunks`,
  `colWidth`, `CellOK`, `GlyphOK`, …) are in `Tabmodel/Spec/Text.lean`; `WFShape` in
  `Tabmodel/Spec/Shape.lean`.  All widths are SEGMENT SUMS (`segWidth`): `dw` is applied to single
  glyphs only, never to a concatenation, except in `c03_whole_line*`, which carry the explicit
  additivity hypothesis `AdditiveOn` (false for go-runewidth on some inputs: known finding D20).
-/
import Tabmodel.Proofs.TextExample
namespace Tab
open Emit

/-! ### the render succeeds and writes exactly the specified chunk list -/

/-- No error, no panic: under the shape/alignment hypotheses and a complete (or boxless) decoration
    the render returns `.ok ()`.  (`CellOK` is used only for "every laid-out width is ≥ 0".) -/
theorem c03_ok (dw : Measure) (d : Decoration) (v : RTable)
    (hn : 1 ≤ v.ncols) (hs : WFShape v) (ha : AlignOK v) (hd : DecoOK dw d)
    (hv : ∀ c ∈ v.allCells, CellOK dw c) :
    (renderTextBody d v).res = .ok () :=
  (renderTextBody_eq d v hn hs ha hd.divs_header hd.divs_body (fun c hc => (hv c hc).nonneg)).1

/-- Line structure: the chunk list is `specChunks d v`, i.e. top rule; if a header is present its
    content lines then the header rule; per body row one rule if separator, else its content lines;
    bottom rule — computed with the spec column widths and effective alignments. -/
theorem c03_line_structure (dw : Measure) (d : Decoration) (v : RTable)
    (hn : 1 ≤ v.ncols) (hs : WFShape v) (ha : AlignOK v) (hd : DecoOK dw d)
    (hv : ∀ c ∈ v.allCells, CellOK dw c) :
    (renderTextBody d v).chunks =
      (match v.header with
       | some hs => lineHeaderTop d v.colWidths ::
           (rowChunks d.vHeader d.vHeader d.vHeader v.colWidths v.effAligns hs v.ncols
             ++ [lineHeaderBodySep d v.colWidths])
       | none => [lineBodyTop d v.colWidths]) ++
      v.rows.flatMap (fun r => match r with
        | none => [lineSeparator d v.colWidths]
        | some cells =>
          rowChunks d.vBodyBorder d.vBodyInner d.vBodyBorder v.colWidths v.effAligns cells v.ncols) ++
      [lineBottom d v.colWidths] :=
  (renderTextBody_eq d v hn hs ha hd.divs_header hd.divs_body (fun c hc => (hv c hc).nonneg)).2

/-- A row contributes `max 1 (max over its first ncols cells of lws.length)` content lines, and
    line `k` of the row is the content line built from the row's `k`-th slots. -/
theorem c03_row_line_count (L I R : Bytes) (cw al : List Nat) (cells : List RCell) (n : Nat) :
    (rowChunks L I R cw al cells n).length
        = max 1 (maxNat ((cells.take n).map (fun c => c.lws.length))) ∧
    ∀ k, k < (rowChunks L I R cw al cells n).length →
      (rowChunks L I R cw al cells n)[k]? = some (contentLine L I R (rowSlots cw al cells k)) := by
  refine ⟨by rw [rowChunks_length, rowLineCount_eq], ?_⟩
  intro k hk
  rw [rowChunks_length] at hk
  exact rowChunks_getElem? L I R cw al cells n k hk

/-- For a boxless decoration every rule chunk is empty, so only content lines reach the output. -/
theorem c03_boxless_rules_empty (d : Decoration) (hb : d.isBoxless = true) (cw : List Nat) :
    lineHeaderTop d cw = [] ∧ lineHeaderBodySep d cw = [] ∧ lineBodyTop d cw = [] ∧
    lineBottom d cw = [] ∧ lineSeparator d cw = [] :=
  ⟨templateLine_boxless d cw _ _ _ _ hb, templateLine_boxless d cw _ _ _ _ hb,
   templateLine_boxless d cw _ _ _ _ hb, templateLine_boxless d cw _ _ _ _ hb,
   templateLine_boxless d cw _ _ _ _ hb⟩

/-! ### column widths -/

/-- The widths the renderer computes (`ttColumnWidths`, no panic) are, after the `toNat` the emitter
    applies, exactly `colWidth v i` for `i < ncols`: the maximum of 0 and the `cellWidth` of every
    header / body cell of column `i` — an upper bound of all of them that is attained (or is 0). -/
theorem c03_column_widths (v : RTable) (hs : WFShape v) :
    (∃ wsI, ttColumnWidths v = .ok wsI ∧ wsI.map Int.toNat = (List.range v.ncols).map v.colWidth) ∧
    (∀ i, ∀ c ∈ v.colCells i, c.cellWidth ≤ (v.colWidth i : Int)) ∧
    (∀ i, v.colWidth i = 0 ∨ ∃ c ∈ v.colCells i, c.cellWidth = (v.colWidth i : Int)) :=
  ⟨ttColumnWidths_eq v hs, fun i c hc => colWidth_ge v i c hc, fun i => colWidth_attained v i⟩

/-- With measured cells (`cellWidth = longestLine dw text`, what `dimProps` stores for items that
    declare no width) the column width is exactly the widest text line of the column. -/
theorem c03_column_widths_text (dw : Measure) (v : RTable) (i : Nat)
    (hm : ∀ c ∈ v.colCells i, c.cellWidth = (longestLine dw c.text : Nat)) :
    v.colWidth i = maxNat ((v.colCells i).flatMap (fun c => (lines c.text).map dw)) := by
  rw [maxNat_flatMap]
  unfold RTable.colWidth
  congr 1
  apply List.map_congr_left
  intro c hc
  rw [hm c hc, longestLine_eq]
  simp

/-! ### shapes of the lines -/

/-- Each non-boxless rule line is `left ++ (horiz × (cwᵢ + 2), separated by cross) ++ right ++ LF`;
    its segment-sum width is `1 + Σ (cwᵢ + 3)` and its dividers sit at `[0, cw₀+3, cw₀+cw₁+6, …]`. -/
theorem c03_rule_shape (dw : Measure) (d : Decoration) (cw : List Nat) (hg : GlyphOK dw d) (hcw : cw ≠ [])
    (l h x r : Bytes) (hm : (l, h, x, r) ∈ ruleGlyphs d) :
    templateLine d cw l h x r = segBytes (ruleSegs l h x r cw) ++ [LF] ∧
    segWidth dw (ruleSegs l h x r cw) = 1 + (cw.map (· + 3)).sum ∧
    divOffsets dw 0 (ruleSegs l h x r cw) = colOffsets 0 cw := by
  obtain ⟨h1, h2, h3, h4⟩ := hg.rule_one _ hm
  exact ⟨templateLine_boxed d cw l h x r hg.boxed, ruleSegs_width dw l h x r cw hcw h1 h2 h3 h4,
    ruleSegs_offsets dw l h x r cw hcw 0 h1 h2 h3⟩

/-- The five rule lines of the renderer are the `templateLine`s of `ruleGlyphs`. -/
theorem c03_rule_lines (d : Decoration) (cw : List Nat) :
    [lineHeaderTop d cw, lineHeaderBodySep d cw, lineBodyTop d cw, lineBottom d cw, lineSeparator d cw]
      = (ruleGlyphs d).map (fun q => templateLine d cw q.1 q.2.1 q.2.2.1 q.2.2.2) := rfl

/-- Each boxed content line (row `cells`, header or body, line `k`) is
    `joinSP (left :: slot₀ :: inner :: slot₁ :: … :: slotₙ₋₁ :: [right]) ++ LF`; every slot is exactly
    its column wide, so the segment-sum width equals the rule's and the dividers sit at the same
    offsets as on the rule lines. -/
theorem c03_content_shape (dw : Measure) (v : RTable) (L I R : Bytes) (cells : List RCell) (k : Nat)
    (hn : 1 ≤ v.ncols) (hv : ViewOK dw v) (hrow : v.header = some cells ∨ some cells ∈ v.rows)
    (hL : L ≠ []) (h1 : dw L = 1) (h2 : dw I = 1) (h3 : dw R = 1) :
    let slots := rowSlots v.colWidths v.effAligns cells k
    contentLine L I R slots
        = joinSP (L :: ((slots.map SlotD.bytes).intersperse I ++ [R])) ++ [LF] ∧
    contentLine L I R slots = segBytes (boxedSegs L I R slots) ++ [LF] ∧
    slots.map SlotD.width = v.colWidths ∧
    segWidth dw (boxedSegs L I R slots) = 1 + (v.colWidths.map (· + 3)).sum ∧
    divOffsets dw 0 (boxedSegs L I R slots) = colOffsets 0 v.colWidths := by
  intro slots
  have hne := colWidths_ne_nil v hn
  have hsl : slots ≠ [] := lineSlots_ne_nil _ _ _ hne
  have hw : slots.map SlotD.width = v.colWidths := rowSlots_widths dw v cells k hv hrow
  refine ⟨by simp [contentLine, hL], contentLine_boxed L I R slots hL hsl, hw, ?_, ?_⟩
  · rw [boxedSegs_width dw L I R slots hsl h1 h2 h3, hw]; rfl
  · rw [boxedSegs_offsets dw L I R slots hsl 0 h1 h2, hw]

/-- Boxless content line: `joinSP [slot₀, …, slotₙ₋₁] ++ LF`, segment-sum width `Σ cwᵢ + (n − 1)`. -/
theorem c03_content_shape_boxless (dw : Measure) (v : RTable) (I R : Bytes) (cells : List RCell) (k : Nat)
    (hv : ViewOK dw v) (hrow : v.header = some cells ∨ some cells ∈ v.rows) :
    let slots := rowSlots v.colWidths v.effAligns cells k
    contentLine [] I R slots = joinSP (slots.map SlotD.bytes) ++ [LF] ∧
    contentLine [] I R slots = segBytes (boxlessSegs slots) ++ [LF] ∧
    slots.map SlotD.width = v.colWidths ∧
    segWidth dw (boxlessSegs slots) = v.colWidths.sum + (v.colWidths.length - 1) := by
  intro slots
  have hw : slots.map SlotD.width = v.colWidths := rowSlots_widths dw v cells k hv hrow
  refine ⟨by simp [contentLine], contentLine_boxless I R slots, hw, ?_⟩
  rw [boxlessSegs_width, hw]; rfl

/-- The rectangle, assembled for the whole render (boxed decoration): EVERY chunk written is a line
    of segments (+ LF) whose segment-sum width is `1 + Σ (cwᵢ + 3)` and whose dividers sit at
    `[0, cw₀+3, cw₀+cw₁+6, …]`, with `cwᵢ = colWidth v i`. -/
theorem c03_rectangle (dw : Measure) (d : Decoration) (v : RTable)
    (hn : 1 ≤ v.ncols) (hs : WFShape v) (ha : AlignOK v) (hg : GlyphOK dw d) (hv : ViewOK dw v) :
    ∀ ch ∈ (renderTextBody d v).chunks, ∃ segs, ch = segBytes segs ++ [LF] ∧
      segWidth dw segs = 1 + (v.colWidths.map (· + 3)).sum ∧
      divOffsets dw 0 segs = colOffsets 0 v.colWidths := by
  intro ch hch
  rw [(renderTextBody_eq d v hn hs ha hg.divs_header hg.divs_body hv.nonneg).2] at hch
  obtain ⟨segs, h1, h2, h3, _⟩ := lineKind_boxed dw d v ch hg hn hv (specChunks_kinds d v ch hch)
  exact ⟨segs, h1, h2, h3⟩

/-- The rectangle for the boxless decoration: every chunk is empty (a rule) or a line of slots joined
    by single spaces, every slot its column wide, of segment-sum width `Σ cwᵢ + (n − 1)`. -/
theorem c03_rectangle_boxless (dw : Measure) (d : Decoration) (v : RTable)
    (hn : 1 ≤ v.ncols) (hs : WFShape v) (ha : AlignOK v) (hb : BoxlessOK d) (hv : ViewOK dw v) :
    ∀ ch ∈ (renderTextBody d v).chunks, ch = [] ∨ ∃ slots, ch = segBytes (boxlessSegs slots) ++ [LF] ∧
      slots.map SlotD.width = v.colWidths ∧
      segWidth dw (boxlessSegs slots) = v.colWidths.sum + (v.colWidths.length - 1) := by
  intro ch hch
  have hd : DecoOK dw d := Or.inr hb
  rw [(renderTextBody_eq d v hn hs ha hd.divs_header hd.divs_body hv.nonneg).2] at hch
  exact lineKind_boxless dw d v ch hb hv (specChunks_kinds d v ch hch)

/-! ### whole-line width: CONDITIONAL on additivity of `dw` (false for go-runewidth, finding D20) -/

/-- CONDITIONAL.  If `dw` is additive over the atoms of this line (`AdditiveOn`, an explicit
    hypothesis that go-runewidth violates on some inputs — D20), spaces measure their count, and every
    slot's laid-out width is the measure of its text, then `dw` of the concatenated line equals the
    segment sum. -/
theorem c03_whole_line (dw : Measure) (segs : List Seg) (hadd : AdditiveOn dw segs)
    (hsp : ∀ k, dw (spaces k) = k)
    (hm : ∀ lp ws rp, Seg.slot lp ws rp ∈ segs → ws.w = ((dw ws.s : Nat) : Int)) :
    dw (segBytes segs) = segWidth dw segs :=
  dw_segBytes_of_additive dw segs hadd hsp hm

/-- CONDITIONAL, assembled: in a boxed render of a view whose cells are all measured by `dw`, every
    line has a segmentation such that, IF `dw` is additive on it, the line (without LF) measures
    `1 + Σ (cwᵢ + 3)`. -/
theorem c03_whole_line_render (dw : Measure) (d : Decoration) (v : RTable)
    (hn : 1 ≤ v.ncols) (hs : WFShape v) (ha : AlignOK v) (hg : GlyphOK dw d) (hv : ViewOK dw v)
    (hmeas : ∀ c ∈ v.allCells, CellMeasured dw c) (hsp : ∀ k, dw (spaces k) = k) :
    ∀ ch ∈ (renderTextBody d v).chunks, ∃ segs, ch = segBytes segs ++ [LF] ∧
      (AdditiveOn dw segs → dw (segBytes segs) = 1 + (v.colWidths.map (· + 3)).sum) := by
  intro ch hch
  rw [(renderTextBody_eq d v hn hs ha hg.divs_header hg.divs_body hv.nonneg).2] at hch
  obtain ⟨segs, h1, h2, _, h4⟩ := lineKind_boxed dw d v ch hg hn hv (specChunks_kinds d v ch hch)
  refine ⟨segs, h1, fun hadd => ?_⟩
  have h2' : segWidth dw segs = 1 + (v.colWidths.map (· + 3)).sum := h2
  rw [← h2']
  apply dw_segBytes_of_additive dw segs hadd hsp
  intro lp ws rp hmem
  obtain ⟨cells, i, k, hrow, rfl⟩ := h4 lp ws rp hmem
  have h0 : dw [] = 0 := by simpa [spaces] using hsp 0
  unfold cellLineWS
  cases hc : cells[i]? with
  | none => simp [blankWS, h0]
  | some c =>
    simp only [List.getD_eq_getElem?_getD]
    cases hx : c.lws[k]? with
    | none => simp [blankWS, h0]
    | some x =>
      exact hmeas c (mem_allCells v cells c hrow (List.mem_of_getElem? hc)) x (List.mem_of_getElem? hx)

/-! ### Populate completes any decoration -/

/-- For ANY decoration, after `Populate` every glyph field the renderer uses is non-empty (the three
    base glyphs default to "H", "V", "X"); the boxless flag is untouched. -/
theorem c03_populate (d : Decoration) :
    (∀ g ∈ [d.populate.topLeft, d.populate.hOuter, d.populate.hTopDown, d.populate.topRight,
      d.populate.hBLeft, d.populate.hBCross, d.populate.hBRight, d.populate.bTopDown,
      d.populate.bottomLeft, d.populate.bBottomUp, d.populate.bottomRight, d.populate.leftBodyRule,
      d.populate.hRule, d.populate.crossPiece, d.populate.rightBodyRule, d.populate.vHeader,
      d.populate.vBodyBorder, d.populate.vBodyInner], g ≠ []) ∧
    d.populate.isBoxless = d.isBoxless ∧
    (emptyDecoration.populate.horizontal = [72] ∧ emptyDecoration.populate.vertical = [86] ∧
     emptyDecoration.populate.crossPiece = [88]) :=
  ⟨populate_glyphs_ne d, rfl, by decide⟩

/-- `dimProps` (the measuring callback) establishes `CellOK` for the view cell it fills; see also
    `dimSetter_cellOK` (Proofs/TextDims.lean) for the statement inside the world. -/
theorem c03_dimProps_cellOK (dw : Measure) (w : World) (it : Item) (c : Cell)
    (h1 : c.props.get .ttDims = some (World.dimProps dw it c).1)
    (h2 : c.props.get .ttLines = some (World.dimProps dw it c).2) :
    CellOK dw (w.rcell c) ∧
    ((it.mWidth = none ∧ c.width = (longestLine dw c.str : Nat)) ∨
     (it.mWidth.isSome = true ∧ c.lines.length = 1) → CellFits (w.rcell c)) := by
  refine ⟨rcell_cellOK dw w it c h1 h2, ?_⟩
  have e1 : (World.dimProps dw it c).1 = .dims (w.rcell c).cellWidth c.hgt := by
    unfold World.rcell; rw [h1, dimProps_eq]
  have e2 : (World.dimProps dw it c).2 = .lws (w.rcell c).lws := by
    unfold World.rcell; rw [h2, dimProps_eq]
  rintro (⟨ha, hb⟩ | ⟨ha, hb⟩)
  · exact dimProps_fits_measured dw it c _ _ e1 e2 ha hb
  · exact dimProps_fits_single_declared dw it c _ _ e1 e2 ha hb

/-- For an item that declares no width and is not itself a `tabular.Cell`, the cell width `dimProps`
    reports is exactly the widest text line (the premise of `c03_column_widths_text`). -/
theorem c03_dimProps_measured_width (dw : Measure) (it : Item) (c0 : Cell)
    (h1 : ∀ s w h e, it.kind ≠ .cell s w h e) (hd : it.mWidth = none) :
    let c := Cell.update dw it c0
    (World.dimProps dw it c).1 = .dims ((longestLine dw c.str : Nat) : Int) c.hgt := by
  intro c
  have hw : c.width = (longestLine dw c.str : Nat) := update_width_measured dw it c0 h1 hd
  rw [dimProps_eq]
  have : c.termWidth = (longestLine dw c.str : Nat) := by
    unfold Cell.termWidth; rw [hw]; split <;> omega
  rw [this]

/-- Inside the world: running the measuring callback (`dimensionSetter`) on cell `(r, i)` leaves the
    cell's text and sizes unchanged and makes its view cell `CellOK` (in whatever world the view is
    later read: `rcell` reads only the cell's own properties). -/
theorem c03_dimSetter_cellOK (dw : Measure) (w : World) (r i : Nat) (tk : Taker) (ce : Cell)
    (h : w.cell? r i = some ce) :
    ∃ ce', (World.invokeOne dw w .dimSetter (.cell r i) tk).cell? r i = some ce' ∧
      ce'.str = ce.str ∧ ce'.width = ce.width ∧ ce'.height = ce.height ∧
      ∀ w', CellOK dw (World.rcell w' ce') :=
  dimSetter_cellOK dw w r i tk ce h

/-! ### non-vacuity: a concrete view under the ascii-simple and the boxless decoration, `dw := List.length` -/

namespace C03Example
open TextExample

example : (renderTextBody asciiSimple exView).res = .ok () :=
  c03_ok List.length _ _ hn hs ha (Or.inl hg) (fun c hc => (hall c hc).1)
example : (renderTextBody boxlessDeco exView).res = .ok () :=
  c03_ok List.length _ _ hn hs ha (Or.inr hb) (fun c hc => (hall c hc).1)
example : (renderTextBody asciiSimple exView).chunks.length = 8 := by
  rw [c03_line_structure List.length _ _ hn hs ha (Or.inl hg) (fun c hc => (hall c hc).1)]; decide
/-- the rendered table, for the record:
```
+-----+----+
|   a | bb |
+-----+----+
| ccc | e  |
|   d |    |
+-----+----+
|   f |    |
+-----+----+
``` -/
example : (renderTextBody asciiSimple exView).output =
    [43,45,45,45,45,45,43,45,45,45,45,43,10, 124,32,32,32,97,32,124,32,98,98,32,124,10,
     43,45,45,45,45,45,43,45,45,45,45,43,10, 124,32,99,99,99,32,124,32,101,32,32,124,10,
     124,32,32,32,100,32,124,32,32,32,32,124,10, 43,45,45,45,45,45,43,45,45,45,45,43,10,
     124,32,32,32,102,32,124,32,32,32,32,124,10, 43,45,45,45,45,45,43,45,45,45,45,43,10] := by decide
example : exView.colWidths = [3, 2] := by decide
example : ∃ wsI, ttColumnWidths exView = .ok wsI ∧ wsI.map Int.toNat = [3, 2] :=
  (c03_column_widths exView hs).1
example : exView.colWidth 0 = 3 := by
  rw [c03_column_widths_text List.length exView 0 (by
    intro c hc
    simp only [RTable.colCells, bodyColCells, exView] at hc
    simp at hc
    rcases hc with rfl | rfl | rfl <;> rfl)]
  decide
example : (asciiSimple.topLeft, asciiSimple.hOuter, asciiSimple.hTopDown, asciiSimple.topRight)
    ∈ ruleGlyphs asciiSimple := by simp [ruleGlyphs]
example := c03_rule_shape List.length asciiSimple exView.colWidths hg (by decide) _ _ _ _
  (show (asciiSimple.topLeft, asciiSimple.hOuter, asciiSimple.hTopDown, asciiSimple.topRight)
    ∈ ruleGlyphs asciiSimple by simp [ruleGlyphs])
example := c03_content_shape List.length exView asciiSimple.vBodyBorder asciiSimple.vBodyInner
  asciiSimple.vBodyBorder [measuredCell List.length [102]] 0 hn hv (Or.inr (by simp [exView]))
  (by decide) (by decide) (by decide) (by decide)
example := c03_content_shape_boxless List.length exView [] [] [measuredCell List.length [102]] 0 hv
  (Or.inr (by simp [exView]))
example : ∀ ch ∈ (renderTextBody asciiSimple exView).chunks, ∃ segs, ch = segBytes segs ++ [LF] ∧
    segWidth List.length segs = 12 ∧ divOffsets List.length 0 segs = [0, 6, 11] :=
  c03_rectangle List.length _ _ hn hs ha hg hv
example : ∀ ch ∈ (renderTextBody boxlessDeco exView).chunks, ch = [] ∨ ∃ slots,
    ch = segBytes (boxlessSegs slots) ++ [LF] ∧ slots.map SlotD.width = [3, 2] ∧
    segWidth List.length (boxlessSegs slots) = 6 :=
  c03_rectangle_boxless List.length _ _ hn hs ha hb hv
/-- with the (additive) measure `List.length` the conditional theorem fires: every line is 12 wide -/
example : ∀ ch ∈ (renderTextBody asciiSimple exView).chunks, ∃ segs, ch = segBytes segs ++ [LF] ∧
    (segBytes segs).length = 12 := by
  intro ch hch
  obtain ⟨segs, h1, h2⟩ := c03_whole_line_render List.length _ _ hn hs ha hg hv
    (fun c hc => (hall c hc).2.2) hsp ch hch
  exact ⟨segs, h1, h2 (hadd segs)⟩
example : ∀ g ∈ [asciiSimple.topLeft, asciiSimple.vBodyInner], g ≠ [] := by decide
example : List.length (segBytes [.div [124], .sp, .slot 1 ⟨[97], 1⟩ 0, .sp, .div [124]]) = 6 := by
  rw [c03_whole_line List.length _ (hadd _) hsp (by
    intro lp ws rp h
    simp at h
    obtain ⟨_, rfl, _⟩ := h
    rfl)]
  rfl
/-- a cell carrying the two properties written by the measuring callback -/
example : CellOK List.length ((default : World).rcell exCell) :=
  (c03_dimProps_cellOK List.length default exItem exCell rfl rfl).1
example : CellFits ((default : World).rcell exCell) :=
  (c03_dimProps_cellOK List.length default exItem exCell rfl rfl).2 (Or.inl ⟨rfl, by decide⟩)

example : (World.dimProps List.length exItem exCell0).1 = .dims 2 2 := by
  have := c03_dimProps_measured_width List.length exItem { item := 0 }
    (by intro s w h e hk; simp [exItem] at hk) rfl
  exact this
example := c03_dimSetter_cellOK List.length exWorld 0 0 .drop exCell0 rfl

end C03Example

end Tab
