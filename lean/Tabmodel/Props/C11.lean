/-
  C11 — Errors accumulate in the table: none lost, none duplicated, none nil.

  Errors are natural-number ids; Go's nil error is `none : Option Nat`.  An error *list* in the
  model is a `List Nat`: a nil entry is not representable in it, which is the "none nil" part
  of the property once `c11_container` has shown that nil arguments are filtered on the way in.

  Spec definitions used below (defined in `Proofs/C11Defs.lean` because the helper lemmas
  need them; each is restated here by `rfl`): `EC.applyOp`, `EC.opArgs`, `World.mass`,
  `World.live`, `World.unattached`, `World.raises`/`raiseCount`, `World.addQuiet`,
  `World.attachedAll`, and the monitored render traversal `invokeC` … `invokeRenderCallbacksC`.
-/
import Tabmodel.Proofs.C11
namespace Tab
open World

/-! ## Spec definitions, restated -/

theorem c11_def_ops (c : EC) (e : Option Nat) (l : List (Option Nat)) :
    EC.applyOp c (.inl e) = c.addError e ∧ EC.applyOp c (.inr l) = c.addErrorList l ∧
    EC.opArgs (.inl e) = e.toList ∧ EC.opArgs (.inr l) = l.filterMap id := ⟨rfl, rfl, rfl, rfl⟩

/-- error mass: occurrences of `e` in all table lists plus all *own* row containers -/
theorem c11_def_mass (w : World) (e : Nat) :
    mass w e = (w.tables.map (fun tb => tb.errs.count e)).sum
      + (w.rows.map (fun rw => match rw.ec with | .own es => es.count e | _ => 0)).sum := rfl

/-- live takers (the `.drop` taker is never live) -/
theorem c11_def_live (w : World) (t r : Nat) :
    (live w .drop ↔ False) ∧
    (live w (.table t) ↔ t < w.tables.length) ∧
    (live w (.rowOwn r) ↔ ∃ es, (w.row r).ec = .own es) ∧
    (live w (.rowLazy r) ↔ r < w.rows.length ∧ ∀ t, (w.row r).ec = .table t → t < w.tables.length) := by
  refine ⟨Iff.rfl, Iff.rfl, ?_, ?_⟩
  · simp only [live]; cases (w.row r).ec <;> simp
  · simp only [live]; cases (w.row r).ec <;> simp

theorem c11_def_unattached (w : World) (r : Nat) :
    unattached w r ↔ ((w.row r).ec = .none ∨ ∃ es, (w.row r).ec = .own es) := Iff.rfl

/-- the error a callback returns on a target -/
theorem c11_def_raises (tgt : Target) (id e : Nat) (k : Key) (v : Option Val) :
    raises tgt (.log id) = none ∧ raises tgt (.setProp id k v) = none ∧
    raises tgt (.fail id e) = some e ∧
    raises tgt .dimSetter = (match tgt with | .cell _ _ => none | _ => some errTTNotCell) ∧
    raises tgt .widthSetter = (match tgt with | .cell _ _ => none | _ => some errMDNotCell) :=
  ⟨rfl, rfl, rfl, rfl, rfl⟩

theorem c11_def_raiseCount (tgt : Target) (e : Nat) (cbs : List Cb) :
    raiseCount tgt e cbs = (cbs.filter (fun cb => raises tgt cb == some e)).length := rfl

theorem c11_def_attachedAll (w : World) (t : Nat) :
    attachedAll w t ↔ (t < w.tables.length ∧
      (∀ r ∈ (w.table t).rows, (w.row r).ec = .table t) ∧
      (∀ hr ∈ (w.table t).header, (w.row hr).ec = .table t)) := Iff.rfl

/-- number of `.fail _ e` entries of a callback list -/
def failCount (e : Nat) (cbs : List Cb) : Nat :=
  (cbs.filter (fun cb => match cb with | .fail _ e' => e' == e | _ => false)).length

/-! ## Container level (`error_containers.go`) -/

/-- Any sequence of `AddError` / `AddErrorList` calls on a container holding `es₀` (constructed
    or zero value: `es₀ = []`) leaves it holding `es₀` followed by exactly the non-nil arguments,
    in order; on a nil container every call is a no-op. -/
theorem c11_container (c : EC) (ops : List ECOp) :
    (∀ es₀, c = some es₀ → ops.foldl EC.applyOp c = some (es₀ ++ ops.flatMap EC.opArgs)) ∧
    (c = none → ops.foldl EC.applyOp c = none) := by
  constructor
  · intro es₀ hc
    subst hc
    induction ops generalizing es₀ with
    | nil => simp
    | cons op ops ih =>
      have h1 : EC.applyOp (some es₀) op = some (es₀ ++ EC.opArgs op) := by
        cases op with
        | inl e => cases e <;> simp [EC.applyOp, EC.opArgs, EC.addError]
        | inr l => simp [EC.applyOp, EC.opArgs, EC.addErrorList]
      simp only [List.foldl_cons, h1, ih, List.flatMap_cons, List.append_assoc]
  · intro hc
    subst hc
    induction ops with
    | nil => rfl
    | cons op ops ih =>
      have h1 : EC.applyOp none op = none := by
        cases op with
        | inl e => cases e <;> rfl
        | inr l => rfl
      simp only [List.foldl_cons, h1, ih]

/-- `Errors()` is nil or a non-empty list, never an empty non-nil list; it is nil exactly when
    the container is nil or holds nothing; otherwise it is the content.  Entries are plain ids:
    the list type `List Nat` has no nil entry. -/
theorem c11_errors_view (c : EC) :
    (EC.errors c = none ∨ ∃ l, EC.errors c = some l ∧ l ≠ []) ∧
    EC.errors c ≠ some [] ∧
    (EC.errors c = none ↔ (c = none ∨ c = some [])) ∧
    (∀ l, EC.errors c = some l → c = some l) := by
  cases c with
  | none => simp [EC.errors]
  | some es => cases es <;> simp [EC.errors]

/-- the two together: what `Errors()` shows after any history on a non-nil container -/
theorem c11_container_view (es₀ : List Nat) (ops : List ECOp) :
    EC.errors (ops.foldl EC.applyOp (some es₀)) =
      if es₀ ++ ops.flatMap EC.opArgs = [] then none else some (es₀ ++ ops.flatMap EC.opArgs) := by
  rw [(c11_container (some es₀) ops).1 es₀ rfl]
  generalize es₀ ++ ops.flatMap EC.opArgs = l
  cases l <;> simp [EC.errors]

/-! ## Table level: conservation of error mass -/

/-- An `AddError` through a live taker adds exactly one occurrence of `e` to the world and
    leaves every other id's mass unchanged. -/
theorem c11_raise_once (w : World) (tk : Taker) (e : Nat) (h : live w tk) :
    mass (addErrTo w tk e) e = mass w e + 1 ∧
    ∀ e', e' ≠ e → mass (addErrTo w tk e) e' = mass w e' := by
  constructor
  · simpa using mass_addErrTo w tk e e h
  · intro e' hne; simpa [hne] using mass_addErrTo w tk e e' h

/-- The typed-nil container: `.drop` loses the error.  Among the model's call sites a `.drop`
    taker can only come from `rowECTaker`, and only for a row with no container at all; for a
    row sharing a valid table's container, or owning one, `rowECTaker` is live. -/
theorem c11_raise_drop (w : World) (r : Nat) (e : Nat) :
    addErrTo w .drop e = w ∧
    (rowECTaker w r = .drop ↔ (w.row r).ec = .none) ∧
    (∀ t, (w.row r).ec = .table t → t < w.tables.length → live w (rowECTaker w r)) ∧
    (∀ es, (w.row r).ec = .own es → live w (rowECTaker w r)) := by
  refine ⟨rfl, ?_, ?_, ?_⟩
  · simp only [rowECTaker]; cases (w.row r).ec <;> simp
  · intro t h ht; simp only [rowECTaker, h]; exact ht
  · intro es h; simp only [rowECTaker, h, live]

/-- Attached rows share the table's container: after `addRow` (whatever the callbacks do),
    `addSeparator` and `addHeaders` the row / separator / header row has `ec = .table t`. -/
theorem c11_attached_ec (dw : Measure) (w : World) (t r : Nat) (items : List Nat) :
    (r < w.rows.length → ((addRow dw w t r).row r).ec = .table t) ∧
    ((addSeparator w t).row w.rows.length).ec = .table t ∧
    ((addSeparator w t).row w.rows.length).cells = none ∧
    ((addHeaders dw w t items).row w.rows.length).ec = .table t := by
  refine ⟨?_, ?_, ?_, ?_⟩
  · intro hr
    rw [addRow_eq]
    exact ((addRowCbs_stable dw _ t r).ecT r t).mp (addRowCore_ec w t r hr)
  · simp only [addSeparator, newRow]
    rw [row_modRow_self _ _ _ (by simp)]
  · simp only [addSeparator, newRow]
    rw [row_modRow_self _ _ _ (by simp)]
    simp only [row_modTable]
    exact congrArg Row.cells (getD_append_length w.rows _ _)
  · unfold addHeaders
    simp only [newRow, modTable_rows]
    refine ((Stable.trans (invoke_stable dw _ _ _ _) (addTimeCells_stable dw t _ _ _ _ _)).ecT _ t).mp ?_
    rw [row_modTable]
    refine ((rowAddMany_stable dw _ _ _).ecT _ t).mp ?_
    exact congrArg Row.ec (getD_append_length w.rows _ _)

/-- `addRow` of a not yet attached row, when every add-time callback only logs (or there are
    none): the row's own errors move to the table exactly once — every id's mass is unchanged —
    the table's list is its old list followed by the row's own errors in order, the row now
    shares the table's container and reports the table's list. -/
theorem c11_attach_conserves (dw : Measure) (w : World) (t r : Nat)
    (ht : t < w.tables.length) (hr : r < w.rows.length) (hu : unattached w r)
    (hq : addQuiet w t r = true) :
    (∀ e, mass (addRow dw w t r) e = mass w e) ∧
    ((addRow dw w t r).table t).errs = (w.table t).errs ++ rowErrors w r ∧
    ((addRow dw w t r).row r).ec = .table t ∧
    rowErrors (addRow dw w t r) r = ((addRow dw w t r).table t).errs ∧
    (∀ t', t' ≠ t → ((addRow dw w t r).table t').errs = (w.table t').errs) ∧
    (∀ r', r' ≠ r → ((addRow dw w t r).row r').ec = (w.row r').ec) := by
  obtain ⟨evs, hev⟩ := addRow_quiet dw w t r hq
  have hec : ((addRow dw w t r).row r).ec = .table t := by
    rw [hev]; exact addRowCore_ec w t r hr
  refine ⟨?_, ?_, hec, ?_, ?_, ?_⟩
  · intro e; rw [hev]; exact addRowCore_mass w t r ht hr hu e
  · rw [hev]; exact addRowCore_errs w t r ht hu
  · simp only [rowErrors, hec]
  · intro t' hne; rw [hev]; exact addRowCore_errs_ne w t r t' (Ne.symm hne)
  · intro r' hne; rw [hev]; exact addRowCore_ec_ne w t r r' (Ne.symm hne)

/-- `addRow` with arbitrary callbacks: nothing is lost (the mass of every id is at least what it
    was), the table's list starts with its old list followed by the row's own errors in order
    (whatever the callbacks raise comes after), and the row shares the table's container. -/
theorem c11_attach_no_loss (dw : Measure) (w : World) (t r : Nat)
    (ht : t < w.tables.length) (hr : r < w.rows.length) (hu : unattached w r) :
    (∀ e, mass w e ≤ mass (addRow dw w t r) e) ∧
    (∃ l, ((addRow dw w t r).table t).errs = (w.table t).errs ++ rowErrors w r ++ l) ∧
    ((addRow dw w t r).row r).ec = .table t := by
  refine ⟨?_, ?_, (c11_attached_ec dw w t r []).1 hr⟩
  · intro e
    rw [addRow_eq]
    refine (addRowCbs_geR dw t r e (mass w e) (addRowCore w t r) ⟨?_, ?_, ?_⟩).2.2
    · rw [addRowCore_tables_length]; exact ht
    · exact addRowCore_ec w t r hr
    · rw [addRowCore_mass w t r ht hr hu e]; exact Nat.le_refl _
  · rw [addRow_eq]
    obtain ⟨l, hl⟩ := (addRowCbs_stable dw (addRowCore w t r) t r).terrs t
    exact ⟨l, by rw [hl, addRowCore_errs w t r ht hu]⟩

/-! ## Callbacks -/

/-- A failing callback invoked with a live taker logs one event and adds exactly one `e`;
    a logging callback logs one event and adds nothing. -/
theorem c11_fail_callback (dw : Measure) (w : World) (id e : Nat) (tgt : Target) (tk : Taker)
    (h : live w tk) :
    (mass (invokeOne dw w (.fail id e) tgt tk) e = mass w e + 1 ∧
     (∀ e', e' ≠ e → mass (invokeOne dw w (.fail id e) tgt tk) e' = mass w e') ∧
     (invokeOne dw w (.fail id e) tgt tk).events = w.events ++ [⟨id, tgt⟩]) ∧
    ((∀ e', mass (invokeOne dw w (.log id) tgt tk) e' = mass w e') ∧
     (invokeOne dw w (.log id) tgt tk).events = w.events ++ [⟨id, tgt⟩]) := by
  refine ⟨⟨?_, ?_, ?_⟩, ?_, rfl⟩
  · simpa [raises] using mass_invokeOne dw w (.fail id e) tgt tk e h
  · intro e' hne
    have := mass_invokeOne dw w (.fail id e) tgt tk e' h
    simpa [raises, Ne.symm hne] using this
  · simp only [invokeOne]
    cases tk with
    | drop => rfl
    | table t => rfl
    | rowOwn r => rfl
    | rowLazy r => simp only [addErrTo]; split <;> rfl
  · intro e'; simpa [raises] using mass_invokeOne dw w (.log id) tgt tk e' h

/-- `invokePropertyCallbacks` with a live taker: the mass of `e` grows by exactly the number of
    callbacks of the list that return `e` on this target (all five kinds of callback). -/
theorem c11_invoke_mass (dw : Measure) (w : World) (cbs : List Cb) (tgt : Target) (tk : Taker)
    (e : Nat) (h : live w tk) :
    mass (invoke dw w cbs tgt tk) e = mass w e + raiseCount tgt e cbs :=
  mass_invoke dw w cbs tgt tk e h

/-- … in particular, for user callbacks that log or fail, by the number of `.fail _ e` entries. -/
theorem c11_invoke_mass_fail (dw : Measure) (w : World) (cbs : List Cb) (tgt : Target) (tk : Taker)
    (e : Nat) (h : live w tk)
    (hcbs : cbs.all (fun cb => match cb with | .log _ => true | .fail _ _ => true | _ => false) = true) :
    mass (invoke dw w cbs tgt tk) e = mass w e + failCount e cbs := by
  rw [mass_invoke dw w cbs tgt tk e h]
  have key : ∀ cb : Cb,
      (match cb with | .log _ => true | .fail _ _ => true | _ => false) = true →
      (raises tgt cb == some e) = (match cb with | .fail _ e' => e' == e | _ => false) := by
    intro cb hcb
    cases cb <;> simp [raises] at hcb ⊢
  simp only [raiseCount, failCount]
  congr 2
  apply List.filter_congr
  intro cb hmem
  exact key cb (List.all_eq_true.mp hcbs cb hmem)

/-- A taker that is live when `invoke` starts is live at every callback of the list. -/
theorem c11_live_invoke (dw : Measure) (w : World) (cbs : List Cb) (tgt : Target) (tk : Taker)
    (h : live w tk) (k : Nat) : live (invoke dw w (cbs.take k) tgt tk) tk :=
  live_of_stable (invoke_stable dw w _ tgt tk) tk h

/-- `Row.Add(cell)` on a cell row, attached or not: the row's add-time cell callbacks run with
    the row itself as taker (lazily allocating), so the mass of `e` grows by exactly the number
    of callbacks that return `e` — none is dropped before the row joins a table. -/
theorem c11_add_cell_mass (dw : Measure) (w : World) (r : Nat) (ce : Cell) (cs : List Cell)
    (hc : (w.row r).cells = some cs) (hl : live w (.rowLazy r)) (e : Nat) :
    mass (rowAddCell dw w r ce) e
      = mass w e + raiseCount (.cell r cs.length) e ((w.row r).cellCbs.at .add) :=
  rowAddCell_mass dw w r ce cs hc hl e

/-- Every error list is only ever appended to by callback invocations and by `Row.Add`
    (so errors of one source keep their order of occurrence, and nothing recorded is removed
    or duplicated later): table lists and own row containers alike. -/
theorem c11_append_only (dw : Measure) (w : World) (cbs : List Cb) (tgt : Target) (tk : Taker)
    (r : Nat) (ce : Cell) :
    (∀ t', ∃ l, ((invoke dw w cbs tgt tk).table t').errs = (w.table t').errs ++ l) ∧
    (∀ r' es, (w.row r').ec = .own es → ∃ l, ((invoke dw w cbs tgt tk).row r').ec = .own (es ++ l)) ∧
    (∀ t', ∃ l, ((rowAddCell dw w r ce).table t').errs = (w.table t').errs ++ l) ∧
    (∀ r' es, (w.row r').ec = .own es → ∃ l, ((rowAddCell dw w r ce).row r').ec = .own (es ++ l)) :=
  ⟨(invoke_stable dw w cbs tgt tk).terrs, (invoke_stable dw w cbs tgt tk).ecO,
   (rowAddCell_stable dw w r ce).terrs, (rowAddCell_stable dw w r ce).ecO⟩

/-! ## Misuse: adding a cell to a separator / zero-value row -/

/-- `Row.Add` on a row without a cell slice leaves all cells untouched and raises exactly one
    `errNonCellRow` through the row itself. -/
theorem c11_misuse (dw : Measure) (w : World) (r : Nat) (ce : Cell)
    (hc : (w.row r).cells = none) :
    rowAddCell dw w r ce = addErrTo w (.rowLazy r) errNonCellRow ∧
    (∀ r', ((rowAddCell dw w r ce).row r').cells = (w.row r').cells) ∧
    (live w (.rowLazy r) →
      mass (rowAddCell dw w r ce) errNonCellRow = mass w errNonCellRow + 1 ∧
      ∀ e', e' ≠ errNonCellRow → mass (rowAddCell dw w r ce) e' = mass w e') := by
  have h0 : rowAddCell dw w r ce = addErrTo w (.rowLazy r) errNonCellRow := by
    simp only [rowAddCell, hc]
  refine ⟨h0, ?_, ?_⟩
  · intro r'
    rw [h0]
    simp only [addErrTo]
    split
    · refine row_modRow_proj _ _ _ (·.cells) ?_ _; intro _; rfl
    · refine row_modRow_proj _ _ _ (·.cells) ?_ _; intro _; rfl
    · rfl
  · intro hl; rw [h0]; exact c11_raise_once w _ _ hl

/-- … on an attached row (separators carry the table's container) it lands at the end of the
    table's list, which is also what the row reports. -/
theorem c11_misuse_attached (dw : Measure) (w : World) (r t : Nat) (ce : Cell)
    (hc : (w.row r).cells = none) (hec : (w.row r).ec = .table t) (ht : t < w.tables.length) :
    ((rowAddCell dw w r ce).table t).errs = (w.table t).errs ++ [errNonCellRow] ∧
    rowErrors (rowAddCell dw w r ce) r = rowErrors w r ++ [errNonCellRow] ∧
    ((rowAddCell dw w r ce).row r).ec = .table t := by
  have h0 := (c11_misuse dw w r ce hc).1
  have h1 : rowAddCell dw w r ce
      = w.modTable t (fun tb => { tb with errs := tb.errs ++ [errNonCellRow] }) := by
    rw [h0]; simp only [addErrTo, hec]
  have h2 : ((rowAddCell dw w r ce).table t).errs = (w.table t).errs ++ [errNonCellRow] := by
    rw [h1, table_modTable_self _ _ _ ht]
  have h3 : ((rowAddCell dw w r ce).row r).ec = .table t := by rw [h1]; exact hec
  refine ⟨h2, ?_, h3⟩
  simp only [rowErrors, h3, hec, h2]

/-- … on an unattached row it lands in the row's own (lazily created) container, and no
    table's list changes. -/
theorem c11_misuse_unattached (dw : Measure) (w : World) (r : Nat) (ce : Cell)
    (hc : (w.row r).cells = none) (hu : unattached w r) (hr : r < w.rows.length) :
    rowErrors (rowAddCell dw w r ce) r = rowErrors w r ++ [errNonCellRow] ∧
    unattached (rowAddCell dw w r ce) r ∧
    (∀ t, ((rowAddCell dw w r ce).table t).errs = (w.table t).errs) := by
  have h0 := (c11_misuse dw w r ce hc).1
  rw [h0]
  rcases hu with hu | ⟨es, hu⟩
  · have h1 : addErrTo w (.rowLazy r) errNonCellRow
        = w.modRow r (fun rw => { rw with ec := .own [errNonCellRow] }) := by
      simp only [addErrTo, hu]
    rw [h1]
    have h2 := row_modRow_self w r (fun rw => { rw with ec := .own [errNonCellRow] }) hr
    refine ⟨?_, Or.inr ⟨[errNonCellRow], by rw [h2]⟩, fun _ => rfl⟩
    simp only [rowErrors, h2, hu, List.nil_append]
  · have h1 : addErrTo w (.rowLazy r) errNonCellRow
        = w.modRow r (fun rw => { rw with ec := .own (es ++ [errNonCellRow]) }) := by
      simp only [addErrTo, hu]
    rw [h1]
    have h2 := row_modRow_self w r (fun rw => { rw with ec := .own (es ++ [errNonCellRow]) }) hr
    refine ⟨?_, Or.inr ⟨es ++ [errNonCellRow], by rw [h2]⟩, fun _ => rfl⟩
    simp only [rowErrors, h2, hu]

/-- End to end: a cell added to a freshly added separator of a valid table is reported by the
    table, once, at the end of its list. -/
theorem c11_separator_misuse (dw : Measure) (w : World) (t : Nat) (ce : Cell)
    (ht : t < w.tables.length) :
    ((rowAddCell dw (addSeparator w t) w.rows.length ce).table t).errs
      = (w.table t).errs ++ [errNonCellRow] := by
  have h := c11_attached_ec dw w t 0 []
  have ht' : t < (addSeparator w t).tables.length := by
    simp only [addSeparator, newRow, modRow_tables, modTable_tables_length]; exact ht
  rw [(c11_misuse_attached dw (addSeparator w t) w.rows.length t ce h.2.2.1 h.2.1 ht').1]
  congr 1
  simp only [addSeparator, newRow, table_modRow]
  refine table_modTable_proj _ _ _ (·.errs) ?_ _
  intro _; rfl

/-! ## What a row reports -/

/-- An unattached row reports exactly its own errors, and an `AddError` through any taker other
    than this row's own leaves its report unchanged. -/
theorem c11_row_view (w : World) (r : Nat) (hu : unattached w r) :
    (∀ es, (w.row r).ec = .own es → rowErrors w r = es) ∧
    ((w.row r).ec = .none → rowErrors w r = []) ∧
    (∀ tk e, tk ≠ .rowOwn r → tk ≠ .rowLazy r → rowErrors (addErrTo w tk e) r = rowErrors w r) ∧
    (∀ e, r < w.rows.length →
      rowErrors (addErrTo w (.rowLazy r) e) r = rowErrors w r ++ [e]) := by
  refine ⟨?_, ?_, ?_, ?_⟩
  · intro es h; simp only [rowErrors, h]
  · intro h; simp only [rowErrors, h]
  · intro tk e h1 h2
    apply rowErrors_of_ec _ _ _ _ hu
    cases tk with
    | drop => rfl
    | table t => rfl
    | rowOwn r' =>
      have : r' ≠ r := fun h => h1 (by rw [h])
      simp only [addErrTo]; rw [row_modRow_ne _ _ _ _ this]
    | rowLazy r' =>
      have : r' ≠ r := fun h => h2 (by rw [h])
      simp only [addErrTo]
      split
      · rw [row_modRow_ne _ _ _ _ this]
      · rw [row_modRow_ne _ _ _ _ this]
      · rfl
  · intro e hr
    rcases hu with hu | ⟨es, hu⟩
    · simp only [addErrTo, hu, rowErrors]
      rw [row_modRow_self _ _ _ hr]; simp
    · simp only [addErrTo, hu, rowErrors]
      rw [row_modRow_self _ _ _ hr]

/-- … and so does a whole `invoke` whose taker is not this row (callbacks may set properties
    anywhere, including on this row). -/
theorem c11_row_view_invoke (dw : Measure) (w : World) (r : Nat) (hu : unattached w r)
    (cbs : List Cb) (tgt : Target) (tk : Taker) (h1 : tk ≠ .rowOwn r) (h2 : tk ≠ .rowLazy r) :
    rowErrors (invoke dw w cbs tgt tk) r = rowErrors w r ∧ unattached (invoke dw w cbs tgt tk) r := by
  induction cbs generalizing w with
  | nil => exact ⟨rfl, hu⟩
  | cons cb cbs ih =>
    have hstep : ((invokeOne dw w cb tgt tk).row r).ec = (w.row r).ec := by
      have hadd : ∀ (w' : World) (e : Nat), (w'.row r).ec = (w.row r).ec →
          ((addErrTo w' tk e).row r).ec = (w.row r).ec := by
        intro w' e hw'
        have hu' : unattached w' r := by unfold unattached; rw [hw']; exact hu
        have := (c11_row_view w' r hu').2.2.1 tk e h1 h2
        rw [← hw']
        cases tk with
        | drop => rfl
        | table t => rfl
        | rowOwn r' =>
          have : r' ≠ r := fun h => h1 (by rw [h])
          simp only [addErrTo]; rw [row_modRow_ne _ _ _ _ this]
        | rowLazy r' =>
          have : r' ≠ r := fun h => h2 (by rw [h])
          simp only [addErrTo]
          split
          · rw [row_modRow_ne _ _ _ _ this]
          · rw [row_modRow_ne _ _ _ _ this]
          · rfl
      cases cb with
      | log id => rfl
      | setProp id k v => simp only [invokeOne]; rw [setProp_ec]; rfl
      | fail id e => simp only [invokeOne]; exact hadd _ e rfl
      | dimSetter =>
        simp only [invokeOne]
        split
        · split
          · rw [setProp_ec, setProp_ec]
          · rfl
        · exact hadd w _ rfl
      | widthSetter =>
        simp only [invokeOne]
        split
        · split
          · rw [setProp_ec]
          · rfl
        · exact hadd w _ rfl
    have hu' : unattached (invokeOne dw w cb tgt tk) r := by
      unfold unattached; rw [hstep]; exact hu
    have := ih (invokeOne dw w cb tgt tk) hu'
    simp only [invoke, List.foldl_cons] at this ⊢
    refine ⟨this.1.trans ?_, this.2⟩
    exact rowErrors_of_ec _ _ _ hstep hu

/-! ## Render time: no failing callback's error is lost -/

/-- The monitored traversal is the model's traversal (first component), and its second
    component is the conjunction of `live` for the taker of every `invoke` call made. -/
theorem c11_monitor_faithful (dw : Measure) (c : Chk) (t r n i : Nat)
    (cbs : World → List Cb) (tgt : Target) (tk : World → Taker) :
    (invokeC dw c cbs tgt tk).1 = invoke dw c.1 (cbs c.1) tgt (tk c.1) ∧
    ((invokeC dw c cbs tgt tk).2 ↔ (c.2 ∧ live c.1 (tk c.1))) ∧
    (renderCellsC dw t r n i c).1 = renderCells dw t r n i c.1 ∧
    (renderRowC dw t c r).1 = renderRow dw t c.1 r ∧
    (invokeRenderCallbacksC dw c t).1 = invokeRenderCallbacks dw c.1 t :=
  ⟨rfl, Iff.rfl, renderCellsC_fst dw t r n i c, renderRowC_fst dw t c r,
   invokeRenderCallbacksC_fst dw c t⟩

/-- `InvokeRenderCallbacks` on a table all of whose rows (and header row) share its container:
    every `invoke` call of the whole traversal is given a live taker — the `.drop` taker never
    occurs — and the hypothesis still holds afterwards. -/
theorem c11_no_loss_render (dw : Measure) (w : World) (t : Nat) (h : attachedAll w t) :
    (invokeRenderCallbacksC dw (w, True) t).2 ∧ attachedAll (invokeRenderCallbacks dw w t) t := by
  have := invokeRenderCallbacksC_ok dw t (w, True) ⟨trivial, h⟩
  refine ⟨this.1, ?_⟩
  have h2 := this.2
  rw [invokeRenderCallbacksC_fst] at h2
  exact h2

/-- the same for one row (`renderRow`) and for its cells (`renderCells`), needing only that this
    row shares the container of a valid table -/
theorem c11_no_loss_render_row (dw : Measure) (w : World) (t r n i : Nat)
    (ht : t < w.tables.length) (hec : (w.row r).ec = .table t) :
    (renderRowC dw t (w, True) r).2 ∧ (renderCellsC dw t r n i (w, True)).2 :=
  ⟨(renderRowC_okR dw t r (w, True) ⟨trivial, ht, hec⟩).1,
   (renderCellsC_okR dw t r n i (w, True) ⟨trivial, ht, hec⟩).1⟩

/-- Render callbacks only ever append: every table's list after the traversal is its list
    before followed by what was raised (so earlier errors keep their order and multiplicity),
    and which rows share which table's container does not change. -/
theorem c11_render_appends (dw : Measure) (w : World) (t : Nat) :
    (∀ t', ∃ l, ((invokeRenderCallbacks dw w t).table t').errs = (w.table t').errs ++ l) ∧
    (∀ r t', (w.row r).ec = .table t' ↔ ((invokeRenderCallbacks dw w t).row r).ec = .table t') :=
  ⟨(invokeRenderCallbacks_stable dw w t).terrs, (invokeRenderCallbacks_stable dw w t).ecT⟩

/-- The hypothesis of `c11_no_loss_render` is an invariant of the building API: a fresh table
    satisfies it, and `addRow` of an unattached row, `addSeparator`, `addHeaders`, `newRow`,
    `rowAddCell`, callback registration and every callback invocation preserve it (for every
    table `t'` of the world, not only the one operated on). -/
theorem c11_attached_invariant (dw : Measure) (w : World) (t t' r : Nat) (h : attachedAll w t') :
    (attachedAll w.newTable.1 t' ∧ attachedAll w.newTable.1 w.tables.length) ∧
    (∀ rw, attachedAll (w.newRow rw).1 t') ∧
    (t < w.tables.length → r < w.rows.length → unattached w r → attachedAll (addRow dw w t r) t') ∧
    (t < w.tables.length → attachedAll (addSeparator w t) t') ∧
    (∀ items, attachedAll (addHeaders dw w t items) t') ∧
    (∀ ce, attachedAll (rowAddCell dw w r ce) t') ∧
    (∀ owner tm tg cb w', registerCb w owner tm tg cb = some w' → attachedAll w' t') ∧
    (∀ cbs tgt tk, attachedAll (invoke dw w cbs tgt tk) t') :=
  ⟨attachedAll_newTable w t' h,
   fun rw => attachedAll_newRow w rw t' h,
   fun ht hr hu => attachedAll_addRow dw w t r t' ht hr hu h,
   fun ht => attachedAll_addSeparator w t t' ht h,
   fun items => attachedAll_addHeaders dw w t t' items h,
   fun ce => attachedAll_stable (rowAddCell_stable dw w r ce) t' h,
   fun owner tm tg cb w' hreg => attachedAll_stable (registerCb_stable w w' owner tm tg cb hreg) t' h,
   fun cbs tgt tk => attachedAll_stable (invoke_stable dw w cbs tgt tk) t' h⟩

/-- When no row holds a container of its own (every row is attached, or has never had an
    error), all of the mass is in the tables' lists: the conservation laws above then speak
    about what `Table.Errors()` reports. -/
theorem c11_mass_all_attached (w : World) (e : Nat)
    (h : (w.rows.all fun rw => match rw.ec with | .own _ => false | _ => true) = true) :
    mass w e = (w.tables.map (fun tb => tb.errs.count e)).sum := by
  have : (w.rows.map (ownCount e)).sum = 0 := by
    generalize w.rows = rs at h
    induction rs with
    | nil => rfl
    | cons rw rs ih =>
      simp only [List.all_cons, Bool.and_eq_true] at h
      have h1 : ownCount e rw = 0 := by
        unfold ownCount
        cases hec : rw.ec with
        | own es => simp [hec] at h
        | none => rfl
        | table t => rfl
      simp only [List.map_cons, List.sum_cons, h1, Nat.zero_add]
      exact ih h.2
  simp only [mass, this, Nat.add_zero]

/-! ## Non-vacuity: a concrete history, evaluated by `decide` -/

namespace C11Ex
def dw : Measure := fun b => b.length
def item : Item :=
  { kind := .str [104, 105], mString := none, mGoString := none, mError := none,
    fmtV := [104, 105], mHeight := none, mWidth := none, json := none }
/-- table 0 and an unattached row 0 -/
def w1 : World := (({ items := [item] } : World).newTable.1.newRow {}).1
/-- a failing add-time cell callback on the row, then `Row.AddError(7)`, both before attach -/
def w2 : World := addErrTo ((registerCb w1 (.row 0) .add .cell (.fail 2 8)).getD w1) (.rowLazy 0) 7
/-- `row.Add(cell)`: the callback fails (error 8) into the row's own container -/
def w3 : World := rowAdd dw w2 0 0
/-- attach (all add-time callbacks reachable from `addRow` are absent) -/
def w4 : World := addRow dw w3 0 0
/-- a separator (row 1) and the misuse `sep.Add(cell)` -/
def w5 : World := addSeparator w4 0
def w6 : World := rowAddCell dw w5 1 (newCell dw 0 item)
/-- failing render-time callbacks: on the table itself (taker: the table) and on the cells of
    column 1 (taker: the row's container, i.e. `rowECTaker`) -/
def w7 : World :=
  ((registerCb w6 (.table 0) .pre .itself (.fail 1 42)).bind
    (fun w => registerCb w (.column 0 1) .post .cell (.fail 3 43))).getD w6
def w8 : World := invokeRenderCallbacks dw w7 0
/-- a table-level add-time row callback that fails, for the general attach theorem -/
def w3f : World := (registerCb w3 (.table 0) .add .row (.fail 4 9)).getD w3
/-- a zero-value row (no cell slice), unattached: row 2 of `w6` -/
def wz : World := (w6.newRow { cells := none }).1
end C11Ex
open C11Ex

-- the history: errors appear once each, in order of occurrence per source
example : rowErrors w3 0 = [7, 8] ∧ (w3.table 0).errs = [] := by decide
example : (w4.table 0).errs = [7, 8] ∧ rowErrors w4 0 = [7, 8] ∧ (w4.row 0).ec = .table 0 := by decide
example : (w6.table 0).errs = [7, 8, errNonCellRow] := by decide
example : (w8.table 0).errs = [7, 8, errNonCellRow, 42, 43] := by decide
example : mass w3 7 = 1 ∧ mass w4 7 = 1 ∧ mass w8 7 = 1 ∧ mass w8 43 = 1 ∧ mass w7 43 = 0 := by decide
example : (addRow dw w3f 0 0 |>.table 0).errs = [7, 8, 9] := by decide

-- container level
example : [Sum.inl (some 1), .inr [none, some 2, none], .inl none, .inr []].foldl EC.applyOp (some [])
    = some [1, 2] := by decide
example : EC.errors ([Sum.inr [none, none], .inl none].foldl EC.applyOp (some [])) = none := by decide
example : [Sum.inl (some 1), .inr [some 2]].foldl EC.applyOp none = none := by decide

-- hypotheses of the theorems are satisfiable (and the theorems apply to the history)
example : live w1 (.table 0) ∧ live w1 (.rowLazy 0) ∧ live w3 (.rowOwn 0) ∧ live w5 (.rowLazy 1) ∧
    ¬ live w1 (.rowOwn 0) ∧ ¬ live w1 .drop := by decide
example := c11_raise_once w1 (.rowLazy 0) 7 (by decide)
example := c11_attach_conserves dw w3 0 0 (by decide) (by decide) (by decide) (by decide)
example := c11_attach_no_loss dw w3f 0 0 (by decide) (by decide) (by decide)
example : addQuiet w3f 0 0 = false := by decide
example := c11_fail_callback dw w7 1 42 (.table 0) (.table 0) (by decide)
example := c11_invoke_mass_fail dw w7 [.fail 1 42, .log 5, .fail 6 42] (.table 0) (.table 0) 42
  (by decide) (by decide)
example := c11_add_cell_mass dw w2 0 (newCell dw 0 item) [] (by decide) (by decide) 8
example : raiseCount (.cell 0 0) 8 ((w2.row 0).cellCbs.at .add) = 1 := by decide
example := c11_misuse_attached dw w5 1 0 (newCell dw 0 item) (by decide) (by decide) (by decide)
example := c11_misuse_unattached dw wz 2 (newCell dw 0 item) (by decide) (by decide) (by decide)
example := (c11_misuse dw wz 2 (newCell dw 0 item) (by decide)).2.2 (by decide)
example := c11_separator_misuse dw w4 0 (newCell dw 0 item) (by decide)
example := c11_row_view w3 0 (by decide)
example := c11_row_view_invoke dw w3 0 (by decide) [.fail 1 5] (.table 0) (.table 0) (by decide) (by decide)
example : attachedAll w7 0 := by decide
example := c11_no_loss_render dw w7 0 (by decide)
example := c11_no_loss_render_row dw w7 0 0 1 0 (by decide) (by decide)
example := c11_attached_invariant dw w7 0 0 0 (by decide)
example := c11_mass_all_attached w8 42 (by decide)
-- `unattached` is necessary in `c11_attach_conserves`: adding an attached row again absorbs the
-- table's own list a second time (the Go code does the same: `t.AddRow(r); t.AddRow(r)`)
example : ¬ unattached w4 0 ∧ ((addRow dw w4 0 0).table 0).errs = [7, 8, 7, 8] ∧
    mass (addRow dw w4 0 0) 7 = 2 := by decide
-- an unattached row with no container does drop a callback error routed through `rowECTaker`
example : rowECTaker w1 0 = .drop ∧ ¬ attachedAll ((w1.modTable 0 fun tb => { tb with rows := [0] })) 0 := by
  decide

end Tab
