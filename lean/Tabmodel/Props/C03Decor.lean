/-
  C03 / C17 / C19 (regenerated fact) — the decorations registered at init, dumped by RUNNING the
  real code on every check (`harness -mode decorations`), with each glyph's width as measured by
  the library's own `length.StringCells`.
-/
import Tabmodel.Generated.Decorations
namespace Tab
open Generated

/-- the glyph fields the text renderer reads -/
def renderGlyphs (d : Decoration) : List Bytes :=
  [d.crossPiece, d.hOuter, d.hRule, d.vHeader, d.vBodyBorder, d.vBodyInner, d.topLeft, d.topRight,
   d.bottomLeft, d.bottomRight, d.leftBodyRule, d.rightBodyRule, d.hTopDown, d.bTopDown, d.bBottomUp,
   d.hBCross, d.hBLeft, d.hBRight]

def measured (g : Bytes) : Option Nat := (glyphWidths.find? (fun p => p.1 == g)).map (·.2)

/-- a complete single-width decoration, by the library's own measure -/
def glyphOKBy (d : Decoration) : Bool := (renderGlyphs d).all (fun g => g != [] && measured g == some 1)

/-- every built-in decoration is either boxless with no glyphs at all, or complete with every
    render glyph non-empty and exactly one display cell wide -/
theorem c03_builtins_complete :
    ∀ p ∈ builtins, (p.2.isBoxless = true ∧ (renderGlyphs p.2).all (· == []) = true) ∨
                    (p.2.isBoxless = false ∧ glyphOKBy p.2 = true) := by decide

/-- the six documented names are registered (and nothing else is at init) -/
theorem c17_builtin_names :
    builtins.map (·.1) = [[97, 115, 99, 105, 105, 45, 115, 105, 109, 112, 108, 101], [110, 111, 110, 101], [117, 116, 102, 56, 45, 100, 111, 117, 98, 108, 101],
      [117, 116, 102, 56, 45, 104, 101, 97, 118, 121], [117, 116, 102, 56, 45, 108, 105, 103, 104, 116], [117, 116, 102, 56, 45, 108, 105, 103, 104, 116, 45, 99, 117, 114, 118, 101, 100]] := by decide

/-- none of the built-ins is the empty decoration, so every listed built-in style renders -/
theorem c19_builtins_nonempty : ∀ p ∈ builtins, p.2 ≠ emptyDecoration := by decide

/-- texttable's default decoration is the one registered as utf8-heavy -/
theorem c19_default_is_heavy : (builtins.find? (fun p => p.1 == [117, 116, 102, 56, 45, 104, 101, 97, 118, 121])).map (·.2) = some heavy := by decide

/-- built-in names are plain: no dot, and none case-folds to a sub-package name -/
theorem c19_builtin_names_plain : ∀ p ∈ builtins, (46 : UInt8) ∉ p.1 := by decide

end Tab
