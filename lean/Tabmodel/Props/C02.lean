/-
  C02 — Row/column counts, row order and cell addressing follow the build history
  (and the structural half of C09: the render view of every reachable table is well formed).

  Vocabulary (definitions in `Spec/World.lean`):
  * `BuildOp`, `applyOp dw w op`, `run dw ops`: histories of API calls and the world they build;
  * `Valid ops`: ids name existing objects, a pre-built row is attached at most once, the
    (unreachable) header row is never `Add`ed to or attached — a decidable check on the history;
  * `w.shape`: the world minus properties, callbacks, errors, items, texts, copies, events;
    `Shape.step`: the reference "slice of slices" machine; `Inv w`: the structural invariant.
-/
import Tabmodel.Proofs.WorldObs
namespace Tab
open World

/-! ### callbacks never change structure; building steps refine the reference machine -/

/-- Running any list of callbacks on any target changes nothing structural. -/
theorem c02_callbacks_keep_shape (dw : Measure) (w : World) (cbs : List Cb) (tgt : Target) (tk : Taker) :
    (invoke dw w cbs tgt tk).shape = w.shape := shape_invoke dw w cbs tgt tk

/-- The whole render-time callback pass changes nothing structural. -/
theorem c02_render_keeps_shape (dw : Measure) (w : World) (t : Nat) :
    (invokeRenderCallbacks dw w t).shape = w.shape := shape_invokeRenderCallbacks dw w t

/-- Every operation acts on the shape exactly as the reference machine does (for all inputs,
    valid or not). -/
theorem c02_refines (dw : Measure) (w : World) (op : BuildOp) :
    (applyOp dw w op).shape = w.shape.step op := shape_applyOp dw w op

theorem c02_refines_run (dw : Measure) (ops : List BuildOp) :
    (run dw ops).shape = Shape.runFrom {} ops := shape_run dw ops

/-! ### the invariant holds after every valid history -/

theorem c02_inv_init : Inv {} := Shape.sinv_init

theorem c02_inv_step (dw : Measure) {w : World} (hinv : Inv w) (op : BuildOp) (hok : w.shape.ok op = true) :
    Inv (applyOp dw w op) := by
  unfold Inv; rw [shape_applyOp]; exact Shape.SInv.step hinv op hok

theorem c02_inv_run (dw : Measure) (ops : List BuildOp) (hv : Valid ops = true) : Inv (run dw ops) := by
  unfold Inv; rw [shape_run]; exact Shape.SInv.runFrom Shape.sinv_init ops hv

/-- the callbacks pass of a render preserves the invariant -/
theorem c02_inv_render (dw : Measure) {w : World} (hinv : Inv w) (t : Nat) :
    Inv (invokeRenderCallbacks dw w t) := inv_of_shape_eq hinv (shape_invokeRenderCallbacks dw w t)

/-! The invariant, clause by clause, in terms of the world. -/

/-- `len(t.columns) = nColumns + 1` -/
theorem c02_inv_columns {w : World} (hinv : Inv w) (t : Nat) :
    (w.table t).columns.length = (w.table t).nColumns + 1 := hinv.cols t

/-- the i-th entry of a table's row list is a stored row that knows it is row i+1 of that table;
    hence a row is in at most one table, at most once -/
theorem c02_inv_attached {w : World} (hinv : Inv w) (t i r : Nat) (hi : (w.table t).rows[i]? = some r) :
    r < w.rows.length ∧ (w.row r).inTable = some t ∧ (w.row r).rowNum = i + 1 :=
  ⟨hinv.rowsLt t r (List.mem_of_getElem? hi), hinv.att t i r hi⟩

/-- no row id occurs twice in a table's list, and no row id is in two tables' lists -/
theorem c02_inv_rows_unique {w : World} (hinv : Inv w) (t : Nat) :
    (w.table t).rows.Nodup ∧ ∀ t' r, r ∈ (w.table t).rows → r ∈ (w.table t').rows → t' = t := by
  constructor
  · rw [List.nodup_iff_pairwise_ne, List.pairwise_iff_getElem]
    intro i j hi hj hij e
    have h1 := (hinv.att t i _ (List.getElem?_eq_getElem hi)).2
    have h2 := (hinv.att t j _ (List.getElem?_eq_getElem hj)).2
    rw [e] at h1; omega
  · intro t' r hm hm'
    obtain ⟨i, hi⟩ := List.mem_iff_getElem?.mp hm
    obtain ⟨i', hi'⟩ := List.mem_iff_getElem?.mp hm'
    have h1 := (hinv.att t i r hi).1
    have h2 := (hinv.att t' i' r hi').1
    rw [h1] at h2; cases h2; rfl

/-- a row that names a table is in that table's list; so unattached rows have `inTable = none` -/
theorem c02_inv_back {w : World} (hinv : Inv w) (r t : Nat) (hi : (w.row r).inTable = some t) :
    r ∈ (w.table t).rows := hinv.back r t hi

/-- the header row is a stored row that is in no table -/
theorem c02_inv_header {w : World} (hinv : Inv w) (t hd : Nat) (hh : (w.table t).header = some hd) :
    hd < w.rows.length ∧ (w.row hd).inTable = none ∧ ∀ t', hd ∉ (w.table t').rows := by
  refine ⟨hinv.hdrLt t hd hh, hinv.hdrFree t hd hh, ?_⟩
  intro t' hm
  obtain ⟨i, hi⟩ := List.mem_iff_getElem?.mp hm
  have := (hinv.att t' i hd hi).1
  rw [hinv.hdrFree t hd hh] at this; cases this

/-- every cell of every stored row (attached or not) carries its own coordinates -/
theorem c02_inv_cell_geo {w : World} (hinv : Inv w) (r j : Nat) (ce : Cell) (hc : w.cell? r j = some ce) :
    ce.columnNum = j + 1 ∧ ce.inRow = some r := by
  unfold cell? rowCells at hc
  cases hcs : (w.row r).cells with
  | none => rw [hcs] at hc; simp at hc
  | some cs => rw [hcs] at hc; exact hinv.geo r cs j ce hcs hc

/-- separators have a nil cell slice -/
theorem c02_inv_sep {w : World} (hinv : Inv w) (r : Nat) (hs : (w.row r).isSep = true) :
    (w.row r).cells = none := hinv.sep r hs

/-! ### row count and row order -/

/-- One step: the operation appends exactly its `attaches` to each table's list, never reorders
    or truncates it, and adds `newRows` rows to the store. -/
theorem c02_order_step (dw : Measure) (w : World) (op : BuildOp) (hok : w.shape.ok op = true) (t : Nat) :
    ((applyOp dw w op).table t).rows = (w.table t).rows ++ op.attaches t w.rows.length ∧
    (applyOp dw w op).rows.length = w.rows.length + op.newRows := by
  constructor
  · have := Shape.step_rows w.shape op hok t
    rwa [← shape_applyOp dw, shape_table_rows, shape_table_rows, shape_rows_length] at this
  · have := Shape.step_rows_length w.shape op
    rwa [← shape_applyOp dw, shape_rows_length, shape_rows_length] at this

/-- The rows of a table are exactly the ids attached to it by the history, in insertion order. -/
theorem c02_order (dw : Measure) (ops : List BuildOp) (hv : Valid ops = true) (t : Nat) :
    ((run dw ops).table t).rows = attachedFrom t 0 ops := by
  have := Shape.runFrom_rows {} ops hv t
  rw [← shape_run dw, shape_table_rows] at this
  rw [this, Shape.table_oob _ _ (Nat.zero_le _)]
  rfl

/-- `NRows` = number of AddRowItems / AppendNewRow / AddRow / AddSeparator calls on the table. -/
theorem c02_nrows (dw : Measure) (ops : List BuildOp) (hv : Valid ops = true) (t : Nat) :
    ((run dw ops).table t).rows.length = attachCount t ops := by
  rw [c02_order dw ops hv t, attachedFrom_length]

/-- a row reports its own 1-based position (`Row.Location().Row`) -/
theorem c02_row_location {w : World} (hinv : Inv w) (t i rid : Nat) (hi : (w.table t).rows[i]? = some rid) :
    (w.row rid).rowNum = i + 1 := (hinv.att t i rid hi).2

/-! ### column count -/

/-- `NColumns` = max (largest header ever set on the table, widest row attached to it now —
    including cells appended after the row joined). -/
theorem c02_ncols (dw : Measure) (ops : List BuildOp) (hv : Valid ops = true) (t : Nat) :
    ((run dw ops).table t).nColumns = max (hdrMax t ops) ((run dw ops).rowsMax t) := by
  have := Shape.NC.runFrom Shape.nc_init Shape.sinv_init ops hv t
  rw [← shape_run dw, shape_table_nColumns, shape_rowsMax] at this
  rw [this]; simp

/-- the `resizeColumnsAtLeast` law: each step sets `nColumns` to `max old demand` -/
theorem c02_ncols_step (dw : Measure) {w : World} (hinv : Inv w) (op : BuildOp) (hok : w.shape.ok op = true)
    (t : Nat) :
    ((applyOp dw w op).table t).nColumns = max (w.table t).nColumns (w.shape.demand t op) := by
  have := Shape.step_nColumns hinv op hok t
  rwa [← shape_applyOp dw, shape_table_nColumns, shape_table_nColumns] at this

/-- so `NColumns` never decreases -/
theorem c02_ncols_mono (dw : Measure) {w : World} (hinv : Inv w) (op : BuildOp) (hok : w.shape.ok op = true)
    (t : Nat) : (w.table t).nColumns ≤ ((applyOp dw w op).table t).nColumns := by
  rw [c02_ncols_step dw hinv op hok t]; omega

/-- `Row.Add` on a row that is already in table `t` grows `t` to the new cell's column -/
theorem c02_ncols_rowadd_attached (dw : Measure) {w : World} (hinv : Inv w) (r i t : Nat) (cs : List Cell)
    (hr : r < w.rows.length) (hc : (w.row r).cells = some cs) (hi : (w.row r).inTable = some t) :
    ((w.rowAdd dw r i).table t).nColumns = max (w.table t).nColumns (cs.length + 1) ∧
    ((w.rowAdd dw r i).rowCells r).length = cs.length + 1 ∧
    Inv (w.rowAdd dw r i) := by
  have hnh : w.shape.isHeader r = false := by
    cases hb : w.shape.isHeader r with
    | false => rfl
    | true =>
      exfalso
      unfold Shape.isHeader at hb
      rw [List.any_eq_true] at hb
      obtain ⟨tb, hm, he⟩ := hb
      obtain ⟨t', ht', hte⟩ := List.getElem_of_mem hm
      have h1 : (w.shape.table t').header = some r := by
        unfold Shape.table
        rw [List.getD_eq_getElem?_getD, List.getElem?_eq_getElem ht', Option.getD_some, hte]
        simpa using he
      have := Shape.SInv.hdrFree hinv t' r h1
      rw [shape_row_inTable, hi] at this; cases this
  have hok : w.shape.ok (.rowAdd r i) = true := by simp [Shape.ok, hr, hnh]
  refine ⟨?_, ?_, c02_inv_step dw hinv (.rowAdd r i) hok⟩
  · have := c02_ncols_step dw hinv (.rowAdd r i) hok t
    simp only [applyOp] at this
    rw [this]
    simp [Shape.demand, shape_row_cells, shape_row_inTable, hc, hi]
  · obtain ⟨cs', h1, h2⟩ := Shape.rowAdd_width_self w.shape r (cs.map Cell.geo) (by simpa using hr)
      (by rw [shape_row_cells, hc]; rfl)
    rw [← shape_width, shape_rowAdd]
    unfold Shape.width
    rw [h1]; simpa using h2

/-- attached rows and the header are never wider than `NColumns` -/
theorem c02_ncols_ge {w : World} (hinv : Inv w) (t : Nat) :
    (∀ r ∈ (w.table t).rows, (w.rowCells r).length ≤ (w.table t).nColumns) ∧
    (∀ hd, (w.table t).header = some hd → (w.rowCells hd).length ≤ (w.table t).nColumns) :=
  ⟨fun r hm => hinv.wid t r hm, fun hd hh => hinv.hwid t hd hh⟩

/-! ### cell addressing -/

/-- `CellAt (r,c)` succeeds exactly when `1 ≤ r ≤ NRows`, the r-th row has a cell slice (it is
    not a separator or zero-value row) and `1 ≤ c ≤` its length; the result is the c-th cell
    of the r-th row.  In every other case the result is the no-such-cell error (`none`). -/
theorem c02_cellat (w : World) (t : Nat) (r c : Int) (rid j : Nat) :
    w.cellAt t r c = some (rid, j) ↔
      (1 ≤ r ∧ r ≤ (w.table t).rows.length ∧ (w.table t).rows[r.toNat - 1]? = some rid ∧
        ∃ cs, (w.row rid).cells = some cs ∧ 1 ≤ c ∧ c ≤ cs.length ∧ j = c.toNat - 1) := by
  unfold cellAt
  simp only
  by_cases hb : r < 1 ∨ c < 1 ∨ r > ((w.table t).rows.length : Int)
  · rw [if_pos hb]
    constructor
    · intro h; cases h
    · rintro ⟨h1, h2, _, cs, _, h3, _⟩; omega
  · rw [if_neg hb]
    cases hrow : (w.table t).rows[r.toNat - 1]? with
    | none =>
      constructor
      · intro h; cases h
      · rintro ⟨_, _, h, _⟩; cases h
    | some rid' =>
      simp only
      cases hc : (w.row rid').cells with
      | none =>
        constructor
        · intro h; cases h
        · rintro ⟨_, _, h, cs, h2, _⟩
          cases h; rw [hc] at h2; cases h2
      | some cs =>
        simp only
        by_cases hcl : c > (cs.length : Int)
        · rw [if_pos hcl]
          constructor
          · intro h; cases h
          · rintro ⟨_, _, h, cs', h2, _, h4, _⟩
            cases h; rw [hc] at h2; cases h2; omega
        · rw [if_neg hcl]
          constructor
          · intro h
            simp only [Option.some.injEq, Prod.mk.injEq] at h
            obtain ⟨h1, h2⟩ := h
            subst h1
            exact ⟨by omega, by omega, rfl, cs, hc, by omega, by omega, h2.symm⟩
          · rintro ⟨_, _, h, cs', h2, _, _, h5⟩
            cases h; rw [hc] at h2; cases h2; rw [h5]

/-- out-of-range coordinates give the no-such-cell error -/
theorem c02_cellat_out_of_range (w : World) (t : Nat) (r c : Int)
    (h : r < 1 ∨ c < 1 ∨ r > (w.table t).rows.length) : w.cellAt t r c = none := by
  unfold cellAt; simp only; rw [if_pos h]

/-- a separator row gives the no-such-cell error for every column -/
theorem c02_cellat_separator {w : World} (hinv : Inv w) (t : Nat) (r c : Int) (rid : Nat)
    (hrow : (w.table t).rows[r.toNat - 1]? = some rid) (hs : (w.row rid).isSep = true) :
    w.cellAt t r c = none := by
  unfold cellAt; simp only
  split
  · rfl
  · rw [hrow]; simp only; rw [hinv.sep rid hs]

/-- the cell `CellAt (r,c)` returns exists and its own `Location()` is `(r,c)` -/
theorem c02_cellat_location {w : World} (hinv : Inv w) (t : Nat) (r c : Int) (rid j : Nat)
    (h : w.cellAt t r c = some (rid, j)) :
    ∃ ce, w.cell? rid j = some ce ∧
      ((w.cellLocation ce).1 : Int) = r ∧ ((w.cellLocation ce).2 : Int) = c := by
  obtain ⟨h1, h2, hrow, cs, hc, h3, h4, hj⟩ := (c02_cellat w t r c rid j).mp h
  have hjl : j < cs.length := by omega
  refine ⟨cs[j], ?_, ?_, ?_⟩
  · unfold cell? rowCells; rw [hc]; simp [hjl]
  · obtain ⟨_, hin⟩ := hinv.geo rid cs j cs[j] hc (List.getElem?_eq_getElem hjl)
    have := (hinv.att t _ rid hrow).2
    unfold cellLocation
    simp only [hin, this]
    omega
  · obtain ⟨hcol, _⟩ := hinv.geo rid cs j cs[j] hc (List.getElem?_eq_getElem hjl)
    unfold cellLocation
    simp only [hcol]
    omega

/-! ### column handles -/

/-- `Column(n)` is non-nil exactly for `0 ≤ n ≤ NColumns` … -/
theorem c02_columns (w : World) (t : Nat) (n : Int) :
    w.hasColumn t n = true ↔ (0 ≤ n ∧ n ≤ (w.table t).nColumns) := by
  unfold hasColumn
  simp only [Bool.not_eq_true', Bool.or_eq_false_iff, decide_eq_false_iff_not]
  omega

/-- … and for exactly those `n` the column record it returns exists (`t.columns[n]` is in range) -/
theorem c02_column_handle {w : World} (hinv : Inv w) (t n : Nat) :
    (w.column? t n).isSome = true ↔ n ≤ (w.table t).nColumns := by
  unfold column?
  have := hinv.cols t
  by_cases hn : n < (w.table t).columns.length
  · rw [List.getElem?_eq_getElem hn]; simp; omega
  · rw [List.getElem?_eq_none (by omega)]; simp; omega

/-! ### the row list handed out is a value -/

/-- `AllRows()` in the model -/
def World.allRows (w : World) (t : Nat) : List Nat := (w.table t).rows

/-- Observers return values and never a new world: whatever the caller does to the list it
    got (`scribble`), the table's list is what it was.  (In the model this is true by
    construction; that the Go code really copies the slice is checked by the differential
    harness, which overwrites the returned slice and re-observes.) -/
theorem c02_allrows_copy (w : World) (t : Nat) (scribble : List Nat → List Nat) :
    let got := w.allRows t
    let _mutated := scribble got
    w.allRows t = got ∧ (w.table t).rows = got := ⟨rfl, rfl⟩

/-! ### what the renderers read (structural half of C09) -/

/-- Under the invariant the render view is well formed: header and every non-separator row
    have at most `ncols` cells, and the per-column property lists have `ncols + 1` entries. -/
theorem c02_view_wf {w : World} (hinv : Inv w) (t : Nat) (_ht : t < w.tables.length) :
    WFShape (w.view t) ∧ (w.view t).colAlign.length = (w.view t).ncols + 1 ∧
      (w.view t).colSkip.length = (w.view t).ncols + 1 := view_wf hinv t

/-- …and so is the view every renderer actually uses, taken after the callbacks pass. -/
theorem c02_view_wf_after_callbacks (dw : Measure) {w : World} (hinv : Inv w) (t : Nat)
    (_ht : t < w.tables.length) :
    let w' := invokeRenderCallbacks dw w t
    Inv w' ∧ WFShape (w'.view t) ∧ (w'.view t).colAlign.length = (w'.view t).ncols + 1 ∧
      (w'.view t).colSkip.length = (w'.view t).ncols + 1 :=
  ⟨c02_inv_render dw hinv t, view_wf (c02_inv_render dw hinv t) t⟩

/-- the view's dimensions are the table's: one entry per row, `none` exactly for separators -/
theorem c02_view_rows (w : World) (t : Nat) :
    (w.view t).ncols = (w.table t).nColumns ∧ (w.view t).rows.length = (w.table t).rows.length ∧
    ∀ (i rid : Nat), (w.table t).rows[i]? = some rid →
      ∃ v, (w.view t).rows[i]? = some v ∧ (v = none ↔ (w.row rid).isSep = true) := by
  refine ⟨rfl, by simp [view], ?_⟩
  intro i rid hi
  simp only [view, List.getElem?_map, hi, Option.map_some]
  refine ⟨_, rfl, ?_⟩
  split <;> simp_all

/-! ### non-vacuity: a history exercising every building call, and the theorems on it -/

/-- one table; a cell callback; headers; a full row; a separator; a pre-built row attached
    and then extended past the column count; a zero-value row (on which `Add` only records
    an error) attached; an empty appended row; a render; headers set again, shorter. -/
def exHist : List BuildOp :=
  [ .newTable,
    .regCb (.table 0) .add .cell (.setProp 7 (.user 1) (some (.user 2))),
    .addHeaders 0 [0, 1],            -- row id 0
    .addRowItems 0 [0, 1, 2],        -- row id 1
    .addSeparator 0,                 -- row id 2
    .newRow,                         -- row id 3
    .rowAdd 3 5,
    .addRow 0 3,
    .rowAdd 3 6, .rowAdd 3 6, .rowAdd 3 6,
    .zeroRow,                        -- row id 4
    .rowAdd 4 1,
    .addRow 0 4,
    .appendNewRow 0,                 -- row id 5
    .render 0,
    .addHeaders 0 [0] ]              -- row id 6

/-- the history is valid … -/
example : Valid exHist = true := by decide
/-- … while attaching a row twice, adding to a header row, or naming a missing table is not -/
example : Valid [.newTable, .newRow, .addRow 0 0, .addRow 0 0] = false := by decide
example : Valid [.newTable, .addHeaders 0 [1], .rowAdd 0 1] = false := by decide
example : Valid [.addSeparator 0] = false := by decide

/-- the shape the history builds (by evaluation of the reference machine) -/
theorem c02_ex_shape (dw : Measure) : (run dw exHist).shape =
    { tables := [{ header := some 6, rows := [1, 2, 3, 4, 5], nColumns := 4, nColRecs := 5 }],
      rows := [{ cells := some [(1, some 0), (2, some 0)] },
               { cells := some [(1, some 1), (2, some 1), (3, some 1)], inTable := some 0, rowNum := 1 },
               { cells := none, inTable := some 0, isSep := true, rowNum := 2 },
               { cells := some [(1, some 3), (2, some 3), (3, some 3), (4, some 3)], inTable := some 0, rowNum := 3 },
               { cells := none, inTable := some 0, rowNum := 4 },
               { cells := some [], inTable := some 0, rowNum := 5 },
               { cells := some [(1, some 6)] }] } := by
  rw [shape_run]; decide

example (dw : Measure) : Inv (run dw exHist) := c02_inv_run dw exHist (by decide)

-- c02_order / c02_nrows / c02_ncols on the example: five rows in insertion order, four columns
example (dw : Measure) : ((run dw exHist).table 0).rows = [1, 2, 3, 4, 5] := by
  rw [c02_order dw exHist (by decide)]; decide
example (dw : Measure) : ((run dw exHist).table 0).rows.length = 5 := by
  rw [c02_nrows dw exHist (by decide)]; decide
example : hdrMax 0 exHist = 2 := by decide
example (dw : Measure) : ((run dw exHist).table 0).nColumns = 4 := by
  rw [← shape_table_nColumns, c02_ex_shape]; decide
example (dw : Measure) : (run dw exHist).rowsMax 0 = 4 := by
  rw [← shape_rowsMax, c02_ex_shape]; decide

/-- facts about the example world used to discharge hypotheses below -/
theorem c02_ex_facts (dw : Measure) :
    let w := run dw exHist
    w.tables.length = 1 ∧ w.rows.length = 7 ∧
    (w.table 0).rows = [1, 2, 3, 4, 5] ∧ (w.table 0).header = some 6 ∧
    (w.row 2).isSep = true ∧ (w.row 3).inTable = some 0 ∧
    (∃ cs, (w.row 3).cells = some cs ∧ cs.length = 4) := by
  intro w
  have hs := c02_ex_shape dw
  have e3 : (w.shape.row 3).cells = some [(1, some 3), (2, some 3), (3, some 3), (4, some 3)] := by
    rw [hs]; decide
  refine ⟨?_, ?_, ?_, ?_, ?_, ?_, ?_⟩
  · rw [← shape_tables_length, hs]; decide
  · rw [← shape_rows_length, hs]; decide
  · rw [← shape_table_rows, hs]; decide
  · rw [← shape_table_header, hs]; decide
  · rw [← shape_row_isSep, hs]; decide
  · rw [← shape_row_inTable, hs]; decide
  · rw [shape_row_cells] at e3
    cases hc : (w.row 3).cells with
    | none => rw [hc] at e3; cases e3
    | some cs =>
      rw [hc] at e3
      simp only [Option.map_some, Option.some.injEq] at e3
      exact ⟨cs, rfl, by simpa using congrArg List.length e3⟩

-- hypotheses of c02_inv_step / c02_order_step / c02_ncols_step / c02_ncols_mono
example (dw : Measure) : (run dw exHist).shape.ok (.rowAdd 3 0) = true := by rw [c02_ex_shape]; decide
example (dw : Measure) : (run dw exHist).shape.ok (.addRow 0 6) = false := by rw [c02_ex_shape]; decide
example (dw : Measure) : ((applyOp dw (run dw exHist) (.rowAdd 3 0)).table 0).nColumns = 5 := by
  rw [c02_ncols_step dw (c02_inv_run dw exHist (by decide)) _ (by rw [c02_ex_shape]; decide), c02_ex_shape,
    ← shape_table_nColumns, c02_ex_shape]
  decide

-- hypotheses of c02_inv_attached / c02_row_location / c02_inv_back / c02_inv_header /
-- c02_cellat_separator / c02_ncols_rowadd_attached / c02_view_wf
example (dw : Measure) : ((run dw exHist).row 3).rowNum = 3 := by
  have h := c02_ex_facts dw
  exact c02_row_location (c02_inv_run dw exHist (by decide)) 0 2 3 (by rw [h.2.2.1]; rfl)
example (dw : Measure) : 3 ∈ ((run dw exHist).table 0).rows :=
  c02_inv_back (c02_inv_run dw exHist (by decide)) 3 0 (c02_ex_facts dw).2.2.2.2.2.1
example (dw : Measure) : ((run dw exHist).row 6).inTable = none :=
  (c02_inv_header (c02_inv_run dw exHist (by decide)) 0 6 (c02_ex_facts dw).2.2.2.1).2.1
example (dw : Measure) : (run dw exHist).cellAt 0 2 1 = none := by
  have h := c02_ex_facts dw
  exact c02_cellat_separator (c02_inv_run dw exHist (by decide)) 0 2 1 2 (by rw [h.2.2.1]; rfl) h.2.2.2.2.1
example (dw : Measure) : (run dw exHist).cellAt 0 3 4 = some (3, 3) := by
  have h := c02_ex_facts dw
  obtain ⟨cs, hc, hl⟩ := h.2.2.2.2.2.2
  exact (c02_cellat _ 0 3 4 3 3).mpr
    ⟨by omega, by rw [h.2.2.1]; decide, by rw [h.2.2.1]; rfl, cs, hc, by omega, by rw [hl]; decide, rfl⟩
example (dw : Measure) : ∃ ce, (run dw exHist).cell? 3 3 = some ce ∧
    (((run dw exHist).cellLocation ce).1 : Int) = 3 ∧ (((run dw exHist).cellLocation ce).2 : Int) = 4 := by
  have h := c02_ex_facts dw
  obtain ⟨cs, hc, hl⟩ := h.2.2.2.2.2.2
  exact c02_cellat_location (c02_inv_run dw exHist (by decide)) 0 3 4 3 3
    ((c02_cellat _ 0 3 4 3 3).mpr
      ⟨by omega, by rw [h.2.2.1]; decide, by rw [h.2.2.1]; rfl, cs, hc, by omega, by rw [hl]; decide, rfl⟩)
example (dw : Measure) : ((run dw exHist).cell? 3 3).isSome = true := by
  have h := c02_ex_facts dw
  obtain ⟨cs, hc, hl⟩ := h.2.2.2.2.2.2
  unfold cell? rowCells; rw [hc]
  have : 3 < cs.length := by omega
  simp [this]
example (dw : Measure) : (((run dw exHist).rowAdd dw 3 0).table 0).nColumns = 5 := by
  have h := c02_ex_facts dw
  obtain ⟨cs, hc, hl⟩ := h.2.2.2.2.2.2
  rw [(c02_ncols_rowadd_attached dw (c02_inv_run dw exHist (by decide)) 3 0 0 cs
    (by rw [h.2.1]; decide) hc h.2.2.2.2.2.1).1, hl, ← shape_table_nColumns, c02_ex_shape]
  decide
example (dw : Measure) : WFShape ((run dw exHist).view 0) :=
  (c02_view_wf (c02_inv_run dw exHist (by decide)) 0 (by rw [(c02_ex_facts dw).1]; decide)).1
example (dw : Measure) : WFShape ((invokeRenderCallbacks dw (run dw exHist) 0).view 0) :=
  (c02_view_wf_after_callbacks dw (c02_inv_run dw exHist (by decide)) 0 (by rw [(c02_ex_facts dw).1]; decide)).2.1

end Tab
