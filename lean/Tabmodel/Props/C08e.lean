/-
  C08e — C08 clauses 3 (delimiter row) and 4 (cell read-back) at HISTORY level.

  `c08_cells` / `c08_delim` (Props/C08.lean) are about `renderMarkdown dw v` for a view `v`;
  `e2ecb_markdown` (Props/E2Ecb.lean) restates only line and pipe counts for
  `((run x.dw ops).renderTo x wr).2`.  Here the two clauses are stated for that output, for ANY
  valid build history with ANY callbacks registered anywhere:

   * `c08e_cells`: every cell piece of every output line, trimmed and entity-decoded, is the trimmed
     text of the corresponding cell of the BUILT table — the view `v` of `run ops` BEFORE the callbacks
     pass of the render (texts the history put there; the pass cannot change them:
     `e2ecb_content_stable`); `c08e_cells_built` says the same directly in terms of the world's row
     store (`Cell.str` of cell `j` of the header row / of the `k`-th non-separator row);
   * `c08e_delim`: cell `i` of the delimiter line is the control cell (at least three dashes, colon
     markers) for the effective alignment of column `i` in the view AFTER the pass: the column's own
     value, else column 0's;
   * `c08e_delim_last_writer`: when the column chains are `Nodup`, that alignment is the LAST value
     written by the column's own pre-time then post-time callbacks, else the value the history left
     (`e2ecb_props_last_writer`).  `Nodup` holds for every `CellsOk` history
     (`e2ecb_columns_nodup_history`); since `Props/C12h` cannot be imported next to `Props/E2E`
     (see Proofs/E2EcbHist.lean), that composition is `c08e_delim_history` in Props/C08eH.lean.

  Hypotheses: those of `e2ecb_markdown` (`Valid ops`, the table exists, `AlignOK` of the post-pass
  view) plus "the table has a header and at least one column", which by `e2ecb_markdown` is exactly
  "the render succeeds" (otherwise nothing is written).  Every theorem also returns `m.res = .ok ()`.
-/
import Tabmodel.Props.E2Ecb
import Tabmodel.Proofs.C08eCore
namespace Tab
open World hiding CellOK
open E2Ecb

/-- Cells, against the view of the built world.  With `v` the view of `run ops` (before the pass) and
    `hs` its header: source row `k` of `hs :: bodyRows v` is on output line `0` (header) or `k + 1`
    (body; line 1 is the delimiter); for every cell `c` of that source row, the `j`-th piece between
    unescaped pipes is the escaped `c.text` with at least one space on either side and nothing else,
    and, trimmed and entity-decoded, it is the trimmed `c.text`; a column the row has no cell for holds
    a single space. -/
theorem c08e_cells (x : Ext) (ops : List BuildOp) (hv : Valid ops = true) (wr : Wrapper)
    (hk : wr.kind = .markdown) (ht : wr.core < (run x.dw ops).tables.length)
    (ha : AlignOK ((invokeRenderCallbacks x.dw (run x.dw ops) wr.core).view wr.core))
    (hh : ((run x.dw ops).table wr.core).header.isSome = true)
    (hn : 1 ≤ ((run x.dw ops).table wr.core).nColumns) :
    let w := run x.dw ops
    let v := w.view wr.core
    let m := (w.renderTo x wr).2
    m.res = .ok () ∧
    ∀ hs, v.header = some hs → ∀ k cells, (hs :: bodyRows v)[k]? = some cells →
      ∃ line, (lines m.output)[if k = 0 then 0 else k + 1]? = some line ∧
        (∀ j c, cells[j]? = some c →
          ∃ e l r, (splitPipes line)[j + 1]? = some e ∧
            e = spaces (l + 1) ++ mdEscape c.text ++ spaces (r + 1) ∧
            mdDecode (trimSp e) = trimSp c.text) ∧
        (∀ j, cells.length ≤ j → j < (w.table wr.core).nColumns → (splitPipes line)[j + 1]? = some [32]) := by
  intro w v m
  obtain ⟨_, hok, hmd, _⟩ := e2ecb_markdown x ops hv wr hk ht ha
  have hres : m.res = .ok () := hok.mpr ⟨hh, hn⟩
  refine ⟨hres, fun hs hhs k cells hkk => ?_⟩
  exact C08e.cells_world x w wr hk (hmd.mp hres) hs hhs k cells hkk

/-- Cells, against the world's row store.  `hr` is the header row of the built table; source row `k`
    of `hr :: (non-separator rows of the table, in order)` is row id `r`; cell `j` of that row is `ce`:
    then piece `j + 1` of output line `0` / `k + 1`, trimmed and entity-decoded, is the trimmed text
    `ce.str` the history put into that cell. -/
theorem c08e_cells_built (x : Ext) (ops : List BuildOp) (hv : Valid ops = true) (wr : Wrapper)
    (hk : wr.kind = .markdown) (ht : wr.core < (run x.dw ops).tables.length)
    (ha : AlignOK ((invokeRenderCallbacks x.dw (run x.dw ops) wr.core).view wr.core))
    (hn : 1 ≤ ((run x.dw ops).table wr.core).nColumns)
    (hr : Nat) (hh : ((run x.dw ops).table wr.core).header = some hr)
    (k r : Nat)
    (hkr : (hr :: ((run x.dw ops).table wr.core).rows.filter (fun r => !((run x.dw ops).row r).isSep))[k]? = some r)
    (j : Nat) (ce : Cell) (hce : ((run x.dw ops).rowCells r)[j]? = some ce) :
    let m := ((run x.dw ops).renderTo x wr).2
    ∃ line e, (lines m.output)[if k = 0 then 0 else k + 1]? = some line ∧
      (splitPipes line)[j + 1]? = some e ∧ mdDecode (trimSp e) = trimSp ce.str := by
  intro m
  obtain ⟨hhv, hsrc⟩ := C08e.srcRows_view (run x.dw ops) wr.core hr hh
  obtain ⟨_, hcells⟩ := c08e_cells x ops hv wr hk ht ha (by rw [hh]; rfl) hn
  have hkk : (((run x.dw ops).rowCells hr).map (run x.dw ops).rcell :: bodyRows ((run x.dw ops).view wr.core))[k]? =
      some (((run x.dw ops).rowCells r).map (run x.dw ops).rcell) := by
    rw [hsrc, List.getElem?_map, hkr]; rfl
  obtain ⟨line, hline, hc, _⟩ := hcells _ hhv k _ hkk
  obtain ⟨e, _, _, he, _, hd⟩ := hc j ((run x.dw ops).rcell ce) (by rw [List.getElem?_map, hce]; rfl)
  exact ⟨line, e, hline, he, hd⟩

/-- The delimiter row.  With `v'` the view AFTER the callbacks pass of this very render: cell `i` of
    the second output line is `mdControlCell w a` — a marker byte, `nd ≥ 3` dashes (at least the
    measured column width `w = mdColWidth v' i`), a marker byte, the markers being (space, space) for
    unset / left, (space, colon) for right, (colon, colon) for centre — possibly with spaces around it
    (none when the measure gives the cell at least its column's width), where `a = effAlignNat v' i`
    is the EFFECTIVE alignment of column `i`: column record `i + 1`'s own `align` value if set, else
    the defaults column's (record 0). -/
theorem c08e_delim (x : Ext) (ops : List BuildOp) (hv : Valid ops = true) (wr : Wrapper)
    (hk : wr.kind = .markdown) (ht : wr.core < (run x.dw ops).tables.length)
    (ha : AlignOK ((invokeRenderCallbacks x.dw (run x.dw ops) wr.core).view wr.core))
    (hh : ((run x.dw ops).table wr.core).header.isSome = true)
    (hn : 1 ≤ ((run x.dw ops).table wr.core).nColumns)
    (i : Nat) (hi : i < ((run x.dw ops).table wr.core).nColumns) :
    let w := run x.dw ops
    let v' := (invokeRenderCallbacks x.dw w wr.core).view wr.core
    let m := (w.renderTo x wr).2
    m.res = .ok () ∧
    (∃ (line : Bytes) (l r nd : Nat),
      (lines m.output)[1]? = some line ∧
      (splitPipes line)[i + 1]? =
        some (spaces l ++ mdControlCell (mdColWidth v' i) (effAlignNat v' i) ++ spaces r) ∧
      (mdColWidth v' i ≤ (x.dw (mdControlCell (mdColWidth v' i) (effAlignNat v' i)) : Nat) → l = 0 ∧ r = 0) ∧
      3 ≤ nd ∧ mdColWidth v' i ≤ (nd : Int) ∧
      mdControlCell (mdColWidth v' i) (effAlignNat v' i) =
        (mdMarkers (effAlignNat v' i)).1 :: List.replicate nd 45 ++ [(mdMarkers (effAlignNat v' i)).2]) ∧
    effAlign v' i = (match v'.colAlign.getD (i + 1) none with
      | some a => some a
      | none => v'.colAlign.getD 0 none) ∧
    (effAlignNat v' i = 0 ∨ effAlignNat v' i = 1 ∨ effAlignNat v' i = 2 ∨ effAlignNat v' i = 3) := by
  intro w v' m
  obtain ⟨_, hok, hmd, _⟩ := e2ecb_markdown x ops hv wr hk ht ha
  have hres : m.res = .ok () := hok.mpr ⟨hh, hn⟩
  have hnc : v'.ncols = ((run x.dw ops).table wr.core).nColumns := (irc_view_content x.dw w wr.core wr.core).1
  refine ⟨hres, C08e.delim_world x w wr hk (hmd.mp hres) i (by rw [hnc]; exact hi), rfl, ?_⟩
  -- the effective alignment is in its domain
  have h1 := ha (i + 1) (by rw [hnc]; omega)
  have h0 := ha 0 (Nat.zero_le _)
  unfold effAlignNat effAlign
  rcases h1 with h1 | ⟨a, ha1, h1⟩
  · rw [h1]
    rcases h0 with h0 | ⟨b, hb, h0⟩
    · rw [h0]; exact Or.inl rfl
    · rw [h0]; simp only; omega
  · rw [h1]; simp only; omega

/-- Last writer.  When the column chains of the built table hold one link per key, the effective
    alignment that the delimiter cell of column `i` shows is: the last `align` value written by column
    record `i + 1`'s own pre-time then post-time callbacks (the value the history left on it if they
    write none), if that is set; otherwise the same for the defaults column, record 0. -/
theorem c08e_delim_last_writer (x : Ext) (ops : List BuildOp) (wr : Wrapper)
    (hnd : ∀ c ∈ ((run x.dw ops).table wr.core).columns, c.props.keys.Nodup) (i : Nat) :
    let w := run x.dw ops
    let v' := (invokeRenderCallbacks x.dw w wr.core).view wr.core
    let lw := fun n => ((w.table wr.core).columns[n]?).bind (fun c =>
      lastWrite .align (c.selfCbs.pre ++ c.selfCbs.post) (c.props.get .align))
    effAlign v' i = (match lw (i + 1) with
      | some a => some a
      | none => lw 0) := by
  intro w v' lw
  unfold effAlign
  rw [C08e.colAlign_getD_last_writer x.dw w wr.core hnd (i + 1),
    C08e.colAlign_getD_last_writer x.dw w wr.core hnd 0]
  rfl

/-! ### non-vacuity: the history `cbOps` of Proofs/E2EcbExample.lean (`dw := List.length`)

  Table 0: headers `a b`; row `c d`; a separator; a ragged row `e`.  The history right-aligns column 1;
  column 1's own pre-time callback then sets centre; column 2's callbacks set right, then unset. -/

namespace E2EcbExample

private theorem hh08 : ((run e2eX.dw cbOps).table e2eMd.core).header.isSome = true := by decide +kernel

example := c08e_cells e2eX cbOps hv e2eMd rfl ht ha hh08 hn
-- source row 2 (the ragged row `e`, row id 3) is on line 3; its cell 0 reads back `e`; column 1 is padding
example : ((run e2eX.dw cbOps).table e2eMd.core).header = some 0 := by decide +kernel
example : (0 :: ((run e2eX.dw cbOps).table e2eMd.core).rows.filter
    (fun r => !((run e2eX.dw cbOps).row r).isSep)) = [0, 1, 3] := by decide +kernel
example : ((run e2eX.dw cbOps).rowCells 3).map (·.str) = [[101]] := by decide +kernel
example : ∃ line e, (lines ((run e2eX.dw cbOps).renderTo e2eX e2eMd).2.output)[3]? = some line ∧
    (splitPipes line)[1]? = some e ∧ mdDecode (trimSp e) = [101] := by
  obtain ⟨ce, hce⟩ : ∃ ce, ((run e2eX.dw cbOps).rowCells 3)[0]? = some ce ∧ ce.str = [101] := by
    decide +kernel
  obtain ⟨line, e, h1, h2, h3⟩ := c08e_cells_built e2eX cbOps hv e2eMd rfl ht ha hn 0 (by decide +kernel)
    2 3 (by decide +kernel) 0 ce hce.1
  exact ⟨line, e, h1, h2, by rw [h3, hce.2]; decide⟩
-- the delimiter row: column 0 is centred by its own callback although the history said right
example := c08e_delim e2eX cbOps hv e2eMd rfl ht ha hh08 hn 0 (by decide +kernel)
example : effAlign ((invokeRenderCallbacks e2eX.dw (run e2eX.dw cbOps) 0).view 0) 0 = some (.align 3) := by
  rw [show effAlign ((invokeRenderCallbacks e2eX.dw (run e2eX.dw cbOps) 0).view 0) 0 = _ from
    c08e_delim_last_writer e2eX cbOps e2eMd hnd 0]
  decide +kernel
example : effAlign ((run e2eX.dw cbOps).view 0) 0 = some (.align 2) := by decide +kernel
-- column 1: set right at pre time, unset at post time; the defaults column has no value: unset
example : effAlign ((invokeRenderCallbacks e2eX.dw (run e2eX.dw cbOps) 0).view 0) 1 = none := by
  rw [show effAlign ((invokeRenderCallbacks e2eX.dw (run e2eX.dw cbOps) 0).view 0) 1 = _ from
    c08e_delim_last_writer e2eX cbOps e2eMd hnd 1]
  decide +kernel

end E2EcbExample

end Tab
