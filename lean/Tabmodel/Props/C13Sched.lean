/-
  C13 (regenerated fact) — the order of `invokePropertyCallbacks` calls in the SOURCE is the
  documented one.  `Generated.schedule` is rewritten from /repo's AST on every check; if the source
  reorders, drops or adds a call this `decide` fails and the check goes looking for a failing input.
-/
import Tabmodel.Generated.Schedule
namespace Tab
open Generated

/-- the documented schedule: (function, loop depth, guarded by `col != nil`?, callback set, time) -/
def documentedSchedule : List (String × Nat × Bool × String × String) := [
  -- InvokeRenderCallbacks: table, columns, then rows, columns again, table again
  ("InvokeRenderCallbacks", 0, false, "t.tableItselfCallbacks", "CB_AT_RENDER_PRECELL"),
  ("InvokeRenderCallbacks", 1, false, "col.columnItselfCallbacks", "CB_AT_RENDER_PRECELL"),
  ("InvokeRenderCallbacks", 0, false, "->row", "t.headerRow"),
  ("InvokeRenderCallbacks", 1, false, "->row", "row"),
  ("InvokeRenderCallbacks", 1, false, "col.columnItselfCallbacks", "CB_AT_RENDER_POSTCELL"),
  ("InvokeRenderCallbacks", 0, false, "t.tableItselfCallbacks", "CB_AT_RENDER_POSTCELL"),
  -- per row: the row itself; per cell: pre-cell of table, column, row; render of table, cell;
  -- post-cell of row, column, table; the row again
  ("invokeRenderCallbacks", 0, false, "row.rowItselfCallbacks", "CB_AT_RENDER_PRECELL"),
  ("invokeRenderCallbacks", 1, false, "t.tableCellCallbacks", "CB_AT_RENDER_PRECELL"),
  ("invokeRenderCallbacks", 1, true, "col.cellCallbacks", "CB_AT_RENDER_PRECELL"),
  ("invokeRenderCallbacks", 1, false, "row.rowCellCallbacks", "CB_AT_RENDER_PRECELL"),
  ("invokeRenderCallbacks", 1, false, "t.tableCellCallbacks", "CB_AT_RENDER"),
  ("invokeRenderCallbacks", 1, false, "ptr.callbacks", "CB_AT_RENDER"),
  ("invokeRenderCallbacks", 1, false, "row.rowCellCallbacks", "CB_AT_RENDER_POSTCELL"),
  ("invokeRenderCallbacks", 1, true, "col.cellCallbacks", "CB_AT_RENDER_POSTCELL"),
  ("invokeRenderCallbacks", 1, false, "t.tableCellCallbacks", "CB_AT_RENDER_POSTCELL"),
  ("invokeRenderCallbacks", 0, false, "row.rowItselfCallbacks", "CB_AT_RENDER_POSTCELL"),
  -- add time
  ("Add", 0, false, "r.rowCellCallbacks", "CB_AT_ADD"),
  ("AddRow", 0, false, "row.rowItselfCallbacks", "CB_AT_ADD"),
  ("AddRow", 0, false, "t.tableRowAdditionCallbacks", "CB_AT_ADD"),
  ("AddRow", 1, true, "col.cellCallbacks", "CB_AT_ADD"),
  ("AddRow", 1, false, "t.tableCellCallbacks", "CB_AT_ADD"),
  ("AddHeaders", 0, false, "t.tableRowAdditionCallbacks", "CB_AT_ADD"),
  ("AddHeaders", 1, true, "col.cellCallbacks", "CB_AT_ADD"),
  ("AddHeaders", 1, false, "t.tableCellCallbacks", "CB_AT_ADD")]

def isColGuard (g : String) : Bool := g == "col != nil" || g == "col := ptr.columnOfTable(); col != nil"
def isHeaderGuard (g : String) : Bool := g == "t.headerRow != nil"

/-- the source's calls, in order, projected to what the documented order talks about -/
def scheduleView : List (String × Nat × Bool × String × String) :=
  schedule.map (fun c => (c.fn, c.depth, isColGuard c.guard, c.set, c.time))

theorem c13_schedule : scheduleView = documentedSchedule := by decide

/-- every call is unguarded, guarded by the existence of the column, or (header traversal) by the
    existence of a header row: no other condition suppresses a callback -/
theorem c13_guards : ∀ c ∈ schedule, c.guard = "" ∨ isColGuard c.guard = true ∨ isHeaderGuard c.guard = true := by decide

/-- the object handed over is the live one: the source passes the table, the column pointer, the
    row pointer and a pointer into the row's cell slice — never a copy -/
theorem c13_targets : ∀ c ∈ schedule, c.target ∈ ["t", "col", "row", "ptr", "hr", ""] := by decide

end Tab
