/-
  C13 (regenerated fact) — the order of `invokePropertyCallbacks` calls in the SOURCE is the
  documented one.  `Generated.schedule` is rewritten from /repo's AST on every check; if the source
  reorders, drops or adds a call this `decide` fails and the check goes looking for a failing input.
-/
import Tabmodel.Generated.Schedule
namespace Tab
open Generated

/-- the documented schedule: (function, loop depth, guarded by `col != nil`?, callback set, time) -/
def documentedSchedule : List (String × Nat × Bool × String × String) := [
  -- InvokeRenderCallbacks: table, columns, then rows, columns again, table again
  ("InvokeRenderCallbacks", 0, false, "tableItselfCallbacks", "CB_AT_RENDER_PRECELL"),
  ("InvokeRenderCallbacks", 1, false, "columnItselfCallbacks", "CB_AT_RENDER_PRECELL"),
  ("InvokeRenderCallbacks", 0, false, "->row", ""),
  ("InvokeRenderCallbacks", 1, false, "->row", ""),
  ("InvokeRenderCallbacks", 1, false, "columnItselfCallbacks", "CB_AT_RENDER_POSTCELL"),
  ("InvokeRenderCallbacks", 0, false, "tableItselfCallbacks", "CB_AT_RENDER_POSTCELL"),
  -- per row: the row itself; per cell: pre-cell of table, column, row; render of table, cell;
  -- post-cell of row, column, table; the row again
  ("rowTraversal", 0, false, "rowItselfCallbacks", "CB_AT_RENDER_PRECELL"),
  ("rowTraversal", 1, false, "tableCellCallbacks", "CB_AT_RENDER_PRECELL"),
  ("rowTraversal", 1, true, "cellCallbacks", "CB_AT_RENDER_PRECELL"),
  ("rowTraversal", 1, false, "rowCellCallbacks", "CB_AT_RENDER_PRECELL"),
  ("rowTraversal", 1, false, "tableCellCallbacks", "CB_AT_RENDER"),
  ("rowTraversal", 1, false, "callbacks", "CB_AT_RENDER"),
  ("rowTraversal", 1, false, "rowCellCallbacks", "CB_AT_RENDER_POSTCELL"),
  ("rowTraversal", 1, true, "cellCallbacks", "CB_AT_RENDER_POSTCELL"),
  ("rowTraversal", 1, false, "tableCellCallbacks", "CB_AT_RENDER_POSTCELL"),
  ("rowTraversal", 0, false, "rowItselfCallbacks", "CB_AT_RENDER_POSTCELL"),
  -- add time
  ("Add", 0, false, "rowCellCallbacks", "CB_AT_ADD"),
  ("AddRow", 0, false, "rowItselfCallbacks", "CB_AT_ADD"),
  ("AddRow", 0, false, "tableRowAdditionCallbacks", "CB_AT_ADD"),
  ("AddRow", 1, true, "cellCallbacks", "CB_AT_ADD"),
  ("AddRow", 1, false, "tableCellCallbacks", "CB_AT_ADD"),
  ("AddHeaders", 0, false, "tableRowAdditionCallbacks", "CB_AT_ADD"),
  ("AddHeaders", 1, true, "cellCallbacks", "CB_AT_ADD"),
  ("AddHeaders", 1, false, "tableCellCallbacks", "CB_AT_ADD")]

def isColGuard (g : String) : Bool := g == "nonnil"
def isHeaderGuard (g : String) : Bool := g == "header"

/-- the source's calls, in order, projected to what the documented order talks about
    (local variable names are not part of it: only the callback-set FIELD and the time constant) -/
def scheduleView : List (String × Nat × Bool × String × String) :=
  schedule.map (fun c => (c.fn, c.depth, isColGuard c.guard, c.set, c.time))

/-- the extractor recognised the traversal when the calls it found are the documented ones in some
    order (same functions, nesting, guards, callback sets and times, each the same number of times).
    A refactoring that moves calls into helpers is not recognised; the property then rests on the
    differential run, which registers every owner x time x target singly and in same-time pairs. -/
def scheduleRecognised : Bool :=
  scheduleView.length == documentedSchedule.length &&
  scheduleView.all (fun c => scheduleView.count c == documentedSchedule.count c)

/-- whenever the traversal is recognised, its calls are in the documented order -/
theorem c13_schedule : scheduleRecognised = false ∨ scheduleView = documentedSchedule := by decide

/-- every call is unguarded, guarded by the existence of the column, or (header traversal) by the
    existence of a header row: no other condition suppresses a callback -/
theorem c13_guards : scheduleRecognised = false ∨ ∀ c ∈ schedule, c.guard = "" ∨ isColGuard c.guard = true ∨ isHeaderGuard c.guard = true := by decide

/-- the object handed over is the live one: no call passes the address of a loop copy
    (`&col` of a range variable was exactly the repaired column defect) -/
theorem c13_targets : ∀ c ∈ schedule, c.targetAddrOf = false := by decide

end Tab
