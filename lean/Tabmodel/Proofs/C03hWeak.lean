/-
  C03h helpers, part 5: the weaker class `FitItemsW`.  `CellFits` of a view cell follows from
  "cached width = widest line" alone, whether or not the item declares a width; hence `ViewOK` of the
  post-pass view from `TableFitsW`, and `TableFitsW` for every weakly fitting history.
-/
import Tabmodel.Proofs.C03hView
namespace Tab
namespace C03h
open World

/-- fit from the cached width alone -/
theorem dimProps_fits_width (dw : Measure) (it : Item) (c : Cell) (rc : RCell) (h : Int)
    (hd : (dimProps dw it c).1 = .dims rc.cellWidth h) (hl : (dimProps dw it c).2 = .lws rc.lws)
    (hw : c.width = (longestLine dw c.str : Nat)) : CellFits rc := by
  rw [dimProps_eq] at hd hl
  simp only [Val.dims.injEq, Val.lws.injEq] at hd hl
  intro x hx
  rw [← hl] at hx
  rw [← hd.1]
  have htw : c.termWidth = (longestLine dw c.str : Nat) := by
    unfold Cell.termWidth; rw [hw]; split <;> omega
  rcases List.mem_append.mp hx with hx | hx
  · obtain ⟨l, hlm, rfl⟩ := List.mem_map.mp hx
    show dimLineW dw it c l ≤ c.termWidth
    unfold dimLineW
    split
    · exact Int.le_refl _
    · rw [htw, longestLine_eq]
      unfold Cell.lines at hlm
      exact Int.ofNat_le.mpr (le_maxNat ((lines c.str).map dw) (dw l) (List.mem_map.mpr ⟨l, hlm, rfl⟩))
  · rw [List.eq_of_mem_replicate hx]; simp only [blankWS]; exact termWidth_nonneg c

theorem fitsW_of_core_eq {dw : Measure} {it : Item} {a b : Cell} (h : a.core = b.core)
    (hf : Cell.FitsW dw it a) : Cell.FitsW dw it b := by
  obtain ⟨_, h2, h3, _, _⟩ := E2Ecb.core_eq_fields h
  unfold Cell.FitsW Cell.lines at hf ⊢
  rw [← h2, ← h3]
  exact hf

/-- `viewOK_cb` from the weaker premise -/
theorem viewOK_cb_weak (dw : Measure) (w : World) (t : Nat) (hU : w.UserKeysOnly t)
    (hcb : Cb.dimSetter ∈ (w.table t).cellCbs.render) (hF : TableFitsW dw w t) :
    ViewOK dw ((invokeRenderCallbacks dw w t).view t) := by
  intro c hc
  obtain ⟨r, hr, ce', hce', e, h1, h2⟩ := E2Ecb.cell_measured_cb dw w t hU hcb c hc
  obtain ⟨ce, hce, hee⟩ := E2Ecb.irc_cell_src_cb dw w t r ce' hce'
  have hit : ∀ i, (invokeRenderCallbacks dw w t).item i = w.item i := by
    intro i; unfold World.item; rw [E2Ecb.irc_items]
  have hfit : Cell.FitsW dw ((invokeRenderCallbacks dw w t).item ce'.item) ce' := by
    rw [hit, ← (E2Ecb.core_eq_fields hee).1]
    exact fitsW_of_core_eq hee (hF r hr ce hce)
  rw [e]
  refine ⟨rcell_cellOK dw _ _ ce' h1 h2, ?_⟩
  have e1 : (dimProps dw ((invokeRenderCallbacks dw w t).item ce'.item) ce').1 =
      .dims ((invokeRenderCallbacks dw w t).rcell ce').cellWidth ce'.hgt := by
    unfold World.rcell; rw [h1, dimProps_eq]
  have e2 : (dimProps dw ((invokeRenderCallbacks dw w t).item ce'.item) ce').2 =
      .lws ((invokeRenderCallbacks dw w t).rcell ce').lws := by
    unfold World.rcell; rw [h2, dimProps_eq]
  rcases hfit with ha | ⟨ha, hb⟩
  · exact dimProps_fits_width dw _ ce' _ _ e1 e2 ha
  · exact dimProps_fits_single_declared dw _ ce' _ _ e1 e2 ha hb

/-! ### the history invariant -/

theorem update_sig_irrel (dw : Measure) (it : Item) (c c' : Cell) :
    (c.update dw it).str = (c'.update dw it).str ∧ (c.update dw it).width = (c'.update dw it).width := by
  unfold Cell.update
  split <;> exact ⟨rfl, rfl⟩

theorem update_fitsW (dw : Measure) (it : Item) (c : Cell) (hf : it.FitsW dw) :
    Cell.FitsW dw it (c.update dw it) := by
  unfold Item.FitsW Cell.FitsW Cell.lines at hf
  unfold Cell.FitsW Cell.lines
  obtain ⟨e1, e2⟩ := update_sig_irrel dw it c default
  rw [e1, e2]
  exact hf

theorem fitsW_of_fitsSrc {dw : Measure} {it : Item} {ce : Cell} (h : Cell.FitsSrc dw it ce) :
    Cell.FitsW dw it ce := by
  rcases h with ⟨_, h⟩ | h
  · exact Or.inl h
  · exact Or.inr h

theorem item_fitsW_of_fits {dw : Measure} {it : Item} (h : it.Fits dw) : it.FitsW dw :=
  fitsW_of_fitsSrc (update_fitsSrc dw it default h)

theorem fitsW_mono {dw : Measure} {it it' : Item} {ce : Cell}
    (h : it.mWidth.isSome = true → it'.mWidth.isSome = true) (hf : Cell.FitsW dw it ce) :
    Cell.FitsW dw it' ce := by
  rcases hf with h1 | ⟨h1, h2⟩
  · exact Or.inl h1
  · exact Or.inr ⟨h h1, h2⟩

def FitQW (dw : Measure) (s : List Item) (u : List Nat) (ce : Cell) : Prop :=
  ce.item ∈ u ∧ Cell.FitsW dw (s.getD ce.item default) ce

theorem sigInv_fitQW (dw : Measure) (s : List Item) (u : List Nat) : SigInv (FitQW dw s u) := by
  intro a b e h
  simp only [sig, Prod.mk.injEq] at e
  obtain ⟨e1, e2, e3, _⟩ := e
  unfold FitQW Cell.FitsW Cell.lines at h ⊢
  rw [← e1, ← e2, ← e3]
  exact h

def FitInvW (dw : Measure) (s : List Item) (u : List Nat) (w : World) : Prop :=
  w.items = s ∧ (∀ it ∈ s, it.FitsW dw) ∧ CellsAll (FitQW dw s u) w

theorem FitInvW.item {dw : Measure} {s : List Item} {u : List Nat} {w : World} (h : FitInvW dw s u w) (i : Nat) :
    w.item i = s.getD i default ∧ (w.item i).FitsW dw := by
  have e : w.item i = s.getD i default := by unfold World.item; rw [h.1]
  exact ⟨e, e ▸ getD_all (item_fitsW_of_fits (isPlain_fits dw default_isPlain)) h.2.1 i⟩

theorem fitInvW_step (dw : Measure) {s : List Item} {u : List Nat} {w : World} (op : BuildOp)
    (hop : op.FitStepW dw s u) (h : FitInvW dw s u w) :
    FitInvW dw (op.storeAfter s) (op.madeFrom ++ u) (applyOp dw w op) := by
  refine ⟨by rw [items_applyOp, h.1], ?_, ?_⟩
  · cases op with
    | setItems its => exact hop.1
    | _ => exact h.2.1
  · have h1 : CellsAll (FitQW dw s (op.madeFrom ++ u)) (applyOp dw w op) := by
      apply cellsAll_applyOp (sigInv_fitQW dw s _) dw op _ _ _
        (h.2.2.mono (fun ce hce => ⟨List.mem_append_right _ hce.1, hce.2⟩))
      · intro i hi _
        refine ⟨List.mem_append_left _ (by unfold newCell; rw [update_item]; exact hi), ?_⟩
        unfold newCell
        rw [update_item, ← (h.item i).1]
        exact update_fitsW dw _ _ (h.item i).2
      · intro r ce e
        subst e
        exact ⟨List.mem_append_left _ List.mem_cons_self, hop⟩
      · intro _ _ _ ce hce
        refine ⟨by rw [update_item]; exact hce.1, ?_⟩
        rw [update_item, ← (h.item ce.item).1]
        exact update_fitsW dw _ _ (h.item ce.item).2
    cases op with
    | setItems its =>
      apply h1.mono
      intro ce hce
      refine ⟨hce.1, ?_⟩
      have hu : ce.item ∈ u := by simpa [BuildOp.madeFrom] using hce.1
      exact fitsW_mono (hop.2 ce.item hu) hce.2
    | _ => exact h1

theorem fitInvW_runFrom (dw : Measure) (ops : List BuildOp) {s : List Item} {u : List Nat} {w : World}
    (hops : fitFromW dw s u ops) (h : FitInvW dw s u w) :
    FitInvW dw (finalStore s ops) (finalUsed u ops) (runFrom dw w ops) := by
  unfold runFrom finalStore finalUsed
  induction ops generalizing s u w with
  | nil => exact h
  | cons op ops ih => exact ih hops.2 (fitInvW_step dw op hops.1 h)

theorem fitInvW_run (dw : Measure) (ops : List BuildOp) (hops : FitItemsW dw ops) :
    FitInvW dw (finalStore [] ops) (finalUsed [] ops) (run dw ops) :=
  fitInvW_runFrom dw ops hops ⟨rfl, fun _ h => (List.not_mem_nil h).elim, cellsAll_empty⟩

theorem fitFromW_of_fitFrom (dw : Measure) (ops : List BuildOp) (s : List Item) (u : List Nat)
    (h : fitFrom dw s u ops) : fitFromW dw s u ops := by
  induction ops generalizing s u with
  | nil => trivial
  | cons op ops ih =>
    refine ⟨?_, ih _ _ h.2⟩
    have hop := h.1
    cases op with
    | setItems its =>
      exact ⟨fun it hit => item_fitsW_of_fits (hop.1 it hit), fun i hi hs => by rw [hop.2 i hi]; exact hs⟩
    | rowAddCell r ce => exact fitsW_of_fitsSrc hop
    | _ => trivial

end C03h
end Tab
