/-
  Helpers for the capstone theorems (`Props/E2E.lean`): the view a renderer reads after the
  callbacks pass, compared with the view of the world the history built.

  * under `LogOnly`, the pass changes no cell's text / emptiness / item encoding and nothing
    else of the view but the three measurement fields (`view_mask_irc`);
  * hence CSV / JSON / HTML emit exactly what they would emit on the view before the pass;
  * where the cells of a view come from (`mem_allCells_view`);
  * a `Wrap` is a `RegisterPropertyCallback` history step (`applyOp_wrap`).
-/
import Tabmodel.Props.C02
import Tabmodel.Proofs.StableWrap
import Tabmodel.Spec.Text
namespace Tab

/-- what the text-independent renderers read of a cell -/
def RCell.content (c : RCell) : Bytes × Bool × Option Bytes := (c.text, c.empty, c.json)

theorem RCell.content_mask (tt md : Bool) (c : RCell) : (c.mask tt md).content = c.content := rfl

namespace World

theorem measAll_none (dw : Measure) (w : World) (t : Nat) : MeasAll dw false false w t := by
  intro r _ ce _
  exact ⟨fun h => Bool.noConfusion h, fun h => Bool.noConfusion h⟩

/-- the pass changes nothing of the view but the measurement fields -/
theorem view_mask_irc (dw : Measure) (w : World) (t : Nat) (hL : LogOnly w t) :
    ((invokeRenderCallbacks dw w t).view t).mapCells (RCell.mask false false) =
      (w.view t).mapCells (RCell.mask false false) := by
  rw [view_irc dw false false w t hL (fun h => Bool.noConfusion h) (fun h => Bool.noConfusion h), canonView_bare,
    ← view_mask_eq_canon dw false false w t (measAll_none dw w t)]

theorem irc_table (dw : Measure) (w : World) (t : Nat) (hL : LogOnly w t) :
    (invokeRenderCallbacks dw w t).table t = w.table t :=
  of_erase_eq (fun w => w.table t) (rd_table t) (erase_irc dw w t hL)

theorem irc_item (dw : Measure) (w : World) (t : Nat) (hL : LogOnly w t) (i : Nat) :
    (invokeRenderCallbacks dw w t).item i = w.item i :=
  of_erase_eq (fun w => w.item i) (fun _ => rfl) (erase_irc dw w t hL)

theorem irc_rowCells_erase (dw : Measure) (w : World) (t : Nat) (hL : LogOnly w t) (r : Nat) :
    ((invokeRenderCallbacks dw w t).rowCells r).map Cell.erase = (w.rowCells r).map Cell.erase := by
  rw [← erase_rowCells, ← erase_rowCells, erase_irc dw w t hL]

theorem view_ncols (w : World) (t : Nat) : (w.view t).ncols = (w.table t).nColumns := rfl
theorem view_colAlign (w : World) (t : Nat) :
    (w.view t).colAlign = (w.table t).columns.map (·.props.get .align) := rfl
theorem view_colSkip (w : World) (t : Nat) :
    (w.view t).colSkip = (w.table t).columns.map (·.props.get .skipable) := rfl
theorem view_header_isSome (w : World) (t : Nat) :
    (w.view t).header.isSome = (w.table t).header.isSome := by
  unfold view; simp

theorem irc_view_ncols (dw : Measure) (w : World) (t : Nat) (hL : LogOnly w t) :
    ((invokeRenderCallbacks dw w t).view t).ncols = (w.view t).ncols := by
  rw [view_ncols, view_ncols, irc_table dw w t hL]

theorem irc_view_colAlign (dw : Measure) (w : World) (t : Nat) (hL : LogOnly w t) :
    ((invokeRenderCallbacks dw w t).view t).colAlign = (w.view t).colAlign := by
  rw [view_colAlign, view_colAlign, irc_table dw w t hL]

theorem irc_view_colSkip (dw : Measure) (w : World) (t : Nat) (hL : LogOnly w t) :
    ((invokeRenderCallbacks dw w t).view t).colSkip = (w.view t).colSkip := by
  rw [view_colSkip, view_colSkip, irc_table dw w t hL]

theorem irc_view_header_isSome (dw : Measure) (w : World) (t : Nat) (hL : LogOnly w t) :
    ((invokeRenderCallbacks dw w t).view t).header.isSome = (w.table t).header.isSome := by
  rw [view_header_isSome, irc_table dw w t hL]

/-! ### content of the two views -/

theorem mapCells_header_content (m : RCell → RCell) (hm : ∀ c, (m c).content = c.content) (v : RTable) :
    (v.mapCells m).header.map (·.map RCell.content) = v.header.map (·.map RCell.content) := by
  unfold RTable.mapCells
  cases v.header with
  | none => rfl
  | some hs =>
    simp only [Option.map_some, List.map_map]
    exact congrArg some (List.map_congr_left (fun c _ => hm c))

theorem mapCells_rows_content (m : RCell → RCell) (hm : ∀ c, (m c).content = c.content) (v : RTable) :
    (v.mapCells m).rows.map (·.map (·.map RCell.content)) = v.rows.map (·.map (·.map RCell.content)) := by
  unfold RTable.mapCells
  simp only [List.map_map]
  apply List.map_congr_left
  intro r _
  cases r with
  | none => rfl
  | some cs =>
    simp only [Function.comp, Option.map_some, List.map_map]
    exact congrArg some (List.map_congr_left (fun c _ => hm c))

theorem view_content_irc (dw : Measure) (w : World) (t : Nat) (hL : LogOnly w t) :
    ((invokeRenderCallbacks dw w t).view t).header.map (·.map RCell.content) =
        (w.view t).header.map (·.map RCell.content) ∧
    ((invokeRenderCallbacks dw w t).view t).rows.map (·.map (·.map RCell.content)) =
        (w.view t).rows.map (·.map (·.map RCell.content)) := by
  have h := view_mask_irc dw w t hL
  have hm : ∀ c : RCell, (c.mask false false).content = c.content := fun _ => rfl
  constructor
  · rw [← mapCells_header_content _ hm, h, mapCells_header_content _ hm]
  · rw [← mapCells_rows_content _ hm, h, mapCells_rows_content _ hm]

/-! ### reading equal content maps cell by cell -/

theorem rows_sep_of_content {rs' rs : List (Option (List RCell))}
    (hr : rs'.map (·.map (·.map RCell.content)) = rs.map (·.map (·.map RCell.content))) (i : Nat) :
    rs'[i]? = some none ↔ rs[i]? = some none := by
  have hri := congrArg (·[i]?) hr
  simp only [List.getElem?_map] at hri
  cases h1 : rs'[i]? with
  | none =>
    rw [h1] at hri
    cases h2 : rs[i]? with
    | none => simp
    | some r => rw [h2] at hri; cases hri
  | some r' =>
    rw [h1] at hri
    cases h2 : rs[i]? with
    | none => rw [h2] at hri; cases hri
    | some r =>
      rw [h2] at hri
      cases r' <;> cases r <;> simp_all

theorem cells_of_content {cs' cs : List RCell} (h : cs'.map RCell.content = cs.map RCell.content) (j : Nat) :
    cs'[j]?.map RCell.content = cs[j]?.map RCell.content := by
  have := congrArg (·[j]?) h
  simpa [List.getElem?_map] using this

theorem rows_cell_of_content {rs' rs : List (Option (List RCell))}
    (hr : rs'.map (·.map (·.map RCell.content)) = rs.map (·.map (·.map RCell.content))) (i j : Nat) :
    (rs'[i]?.bind (fun r => r.bind (·[j]?))).map RCell.content =
      (rs[i]?.bind (fun r => r.bind (·[j]?))).map RCell.content := by
  have hri := congrArg (·[i]?) hr
  simp only [List.getElem?_map] at hri
  cases h1 : rs'[i]? with
  | none =>
    rw [h1] at hri
    cases h2 : rs[i]? with
    | none => rfl
    | some r => rw [h2] at hri; cases hri
  | some r' =>
    rw [h1] at hri
    cases h2 : rs[i]? with
    | none => rw [h2] at hri; cases hri
    | some r =>
      rw [h2] at hri
      cases r' with
      | none =>
        cases r with
        | none => rfl
        | some cs => cases hri
      | some cs' =>
        cases r with
        | none => cases hri
        | some cs =>
          simp only [Option.map_some, Option.some.injEq] at hri
          exact cells_of_content hri j

theorem header_cell_of_content {h' h : Option (List RCell)}
    (hh : h'.map (·.map RCell.content) = h.map (·.map RCell.content)) (j : Nat) :
    (h'.bind (·[j]?)).map RCell.content = (h.bind (·[j]?)).map RCell.content := by
  cases h' with
  | none =>
    cases h with
    | none => rfl
    | some cs => cases hh
  | some cs' =>
    cases h with
    | none => cases hh
    | some cs =>
      simp only [Option.map_some, Option.some.injEq] at hh
      exact cells_of_content hh j

/-! ### the renderers that read no measurement -/

theorem renderCsv_irc (dw : Measure) (w : World) (t : Nat) (hL : LogOnly w t) :
    renderCsv ((invokeRenderCallbacks dw w t).view t) = renderCsv (w.view t) := by
  rw [← renderCsv_mapCells (RCell.mask false false) (fun _ => rfl), view_mask_irc dw w t hL,
    renderCsv_mapCells (RCell.mask false false) (fun _ => rfl)]

theorem renderJson_irc (dw : Measure) (js : JsonStr) (w : World) (t : Nat) (hL : LogOnly w t) :
    renderJson js ((invokeRenderCallbacks dw w t).view t) = renderJson js (w.view t) := by
  rw [← renderJson_mapCells js (RCell.mask false false) (fun _ => rfl) (fun _ => rfl) (fun _ => rfl),
    view_mask_irc dw w t hL,
    renderJson_mapCells js (RCell.mask false false) (fun _ => rfl) (fun _ => rfl) (fun _ => rfl)]

theorem renderHtml_irc (dw : Measure) (cfg : HtmlCfg) (w : World) (t : Nat) (hL : LogOnly w t) :
    renderHtml cfg ((invokeRenderCallbacks dw w t).view t) = renderHtml cfg (w.view t) := by
  rw [← renderHtml_mapCells cfg (RCell.mask false false) (fun _ => rfl), view_mask_irc dw w t hL,
    renderHtml_mapCells cfg (RCell.mask false false) (fun _ => rfl)]

/-! ### where the cells of a view come from -/

theorem mem_allCells_view (w : World) (t : Nat) (c : RCell) (hc : c ∈ (w.view t).allCells) :
    ∃ r ∈ (w.table t).header.toList ++ (w.table t).rows, ∃ ce ∈ w.rowCells r, c = w.rcell ce := by
  unfold RTable.allCells view at hc
  simp only at hc
  rcases List.mem_append.mp hc with h | h
  · cases hh : (w.table t).header with
    | none => rw [hh] at h; simp at h
    | some hr =>
      rw [hh] at h
      simp only [Option.map_some, List.mem_map] at h
      obtain ⟨ce, hce, e⟩ := h
      exact ⟨hr, by simp, ce, hce, e.symm⟩
  · rw [List.mem_flatMap] at h
    obtain ⟨row, hrow, hcr⟩ := h
    rw [List.mem_map] at hrow
    obtain ⟨r, hr, e⟩ := hrow
    subst e
    split at hcr
    · rename_i cells heq
      split at heq
      · cases heq
      · simp only [Option.some.injEq] at heq
        subst heq
        rw [List.mem_map] at hcr
        obtain ⟨ce, hce, e⟩ := hcr
        exact ⟨r, by simp [hr], ce, hce, e.symm⟩
    · simp at hcr

/-! ### a `Wrap` is a history step -/

/-- the `BuildOp` that has the effect of `X.Wrap(t)` -/
def wrapOps (k : WKind) (t : Nat) : List BuildOp :=
  match k with
  | .text => [.regCb (.table t) .render .cell .dimSetter]
  | .markdown => [.regCb (.table t) .render .cell .widthSetter]
  | _ => []

theorem runFrom_wrapOps (dw : Measure) (w : World) (k : WKind) (t : Nat) :
    runFrom dw w (wrapOps k t) = w.wrapEffect k t := by
  cases k <;> rfl

theorem run_append (dw : Measure) (ops ops' : List BuildOp) :
    run dw (ops ++ ops') = runFrom dw (run dw ops) ops' := by
  unfold run runFrom; rw [List.foldl_append]

theorem run_wrapOps (dw : Measure) (ops : List BuildOp) (k : WKind) (t : Nat) :
    run dw (ops ++ wrapOps k t) = (run dw ops).wrapEffect k t := by
  rw [run_append, runFrom_wrapOps]

theorem validFrom_append (s : Shape) (ops ops' : List BuildOp) :
    Shape.validFrom s (ops ++ ops') = (Shape.validFrom s ops && Shape.validFrom (s.runFrom ops) ops') := by
  induction ops generalizing s with
  | nil => simp [Shape.validFrom, Shape.runFrom]
  | cons op ops ih =>
    simp only [List.cons_append, Shape.validFrom, ih, Bool.and_assoc]
    rfl

theorem valid_wrapOps (ops : List BuildOp) (k : WKind) (t : Nat) :
    Valid (ops ++ wrapOps k t) = Valid ops := by
  unfold Valid
  rw [validFrom_append]
  cases k <;> simp [wrapOps, Shape.validFrom, Shape.ok]

end World
end Tab

namespace Tab
namespace World

/-! ### `renderTo`, kind by kind -/

theorem renderTo_csv (x : Ext) (w : World) (wr : Wrapper) (hk : wr.kind = .csv) :
    (w.renderTo x wr).2 = renderCsv ((invokeRenderCallbacks x.dw w wr.core).view wr.core) := by
  unfold renderTo; rw [hk]

theorem renderTo_json (x : Ext) (w : World) (wr : Wrapper) (hk : wr.kind = .json) :
    (w.renderTo x wr).2 = renderJson x.js ((invokeRenderCallbacks x.dw w wr.core).view wr.core) := by
  unfold renderTo; rw [hk]

theorem renderTo_html (x : Ext) (w : World) (wr : Wrapper) (hk : wr.kind = .html) :
    (w.renderTo x wr).2 = renderHtml wr.html ((invokeRenderCallbacks x.dw w wr.core).view wr.core) := by
  unfold renderTo; rw [hk]

theorem renderTo_markdown (x : Ext) (w : World) (wr : Wrapper) (hk : wr.kind = .markdown) :
    (w.renderTo x wr).2 = renderMarkdown x.dw ((invokeRenderCallbacks x.dw w wr.core).view wr.core) := by
  unfold renderTo; rw [hk]

theorem renderTo_text (x : Ext) (w : World) (wr : Wrapper) (hk : wr.kind = .text)
    (hd : wr.decor ≠ emptyDecoration) :
    (w.renderTo x wr).2 = renderTextBody wr.decor ((invokeRenderCallbacks x.dw w wr.core).view wr.core) := by
  unfold renderTo; rw [hk]; simp only [if_neg hd]

theorem alignOK_congr {v v' : RTable} (hn : v'.ncols = v.ncols) (hc : v'.colAlign = v.colAlign)
    (h : AlignOK v) : AlignOK v' := by
  unfold AlignOK at h ⊢
  rw [hn, hc]; exact h

theorem alignOK_irc (dw : Measure) (w : World) (t : Nat) (hL : LogOnly w t) (h : AlignOK (w.view t)) :
    AlignOK ((invokeRenderCallbacks dw w t).view t) :=
  alignOK_congr (irc_view_ncols dw w t hL) (irc_view_colAlign dw w t hL) h

end World
end Tab

namespace Tab

/-- a decidable check for `AlignOK` -/
def alignOKb (v : RTable) : Bool :=
  (List.range (v.ncols + 1)).all (fun i =>
    match v.colAlign.getD i none with
    | none => true
    | some (.align a) => a == 1 || a == 2 || a == 3
    | some _ => false)

theorem alignOK_of_alignOKb (v : RTable) (h : alignOKb v = true) : AlignOK v := by
  intro i hi
  unfold alignOKb at h
  rw [List.all_eq_true] at h
  have := h i (List.mem_range.mpr (by omega))
  cases hc : v.colAlign.getD i none with
  | none => exact Or.inl rfl
  | some val =>
    rw [hc] at this
    cases val with
    | align a =>
      right
      simp only [Bool.or_eq_true, beq_iff_eq] at this
      exact ⟨a, by omega, rfl⟩
    | _ => simp at this

end Tab
