/-
  C06e helpers: what the readers of Proofs/C06eSpec.lean return on the expected token list `skeleton`.
-/
import Tabmodel.Proofs.C06eSpec
namespace Tab
namespace C06e

/-! ### classification of the skeleton's tokens -/

/-- a token both row readers skip -/
def Other (t : HTok) : Prop := isTrOpen t = false ∧ isCellOpen t = false

theorem other_text (s : Bytes) : Other (.text s) := ⟨rfl, rfl⟩

theorem other_lit {s : Bytes} (h : s ∈ [bytesOfString "<caption>", bytesOfString "</caption>",
    bytesOfString "<thead>", bytesOfString "</thead>", bytesOfString "<tbody>", bytesOfString "</tbody>",
    bytesOfString "</table>", bytesOfString "</tr>", bytesOfString "</th>", bytesOfString "</td>"]) :
    Other (.tag s) := by
  revert s
  unfold Other
  simp only [isTrOpen, isCellOpen]
  html_lits
  decide

theorem other_tableOpen (cfg : HtmlCfg) : Other (.tag (tableOpenTag cfg)) := by
  unfold Other
  simp only [isTrOpen, isCellOpen, tableOpenTag]
  html_lits
  simp [List.isPrefixOf]

theorem isTrOpen_trOpenTag (cfg : HtmlCfg) (n : Nat) : isTrOpen (.tag (trOpenTag cfg n)) = true := by
  simp only [isTrOpen, trOpenTag]; html_lits; simp [List.isPrefixOf]

theorem cell_open_th : isTrOpen (.tag (bytesOfString ("<" ++ "th" ++ ">"))) = false ∧
    isCellOpen (.tag (bytesOfString ("<" ++ "th" ++ ">"))) = true := by
  simp only [isTrOpen, isCellOpen]; html_lits; decide
theorem cell_open_td : isTrOpen (.tag (bytesOfString ("<" ++ "td" ++ ">"))) = false ∧
    isCellOpen (.tag (bytesOfString ("<" ++ "td" ++ ">"))) = true := by
  simp only [isTrOpen, isCellOpen]; html_lits; decide
theorem cell_close_other (tag : String) (htag : tag = "th" ∨ tag = "td") :
    Other (.tag (bytesOfString ("</" ++ tag ++ ">"))) := by
  rcases htag with rfl | rfl
  · have : bytesOfString ("</" ++ "th" ++ ">") = bytesOfString "</th>" := by html_lits; simp
    rw [this]; exact other_lit (by simp)
  · have : bytesOfString ("</" ++ "td" ++ ">") = bytesOfString "</td>" := by html_lits; simp
    rw [this]; exact other_lit (by simp)
theorem cell_open (tag : String) (htag : tag = "th" ∨ tag = "td") :
    isTrOpen (.tag (bytesOfString ("<" ++ tag ++ ">"))) = false ∧
    isCellOpen (.tag (bytesOfString ("<" ++ tag ++ ">"))) = true := by
  rcases htag with rfl | rfl
  · exact cell_open_th
  · exact cell_open_td

/-! ### `readGo` -/

theorem readGo_cons_other {t : HTok} (h : Other t) (rest : List HTok) : readGo (t :: rest) = readGo rest := by
  simp only [readGo, h.1, h.2, Bool.false_eq_true, if_false]

theorem readGo_append_other (A : List HTok) (h : ∀ t ∈ A, Other t) (rest : List HTok) :
    readGo (A ++ rest) = readGo rest := by
  induction A with
  | nil => rfl
  | cons t A ih =>
    rw [List.cons_append, readGo_cons_other (h t (by simp)), ih (fun u hu => h u (by simp [hu]))]

theorem readGo_cons_tr {t : HTok} (h : isTrOpen t = true) (rest : List HTok) :
    readGo (t :: rest) = ([], (readGo rest).1 :: (readGo rest).2) := by
  simp only [readGo, h, if_true]

theorem readGo_cons_cell {t : HTok} (h1 : isTrOpen t = false) (h2 : isCellOpen t = true) (rest : List HTok) :
    readGo (t :: rest) = (nextText rest :: (readGo rest).1, (readGo rest).2) := by
  simp only [readGo, h1, h2, Bool.false_eq_true, if_false, if_true]

theorem readGo_cellToks (tag : String) (htag : tag = "th" ∨ tag = "td") (c : RCell) (rest : List HTok) :
    readGo (cellToks tag c ++ rest) = (htmlEscape c.text :: (readGo rest).1, (readGo rest).2) := by
  obtain ⟨h1, h2⟩ := cell_open tag htag
  have h3 := cell_close_other tag htag
  unfold cellToks textTok
  by_cases he : htmlEscape c.text = []
  · simp only [he, if_true, List.append_nil, List.cons_append, List.nil_append]
    rw [readGo_cons_cell h1 h2, readGo_cons_other h3]
    rfl
  · simp only [he, if_false, List.cons_append, List.nil_append]
    rw [readGo_cons_cell h1 h2, readGo_cons_other (other_text _), readGo_cons_other h3]
    rfl

theorem readGo_cells (tag : String) (htag : tag = "th" ∨ tag = "td") (cells : List RCell) (rest : List HTok) :
    readGo (cells.flatMap (cellToks tag) ++ rest) =
      (cells.map (fun c => htmlEscape c.text) ++ (readGo rest).1, (readGo rest).2) := by
  induction cells with
  | nil => rfl
  | cons c cs ih =>
    rw [List.flatMap_cons, List.append_assoc, readGo_cellToks tag htag, ih]
    rfl

theorem readGo_rowToks (cfg : HtmlCfg) (n : Nat) (tag : String) (htag : tag = "th" ∨ tag = "td")
    (cells : List RCell) (rest : List HTok) :
    readGo (rowToks cfg n tag cells ++ rest) =
      ([], (cells.map (fun c => htmlEscape c.text) ++ (readGo rest).1) :: (readGo rest).2) := by
  unfold rowToks
  simp only [List.append_assoc, List.cons_append, List.nil_append]
  rw [readGo_cons_other (other_text _), readGo_cons_tr (isTrOpen_trOpenTag cfg n), readGo_cells tag htag,
    readGo_cons_other (other_lit (by simp))]

theorem readGo_body (cfg : HtmlCfg) (F : Option (List RCell) × Nat → List HTok)
    (hF0 : ∀ i, F (none, i) = []) (hF1 : ∀ cells i, F (some cells, i) = rowToks cfg (i + 1) "td" cells)
    (l : List (Option (List RCell) × Nat)) (rest : List HTok)
    (hrest : (readGo rest).1 = []) :
    readGo (l.flatMap F ++ rest) =
      ([], (l.filterMap (·.1)).map (·.map (fun c => htmlEscape c.text)) ++ (readGo rest).2) := by
  induction l with
  | nil =>
    simp only [List.flatMap_nil, List.nil_append, List.filterMap_nil, List.map_nil]
    rw [← hrest]
  | cons p l ih =>
    obtain ⟨r, i⟩ := p
    cases r with
    | none =>
      simp only [List.flatMap_cons, hF0, List.nil_append, List.filterMap_cons]
      exact ih
    | some cells =>
      simp only [List.flatMap_cons, hF1, List.append_assoc, List.filterMap_cons, List.map_cons, List.cons_append]
      rw [readGo_rowToks cfg (i + 1) "td" (Or.inr rfl), ih]
      simp

theorem filterMap_fst_zipIdx {α : Type} (l : List (Option α)) (k : Nat) :
    (l.zipIdx k).filterMap (·.1) = l.filterMap id := by
  induction l generalizing k with
  | nil => rfl
  | cons a l ih =>
    rw [List.zipIdx_cons, List.filterMap_cons, List.filterMap_cons, ih]
    rfl

/-- the rows read from the expected token list: the header cells, then every non-separator row -/
theorem readRows_skeleton (cfg : HtmlCfg) (v : RTable) :
    htmlReadRows (skeleton cfg v) =
      ((v.header.getD []) :: v.rows.filterMap id).map (·.map (fun c => htmlEscape c.text)) := by
  unfold htmlReadRows skeleton
  have hcap : ∀ t ∈ (if cfg.caption != [] then
      [HTok.text (bytesOfString "\n  "), .tag (bytesOfString "<caption>"),
       .text (htmlEscape cfg.caption), .tag (bytesOfString "</caption>")] else []), Other t := by
    intro t ht
    split at ht
    · simp only [List.mem_cons, List.not_mem_nil, or_false] at ht
      rcases ht with rfl | rfl | rfl | rfl
      · exact other_text _
      · exact other_lit (by simp)
      · exact other_text _
      · exact other_lit (by simp)
    · cases ht
  have htail : readGo [HTok.text (bytesOfString "\n  "), .tag (bytesOfString "</tbody>"),
      .text (bytesOfString "\n"), .tag (bytesOfString "</table>"), .text (bytesOfString "\n")] = ([], []) := by
    rw [readGo_cons_other (other_text _), readGo_cons_other (other_lit (by simp)),
      readGo_cons_other (other_text _), readGo_cons_other (other_lit (by simp)),
      readGo_cons_other (other_text _)]
    rfl
  simp only [List.append_assoc, List.cons_append, List.nil_append]
  rw [readGo_cons_other (other_tableOpen cfg), readGo_append_other _ hcap,
    readGo_cons_other (other_text _), readGo_cons_other (other_lit (by simp)),
    readGo_rowToks cfg 0 "th" (Or.inl rfl),
    readGo_cons_other (other_text _), readGo_cons_other (other_lit (by simp)),
    readGo_cons_other (other_text _), readGo_cons_other (other_lit (by simp)),
    readGo_body cfg _ (fun _ => rfl) (fun _ _ => rfl) _ _ (by rw [htail]), htail, filterMap_fst_zipIdx]
  simp

/-! ### the caption -/

/-- not the `<caption>` tag -/
def NotCap (t : HTok) : Prop := t ≠ .tag (bytesOfString "<caption>")

theorem notCap_text (s : Bytes) : NotCap (.text s) := by intro h; cases h

theorem notCap_lit {s : Bytes} (h : s ∈ [bytesOfString "</caption>",
    bytesOfString "<thead>", bytesOfString "</thead>", bytesOfString "<tbody>", bytesOfString "</tbody>",
    bytesOfString "</table>", bytesOfString "</tr>", bytesOfString "<th>", bytesOfString "</th>",
    bytesOfString "<td>", bytesOfString "</td>"]) : NotCap (.tag s) := by
  revert s
  unfold NotCap
  simp only [ne_eq, HTok.tag.injEq]
  html_lits
  decide

theorem notCap_tableOpen (cfg : HtmlCfg) : NotCap (.tag (tableOpenTag cfg)) := by
  unfold NotCap tableOpenTag
  simp only [ne_eq, HTok.tag.injEq]
  html_lits
  simp

theorem notCap_trOpen (cfg : HtmlCfg) (n : Nat) : NotCap (.tag (trOpenTag cfg n)) := by
  unfold NotCap trOpenTag
  simp only [ne_eq, HTok.tag.injEq]
  html_lits
  simp

theorem readCaption_cons_notCap {t : HTok} (h : NotCap t) (rest : List HTok) :
    htmlReadCaption (t :: rest) = htmlReadCaption rest := by
  simp only [htmlReadCaption, if_neg h]

theorem readCaption_append_notCap (A : List HTok) (h : ∀ t ∈ A, NotCap t) (rest : List HTok) :
    htmlReadCaption (A ++ rest) = htmlReadCaption rest := by
  induction A with
  | nil => rfl
  | cons t A ih =>
    rw [List.cons_append, readCaption_cons_notCap (h t (by simp)), ih (fun u hu => h u (by simp [hu]))]

theorem notCap_cellToks (tag : String) (htag : tag = "th" ∨ tag = "td") (c : RCell) :
    ∀ t ∈ cellToks tag c, NotCap t := by
  intro t ht
  have hl : bytesOfString ("<" ++ "th" ++ ">") = bytesOfString "<th>" ∧
      bytesOfString ("</" ++ "th" ++ ">") = bytesOfString "</th>" ∧
      bytesOfString ("<" ++ "td" ++ ">") = bytesOfString "<td>" ∧
      bytesOfString ("</" ++ "td" ++ ">") = bytesOfString "</td>" := by html_lits; simp
  simp only [cellToks, textTok, List.mem_append, List.mem_singleton] at ht
  rcases ht with (ht | ht) | ht
  · subst ht
    rcases htag with rfl | rfl
    · rw [hl.1]; exact notCap_lit (by simp)
    · rw [hl.2.2.1]; exact notCap_lit (by simp)
  · split at ht
    · cases ht
    · simp only [List.mem_singleton] at ht; subst ht; exact notCap_text _
  · subst ht
    rcases htag with rfl | rfl
    · rw [hl.2.1]; exact notCap_lit (by simp)
    · rw [hl.2.2.2]; exact notCap_lit (by simp)

theorem notCap_rowToks (cfg : HtmlCfg) (n : Nat) (tag : String) (htag : tag = "th" ∨ tag = "td")
    (cells : List RCell) : ∀ t ∈ rowToks cfg n tag cells, NotCap t := by
  intro t ht
  simp only [rowToks, List.mem_append, List.mem_cons, List.not_mem_nil, or_false, List.mem_flatMap] at ht
  rcases ht with ((rfl | rfl) | ⟨c, _, hc⟩) | rfl
  · exact notCap_text _
  · exact notCap_trOpen cfg n
  · exact notCap_cellToks tag htag c t hc
  · exact notCap_lit (by simp)

/-- the caption read from the expected token list -/
theorem readCaption_skeleton (cfg : HtmlCfg) (v : RTable) :
    htmlReadCaption (skeleton cfg v) =
      if cfg.caption != [] then some (htmlEscape cfg.caption) else none := by
  unfold skeleton
  simp only [List.append_assoc, List.cons_append, List.nil_append]
  rw [readCaption_cons_notCap (notCap_tableOpen cfg)]
  by_cases hc : cfg.caption = []
  · have hb : (cfg.caption != []) = false := by simp [hc]
    simp only [hb, Bool.false_eq_true, if_false, List.nil_append]
    rw [readCaption_cons_notCap (notCap_text _), readCaption_cons_notCap (notCap_lit (by simp)),
      readCaption_append_notCap _ (notCap_rowToks cfg 0 "th" (Or.inl rfl) _),
      readCaption_cons_notCap (notCap_text _), readCaption_cons_notCap (notCap_lit (by simp)),
      readCaption_cons_notCap (notCap_text _), readCaption_cons_notCap (notCap_lit (by simp)),
      readCaption_append_notCap]
    · rw [readCaption_cons_notCap (notCap_text _), readCaption_cons_notCap (notCap_lit (by simp)),
        readCaption_cons_notCap (notCap_text _), readCaption_cons_notCap (notCap_lit (by simp)),
        readCaption_cons_notCap (notCap_text _)]
      rfl
    · intro t ht
      simp only [List.mem_flatMap] at ht
      obtain ⟨⟨r, i⟩, _, ht⟩ := ht
      cases r with
      | none => cases ht
      | some cells => exact notCap_rowToks cfg (i + 1) "td" (Or.inr rfl) cells t ht
  · have hb : (cfg.caption != []) = true := by simp [hc]
    have he : htmlEscape cfg.caption ≠ [] := fun h => hc (htmlEscape_eq_nil.mp h)
    simp only [hb, if_true, List.cons_append, List.nil_append]
    rw [readCaption_cons_notCap (notCap_text _)]
    simp only [htmlReadCaption, if_true, nextText]

/-! ### attributes -/

theorem attrsGo_gap_skip (s rest : Bytes) (h : ∀ b ∈ s, b ≠ 32) :
    attrsGo .gap (s ++ rest) = attrsGo .gap rest := by
  induction s with
  | nil => rfl
  | cons b s ih =>
    rw [List.cons_append]
    simp only [attrsGo, if_neg (h b (by simp))]
    exact ih (fun c hc => h c (by simp [hc]))

theorem attrsGo_name (acc s rest : Bytes) (h : ∀ b ∈ s, b ≠ 61) :
    attrsGo (.name acc) (s ++ 61 :: rest) = attrsGo (.eq (acc ++ s)) rest := by
  induction s generalizing acc with
  | nil => simp [attrsGo]
  | cons b s ih =>
    rw [List.cons_append]
    simp only [attrsGo, if_neg (h b (by simp))]
    rw [ih _ (fun c hc => h c (by simp [hc]))]
    simp

theorem attrsGo_val (n acc s rest : Bytes) (h : ∀ b ∈ s, b ≠ 34) :
    attrsGo (.val n acc) (s ++ 34 :: rest) = (n, acc ++ s) :: attrsGo .gap rest := by
  induction s generalizing acc with
  | nil => simp [attrsGo]
  | cons b s ih =>
    rw [List.cons_append]
    simp only [attrsGo, if_neg (h b (by simp))]
    rw [ih _ (fun c hc => h c (by simp [hc]))]
    simp

/-- one well-formed attribute ` name="value"` whose value holds no double quote -/
theorem attrsGo_attr (name val rest : Bytes) (hn : ∀ b ∈ name, b ≠ 61) (hv : ∀ b ∈ val, b ≠ 34) :
    attrsGo .gap (32 :: (name ++ 61 :: 34 :: (val ++ 34 :: rest))) = (name, val) :: attrsGo .gap rest := by
  simp only [attrsGo, if_true]
  rw [attrsGo_name [] name _ hn]
  simp only [attrsGo, if_true]
  rw [attrsGo_val _ [] val rest hv]
  simp

theorem attrBytes_eq (name val : Bytes) (pre : String) (hpre : bytesOfString pre = 32 :: (name ++ [61, 34])) :
    attrBytes pre val = 32 :: (name ++ 61 :: 34 :: (htmlEscape val ++ [34])) := by
  unfold attrBytes
  rw [hpre, lit_q]
  simp

theorem attrsGo_attrBytes (name val : Bytes) (pre : String) (hpre : bytesOfString pre = 32 :: (name ++ [61, 34]))
    (hn : ∀ b ∈ name, b ≠ 61) (rest : Bytes) :
    attrsGo .gap (attrBytes pre val ++ rest) = (name, htmlEscape val) :: attrsGo .gap rest := by
  rw [attrBytes_eq name val pre hpre]
  have := attrsGo_attr name (htmlEscape val) rest hn (fun b hb => (htmlEscape_inert val b hb).2.2.1)
  simpa using this

theorem pre_class : bytesOfString " class=\"" = 32 :: (attrClass ++ [61, 34]) := by rw [lit_classq]; rfl
theorem pre_id : bytesOfString " id=\"" = 32 :: (attrId ++ [61, 34]) := by rw [lit_idq]; rfl

theorem tagAttrs_tableOpen (cfg : HtmlCfg) :
    tagAttrs (tableOpenTag cfg) =
      (if cfg.cls != [] then [(attrClass, htmlEscape cfg.cls)] else []) ++
      (if cfg.id != [] then [(attrId, htmlEscape cfg.id)] else []) := by
  unfold tagAttrs tableOpenTag
  have hend : attrsGo .gap (bytesOfString ">") = [] := by rw [lit_gt]; simp [attrsGo]
  rw [List.append_assoc, List.append_assoc, attrsGo_gap_skip _ _ (by rw [lit_table]; decide)]
  by_cases hc : cfg.cls = [] <;> by_cases hi : cfg.id = []
  · simp [hc, hi, hend]
  · simp only [hc, hi, bne_self_eq_false, Bool.false_eq_true, if_false, List.nil_append, bne_iff_ne, ne_eq,
      not_false_eq_true, if_true]
    rw [attrsGo_attrBytes attrId _ _ pre_id (by decide), hend]
  · simp only [hc, hi, bne_self_eq_false, Bool.false_eq_true, if_false, List.nil_append, bne_iff_ne, ne_eq,
      not_false_eq_true, if_true, List.append_nil]
    rw [attrsGo_attrBytes attrClass _ _ pre_class (by decide), hend]
  · simp only [hc, hi, bne_iff_ne, ne_eq, not_false_eq_true, if_true]
    rw [attrsGo_attrBytes attrClass _ _ pre_class (by decide), attrsGo_attrBytes attrId _ _ pre_id (by decide), hend]
    rfl

theorem tagAttrs_trOpen (cfg : HtmlCfg) (n : Nat) :
    tagAttrs (trOpenTag cfg n) =
      (match cfg.rowClass with
       | some f => [(attrClass, htmlEscape (f n))]
       | none => []) := by
  unfold tagAttrs trOpenTag
  have hend : attrsGo .gap (bytesOfString ">") = [] := by rw [lit_gt]; simp [attrsGo]
  rw [List.append_assoc, attrsGo_gap_skip _ _ (by rw [lit_s_tr]; decide)]
  cases cfg.rowClass with
  | none => simp [hend]
  | some f =>
    simp only
    rw [attrsGo_attrBytes attrClass _ _ pre_class (by decide), hend]

theorem readTableAttrs_skeleton (cfg : HtmlCfg) (v : RTable) :
    htmlReadTableAttrs (skeleton cfg v) =
      (if cfg.cls != [] then [(attrClass, htmlEscape cfg.cls)] else []) ++
      (if cfg.id != [] then [(attrId, htmlEscape cfg.id)] else []) := by
  unfold skeleton
  simp only [List.append_assoc, List.cons_append, List.nil_append, htmlReadTableAttrs]
  exact tagAttrs_tableOpen cfg

/-! ### NUL -/

theorem nulToFFFD_length (s : Bytes) : (nulToFFFD s).length = s.length + 2 * s.count 0 := by
  induction s with
  | nil => rfl
  | cons b s ih =>
    unfold nulToFFFD at ih ⊢
    rw [List.flatMap_cons, List.length_append, ih, List.count_cons]
    by_cases hb : b = 0
    · subst hb; simp; omega
    · have : (b == 0) = false := by simp [hb]
      simp [hb, this]; omega

theorem nulToFFFD_of_nulFree {s : Bytes} (h : NulFree s) : nulToFFFD s = s := by
  unfold nulToFFFD
  induction s with
  | nil => rfl
  | cons b s ih =>
    rw [List.flatMap_cons, ih (fun c hc => h c (by simp [hc])), if_neg (h b (by simp))]
    rfl

theorem nulFree_of_nulToFFFD {s : Bytes} (h : nulToFFFD s = s) : NulFree s := by
  have hl := nulToFFFD_length s
  rw [h] at hl
  have hc : s.count 0 = 0 := by omega
  intro b hb e
  subst e
  exact (List.count_eq_zero.mp hc) hb

/-! ### reading an equation between mapped lists of lists entry by entry -/

theorem entry_of_map_map_eq {α β γ : Type} (f : α → γ) (g : β → γ) (L : List (List α)) (R : List (List β))
    (h : L.map (·.map f) = R.map (·.map g)) (k : Nat) (cells : List β) (hk : R[k]? = some cells) :
    ∃ row, L[k]? = some row ∧ row.map f = cells.map g := by
  have h1 := congrArg (·[k]?) h
  simp only [List.getElem?_map, hk, Option.map_some] at h1
  cases hL : L[k]? with
  | none => rw [hL] at h1; cases h1
  | some row =>
    rw [hL] at h1
    simp only [Option.map_some, Option.some.injEq] at h1
    exact ⟨row, rfl, h1⟩

theorem elem_of_map_map_eq {α β γ : Type} (f : α → γ) (g : β → γ) (L : List (List α)) (R : List (List β))
    (h : L.map (·.map f) = R.map (·.map g)) (k : Nat) (cells : List β) (hk : R[k]? = some cells)
    (j : Nat) (c : β) (hj : cells[j]? = some c) :
    (L[k]?.bind (·[j]?)).map f = some (g c) := by
  obtain ⟨row, hrow, hm⟩ := entry_of_map_map_eq f g L R h k cells hk
  rw [hrow]
  have h2 := congrArg (·[j]?) hm
  simp only [List.getElem?_map, hj, Option.map_some] at h2
  exact h2

theorem length_of_map_map_eq {α β γ : Type} (f : α → γ) (g : β → γ) (L : List (List α)) (R : List (List β))
    (h : L.map (·.map f) = R.map (·.map g)) (k : Nat) (cells : List β) (hk : R[k]? = some cells) :
    L[k]?.map List.length = some cells.length := by
  obtain ⟨row, hrow, hm⟩ := entry_of_map_map_eq f g L R h k cells hk
  rw [hrow]
  have := congrArg List.length hm
  simp only [List.length_map] at this
  simp [this]

end C06e
end Tab
