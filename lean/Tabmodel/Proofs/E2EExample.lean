/-
  The concrete history used by the non-vacuity examples of `Props/E2E.lean` (`dw := List.length`),
  and the (decidable) hypotheses of the capstone theorems evaluated on it.

  items "a" … "f"; one table with a logging user callback on its cells; headers `a b`; a row
  `c d`; a separator; a pre-built ragged row `e` attached afterwards; column 1 right-aligned; an
  earlier render; then wrapped as text and as markdown (`wrapOps`).
-/
import Tabmodel.Props.C07
import Tabmodel.Props.C14
import Tabmodel.Proofs.TextExample
import Tabmodel.Generated.Decorations
import Tabmodel.Proofs.E2EText
namespace Tab
open World hiding CellOK

def e2eHist : List BuildOp :=
  [ .setItems [exItem 97, exItem 98, exItem 99, exItem 100, exItem 101, exItem 102],
    .newTable,
    .regCb (.table 0) .pre .cell (.log 1),
    .addHeaders 0 [0, 1],            -- row id 0
    .addRowItems 0 [2, 3],           -- row id 1
    .addSeparator 0,                 -- row id 2
    .newRow, .rowAdd 3 4, .addRow 0 3,
    .setProp (.column 0 1) .align (some (.align 2)),
    .render 0 ]

def e2eOps : List BuildOp := e2eHist ++ wrapOps .text 0 ++ wrapOps .markdown 0
def e2eX : Ext := ⟨List.length, c07JsQ⟩
def e2eCsv : Wrapper := { kind := .csv, core := 0 }
def e2eJson : Wrapper := { kind := .json, core := 0 }
def e2eMd : Wrapper := { kind := .markdown, core := 0 }
def e2eText : Wrapper := { kind := .text, core := 0, decor := TextExample.asciiSimple }
def e2eBoxless : Wrapper := { kind := .text, core := 0, decor := TextExample.boxlessDeco }
def e2eHeavy : Wrapper := { kind := .text, core := 0, decor := Generated.heavy }

namespace E2EExample

theorem hv : Valid e2eOps = true := by decide +kernel
theorem ht : 0 < (run e2eX.dw e2eOps).tables.length := by decide +kernel
theorem hL : LogOnly (run e2eX.dw e2eOps) 0 := by decide +kernel
theorem hNt : Needs (run e2eX.dw e2eOps) e2eText := by decide +kernel
theorem hNb : Needs (run e2eX.dw e2eOps) e2eBoxless := by decide +kernel
theorem hNm : Needs (run e2eX.dw e2eOps) e2eMd := by decide +kernel
theorem ha : AlignOK ((run e2eX.dw e2eOps).view 0) := alignOK_of_alignOKb _ (by decide +kernel)
theorem hn : 1 ≤ ((run e2eX.dw e2eOps).table 0).nColumns := by decide +kernel
theorem hF : TableFits e2eX.dw (run e2eX.dw e2eOps) 0 := by decide +kernel

end E2EExample
end Tab
