/-
  The concrete history used by the non-vacuity examples of `Props/C08eH.lean` (`dw := List.length`) and
  the decidable hypotheses of `c08e_delim_history` evaluated on it.
-/
import Tabmodel.Proofs.C08eCore
import Tabmodel.Proofs.C12hDefs
namespace Tab
open World E2Ecb

namespace C08eHExample

def it (b : UInt8) : Item :=
  { kind := .str [b], mString := none, mGoString := none, mError := none, fmtV := [b],
    mHeight := none, mWidth := none, json := some [34, b, 34] }
def x : Ext := ⟨List.length, id⟩
def ops : List BuildOp :=
  [ .setItems [it 97, it 98, it 99], .newTable, .addHeaders 0 [0, 1], .addRowItems 0 [2, 2],
    .setProp (.column 0 1) .align (some (.align 2)),
    .regCb (.column 0 1) .pre .itself (.setProp 4 .align (some (.align 3))),
    .regCb (.column 0 0) .post .itself (.setProp 5 .align (some (.align 2))) ] ++ wrapOps .markdown 0
def wr : Wrapper := { kind := .markdown, core := 0 }

theorem hv : Valid ops = true := by decide +kernel
theorem hc : CellsOk ops := by decide +kernel
theorem ht : wr.core < (run x.dw ops).tables.length := by decide +kernel
theorem ha : AlignOK ((invokeRenderCallbacks x.dw (run x.dw ops) wr.core).view wr.core) :=
  alignOK_of_alignOKb _ (by decide +kernel)
theorem hh : ((run x.dw ops).table wr.core).header.isSome = true := by decide +kernel
theorem hn : 1 ≤ ((run x.dw ops).table wr.core).nColumns := by decide +kernel

end C08eHExample
end Tab
