/-
  C16 helpers, part 8: `addErrTo`, `setProp`, `invokeOne`, `invoke` commute with the renaming of row ids.
-/
import Tabmodel.Proofs.C16Sim
namespace Tab
namespace C16
open World

variable {ρ : Nat → Nat} {t : Nat} {P I : Nat → Prop}

theorem map_modify_comm {α β : Type} (h : α → β) (f : α → α) (f' : β → β) (hc : ∀ a, h (f a) = f' (h a))
    (l : List α) (i : Nat) : (l.modify i f).map h = (l.map h).modify i f' := by
  apply List.ext_getElem?
  intro j
  simp only [List.getElem?_map, List.getElem?_modify]
  cases l[j]? with
  | none => rfl
  | some a => by_cases e : i = j <;> simp [e, hc]

/-! ### how reads are renamed -/

theorem sim_rowf {α : Type} (f : Row → α) (hf : ∀ rw, f (renRow ρ rw) = f rw) {r : Nat} (hr : P r)
    (w w₂ : World) (_ : Inv t P I w) (hs : Sim ρ t P I w w₂) : f (w₂.row (ρ r)) = f (w.row r) := by
  rw [hs.row hr, hf]

theorem sim_tablef {α : Type} (f : Table → α) (hf : ∀ tb, f (renTable ρ tb) = f tb)
    (w w₂ : World) (_ : Inv t P I w) (hs : Sim ρ t P I w w₂) : f (w₂.table t) = f (w.table t) := by
  rw [hs.table, hf]

theorem sim_cell? {r : Nat} (hr : P r) (c : Nat) (w w₂ : World) (_ : Inv t P I w) (hs : Sim ρ t P I w w₂) :
    w₂.cell? (ρ r) c = (w.cell? r c).map (renCell ρ) := by
  unfold cell? rowCells
  rw [hs.row hr]
  unfold renRow
  cases (w.row r).cells with
  | none => rfl
  | some cs => simp

theorem sim_item {i : Nat} (hi : I i) (w w₂ : World) (_ : Inv t P I w) (hs : Sim ρ t P I w w₂) :
    w₂.item i = w.item i := (hs.items i hi).symm

/-! ### `modCell`, `modColumn` -/

theorem both_modCell {r : Nat} (hr : P r) (c : Nat) (f : Cell → Cell)
    (hf : ∀ ce, (f ce).inRow = ce.inRow ∧ (f ce).item = ce.item)
    (hfr : ∀ ce, renCell ρ (f ce) = f (renCell ρ ce)) :
    Both ρ t P I (fun w => w.modCell r c f) (fun w => w.modCell (ρ r) c f) := by
  refine both_modRow hr _ _ (rowOK_modCell c f hf) (fun rw => ?_)
  unfold renRow
  cases rw.cells with
  | none => rfl
  | some cs =>
    simp only [Option.map_some]
    rw [map_modify_comm (renCell ρ) f f hfr]

theorem both_modColumn (n : Nat) (f : Column → Column) :
    Both ρ t P I (fun w => w.modColumn t n f) (fun w => w.modColumn t n f) :=
  both_modTable _ _ (fun _ _ h => .inl h) (fun _ => rfl)

/-! ### `addErrTo` -/

/-- `addErrTo w (.rowLazy r) e` as a read followed by an update -/
def addErrLazyC (r e : Nat) : World → World :=
  rd (fun w => (w.row r).ec) (fun ec w => match ec with
    | .none => w.modRow r (fun rw => { rw with ec := .own [e] })
    | .own es => w.modRow r (fun rw => { rw with ec := .own (es ++ [e]) })
    | .table t' => w.modTable t' (fun tb => { tb with errs := tb.errs ++ [e] }))

theorem addErrLazyC_eq (r e : Nat) : (fun w => addErrTo w (.rowLazy r) e) = addErrLazyC r e := rfl

theorem both_addErrTo {tk : Taker} (htk : TakerOK t P tk) (e : Nat) :
    Both ρ t P I (fun w => addErrTo w tk e) (fun w => addErrTo w (renTaker ρ tk) e) := by
  cases tk with
  | drop => exact Both.id' ρ t P I
  | table t' =>
    have : t' = t := htk
    subst this
    exact both_modTable _ _ (fun _ _ h => .inl h) (fun _ => rfl)
  | rowOwn r =>
    refine both_modRow htk _ _ (fun rw h => ?_) (fun rw => ?_)
    · cases he : rw.ec <;> simp only [] <;> first | exact h | exact ⟨h.inT, trivial, h.cells⟩
    · unfold renRow
      cases he : rw.ec <;> simp only [he]
  | rowLazy r =>
    have hr : P r := htk
    show Both ρ t P I (fun w => addErrTo w (.rowLazy r) e) (fun w => addErrTo w (.rowLazy (ρ r)) e)
    rw [addErrLazyC_eq, addErrLazyC_eq]
    refine Both.rdEq (rd_ec hr) (sim_rowf (·.ec) (fun _ => rfl) hr) (fun ec hec => ?_)
    cases ec with
    | none => exact both_modRow hr _ _ (fun rw h => ⟨h.inT, trivial, h.cells⟩) (fun _ => rfl)
    | own es => exact both_modRow hr _ _ (fun rw h => ⟨h.inT, trivial, h.cells⟩) (fun _ => rfl)
    | table t' =>
      have : t' = t := hec
      subst this
      exact both_modTable _ _ (fun _ _ h => .inl h) (fun _ => rfl)

/-! ### `setProp` -/

theorem both_setProp {o : Target} (ho : TgtOK t P o) (k : Key) (v : Option Val) :
    Both ρ t P I (fun w => setProp w o k v) (fun w => setProp w (renTarget ρ o) k v) := by
  cases o with
  | table t' =>
    have : t' = t := ho
    subst this
    exact both_modTable _ _ (fun _ _ h => .inl h) (fun _ => rfl)
  | column t' n =>
    have : t' = t := ho
    subst this
    exact both_modColumn n _
  | row r => exact both_modRow ho _ _ (fun rw h => ⟨h.inT, h.ec, h.cells⟩) (fun _ => rfl)
  | cell r c => exact both_modCell ho c _ (fun _ => ⟨rfl, rfl⟩) (fun _ => rfl)
  | copy n => exact both_other _ _ (fun _ => ⟨rfl, rfl, rfl⟩) (fun _ => ⟨rfl, rfl, rfl⟩)

/-! ### `invokeOne`, `invoke` -/

theorem both_event (ev ev₂ : Event) :
    Both ρ t P I (fun w => { w with events := w.events ++ [ev] }) (fun w => { w with events := w.events ++ [ev₂] }) :=
  both_other _ _ (fun _ => ⟨rfl, rfl, rfl⟩) (fun _ => ⟨rfl, rfl, rfl⟩)

def dimSetterC (dw : Measure) (r c : Nat) : World → World :=
  rd (fun w => w.cell? r c) (fun oc w => match oc with
    | some ce => rd (fun w => w.item ce.item) (fun it w =>
        setProp (setProp w (.cell r c) .ttDims (some (dimProps dw it ce).1)) (.cell r c) .ttLines
          (some (dimProps dw it ce).2)) w
    | none => w)

theorem dimSetterC_eq (dw : Measure) (r c : Nat) (tk : Taker) :
    (fun w => invokeOne dw w .dimSetter (.cell r c) tk) = dimSetterC dw r c := rfl

def widthSetterC (r c : Nat) : World → World :=
  rd (fun w => w.cell? r c) (fun oc w => match oc with
    | some ce => setProp w (.cell r c) .mdWidth (some (.mdw ce.termWidth))
    | none => w)

theorem widthSetterC_eq (dw : Measure) (r c : Nat) (tk : Taker) :
    (fun w => invokeOne dw w .widthSetter (.cell r c) tk) = widthSetterC r c := rfl

theorem both_invokeOne (dw : Measure) (cb : Cb) {tgt : Target} (htgt : TgtOK t P tgt)
    {tk : Taker} (htk : TakerOK t P tk) :
    Both ρ t P I (fun w => invokeOne dw w cb tgt tk)
      (fun w => invokeOne dw w cb (renTarget ρ tgt) (renTaker ρ tk)) := by
  cases cb with
  | log id => exact both_event _ _
  | setProp id k v => exact Both.seq (both_event _ _) (both_setProp htgt k v)
  | fail id e => exact Both.seq (both_event _ _) (both_addErrTo htk e)
  | dimSetter =>
    cases tgt with
    | cell r c =>
      have hr : P r := htgt
      show Both ρ t P I (fun w => invokeOne dw w .dimSetter (.cell r c) tk)
        (fun w => invokeOne dw w .dimSetter (.cell (ρ r) c) (renTaker ρ tk))
      rw [dimSetterC_eq, dimSetterC_eq]
      refine Both.rd (rd_cell? hr c) (Option.map (renCell ρ)) (sim_cell? hr c) (fun oc hoc => ?_)
      cases oc with
      | none => exact Both.id' ρ t P I
      | some ce =>
        refine Both.rdEq (rd_item (hoc ce rfl).2) (sim_item (hoc ce rfl).2) (fun it _ => ?_)
        exact Both.seq (both_setProp (o := .cell r c) hr _ _) (both_setProp (o := .cell r c) hr _ _)
    | table _ => exact both_addErrTo htk _
    | column _ _ => exact both_addErrTo htk _
    | row _ => exact both_addErrTo htk _
    | copy _ => exact both_addErrTo htk _
  | widthSetter =>
    cases tgt with
    | cell r c =>
      have hr : P r := htgt
      show Both ρ t P I (fun w => invokeOne dw w .widthSetter (.cell r c) tk)
        (fun w => invokeOne dw w .widthSetter (.cell (ρ r) c) (renTaker ρ tk))
      rw [widthSetterC_eq, widthSetterC_eq]
      refine Both.rd (rd_cell? hr c) (Option.map (renCell ρ)) (sim_cell? hr c) (fun oc _ => ?_)
      cases oc with
      | none => exact Both.id' ρ t P I
      | some ce => exact both_setProp (o := .cell r c) hr _ _
    | table _ => exact both_addErrTo htk _
    | column _ _ => exact both_addErrTo htk _
    | row _ => exact both_addErrTo htk _
    | copy _ => exact both_addErrTo htk _

theorem both_invoke (dw : Measure) (cbs : List Cb) {tgt : Target} (htgt : TgtOK t P tgt)
    {tk : Taker} (htk : TakerOK t P tk) :
    Both ρ t P I (fun w => invoke dw w cbs tgt tk)
      (fun w => invoke dw w cbs (renTarget ρ tgt) (renTaker ρ tk)) := by
  have := Both.foldl (ρ := ρ) (t := t) (P := P) (I := I) (fun w cb => invokeOne dw w cb tgt tk)
    (fun w cb => invokeOne dw w cb (renTarget ρ tgt) (renTaker ρ tk)) (fun cb => cb) cbs
    (fun cb _ => both_invokeOne dw cb htgt htk)
  simpa [invoke] using this

end C16
end Tab
