/-
  C16 helpers, part 9: the non-allocating API functions commute with the renaming of row ids.
-/
import Tabmodel.Proofs.C16SimPrim
namespace Tab
namespace C16
open World

variable {ρ : Nat → Nat} {t : Nat} {P I : Nat → Prop}

/-! ### renamed reads -/

theorem sim_columnOf {r : Nat} (hr : P r) (c : Nat) (w w₂ : World) (h : Inv t P I w) (hs : Sim ρ t P I w w₂) :
    columnOf w₂ (ρ r) c = columnOf w r c := by
  have hrow := h.rowok r hr
  have e1 := sim_cell? hr c w w₂ h hs
  unfold columnOf
  rw [e1]
  unfold cell? rowCells
  cases hc : ((w.row r).cells.getD [])[c]? with
  | none => rfl
  | some ce =>
    have hce := hrow.cells ce (List.mem_of_getElem? hc)
    simp only [Option.map_some]
    show (if ce.columnNum < 1 then none else match ce.inRow.map ρ with
      | none => none
      | some r' => match (w₂.row r').inTable with
        | none => none
        | some t => if ce.columnNum > (w₂.table t).nColumns then none else some (t, ce.columnNum)) = _
    rcases hce.1 with h1 | h1
    · simp only [h1, Option.map_none]
    · simp only [h1, Option.map_some, hs.row hr]
      show (if ce.columnNum < 1 then none else match (w.row r).inTable with
        | none => none
        | some t => if ce.columnNum > (w₂.table t).nColumns then none else some (t, ce.columnNum)) = _
      rcases hrow.inT with h2 | h2
      · simp only [h2]
      · simp only [h2, hs.table]
        rfl

theorem sim_colCellCbs {tc : Option (Nat × Nat)} (htc : ∀ t' n, tc = some (t', n) → t' = t) (tm : Time)
    (w w₂ : World) (_ : Inv t P I w) (hs : Sim ρ t P I w w₂) : colCellCbs w₂ tc tm = colCellCbs w tc tm := by
  cases tc with
  | none => rfl
  | some p =>
    obtain ⟨t', n⟩ := p
    have : t' = t := htc t' n rfl
    subst this
    simp only [colCellCbs, column?, hs.table]
    rfl

theorem sim_rowECTaker {r : Nat} (hr : P r) (w w₂ : World) (_ : Inv t P I w) (hs : Sim ρ t P I w w₂) :
    rowECTaker w₂ (ρ r) = renTaker ρ (rowECTaker w r) := by
  unfold rowECTaker
  rw [hs.row hr]
  show (match (w.row r).ec with | .none => Taker.drop | .own _ => .rowOwn (ρ r) | .table t => .table t) = _
  cases (w.row r).ec <;> rfl

theorem sim_rowErrors {r : Nat} (hr : P r) (w w₂ : World) (h : Inv t P I w) (hs : Sim ρ t P I w w₂) :
    rowErrors w₂ (ρ r) = rowErrors w r := by
  have hec := (h.rowok r hr).ec
  unfold rowErrors
  rw [hs.row hr]
  show (match (w.row r).ec with | .none => [] | .own es => es | .table t => (w₂.table t).errs) = _
  cases he : (w.row r).ec with
  | none => rfl
  | own es => rfl
  | table t' =>
    rw [he] at hec
    have : t' = t := hec
    subst this
    simp only [hs.table]
    rfl

theorem both_resize (n : Nat) :
    Both ρ t P I (fun w => w.modTable t (fun tb => resizeColumnsAtLeast tb n))
      (fun w => w.modTable t (fun tb => resizeColumnsAtLeast tb n)) :=
  both_modTable _ _ (fun tb r h => foot_resize tb n r h) (fun tb => by
    unfold resizeColumnsAtLeast renTable
    simp only []
    split <;> rfl)

/-! ### `Row.Add` -/

def rowAddCellC (dw : Measure) (r : Nat) (ce : Cell) : World → World :=
  rd (fun w => (w.row r).cells) (fun cells w => match cells with
    | none => addErrTo w (.rowLazy r) errNonCellRow
    | some cs =>
      seq (fun w => w.modRow r (fun rw =>
            { rw with cells := some (cs ++ [{ ce with inRow := some r, columnNum := cs.length + 1 }]) }))
        (seq (rd (fun w => (w.row r).inTable) (fun it w => match it with
              | some t => w.modTable t (fun tb => resizeColumnsAtLeast tb (cs.length + 1))
              | none => w))
          (rd (fun w => (w.row r).cellCbs.at .add)
            (fun cbs w => invoke dw w cbs (.cell r (cs.length + 1 - 1)) (.rowLazy r)))) w)

theorem rowAddCellC_eq (dw : Measure) (r : Nat) (ce : Cell) :
    (fun w => rowAddCell dw w r ce) = rowAddCellC dw r ce := rfl

theorem both_rowAddCell (dw : Measure) {r : Nat} (hr : P r) (ce : Cell) (hce : I ce.item) :
    Both ρ t P I (fun w => rowAddCell dw w r ce) (fun w => rowAddCell dw w (ρ r) ce) := by
  rw [rowAddCellC_eq, rowAddCellC_eq]
  refine Both.rd ((rd_row hr).map (·.cells) (fun oc => ∀ cs, oc = some cs → ∀ c ∈ cs, CellOK r I c)
    (fun rw h cs hcs c hc => h.cells c (by simp [hcs, hc]))) (Option.map (List.map (renCell ρ)))
    (fun w w₂ _ hs => by rw [hs.row hr]; rfl) (fun cells hcells => ?_)
  cases cells with
  | none => exact both_addErrTo (tk := .rowLazy r) hr _
  | some cs =>
    simp only [Option.map_some, List.length_map]
    refine Both.seq (both_modRow hr _ _ (fun rw h => ⟨h.inT, h.ec, fun c hc => ?_⟩) (fun rw => ?_))
      (Both.seq ?_ ?_)
    · simp only [Option.getD_some, List.mem_append, List.mem_singleton] at hc
      rcases hc with hc | rfl
      · exact hcells cs rfl c hc
      · exact ⟨.inr rfl, hce⟩
    · unfold renRow
      simp [renCell]
    · refine Both.rdEq ((rd_row hr).map (·.inTable) (fun it => it = none ∨ it = some t) (fun _ h => h.inT))
        (sim_rowf (·.inTable) (fun _ => rfl) hr) (fun it hit => ?_)
      rcases hit with rfl | rfl
      · exact Both.id' ρ t P I
      · exact both_resize _
    · exact Both.rdEq (rd_rowf hr (fun rw => rw.cellCbs.at .add))
        (sim_rowf (fun rw => rw.cellCbs.at .add) (fun _ => rfl) hr)
        (fun cbs _ => both_invoke dw cbs (tgt := .cell r _) hr (tk := .rowLazy r) hr)

theorem both_rowAdd (dw : Measure) {r : Nat} (hr : P r) {i : Nat} (hi : I i) :
    Both ρ t P I (fun w => rowAdd dw w r i) (fun w => rowAdd dw w (ρ r) i) := by
  show Both ρ t P I (rd (fun w => w.item i) (fun it w => rowAddCell dw w r (newCell dw i it)))
    (rd (fun w => w.item i) (fun it w => rowAddCell dw w (ρ r) (newCell dw i it)))
  refine Both.rdEq (rd_item hi) (sim_item hi) (fun it _ => both_rowAddCell dw hr _ ?_)
  have : ∀ c : Cell, (Cell.update dw it c).item = c.item := by
    intro c; unfold Cell.update; split <;> rfl
  show I (Cell.update dw it { item := i }).item
  rw [this]; exact hi

theorem both_rowAddMany (dw : Measure) {r : Nat} (hr : P r) (items : List Nat) (hi : ∀ i ∈ items, I i) :
    Both ρ t P I (fun w => rowAddMany dw r items w) (fun w => rowAddMany dw (ρ r) items w) := by
  induction items with
  | nil => exact Both.id' ρ t P I
  | cons i is ih =>
    exact Both.seq (both_rowAdd dw hr (hi i (by simp))) (ih (fun j hj => hi j (by simp [hj])))

/-! ### `AddRow` -/

theorem rd_colOfCbs {r : Nat} (hr : P r) (i : Nat) (tm : Time) :
    Rd t P I (fun w => colCellCbs w (columnOf w r i) tm) (fun _ => True) := by
  refine ⟨fun _ _ => trivial, fun w w₂ h ha => ?_⟩
  have e := (rd_columnOf hr i).ag w w₂ h ha
  have q := (rd_columnOf (t := t) (P := P) (I := I) hr i).q w h
  simp only [← e]
  exact (rd_colCellCbs q tm).ag w w₂ h ha

theorem sim_colOfCbs {r : Nat} (hr : P r) (i : Nat) (tm : Time) (w w₂ : World) (h : Inv t P I w)
    (hs : Sim ρ t P I w w₂) : colCellCbs w₂ (columnOf w₂ (ρ r) i) tm = colCellCbs w (columnOf w r i) tm := by
  rw [sim_columnOf hr i w w₂ h hs]
  exact sim_colCellCbs ((rd_columnOf (t := t) (P := P) (I := I) hr i).q w h) tm w w₂ h hs

def atcStepC (dw : Measure) (t r : Nat) (colTaker : World → Taker) (i : Nat) (k : World → World) :
    World → World :=
  seq (rd (fun w => colCellCbs w (columnOf w r i) .add) (fun cbs => rd colTaker (fun tk w =>
          invoke dw w cbs (.cell r i) tk)))
    (seq (rd (fun w => (w.table t).cellCbs.at .add) (fun cbs => rd colTaker (fun tk w =>
          invoke dw w cbs (.cell r i) tk))) k)

theorem atc_succ (dw : Measure) (t r : Nat) (colTaker : World → Taker) (n i : Nat) :
    (fun w => addTimeCells dw t r colTaker (n + 1) i w)
      = atcStepC dw t r colTaker i (fun w => addTimeCells dw t r colTaker n (i + 1) w) := rfl

theorem both_addTimeCells (dw : Measure) {r : Nat} (hr : P r) (colTaker colTaker₂ : World → Taker)
    (hct : Rd t P I colTaker (TakerOK t P))
    (hct₂ : ∀ w w₂, Inv t P I w → Sim ρ t P I w w₂ → colTaker₂ w₂ = renTaker ρ (colTaker w)) (n i : Nat) :
    Both ρ t P I (fun w => addTimeCells dw t r colTaker n i w)
      (fun w => addTimeCells dw t (ρ r) colTaker₂ n i w) := by
  induction n generalizing i with
  | zero => exact Both.id' ρ t P I
  | succ n ih =>
    rw [atc_succ, atc_succ]
    refine Both.seq ?_ (Both.seq ?_ (ih (i + 1)))
    · exact Both.rdEq (rd_colOfCbs hr i .add) (sim_colOfCbs hr i .add) (fun cbs _ =>
        Both.rd hct (renTaker ρ) hct₂ (fun tk htk => both_invoke dw cbs (tgt := .cell r i) hr htk))
    · exact Both.rdEq (rd_tablef (fun tb => tb.cellCbs.at .add))
        (sim_tablef (fun tb => tb.cellCbs.at .add) (fun _ => rfl)) (fun cbs _ =>
        Both.rd hct (renTaker ρ) hct₂ (fun tk htk => both_invoke dw cbs (tgt := .cell r i) hr htk))

def addRowC (dw : Measure) (t r : Nat) : World → World :=
  seq (fun w => w.modTable t (fun tb => { tb with rows := tb.rows ++ [r] }))
  (rd (fun w => (w.table t).rows.length) (fun n =>
    seq (fun w => w.modRow r (fun rw => { rw with inTable := some t, rowNum := n }))
    (seq (rd (fun w => (w.rowCells r).length) (fun len w =>
            w.modTable t (fun tb => resizeColumnsAtLeast tb len)))
    (rd (fun w => w.rowErrors r) (fun es =>
      seq (fun w => w.modTable t (fun tb => { tb with errs := tb.errs ++ es }))
      (seq (fun w => w.modRow r (fun rw => { rw with ec := .table t }))
      (seq (rd (fun w => (w.row r).selfCbs.at .add) (fun cbs w => invoke dw w cbs (.row r) (.table t)))
      (seq (rd (fun w => (w.table t).rowCbs.at .add) (fun cbs w => invoke dw w cbs (.row r) (.table t)))
        (rd (fun w => (w.rowCells r).length) (fun len w =>
          addTimeCells dw t r (fun w => rowECTaker w r) len 0 w))))))))))

theorem addRowC_eq (dw : Measure) (t r : Nat) : (fun w => addRow dw w t r) = addRowC dw t r := rfl

theorem renRow_cells_length (ρ : Nat → Nat) (rw : Row) :
    ((renRow ρ rw).cells.getD []).length = (rw.cells.getD []).length := by
  unfold renRow
  cases rw.cells <;> simp

theorem both_addRow (dw : Measure) {r : Nat} (hr : P r) :
    Both ρ t P I (fun w => addRow dw w t r) (fun w => addRow dw w t (ρ r)) := by
  rw [addRowC_eq, addRowC_eq]
  unfold addRowC
  have hlen := sim_rowf (ρ := ρ) (t := t) (P := P) (I := I) (fun rw => (rw.cells.getD []).length)
    (renRow_cells_length ρ) hr
  refine Both.seq (both_modTable _ _ (fun tb r' h => ?_) (fun tb => by simp [renTable]))
    (Both.rdEq (rd_tablef (fun tb => tb.rows.length))
      (sim_tablef (fun tb => tb.rows.length) (fun tb => by simp [renTable])) (fun n _ => ?_))
  · rcases h with h | h
    · exact .inl (.inl h)
    · simp only [List.mem_append, List.mem_singleton] at h
      rcases h with h | rfl
      · exact .inl (.inr h)
      · exact .inr hr
  refine Both.seq (both_modRow hr _ _ (fun rw h => ⟨.inr rfl, h.ec, h.cells⟩) (fun _ => rfl))
    (Both.seq ?_ ?_)
  · exact Both.rdEq (rd_rowf hr (fun rw => (rw.cells.getD []).length)) hlen (fun len _ => both_resize len)
  refine Both.rdEq (rd_rowErrors hr) (sim_rowErrors hr) (fun es _ => ?_)
  refine Both.seq (both_modTable _ _ (fun _ _ h => .inl h) (fun _ => rfl)) ?_
  refine Both.seq (both_modRow hr _ _ (fun rw h => ⟨h.inT, rfl, h.cells⟩) (fun _ => rfl)) ?_
  refine Both.seq (Both.rdEq (rd_rowf hr (fun rw => rw.selfCbs.at .add))
    (sim_rowf (fun rw => rw.selfCbs.at .add) (fun _ => rfl) hr) (fun cbs _ =>
    both_invoke dw cbs (tgt := .row r) hr (tk := .table t) rfl)) ?_
  refine Both.seq (Both.rdEq (rd_tablef (fun tb => tb.rowCbs.at .add))
    (sim_tablef (fun tb => tb.rowCbs.at .add) (fun _ => rfl)) (fun cbs _ =>
    both_invoke dw cbs (tgt := .row r) hr (tk := .table t) rfl)) ?_
  exact Both.rdEq (rd_rowf hr (fun rw => (rw.cells.getD []).length)) hlen
    (fun len _ => both_addTimeCells dw hr _ _ (rd_rowECTaker hr) (sim_rowECTaker hr) len 0)

end C16
end Tab
