/-
  C09t helper lemmas, part 2: `C09h.total_inv` (Proofs/C09hTotal.lean) without its decoration
  hypothesis, and the history bookkeeping for "`Wrap`, then render" (`auto`, the package-level
  functions): the `Wrap` step keeps `Valid`, `CellsOk` and `AlignValuesOK`.

  On the `Props/C12h.lean` side of the `PState` import clash (see Props/C09h.lean).
-/
import Tabmodel.Proofs.C09tText
import Tabmodel.Proofs.C09hTotal
import Tabmodel.Proofs.C09hAlign
namespace Tab
namespace C09t
open World C09h

/-- No panic from any world satisfying the structural invariant, any table id, any wrapper kind and
    ANY decoration, given `AlignOK` of the view after the pass. -/
theorem total_inv_any (x : Ext) (w : World) (hinv : Inv w) (wr : Wrapper)
    (ha : AlignOK ((invokeRenderCallbacks x.dw w wr.core).view wr.core)) :
    ∀ site, (w.renderTo x wr).2.res ≠ .error (.panic site) := by
  intro site
  obtain ⟨hs, hlen, _⟩ := view_wf (c02_inv_render x.dw hinv wr.core) wr.core
  unfold World.renderTo
  cases hk : wr.kind with
  | text =>
    simp only []
    split
    · simp [Emit.fail]
    · simp only []
      rw [renderTextBody_total wr.decor _ hs ha]
      intro h; cases h
  | csv => exact c05_no_panic _ site
  | json => exact renderJson_noPanic x.js _ site
  | markdown => exact c08_no_panic x.dw _ (alignsOK_of_alignOK' _ hlen ha) site
  | html => simp [renderHtml, Emit.write]

/-- the text wrapper, exactly: refused (`noDecoration`, nothing written, no callback run) iff the
    decoration is the all-empty value, `.ok ()` otherwise -/
theorem text_outcome (x : Ext) (w : World) (hinv : Inv w) (wr : Wrapper) (hk : wr.kind = .text)
    (ha : AlignOK ((invokeRenderCallbacks x.dw w wr.core).view wr.core)) :
    (wr.decor = emptyDecoration → (w.renderTo x wr).2.res = .error (.err .noDecoration) ∧
      (w.renderTo x wr).2.chunks = [] ∧ (w.renderTo x wr).1 = w) ∧
    (wr.decor ≠ emptyDecoration → (w.renderTo x wr).2.res = .ok ()) := by
  obtain ⟨hs, _, _⟩ := view_wf (c02_inv_render x.dw hinv wr.core) wr.core
  unfold World.renderTo
  rw [hk]
  constructor
  · intro he
    rw [if_pos he]
    exact ⟨rfl, rfl, rfl⟩
  · intro hne
    simp only [if_neg hne]
    exact renderTextBody_total wr.decor _ hs ha

/-- the `Wrap` step brings no ready-made cell value -/
theorem cellsOk_wrapOps (ops : List BuildOp) (hc : CellsOk ops) (k : WKind) (t : Nat) :
    CellsOk (ops ++ wrapOps k t) := by
  unfold CellsOk at hc ⊢
  rw [List.all_append, hc]
  cases k <;> rfl

/-- the measuring callbacks a `Wrap` step registers write no `align` -/
theorem alignValuesOK_wrapOps (ops : List BuildOp) (ha : AlignValuesOK ops) (k : WKind) (t : Nat) :
    AlignValuesOK (ops ++ wrapOps k t) := by
  unfold AlignValuesOK at ha ⊢
  rw [List.all_append, ha]
  cases k <;> rfl

end C09t
end Tab
