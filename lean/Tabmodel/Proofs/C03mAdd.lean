/-
  C03m helpers, part 2: from additivity across accepted boundaries to `AdditiveOn dw segs` for the
  three kinds of line the text renderer writes (rule, boxed content, boxless content).
-/
import Tabmodel.Proofs.C03mDefs
import Tabmodel.Proofs.TextFinal
namespace Tab

/-! ### plain additivity -/

theorem dw_nil_of_additive (dw : Measure) (h : ∀ a b, dw (a ++ b) = dw a + dw b) : dw [] = 0 := by
  have := h [] []
  simp at this
  omega

theorem dw_flatten_of_additive (dw : Measure) (h : ∀ a b, dw (a ++ b) = dw a + dw b) (L : List Bytes) :
    dw L.flatten = (L.map dw).sum := by
  induction L with
  | nil => simpa using dw_nil_of_additive dw h
  | cons a t ih => simp [h, ih]

theorem dw_spaces_of_additive (dw : Measure) (h : ∀ a b, dw (a ++ b) = dw a + dw b)
    (h1 : dw [SP] = 1) (k : Nat) : dw (spaces k) = k := by
  induction k with
  | zero => simpa [spaces] using dw_nil_of_additive dw h
  | succ n ih =>
    have : spaces (n + 1) = [SP] ++ spaces n := by simp [spaces, List.replicate_succ]
    rw [this, h, h1, ih]; omega

theorem additiveAcross_all_iff (dw : Measure) :
    AdditiveAcross dw Junction.all ↔ ∀ a b, dw (a ++ b) = dw a + dw b :=
  ⟨fun h a b => h a b (Or.inr (Or.inr trivial)), fun h a b _ => h a b⟩

theorem glyphJunctions_all (d : Decoration) : GlyphJunctions Junction.all d :=
  ⟨trivial, fun _ _ => ⟨trivial, trivial⟩, fun _ _ => ⟨trivial, trivial, trivial, trivial, trivial⟩⟩

theorem textSafe_all (t : Bytes) : TextSafe Junction.all t := Or.inr ⟨trivial, trivial⟩

/-! ### chains -/

theorem dw_nil_of_across (dw : Measure) (J : Junction) (h : AdditiveAcross dw J) : dw [] = 0 := by
  have := h [] [] (Or.inl rfl)
  simp at this
  omega

theorem chainFrom_cons_nil (J : Junction) (p : Bytes) (rest : List Bytes) :
    chainFrom J p ([] :: rest) ↔ chainFrom J p rest := by
  simp [chainFrom]

theorem chainFrom_cons_ne (J : Junction) (p a : Bytes) (rest : List Bytes) (ha : a ≠ []) :
    chainFrom J p (a :: rest) ↔ (p = [] ∨ J.ok p a) ∧ chainFrom J a rest := by
  simp [chainFrom, ha]

/-- the core lemma: along a chain the measure of the concatenation is the sum of the measures -/
theorem chain_additive (dw : Measure) (J : Junction) (hA : AdditiveAcross dw J) (atoms : List Bytes) :
    ∀ p, chainFrom J p atoms →
      dw atoms.flatten = (atoms.map dw).sum ∧ (p = [] ∨ atoms.flatten = [] ∨ J.ok p atoms.flatten) := by
  induction atoms with
  | nil => intro p _; exact ⟨by simpa using dw_nil_of_across dw J hA, Or.inr (Or.inl rfl)⟩
  | cons a rest ih =>
    intro p hc
    by_cases ha : a = []
    · subst ha
      rw [chainFrom_cons_nil] at hc
      obtain ⟨h1, h2⟩ := ih p hc
      refine ⟨?_, by simpa using h2⟩
      simp [h1, dw_nil_of_across dw J hA]
    · rw [chainFrom_cons_ne J p a rest ha] at hc
      obtain ⟨hp, hr⟩ := hc
      obtain ⟨h1, h2⟩ := ih a hr
      constructor
      · have hb : BoundaryOK J a rest.flatten := by
          rcases h2 with h | h | h
          · exact absurd h ha
          · exact Or.inr (Or.inl h)
          · exact Or.inr (Or.inr h)
        simp only [List.flatten_cons, List.map_cons, List.sum_cons]
        rw [hA a rest.flatten hb, h1]
      · rcases hp with hp | hp
        · exact Or.inl hp
        · right; right
          have := J.mono [] p a rest.flatten hp
          simpa using this

theorem additiveOn_of_chain (dw : Measure) (J : Junction) (hA : AdditiveAcross dw J) (segs : List Seg)
    (h : chainFrom J [] (segs.flatMap Seg.atoms)) : AdditiveOn dw segs :=
  (chain_additive dw J hA _ [] h).1

/-! ### spaces -/

theorem spaces_succ_left (k : Nat) : spaces (k + 1) = spaces k ++ [SP] := by
  simp [spaces, List.replicate_succ']

theorem spaces_succ_right (k : Nat) : spaces (k + 1) = [SP] ++ spaces k := by
  simp [spaces, List.replicate_succ]

theorem spaces_succ_ne (k : Nat) : spaces (k + 1) ≠ [] := by simp [spaces, List.replicate_succ]

theorem ok_spaces_left (J : Junction) (b : Bytes) (k : Nat) (h : J.ok [SP] b) : J.ok (spaces (k + 1)) b := by
  have := J.mono (spaces k) [SP] b [] h
  rw [spaces_succ_left]
  simpa using this

theorem ok_spaces_right (J : Junction) (a : Bytes) (k : Nat) (h : J.ok a [SP]) : J.ok a (spaces (k + 1)) := by
  have := J.mono [] a [SP] (spaces k) h
  rw [spaces_succ_right]
  simpa using this

/-- the previous atom is a (possibly empty) run of spaces -/
def AllSp (p : Bytes) : Prop := ∃ k, p = spaces k

theorem allSp_sp : AllSp [SP] := ⟨1, rfl⟩
theorem allSp_nil : AllSp [] := ⟨0, rfl⟩

theorem allSp_ok_left (J : Junction) (p b : Bytes) (hp : AllSp p) (h : J.ok [SP] b) : p = [] ∨ J.ok p b := by
  obtain ⟨k, rfl⟩ := hp
  cases k with
  | zero => left; rfl
  | succ n => right; exact ok_spaces_left J b n h

theorem chain_spaces (J : Junction) (p : Bytes) (n : Nat) (rest : List Bytes) (hp : AllSp p)
    (hss : J.ok [SP] [SP]) (K : ∀ q, AllSp q → chainFrom J q rest) :
    chainFrom J p (spaces n :: rest) := by
  cases n with
  | zero =>
    have : spaces 0 = [] := rfl
    rw [this, chainFrom_cons_nil]; exact K p hp
  | succ m =>
    rw [chainFrom_cons_ne J p _ rest (spaces_succ_ne m)]
    exact ⟨allSp_ok_left J p _ hp (ok_spaces_right J _ m hss), K _ ⟨m + 1, rfl⟩⟩

/-- a cell line and its right padding, after spaces (or at the line start) -/
theorem chain_text (J : Junction) (p t : Bytes) (rp : Nat) (rest : List Bytes) (hp : AllSp p)
    (ht : TextSafe J t) (hss : J.ok [SP] [SP])
    (K : ∀ q, AllSp q ∨ (q = t ∧ t ≠ []) → chainFrom J q rest) :
    chainFrom J p (t :: spaces rp :: rest) := by
  by_cases hte : t = []
  · subst hte
    rw [chainFrom_cons_nil]
    exact chain_spaces J p rp rest hp hss (fun q hq => K q (Or.inl hq))
  · rcases ht with ht | ⟨h1, h2⟩
    · exact absurd ht hte
    · rw [chainFrom_cons_ne J p t _ hte]
      refine ⟨allSp_ok_left J p t hp h1, ?_⟩
      cases rp with
      | zero =>
        have : spaces 0 = [] := rfl
        rw [this, chainFrom_cons_nil]; exact K t (Or.inr ⟨rfl, hte⟩)
      | succ m =>
        rw [chainFrom_cons_ne J t _ rest (spaces_succ_ne m)]
        exact ⟨Or.inr (ok_spaces_right J t m h2), K _ (Or.inl ⟨m + 1, rfl⟩)⟩

/-- a whole slot followed by the joining space -/
theorem chain_slot_sp (J : Junction) (p : Bytes) (s : SlotD) (rest : List Bytes) (hp : AllSp p)
    (ht : TextSafe J s.ws.s) (hss : J.ok [SP] [SP]) (K : chainFrom J [SP] rest) :
    chainFrom J p (spaces s.lp :: s.ws.s :: spaces s.rp :: [SP] :: rest) := by
  apply chain_spaces J p s.lp _ hp hss
  intro q hq
  apply chain_text J q s.ws.s s.rp _ hq ht hss
  intro q' hq'
  rw [chainFrom_cons_ne J q' [SP] rest (by simp)]
  refine ⟨?_, K⟩
  rcases hq' with hq' | ⟨rfl, hne⟩
  · exact allSp_ok_left J q' _ hq' hss
  · rcases ht with ht | ⟨_, h2⟩
    · exact absurd ht hne
    · exact Or.inr h2

/-- the last slot of a boxless line -/
theorem chain_slot_last (J : Junction) (p : Bytes) (s : SlotD) (hp : AllSp p)
    (ht : TextSafe J s.ws.s) (hss : J.ok [SP] [SP]) :
    chainFrom J p [spaces s.lp, s.ws.s, spaces s.rp] := by
  apply chain_spaces J p s.lp _ hp hss
  intro q hq
  apply chain_text J q s.ws.s s.rp _ hq ht hss
  intro _ _
  trivial

/-! ### the three kinds of line -/

theorem chain_boxlessSegs (J : Junction) (slots : List SlotD) (hss : J.ok [SP] [SP])
    (ht : ∀ s ∈ slots, TextSafe J s.ws.s) :
    ∀ p, AllSp p → chainFrom J p ((boxlessSegs slots).flatMap Seg.atoms) := by
  induction slots with
  | nil => intro p _; simp [boxlessSegs, chainFrom]
  | cons s t ih =>
    intro p hp
    cases t with
    | nil =>
      simp only [boxlessSegs, SlotD.seg, List.flatMap_cons, List.flatMap_nil, Seg.atoms, List.append_nil]
      exact chain_slot_last J p s hp (ht s (by simp)) hss
    | cons s' t' =>
      have e : (boxlessSegs (s :: s' :: t')).flatMap Seg.atoms
          = spaces s.lp :: s.ws.s :: spaces s.rp :: [SP] :: (boxlessSegs (s' :: t')).flatMap Seg.atoms := by
        simp [boxlessSegs, SlotD.seg, Seg.atoms]
      rw [e]
      exact chain_slot_sp J p s _ hp (ht s (by simp)) hss
        (ih (fun x hx => ht x (List.mem_cons_of_mem _ hx)) [SP] allSp_sp)

theorem chain_boxedTail (J : Junction) (I R : Bytes) (slots : List SlotD) (hss : J.ok [SP] [SP])
    (hI : I ≠ []) (hR : R ≠ []) (hI1 : J.ok [SP] I) (hI2 : J.ok I [SP]) (hR1 : J.ok [SP] R)
    (ht : ∀ s ∈ slots, TextSafe J s.ws.s) :
    chainFrom J [SP] ((boxedTail I R slots).flatMap Seg.atoms) := by
  induction slots with
  | nil =>
    simp only [boxedTail, List.flatMap_cons, List.flatMap_nil, Seg.atoms, List.append_nil]
    rw [chainFrom_cons_ne J _ R [] hR]
    exact ⟨Or.inr hR1, trivial⟩
  | cons s t ih =>
    cases t with
    | nil =>
      have e : (boxedTail I R [s]).flatMap Seg.atoms
          = spaces s.lp :: s.ws.s :: spaces s.rp :: [SP] :: [R] := by
        simp [boxedTail, SlotD.seg, Seg.atoms]
      rw [e]
      apply chain_slot_sp J [SP] s _ allSp_sp (ht s (by simp)) hss
      rw [chainFrom_cons_ne J _ R [] hR]
      exact ⟨Or.inr hR1, trivial⟩
    | cons s' t' =>
      have e : (boxedTail I R (s :: s' :: t')).flatMap Seg.atoms
          = spaces s.lp :: s.ws.s :: spaces s.rp :: [SP] :: I :: [SP] ::
              (boxedTail I R (s' :: t')).flatMap Seg.atoms := by
        simp [boxedTail, SlotD.seg, Seg.atoms]
      rw [e]
      apply chain_slot_sp J [SP] s _ allSp_sp (ht s (by simp)) hss
      rw [chainFrom_cons_ne J _ I _ hI, chainFrom_cons_ne J I [SP] _ (by simp)]
      exact ⟨Or.inr hI1, Or.inr hI2, ih (fun x hx => ht x (List.mem_cons_of_mem _ hx))⟩

theorem chain_boxedSegs (J : Junction) (L I R : Bytes) (slots : List SlotD) (hss : J.ok [SP] [SP])
    (hL : L ≠ []) (hI : I ≠ []) (hR : R ≠ []) (hL2 : J.ok L [SP])
    (hI1 : J.ok [SP] I) (hI2 : J.ok I [SP]) (hR1 : J.ok [SP] R)
    (ht : ∀ s ∈ slots, TextSafe J s.ws.s) :
    chainFrom J [] ((boxedSegs L I R slots).flatMap Seg.atoms) := by
  have e : (boxedSegs L I R slots).flatMap Seg.atoms
      = L :: [SP] :: (boxedTail I R slots).flatMap Seg.atoms := by
    simp [boxedSegs, Seg.atoms]
  rw [e, chainFrom_cons_ne J _ L _ hL, chainFrom_cons_ne J L [SP] _ (by simp)]
  exact ⟨Or.inl rfl, Or.inr hL2, chain_boxedTail J I R slots hss hI hR hI1 hI2 hR1 ht⟩

theorem chain_replicate (J : Junction) (p h : Bytes) (k : Nat) (rest : List Bytes) (hh : h ≠ [])
    (hp : p = [] ∨ J.ok p h) (hhh : J.ok h h) (K : chainFrom J h rest) :
    chainFrom J p (List.replicate (k + 1) h ++ rest) := by
  induction k generalizing p with
  | zero =>
    simp only [List.replicate_succ, List.replicate_zero, List.cons_append, List.nil_append]
    rw [chainFrom_cons_ne J p h rest hh]; exact ⟨hp, K⟩
  | succ n ih =>
    rw [List.replicate_succ, List.cons_append, chainFrom_cons_ne J p h _ hh]
    exact ⟨hp, ih h (Or.inr hhh)⟩

theorem chain_ruleSegs (J : Junction) (h x r : Bytes) (cw : List Nat) (hcw : cw ≠ [])
    (hh : h ≠ []) (hx : x ≠ []) (hr : r ≠ [])
    (hhh : J.ok h h) (hhx : J.ok h x) (hxh : J.ok x h) (hhr : J.ok h r) :
    ∀ l p, l ≠ [] → J.ok l h → (p = [] ∨ J.ok p l) →
      chainFrom J p ((ruleSegs l h x r cw).flatMap Seg.atoms) := by
  induction cw with
  | nil => exact absurd rfl hcw
  | cons w t ih =>
    intro l p hl hlh hp
    cases t with
    | nil =>
      have e : (ruleSegs l h x r [w]).flatMap Seg.atoms = l :: (List.replicate (w + 1 + 1) h ++ [r]) := by
        simp [ruleSegs, Seg.atoms]
      rw [e, chainFrom_cons_ne J p l _ hl]
      refine ⟨hp, chain_replicate J l h (w + 1) [r] hh (Or.inr hlh) hhh ?_⟩
      rw [chainFrom_cons_ne J h r [] hr]
      exact ⟨Or.inr hhr, trivial⟩
    | cons w' t' =>
      have e : (ruleSegs l h x r (w :: w' :: t')).flatMap Seg.atoms
          = l :: (List.replicate (w + 1 + 1) h ++ (ruleSegs x h x r (w' :: t')).flatMap Seg.atoms) := by
        simp [ruleSegs, Seg.atoms]
      rw [e, chainFrom_cons_ne J p l _ hl]
      exact ⟨hp, chain_replicate J l h (w + 1) _ hh (Or.inr hlh) hhh
        (ih (by simp) x h hx hxh (Or.inr hhx))⟩

end Tab
