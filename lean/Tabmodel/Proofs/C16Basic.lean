/-
  C16 helpers, part 1: the vocabulary of state-locality (`Frame`, `Agree`, `Inv`,
  `LocalStep`), its combinators, and the primitive world updates.

  `Frame t P w w'`   : `w'` differs from `w` at most on table `t`, on rows satisfying `P`,
                       and by rows appended to the store (writes are local).
  `Agree t P I w w₂` : `w` and `w₂` coincide on table `t`, on the rows in `P`, on the items in `I`
                       (what a step on `t` may read).
  `Inv t P I w`      : the rows in `P` exist, refer only to table `t` (`inTable`, `ec`), their cells
                       point back to their own row and hold items in `I`; the footprint of `t`
                       (header + rows) lies in `P`.
  `LocalStep t P I f`: under `Inv`, `f` is framed, keeps `Inv`, and maps agreeing worlds to agreeing worlds.
-/
import Tabmodel.Model.Render
namespace Tab
namespace C16
open World

/-! ### footprint and ownership predicates -/

/-- the rows reachable from a table value: its header and its rows -/
def FootT (tb : Table) (r : Nat) : Prop := tb.header = some r ∨ r ∈ tb.rows

/-- a row's error container is nil, its own, or table `t`'s -/
def ecOK (t : Nat) : ECRef → Prop
  | .table t' => t' = t
  | _ => True

instance (t : Nat) (e : ECRef) : Decidable (ecOK t e) := by
  cases e <;> unfold ecOK <;> infer_instance

/-- a cell stored in row `r`: its back pointer is the row itself (or unset), its item is in `I` -/
def CellOK (r : Nat) (I : Nat → Prop) (ce : Cell) : Prop :=
  (ce.inRow = none ∨ ce.inRow = some r) ∧ I ce.item

structure RowOK (t r : Nat) (I : Nat → Prop) (rw : Row) : Prop where
  inT : rw.inTable = none ∨ rw.inTable = some t
  ec : ecOK t rw.ec
  cells : ∀ ce ∈ rw.cells.getD [], CellOK r I ce

structure Inv (t : Nat) (P I : Nat → Prop) (w : World) : Prop where
  inrange : ∀ r, P r → r < w.rows.length
  rowok : ∀ r, P r → RowOK t r I (w.row r)
  foot : ∀ r, FootT (w.table t) r → P r

structure Frame (t : Nat) (P : Nat → Prop) (w w' : World) : Prop where
  tlen : w'.tables.length = w.tables.length
  tabs : ∀ t', t' ≠ t → w'.tables[t']? = w.tables[t']?
  rlen : w.rows.length ≤ w'.rows.length
  rows : ∀ r, ¬ P r → r < w.rows.length → w'.rows[r]? = w.rows[r]?
  items : w'.items = w.items

structure Agree (t : Nat) (P I : Nat → Prop) (w w₂ : World) : Prop where
  tab : w.tables[t]? = w₂.tables[t]?
  rows : ∀ r, P r → w.rows[r]? = w₂.rows[r]?
  items : ∀ i, I i → w.item i = w₂.item i

/-- what `f` does at `w` -/
structure LocalAt (t : Nat) (P I : Nat → Prop) (f : World → World) (w : World) : Prop where
  frame : Frame t P w (f w)
  inv : Inv t P I (f w)
  len : (f w).rows.length = w.rows.length
  dep : ∀ w₂, Agree t P I w w₂ → Agree t P I (f w) (f w₂)

def LocalStep (t : Nat) (P I : Nat → Prop) (f : World → World) : Prop :=
  ∀ w, Inv t P I w → LocalAt t P I f w

/-! ### basic facts -/

theorem table_def (w : World) (t : Nat) : w.table t = (w.tables[t]?).getD {} := by
  simp [table, List.getD_eq_getElem?_getD]

theorem row_def (w : World) (r : Nat) : w.row r = (w.rows[r]?).getD {} := by
  simp [row, List.getD_eq_getElem?_getD]

theorem Frame.refl (t : Nat) (P : Nat → Prop) (w : World) : Frame t P w w :=
  ⟨rfl, fun _ _ => rfl, Nat.le_refl _, fun _ _ _ => rfl, rfl⟩

theorem Frame.trans {t : Nat} {P : Nat → Prop} {w w' w'' : World}
    (h₁ : Frame t P w w') (h₂ : Frame t P w' w'') : Frame t P w w'' where
  tlen := h₂.tlen.trans h₁.tlen
  tabs := fun t' ht => (h₂.tabs t' ht).trans (h₁.tabs t' ht)
  rlen := Nat.le_trans h₁.rlen h₂.rlen
  rows := fun r hr hl => (h₂.rows r hr (Nat.lt_of_lt_of_le hl h₁.rlen)).trans (h₁.rows r hr hl)
  items := h₂.items.trans h₁.items

theorem Frame.mono {t : Nat} {P P' : Nat → Prop} {w w' : World}
    (h : Frame t P w w') (hp : ∀ r, r < w.rows.length → P r → P' r) : Frame t P' w w' where
  tlen := h.tlen
  tabs := h.tabs
  rlen := h.rlen
  rows := fun r hr hl => h.rows r (fun hP => hr (hp r hl hP)) hl
  items := h.items

theorem Frame.table {t : Nat} {P : Nat → Prop} {w w' : World} (h : Frame t P w w')
    {t' : Nat} (ht : t' ≠ t) : w'.table t' = w.table t' := by
  rw [table_def, table_def, h.tabs t' ht]

theorem Frame.row {t : Nat} {P : Nat → Prop} {w w' : World} (h : Frame t P w w')
    {r : Nat} (hr : ¬ P r) (hl : r < w.rows.length) : w'.row r = w.row r := by
  rw [row_def, row_def, h.rows r hr hl]

theorem Agree.refl (t : Nat) (P I : Nat → Prop) (w : World) : Agree t P I w w :=
  ⟨rfl, fun _ _ => rfl, fun _ _ => rfl⟩

theorem Agree.symm {t : Nat} {P I : Nat → Prop} {w w₂ : World} (h : Agree t P I w w₂) :
    Agree t P I w₂ w :=
  ⟨h.tab.symm, fun r hr => (h.rows r hr).symm, fun i hi => (h.items i hi).symm⟩

theorem Agree.trans {t : Nat} {P I : Nat → Prop} {w w₂ w₃ : World}
    (h : Agree t P I w w₂) (h' : Agree t P I w₂ w₃) : Agree t P I w w₃ :=
  ⟨h.tab.trans h'.tab, fun r hr => (h.rows r hr).trans (h'.rows r hr),
   fun i hi => (h.items i hi).trans (h'.items i hi)⟩

theorem Agree.table {t : Nat} {P I : Nat → Prop} {w w₂ : World} (h : Agree t P I w w₂) :
    w.table t = w₂.table t := by
  rw [table_def, table_def, h.tab]

theorem Agree.row {t : Nat} {P I : Nat → Prop} {w w₂ : World} (h : Agree t P I w w₂)
    {r : Nat} (hr : P r) : w.row r = w₂.row r := by
  rw [row_def, row_def, h.rows r hr]

/-! ### combinators -/

/-- sequential composition -/
def seq (f g : World → World) : World → World := fun w => g (f w)

/-- read a value from the world, continue with it -/
def rd {α : Type} (r : World → α) (g : α → World → World) : World → World := fun w => g (r w) w

/-- a read that steps on `t` may perform: determined by the agreed part, and satisfying `Q` under `Inv` -/
structure Rd {α : Type} (t : Nat) (P I : Nat → Prop) (r : World → α) (Q : α → Prop) : Prop where
  q : ∀ w, Inv t P I w → Q (r w)
  ag : ∀ w w₂, Inv t P I w → Agree t P I w w₂ → r w = r w₂

theorem LocalStep.id' (t : Nat) (P I : Nat → Prop) : LocalStep t P I (fun w => w) :=
  fun w h => ⟨Frame.refl t P w, h, rfl, fun _ ha => ha⟩

theorem LocalStep.seq {t : Nat} {P I : Nat → Prop} {f g : World → World}
    (hf : LocalStep t P I f) (hg : LocalStep t P I g) : LocalStep t P I (seq f g) := fun w h => by
  have h1 := hf w h
  have h2 := hg (f w) h1.inv
  exact ⟨h1.frame.trans h2.frame, h2.inv, h2.len.trans h1.len, fun w₂ ha => h2.dep (f w₂) (h1.dep w₂ ha)⟩

theorem LocalStep.rd {α : Type} {t : Nat} {P I : Nat → Prop} {r : World → α} {Q : α → Prop}
    {g : α → World → World} (hr : Rd t P I r Q) (hg : ∀ a, Q a → LocalStep t P I (g a)) :
    LocalStep t P I (rd r g) := fun w h => by
  have h1 := hg (r w) (hr.q w h) w h
  refine ⟨h1.frame, h1.inv, h1.len, fun w₂ ha => ?_⟩
  show Agree t P I (g (r w) w) (g (r w₂) w₂)
  rw [← hr.ag w w₂ h ha]
  exact h1.dep w₂ ha

/-- `xs.foldl` of local steps -/
theorem LocalStep.foldl {β : Type} {t : Nat} {P I : Nat → Prop} (h : World → β → World) (xs : List β)
    (hh : ∀ x ∈ xs, LocalStep t P I (fun w => h w x)) : LocalStep t P I (fun w => xs.foldl h w) := by
  induction xs with
  | nil => exact LocalStep.id' t P I
  | cons x xs ih =>
    have h1 := hh x (by simp)
    have h2 := ih (fun y hy => hh y (by simp [hy]))
    exact LocalStep.seq h1 h2

theorem Rd.map {α β : Type} {t : Nat} {P I : Nat → Prop} {r : World → α} {Q : α → Prop}
    (hr : Rd t P I r Q) (f : α → β) (Q' : β → Prop) (hq : ∀ a, Q a → Q' (f a)) :
    Rd t P I (fun w => f (r w)) Q' :=
  ⟨fun w h => hq _ (hr.q w h), fun w w₂ h ha => by simp only [hr.ag w w₂ h ha]⟩

theorem Rd.weaken {α : Type} {t : Nat} {P I : Nat → Prop} {r : World → α} {Q Q' : α → Prop}
    (hr : Rd t P I r Q) (hq : ∀ a, Q a → Q' a) : Rd t P I r Q' :=
  ⟨fun w h => hq _ (hr.q w h), hr.ag⟩

theorem Rd.const {α : Type} (t : Nat) (P I : Nat → Prop) (a : α) : Rd t P I (fun _ => a) (fun x => x = a) :=
  ⟨fun _ _ => rfl, fun _ _ _ _ => rfl⟩

/-! ### primitive reads -/

theorem rd_row {t : Nat} {P I : Nat → Prop} {r : Nat} (hr : P r) :
    Rd t P I (fun w => w.row r) (RowOK t r I) :=
  ⟨fun _ h => h.rowok r hr, fun _ _ _ ha => ha.row hr⟩

theorem rd_table (t : Nat) (P I : Nat → Prop) :
    Rd t P I (fun w => w.table t) (fun tb => ∀ r, FootT tb r → P r) :=
  ⟨fun _ h => h.foot, fun _ _ _ ha => ha.table⟩

theorem rd_item {t : Nat} {P I : Nat → Prop} {i : Nat} (hi : I i) :
    Rd t P I (fun w => w.item i) (fun _ => True) :=
  ⟨fun _ _ => trivial, fun _ _ _ ha => ha.items i hi⟩

end C16
end Tab
