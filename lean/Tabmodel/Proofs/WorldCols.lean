/-
  Column counts along a history: the `resizeColumnsAtLeast` law of every step, and the exact
  characterisation `nColumns = max (largest header ever set) (widest attached row now)`.
-/
import Tabmodel.Proofs.WorldHist
namespace Tab

/-- maximum of a list of naturals -/
def lmax (l : List Nat) : Nat := l.foldr max 0

theorem lmax_nil : lmax [] = 0 := rfl
theorem lmax_cons (x : Nat) (l : List Nat) : lmax (x :: l) = max x (lmax l) := rfl

theorem lmax_append (a b : List Nat) : lmax (a ++ b) = max (lmax a) (lmax b) := by
  induction a with
  | nil => simp [lmax_nil]
  | cons x a ih => simp only [List.cons_append, lmax_cons, ih]; omega

theorem le_lmax_of_mem {l : List Nat} {x : Nat} (h : x ∈ l) : x ≤ lmax l := by
  induction l with
  | nil => cases h
  | cons y l ih =>
    rw [lmax_cons]
    rcases List.mem_cons.mp h with e | e
    · subst e; omega
    · have := ih e; omega

theorem lmax_le {l : List Nat} {b : Nat} (h : ∀ x ∈ l, x ≤ b) : lmax l ≤ b := by
  induction l with
  | nil => exact Nat.zero_le _
  | cons y l ih =>
    rw [lmax_cons]
    have h1 := h y (List.mem_cons_self ..)
    have h2 := ih (fun x hx => h x (List.mem_cons_of_mem _ hx))
    omega

theorem lmax_map_congr {l : List Nat} {f g : Nat → Nat} (h : ∀ x ∈ l, f x = g x) :
    lmax (l.map f) = lmax (l.map g) := by
  rw [List.map_congr_left h]

/-- one element's value grows, the others keep theirs -/
theorem lmax_map_bump (l : List Nat) (f g : Nat → Nat) (r : Nat)
    (hne : ∀ x ∈ l, x ≠ r → g x = f x) (hr : f r ≤ g r) :
    lmax (l.map g) = if r ∈ l then max (lmax (l.map f)) (g r) else lmax (l.map f) := by
  induction l with
  | nil => simp
  | cons x l ih =>
    have ih' := ih (fun y hy => hne y (List.mem_cons_of_mem _ hy))
    simp only [List.map_cons, lmax_cons, List.mem_cons]
    by_cases e : x = r
    · subst e
      by_cases hm : x ∈ l
      · simp only [hm, if_true] at ih'
        simp only [hm, or_true, if_true, ih']; omega
      · simp only [hm, if_false] at ih'
        simp only [true_or, if_true, ih']; omega
    · have hx := hne x (List.mem_cons_self ..) e
      have e' : ¬ r = x := fun h => e h.symm
      by_cases hm : r ∈ l
      · simp only [hm, if_true] at ih'
        simp only [hm, e', false_or, if_true, ih', hx]; omega
      · simp only [hm, if_false] at ih'
        simp only [hm, e', false_or, if_false, ih', hx]

namespace Shape

theorem rowsMax_eq (s : Shape) (t : Nat) : s.rowsMax t = lmax ((s.table t).rows.map s.width) := rfl

/-! ### widths after each compound operation -/

theorem rowAddN_row_ne (r n : Nat) (s : Shape) (r' : Nat) (hne : r' ≠ r) :
    (rowAddN r n s).row r' = s.row r' := by
  induction n generalizing s with
  | zero => rfl
  | succ n ih => simp only [Shape.rowAddN]; rw [ih, rowAdd_row_ne _ _ _ hne]

theorem addRow_width (s : Shape) (t r r' : Nat) (ht : t < s.tables.length) :
    (s.addRow t r).width r' = s.width r' := by
  rw [addRow_eq _ _ _ ht, width_attach, width_modTable]

theorem addSeparator_width_old (s : Shape) (t r' : Nat) (ht : t < s.tables.length) (h : r' < s.rows.length) :
    (s.addSeparator t).width r' = s.width r' := by
  rw [addSeparator_eq _ _ ht, width_attach, width_newRow_lt _ _ _ h]

theorem addSeparator_width_new (s : Shape) (t : Nat) (ht : t < s.tables.length) :
    (s.addSeparator t).width s.rows.length = 0 := by
  rw [addSeparator_eq _ _ ht, width_attach]
  unfold width; rw [row_newRow_self]; rfl

theorem addHeaders_width_old (s : Shape) (t n r' : Nat) (h : r' < s.rows.length) :
    (s.addHeaders t n).width r' = s.width r' := by
  unfold Shape.addHeaders
  simp only [rows_modTable, width_modTable]
  unfold width
  rw [rowAddN_row_ne _ _ _ _ (by omega), row_newRow_lt _ _ _ (by simpa using h)]
  rfl

theorem addRowItems_width_old (s : Shape) (t n r' : Nat) (ht : t < s.tables.length) (h : r' < s.rows.length) :
    (s.addRowItems t n).width r' = s.width r' := by
  unfold Shape.addRowItems
  simp only
  rw [addRow_width _ _ _ _ (by rw [rowAddN_tables_length]; exact ht)]
  unfold width
  rw [rowAddN_row_ne _ _ _ _ (by omega), row_newRow_lt _ _ _ h]

theorem addRowItems_width_new (s : Shape) (t n : Nat) (ht : t < s.tables.length) :
    (s.addRowItems t n).width s.rows.length = n := by
  unfold Shape.addRowItems
  simp only
  rw [addRow_width _ _ _ _ (by rw [rowAddN_tables_length]; exact ht)]
  obtain ⟨cs', hc', hlen'⟩ := rowAddN_width s.rows.length n (s.newRow {}) [] (by simp) (by rw [row_newRow_self])
  unfold width; rw [hc']; simpa using hlen'

/-! ### the `resizeColumnsAtLeast` law of one step -/

theorem step_nColumns {s : Shape} (h : SInv s) (op : BuildOp) (hok : s.ok op = true) (t : Nat) :
    ((s.step op).table t).nColumns = max (s.table t).nColumns (s.demand t op) := by
  cases op <;> simp only [Shape.step, Shape.demand]
  case newTable => rw [table_newTable]; omega
  case addHeaders t' items =>
    rw [addHeaders_nColumns _ _ _ _ (by simpa [ok] using hok)]
    by_cases e : t = t'
    · subst e; simp
    · have e' : ¬ t' = t := fun x => e x.symm
      simp [e, e']
  case addRowItems t' items =>
    rw [addRowItems_nColumns _ _ _ _ (by simpa [ok] using hok)]
    by_cases e : t = t'
    · subst e; simp
    · have e' : ¬ t' = t := fun x => e x.symm
      simp [e, e']
  case newRow => rw [table_newRow]; omega
  case zeroRow => rw [table_newRow]; omega
  case appendNewRow t' =>
    rw [appendNewRow_eq, addRowItems_nColumns _ _ _ _ (by simpa [ok] using hok)]
    split <;> omega
  case rowAdd r i =>
    rw [rowAdd_nColumns]
    cases hc : (s.row r).cells with
    | none => simp
    | some cs =>
      cases hi : (s.row r).inTable with
      | none => simp
      | some t' =>
        have hlt := h.inTable_lt hi
        by_cases e : t = t'
        · subst e; simp [hlt]
        · have e' : ¬ t' = t := fun x => e x.symm
          simp [e, e']
  case rowAddCell r ce =>
    rw [rowAdd_nColumns]
    cases hc : (s.row r).cells with
    | none => simp
    | some cs =>
      cases hi : (s.row r).inTable with
      | none => simp
      | some t' =>
        have hlt := h.inTable_lt hi
        by_cases e : t = t'
        · subst e; simp [hlt]
        · have e' : ¬ t' = t := fun x => e x.symm
          simp [e, e']
  case addRow t' r =>
    simp only [ok, Bool.and_eq_true, decide_eq_true_eq] at hok
    rw [addRow_nColumns _ _ _ _ hok.1.1.1]
    by_cases e : t = t'
    · subst e; simp
    · have e' : ¬ t' = t := fun x => e x.symm
      simp [e, e']
  case addSeparator t' =>
    rw [addSeparator_nColumns _ _ _ (by simpa [ok] using hok)]; omega
  all_goals omega

/-! ### the widest attached row, step by step -/

/-- the part of a step's column demand that comes from rows (everything but `AddHeaders`) -/
def rowDemand (s : Shape) (t : Nat) : BuildOp → Nat
  | .addHeaders _ _ => 0
  | op => s.demand t op

theorem demand_split (s : Shape) (t : Nat) (op : BuildOp) :
    s.demand t op = max (op.hdrDemand t) (s.rowDemand t op) := by
  cases op <;> simp [rowDemand, demand, BuildOp.hdrDemand]

theorem rowsMax_of (s s' : Shape) (t : Nat) (att : List Nat)
    (hrows : (s'.table t).rows = (s.table t).rows ++ att)
    (hold : ∀ r ∈ (s.table t).rows, s'.width r = s.width r) :
    s'.rowsMax t = max (s.rowsMax t) (lmax (att.map s'.width)) := by
  rw [rowsMax_eq, rowsMax_eq, hrows, List.map_append, lmax_append, lmax_map_congr hold]

/-- the row demand of `Row.Add` on row `r`, seen from table `t` -/
def addDemand (s : Shape) (t r : Nat) : Nat :=
  match (s.row r).cells, (s.row r).inTable with
  | some cs, some t' => if t' = t then cs.length + 1 else 0
  | _, _ => 0

theorem step_rowsMax_rowAdd {s : Shape} (h : SInv s) (r t : Nat) (hr : r < s.rows.length) :
    (s.rowAdd r).rowsMax t = max (s.rowsMax t) (s.addDemand t r) := by
  unfold addDemand
  cases hc : (s.row r).cells with
  | none => rw [rowAdd_none _ _ hc]; simp
  | some cs =>
    obtain ⟨cs', hc', hl'⟩ := rowAdd_width_self s r cs hr hc
    have hw' : (s.rowAdd r).width r = cs.length + 1 := by unfold width; rw [hc']; simpa using hl'
    have hw : s.width r = cs.length := by unfold width; rw [hc]; rfl
    have hb := lmax_map_bump (s.table t).rows s.width (s.rowAdd r).width r
      (fun x _ hne => by unfold width; rw [rowAdd_row_ne _ _ _ hne]) (by omega)
    rw [rowsMax_eq, rowsMax_eq, (skel_rowAdd s r).rows, hb, hw']
    cases hi : (s.row r).inTable with
    | none =>
      have : r ∉ (s.table t).rows := by
        intro hm; have := h.att_mem hm; rw [hi] at this; cases this
      simp [this]
    | some t' =>
      by_cases e : t' = t
      · subst e
        simp [h.back r t' hi]
      · have : r ∉ (s.table t).rows := by
          intro hm; have := h.att_mem hm; rw [hi] at this; cases this; exact e rfl
        simp [this, e]

theorem step_rowsMax {s : Shape} (h : SInv s) (op : BuildOp) (hok : s.ok op = true) (t : Nat) :
    (s.step op).rowsMax t = max (s.rowsMax t) (s.rowDemand t op) := by
  have hrows := step_rows s op hok t
  have key : ∀ (hold : ∀ r ∈ (s.table t).rows, (s.step op).width r = s.width r),
      (s.step op).rowsMax t = max (s.rowsMax t) (lmax ((op.attaches t s.rows.length).map (s.step op).width)) :=
    fun hold => rowsMax_of s (s.step op) t _ hrows hold
  cases op
  case newTable => rw [key (fun _ _ => rfl)]; simp [BuildOp.attaches, rowDemand, demand, lmax_nil]
  case addHeaders t' items =>
    rw [key (fun r hr => addHeaders_width_old s t' _ r (h.rowsLt t r hr))]
    simp [BuildOp.attaches, rowDemand, lmax_nil]
  case addRowItems t' items =>
    have ht : t' < s.tables.length := by simpa [ok] using hok
    rw [key (fun r hr => addRowItems_width_old s t' _ r ht (h.rowsLt t r hr))]
    simp only [BuildOp.attaches, rowDemand, demand, Shape.step]
    by_cases e : t' = t
    · subst e; simp [lmax_cons, lmax_nil, addRowItems_width_new s t' _ ht]
    · simp [e, lmax_nil]
  case newRow =>
    rw [key (fun r hr => width_newRow_lt s _ r (h.rowsLt t r hr))]
    simp [BuildOp.attaches, rowDemand, demand, lmax_nil]
  case zeroRow =>
    rw [key (fun r hr => width_newRow_lt s _ r (h.rowsLt t r hr))]
    simp [BuildOp.attaches, rowDemand, demand, lmax_nil]
  case appendNewRow t' =>
    have ht : t' < s.tables.length := by simpa [ok] using hok
    rw [key (fun r hr => addRowItems_width_old s t' 0 r ht (h.rowsLt t r hr))]
    simp only [BuildOp.attaches, rowDemand, demand]
    by_cases e : t' = t
    · have := addRowItems_width_new s t' 0 ht
      subst e
      simp only [Shape.step, appendNewRow_eq]
      simp [lmax_cons, lmax_nil, this]
    · simp [e, lmax_nil]
  case addRow t' r =>
    have ht : t' < s.tables.length := by
      simp only [ok, Bool.and_eq_true, decide_eq_true_eq] at hok; exact hok.1.1.1
    rw [key (fun r' _ => addRow_width s t' r r' ht)]
    simp only [BuildOp.attaches, rowDemand, demand, Shape.step]
    by_cases e : t' = t
    · subst e; simp [lmax_cons, lmax_nil, addRow_width s t' r r ht]
    · simp [e, lmax_nil]
  case addSeparator t' =>
    have ht : t' < s.tables.length := by simpa [ok] using hok
    rw [key (fun r hr => addSeparator_width_old s t' r ht (h.rowsLt t r hr))]
    simp only [BuildOp.attaches, rowDemand, demand, Shape.step]
    by_cases e : t' = t
    · subst e; simp [lmax_cons, lmax_nil, addSeparator_width_new s t' ht]
    · simp [e, lmax_nil]
  case rowAdd r i => exact step_rowsMax_rowAdd h r t (by simp only [ok, Bool.and_eq_true, decide_eq_true_eq] at hok; exact hok.1)
  case rowAddCell r ce => exact step_rowsMax_rowAdd h r t (by simp only [ok, Bool.and_eq_true, decide_eq_true_eq] at hok; exact hok.1)
  all_goals (rw [key (fun _ _ => rfl)]; simp [BuildOp.attaches, rowDemand, demand, lmax_nil])

/-! ### `nColumns = max (largest header ever set) (widest attached row)` -/

/-- the column-count equation, with `H t` the largest header length set on `t` so far -/
def NC (s : Shape) (H : Nat → Nat) : Prop := ∀ t, (s.table t).nColumns = max (H t) (s.rowsMax t)

theorem nc_init : NC {} (fun _ => 0) := by
  intro t
  have ht : ({} : Shape).table t = {} := table_oob _ _ (Nat.zero_le _)
  rw [rowsMax_eq, ht]; rfl

theorem NC.step {s : Shape} {H : Nat → Nat} (hn : NC s H) (h : SInv s) (op : BuildOp) (hok : s.ok op = true) :
    NC (s.step op) (fun t => max (H t) (op.hdrDemand t)) := by
  intro t
  show _ = max (max (H t) (op.hdrDemand t)) _
  rw [step_nColumns h op hok t, step_rowsMax h op hok t, hn t, demand_split]
  omega

theorem NC.runFrom {s : Shape} {H : Nat → Nat} (hn : NC s H) (h : SInv s) (ops : List BuildOp)
    (hv : s.validFrom ops = true) : NC (s.runFrom ops) (fun t => max (H t) (hdrMax t ops)) := by
  unfold Shape.runFrom
  induction ops generalizing s H with
  | nil =>
    intro t
    show (s.table t).nColumns = max (max (H t) 0) (s.rowsMax t)
    rw [hn t]; omega
  | cons op ops ih =>
    simp only [validFrom, Bool.and_eq_true] at hv
    have := ih (hn.step h op hv.1) (h.step op hv.1) hv.2
    intro t
    simp only [List.foldl_cons]
    rw [this t]
    have e : hdrMax t (op :: ops) = max (op.hdrDemand t) (hdrMax t ops) := rfl
    show max (max (max (H t) (op.hdrDemand t)) (hdrMax t ops)) _ = _
    rw [e]
    omega

end Shape

theorem World.shape_rowsMax (w : World) (t : Nat) : w.shape.rowsMax t = w.rowsMax t := by
  unfold Shape.rowsMax World.rowsMax
  rw [World.shape_table]
  have : w.shape.width = fun r => (w.rowCells r).length := funext (World.shape_width w)
  rw [this]; rfl

end Tab
