/- Helper lemmas about the `Emit` monad (simp-normal form: everything in terms of `.chunks` / `.res`). -/
import Tabmodel.Model.Emit
namespace Tab
namespace Emit

@[simp] theorem pure_eq (a : α) : (pure a : Emit α) = pure' a := rfl
@[simp] theorem bind_eq (m : Emit α) (f : α → Emit β) : (m >>= f) = bind' m f := rfl

@[simp] theorem pure'_chunks (a : α) : (pure' a).chunks = [] := rfl
@[simp] theorem pure'_res (a : α) : (pure' a).res = .ok a := rfl
@[simp] theorem write_chunks (b : Bytes) : (write b).chunks = [b] := rfl
@[simp] theorem write_res (b : Bytes) : (write b).res = .ok () := rfl
@[simp] theorem fail_chunks (e : ErrClass) : (fail e : Emit α).chunks = [] := rfl
@[simp] theorem fail_res (e : ErrClass) : (fail e : Emit α).res = .error (.err e) := rfl
@[simp] theorem panic_chunks (s : String) : (panic s : Emit α).chunks = [] := rfl
@[simp] theorem panic_res (s : String) : (panic s : Emit α).res = .error (.panic s) := rfl
@[simp] theorem lift_chunks (r : Except Stop α) : (lift r).chunks = [] := rfl
@[simp] theorem lift_res (r : Except Stop α) : (lift r).res = r := rfl

theorem bind'_ok {m : Emit α} {a : α} (h : m.res = .ok a) (f : α → Emit β) :
    (bind' m f).chunks = m.chunks ++ (f a).chunks ∧ (bind' m f).res = (f a).res := by
  unfold bind'; rw [h]; exact ⟨rfl, rfl⟩

theorem bind'_err {m : Emit α} {e : Stop} (h : m.res = .error e) (f : α → Emit β) :
    (bind' m f).chunks = m.chunks ∧ (bind' m f).res = .error e := by
  unfold bind'; rw [h]; exact ⟨rfl, rfl⟩

@[simp] theorem bind'_pure' (a : α) (f : α → Emit β) : bind' (pure' a) f = f a := by
  unfold bind' pure'; simp

@[simp] theorem bind'_write (b : Bytes) (f : Unit → Emit β) :
    bind' (write b) f = ⟨b :: (f ()).chunks, (f ()).res⟩ := by
  unfold bind' write; simp

@[simp] theorem bind'_fail (e : ErrClass) (f : α → Emit β) : bind' (fail e) f = ⟨[], .error (.err e)⟩ := by
  unfold bind' fail; simp

@[simp] theorem bind'_panic (s : String) (f : α → Emit β) : bind' (panic s) f = ⟨[], .error (.panic s)⟩ := by
  unfold bind' panic; simp

@[simp] theorem bind'_lift_ok (a : α) (f : α → Emit β) : bind' (lift (.ok a)) f = f a := by
  unfold bind' lift; simp

@[simp] theorem bind'_lift_err (e : Stop) (f : α → Emit β) : bind' (lift (.error e : Except Stop α)) f = ⟨[], .error e⟩ := by
  unfold bind' lift; simp

theorem bind'_assoc (m : Emit α) (f : α → Emit β) (g : β → Emit γ) :
    bind' (bind' m f) g = bind' m (fun a => bind' (f a) g) := by
  unfold bind'
  cases hm : m.res with
  | error e => simp
  | ok a =>
    simp only
    cases hf : (f a).res with
    | error e => simp
    | ok b => simp [List.append_assoc]

@[simp] theorem forM'_nil (body : α → Emit Unit) : forM' [] body = pure' () := rfl
@[simp] theorem forM'_cons (x : α) (xs : List α) (body : α → Emit Unit) :
    forM' (x :: xs) body = bind' (body x) (fun _ => forM' xs body) := rfl

/-- a loop whose every body succeeds: succeeds, and writes the bodies' chunks in order -/
theorem forM'_ok (xs : List α) (body : α → Emit Unit) (h : ∀ x ∈ xs, (body x).res = .ok ()) :
    (forM' xs body).res = .ok () ∧ (forM' xs body).chunks = xs.flatMap (fun x => (body x).chunks) := by
  induction xs with
  | nil => simp
  | cons x xs ih =>
    have hx := h x (by simp)
    have ih' := ih (fun y hy => h y (by simp [hy]))
    have := bind'_ok hx (fun _ => forM' xs body)
    simp only [forM'_cons, List.flatMap_cons]
    exact ⟨this.2.trans ih'.1, by rw [this.1, ih'.2]⟩

/-- a loop never panics if no body panics -/
theorem forM'_no_panic (xs : List α) (body : α → Emit Unit)
    (h : ∀ x ∈ xs, ∀ s, (body x).res ≠ .error (.panic s)) : ∀ s, (forM' xs body).res ≠ .error (.panic s) := by
  induction xs with
  | nil => intro s; simp
  | cons x xs ih =>
    intro s
    simp only [forM'_cons]
    cases hx : (body x).res with
    | error e =>
      rw [(bind'_err hx _).2]
      intro hc
      exact h x (by simp) s (by rw [hx, hc])
    | ok u =>
      rw [(bind'_ok hx _).2]
      exact ih (fun y hy => h y (by simp [hy])) s

theorem idx_ok {a : List α} {i : Nat} {x : α} (h : a[i]? = some x) (site : String) : idx a i site = pure' x := by
  unfold idx; rw [h]

theorem output_def (m : Emit α) : m.output = m.chunks.flatten := rfl

end Emit
end Tab
