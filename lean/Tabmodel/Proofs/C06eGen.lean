/-
  C06e helpers: the template with a stateful row-class generator (`htmlBytesSt`,
  Proofs/C06eSpec.lean) against the pure model `htmlBytes` and the stepping spec `stepGen`.
-/
import Tabmodel.Proofs.C06eSpec
namespace Tab
namespace C06e

/-- the generator arguments of a list of indexed rows -/
def bodyArgs (l : List (Option (List RCell) × Nat)) : List Nat :=
  l.filterMap (fun (r, i) => if r.isSome then some (i + 1) else none)

theorem bodyArgs_nil : bodyArgs [] = [] := rfl
theorem bodyArgs_none (i : Nat) (l : List (Option (List RCell) × Nat)) :
    bodyArgs ((none, i) :: l) = bodyArgs l := by simp [bodyArgs]
theorem bodyArgs_some (cells : List RCell) (i : Nat) (l : List (Option (List RCell) × Nat)) :
    bodyArgs ((some cells, i) :: l) = (i + 1) :: bodyArgs l := by simp [bodyArgs]

theorem rowClassArgs_eq (v : RTable) : rowClassArgs v = 0 :: bodyArgs v.rows.zipIdx := rfl

/-! ### state -/

theorem stepGen_cons {σ : Type} (gen : RowGen σ) (s : σ) (n : Nat) (ns : List Nat) :
    stepGen gen s (n :: ns) = ((gen s n).1 :: (stepGen gen (gen s n).2 ns).1, (stepGen gen (gen s n).2 ns).2) := rfl

theorem stepGen_length {σ : Type} (gen : RowGen σ) (s : σ) (ns : List Nat) :
    (stepGen gen s ns).1.length = ns.length := by
  induction ns generalizing s with
  | nil => rfl
  | cons n ns ih => rw [stepGen_cons]; simp [ih]

theorem bodySt_state {σ : Type} (gen : RowGen σ) (s : σ) (l : List (Option (List RCell) × Nat)) :
    (htmlBodySt gen s l).2 = (stepGen gen s (bodyArgs l)).2 := by
  induction l generalizing s with
  | nil => rfl
  | cons p l ih =>
    obtain ⟨r, i⟩ := p
    cases r with
    | none => rw [bodyArgs_none]; exact ih s
    | some cells =>
      rw [bodyArgs_some, stepGen_cons]
      exact ih _

theorem bytesSt_state {σ : Type} (cfg : HtmlCfg) (gen : RowGen σ) (s₀ : σ) (v : RTable) :
    (htmlBytesSt cfg gen s₀ v).2 = (stepGen gen s₀ (rowClassArgs v)).2 := by
  rw [rowClassArgs_eq, stepGen_cons]
  exact bodySt_state gen _ _

/-- the logging generator: same values, same inner state, and the log grows by the arguments -/
theorem stepGen_log {σ : Type} (gen : RowGen σ) (s : σ) (log : List Nat) (ns : List Nat) :
    stepGen (logGen gen) (s, log) ns =
      ((stepGen gen s ns).1, ((stepGen gen s ns).2, log ++ ns)) := by
  induction ns generalizing s log with
  | nil => simp [stepGen]
  | cons n ns ih =>
    rw [stepGen_cons, stepGen_cons]
    simp only [logGen]
    rw [ih]
    simp

/-! ### output -/

theorem trSt_eq {σ : Type} (cfg : HtmlCfg) (gen : RowGen σ) (F : Nat → Bytes) (s : σ) (n : Nat) (tag : String)
    (cells : List RCell) (hF : F n = (gen s n).1) :
    (htmlTrSt gen s n tag cells).1 = htmlTr { cfg with rowClass := some F } n tag cells := by
  unfold htmlTrSt htmlTr
  simp only [hF]

theorem trSt_state {σ : Type} (gen : RowGen σ) (s : σ) (n : Nat) (tag : String) (cells : List RCell) :
    (htmlTrSt gen s n tag cells).2 = (gen s n).2 := rfl

theorem bodySt_eq {σ : Type} (cfg : HtmlCfg) (gen : RowGen σ) (F : Nat → Bytes)
    (G : Option (List RCell) × Nat → Bytes) (hG0 : ∀ i, G (none, i) = [])
    (hG1 : ∀ cells i, G (some cells, i) = htmlTr { cfg with rowClass := some F } (i + 1) "td" cells)
    (l : List (Option (List RCell) × Nat)) (s : σ)
    (hF : ∀ (k n : Nat), (bodyArgs l)[k]? = some n → (stepGen gen s (bodyArgs l)).1[k]? = some (F n)) :
    (htmlBodySt gen s l).1 = l.flatMap G := by
  induction l generalizing s with
  | nil => rfl
  | cons p l ih =>
    obtain ⟨r, i⟩ := p
    cases r with
    | none =>
      rw [bodyArgs_none] at hF
      rw [List.flatMap_cons, hG0, List.nil_append]
      exact ih s hF
    | some cells =>
      rw [bodyArgs_some] at hF
      have h0 := hF 0 (i + 1) rfl
      rw [stepGen_cons] at h0
      simp only [List.getElem?_cons_zero, Option.some.injEq] at h0
      rw [List.flatMap_cons, hG1]
      show (htmlTrSt gen s (i + 1) "td" cells).1 ++ (htmlBodySt gen (htmlTrSt gen s (i + 1) "td" cells).2 l).1 = _
      rw [trSt_eq cfg gen F s (i + 1) "td" cells h0.symm, trSt_state]
      congr 1
      apply ih
      intro k n hk
      have := hF (k + 1) n (by simpa using hk)
      rw [stepGen_cons] at this
      simpa using this

/-! ### the arguments are distinct -/

theorem bodyArgs_gt (l : List (Option (List RCell))) (k : Nat) : ∀ n ∈ bodyArgs (l.zipIdx k), k < n := by
  induction l generalizing k with
  | nil => intro n hn; cases hn
  | cons r l ih =>
    intro n hn
    rw [List.zipIdx_cons] at hn
    cases r with
    | none => rw [bodyArgs_none] at hn; have := ih (k + 1) n hn; omega
    | some cells =>
      rw [bodyArgs_some] at hn
      rcases List.mem_cons.mp hn with rfl | hn
      · omega
      · have := ih (k + 1) n hn; omega

theorem bodyArgs_nodup (l : List (Option (List RCell))) (k : Nat) : (bodyArgs (l.zipIdx k)).Nodup := by
  induction l generalizing k with
  | nil => exact List.nodup_nil
  | cons r l ih =>
    rw [List.zipIdx_cons]
    cases r with
    | none => rw [bodyArgs_none]; exact ih (k + 1)
    | some cells =>
      rw [bodyArgs_some, List.nodup_cons]
      refine ⟨fun hm => ?_, ih (k + 1)⟩
      have := bodyArgs_gt l (k + 1) _ hm
      omega

theorem rowClassArgs_nodup (v : RTable) : (rowClassArgs v).Nodup := by
  rw [rowClassArgs_eq, List.nodup_cons]
  refine ⟨fun hm => ?_, bodyArgs_nodup v.rows 0⟩
  have := bodyArgs_gt v.rows 0 _ hm
  omega

theorem lookup_zip_nodup (args : List Nat) (outs : List Bytes) (hnd : args.Nodup)
    (k n : Nat) (hk : args[k]? = some n) : (args.zip outs).lookup n = outs[k]? := by
  induction args generalizing outs k with
  | nil => cases hk
  | cons a args ih =>
    rw [List.nodup_cons] at hnd
    cases outs with
    | nil => simp
    | cons o outs =>
      cases k with
      | zero =>
        simp only [List.getElem?_cons_zero, Option.some.injEq] at hk
        subst hk
        simp
      | succ k =>
        simp only [List.getElem?_cons_succ] at hk
        have hne : n ≠ a := by
          intro e; subst e
          exact hnd.1 (List.mem_of_getElem? hk)
        have hb : (n == a) = false := by simp [hne]
        simp only [List.zip_cons_cons, List.lookup, hb, List.getElem?_cons_succ]
        exact ih outs hnd.2 k hk

theorem genFun_spec (args : List Nat) (outs : List Bytes) (hnd : args.Nodup) (hlen : outs.length = args.length)
    (k n : Nat) (hk : args[k]? = some n) : outs[k]? = some (genFun args outs n) := by
  unfold genFun
  rw [lookup_zip_nodup args outs hnd k n hk]
  have hklt : k < outs.length := by
    rw [hlen]; exact (List.getElem?_eq_some_iff.mp hk).1
  rw [List.getElem?_eq_getElem hklt]
  rfl

theorem map_genFun (args : List Nat) (outs : List Bytes) (hnd : args.Nodup) (hlen : outs.length = args.length) :
    args.map (genFun args outs) = outs := by
  apply List.ext_getElem?
  intro k
  rw [List.getElem?_map]
  cases hk : args[k]? with
  | none =>
    have : outs.length ≤ k := by rw [hlen]; exact List.getElem?_eq_none_iff.mp hk
    rw [List.getElem?_eq_none this]; rfl
  | some n => rw [genFun_spec args outs hnd hlen k n hk]; rfl

/-- the document with a stateful generator is the pure model's document for the function that maps
    each row number to the value the generator returned when stepped along `rowClassArgs v` -/
theorem bytesSt_eq {σ : Type} (cfg : HtmlCfg) (gen : RowGen σ) (s₀ : σ) (v : RTable) :
    (htmlBytesSt cfg gen s₀ v).1 =
      htmlBytes { cfg with rowClass := some (genFun (rowClassArgs v) (stepGen gen s₀ (rowClassArgs v)).1) } v := by
  have hspec := genFun_spec (rowClassArgs v) (stepGen gen s₀ (rowClassArgs v)).1 (rowClassArgs_nodup v)
    (stepGen_length gen s₀ _)
  generalize genFun (rowClassArgs v) (stepGen gen s₀ (rowClassArgs v)).1 = F at hspec ⊢
  rw [rowClassArgs_eq, stepGen_cons] at hspec
  have h0 : F 0 = (gen s₀ 0).1 := by
    have := hspec 0 0 rfl
    simpa using this.symm
  have hbody := bodySt_eq cfg gen F
    (fun (r, i) => match r with
      | none => []
      | some cells => htmlTr { cfg with rowClass := some F } (i + 1) "td" cells)
    (fun _ => rfl) (fun _ _ => rfl) v.rows.zipIdx (gen s₀ 0).2
    (fun k n hk => by
      have := hspec (k + 1) n (by simpa using hk)
      simpa using this)
  unfold htmlBytesSt htmlBytes
  simp only [trSt_state]
  rw [trSt_eq cfg gen F s₀ 0 "th" _ h0, hbody]
  congr 3

/-- a generator that ignores its state is the pure one -/
theorem bytesSt_pure {σ : Type} (cfg : HtmlCfg) (f : Nat → Bytes) (gen : RowGen σ)
    (hgen : ∀ s n, gen s n = (f n, s)) (s₀ : σ) (v : RTable) :
    htmlBytesSt cfg gen s₀ v = (htmlBytes { cfg with rowClass := some f } v, s₀) := by
  have hstep : ∀ (ns : List Nat) (s : σ), stepGen gen s ns = (ns.map f, s) := by
    intro ns
    induction ns with
    | nil => intro s; rfl
    | cons n ns ih => intro s; rw [stepGen_cons, hgen]; simp [ih]
  apply Prod.ext
  · rw [bytesSt_eq, hstep]
    apply c06_rowclass_calls
    intro n hn
    obtain ⟨k, hk, hget⟩ := List.getElem_of_mem hn
    have hk' : (rowClassArgs v)[k]? = some n := by rw [List.getElem?_eq_getElem hk, hget]
    have := genFun_spec (rowClassArgs v) ((rowClassArgs v).map f) (rowClassArgs_nodup v) (by simp) k n hk'
    simp only [List.getElem?_map, hk', Option.map_some, Option.some.injEq] at this
    exact this.symm
  · rw [bytesSt_state, hstep]

end C06e
end Tab
