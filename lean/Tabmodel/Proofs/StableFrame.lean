/-
  Frame lemmas for C10 / C14: property chains as maps, what `erase` keeps, what one callback
  invocation changes.
-/
import Tabmodel.Proofs.StableDefs
namespace Tab

/-! ### chains -/
namespace Chain

theorem get_strip_ne (c : Chain) {k k' : Key} (h : k ≠ k') : (c.strip k).get k' = c.get k' := by
  induction c with
  | nil => rfl
  | cons kv rest ih =>
    obtain ⟨k0, v0⟩ := kv
    unfold strip
    by_cases h0 : k0 = k
    · subst h0
      simp only [if_true]
      simp [get, h]
    · simp only [h0, if_false]
      simp only [get]
      rw [ih]

theorem get_set_some (c : Chain) (k : Key) (v : Val) (k' : Key) :
    (c.set k (some v)).get k' = if k = k' then some v else c.get k' := by
  unfold set
  by_cases h : k = k'
  · subst h; simp [get]
  · simp only [get, h, if_false]
    exact get_strip_ne c h

theorem user_strip_priv (c : Chain) {k : Key} (hk : k.isPriv = true) : (c.strip k).user = c.user := by
  induction c with
  | nil => rfl
  | cons kv rest ih =>
    obtain ⟨k0, v0⟩ := kv
    unfold strip
    by_cases h0 : k0 = k
    · subst h0
      simp [user, hk]
    · simp only [h0, if_false]
      unfold user at ih ⊢
      simp only [List.filter_cons]
      rw [ih]

theorem user_set_priv (c : Chain) {k : Key} (hk : k.isPriv = true) (v : Val) :
    (c.set k (some v)).user = c.user := by
  unfold set
  show Chain.user ((k, v) :: c.strip k) = c.user
  have : Chain.user ((k, v) :: c.strip k) = (c.strip k).user := by
    simp [user, hk]
  rw [this, user_strip_priv c hk]

theorem get_user (c : Chain) {k : Key} (hk : k.isPriv = false) : c.user.get k = c.get k := by
  induction c with
  | nil => rfl
  | cons kv rest ih =>
    obtain ⟨k0, v0⟩ := kv
    unfold user at ih ⊢
    simp only [List.filter_cons]
    by_cases h0 : k0 = k
    · subst h0
      simp [hk, get]
    · cases hp : k0.isPriv
      · simp [get, h0, ih]
      · simp [get, h0, ih]

theorem user_user (c : Chain) : c.user.user = c.user := by
  unfold user; rw [List.filter_filter]; simp

end Chain

theorem userGet_user (c : Chain) : World.userGet c.user = World.userGet c := by
  funext k
  unfold World.userGet
  cases hk : k.isPriv
  · simp [Chain.get_user c hk]
  · simp

/-! ### lists -/

theorem map_modify_of_eq {α β : Type} (h : α → β) (g : α → α) (hg : ∀ a, h (g a) = h a) (l : List α) (i : Nat) :
    (l.modify i g).map h = l.map h := by
  apply List.ext_getElem?
  intro j
  simp only [List.getElem?_map, List.getElem?_modify]
  cases l[j]? with
  | none => rfl
  | some a =>
    simp only [Option.map_some]
    by_cases hij : i = j
    · simp [hij, hg]
    · simp [hij]

theorem getD_map_default_eq {α β : Type} (f : α → β) (l : List α) (i : Nat) (d : α) (d' : β) (hd : f d = d') :
    (l.map f).getD i d' = f (l.getD i d) := by
  simp only [List.getD_eq_getElem?_getD, List.getElem?_map]
  cases l[i]? with
  | none => simp [hd]
  | some a => simp

/-! ### reading through `erase` -/

@[simp] theorem Cell.erase_item (c : Cell) : c.erase.item = c.item := rfl
@[simp] theorem Cell.erase_str (c : Cell) : c.erase.str = c.str := rfl
@[simp] theorem Cell.erase_width (c : Cell) : c.erase.width = c.width := rfl
@[simp] theorem Cell.erase_height (c : Cell) : c.erase.height = c.height := rfl
@[simp] theorem Cell.erase_empty (c : Cell) : c.erase.empty = c.empty := rfl
@[simp] theorem Cell.erase_cbs (c : Cell) : c.erase.cbs = c.cbs := rfl
@[simp] theorem Cell.erase_columnNum (c : Cell) : c.erase.columnNum = c.columnNum := rfl
@[simp] theorem Cell.erase_inRow (c : Cell) : c.erase.inRow = c.inRow := rfl

theorem Row.erase_default : Row.erase {} = {} := rfl

namespace World

@[simp] theorem erase_table (w : World) (t : Nat) : w.erase.table t = w.table t := rfl
@[simp] theorem erase_item (w : World) (i : Nat) : w.erase.item i = w.item i := rfl
@[simp] theorem erase_column? (w : World) (t n : Nat) : w.erase.column? t n = w.column? t n := rfl

theorem erase_row (w : World) (r : Nat) : w.erase.row r = (w.row r).erase := by
  unfold row erase
  exact getD_map_default_eq Row.erase w.rows r {} {} Row.erase_default

theorem erase_rowCells (w : World) (r : Nat) : w.erase.rowCells r = (w.rowCells r).map Cell.erase := by
  unfold rowCells
  rw [erase_row]
  unfold Row.erase
  cases (w.row r).cells <;> rfl

theorem erase_cell? (w : World) (r c : Nat) : w.erase.cell? r c = (w.cell? r c).map Cell.erase := by
  unfold cell?
  rw [erase_rowCells, List.getElem?_map]

/-- transfer of any reader that factors through `erase` -/
theorem of_erase_eq {α : Sort _} (f : World → α) (hf : ∀ w, f w.erase = f w) {w w0 : World}
    (h : w.erase = w0.erase) : f w = f w0 := by
  rw [← hf w, h, hf]

theorem rd_table (t : Nat) (w : World) : w.erase.table t = w.table t := rfl
theorem rd_rowSelf (r : Nat) (w : World) : (w.erase.row r).selfCbs = (w.row r).selfCbs := by rw [erase_row]; rfl
theorem rd_rowCell (r : Nat) (w : World) : (w.erase.row r).cellCbs = (w.row r).cellCbs := by rw [erase_row]; rfl
theorem rd_rowEc (r : Nat) (w : World) : (w.erase.row r).ec = (w.row r).ec := by rw [erase_row]; rfl
theorem rd_rowInTable (r : Nat) (w : World) : (w.erase.row r).inTable = (w.row r).inTable := by rw [erase_row]; rfl
theorem rd_rowCellsLen (r : Nat) (w : World) : (w.erase.rowCells r).length = (w.rowCells r).length := by
  rw [erase_rowCells, List.length_map]
theorem rd_cellCbs (r c : Nat) (w : World) :
    (w.erase.cell? r c).map (·.cbs) = (w.cell? r c).map (·.cbs) := by
  rw [erase_cell?]; cases w.cell? r c <;> rfl
theorem rd_rowECTaker (r : Nat) (w : World) : w.erase.rowECTaker r = w.rowECTaker r := by
  unfold rowECTaker; rw [rd_rowEc]

theorem rd_columnOf (r c : Nat) (w : World) : w.erase.columnOf r c = w.columnOf r c := by
  unfold columnOf
  rw [erase_cell?]
  cases w.cell? r c with
  | none => rfl
  | some ce =>
    simp only [Option.map_some, Cell.erase_columnNum, Cell.erase_inRow, rd_rowInTable, erase_table]
    rfl

theorem rd_colCellCbs (tc : Option (Nat × Nat)) (tm : Time) (w : World) :
    w.erase.colCellCbs tc tm = w.colCellCbs tc tm := rfl

end World
end Tab
