/-
  Lemmas about the shape projection (`Spec/World.lean`): callbacks and every other
  non-building operation leave the shape alone (`shape_invoke`, …), and each building
  operation of the model acts on the shape as the abstract machine does
  (`shape_addRow : (addRow dw w t r).shape = w.shape.addRow t r`, …).
-/
import Tabmodel.Spec.World
namespace Tab

/-! ### list helpers -/

theorem map_modify_comm {α β} (f : α → β) (g : α → α) (g' : β → β) (h : ∀ a, f (g a) = g' (f a))
    (l : List α) (i : Nat) : (l.modify i g).map f = (l.map f).modify i g' := by
  apply List.ext_getElem?
  intro j
  simp only [List.getElem?_map, List.getElem?_modify]
  cases l[j]? with
  | none => rfl
  | some a =>
    by_cases hij : i = j
    · simp [hij, h]
    · simp [hij]

theorem map_modify_inv {α β} (f : α → β) (g : α → α) (h : ∀ a, f (g a) = f a)
    (l : List α) (i : Nat) : (l.modify i g).map f = l.map f := by
  apply List.ext_getElem?
  intro j
  simp only [List.getElem?_map, List.getElem?_modify]
  cases l[j]? with
  | none => rfl
  | some a =>
    by_cases hij : i = j
    · simp [hij, h]
    · simp [hij]

theorem getD_map_default {α β} (f : α → β) (l : List α) (i : Nat) (d : α) :
    (l.map f).getD i (f d) = f (l.getD i d) := by
  simp only [List.getD_eq_getElem?_getD, List.getElem?_map, Option.getD_map]

/-! ### reading the shape -/
namespace World

@[simp] theorem shape_tables_length (w : World) : w.shape.tables.length = w.tables.length := by
  simp [shape]
@[simp] theorem shape_rows_length (w : World) : w.shape.rows.length = w.rows.length := by
  simp [shape]

theorem shape_table (w : World) (t : Nat) : w.shape.table t = (w.table t).shape := by
  unfold Shape.table table shape
  exact getD_map_default Table.shape w.tables t {}

theorem shape_row (w : World) (r : Nat) : w.shape.row r = (w.row r).shape := by
  unfold Shape.row row shape
  exact getD_map_default Row.shape w.rows r {}

theorem shape_width (w : World) (r : Nat) : w.shape.width r = (w.rowCells r).length := by
  unfold Shape.width rowCells
  rw [shape_row]
  unfold Row.shape
  cases (w.row r).cells <;> simp

theorem shape_modTable (w : World) (t : Nat) (f : Table → Table) (g : TableShape → TableShape)
    (h : ∀ tb, (f tb).shape = g tb.shape) : (w.modTable t f).shape = w.shape.modTable t g := by
  unfold modTable Shape.modTable shape
  simp only [map_modify_comm Table.shape f g h]

theorem shape_modTable_id (w : World) (t : Nat) (f : Table → Table)
    (h : ∀ tb, (f tb).shape = tb.shape) : (w.modTable t f).shape = w.shape := by
  unfold modTable shape
  simp only [map_modify_inv Table.shape f h]

theorem shape_modRow (w : World) (r : Nat) (f : Row → Row) (g : RowShape → RowShape)
    (h : ∀ rw, (f rw).shape = g rw.shape) : (w.modRow r f).shape = w.shape.modRow r g := by
  unfold modRow Shape.modRow shape
  simp only [map_modify_comm Row.shape f g h]

theorem shape_modRow_id (w : World) (r : Nat) (f : Row → Row)
    (h : ∀ rw, (f rw).shape = rw.shape) : (w.modRow r f).shape = w.shape := by
  unfold modRow shape
  simp only [map_modify_inv Row.shape f h]

theorem shape_modCell_id (w : World) (r c : Nat) (f : Cell → Cell)
    (h : ∀ ce, (f ce).geo = ce.geo) : (w.modCell r c f).shape = w.shape := by
  unfold modCell
  apply shape_modRow_id
  intro rw
  unfold Row.shape
  cases rw.cells with
  | none => rfl
  | some cs => simp [map_modify_inv Cell.geo f h]

theorem shape_modColumn_id (w : World) (t n : Nat) (f : Column → Column) :
    (w.modColumn t n f).shape = w.shape := by
  unfold modColumn
  apply shape_modTable_id
  intro tb
  simp [Table.shape]

theorem shape_events (w : World) (ev : List Event) : ({ w with events := ev } : World).shape = w.shape := rfl
theorem shape_copies (w : World) (cp : List Cell) : ({ w with copies := cp } : World).shape = w.shape := rfl
theorem shape_items (w : World) (its : List Item) : ({ w with items := its } : World).shape = w.shape := rfl

/-! ### callbacks never change the shape -/

theorem shape_addErrTo (w : World) (tk : Taker) (e : Nat) : (w.addErrTo tk e).shape = w.shape := by
  unfold addErrTo
  split
  · rfl
  · exact shape_modTable_id _ _ _ (fun _ => rfl)
  · apply shape_modRow_id; intro rw; split <;> rfl
  · split
    · exact shape_modRow_id _ _ _ (fun _ => rfl)
    · exact shape_modRow_id _ _ _ (fun _ => rfl)
    · exact shape_modTable_id _ _ _ (fun _ => rfl)

theorem shape_setProp (w : World) (o : Target) (k : Key) (v : Option Val) :
    (w.setProp o k v).shape = w.shape := by
  unfold setProp
  split
  · exact shape_modTable_id _ _ _ (fun _ => rfl)
  · exact shape_modColumn_id _ _ _ _
  · exact shape_modRow_id _ _ _ (fun _ => rfl)
  · exact shape_modCell_id _ _ _ _ (fun _ => rfl)
  · rfl

theorem shape_invokeOne (dw : Measure) (w : World) (cb : Cb) (tgt : Target) (tk : Taker) :
    (invokeOne dw w cb tgt tk).shape = w.shape := by
  unfold invokeOne
  split
  · rfl
  · rw [shape_setProp]; rfl
  · rw [shape_addErrTo]; rfl
  · split
    · split
      · simp only [shape_setProp]
      · rfl
    · exact shape_addErrTo _ _ _
  · split
    · split
      · simp only [shape_setProp]
      · rfl
    · exact shape_addErrTo _ _ _

theorem shape_invoke (dw : Measure) (w : World) (cbs : List Cb) (tgt : Target) (tk : Taker) :
    (invoke dw w cbs tgt tk).shape = w.shape := by
  unfold invoke
  induction cbs generalizing w with
  | nil => rfl
  | cons cb cbs ih => simp only [List.foldl_cons]; rw [ih, shape_invokeOne]

theorem shape_addTimeCells (dw : Measure) (t r : Nat) (colTaker : World → Taker) (n i : Nat) (w : World) :
    (addTimeCells dw t r colTaker n i w).shape = w.shape := by
  induction n generalizing i w with
  | zero => rfl
  | succ n ih => simp only [addTimeCells]; rw [ih, shape_invoke, shape_invoke]

theorem shape_renderCells (dw : Measure) (t r : Nat) (n i : Nat) (w : World) :
    (renderCells dw t r n i w).shape = w.shape := by
  induction n generalizing i w with
  | zero => rfl
  | succ n ih => simp only [renderCells]; rw [ih]; simp only [shape_invoke]

theorem shape_renderRow (dw : Measure) (t : Nat) (w : World) (r : Nat) :
    (renderRow dw t w r).shape = w.shape := by
  unfold renderRow
  simp only [shape_invoke, shape_renderCells]

theorem shape_renderColumns (dw : Measure) (t : Nat) (tm : Time) (n i : Nat) (w : World) :
    (renderColumns dw t tm n i w).shape = w.shape := by
  induction n generalizing i w with
  | zero => rfl
  | succ n ih => simp only [renderColumns]; rw [ih, shape_invoke]

theorem shape_foldl_renderRow (dw : Measure) (t : Nat) (rs : List Nat) (w : World) :
    (rs.foldl (renderRow dw t) w).shape = w.shape := by
  induction rs generalizing w with
  | nil => rfl
  | cons r rs ih => simp only [List.foldl_cons]; rw [ih, shape_renderRow]

theorem shape_invokeRenderCallbacks (dw : Measure) (w : World) (t : Nat) :
    (invokeRenderCallbacks dw w t).shape = w.shape := by
  unfold invokeRenderCallbacks
  simp only [shape_invoke, shape_renderColumns, shape_foldl_renderRow]
  split
  · simp only [shape_renderRow, shape_renderColumns, shape_invoke]
  · simp only [shape_renderColumns, shape_invoke]

theorem shape_registerCb (w w' : World) (owner : Target) (tm : Time) (tg : CbTarget) (cb : Cb)
    (h : w.registerCb owner tm tg cb = some w') : w'.shape = w.shape := by
  unfold registerCb at h
  split at h <;> cases h <;> first
    | exact shape_modTable_id _ _ _ (fun _ => rfl)
    | exact shape_modColumn_id _ _ _ _
    | exact shape_modRow_id _ _ _ (fun _ => rfl)
    | exact shape_modCell_id _ _ _ _ (fun _ => rfl)
    | rfl

theorem geo_update (dw : Measure) (it : Item) (c : Cell) : (c.update dw it).geo = c.geo := by
  unfold Cell.update
  split <;> rfl

/-! ### the building operations refine the abstract machine -/

theorem shape_resize (tb : Table) (n : Nat) :
    (resizeColumnsAtLeast tb n).shape = Shape.resize tb.shape n := by
  unfold resizeColumnsAtLeast Shape.resize
  by_cases h : n ≤ tb.nColumns
  · simp [h, Table.shape]
  · simp [h, Table.shape]

theorem shape_newTable (w : World) : w.newTable.1.shape = w.shape.newTable := by
  simp [newTable, Shape.newTable, shape, Table.shape]

theorem shape_newRow (w : World) (rw : Row) : (w.newRow rw).1.shape = w.shape.newRow rw.shape := by
  simp [newRow, Shape.newRow, shape]

theorem newRow_id (w : World) (rw : Row) : (w.newRow rw).2 = w.rows.length := rfl
theorem newTable_id (w : World) : w.newTable.2 = w.tables.length := rfl


theorem shape_rowAddCell (dw : Measure) (w : World) (r : Nat) (ce : Cell) :
    (rowAddCell dw w r ce).shape = w.shape.rowAdd r := by
  unfold rowAddCell Shape.rowAdd
  rw [shape_row]
  cases hc : (w.row r).cells with
  | none => simp [Row.shape, hc, shape_addErrTo]
  | some cs =>
    simp only [Row.shape, hc, Option.map_some, List.length_map]
    rw [shape_invoke]
    have h1 : (w.modRow r (fun rw => { rw with cells := some (cs ++ [{ ce with inRow := some r, columnNum := cs.length + 1 }]) })).shape
        = w.shape.modRow r (fun rw => { rw with cells := some (cs.map Cell.geo ++ [(cs.length + 1, some r)]) }) :=
      shape_modRow _ _ _ _ (by intro rw; simp [Row.shape, Cell.geo])
    generalize w.modRow r _ = w1 at h1 ⊢
    rw [← h1, shape_row]
    simp only [Row.shape]
    cases (w1.row r).inTable with
    | none => rfl
    | some t => exact shape_modTable _ _ _ _ (fun tb => shape_resize tb _)

theorem shape_rowAdd (dw : Measure) (w : World) (r i : Nat) :
    (rowAdd dw w r i).shape = w.shape.rowAdd r := shape_rowAddCell dw w r _



theorem shape_setEc (w : World) (r : Nat) (e : ECRef) :
    (w.modRow r (fun rw => { rw with ec := e })).shape = w.shape :=
  shape_modRow_id _ _ _ (fun _ => rfl)

theorem shape_addErrs (w : World) (t : Nat) (es : List Nat) :
    (w.modTable t (fun tb => { tb with errs := tb.errs ++ es })).shape = w.shape :=
  shape_modTable_id _ _ _ (fun _ => rfl)

theorem shape_addRow (dw : Measure) (w : World) (t r : Nat) :
    (addRow dw w t r).shape = w.shape.addRow t r := by
  unfold addRow Shape.addRow
  simp only [shape_addTimeCells, shape_invoke]
  rw [shape_setEc, shape_addErrs]
  have h1 : (w.modTable t (fun tb => { tb with rows := tb.rows ++ [r] })).shape
      = w.shape.modTable t (fun tb => { tb with rows := tb.rows ++ [r] }) :=
    shape_modTable _ _ _ _ (fun _ => rfl)
  generalize w.modTable t _ = w1 at h1 ⊢
  rw [← h1, shape_table]
  have h2 : (w1.modRow r (fun rw => { rw with inTable := some t, rowNum := (w1.table t).rows.length })).shape
      = w1.shape.modRow r (fun rw => { rw with inTable := some t, rowNum := (w1.table t).rows.length }) :=
    shape_modRow _ _ _ _ (fun _ => rfl)
  simp only [Table.shape]
  generalize w1.modRow r _ = w2 at h2 ⊢
  rw [← h2, shape_width]
  exact shape_modTable _ _ _ _ (fun tb => shape_resize tb _)


theorem shape_rowAddMany (dw : Measure) (r : Nat) (is : List Nat) (w : World) :
    (rowAddMany dw r is w).shape = Shape.rowAddN r is.length w.shape := by
  induction is generalizing w with
  | nil => rfl
  | cons i is ih => simp only [rowAddMany, List.length_cons, Shape.rowAddN]; rw [ih, shape_rowAdd]

theorem shape_addSeparator (w : World) (t : Nat) :
    (addSeparator w t).shape = w.shape.addSeparator t := by
  unfold addSeparator Shape.addSeparator
  simp only [newRow_id]
  have h0 := shape_newRow w { cells := none, isSep := true }
  generalize (w.newRow { cells := none, isSep := true }).1 = w0 at h0 ⊢
  have e0 : ({ cells := none, isSep := true } : Row).shape = { cells := none, isSep := true } := rfl
  rw [e0] at h0
  rw [← h0, shape_rows_length]
  have h1 : (w0.modTable t (fun tb => { tb with rows := tb.rows ++ [w.rows.length] })).shape
      = w0.shape.modTable t (fun tb => { tb with rows := tb.rows ++ [w.rows.length] }) :=
    shape_modTable _ _ _ _ (fun _ => rfl)
  generalize w0.modTable t _ = w1 at h1 ⊢
  rw [← h1, shape_table]
  exact shape_modRow _ _ _ _ (fun _ => rfl)

theorem shape_addHeaders (dw : Measure) (w : World) (t : Nat) (items : List Nat) :
    (addHeaders dw w t items).shape = w.shape.addHeaders t items.length := by
  unfold addHeaders Shape.addHeaders
  simp only [shape_addTimeCells, shape_invoke, newRow_id]
  have h0 : (w.modTable t (fun tb => resizeColumnsAtLeast tb items.length)).shape
      = w.shape.modTable t (fun tb => Shape.resize tb items.length) :=
    shape_modTable _ _ _ _ (fun tb => shape_resize tb _)
  generalize w.modTable t _ = w0 at h0 ⊢
  rw [← h0, shape_rows_length]
  have h1 := shape_newRow w0 { ec := .table t }
  have e0 : ({ ec := .table t } : Row).shape = {} := rfl
  rw [e0] at h1
  generalize (w0.newRow { ec := .table t }).1 = w1 at h1 ⊢
  rw [← h1, ← shape_rowAddMany dw]
  exact shape_modTable _ _ _ _ (fun _ => rfl)

theorem shape_addRowItems (dw : Measure) (w : World) (t : Nat) (items : List Nat) :
    (addRowItems dw w t items).1.shape = w.shape.addRowItems t items.length := by
  unfold addRowItems Shape.addRowItems
  simp only [newRow_id]
  rw [shape_addRow, shape_rowAddMany, shape_newRow, shape_rows_length]
  rfl

theorem addRowItems_id (dw : Measure) (w : World) (t : Nat) (items : List Nat) :
    (addRowItems dw w t items).2 = w.rows.length := rfl

theorem shape_appendNewRow (dw : Measure) (w : World) (t : Nat) :
    (appendNewRow dw w t).1.shape = w.shape.appendNewRow t := by
  unfold appendNewRow Shape.appendNewRow
  simp only [newRow_id]
  rw [shape_addRow, shape_newRow, shape_rows_length]
  rfl

theorem appendNewRow_id (dw : Measure) (w : World) (t : Nat) :
    (appendNewRow dw w t).2 = w.rows.length := rfl


end World
end Tab
