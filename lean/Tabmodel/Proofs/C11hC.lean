/- C11, history level — the counter of every traversal is the mass gained, container by container. -/
import Tabmodel.Proofs.C11hB
namespace Tab
namespace World

/-- State of a counting traversal that was started in world `w0` with counter `k` and sends all
    its errors to `g0`: only lists have grown; the total mass and the count held for `g0` have
    grown by the counter's increase, every other count is what it was. -/
structure Good (w0 : World) (e k : Nat) (g0 : Src) (c : Cnt) : Prop where
  st : Stable w0 c.1
  le : k ≤ c.2
  ms : mass c.1 e = mass w0 e + (c.2 - k)
  ct : ∀ g, cnt c.1 e g = cnt w0 e g + if g = g0 then c.2 - k else 0

theorem Good.start (w0 : World) (e k : Nat) (g0 : Src) : Good w0 e k g0 (w0, k) :=
  ⟨Stable.refl w0, Nat.le_refl k, by simp, by intro g; simp⟩

/-- a step that changes neither lists nor counter -/
theorem Good.of_same {w0 : World} {e k : Nat} {g0 : Src} {c : Cnt} (h : Good w0 e k g0 c)
    (w' : World) (hs : Stable c.1 w') (hm : mass w' e = mass c.1 e)
    (hc : ∀ g, cnt w' e g = cnt c.1 e g) : Good w0 e k g0 (w', c.2) :=
  ⟨h.st.trans hs, h.le, by rw [hm]; exact h.ms, by intro g; rw [hc]; exact h.ct g⟩

theorem invokeK_good {w0 : World} {e k : Nat} {g0 : Src} {c : Cnt} (dw : Measure)
    (h : Good w0 e k g0 c) (cbs : World → List Cb) (tgt : Target) (tk : World → Taker)
    (htk : resolve w0 (tk c.1) = some g0) : Good w0 e k g0 (invokeK dw e c cbs tgt tk) := by
  have hr := resolve_stable h.st htk
  have hl := live_of_resolve hr
  refine ⟨h.st.trans (invoke_stable dw c.1 _ tgt _), ?_, ?_, ?_⟩
  · simp only [invokeK_snd]; have := h.le; omega
  · simp only [invokeK_fst, invokeK_snd]
    rw [mass_invoke dw c.1 _ tgt _ e hl, h.ms]
    have := h.le; omega
  · intro g
    simp only [invokeK_fst, invokeK_snd]
    rw [cnt_invoke dw c.1 _ tgt _ e g g0 hr, h.ct g]
    have := h.le
    split <;> omega

/-! ### `Row.Add` -/

theorem cnt_rowAddCellPre (w : World) (r : Nat) (ce : Cell) (cs : List Cell) (e : Nat) (g : Src) :
    cnt (rowAddCellPre w r ce cs) e g = cnt w e g := by
  apply cnt_congr
  · intro t
    unfold rowAddCellPre
    simp only
    split
    · refine (table_modTable_proj _ _ _ (·.errs) (fun x => resize_errs x _) _).trans rfl
    · rfl
  · intro r'
    unfold rowAddCellPre
    simp only
    split
    · rw [row_modTable]
      refine row_modRow_proj _ _ _ (·.ec) ?_ _; intro _; rfl
    · refine row_modRow_proj _ _ _ (·.ec) ?_ _; intro _; rfl

theorem rowAddCellK_good {w0 : World} {e k : Nat} {g0 : Src} {c : Cnt} (dw : Measure)
    (h : Good w0 e k g0 c) (r : Nat) (ce : Cell) (htk : resolve w0 (.rowLazy r) = some g0) :
    Good w0 e k g0 (rowAddCellK dw e c r ce) := by
  unfold rowAddCellK
  cases hc : (c.1.row r).cells with
  | none =>
    simp only
    have hr := resolve_stable h.st htk
    have hl := live_of_resolve hr
    refine ⟨h.st.trans (addErrTo_stable c.1 (.rowLazy r) errNonCellRow), ?_, ?_, ?_⟩
    · have := h.le; simp only; omega
    · simp only
      rw [mass_addErrTo c.1 _ _ e hl, h.ms]
      have := h.le
      by_cases he : errNonCellRow = e
      · simp only [he, if_true]; omega
      · have : ¬ e = errNonCellRow := fun x => he x.symm
        simp only [he, this, if_false]; omega
    · intro g
      simp only
      rw [cnt_addErrTo, hr, h.ct g]
      have := h.le
      by_cases he : errNonCellRow = e
      · by_cases hg : g = g0
        · subst hg; simp only [he, if_true, and_self]; omega
        · have : ¬ g0 = g := fun x => hg x.symm
          simp only [he, hg, Option.some.injEq, this, false_and, if_false, if_true]
      · have h2 : ¬ e = errNonCellRow := fun x => he x.symm
        simp only [he, h2, and_false, if_false]
        split <;> omega
  | some cs =>
    simp only
    exact invokeK_good dw (h.of_same _ (rowAddCellPre_stable c.1 r ce cs)
      (rowAddCellPre_mass c.1 r ce cs e) (cnt_rowAddCellPre c.1 r ce cs e)) _ _ _ htk

theorem rowAddManyK_good {w0 : World} {e k : Nat} {g0 : Src} (dw : Measure) (r : Nat)
    (is : List Nat) (c : Cnt) (h : Good w0 e k g0 c) (htk : resolve w0 (.rowLazy r) = some g0) :
    Good w0 e k g0 (rowAddManyK dw e r is c) := by
  induction is generalizing c with
  | nil => exact h
  | cons i is ih => rw [rowAddManyK]; exact ih _ (rowAddCellK_good dw h r _ htk)

/-! ### add-time cell callbacks -/

theorem addTimeCellsK_good {w0 : World} {e k : Nat} {g0 : Src} (dw : Measure) (t r : Nat)
    (tkf : World → Taker) (n i : Nat) (c : Cnt) (h : Good w0 e k g0 c)
    (htk : ∀ w', Stable w0 w' → resolve w0 (tkf w') = some g0) :
    Good w0 e k g0 (addTimeCellsK dw e t r tkf n i c) := by
  induction n generalizing i c with
  | zero => exact h
  | succ n ih =>
    rw [addTimeCellsK]
    have h1 := invokeK_good dw h (fun w => colCellCbs w (columnOf w r i) .add) (.cell r i) tkf
      (htk _ h.st)
    have h2 := invokeK_good dw h1 (fun w => (w.table t).cellCbs.at .add) (.cell r i) tkf
      (htk _ h1.st)
    exact ih _ _ h2

theorem resolve_table {w : World} {t : Nat} (ht : t < w.tables.length) :
    resolve w (.table t) = some (.table t) := by simp [resolve, ht]

/-- the taker `rowECTaker · r` of a row sharing table `t`'s container -/
theorem resolve_rowEC {w0 : World} {t r : Nat} (ht : t < w0.tables.length)
    (hec : (w0.row r).ec = .table t) (w' : World) (hs : Stable w0 w') :
    resolve w0 (rowECTaker w' r) = some (.table t) := by
  have := (hs.ecT r t).mp hec
  simp only [rowECTaker, this]
  exact resolve_table ht

/-- the add-time callbacks of `addRow`, from the world `w0` that `addRowCore` produced -/
theorem addRowCbsK_good (dw : Measure) (e k : Nat) (w0 : World) (t r : Nat)
    (ht : t < w0.tables.length) (hec : (w0.row r).ec = .table t) :
    Good w0 e k (.table t)
      (addTimeCellsK dw e t r (fun w => rowECTaker w r)
        (((invokeK dw e (invokeK dw e (w0, k) (fun w => (w.row r).selfCbs.at .add) (.row r)
            (fun _ => .table t)) (fun w => (w.table t).rowCbs.at .add) (.row r)
            (fun _ => .table t)).1.rowCells r).length) 0
        (invokeK dw e (invokeK dw e (w0, k) (fun w => (w.row r).selfCbs.at .add) (.row r)
            (fun _ => .table t)) (fun w => (w.table t).rowCbs.at .add) (.row r)
            (fun _ => .table t))) := by
  have h0 := Good.start w0 e k (.table t)
  have h1 := invokeK_good dw h0 (fun w => (w.row r).selfCbs.at .add) (.row r) (fun _ => .table t)
    (resolve_table ht)
  have h2 := invokeK_good dw h1 (fun w => (w.table t).rowCbs.at .add) (.row r) (fun _ => .table t)
    (resolve_table ht)
  exact addTimeCellsK_good dw t r _ _ 0 _ h2 (resolve_rowEC ht hec)

/-! ### render -/

theorem foldK_good {w0 : World} {e k : Nat} {t r : Nat} (dw : Measure) (tgt : Target)
    (calls : List ((World → List Cb) × (World → Taker))) (c : Cnt)
    (ht : t < w0.tables.length) (hec : (w0.row r).ec = .table t)
    (hcalls : ∀ d ∈ calls, ∀ w, d.2 w = .table t ∨ d.2 w = rowECTaker w r)
    (h : Good w0 e k (.table t) c) :
    Good w0 e k (.table t) (calls.foldl (fun c d => invokeK dw e c d.1 tgt d.2) c) := by
  induction calls generalizing c with
  | nil => exact h
  | cons d ds ih =>
    simp only [List.foldl_cons]
    apply ih
    · intro d' hd'; exact hcalls d' (List.mem_cons_of_mem _ hd')
    · apply invokeK_good dw h
      rcases hcalls d (List.mem_cons_self ..) c.1 with h' | h'
      · rw [h']; exact resolve_table ht
      · rw [h']; exact resolve_rowEC ht hec c.1 h.st

theorem renderCellsK_good {w0 : World} {e k : Nat} {t r : Nat} (dw : Measure) (n i : Nat) (c : Cnt)
    (ht : t < w0.tables.length) (hec : (w0.row r).ec = .table t)
    (h : Good w0 e k (.table t) c) : Good w0 e k (.table t) (renderCellsK dw e t r n i c) := by
  induction n generalizing i c with
  | zero => exact h
  | succ n ih =>
    rw [renderCellsK]
    exact ih _ _ (foldK_good dw _ _ c ht hec (cellCalls_takers t r i _) h)

theorem renderRowK_good {w0 : World} {e k : Nat} {t : Nat} (dw : Measure) (c : Cnt) (r : Nat)
    (ht : t < w0.tables.length) (hec : (w0.row r).ec = .table t)
    (h : Good w0 e k (.table t) c) : Good w0 e k (.table t) (renderRowK dw e t c r) := by
  unfold renderRowK
  apply invokeK_good dw _ _ _ _ (resolve_table ht)
  apply renderCellsK_good dw _ _ _ ht hec
  exact invokeK_good dw h _ _ _ (resolve_table ht)

theorem renderColumnsK_good {w0 : World} {e k : Nat} {t : Nat} (dw : Measure) (tm : Time)
    (n i : Nat) (c : Cnt) (ht : t < w0.tables.length)
    (h : Good w0 e k (.table t) c) : Good w0 e k (.table t) (renderColumnsK dw e t tm n i c) := by
  induction n generalizing i c with
  | zero => exact h
  | succ n ih =>
    rw [renderColumnsK]
    exact ih _ _ (invokeK_good dw h _ _ _ (resolve_table ht))

theorem foldl_renderRowK_good {w0 : World} {e k : Nat} {t : Nat} (dw : Measure) (rs : List Nat)
    (c : Cnt) (ht : t < w0.tables.length) (hrs : ∀ r ∈ rs, (w0.row r).ec = .table t)
    (h : Good w0 e k (.table t) c) :
    Good w0 e k (.table t) (rs.foldl (renderRowK dw e t) c) := by
  induction rs generalizing c with
  | nil => exact h
  | cons r rs ih =>
    simp only [List.foldl_cons]
    apply ih
    · intro r' hr'; exact hrs r' (List.mem_cons_of_mem _ hr')
    · exact renderRowK_good dw c r ht (hrs r (List.mem_cons_self ..)) h

theorem renderK_good (dw : Measure) (e k : Nat) (w0 : World) (t : Nat) (ha : attachedAll w0 t) :
    Good w0 e k (.table t) (renderK dw e (w0, k) t) := by
  obtain ⟨ht, hrows, hhdr⟩ := ha
  unfold renderK
  have h0 := Good.start w0 e k (.table t)
  have h1 := invokeK_good dw h0 (fun w => (w.table t).selfCbs.at .pre) (.table t)
    (fun _ => .table t) (resolve_table ht)
  have h2 := renderColumnsK_good dw .pre
    ((invokeK dw e (w0, k) (fun w => (w.table t).selfCbs.at .pre) (.table t)
      (fun _ => .table t)).1.table t).columns.length 0 _ ht h1
  have h3 : Good w0 e k (.table t) (renderHeaderK dw e t (renderColumnsK dw e t .pre
      ((invokeK dw e (w0, k) (fun w => (w.table t).selfCbs.at .pre) (.table t)
        (fun _ => .table t)).1.table t).columns.length 0
      (invokeK dw e (w0, k) (fun w => (w.table t).selfCbs.at .pre) (.table t)
        (fun _ => .table t)))) := by
    unfold renderHeaderK
    split
    · next hr hh =>
      refine renderRowK_good dw _ hr ht ?_ h2
      rw [h2.st.thdr] at hh
      exact hhdr hr hh
    · exact h2
  apply invokeK_good dw _ _ _ _ (resolve_table ht)
  apply renderColumnsK_good dw _ _ _ _ ht
  refine foldl_renderRowK_good dw _ _ ht ?_ h3
  intro r hr
  rw [h3.st.trows] at hr
  exact hrows r hr

end World
end Tab
