/-
  E2Ecb helpers, part 1: the `core` normal form of a world — everything a callback of the model's
  callback language can NOT change: structure, texts, items, callback sets, and the KIND of each
  row's error container.  Forgotten: every property chain, every error list, the event log.

  * `core_invokeOne`: one invocation of ANY callback on ANY target keeps the core, provided the
    error taker is not the lazily allocating `*Row` taker (`Taker.eager`; a render pass never
    uses that one);
  * the readers the render traversal uses factor through `core` (`rd_*`).
-/
import Tabmodel.Proofs.StableFrame
import Tabmodel.Model.View
namespace Tab

def Cell.core (c : Cell) : Cell := { c with props := [] }

/-- the kind of a row's container pointer: nil, its own, the table's -/
def ECRef.kind : ECRef → ECRef
  | .none => .none
  | .own _ => .own []
  | .table t => .table t

def Row.core (r : Row) : Row :=
  { r with cells := r.cells.map (·.map Cell.core), props := [], ec := r.ec.kind }
def Column.core (c : Column) : Column := { c with props := [] }
def Table.core (t : Table) : Table :=
  { t with errs := [], props := [], columns := t.columns.map Column.core }

/-- what no callback can change -/
def World.core (w : World) : World :=
  { tables := w.tables.map Table.core, rows := w.rows.map Row.core, items := w.items,
    copies := w.copies.map Cell.core, events := [] }

/-- every taker but the `*Row` itself (whose `AddError` may allocate the row's container) -/
def Taker.eager : Taker → Bool
  | .rowLazy _ => false
  | _ => true

namespace E2Ecb
open World

/-! ### writers keep the core -/

theorem core_events (w : World) (es : List Event) : ({ w with events := es } : World).core = w.core := rfl

theorem core_modTable (w : World) (t : Nat) (f : Table → Table) (hf : ∀ tb, (f tb).core = tb.core) :
    (w.modTable t f).core = w.core := by
  unfold World.modTable World.core
  simp only
  congr 1
  exact map_modify_of_eq Table.core f hf w.tables t

theorem core_modRow (w : World) (r : Nat) (f : Row → Row) (hf : ∀ rw, (f rw).core = rw.core) :
    (w.modRow r f).core = w.core := by
  unfold World.modRow World.core
  simp only
  congr 1
  exact map_modify_of_eq Row.core f hf w.rows r

theorem core_modColumn (w : World) (t n : Nat) (f : Column → Column) (hf : ∀ c, (f c).core = c.core) :
    (w.modColumn t n f).core = w.core := by
  unfold World.modColumn
  apply core_modTable
  intro tb
  unfold Table.core
  simp only
  congr 1
  exact map_modify_of_eq Column.core f hf tb.columns n

theorem core_modCell (w : World) (r c : Nat) (f : Cell → Cell) (hf : ∀ ce, (f ce).core = ce.core) :
    (w.modCell r c f).core = w.core := by
  unfold World.modCell
  apply core_modRow
  intro rw
  unfold Row.core
  simp only
  congr 1
  cases rw.cells with
  | none => rfl
  | some cs =>
    simp only [Option.map_some]
    congr 1
    exact map_modify_of_eq Cell.core f hf cs c

theorem core_modCopy (w : World) (n : Nat) (f : Cell → Cell) (hf : ∀ ce, (f ce).core = ce.core) :
    ({ w with copies := w.copies.modify n f } : World).core = w.core := by
  unfold World.core
  simp only
  congr 1
  exact map_modify_of_eq Cell.core f hf w.copies n

theorem core_setProp (w : World) (o : Target) (k : Key) (v : Option Val) : (w.setProp o k v).core = w.core := by
  cases o with
  | table t => exact core_modTable w t _ (fun _ => rfl)
  | column t n => exact core_modColumn w t n _ (fun _ => rfl)
  | row r => exact core_modRow w r _ (fun _ => rfl)
  | cell r c => exact core_modCell w r c _ (fun _ => rfl)
  | copy n => exact core_modCopy w n _ (fun _ => rfl)

theorem core_addErrTo (w : World) (tk : Taker) (e : Nat) (h : tk.eager = true) :
    (w.addErrTo tk e).core = w.core := by
  cases tk with
  | drop => rfl
  | table t => exact core_modTable w t _ (fun _ => rfl)
  | rowOwn r =>
    apply core_modRow
    intro rw
    obtain ⟨cells, props, cc, sc, it, sep, rn, ec⟩ := rw
    cases ec <;> rfl
  | rowLazy r => cases h

theorem core_invokeOne (dw : Measure) (w : World) (cb : Cb) (tgt : Target) (tk : Taker) (h : tk.eager = true) :
    (invokeOne dw w cb tgt tk).core = w.core := by
  unfold invokeOne
  split
  · rfl
  · rw [core_setProp]; rfl
  · rw [core_addErrTo _ _ _ h]; rfl
  · split
    · split
      · simp only [core_setProp]
      · rfl
    · exact core_addErrTo _ _ _ h
  · split
    · split
      · simp only [core_setProp]
      · rfl
    · exact core_addErrTo _ _ _ h

/-! ### reading through the core -/

theorem Table.core_default : Table.core {} = {} := rfl
theorem Row.core_default : Row.core {} = {} := rfl

theorem core_table (w : World) (t : Nat) : w.core.table t = (w.table t).core := by
  unfold World.table World.core
  exact getD_map_default_eq Table.core w.tables t {} {} Table.core_default

theorem core_row (w : World) (r : Nat) : w.core.row r = (w.row r).core := by
  unfold World.row World.core
  exact getD_map_default_eq Row.core w.rows r {} {} Row.core_default

theorem core_rowCells (w : World) (r : Nat) : w.core.rowCells r = (w.rowCells r).map Cell.core := by
  unfold World.rowCells
  rw [core_row]
  unfold Row.core
  cases (w.row r).cells <;> rfl

theorem core_cell? (w : World) (r c : Nat) : w.core.cell? r c = (w.cell? r c).map Cell.core := by
  unfold World.cell?
  rw [core_rowCells, List.getElem?_map]

theorem core_item (w : World) (i : Nat) : w.core.item i = w.item i := rfl

theorem core_column? (w : World) (t n : Nat) : w.core.column? t n = (w.column? t n).map Column.core := by
  unfold World.column?
  rw [core_table]
  unfold Table.core
  simp only [List.getElem?_map]

/-- transfer of any reader that factors through `core` -/
theorem of_core_eq {α : Sort _} (f : World → α) (hf : ∀ w, f w.core = f w) {w w0 : World}
    (h : w.core = w0.core) : f w = f w0 := by
  rw [← hf w, h, hf]

theorem rd_tableSelf (t : Nat) (w : World) : (w.core.table t).selfCbs = (w.table t).selfCbs := by
  rw [core_table]; rfl
theorem rd_tableCell (t : Nat) (w : World) : (w.core.table t).cellCbs = (w.table t).cellCbs := by
  rw [core_table]; rfl
theorem rd_header (t : Nat) (w : World) : (w.core.table t).header = (w.table t).header := by
  rw [core_table]; rfl
theorem rd_rows (t : Nat) (w : World) : (w.core.table t).rows = (w.table t).rows := by
  rw [core_table]; rfl
theorem rd_nColumns (t : Nat) (w : World) : (w.core.table t).nColumns = (w.table t).nColumns := by
  rw [core_table]; rfl
theorem rd_ncolrecs (t : Nat) (w : World) : (w.core.table t).columns.length = (w.table t).columns.length := by
  rw [core_table]; unfold Table.core; simp
theorem rd_rowSelf (r : Nat) (w : World) : (w.core.row r).selfCbs = (w.row r).selfCbs := by
  rw [core_row]; rfl
theorem rd_rowCell (r : Nat) (w : World) : (w.core.row r).cellCbs = (w.row r).cellCbs := by
  rw [core_row]; rfl
theorem rd_isSep (r : Nat) (w : World) : (w.core.row r).isSep = (w.row r).isSep := by
  rw [core_row]; rfl
theorem rd_inTable (r : Nat) (w : World) : (w.core.row r).inTable = (w.row r).inTable := by
  rw [core_row]; rfl
theorem rd_rowCellsLen (r : Nat) (w : World) : (w.core.rowCells r).length = (w.rowCells r).length := by
  rw [core_rowCells, List.length_map]
theorem rd_cellCbs (r c : Nat) (tm : Time) (w : World) :
    ((w.core.cell? r c).map (·.cbs.at tm)).getD [] = ((w.cell? r c).map (·.cbs.at tm)).getD [] := by
  rw [core_cell?]; cases w.cell? r c <;> rfl
theorem rd_colSelf (t n : Nat) (tm : Time) (w : World) :
    ((w.core.column? t n).map (·.selfCbs.at tm)).getD [] = ((w.column? t n).map (·.selfCbs.at tm)).getD [] := by
  rw [core_column?]; cases w.column? t n <;> rfl

theorem rd_rowECTaker (r : Nat) (w : World) : w.core.rowECTaker r = w.rowECTaker r := by
  unfold World.rowECTaker
  rw [core_row]
  unfold Row.core
  cases (w.row r).ec <;> rfl

theorem rd_columnOf (r c : Nat) (w : World) : w.core.columnOf r c = w.columnOf r c := by
  unfold World.columnOf
  rw [core_cell?]
  cases w.cell? r c with
  | none => rfl
  | some ce =>
    simp only [Option.map_some, rd_inTable, rd_nColumns]
    rfl

theorem rd_colCellCbs (tc : Option (Nat × Nat)) (tm : Time) (w : World) :
    w.core.colCellCbs tc tm = w.colCellCbs tc tm := by
  unfold World.colCellCbs
  cases tc with
  | none => rfl
  | some p =>
    obtain ⟨t, n⟩ := p
    simp only
    rw [core_column?]
    cases w.column? t n <;> rfl

theorem rowECTaker_eager (w : World) (r : Nat) : (w.rowECTaker r).eager = true := by
  unfold World.rowECTaker
  cases (w.row r).ec <;> rfl

end E2Ecb
end Tab
