/-
  E2Ecb helpers, part 3: what ONE invocation of an arbitrary callback changes (exactly, for a
  table's error list and a column's property chain; frame lemmas for everything else), and the
  same for a list of steps.
-/
import Tabmodel.Proofs.E2EcbSched
import Tabmodel.Proofs.C13xLive
import Tabmodel.Proofs.C11Defs
set_option linter.unusedSimpArgs false
namespace Tab

/-- the effect of a callback on the property chain of a NON-cell owner it is handed: a
    `.setProp` sets / removes its key, every other callback leaves the chain alone (the measuring
    callbacks only write on cells) -/
def Cb.applyChain (ch : Chain) : Cb → Chain
  | .setProp _ k v => ch.set k v
  | _ => ch

/-- a table without its error list -/
def Table.noErrs (tb : Table) : Table := { tb with errs := [] }

/-- the error a step appends to the list of table `t2` (`none`: nothing) -/
def Step.errTo (t2 : Nat) (s : Step) : Option Nat :=
  if s.tk = .table t2 then World.raises s.tgt s.cb else none

namespace E2Ecb
open World

/-! ### `setProp` -/

theorem table_setProp_other (w : World) (o : Target) (k : Key) (v : Option Val) (t2 : Nat)
    (h1 : o ≠ .table t2) (h2 : ∀ n, o ≠ .column t2 n) : (w.setProp o k v).table t2 = w.table t2 := by
  cases o with
  | table t => exact C13.table_modTable_ne (fun e => h1 (by rw [e])) w _
  | column t n => exact C13.table_modTable_ne (fun e => h2 n (by rw [e])) w _
  | row r => rfl
  | cell r c => rfl
  | copy n => rfl

theorem errs_setProp (w : World) (o : Target) (k : Key) (v : Option Val) (t2 : Nat) :
    ((w.setProp o k v).table t2).errs = (w.table t2).errs := by
  cases o with
  | table t => simp only [World.setProp, C13.table_modTable]; split <;> rfl
  | column t n => simp only [World.setProp, World.modColumn, C13.table_modTable]; split <;> rfl
  | row r => rfl
  | cell r c => rfl
  | copy n => rfl

theorem column?_setProp (w : World) (o : Target) (k : Key) (v : Option Val) (t n : Nat)
    (ht : t < w.tables.length) :
    (w.setProp o k v).column? t n =
      if o = .column t n then (w.column? t n).map (fun c => { c with props := c.props.set k v })
      else w.column? t n := by
  cases o with
  | table t' =>
    have := C13.column?_modTable_of w t' (fun tb => { tb with props := tb.props.set k v }) (fun _ => rfl) t n
    simp only [World.setProp, this, reduceCtorEq, if_false]
  | column t' n' =>
    simp only [World.setProp, C13.column?_modColumn, Target.column.injEq]
    by_cases h : t' = t ∧ n' = n
    · obtain ⟨rfl, rfl⟩ := h; simp [ht]
    · have : ¬ (t' = t ∧ t < w.tables.length ∧ n' = n) := fun hh => h ⟨hh.1, hh.2.2⟩
      simp [h, this]
  | row r => simp only [reduceCtorEq, if_false]; rfl
  | cell r c => simp only [reduceCtorEq, if_false]; rfl
  | copy m => simp only [reduceCtorEq, if_false]; rfl

theorem row_setProp_other (w : World) (o : Target) (k : Key) (v : Option Val) (r0 : Nat)
    (h1 : o ≠ .row r0) (h2 : ∀ c, o ≠ .cell r0 c) : (w.setProp o k v).row r0 = w.row r0 := by
  cases o with
  | table t => rfl
  | column t n => rfl
  | row r => exact C13.row_modRow_ne (fun e => h1 (by rw [e])) w _
  | cell r c => exact C13.row_modRow_ne (fun e => h2 c (by rw [e])) w _
  | copy n => rfl

theorem items_setProp (w : World) (o : Target) (k : Key) (v : Option Val) : (w.setProp o k v).items = w.items := by
  cases o <;> rfl

theorem copies_setProp (w : World) (o : Target) (k : Key) (v : Option Val) (h : ∀ n, o ≠ .copy n) :
    (w.setProp o k v).copies = w.copies := by
  cases o with
  | copy n => exact absurd rfl (h n)
  | _ => rfl

theorem tables_length_setProp (w : World) (o : Target) (k : Key) (v : Option Val) :
    (w.setProp o k v).tables.length = w.tables.length := by
  cases o <;> simp [World.setProp, World.modTable, World.modColumn, World.modRow, World.modCell]

theorem rows_length_setProp (w : World) (o : Target) (k : Key) (v : Option Val) :
    (w.setProp o k v).rows.length = w.rows.length := by
  cases o <;> simp [World.setProp, World.modTable, World.modColumn, World.modRow, World.modCell]

/-! ### `addErrTo` -/

theorem table_addErrTo (w : World) (tk : Taker) (e : Nat) (t2 : Nat) (h : tk.eager = true)
    (ht : t2 < w.tables.length) :
    (w.addErrTo tk e).table t2 =
      if tk = .table t2 then { w.table t2 with errs := (w.table t2).errs ++ [e] } else w.table t2 := by
  cases tk with
  | drop => simp only [reduceCtorEq, if_false]; rfl
  | table t =>
    simp only [World.addErrTo, C13.table_modTable, Taker.table.injEq]
    by_cases htt : t = t2
    · subst htt; simp [ht]
    · simp [htt]
  | rowOwn r => simp only [reduceCtorEq, if_false]; rfl
  | rowLazy r => cases h

theorem noErrs_modTable_errs (w : World) (t : Nat) (g : List Nat → List Nat) (t2 : Nat) :
    ((w.modTable t (fun tb => { tb with errs := g tb.errs })).table t2).noErrs = (w.table t2).noErrs := by
  rw [C13.table_modTable]; split <;> rfl

theorem noErrs_addErrTo (w : World) (tk : Taker) (e : Nat) (t2 : Nat) :
    ((w.addErrTo tk e).table t2).noErrs = (w.table t2).noErrs := by
  unfold World.addErrTo
  cases tk with
  | drop => rfl
  | table t => exact noErrs_modTable_errs w t (· ++ [e]) t2
  | rowOwn r => rfl
  | rowLazy r =>
    dsimp only
    split
    · rfl
    · rfl
    · exact noErrs_modTable_errs w _ (· ++ [e]) t2

theorem column?_addErrTo (w : World) (tk : Taker) (e : Nat) (t n : Nat) :
    (w.addErrTo tk e).column? t n = w.column? t n := by
  have := congrArg Table.columns (noErrs_addErrTo w tk e t)
  unfold World.column?
  exact congrArg (·[n]?) this

theorem row_addErrTo_other (w : World) (tk : Taker) (e : Nat) (r0 : Nat)
    (h1 : tk ≠ .rowOwn r0) (h2 : tk ≠ .rowLazy r0) : (w.addErrTo tk e).row r0 = w.row r0 := by
  unfold World.addErrTo
  cases tk with
  | drop => rfl
  | table t => rfl
  | rowOwn r => exact C13.row_modRow_ne (fun e => h1 (by rw [e])) w _
  | rowLazy r =>
    have hr : r ≠ r0 := fun e => h2 (by rw [e])
    dsimp only
    split
    · exact C13.row_modRow_ne hr w _
    · exact C13.row_modRow_ne hr w _
    · rfl

theorem items_addErrTo (w : World) (tk : Taker) (e : Nat) : (w.addErrTo tk e).items = w.items := by
  unfold World.addErrTo
  cases tk with
  | drop => rfl
  | table t => rfl
  | rowOwn r => rfl
  | rowLazy r => dsimp only; split <;> rfl

theorem tables_length_addErrTo (w : World) (tk : Taker) (e : Nat) :
    (w.addErrTo tk e).tables.length = w.tables.length := by
  unfold World.addErrTo
  cases tk with
  | drop => rfl
  | table t => simp
  | rowOwn r => rfl
  | rowLazy r => dsimp only; split <;> simp

theorem rows_length_addErrTo (w : World) (tk : Taker) (e : Nat) :
    (w.addErrTo tk e).rows.length = w.rows.length := by
  unfold World.addErrTo
  cases tk with
  | drop => rfl
  | table t => rfl
  | rowOwn r => simp
  | rowLazy r => dsimp only; split <;> simp

/-! ### one invocation: frame principle -/

/-- anything kept by changing the log, by a `setProp` on the target and by an `AddError` through
    the taker is kept by invoking any callback -/
theorem invokeOne_frame {P : World → Prop} (dw : Measure) (w : World) (cb : Cb) (tgt : Target) (tk : Taker)
    (hev : ∀ w' es, P w' → P ({ w' with events := es } : World))
    (hset : ∀ w' k v, P w' → P (w'.setProp tgt k v))
    (herr : ∀ w' e, P w' → P (w'.addErrTo tk e)) (h0 : P w) : P (invokeOne dw w cb tgt tk) := by
  unfold invokeOne
  split
  · exact hev _ _ h0
  · exact hset _ _ _ (hev _ _ h0)
  · exact herr _ _ (hev _ _ h0)
  · split
    · split
      · exact hset _ _ _ (hset _ _ _ h0)
      · exact h0
    · exact herr _ _ h0
  · split
    · split
      · exact hset _ _ _ h0
      · exact h0
    · exact herr _ _ h0

theorem tables_length_invokeOne (dw : Measure) (w : World) (cb : Cb) (tgt : Target) (tk : Taker) :
    (invokeOne dw w cb tgt tk).tables.length = w.tables.length :=
  invokeOne_frame (P := fun w' => w'.tables.length = w.tables.length) dw w cb tgt tk
    (fun _ _ h => h) (fun _ _ _ h => by rw [tables_length_setProp]; exact h)
    (fun _ _ h => by rw [tables_length_addErrTo]; exact h) rfl

theorem rows_length_invokeOne (dw : Measure) (w : World) (cb : Cb) (tgt : Target) (tk : Taker) :
    (invokeOne dw w cb tgt tk).rows.length = w.rows.length :=
  invokeOne_frame (P := fun w' => w'.rows.length = w.rows.length) dw w cb tgt tk
    (fun _ _ h => h) (fun _ _ _ h => by rw [rows_length_setProp]; exact h)
    (fun _ _ h => by rw [rows_length_addErrTo]; exact h) rfl

theorem items_invokeOne (dw : Measure) (w : World) (cb : Cb) (tgt : Target) (tk : Taker) :
    (invokeOne dw w cb tgt tk).items = w.items :=
  invokeOne_frame (P := fun w' => w'.items = w.items) dw w cb tgt tk
    (fun _ _ h => h) (fun _ _ _ h => by rw [items_setProp]; exact h)
    (fun _ _ h => by rw [items_addErrTo]; exact h) rfl

theorem copies_invokeOne (dw : Measure) (w : World) (cb : Cb) (tgt : Target) (tk : Taker)
    (hc : ∀ n, tgt ≠ .copy n) : (invokeOne dw w cb tgt tk).copies = w.copies :=
  invokeOne_frame (P := fun w' => w'.copies = w.copies) dw w cb tgt tk
    (fun _ _ h => h) (fun _ _ _ h => by rw [copies_setProp _ _ _ _ hc]; exact h)
    (fun _ _ h => by rw [C13x.copies_addErrTo]; exact h) rfl

theorem row_invokeOne_other (dw : Measure) (w : World) (cb : Cb) (tgt : Target) (tk : Taker) (r0 : Nat)
    (h1 : tgt ≠ .row r0) (h2 : ∀ c, tgt ≠ .cell r0 c) (h3 : tk ≠ .rowOwn r0) (h4 : tk ≠ .rowLazy r0) :
    (invokeOne dw w cb tgt tk).row r0 = w.row r0 :=
  invokeOne_frame (P := fun w' => w'.row r0 = w.row r0) dw w cb tgt tk
    (fun _ _ h => h) (fun _ _ _ h => by rw [row_setProp_other _ _ _ _ _ h1 h2]; exact h)
    (fun _ _ h => by rw [row_addErrTo_other _ _ _ _ h3 h4]; exact h) rfl

theorem noErrs_invokeOne_other (dw : Measure) (w : World) (cb : Cb) (tgt : Target) (tk : Taker) (t2 : Nat)
    (h1 : tgt ≠ .table t2) (h2 : ∀ n, tgt ≠ .column t2 n) :
    ((invokeOne dw w cb tgt tk).table t2).noErrs = (w.table t2).noErrs :=
  invokeOne_frame (P := fun w' => (w'.table t2).noErrs = (w.table t2).noErrs) dw w cb tgt tk
    (fun _ _ h => h) (fun _ _ _ h => by rw [table_setProp_other _ _ _ _ _ h1 h2]; exact h)
    (fun _ _ h => by rw [noErrs_addErrTo]; exact h) rfl

/-! ### one invocation: a table's error list, exactly -/

theorem errs_invokeOne (dw : Measure) (w : World) (cb : Cb) (tgt : Target) (tk : Taker) (t2 : Nat)
    (h : tk.eager = true) (ht : t2 < w.tables.length) :
    ((invokeOne dw w cb tgt tk).table t2).errs =
      (w.table t2).errs ++ (Step.errTo t2 ⟨cb, tgt, tk⟩).toList := by
  have herr : ∀ e, ((w.addErrTo tk e).table t2).errs =
      (w.table t2).errs ++ (if tk = .table t2 then some e else none).toList := by
    intro e
    rw [table_addErrTo w tk e t2 h ht]
    by_cases hk : tk = .table t2 <;> simp [hk]
  cases cb with
  | log id => simp [Step.errTo, World.raises]; rfl
  | setProp id k v =>
    show ((World.setProp _ tgt k v).table t2).errs = _
    rw [errs_setProp]
    simp [Step.errTo, World.raises]; rfl
  | fail id e =>
    have := table_addErrTo ({ w with events := w.events ++ [⟨id, tgt⟩] } : World) tk e t2 h ht
    show ((World.addErrTo _ tk e).table t2).errs = _
    rw [this]
    by_cases hk : tk = .table t2 <;> simp [hk, Step.errTo, World.raises] <;> rfl
  | dimSetter =>
    unfold World.invokeOne
    cases tgt with
    | cell r c =>
      dsimp only
      cases w.cell? r c with
      | none => simp [Step.errTo, World.raises]
      | some ce => dsimp only; rw [errs_setProp, errs_setProp]; simp [Step.errTo, World.raises]
    | table t => dsimp only; rw [herr]; simp [Step.errTo, World.raises]
    | column t n => dsimp only; rw [herr]; simp [Step.errTo, World.raises]
    | row r => dsimp only; rw [herr]; simp [Step.errTo, World.raises]
    | copy n => dsimp only; rw [herr]; simp [Step.errTo, World.raises]
  | widthSetter =>
    unfold World.invokeOne
    cases tgt with
    | cell r c =>
      dsimp only
      cases w.cell? r c with
      | none => simp [Step.errTo, World.raises]
      | some ce => dsimp only; rw [errs_setProp]; simp [Step.errTo, World.raises]
    | table t => dsimp only; rw [herr]; simp [Step.errTo, World.raises]
    | column t n => dsimp only; rw [herr]; simp [Step.errTo, World.raises]
    | row r => dsimp only; rw [herr]; simp [Step.errTo, World.raises]
    | copy n => dsimp only; rw [herr]; simp [Step.errTo, World.raises]

/-! ### one invocation: a column's chain, exactly -/

theorem colProps_invokeOne (dw : Measure) (w : World) (cb : Cb) (tgt : Target) (tk : Taker) (t n : Nat)
    (ht : t < w.tables.length) :
    ((invokeOne dw w cb tgt tk).column? t n).map (·.props) =
      (w.column? t n).map (fun c => if tgt = .column t n then cb.applyChain c.props else c.props) := by
  have hid : ∀ (o : Option Column) (cb : Cb), (∀ ch, cb.applyChain ch = ch) →
      o.map (·.props) = o.map (fun c => if tgt = .column t n then cb.applyChain c.props else c.props) := by
    intro o cb h
    cases o <;> simp [h]
  have hne : tgt ≠ .column t n → ∀ (o : Option Column) (cb : Cb),
      o.map (·.props) = o.map (fun c => if tgt = .column t n then cb.applyChain c.props else c.props) := by
    intro hn o cb
    cases o <;> simp [hn]
  cases cb with
  | log id => exact hid _ _ (fun _ => rfl)
  | setProp id k v =>
    show ((World.setProp _ tgt k v).column? t n).map (·.props) = _
    rw [column?_setProp _ _ _ _ _ _ (by exact ht)]
    by_cases hc : tgt = .column t n
    · simp only [hc, if_true]
      show ((w.column? t n).map _).map _ = _
      cases w.column? t n <;> simp [Cb.applyChain]
    · simp only [hc, if_false]
      rfl
  | fail id e =>
    show ((World.addErrTo _ tk e).column? t n).map (·.props) = _
    rw [column?_addErrTo]
    exact hid (w.column? t n) _ (fun _ => rfl)
  | dimSetter =>
    unfold World.invokeOne
    cases tgt with
    | cell r c =>
      dsimp only
      cases w.cell? r c with
      | none => exact hne (by simp) _ _
      | some ce =>
        dsimp only
        rw [column?_setProp _ _ _ _ _ _ (by rw [tables_length_setProp]; exact ht), column?_setProp _ _ _ _ _ _ ht]
        simp only [reduceCtorEq, if_false]
    | table t' => dsimp only; rw [column?_addErrTo]; exact hid _ _ (fun _ => rfl)
    | column t' n' => dsimp only; rw [column?_addErrTo]; exact hid _ _ (fun _ => rfl)
    | row r => dsimp only; rw [column?_addErrTo]; exact hid _ _ (fun _ => rfl)
    | copy m => dsimp only; rw [column?_addErrTo]; exact hid _ _ (fun _ => rfl)
  | widthSetter =>
    unfold World.invokeOne
    cases tgt with
    | cell r c =>
      dsimp only
      cases w.cell? r c with
      | none => exact hne (by simp) _ _
      | some ce =>
        dsimp only
        rw [column?_setProp _ _ _ _ _ _ ht]
        simp only [reduceCtorEq, if_false]
    | table t' => dsimp only; rw [column?_addErrTo]; exact hid _ _ (fun _ => rfl)
    | column t' n' => dsimp only; rw [column?_addErrTo]; exact hid _ _ (fun _ => rfl)
    | row r => dsimp only; rw [column?_addErrTo]; exact hid _ _ (fun _ => rfl)
    | copy m => dsimp only; rw [column?_addErrTo]; exact hid _ _ (fun _ => rfl)

/-! ### lists of steps -/

theorem tables_length_runSteps (dw : Measure) (ss : List Step) (w : World) :
    (runSteps dw w ss).tables.length = w.tables.length := by
  induction ss generalizing w with
  | nil => rfl
  | cons s ss ih => rw [runSteps_cons, ih, tables_length_invokeOne]

theorem rows_length_runSteps (dw : Measure) (ss : List Step) (w : World) :
    (runSteps dw w ss).rows.length = w.rows.length := by
  induction ss generalizing w with
  | nil => rfl
  | cons s ss ih => rw [runSteps_cons, ih, rows_length_invokeOne]

theorem items_runSteps (dw : Measure) (ss : List Step) (w : World) : (runSteps dw w ss).items = w.items := by
  induction ss generalizing w with
  | nil => rfl
  | cons s ss ih => rw [runSteps_cons, ih, items_invokeOne]

theorem copies_runSteps (dw : Measure) (ss : List Step) (w : World) (h : ∀ s ∈ ss, ∀ n, s.tgt ≠ .copy n) :
    (runSteps dw w ss).copies = w.copies := by
  induction ss generalizing w with
  | nil => rfl
  | cons s ss ih =>
    rw [runSteps_cons, ih _ (fun s' hs' => h s' (by simp [hs'])), copies_invokeOne _ _ _ _ _ (h s (by simp))]

theorem row_runSteps_other (dw : Measure) (ss : List Step) (w : World) (r0 : Nat)
    (h : ∀ s ∈ ss, s.tgt ≠ .row r0 ∧ (∀ c, s.tgt ≠ .cell r0 c) ∧ s.tk ≠ .rowOwn r0 ∧ s.tk ≠ .rowLazy r0) :
    (runSteps dw w ss).row r0 = w.row r0 := by
  induction ss generalizing w with
  | nil => rfl
  | cons s ss ih =>
    obtain ⟨h1, h2, h3, h4⟩ := h s (by simp)
    rw [runSteps_cons, ih _ (fun s' hs' => h s' (by simp [hs'])), row_invokeOne_other _ _ _ _ _ _ h1 h2 h3 h4]

theorem noErrs_runSteps_other (dw : Measure) (ss : List Step) (w : World) (t2 : Nat)
    (h : ∀ s ∈ ss, s.tgt ≠ .table t2 ∧ ∀ n, s.tgt ≠ .column t2 n) :
    ((runSteps dw w ss).table t2).noErrs = (w.table t2).noErrs := by
  induction ss generalizing w with
  | nil => rfl
  | cons s ss ih =>
    obtain ⟨h1, h2⟩ := h s (by simp)
    rw [runSteps_cons, ih _ (fun s' hs' => h s' (by simp [hs'])), noErrs_invokeOne_other _ _ _ _ _ _ h1 h2]

theorem errs_runSteps (dw : Measure) (ss : List Step) (w : World) (t2 : Nat)
    (h : ∀ s ∈ ss, s.tk.eager = true) (ht : t2 < w.tables.length) :
    ((runSteps dw w ss).table t2).errs = (w.table t2).errs ++ ss.filterMap (Step.errTo t2) := by
  induction ss generalizing w with
  | nil => simp [runSteps_nil]
  | cons s ss ih =>
    rw [runSteps_cons, ih _ (fun s' hs' => h s' (by simp [hs'])) (by rw [tables_length_invokeOne]; exact ht),
      errs_invokeOne dw w s.cb s.tgt s.tk t2 (h s (by simp)) ht, List.filterMap_cons]
    cases hs : Step.errTo t2 s with
    | none => simp [hs]
    | some e => simp [hs]

theorem colProps_runSteps (dw : Measure) (ss : List Step) (w : World) (t n : Nat) (ht : t < w.tables.length) :
    ((runSteps dw w ss).column? t n).map (·.props) =
      (w.column? t n).map (fun c =>
        ((ss.filter (fun s => decide (s.tgt = .column t n))).map (·.cb)).foldl Cb.applyChain c.props) := by
  induction ss generalizing w with
  | nil =>
    simp only [runSteps_nil, List.filter_nil, List.map_nil, List.foldl_nil]
  | cons s ss ih =>
    rw [runSteps_cons, ih _ (by rw [tables_length_invokeOne]; exact ht)]
    have h1 := colProps_invokeOne dw w s.cb s.tgt s.tk t n ht
    cases hc' : (invokeOne dw w s.cb s.tgt s.tk).column? t n with
    | none =>
      rw [hc'] at h1
      cases hc : w.column? t n with
      | none => rfl
      | some c => rw [hc] at h1; cases h1
    | some c' =>
      rw [hc'] at h1
      cases hc : w.column? t n with
      | none => rw [hc] at h1; cases h1
      | some c =>
        rw [hc] at h1
        simp only [Option.map_some, Option.some.injEq] at h1 ⊢
        rw [h1, List.filter_cons]
        by_cases hs : s.tgt = .column t n
        · simp [hs]
        · simp [hs]

end E2Ecb
end Tab
