/-
  The invariant read back on worlds (`Inv w = SInv w.shape`), and the observers
  (`cellAt`, `cellLocation`, `hasColumn`, `column?`, `view`) under it.
-/
import Tabmodel.Proofs.WorldCols
import Tabmodel.Model.View
import Tabmodel.Spec.Shape
namespace Tab
namespace World

theorem shape_table_rows (w : World) (t : Nat) : (w.shape.table t).rows = (w.table t).rows := by
  rw [shape_table]; rfl
theorem shape_table_header (w : World) (t : Nat) : (w.shape.table t).header = (w.table t).header := by
  rw [shape_table]; rfl
theorem shape_table_nColumns (w : World) (t : Nat) : (w.shape.table t).nColumns = (w.table t).nColumns := by
  rw [shape_table]; rfl
theorem shape_table_nColRecs (w : World) (t : Nat) : (w.shape.table t).nColRecs = (w.table t).columns.length := by
  rw [shape_table]; rfl
theorem shape_row_inTable (w : World) (r : Nat) : (w.shape.row r).inTable = (w.row r).inTable := by
  rw [shape_row]; rfl
theorem shape_row_rowNum (w : World) (r : Nat) : (w.shape.row r).rowNum = (w.row r).rowNum := by
  rw [shape_row]; rfl
theorem shape_row_isSep (w : World) (r : Nat) : (w.shape.row r).isSep = (w.row r).isSep := by
  rw [shape_row]; rfl
theorem shape_row_cells (w : World) (r : Nat) :
    (w.shape.row r).cells = (w.row r).cells.map (·.map Cell.geo) := by
  rw [shape_row]; rfl

end World

namespace Inv
open World

theorem cols {w : World} (h : Inv w) (t : Nat) : (w.table t).columns.length = (w.table t).nColumns + 1 := by
  have := Shape.SInv.cols h t
  rwa [shape_table_nColRecs, shape_table_nColumns] at this

theorem rowsLt {w : World} (h : Inv w) (t r : Nat) (hm : r ∈ (w.table t).rows) : r < w.rows.length := by
  have := Shape.SInv.rowsLt h t r (by rw [shape_table_rows]; exact hm)
  simpa using this

theorem hdrLt {w : World} (h : Inv w) (t hd : Nat) (hh : (w.table t).header = some hd) : hd < w.rows.length := by
  have := Shape.SInv.hdrLt h t hd (by rw [shape_table_header]; exact hh)
  simpa using this

theorem att {w : World} (h : Inv w) (t i r : Nat) (hi : (w.table t).rows[i]? = some r) :
    (w.row r).inTable = some t ∧ (w.row r).rowNum = i + 1 := by
  have := Shape.SInv.att h t i r (by rw [shape_table_rows]; exact hi)
  rwa [shape_row_inTable, shape_row_rowNum] at this

theorem back {w : World} (h : Inv w) (r t : Nat) (hi : (w.row r).inTable = some t) : r ∈ (w.table t).rows := by
  have := Shape.SInv.back h r t (by rw [shape_row_inTable]; exact hi)
  rwa [shape_table_rows] at this

theorem hdrFree {w : World} (h : Inv w) (t hd : Nat) (hh : (w.table t).header = some hd) :
    (w.row hd).inTable = none := by
  have := Shape.SInv.hdrFree h t hd (by rw [shape_table_header]; exact hh)
  rwa [shape_row_inTable] at this

theorem wid {w : World} (h : Inv w) (t r : Nat) (hm : r ∈ (w.table t).rows) :
    (w.rowCells r).length ≤ (w.table t).nColumns := by
  have := Shape.SInv.wid h t r (by rw [shape_table_rows]; exact hm)
  rwa [shape_width, shape_table_nColumns] at this

theorem hwid {w : World} (h : Inv w) (t hd : Nat) (hh : (w.table t).header = some hd) :
    (w.rowCells hd).length ≤ (w.table t).nColumns := by
  have := Shape.SInv.hwid h t hd (by rw [shape_table_header]; exact hh)
  rwa [shape_width, shape_table_nColumns] at this

theorem geo {w : World} (h : Inv w) (r : Nat) (cs : List Cell) (j : Nat) (ce : Cell)
    (hc : (w.row r).cells = some cs) (hj : cs[j]? = some ce) :
    ce.columnNum = j + 1 ∧ ce.inRow = some r := by
  have := Shape.SInv.geo h r (cs.map Cell.geo) j ce.geo
    (by rw [shape_row_cells, hc]; rfl) (by rw [List.getElem?_map, hj]; rfl)
  unfold Cell.geo at this
  exact ⟨congrArg Prod.fst this, congrArg Prod.snd this⟩

theorem sep {w : World} (h : Inv w) (r : Nat) (hs : (w.row r).isSep = true) : (w.row r).cells = none := by
  have := Shape.SInv.sep h r (by rw [shape_row_isSep]; exact hs)
  rw [shape_row_cells] at this
  cases hc : (w.row r).cells with
  | none => rfl
  | some cs => rw [hc] at this; cases this

end Inv

/-! ### the render view -/

theorem view_wf {w : World} (h : Inv w) (t : Nat) :
    WFShape (w.view t) ∧ (w.view t).colAlign.length = (w.view t).ncols + 1 ∧
      (w.view t).colSkip.length = (w.view t).ncols + 1 := by
  refine ⟨⟨?_, ?_⟩, ?_, ?_⟩
  · intro hs hh
    simp only [World.view] at hh ⊢
    cases hd : (w.table t).header with
    | none => rw [hd] at hh; cases hh
    | some hr =>
      rw [hd] at hh
      simp only [Option.map_some, Option.some.injEq] at hh
      subst hh
      rw [List.length_map]
      exact h.hwid t hr hd
  · intro cs hm
    simp only [World.view] at hm ⊢
    rw [List.mem_map] at hm
    obtain ⟨r, hr, he⟩ := hm
    split at he
    · cases he
    · simp only [Option.some.injEq] at he
      subst he
      rw [List.length_map]
      exact h.wid t r hr
  · simp only [World.view, List.length_map]; exact h.cols t
  · simp only [World.view, List.length_map]; exact h.cols t

theorem inv_of_shape_eq {w w' : World} (h : Inv w) (e : w'.shape = w.shape) : Inv w' := by
  unfold Inv; rw [e]; exact h

end Tab
