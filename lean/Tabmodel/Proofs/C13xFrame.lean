/- C13x helper lemmas: the documented lists depend on callback sets and skeleton only; agreement with
   the log-only lists of C13. -/
import Tabmodel.Proofs.C13xRender
set_option linter.unusedSimpArgs false
namespace Tab
open World C13
namespace C13x

theorem cellExpectedAny_same {w' w : World} (h : SameSkeleton w' w) (t r : Nat) :
    cellExpectedAny w' t r = cellExpectedAny w t r := by
  funext i
  simp only [cellExpectedAny, same_cbsAt h, same_colCellAt h]

theorem rowExpectedAny_same {w' w : World} (h : SameSkeleton w' w) (t : Nat) :
    rowExpectedAny w' t = rowExpectedAny w t := by
  funext r
  simp only [rowExpectedAny, cellExpectedAny_same h, same_cbsAt h, same_rowCells_length h]

theorem expectedRenderAny_same {w' w : World} (h : SameSkeleton w' w) (t : Nat) :
    expectedRenderAny w' t = expectedRenderAny w t := by
  simp only [expectedRenderAny, colsExpectedAny, rowExpectedAny_same h, renderRows, same_cbsAt h,
    same_header h, same_rows h, same_ncolrecs h]

theorem userEvents_eq_logEvents (cbs : List Cb) (tgt : Target) (h : ∀ cb ∈ cbs, cb.isLog = true) :
    userEvents cbs tgt = logEvents cbs tgt := by
  induction cbs with
  | nil => rfl
  | cons cb cbs ih =>
    have hcb := h cb (by simp)
    have ih' := ih (fun c hc => h c (by simp [hc]))
    cases cb with
    | log id =>
      simp only [userEvents, userIds, logEvents, logIds, List.filterMap_cons, Cb.id?, List.map_cons] at ih' ⊢
      rw [ih']
    | _ => simp [Cb.isLog] at hcb

theorem expectedRenderAny_log {w : World} (h : LogOnlyAt w) (t : Nat) :
    expectedRenderAny w t = expectedRender w t := by
  have h1 : ∀ s tm tgt, userEvents (w.cbsAt s tm) tgt = logEvents (w.cbsAt s tm) tgt :=
    fun s tm tgt => userEvents_eq_logEvents _ tgt (h s tm)
  have h2 : ∀ r i tm tgt, userEvents (colCellAt w r i tm) tgt = logEvents (colCellAt w r i tm) tgt :=
    fun r i tm tgt => userEvents_eq_logEvents _ tgt (colCellAt_log h r i tm)
  have hc : ∀ r, cellExpectedAny w t r = cellExpected w t r := by
    intro r; funext i; simp only [cellExpectedAny, cellExpected, h1, h2]
  have hr : rowExpectedAny w t = rowExpected w t := by
    funext r; simp only [rowExpectedAny, rowExpected, hc, h1]
  simp only [expectedRenderAny, expectedRender, colsExpectedAny, colsExpected, hr, h1]

end C13x
end Tab
