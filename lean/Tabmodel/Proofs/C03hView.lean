/-
  C03h helpers, part 4: under the plain invariant every cell of the view after the pass carries
  exactly the measurement of its own text: `cellWidth` = widest line, `lws` = its lines with their
  display widths, no blank padding.
-/
import Tabmodel.Proofs.C03hCols
namespace Tab
namespace C03h
open World

theorem measured_hgt {dw : Measure} {ce : Cell} (h : ce.Measured dw) :
    ce.hgt = (((lines ce.str).length : Nat) : Int) := by
  have htw := measured_termWidth h
  unfold Cell.hgt
  rw [htw, h.2]
  by_cases h0 : (lines ce.str).length = 0
  · have hl : lines ce.str = [] := List.eq_nil_of_length_eq_zero h0
    have : longestLine dw ce.str = 0 := by unfold longestLine; rw [hl]
    rw [this, h0]; simp
  · have : ¬ (((lines ce.str).length : Nat) : Int) < 1 := by omega
    simp only [this, if_false]

/-- what `dimProps` stores for a measured cell of an item that declares no width -/
theorem dimProps_measured (dw : Measure) (it : Item) (ce : Cell) (hw : it.mWidth = none)
    (h : ce.Measured dw) :
    dimProps dw it ce = (.dims ((longestLine dw ce.str : Nat) : Int) (((lines ce.str).length : Nat) : Int),
      .lws ((lines ce.str).map (fun l => ({ s := l, w := ((dw l : Nat) : Int) } : WidthString)))) := by
  rw [dimProps_eq, measured_termWidth h, measured_hgt h]
  unfold Cell.lines
  have : max (((lines ce.str).length : Nat) : Int).toNat (lines ce.str).length - (lines ce.str).length = 0 := by
    simp
  rw [this]
  simp only [List.replicate_zero, List.append_nil, dimLineW, hw, Option.isSome_none, Bool.false_and,
    Bool.false_eq_true, if_false]

theorem measured_of_core_eq {dw : Measure} {a b : Cell} (e : a.core = b.core) (h : a.Measured dw) :
    b.Measured dw := by
  obtain ⟨_, e2, e3, e4, _⟩ := E2Ecb.core_eq_fields e
  unfold Cell.Measured at h ⊢
  rw [← e2, ← e3, ← e4]
  exact h

/-- every cell of the post-pass view is the measurement of its own text -/
theorem plain_view_cell (dw : Measure) (w : World) (t : Nat) (hU : w.UserKeysOnly t)
    (hcb : Cb.dimSetter ∈ (w.table t).cellCbs.render) (hP : PlainInv dw w) :
    ∀ c ∈ ((invokeRenderCallbacks dw w t).view t).allCells,
      c.cellWidth = ((longestLine dw c.text : Nat) : Int) ∧
      c.lws = (lines c.text).map (fun l => ({ s := l, w := ((dw l : Nat) : Int) } : WidthString)) := by
  intro c hc
  obtain ⟨r, _, ce', hce', e, h1, h2⟩ := E2Ecb.cell_measured_cb dw w t hU hcb c hc
  obtain ⟨ce, hce, hee⟩ := E2Ecb.irc_cell_src_cb dw w t r ce' hce'
  have hm : ce'.Measured dw := measured_of_core_eq hee (hP.2.rowCells r ce hce)
  have hit : ((invokeRenderCallbacks dw w t).item ce'.item).mWidth = none := by
    have : (invokeRenderCallbacks dw w t).item ce'.item = w.item ce'.item := by
      unfold World.item; rw [E2Ecb.irc_items]
    rw [this]
    exact (hP.item _).1
  rw [dimProps_measured dw _ ce' hit hm] at h1 h2
  subst e
  unfold World.rcell
  simp only [h1, h2]
  exact ⟨trivial, trivial⟩

end C03h
end Tab
