/-
  C16 helpers, part 7: renaming of row ids.  `Sim ρ t P I w w₂`: the `t`-component of `w₂` is the
  `ρ`-renaming of the `t`-component of `w` (row `r` of `w` is row `ρ r` of `w₂`; row ids stored in the table
  and in cells' back pointers are renamed accordingly).  `Both ρ t P I f f₂`: `f` is a local step and the pair
  `(f, f₂)` maps similar worlds to similar worlds.  Primitive updates.
-/
import Tabmodel.Proofs.C16Interleave
namespace Tab
namespace C16
open World

def renCell (ρ : Nat → Nat) (ce : Cell) : Cell := { ce with inRow := ce.inRow.map ρ }
def renRow (ρ : Nat → Nat) (rw : Row) : Row := { rw with cells := rw.cells.map (List.map (renCell ρ)) }
def renTable (ρ : Nat → Nat) (tb : Table) : Table :=
  { tb with header := tb.header.map ρ, rows := tb.rows.map ρ }

def renTaker (ρ : Nat → Nat) : Taker → Taker
  | .rowOwn r => .rowOwn (ρ r)
  | .rowLazy r => .rowLazy (ρ r)
  | .drop => .drop
  | .table t => .table t

def renTarget (ρ : Nat → Nat) : Target → Target
  | .row r => .row (ρ r)
  | .cell r c => .cell (ρ r) c
  | .table t => .table t
  | .column t n => .column t n
  | .copy n => .copy n

structure Sim (ρ : Nat → Nat) (t : Nat) (P I : Nat → Prop) (w w₂ : World) : Prop where
  tab : w₂.tables[t]? = (w.tables[t]?).map (renTable ρ)
  rows : ∀ r, P r → w₂.rows[ρ r]? = (w.rows[r]?).map (renRow ρ)
  items : ∀ i, I i → w.item i = w₂.item i
  inj : ∀ r r', P r → P r' → ρ r = ρ r' → r = r'

def SimStep (ρ : Nat → Nat) (t : Nat) (P I : Nat → Prop) (f f₂ : World → World) : Prop :=
  ∀ w w₂, Inv t P I w → Sim ρ t P I w w₂ → Sim ρ t P I (f w) (f₂ w₂)

structure Both (ρ : Nat → Nat) (t : Nat) (P I : Nat → Prop) (f f₂ : World → World) : Prop where
  ls : LocalStep t P I f
  sim : SimStep ρ t P I f f₂

variable {ρ : Nat → Nat} {t : Nat} {P I : Nat → Prop}

theorem Sim.table {w w₂ : World} (h : Sim ρ t P I w w₂) : w₂.table t = renTable ρ (w.table t) := by
  rw [table_def, table_def, h.tab]
  cases w.tables[t]? <;> rfl

theorem Sim.row {w w₂ : World} (h : Sim ρ t P I w w₂) {r : Nat} (hr : P r) :
    w₂.row (ρ r) = renRow ρ (w.row r) := by
  rw [row_def, row_def, h.rows r hr]
  cases w.rows[r]? <;> rfl

/-! ### combinators -/

theorem Both.id' (ρ : Nat → Nat) (t : Nat) (P I : Nat → Prop) : Both ρ t P I (fun w => w) (fun w => w) :=
  ⟨LocalStep.id' t P I, fun _ _ _ h => h⟩

theorem Both.seq {f g f₂ g₂ : World → World} (hf : Both ρ t P I f f₂) (hg : Both ρ t P I g g₂) :
    Both ρ t P I (seq f g) (seq f₂ g₂) :=
  ⟨hf.ls.seq hg.ls, fun w w₂ hi hs => hg.sim (f w) (f₂ w₂) (hf.ls w hi).inv (hf.sim w w₂ hi hs)⟩

theorem Both.rd {α α₂ : Type} {r : World → α} {r₂ : World → α₂} {Q : α → Prop}
    {g : α → World → World} {g₂ : α₂ → World → World} (hr : Rd t P I r Q) (φ : α → α₂)
    (hrel : ∀ w w₂, Inv t P I w → Sim ρ t P I w w₂ → r₂ w₂ = φ (r w))
    (hg : ∀ a, Q a → Both ρ t P I (g a) (g₂ (φ a))) : Both ρ t P I (rd r g) (rd r₂ g₂) := by
  refine ⟨LocalStep.rd hr (fun a ha => (hg a ha).ls), fun w w₂ hi hs => ?_⟩
  show Sim ρ t P I (g (r w) w) (g₂ (r₂ w₂) w₂)
  rw [hrel w w₂ hi hs]
  exact (hg (r w) (hr.q w hi)).sim w w₂ hi hs

/-- a read whose value contains no row id -/
theorem Both.rdEq {α : Type} {r r₂ : World → α} {Q : α → Prop}
    {g g₂ : α → World → World} (hr : Rd t P I r Q)
    (hrel : ∀ w w₂, Inv t P I w → Sim ρ t P I w w₂ → r₂ w₂ = r w)
    (hg : ∀ a, Q a → Both ρ t P I (g a) (g₂ a)) : Both ρ t P I (C16.rd r g) (C16.rd r₂ g₂) :=
  Both.rd hr (fun a => a) hrel hg

theorem Both.foldl {β β₂ : Type} (h : World → β → World) (h₂ : World → β₂ → World) (φ : β → β₂)
    (xs : List β) (hh : ∀ x ∈ xs, Both ρ t P I (fun w => h w x) (fun w => h₂ w (φ x))) :
    Both ρ t P I (fun w => xs.foldl h w) (fun w => (xs.map φ).foldl h₂ w) := by
  induction xs with
  | nil => exact Both.id' ρ t P I
  | cons x xs ih =>
    exact Both.seq (hh x (by simp)) (ih (fun y hy => hh y (by simp [hy])))

/-! ### primitive updates -/

theorem both_modTable (g g₂ : Table → Table) (hg : ∀ tb r, FootT (g tb) r → FootT tb r ∨ P r)
    (hren : ∀ tb, g₂ (renTable ρ tb) = renTable ρ (g tb)) :
    Both ρ t P I (fun w => w.modTable t g) (fun w => w.modTable t g₂) := by
  refine ⟨ls_modTable g hg, fun w w₂ _ hs => ⟨?_, hs.rows, hs.items, hs.inj⟩⟩
  simp only [modTable_tables, List.getElem?_modify, hs.tab, if_true]
  cases w.tables[t]? with
  | none => rfl
  | some tb => simp [hren]

theorem both_modRow {r : Nat} (hr : P r) (g g₂ : Row → Row)
    (hg : ∀ rw, RowOK t r I rw → RowOK t r I (g rw))
    (hren : ∀ rw, g₂ (renRow ρ rw) = renRow ρ (g rw)) :
    Both ρ t P I (fun w => w.modRow r g) (fun w => w.modRow (ρ r) g₂) := by
  refine ⟨ls_modRow hr g hg, fun w w₂ _ hs => ⟨hs.tab, fun r' hr' => ?_, hs.items, hs.inj⟩⟩
  simp only [modRow_rows, List.getElem?_modify, hs.rows r' hr']
  by_cases e : r = r'
  · subst e
    cases w.rows[r]? with
    | none => rfl
    | some rw => simp [hren]
  · have e' : ρ r ≠ ρ r' := fun h => e (hs.inj r r' hr hr' h)
    cases w.rows[r']? with
    | none => rfl
    | some rw => simp [e, e']

theorem both_other (f f₂ : World → World)
    (hf : ∀ w, (f w).tables = w.tables ∧ (f w).rows = w.rows ∧ (f w).items = w.items)
    (hf₂ : ∀ w, (f₂ w).tables = w.tables ∧ (f₂ w).rows = w.rows ∧ (f₂ w).items = w.items) :
    Both ρ t P I f f₂ := by
  refine ⟨ls_other f hf, fun w w₂ _ hs => ?_⟩
  obtain ⟨h1, h2, h3⟩ := hf w
  obtain ⟨g1, g2, g3⟩ := hf₂ w₂
  refine ⟨by rw [h1, g1]; exact hs.tab, fun r hr => by rw [h2, g2]; exact hs.rows r hr, fun i hi => ?_, hs.inj⟩
  have e1 : (f w).item i = w.item i := by simp [item, h3]
  have e2 : (f₂ w₂).item i = w₂.item i := by simp [item, g3]
  rw [e1, e2]; exact hs.items i hi

end C16
end Tab
