/- C03 / C04: the model functions of `Model/Text.lean` and `Model/Decoration.lean` meet the layout spec. -/
import Tabmodel.Proofs.TextLemmas
import Tabmodel.Proofs.EmitLemmas
namespace Tab

theorem tt_mapM_except_ok {α β ε : Type} (f : α → Except ε β) (g : α → β) (xs : List α)
    (h : ∀ x ∈ xs, f x = .ok (g x)) : xs.mapM f = .ok (xs.map g) := by
  induction xs with
  | nil => rfl
  | cons x t ih =>
    rw [List.mapM_cons, h x (by simp), ih (fun y hy => h y (by simp [hy]))]
    rfl

theorem tt_idxE_ok {α : Type} {a : List α} {i : Nat} {x : α} (h : a[i]? = some x) (site : String) :
    idxE a i site = .ok x := by
  unfold idxE; rw [h]

/-- the per-column step of `renderedLine` succeeds with the spec slot -/
theorem renderedLine_cols (inner : Bytes) (cw : List Nat) (parts : List WidthString) (aligns : List Nat)
    (g : Nat → WidthString)
    (hparts : ∀ i, i < cw.length → parts[i]? = some (g i))
    (hal : cw.length ≤ aligns.length) (hal3 : ∀ a ∈ aligns, a ≤ 3)
    (hnn : ∀ i, i < cw.length → 0 ≤ (g i).w) :
    (cw.zipIdx).mapM (fun (x : Nat × Nat) => do
        let cs ← idxE parts x.2 "emit.cellStrs[i]"
        let al ← idxE aligns x.2 "emit.colAligns[i]"
        let s ← withinWidthAligned cs x.1 al
        pure (if inner != [] then [s, inner] else [s]))
      = .ok ((cw.zipIdx).map (fun x =>
          if inner != [] then [(slotD (g x.2) x.1 (aligns.getD x.2 0)).bytes, inner]
          else [(slotD (g x.2) x.1 (aligns.getD x.2 0)).bytes])) := by
  apply tt_mapM_except_ok
  intro x hx
  obtain ⟨w, i⟩ := x
  have hm := List.mem_zipIdx hx
  have hi : i < cw.length := by omega
  have hali : i < aligns.length := by omega
  have ha : aligns[i]? = some (aligns.getD i 0) := by
    simp [List.getD_eq_getElem?_getD, List.getElem?_eq_getElem hali]
  have ha3 : aligns.getD i 0 ≤ 3 := by
    apply hal3; simp [List.getD_eq_getElem?_getD, List.getElem?_eq_getElem hali]
  simp only [tt_idxE_ok (hparts i hi), tt_idxE_ok ha]
  show (do let s ← withinWidthAligned (g i) w (aligns.getD i 0); pure _) = _
  rw [withinWidthAligned_eq _ _ _ (hnn i hi) ha3]
  rfl

def rlFinish (L I R : Bytes) (cols : List (List Bytes)) : Except Stop Bytes :=
  let fields : List Bytes := (if L != [] then [L] else []) ++ cols.flatten
  if R != [] && I != [] then .ok (joinSP (fields.dropLast ++ [R]) ++ [LF])
  else if R != [] then .ok (joinSP (fields ++ [R]) ++ [LF])
  else if I != [] then .ok (joinSP fields.dropLast ++ [LF])
  else .ok (joinSP fields ++ [LF])

theorem renderedLine_eq (L I R : Bytes) (cw : List Nat) (parts : List WidthString) (aligns : List Nat) :
    renderedLine L I R cw parts aligns =
      ((cw.zipIdx).mapM (fun (x : Nat × Nat) => do
        let cs ← idxE parts x.2 "emit.cellStrs[i]"
        let al ← idxE aligns x.2 "emit.colAligns[i]"
        let s ← withinWidthAligned cs x.1 al
        pure (if I != [] then [s, I] else [s]))) >>= rlFinish L I R := by
  unfold renderedLine rlFinish
  simp only []
  first
    | rfl
    | (congr 1; first | done | (funext cols; repeat (first | rfl | split)))

theorem flatten_pairs_dropLast (I : Bytes) (bs : List Bytes) :
    ((bs.map (fun b => [b, I])).flatten).dropLast = bs.intersperse I := by
  induction bs with
  | nil => rfl
  | cons b t ih =>
    cases t with
    | nil => simp
    | cons b' t' =>
      simp only [List.map_cons, List.flatten_cons, List.intersperse_cons_cons] at ih ⊢
      rw [← ih]
      simp [List.dropLast]

theorem bne_nil_of_ne {x : Bytes} (h : x ≠ []) : (x != []) = true := by simp [h]

theorem lineSlots_length (cw aligns : List Nat) (g : Nat → WidthString) :
    (lineSlots cw aligns g).length = cw.length := by simp [lineSlots]

theorem renderedLine_boxed (L I R : Bytes) (cw : List Nat) (parts : List WidthString) (aligns : List Nat)
    (g : Nat → WidthString) (hL : L ≠ []) (hI : I ≠ []) (hR : R ≠ []) (hcw : cw ≠ [])
    (hparts : ∀ i, i < cw.length → parts[i]? = some (g i))
    (hal : cw.length ≤ aligns.length) (hal3 : ∀ a ∈ aligns, a ≤ 3)
    (hnn : ∀ i, i < cw.length → 0 ≤ (g i).w) :
    renderedLine L I R cw parts aligns = .ok (contentLine L I R (lineSlots cw aligns g)) := by
  rw [renderedLine_eq, renderedLine_cols I cw parts aligns g hparts hal hal3 hnn]
  show rlFinish L I R _ = _
  unfold rlFinish contentLine
  simp only [bne_nil_of_ne hL, bne_nil_of_ne hI, bne_nil_of_ne hR, if_true, Bool.and_self, hL, if_false]
  have e : (List.map (fun (x : Nat × Nat) => [(slotD (g x.2) x.1 (aligns.getD x.2 0)).bytes, I]) cw.zipIdx)
      = ((lineSlots cw aligns g).map SlotD.bytes).map (fun b => [b, I]) := by
    simp [lineSlots]
  rw [e]
  have hne : (List.map (fun b => [b, I]) (List.map SlotD.bytes (lineSlots cw aligns g))).flatten ≠ [] := by
    cases hc : cw with
    | nil => exact absurd hc hcw
    | cons w t => simp [lineSlots, List.zipIdx_cons]
  rw [List.dropLast_append_of_ne_nil hne, flatten_pairs_dropLast]
  simp

theorem renderedLine_boxless (cw : List Nat) (parts : List WidthString) (aligns : List Nat)
    (g : Nat → WidthString)
    (hparts : ∀ i, i < cw.length → parts[i]? = some (g i))
    (hal : cw.length ≤ aligns.length) (hal3 : ∀ a ∈ aligns, a ≤ 3)
    (hnn : ∀ i, i < cw.length → 0 ≤ (g i).w) :
    renderedLine [] [] [] cw parts aligns = .ok (contentLine [] [] [] (lineSlots cw aligns g)) := by
  rw [renderedLine_eq, renderedLine_cols [] cw parts aligns g hparts hal hal3 hnn]
  show rlFinish [] [] [] _ = _
  unfold rlFinish contentLine
  simp [lineSlots, List.flatten_eq_flatMap, List.flatMap_map]
  congr 1
  generalize cw.zipIdx = zs
  induction zs with
  | nil => rfl
  | cons z t ih => simp [List.flatMap_cons, ih]
open Emit

/-! ### rows -/

theorem foldl_ifmax (xs : List (List WidthString)) (a : Nat) :
    xs.foldl (fun m c => if c.length > m then c.length else m) a = (xs.map List.length).foldl max a := by
  induction xs generalizing a with
  | nil => rfl
  | cons x t ih =>
    simp only [List.foldl_cons, List.map_cons]
    rw [ih]
    congr 1
    split <;> omega

theorem ttRowLines_eq (cells : List RCell) (n : Nat) :
    ttRowLines cells n = (List.range (rowLineCount cells n)).map (fun l =>
      (List.range n).map (fun c => cellLineWS cells c l)) := by
  unfold ttRowLines rowLineCount
  have ht : cells.take (min cells.length n) = cells.take n := by
    rw [Nat.min_comm, ← List.take_eq_take_min]
  simp only [ht, foldl_ifmax, List.map_map]
  have hc : (List.length ∘ fun (x : RCell) => x.lws) = (fun c => c.lws.length) := rfl
  rw [hc]
  apply List.map_congr_left
  intro l _
  apply List.map_congr_left
  intro c hcn
  have hcn' : c < n := by simpa using hcn
  unfold cellLineWS blankWS
  simp only [List.getElem?_map, List.getElem?_take, hcn', if_true]
  cases cells[c]? with
  | none => rfl
  | some cell =>
    simp only [Option.map_some, List.getD_eq_getElem?_getD]
    cases cell.lws[l]? <;> rfl

theorem cellLineWS_nonneg (cells : List RCell) (h : ∀ c ∈ cells, ∀ x ∈ c.lws, 0 ≤ x.w) (i k : Nat) :
    0 ≤ (cellLineWS cells i k).w := by
  unfold cellLineWS
  cases hc : cells[i]? with
  | none => simp [blankWS]
  | some c =>
    simp only [List.getD_eq_getElem?_getD]
    cases hx : c.lws[k]? with
    | none => simp [blankWS]
    | some x => exact h c (List.mem_of_getElem? hc) x (List.mem_of_getElem? hx)

theorem cellLineWS_fits (cells : List RCell) (i k : Nat) (c : RCell) (hc : cells[i]? = some c)
    (h0 : 0 ≤ c.cellWidth) (hf : ∀ x ∈ c.lws, x.w ≤ c.cellWidth) :
    (cellLineWS cells i k).w ≤ c.cellWidth := by
  unfold cellLineWS
  simp only [hc, List.getD_eq_getElem?_getD]
  cases hx : c.lws[k]? with
  | none => simpa [blankWS] using h0
  | some x => exact hf x (List.mem_of_getElem? hx)

theorem ttEmitRow_of_lines (L I R : Bytes) (cw aligns : List Nat) (cells : List RCell) (n : Nat)
    (hrl : ∀ k, renderedLine L I R cw ((List.range n).map (fun c => cellLineWS cells c k)) aligns
        = .ok (contentLine L I R (rowSlots cw aligns cells k))) :
    (ttEmitRow L I R cw aligns cells n).res = .ok () ∧
    (ttEmitRow L I R cw aligns cells n).chunks = rowChunks L I R cw aligns cells n := by
  unfold ttEmitRow rowChunks
  rw [ttRowLines_eq]
  have hb : ∀ k, ((do
      let s ← lift (renderedLine L I R cw ((List.range n).map (fun c => cellLineWS cells c k)) aligns)
      write s) : Emit Unit) = write (contentLine L I R (rowSlots cw aligns cells k)) := by
    intro k
    simp only [bind_eq, hrl k, bind'_lift_ok]
  have := forM'_ok ((List.range (rowLineCount cells n)).map (fun l =>
      (List.range n).map (fun c => cellLineWS cells c l)))
    (fun lineParts => do
      let s ← lift (renderedLine L I R cw lineParts aligns)
      write s)
    (by
      intro x hx
      obtain ⟨k, _, rfl⟩ := List.mem_map.mp hx
      rw [hb k]; rfl)
  refine ⟨this.1, ?_⟩
  rw [this.2, List.flatMap_map]
  simp only [hb, write_chunks]
  generalize List.range (rowLineCount cells n) = ks
  induction ks with
  | nil => rfl
  | cons k t ih => simp [List.flatMap_cons, ih]

theorem range_map_getElem? {α : Type} (f : Nat → α) (n i : Nat) (h : i < n) :
    ((List.range n).map f)[i]? = some (f i) := by
  simp [List.getElem?_map, List.getElem?_range h]

theorem ttEmitRow_boxed (L I R : Bytes) (cw aligns : List Nat) (cells : List RCell) (n : Nat)
    (hL : L ≠ []) (hI : I ≠ []) (hR : R ≠ []) (hn : 1 ≤ n) (hcw : cw.length = n)
    (hal : aligns.length = n) (hal3 : ∀ a ∈ aligns, a ≤ 3)
    (hnn : ∀ c ∈ cells, ∀ x ∈ c.lws, 0 ≤ x.w) :
    (ttEmitRow L I R cw aligns cells n).res = .ok () ∧
    (ttEmitRow L I R cw aligns cells n).chunks = rowChunks L I R cw aligns cells n := by
  apply ttEmitRow_of_lines
  intro k
  have hne : cw ≠ [] := by intro h; rw [h] at hcw; simp at hcw; omega
  exact renderedLine_boxed L I R cw _ aligns (fun i => cellLineWS cells i k) hL hI hR hne
    (fun i hi => range_map_getElem? _ n i (by omega)) (by omega) hal3
    (fun i _ => cellLineWS_nonneg cells hnn i k)

theorem ttEmitRow_boxless (cw aligns : List Nat) (cells : List RCell) (n : Nat)
    (hcw : cw.length = n)
    (hal : aligns.length = n) (hal3 : ∀ a ∈ aligns, a ≤ 3)
    (hnn : ∀ c ∈ cells, ∀ x ∈ c.lws, 0 ≤ x.w) :
    (ttEmitRow [] [] [] cw aligns cells n).res = .ok () ∧
    (ttEmitRow [] [] [] cw aligns cells n).chunks = rowChunks [] [] [] cw aligns cells n := by
  apply ttEmitRow_of_lines
  intro k
  exact renderedLine_boxless cw _ aligns (fun i => cellLineWS cells i k)
    (fun i hi => range_map_getElem? _ n i (by omega)) (by omega) hal3
    (fun i _ => cellLineWS_nonneg cells hnn i k)

/-! ### alignments -/

theorem ttAligns_eq (v : RTable) (h : AlignOK v) : ttAligns v = .ok v.effAligns := by
  unfold ttAligns RTable.effAligns
  apply tt_mapM_except_ok
  intro i hi
  have hi' : i < v.ncols := by simpa using hi
  unfold RTable.effAlign
  rcases h (i + 1) (by omega) with h1 | ⟨a, _, h1⟩
  · rw [h1]
    rcases h 0 (by omega) with h0 | ⟨a, _, h0⟩
    · rw [h0]; rfl
    · rw [h0]; rfl
  · rw [h1]; rfl

theorem effAligns_le3 (v : RTable) (h : AlignOK v) : ∀ a ∈ v.effAligns, a ≤ 3 := by
  intro a ha
  unfold RTable.effAligns at ha
  obtain ⟨i, hi, rfl⟩ := List.mem_map.mp ha
  have hi' : i < v.ncols := by simpa using hi
  unfold RTable.effAlign
  rcases h (i + 1) (by omega) with h1 | ⟨a, ha, h1⟩
  · rw [h1]
    rcases h 0 (by omega) with h0 | ⟨a, ha, h0⟩
    · rw [h0]; simp [alignNum]
    · rw [h0]; simp only [alignNum]; omega
  · rw [h1]; simp only [alignNum]; omega

theorem effAligns_length (v : RTable) : v.effAligns.length = v.ncols := by simp [RTable.effAligns]
theorem colWidths_length (v : RTable) : v.colWidths.length = v.ncols := by simp [RTable.colWidths]

/-! ### column widths -/

theorem range_map_set {α : Type} (f : Nat → α) (n i : Nat) (x : α) :
    ((List.range n).map f).set i x = (List.range n).map (fun j => if j = i then x else f j) := by
  apply List.ext_getElem?
  intro j
  rw [List.getElem?_set]
  by_cases hj : j < n
  · simp only [List.getElem?_map, List.getElem?_range hj, Option.map_some, List.length_map, List.length_range]
    by_cases hij : i = j
    · subst hij; simp [hj]
    · have : ¬ j = i := fun h => hij h.symm
      simp [hij, this]
  · have h1 : ((List.range n).map f)[j]? = none := by simp; omega
    have h2 : ((List.range n).map (fun j => if j = i then x else f j))[j]? = none := by simp; omega
    rw [h1, h2]
    split
    · split
      · simp at *; omega
      · rfl
    · rfl

theorem ttWidenRow_eq (n : Nat) (cs : List RCell) (i : Nat) (f : Nat → Int) (h : i + cs.length ≤ n) :
    ttWidenRow n cs i ((List.range n).map f) = .ok ((List.range n).map (fun j =>
      if i ≤ j then (match cs[j - i]? with | some c => max (f j) c.cellWidth | none => f j) else f j)) := by
  induction cs generalizing i f with
  | nil => simp [ttWidenRow]
  | cons c cs ih =>
    have hi : i < n := by simp at h; omega
    unfold ttWidenRow
    have h1 : ¬ i > n := by omega
    simp only [h1, if_false, range_map_getElem? f n i hi]
    have hset : (if c.cellWidth > f i then ((List.range n).map f).set i c.cellWidth else (List.range n).map f)
        = (List.range n).map (fun j => if j = i then max (f i) c.cellWidth else f j) := by
      split
      · rw [range_map_set]; apply List.map_congr_left; intro j _; split
        · rw [Int.max_eq_right (by omega)]
        · rfl
      · apply List.map_congr_left; intro j _; split
        · rename_i hj; subst hj; rw [Int.max_eq_left (by omega)]
        · rfl
    rw [hset, ih (i + 1) _ (by simp at h; omega)]
    congr 1
    apply List.map_congr_left
    intro j _
    by_cases h1 : i + 1 ≤ j
    · have h2 : i ≤ j := by omega
      have h3 : ¬ j = i := by omega
      have h4 : j - i = (j - (i + 1)) + 1 := by omega
      simp only [h1, h2, h3, if_true, if_false]
      rw [h4, List.getElem?_cons_succ]
    · by_cases h2 : j = i
      · subst h2; simp; intro hh; omega
      · have : ¬ i ≤ j := by omega
        simp [h1, h2, this]

theorem ttWidenRows_eq (n : Nat) (rows : List (Option (List RCell))) (f : Nat → Int)
    (h : ∀ cells, some cells ∈ rows → cells.length ≤ n) :
    rows.foldlM (fun (ws : List Int) (r : Option (List RCell)) => match r with
      | none => (Except.ok ws : Except Stop (List Int))
      | some cells => ttWidenRow n cells 0 ws) ((List.range n).map f)
    = Except.ok ((List.range n).map (fun j =>
        (bodyColCells rows j).foldl (fun m c => max m c.cellWidth) (f j))) := by
  induction rows generalizing f with
  | nil => simp [bodyColCells]; rfl
  | cons r rows ih =>
    rw [List.foldlM_cons]
    have ih' := fun f => ih f (fun cells hc => h cells (by simp [hc]))
    cases r with
    | none =>
      show List.foldlM _ _ rows = _
      rw [ih']
      simp [bodyColCells]
    | some cells =>
      have hlen := h cells (by simp)
      show (ttWidenRow n cells 0 _ >>= fun ws => List.foldlM _ ws rows) = _
      rw [ttWidenRow_eq n cells 0 f (by omega)]
      show List.foldlM _ _ rows = _
      rw [ih']
      congr 1
      apply List.map_congr_left
      intro j _
      simp only [bodyColCells, List.filterMap_cons, Option.bind_some, Nat.zero_le, if_true, Nat.sub_zero]
      cases cells[j]? with
      | none => rfl
      | some c => rfl

theorem toNat_foldl_max (cs : List RCell) (a : Int) :
    (cs.foldl (fun m c => max m c.cellWidth) a).toNat
      = (cs.map (fun c => c.cellWidth.toNat)).foldl max a.toNat := by
  induction cs generalizing a with
  | nil => rfl
  | cons c t ih =>
    simp only [List.foldl_cons, List.map_cons]
    rw [ih]
    congr 1
    omega

theorem foldl_max_append (xs ys : List Nat) (a : Nat) :
    (xs ++ ys).foldl max a = ys.foldl max (xs.foldl max a) := by simp

/-- C03 column widths at function level: no panic, and (after the `toNat` the emitter applies)
    exactly the spec widths. -/
theorem ttColumnWidths_eq (v : RTable) (h : WFShape v) :
    ∃ wsI, ttColumnWidths v = .ok wsI ∧ wsI.map Int.toNat = v.colWidths := by
  unfold ttColumnWidths
  simp only []
  refine ⟨_, ttWidenRows_eq v.ncols v.rows _ h.2, ?_⟩
  unfold RTable.colWidths
  rw [List.map_map]
  apply List.map_congr_left
  intro j _
  simp only [Function.comp, toNat_foldl_max]
  unfold RTable.colWidth RTable.colCells maxNat
  rw [List.map_append, foldl_max_append]
  show _ = List.foldl max _ (List.map (fun c => c.cellWidth.toNat) (bodyColCells v.rows j))
  congr 1
  cases v.header with
  | none => rfl
  | some hs =>
    simp only
    cases hs[j]? with
    | none => rfl
    | some c => simp

/-! ### assembly: `renderTextBody` writes exactly `specChunks` -/

theorem ttEmitRow_ok (L I R : Bytes) (cw aligns : List Nat) (cells : List RCell) (n : Nat)
    (hd : DivsOK L I R) (hn : 1 ≤ n) (hcw : cw.length = n)
    (hal : aligns.length = n) (hal3 : ∀ a ∈ aligns, a ≤ 3)
    (hnn : ∀ c ∈ cells, ∀ x ∈ c.lws, 0 ≤ x.w) :
    (ttEmitRow L I R cw aligns cells n).res = .ok () ∧
    (ttEmitRow L I R cw aligns cells n).chunks = rowChunks L I R cw aligns cells n := by
  rcases hd with ⟨hL, hI, hR⟩ | ⟨hL, hI, hR⟩
  · exact ttEmitRow_boxed L I R cw aligns cells n hL hI hR hn hcw hal hal3 hnn
  · subst hL; subst hI; subst hR
    exact ttEmitRow_boxless cw aligns cells n hcw hal hal3 hnn

theorem tt_bind_unit_ok {β : Type} {m : Emit Unit} (h : m.res = .ok ()) (f : Unit → Emit β) :
    bind' m f = ⟨m.chunks ++ (f ()).chunks, (f ()).res⟩ := by
  unfold bind'; rw [h]

theorem tt_emit_seq {m : Emit Unit} {f : Unit → Emit Unit} {c1 c2 : List Bytes}
    (h1 : m.res = .ok () ∧ m.chunks = c1) (h2 : (f ()).res = .ok () ∧ (f ()).chunks = c2) :
    (bind' m f).res = .ok () ∧ (bind' m f).chunks = c1 ++ c2 := by
  rw [tt_bind_unit_ok h1.1]; exact ⟨h2.1, by rw [h1.2, h2.2]⟩

theorem tt_emit_write_seq (b : Bytes) {f : Unit → Emit Unit} {c2 : List Bytes}
    (h2 : (f ()).res = .ok () ∧ (f ()).chunks = c2) :
    (bind' (write b) f).res = .ok () ∧ (bind' (write b) f).chunks = b :: c2 := by
  rw [bind'_write]; exact ⟨h2.1, by rw [h2.2]⟩

theorem tt_forM_ok_chunks {α : Type} (xs : List α) (body : α → Emit Unit) (g : α → List Bytes)
    (h : ∀ x ∈ xs, (body x).res = .ok () ∧ (body x).chunks = g x) :
    (forM' xs body).res = .ok () ∧ (forM' xs body).chunks = xs.flatMap g := by
  have := forM'_ok xs body (fun x hx => (h x hx).1)
  refine ⟨this.1, ?_⟩
  rw [this.2]
  clear this
  induction xs with
  | nil => rfl
  | cons x t ih =>
    simp only [List.flatMap_cons]
    rw [(h x (by simp)).2, ih (fun y hy => h y (by simp [hy]))]

theorem renderTextBody_eq (d : Decoration) (v : RTable) (hn : 1 ≤ v.ncols) (hs : WFShape v) (ha : AlignOK v)
    (hdh : DivsOK d.vHeader d.vHeader d.vHeader) (hdb : DivsOK d.vBodyBorder d.vBodyInner d.vBodyBorder)
    (hnn : ∀ c ∈ v.allCells, ∀ x ∈ c.lws, 0 ≤ x.w) :
    (renderTextBody d v).res = .ok () ∧ (renderTextBody d v).chunks = specChunks d v := by
  obtain ⟨wsI, hws, hcw⟩ := ttColumnWidths_eq v hs
  have hrow : ∀ cells, (∀ c ∈ cells, c ∈ v.allCells) → ∀ L I R, DivsOK L I R →
      (ttEmitRow L I R v.colWidths v.effAligns cells v.ncols).res = .ok () ∧
      (ttEmitRow L I R v.colWidths v.effAligns cells v.ncols).chunks
        = rowChunks L I R v.colWidths v.effAligns cells v.ncols := by
    intro cells hc L I R hd
    exact ttEmitRow_ok L I R _ _ cells v.ncols hd hn (colWidths_length v) (effAligns_length v)
      (effAligns_le3 v ha) (fun c hcm => hnn c (hc c hcm))
  have hmem : ∀ cells, some cells ∈ v.rows → ∀ c ∈ cells, c ∈ v.allCells := by
    intro cells hr c hc
    unfold RTable.allCells
    apply List.mem_append_right
    exact List.mem_flatMap.mpr ⟨some cells, hr, hc⟩
  unfold renderTextBody specChunks
  simp only [bind_eq, hws, bind'_lift_ok, ttAligns_eq v ha, hcw]
  cases hh : v.header with
  | none =>
    simp only [List.cons_append, List.nil_append]
    refine tt_emit_write_seq _ (tt_emit_seq (tt_forM_ok_chunks _ _ _ ?_) ⟨rfl, rfl⟩)
    intro r hr
    cases r with
    | none => exact ⟨rfl, rfl⟩
    | some cells => exact hrow cells (hmem cells hr) _ _ _ hdb
  | some hs' =>
    have hhead := hrow hs' (fun c hc => by
      unfold RTable.allCells
      apply List.mem_append_left
      rw [hh]; exact hc) _ _ _ hdh
    simp only [List.cons_append, List.append_assoc, List.nil_append]
    refine tt_emit_write_seq _ (tt_emit_seq hhead (tt_emit_write_seq _ (tt_emit_seq (tt_forM_ok_chunks _ _ _ ?_) ⟨rfl, rfl⟩)))
    intro r hr
    cases r with
    | none => exact ⟨rfl, rfl⟩
    | some cells => exact hrow cells (hmem cells hr) _ _ _ hdb

end Tab
