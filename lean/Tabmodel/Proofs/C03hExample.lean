/-
  The concrete histories used by the non-vacuity examples of `Props/C03h.lean` (`dw := List.length`),
  and the decidable hypotheses of the theorems evaluated on them.
-/
import Tabmodel.Proofs.C03hDefs
import Tabmodel.Proofs.E2EcbExample
namespace Tab
open World hiding CellOK

namespace C03hExample

/-- a string item with text `s` -/
def strItem (s : Bytes) : Item :=
  { kind := .str s, mString := none, mGoString := none, mError := none, fmtV := s,
    mHeight := none, mWidth := none, json := none }

/-- "name", "ab\ncde", "x", "", and `nil` -/
def plainStore : List Item :=
  [strItem [110, 97, 109, 101], strItem [97, 98, 10, 99, 100, 101], strItem [120], strItem [],
   { strItem [] with kind := .nil }]

/-- the same store after item 2 was mutated to "wider\n!" -/
def plainStore2 : List Item := plainStore.set 2 (strItem [119, 105, 100, 101, 114, 10, 33])

/-- table 0: headers `name | x`; row 1 `"ab\ncde" | x`; a separator; a pre-built row 3 `x`; a
    by-value copy of cell (1,0) -/
def plainPre : List BuildOp :=
  [ .setItems plainStore, .newTable,
    .regCb (.table 0) .render .cell (.setProp 2 (.user 7) (some (.user 70))),
    .regCb (.table 0) .pre .itself (.fail 3 55),
    .addHeaders 0 [0, 2],            -- row id 0
    .addRowItems 0 [1, 2],           -- row id 1
    .addSeparator 0,                 -- row id 2
    .newRow, .rowAdd 3 2, .addRow 0 3,
    .copyCell 1 0 ]

/-- … the copy is added to row 3 (`Row.Add(copy)`); item 2 is mutated: cell (1,1) is `Update`d, the
    header cell (0,1) and cell (3,0) stay stale; a row made of the empty string, `nil` and an
    out-of-range item id; wrapped as text -/
def plainOps : List BuildOp :=
  plainPre ++
  [ .rowAddCell 3 ((run List.length plainPre).copies.getD 0 default),
    .setItems plainStore2, .updateCell 1 1,
    .addRowItems 0 [3, 4],
    .setProp (.column 0 2) .align (some (.align 2)) ] ++ wrapOps .text 0

theorem hv : Valid plainOps = true := by decide +kernel
theorem ht : 0 < (run e2eX.dw plainOps).tables.length := by decide +kernel
theorem hU : (run e2eX.dw plainOps).UserKeysOnly 0 := by decide +kernel
theorem hNt : Needs (run e2eX.dw plainOps) e2eText := by decide +kernel
theorem hNb : Needs (run e2eX.dw plainOps) e2eBoxless := by decide +kernel
theorem ha : AlignOK ((invokeRenderCallbacks e2eX.dw (run e2eX.dw plainOps) 0).view 0) :=
  alignOK_of_alignOKb _ (by decide +kernel)
theorem hn : 1 ≤ ((run e2eX.dw plainOps).table 0).nColumns := by decide +kernel
theorem hP : PlainItems e2eX.dw plainOps := by decide +kernel
theorem hcopy : (run List.length plainPre).copies.getD 0 default ∈ (run List.length plainPre).copies := by
  decide +kernel

/-- items that declare sizes: "abc" declaring width 5; "x" declaring height 3; a nested
    `tabular.Cell` "ab" (a `Cell` value declares both); "-" declaring width −1; "ab\ncd" declaring
    height 1 (smaller than its text); plain "abcdefg" -/
def fitStore : List Item :=
  [{ strItem [97, 98, 99] with mWidth := some 5 }, { strItem [120] with mHeight := some 3 },
   { strItem [97, 98] with kind := .cell [97, 98] 2 1 false, mWidth := some 2, mHeight := some 1 },
   { strItem [45] with mWidth := some (-1) }, { strItem [97, 98, 10, 99, 100] with mHeight := some 1 },
   strItem [97, 98, 99, 100, 101, 102, 103]]

/-- item 0 now declares width 2 and item 5 is shorter; nothing is `Update`d -/
def fitStore2 : List Item :=
  (fitStore.set 0 { strItem [97, 98, 99] with mWidth := some 2 }).set 5 (strItem [97])

def fitOps : List BuildOp :=
  [ .setItems fitStore, .newTable,
    .addHeaders 0 [0, 1, 5], .addRowItems 0 [2, 3, 4], .addRowItems 0 [4, 0],
    .setItems fitStore2 ] ++ wrapOps .text 0

theorem fhv : Valid fitOps = true := by decide +kernel
theorem fht : 0 < (run e2eX.dw fitOps).tables.length := by decide +kernel
theorem fhU : (run e2eX.dw fitOps).UserKeysOnly 0 := by decide +kernel
theorem fhNt : Needs (run e2eX.dw fitOps) e2eText := by decide +kernel
theorem fha : AlignOK ((invokeRenderCallbacks e2eX.dw (run e2eX.dw fitOps) 0).view 0) :=
  alignOK_of_alignOKb _ (by decide +kernel)
theorem fhn : 1 ≤ ((run e2eX.dw fitOps).table 0).nColumns := by decide +kernel
theorem fhF : FitItems e2eX.dw fitOps := by decide +kernel

/-- the documented exception: "ab\ncd" declaring width 1 -/
def badWidthOps : List BuildOp :=
  [ .setItems [{ strItem [97, 98, 10, 99, 100] with mWidth := some 1 }, strItem [120]], .newTable,
    .addHeaders 0 [1], .addRowItems 0 [0] ] ++ wrapOps .text 0

/-- an item id in use stops declaring a width and its cell is not `Update`d: "abcdef" declaring 3,
    replaced by a plain "abcdef" (not reachable in Go: an item's dynamic type is fixed) -/
def badStableOps : List BuildOp :=
  [ .setItems [{ strItem [97, 98, 99, 100, 101, 102] with mWidth := some 3 }, strItem [120]], .newTable,
    .addHeaders 0 [1], .addRowItems 0 [0],
    .setItems [strItem [97, 98, 99, 100, 101, 102], strItem [120]] ] ++ wrapOps .text 0

/-- the other direction: a plain "ab\ncd" whose item starts declaring a width (2) without `Update` -/
def lateDeclOps : List BuildOp :=
  [ .setItems [strItem [97, 98, 10, 99, 100], strItem [120]], .newTable,
    .addHeaders 0 [1], .addRowItems 0 [0],
    .setItems [{ strItem [97, 98, 10, 99, 100] with mWidth := some 2 }, strItem [120]] ] ++ wrapOps .text 0

/-- `NewCell(NewCell("ab\ncde"))`: a nested `tabular.Cell` (which declares both sizes) whose text has
    two lines and whose cached width 3 is its widest line — reachable in Go, renders as a rectangle -/
def nestedOps : List BuildOp :=
  [ .setItems [{ strItem [97, 98, 10, 99, 100, 101] with
                   kind := .cell [97, 98, 10, 99, 100, 101] 3 2 false, mWidth := some 3, mHeight := some 2 },
               strItem [120]], .newTable,
    .addHeaders 0 [1], .addRowItems 0 [0] ] ++ wrapOps .text 0

theorem nhv : Valid nestedOps = true := by decide +kernel
theorem nht : 0 < (run e2eX.dw nestedOps).tables.length := by decide +kernel
theorem nhU : (run e2eX.dw nestedOps).UserKeysOnly 0 := by decide +kernel
theorem nhNt : Needs (run e2eX.dw nestedOps) e2eText := by decide +kernel
theorem nha : AlignOK ((invokeRenderCallbacks e2eX.dw (run e2eX.dw nestedOps) 0).view 0) :=
  alignOK_of_alignOKb _ (by decide +kernel)
theorem nhn : 1 ≤ ((run e2eX.dw nestedOps).table 0).nColumns := by decide +kernel
theorem nhF : FitItemsW e2eX.dw nestedOps := by decide +kernel

end C03hExample
end Tab
