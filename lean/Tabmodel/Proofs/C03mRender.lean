/-
  C03m helpers, part 3: the per-line facts assembled for a whole render.
-/
import Tabmodel.Proofs.C03mAdd
import Tabmodel.Proofs.C03mGlyph
namespace Tab
open Emit

/-- `dw (spaces k) = k` from additivity across space|space and `dw " " = 1` -/
theorem dw_spaces_of_across (dw : Measure) (J : Junction) (hA : AdditiveAcross dw J)
    (hss : J.ok [SP] [SP]) (h1 : dw [SP] = 1) (k : Nat) : dw (spaces k) = k := by
  induction k with
  | zero => simpa [spaces] using dw_nil_of_across dw J hA
  | succ n ih =>
    rw [spaces_succ_right, hA [SP] (spaces n) ?_, h1, ih]; · omega
    cases n with
    | zero => exact Or.inr (Or.inl rfl)
    | succ m => exact Or.inr (Or.inr (ok_spaces_right J _ m hss))

theorem slot_mem_boxlessSegs (slots : List SlotD) (lp rp : Nat) (ws : WidthString)
    (h : Seg.slot lp ws rp ∈ boxlessSegs slots) : ∃ s ∈ slots, s.ws = ws := by
  induction slots with
  | nil => simp [boxlessSegs] at h
  | cons s t ih =>
    cases t with
    | nil =>
      simp [boxlessSegs, SlotD.seg] at h
      exact ⟨s, by simp, h.2.1.symm⟩
    | cons s' t' =>
      simp only [boxlessSegs, List.mem_cons, SlotD.seg] at h ih
      rcases h with h | h | h
      · simp at h; exact ⟨s, by simp, h.2.1.symm⟩
      · cases h
      · obtain ⟨x, hx, hxe⟩ := ih (by simpa [SlotD.seg] using h)
        exact ⟨x, List.mem_cons_of_mem _ (List.mem_cons.mpr hx), hxe⟩

/-- the entry of a row's line is measured when the row's cells are -/
theorem cellLineWS_measured (dw : Measure) (cells : List RCell) (i k : Nat) (h0 : dw [] = 0)
    (hm : ∀ c ∈ cells, CellMeasured dw c) :
    (cellLineWS cells i k).w = ((dw (cellLineWS cells i k).s : Nat) : Int) := by
  unfold cellLineWS
  cases hc : cells[i]? with
  | none => simp [blankWS, h0]
  | some c =>
    simp only [List.getD_eq_getElem?_getD]
    cases hx : c.lws[k]? with
    | none => simp [blankWS, h0]
    | some x => exact hm c (List.mem_of_getElem? hc) x (List.mem_of_getElem? hx)

/-- the entry of a row's line is a text line of one of the row's cells, or empty -/
theorem cellLineWS_text (dw : Measure) (cells : List RCell) (i k : Nat)
    (hok : ∀ c ∈ cells, CellOK dw c) :
    (cellLineWS cells i k).s = [] ∨ ∃ c ∈ cells, (cellLineWS cells i k).s ∈ lines c.text := by
  unfold cellLineWS
  cases hc : cells[i]? with
  | none => left; rfl
  | some c =>
    have hcm : c ∈ cells := List.mem_of_getElem? hc
    simp only []
    rw [(hok c hcm).text k, List.getD_eq_getElem?_getD]
    cases hl : (lines c.text)[k]? with
    | none => left; rfl
    | some l => right; exact ⟨c, hcm, by simpa using List.mem_of_getElem? hl⟩

theorem rowSlots_textSafe (dw : Measure) (J : Junction) (v : RTable) (cells : List RCell) (k : Nat)
    (hv : ViewOK dw v) (hrow : v.header = some cells ∨ some cells ∈ v.rows)
    (ht : ∀ c ∈ v.allCells, ∀ l ∈ lines c.text, TextSafe J l) :
    ∀ s ∈ rowSlots v.colWidths v.effAligns cells k, TextSafe J s.ws.s := by
  intro s hs
  obtain ⟨i, hi⟩ := slot_mem_rowSlots _ _ _ _ _ hs
  rw [hi]
  rcases cellLineWS_text dw cells i k (fun c hc => (hv c (mem_allCells v cells c hrow hc)).1) with h | ⟨c, hc, hl⟩
  · exact Or.inl h
  · exact ht c (mem_allCells v cells c hrow hc) _ hl

theorem rowSlots_measured (dw : Measure) (v : RTable) (cells : List RCell) (k : Nat) (h0 : dw [] = 0)
    (hrow : v.header = some cells ∨ some cells ∈ v.rows)
    (hm : ∀ c ∈ v.allCells, CellMeasured dw c) :
    ∀ s ∈ rowSlots v.colWidths v.effAligns cells k, s.ws.w = ((dw s.ws.s : Nat) : Int) := by
  intro s hs
  obtain ⟨i, hi⟩ := slot_mem_rowSlots _ _ _ _ _ hs
  rw [hi]
  exact cellLineWS_measured dw cells i k h0 (fun c hc => hm c (mem_allCells v cells c hrow hc))

/-- boxed render, per chunk kind: the segmentation of `lineKind_boxed` is a chain -/
theorem lineKind_boxed_chain (dw : Measure) (J : Junction) (d : Decoration) (v : RTable) (ch : Bytes)
    (hg : GlyphOK dw d) (hn : 1 ≤ v.ncols) (hv : ViewOK dw v) (hJ : GlyphJunctions J d)
    (ht : ∀ c ∈ v.allCells, ∀ l ∈ lines c.text, TextSafe J l) (hk : LineKind d v ch) :
    ∃ segs, ch = segBytes segs ++ [LF] ∧ segWidth dw segs = boxedWidth v.colWidths ∧
      divOffsets dw 0 segs = colOffsets 0 v.colWidths ∧
      chainFrom J [] (segs.flatMap Seg.atoms) ∧
      (∀ lp ws rp, Seg.slot lp ws rp ∈ segs → ∃ cells i k,
          (v.header = some cells ∨ some cells ∈ v.rows) ∧ ws = cellLineWS cells i k) := by
  have hne := colWidths_ne_nil v hn
  cases hk with
  | rule l h x r hm =>
    obtain ⟨h1, h2, h3, h4⟩ := hg.rule_one _ hm
    obtain ⟨j1, j2, j3, j4, j5⟩ := hJ.rule _ hm
    have hnz : l ≠ [] ∧ h ≠ [] ∧ x ≠ [] ∧ r ≠ [] := by
      simp only [ruleGlyphs, List.mem_cons, List.not_mem_nil, or_false, Prod.mk.injEq] at hm
      rcases hm with ⟨rfl, rfl, rfl, rfl⟩ | ⟨rfl, rfl, rfl, rfl⟩ | ⟨rfl, rfl, rfl, rfl⟩ |
        ⟨rfl, rfl, rfl, rfl⟩ | ⟨rfl, rfl, rfl, rfl⟩ <;>
        exact ⟨hg.ne _ (by simp), hg.ne _ (by simp), hg.ne _ (by simp), hg.ne _ (by simp)⟩
    exact ⟨ruleSegs l h x r v.colWidths, templateLine_boxed d _ l h x r hg.boxed,
      ruleSegs_width dw l h x r _ hne h1 h2 h3 h4, ruleSegs_offsets dw l h x r _ hne 0 h1 h2 h3,
      chain_ruleSegs J h x r _ hne hnz.2.1 hnz.2.2.1 hnz.2.2.2 j2 j3 j4 j5 l [] hnz.1 j1 (Or.inl rfl),
      fun lp ws rp hm => absurd hm (slot_not_mem_ruleSegs _ _ _ _ _ _ _ _)⟩
  | header hs k hh hk =>
    have hw := rowSlots_widths dw v hs k hv (Or.inl hh)
    have hsl : rowSlots v.colWidths v.effAligns hs k ≠ [] := lineSlots_ne_nil _ _ _ hne
    have h1 := hg.one d.vHeader (by simp)
    have hN := hg.ne d.vHeader (by simp)
    obtain ⟨ja, jb⟩ := hJ.div_sp d.vHeader (by simp)
    refine ⟨boxedSegs d.vHeader d.vHeader d.vHeader (rowSlots v.colWidths v.effAligns hs k),
      contentLine_boxed _ _ _ _ hN hsl, ?_, ?_, ?_, ?_⟩
    · rw [boxedSegs_width dw _ _ _ _ hsl h1 h1 h1, hw]
    · rw [boxedSegs_offsets dw _ _ _ _ hsl 0 h1 h1, hw]
    · exact chain_boxedSegs J _ _ _ _ hJ.sp_sp hN hN hN ja jb ja jb
        (rowSlots_textSafe dw J v hs k hv (Or.inl hh) ht)
    · intro lp ws rp hm
      simp only [boxedSegs, List.mem_cons] at hm
      rcases hm with hm | hm | hm
      · cases hm
      · cases hm
      · obtain ⟨s, hs1, hs2⟩ := slot_mem_boxedTail _ _ _ _ _ _ hm
        obtain ⟨i, hi⟩ := slot_mem_rowSlots _ _ _ _ _ hs1
        exact ⟨hs, i, k, Or.inl hh, by rw [← hs2, hi]⟩
  | body cells k hr hk =>
    have hw := rowSlots_widths dw v cells k hv (Or.inr hr)
    have hsl : rowSlots v.colWidths v.effAligns cells k ≠ [] := lineSlots_ne_nil _ _ _ hne
    have h1 := hg.one d.vBodyBorder (by simp)
    have h2 := hg.one d.vBodyInner (by simp)
    have hN1 := hg.ne d.vBodyBorder (by simp)
    have hN2 := hg.ne d.vBodyInner (by simp)
    obtain ⟨ja, jb⟩ := hJ.div_sp d.vBodyBorder (by simp)
    obtain ⟨jc, jd⟩ := hJ.div_sp d.vBodyInner (by simp)
    refine ⟨boxedSegs d.vBodyBorder d.vBodyInner d.vBodyBorder (rowSlots v.colWidths v.effAligns cells k),
      contentLine_boxed _ _ _ _ hN1 hsl, ?_, ?_, ?_, ?_⟩
    · rw [boxedSegs_width dw _ _ _ _ hsl h1 h2 h1, hw]
    · rw [boxedSegs_offsets dw _ _ _ _ hsl 0 h1 h2, hw]
    · exact chain_boxedSegs J _ _ _ _ hJ.sp_sp hN1 hN2 hN1 ja jd jc jb
        (rowSlots_textSafe dw J v cells k hv (Or.inr hr) ht)
    · intro lp ws rp hm
      simp only [boxedSegs, List.mem_cons] at hm
      rcases hm with hm | hm | hm
      · cases hm
      · cases hm
      · obtain ⟨s, hs1, hs2⟩ := slot_mem_boxedTail _ _ _ _ _ _ hm
        obtain ⟨i, hi⟩ := slot_mem_rowSlots _ _ _ _ _ hs1
        exact ⟨cells, i, k, Or.inr hr, by rw [← hs2, hi]⟩

/-- boxless render, per chunk kind -/
theorem lineKind_boxless_chain (dw : Measure) (J : Junction) (d : Decoration) (v : RTable) (ch : Bytes)
    (hb : BoxlessOK d) (hv : ViewOK dw v) (hss : J.ok [SP] [SP])
    (ht : ∀ c ∈ v.allCells, ∀ l ∈ lines c.text, TextSafe J l) (hk : LineKind d v ch) :
    ch = [] ∨ ∃ slots, ch = segBytes (boxlessSegs slots) ++ [LF] ∧
      slots.map SlotD.width = v.colWidths ∧
      segWidth dw (boxlessSegs slots) = boxlessWidth v.colWidths ∧
      chainFrom J [] ((boxlessSegs slots).flatMap Seg.atoms) ∧
      (∀ lp ws rp, Seg.slot lp ws rp ∈ boxlessSegs slots → ∃ cells i k,
          (v.header = some cells ∨ some cells ∈ v.rows) ∧ ws = cellLineWS cells i k) := by
  cases hk with
  | rule l h x r hm => exact Or.inl (templateLine_boxless d _ l h x r hb.boxless)
  | header hs k hh hk =>
    right
    have hw := rowSlots_widths dw v hs k hv (Or.inl hh)
    refine ⟨rowSlots v.colWidths v.effAligns hs k, ?_, hw, ?_, ?_, ?_⟩
    · rw [hb.vh]; exact contentLine_boxless _ _ _
    · rw [boxlessSegs_width, hw]
    · exact chain_boxlessSegs J _ hss (rowSlots_textSafe dw J v hs k hv (Or.inl hh) ht) [] allSp_nil
    · intro lp ws rp hm
      obtain ⟨s, hs1, hs2⟩ := slot_mem_boxlessSegs _ _ _ _ hm
      obtain ⟨i, hi⟩ := slot_mem_rowSlots _ _ _ _ _ hs1
      exact ⟨hs, i, k, Or.inl hh, by rw [← hs2, hi]⟩
  | body cells k hr hk =>
    right
    have hw := rowSlots_widths dw v cells k hv (Or.inr hr)
    refine ⟨rowSlots v.colWidths v.effAligns cells k, ?_, hw, ?_, ?_, ?_⟩
    · rw [hb.vb, hb.vi]; exact contentLine_boxless _ _ _
    · rw [boxlessSegs_width, hw]
    · exact chain_boxlessSegs J _ hss (rowSlots_textSafe dw J v cells k hv (Or.inr hr) ht) [] allSp_nil
    · intro lp ws rp hm
      obtain ⟨s, hs1, hs2⟩ := slot_mem_boxlessSegs _ _ _ _ hm
      obtain ⟨i, hi⟩ := slot_mem_rowSlots _ _ _ _ _ hs1
      exact ⟨cells, i, k, Or.inr hr, by rw [← hs2, hi]⟩

/-- a slot entry of a line of a measured view is measured -/
theorem slot_measured_of_src (dw : Measure) (v : RTable) (h0 : dw [] = 0)
    (hm : ∀ c ∈ v.allCells, CellMeasured dw c) (ws : WidthString)
    (h : ∃ cells i k, (v.header = some cells ∨ some cells ∈ v.rows) ∧ ws = cellLineWS cells i k) :
    ws.w = ((dw ws.s : Nat) : Int) := by
  obtain ⟨cells, i, k, hrow, rfl⟩ := h
  exact cellLineWS_measured dw cells i k h0 (fun c hc => hm c (mem_allCells v cells c hrow hc))

end Tab
