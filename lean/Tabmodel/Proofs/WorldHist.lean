/-
  Histories: each `BuildOp` of the model refines one step of the abstract machine, valid
  steps preserve the invariant, and the per-step laws for row lists and column counts.
-/
import Tabmodel.Proofs.WorldInv
namespace Tab

/-! ### refinement of one step and of a run -/

theorem shape_applyOp (dw : Measure) (w : World) (op : BuildOp) :
    (applyOp dw w op).shape = w.shape.step op := by
  cases op with
  | newTable => exact World.shape_newTable w
  | addHeaders t items => exact World.shape_addHeaders dw w t items
  | addRowItems t items => exact World.shape_addRowItems dw w t items
  | newRow => exact World.shape_newRow w {}
  | zeroRow => exact World.shape_newRow w { cells := none }
  | appendNewRow t => exact World.shape_appendNewRow dw w t
  | rowAdd r i => exact World.shape_rowAdd dw w r i
  | rowAddCell r ce => exact World.shape_rowAddCell dw w r ce
  | addRow t r => exact World.shape_addRow dw w t r
  | addSeparator t => exact World.shape_addSeparator w t
  | regCb o tm tg cb =>
    simp only [applyOp, Shape.step]
    cases h : w.registerCb o tm tg cb with
    | none => rfl
    | some w' => exact World.shape_registerCb w w' o tm tg cb h
  | setProp o k v => exact World.shape_setProp w o k v
  | addErr tk e => exact World.shape_addErrTo w tk e
  | setItems its => rfl
  | updateCell r c =>
    exact World.shape_modCell_id w r c _ (fun ce => World.geo_update dw _ ce)
  | copyCell r c =>
    simp only [applyOp, Shape.step]
    split <;> rfl
  | render t => exact World.shape_invokeRenderCallbacks dw w t

theorem shape_runFrom (dw : Measure) (w : World) (ops : List BuildOp) :
    (runFrom dw w ops).shape = w.shape.runFrom ops := by
  unfold runFrom Shape.runFrom
  induction ops generalizing w with
  | nil => rfl
  | cons op ops ih => simp only [List.foldl_cons]; rw [ih, shape_applyOp]

theorem shape_run (dw : Measure) (ops : List BuildOp) : (run dw ops).shape = Shape.runFrom {} ops :=
  shape_runFrom dw {} ops

namespace Shape

theorem isHeader_false {s : Shape} {r : Nat} (h : s.isHeader r = false) (t : Nat) :
    (s.table t).header ≠ some r := by
  by_cases ht : t < s.tables.length
  · intro e
    have hm : s.table t ∈ s.tables := by
      unfold table; rw [List.getD_eq_getElem?_getD, List.getElem?_eq_getElem ht]
      exact List.getElem_mem ht
    unfold isHeader at h
    rw [List.any_eq_false] at h
    have := h _ hm
    simp [e] at this
  · rw [table_oob s t (by omega)]; intro e; cases e

/-! ### valid steps preserve the invariant -/

theorem SInv.step {s : Shape} (h : SInv s) (op : BuildOp) (hok : s.ok op = true) : SInv (s.step op) := by
  cases op with
  | newTable =>
    refine ⟨?_, ?_, ?_, ?_, ?_, ?_, ?_, ?_, ?_, ?_⟩ <;>
      simp only [Shape.step, table_newTable, row_newTable, rows_newTable, width_newTable]
    · exact h.cols
    · exact h.rowsLt
    · exact h.hdrLt
    · exact h.att
    · exact h.back
    · exact h.hdrFree
    · exact h.wid
    · exact h.hwid
    · exact h.geo
    · exact h.sep
  | addHeaders t items => exact h.addHeaders t _ (by simpa [ok] using hok)
  | addRowItems t items => exact h.addRowItems t _ (by simpa [ok] using hok)
  | newRow => exact h.newRow {} rfl (Or.inl rfl) (by intro x; cases x)
  | zeroRow => exact h.newRow { cells := none } rfl (Or.inr rfl) (by intro x; cases x)
  | appendNewRow t => exact h.addRowItems t 0 (by simpa [ok] using hok)
  | rowAdd r i =>
    simp only [ok, Bool.and_eq_true, Bool.not_eq_true'] at hok
    exact h.rowAdd r (isHeader_false hok.2)
  | rowAddCell r ce =>
    simp only [ok, Bool.and_eq_true, Bool.not_eq_true'] at hok
    exact h.rowAdd r (isHeader_false hok.2)
  | addRow t r =>
    simp only [ok, Bool.and_eq_true, Bool.not_eq_true', decide_eq_true_eq, beq_iff_eq] at hok
    obtain ⟨⟨⟨ht, hr⟩, hfree⟩, hh⟩ := hok
    exact h.addRow t r ht hr hfree (isHeader_false hh)
  | addSeparator t => exact h.addSeparator t (by simpa [ok] using hok)
  | regCb o tm tg cb => exact h
  | setProp o k v => exact h
  | addErr tk e => exact h
  | setItems its => exact h
  | updateCell r c => exact h
  | copyCell r c => exact h
  | render t => exact h

theorem SInv.runFrom {s : Shape} (h : SInv s) (ops : List BuildOp) (hv : s.validFrom ops = true) :
    SInv (s.runFrom ops) := by
  unfold Shape.runFrom
  induction ops generalizing s with
  | nil => exact h
  | cons op ops ih =>
    simp only [validFrom, Bool.and_eq_true] at hv
    simp only [List.foldl_cons]
    exact ih (h.step op hv.1) hv.2

/-! ### per-step laws: row store, table lists, column counts -/

theorem step_rows_length (s : Shape) (op : BuildOp) : (s.step op).rows.length = s.rows.length + op.newRows := by
  cases op <;> simp only [Shape.step, BuildOp.newRows, Nat.add_zero]
  case newTable => rfl
  case addHeaders t items => exact addHeaders_rows_length s t _
  case addRowItems t items => exact addRowItems_rows_length s t _
  case newRow => simp
  case zeroRow => simp
  case appendNewRow t => exact addRowItems_rows_length s t 0
  case rowAdd r i => exact (skel_rowAdd s r).rowsLen
  case rowAddCell r ce => exact (skel_rowAdd s r).rowsLen
  case addRow t r => exact addRow_rows_length s t r
  case addSeparator t => exact addSeparator_rows_length s t

theorem step_tables_length (s : Shape) (op : BuildOp) :
    (s.step op).tables.length = s.tables.length + (match op with | .newTable => 1 | _ => 0) := by
  cases op <;> simp only [Shape.step, Nat.add_zero]
  case newTable => simp
  case addHeaders t items => exact addHeaders_tables_length s t _
  case addRowItems t items => exact addRowItems_tables_length s t _
  case newRow => rfl
  case zeroRow => rfl
  case appendNewRow t => exact addRowItems_tables_length s t 0
  case rowAdd r i => exact rowAdd_tables_length s r
  case rowAddCell r ce => exact rowAdd_tables_length s r
  case addRow t r => exact addRow_tables_length s t r
  case addSeparator t => exact addSeparator_tables_length s t

/-- every valid step appends exactly `op.attaches` to each table's list and never reorders it -/
theorem step_rows (s : Shape) (op : BuildOp) (hok : s.ok op = true) (t : Nat) :
    ((s.step op).table t).rows = (s.table t).rows ++ op.attaches t s.rows.length := by
  cases op <;> simp only [Shape.step, BuildOp.attaches, List.append_nil]
  case newTable => rw [table_newTable]
  case addHeaders t' items => exact addHeaders_rows s t' _ t
  case addRowItems t' items =>
    rw [addRowItems_rows _ _ _ _ (by simpa [ok] using hok)]
    by_cases e : t = t'
    · subst e; simp
    · have e' : ¬ t' = t := fun x => e x.symm
      simp [e, e']
  case newRow => rfl
  case zeroRow => rfl
  case appendNewRow t' =>
    rw [appendNewRow_eq, addRowItems_rows _ _ _ _ (by simpa [ok] using hok)]
    by_cases e : t = t'
    · subst e; simp
    · have e' : ¬ t' = t := fun x => e x.symm
      simp [e, e']
  case rowAdd r i => exact (skel_rowAdd s r).rows t
  case rowAddCell r ce => exact (skel_rowAdd s r).rows t
  case addRow t' r =>
    simp only [ok, Bool.and_eq_true, decide_eq_true_eq] at hok
    rw [addRow_rows _ _ _ _ hok.1.1.1]
    by_cases e : t = t'
    · subst e; simp
    · have e' : ¬ t' = t := fun x => e x.symm
      simp [e, e']
  case addSeparator t' =>
    rw [addSeparator_rows _ _ _ (by simpa [ok] using hok)]
    by_cases e : t = t'
    · subst e; simp
    · have e' : ¬ t' = t := fun x => e x.symm
      simp [e, e']

theorem runFrom_rows (s : Shape) (ops : List BuildOp) (hv : s.validFrom ops = true) (t : Nat) :
    ((s.runFrom ops).table t).rows = (s.table t).rows ++ attachedFrom t s.rows.length ops := by
  unfold Shape.runFrom
  induction ops generalizing s with
  | nil => simp [attachedFrom]
  | cons op ops ih =>
    simp only [validFrom, Bool.and_eq_true] at hv
    simp only [List.foldl_cons, attachedFrom]
    rw [ih _ hv.2, step_rows _ _ hv.1, step_rows_length, List.append_assoc]

end Shape

theorem attachedFrom_length (t n : Nat) (ops : List BuildOp) :
    (attachedFrom t n ops).length = attachCount t ops := by
  unfold attachCount
  induction ops generalizing n with
  | nil => rfl
  | cons op ops ih =>
    simp only [attachedFrom, List.length_append, ih, List.countP_cons]
    cases op <;> simp [BuildOp.attaches, BuildOp.isAttach] <;> split <;> simp_all <;> omega

end Tab
