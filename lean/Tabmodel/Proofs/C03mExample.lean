/-
  C03m helpers, part 4: concrete measures and junctions for the non-vacuity examples, and the
  glyph-side junctions of the built-in decorations.
-/
import Tabmodel.Proofs.C03mRender
import Tabmodel.Proofs.TextExample
namespace Tab
open Generated

/-! ### whole code points -/

theorem cpOfExact_len (g : Bytes) (c : Nat) (h : cpOfExact g = some c) : g.length ∈ [1, 2, 3, 4] := by
  rcases g with _ | ⟨a, _ | ⟨b, _ | ⟨c', _ | ⟨d, _ | ⟨e, t⟩⟩⟩⟩⟩ <;> simp [cpOfExact] at h ⊢

theorem startsCp_of_exact (p : Nat → Bool) (g : Bytes) (c : Nat) (h : cpOfExact g = some c)
    (hp : p c = true) : startsCp p g = true := by
  unfold startsCp
  rw [List.any_eq_true]
  refine ⟨g.length, cpOfExact_len g c h, ?_⟩
  simp [h, hp]

theorem endsCp_of_exact (p : Nat → Bool) (g : Bytes) (c : Nat) (h : cpOfExact g = some c)
    (hp : p c = true) : endsCp p g = true := by
  unfold endsCp
  rw [List.any_eq_true]
  refine ⟨g.length, cpOfExact_len g c h, ?_⟩
  simp [h, hp]

/-- code points that neither attach to a neighbour nor are attached to: space, `+ - |`, and the
    box-drawing block U+2500–U+257F -/
def boxCp (c : Nat) : Bool :=
  c == 32 || c == 43 || c == 45 || c == 124 || (0x2500 ≤ c && c ≤ 0x257F)

/-- every render glyph of `d` is exactly one well-formed code point in `boxCp` -/
def glyphsAreBoxCp (d : Decoration) : Bool :=
  (renderGlyphs d).all (fun g => match cpOfExact g with | some c => boxCp c | none => false)

/-- regenerated fact: every glyph of every boxed built-in is one code point of `boxCp` -/
theorem builtins_boxCp : ∀ p ∈ builtins, p.2.isBoxless = false → glyphsAreBoxCp p.2 = true := by decide

theorem glyphJunctions_of_boxCp (e s : Nat → Bool) (d : Decoration) (hd : glyphsAreBoxCp d = true)
    (hes : ∀ c, boxCp c = true → e c = true ∧ s c = true) : GlyphJunctions (Junction.cps e s) d := by
  have hG : ∀ g, g ∈ renderGlyphs d ∨ g = [SP] → endsCp e g = true ∧ startsCp s g = true := by
    intro g hg
    rcases hg with hg | rfl
    · unfold glyphsAreBoxCp at hd
      rw [List.all_eq_true] at hd
      have := hd g hg
      cases hc : cpOfExact g with
      | none => rw [hc] at this; cases this
      | some c =>
        rw [hc] at this
        exact ⟨endsCp_of_exact e g c hc (hes c this).1, startsCp_of_exact s g c hc (hes c this).2⟩
    · have hc : cpOfExact [SP] = some 32 := by decide
      exact ⟨endsCp_of_exact e _ 32 hc (hes 32 (by decide)).1, startsCp_of_exact s _ 32 hc (hes 32 (by decide)).2⟩
  have ok : ∀ a b, a ∈ renderGlyphs d ∨ a = [SP] → b ∈ renderGlyphs d ∨ b = [SP] →
      (Junction.cps e s).ok a b := fun a b ha hb => ⟨(hG a ha).1, (hG b hb).2⟩
  refine ⟨ok _ _ (Or.inr rfl) (Or.inr rfl), ?_, ?_⟩
  · intro g hg
    have : g ∈ renderGlyphs d := by
      simp only [List.mem_cons, List.not_mem_nil, or_false] at hg
      rcases hg with rfl | rfl | rfl <;> simp [renderGlyphs]
    exact ⟨ok _ _ (Or.inl this) (Or.inr rfl), ok _ _ (Or.inr rfl) (Or.inl this)⟩
  · intro q hq
    have : q.1 ∈ renderGlyphs d ∧ q.2.1 ∈ renderGlyphs d ∧ q.2.2.1 ∈ renderGlyphs d ∧
        q.2.2.2 ∈ renderGlyphs d := by
      simp only [ruleGlyphs, List.mem_cons, List.not_mem_nil, or_false] at hq
      rcases hq with rfl | rfl | rfl | rfl | rfl <;> simp [renderGlyphs]
    obtain ⟨m1, m2, m3, m4⟩ := this
    exact ⟨ok _ _ (Or.inl m1) (Or.inl m2), ok _ _ (Or.inl m2) (Or.inl m2), ok _ _ (Or.inl m2) (Or.inl m3),
      ok _ _ (Or.inl m3) (Or.inl m2), ok _ _ (Or.inl m2) (Or.inl m4)⟩

/-- the code-point ranges `rs` contain none of the `boxCp` code points (decidable) -/
def rangesAvoidBox (rs : List (Nat × Nat)) : Bool :=
  rs.all (fun r => !(r.1 ≤ 32 && 32 ≤ r.2) && !(r.1 ≤ 43 && 43 ≤ r.2) && !(r.1 ≤ 45 && 45 ≤ r.2) &&
    !(r.1 ≤ 124 && 124 ≤ r.2) && (r.2 < 0x2500 || 0x257F < r.1))

theorem inRanges_box (rs : List (Nat × Nat)) (h : rangesAvoidBox rs = true) (c : Nat)
    (hc : boxCp c = true) : inRanges rs c = false := by
  unfold inRanges
  rw [List.any_eq_false]
  intro r hr
  unfold rangesAvoidBox at h
  rw [List.all_eq_true] at h
  have h' := h r hr
  simp only [boxCp, Bool.or_eq_true, Bool.and_eq_true, beq_iff_eq, decide_eq_true_eq] at hc
  simp only [Bool.and_eq_true, Bool.not_eq_true', Bool.and_eq_false_iff, decide_eq_false_iff_not,
    Bool.or_eq_true, decide_eq_true_eq] at h' ⊢
  omega

theorem boxCp_clusters (jp jn : List (Nat × Nat)) (h1 : rangesAvoidBox jp = true)
    (h2 : rangesAvoidBox jn = true) :
    ∀ c, boxCp c = true → (!inRanges jn c) = true ∧ (!inRanges jp c) = true := by
  intro c hc
  rw [inRanges_box jn h2 c hc, inRanges_box jp h1 c hc]
  exact ⟨rfl, rfl⟩

/-! ### a toy measure with go-runewidth's D20 behaviour

  One cell per UTF-8 lead / ASCII / stray byte (continuation bytes count nothing), except that `^`
  (94) attaches to the character before it (width 0) — unless it is the first byte of the measured
  string, where it stands alone (width 1), like a spacing mark or an emoji modifier.  It agrees with
  the library's glyph table, is NOT additive, but is additive across every boundary whose right-hand
  side does not start with `^`. -/

def toyDw (s : Bytes) : Nat :=
  (s.filter (fun b => !isCont b && b != 94)).length + (if s.head? = some 94 then 1 else 0)

/-- the junction for `toyDw`: `^` joins the previous character, nothing joins the next one -/
abbrev toyJ : Junction := Junction.clusters [(94, 94)] []

theorem toyDw_not_additive : ¬ ∀ a b, toyDw (a ++ b) = toyDw a + toyDw b := by
  intro h
  have := h [97] [94, 98]
  revert this
  decide

theorem startsCp_head_ne (b : Bytes) (h : startsCp (fun c => !inRanges [(94, 94)] c) b = true) :
    b.head? ≠ some 94 := by
  intro hb
  rcases b with _ | ⟨b0, rest⟩
  · simp at hb
  · simp only [List.head?_cons, Option.some.injEq] at hb
    subst hb
    unfold startsCp at h
    rw [List.any_eq_true] at h
    obtain ⟨k, hk, hx⟩ := h
    simp only [List.mem_cons, List.not_mem_nil, or_false] at hk
    rcases hk with rfl | rfl | rfl | rfl
    · revert hx; simp [cpOfExact, inRanges]
    · rcases rest with _ | ⟨b1, r1⟩
      · revert hx; simp
      · revert hx; simp [cpOfExact]
    · rcases rest with _ | ⟨b1, _ | ⟨b2, r2⟩⟩
      · revert hx; simp
      · revert hx; simp
      · revert hx; simp [cpOfExact]
    · rcases rest with _ | ⟨b1, _ | ⟨b2, _ | ⟨b3, r3⟩⟩⟩
      · revert hx; simp
      · revert hx; simp
      · revert hx; simp
      · revert hx; simp [cpOfExact]

theorem endsCp_ne_nil (p : Nat → Bool) (a : Bytes) (h : endsCp p a = true) : a ≠ [] := by
  rintro rfl
  revert h
  simp [endsCp]

theorem toyDw_across : AdditiveAcross toyDw toyJ := by
  intro a b hab
  rcases hab with rfl | rfl | ⟨h1, h2⟩
  · simp [toyDw]
  · simp [toyDw]
  · have ha : a ≠ [] := endsCp_ne_nil _ a h1
    have hb : b.head? ≠ some 94 := by
      apply startsCp_head_ne
      simpa [toyJ, Junction.clusters, Junction.cps] using h2
    have hh : (a ++ b).head? = a.head? := by
      cases a with
      | nil => exact absurd rfl ha
      | cons x t => rfl
    unfold toyDw
    rw [hh, List.filter_append, List.length_append]
    simp only [hb, if_false]
    omega

theorem toyDw_sp : toyDw [SP] = 1 := by decide

theorem toyDw_table : TableAgrees toyDw := by unfold TableAgrees; decide

/-- the example view of `TextExample` (ASCII texts) is also measured by `toyDw` -/
theorem toy_hall : ∀ c ∈ TextExample.exView.allCells,
    CellOK toyDw c ∧ CellFits c ∧ CellMeasured toyDw c := by
  intro c hc
  simp only [RTable.allCells, TextExample.exView, List.flatMap_cons, List.flatMap_nil, List.append_nil,
    List.mem_append, List.mem_cons, List.not_mem_nil, or_false, false_or] at hc
  rcases hc with (rfl | rfl) | (rfl | rfl) | rfl
  · exact measuredCell_ok toyDw [97]
  · exact measuredCell_ok toyDw [98, 98]
  · exact measuredCell_ok toyDw [99, 99, 99, 10, 100]
  · exact measuredCell_ok toyDw [101]
  · exact measuredCell_ok toyDw [102]

theorem toy_hv : ViewOK toyDw TextExample.exView := fun c hc => ⟨(toy_hall c hc).1, (toy_hall c hc).2.1⟩

namespace C03mExample

theorem len_add : ∀ a b : Bytes, List.length (a ++ b) = List.length a + List.length b :=
  fun _ _ => List.length_append
/-- `heavy` under the name it is registered with ("utf8-heavy") -/
abbrev heavyP : Bytes × Decoration := ([117, 116, 102, 56, 45, 104, 101, 97, 118, 121], heavy)
theorem heavy_mem : heavyP ∈ builtins := by decide
theorem toy_box : ∀ c, boxCp c = true → (!inRanges [] c) = true ∧ (!inRanges [(94, 94)] c) = true :=
  boxCp_clusters _ _ (by decide) (by decide)

end C03mExample

end Tab
