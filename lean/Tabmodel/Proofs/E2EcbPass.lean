/-
  E2Ecb helpers, part 4: the render pass as a whole, from the static schedule:
  which targets and takers occur in it, which steps address a given column, and the resulting
  statements about `invokeRenderCallbacks` (error lists, column chains, frame).
-/
import Tabmodel.Proofs.E2EcbRun
import Tabmodel.Proofs.C13xRender
set_option linter.unusedSimpArgs false
namespace Tab

/-- the user-visible events of a list of steps (`userEvents` of C13x, step by step) -/
def stepEvents (ss : List Step) : List Event := ss.flatMap (fun s => userEvents [s.cb] s.tgt)

namespace E2Ecb
open World

/-! ### who occurs in the schedule -/

theorem mem_stepsOf {s : Step} {cbs : List Cb} {tgt : Target} {tk : Taker} (h : s ∈ stepsOf cbs tgt tk) :
    s.tgt = tgt ∧ s.tk = tk ∧ s.cb ∈ cbs := by
  unfold stepsOf at h
  rw [List.mem_map] at h
  obtain ⟨cb, hcb, e⟩ := h
  subst e
  exact ⟨rfl, rfl, hcb⟩

theorem mem_cellSteps {w : World} {t r i : Nat} {s : Step} (h : s ∈ cellSteps w t r i) :
    s.tgt = .cell r i ∧ (s.tk = .table t ∨ s.tk = rowECTaker w r) := by
  unfold cellSteps at h
  simp only [List.mem_append] at h
  rcases h with ((((((h | h) | h) | h) | h) | h) | h) | h <;>
    first
    | exact ⟨(mem_stepsOf h).1, Or.inl (mem_stepsOf h).2.1⟩
    | exact ⟨(mem_stepsOf h).1, Or.inr (mem_stepsOf h).2.1⟩

theorem mem_rowSteps {w : World} {t r : Nat} {s : Step} (h : s ∈ rowSteps w t r) :
    (s.tgt = .row r ∨ ∃ i, s.tgt = .cell r i) ∧ (s.tk = .table t ∨ s.tk = rowECTaker w r) := by
  unfold rowSteps at h
  simp only [List.mem_append, List.mem_flatMap] at h
  rcases h with (h | ⟨i, _, h⟩) | h
  · exact ⟨Or.inl (mem_stepsOf h).1, Or.inl (mem_stepsOf h).2.1⟩
  · exact ⟨Or.inr ⟨i, (mem_cellSteps h).1⟩, (mem_cellSteps h).2⟩
  · exact ⟨Or.inl (mem_stepsOf h).1, Or.inl (mem_stepsOf h).2.1⟩

theorem mem_colsSteps {w : World} {t : Nat} {tm : Time} {s : Step} (h : s ∈ colsSteps w t tm) :
    (∃ j, s.tgt = .column t j) ∧ s.tk = .table t := by
  unfold colsSteps colSteps at h
  simp only [List.mem_flatMap] at h
  obtain ⟨j, _, h⟩ := h
  exact ⟨⟨j, (mem_stepsOf h).1⟩, (mem_stepsOf h).2.1⟩

/-- every step of a pass over `t`: its target is the table, one of its columns, a visited row or a
    cell of one; its taker is the table or the container of a visited row -/
theorem mem_passSteps {w : World} {t : Nat} {s : Step} (h : s ∈ passSteps w t) :
    (s.tgt = .table t ∨ (∃ j, s.tgt = .column t j) ∨
      ∃ r ∈ passRows w t, s.tgt = .row r ∨ ∃ i, s.tgt = .cell r i) ∧
    (s.tk = .table t ∨ ∃ r ∈ passRows w t, s.tk = rowECTaker w r) := by
  unfold passSteps at h
  simp only [List.mem_append, List.mem_flatMap] at h
  rcases h with (((h | h) | ⟨r, hr, h⟩) | h) | h
  · exact ⟨Or.inl (mem_stepsOf h).1, Or.inl (mem_stepsOf h).2.1⟩
  · exact ⟨Or.inr (Or.inl (mem_colsSteps h).1), Or.inl (mem_colsSteps h).2⟩
  · refine ⟨Or.inr (Or.inr ⟨r, hr, (mem_rowSteps h).1⟩), ?_⟩
    rcases (mem_rowSteps h).2 with h' | h'
    · exact Or.inl h'
    · exact Or.inr ⟨r, hr, h'⟩
  · exact ⟨Or.inr (Or.inl (mem_colsSteps h).1), Or.inl (mem_colsSteps h).2⟩
  · exact ⟨Or.inl (mem_stepsOf h).1, Or.inl (mem_stepsOf h).2.1⟩

theorem rowECTaker_cases (w : World) (r : Nat) :
    w.rowECTaker r = .drop ∨ w.rowECTaker r = .rowOwn r ∨ ∃ t, w.rowECTaker r = .table t := by
  unfold World.rowECTaker
  cases (w.row r).ec with
  | none => exact Or.inl rfl
  | own es => exact Or.inr (Or.inl rfl)
  | table t => exact Or.inr (Or.inr ⟨t, rfl⟩)

/-! ### a table that does not exist -/

theorem table_oob {w : World} {t : Nat} (h : w.tables.length ≤ t) : w.table t = {} := by
  unfold World.table
  simp [List.getD_eq_getElem?_getD, List.getElem?_eq_none h]

theorem passSteps_oob {w : World} {t : Nat} (h : w.tables.length ≤ t) : passSteps w t = [] := by
  have h0 := table_oob h
  have hc : ∀ tm, colSteps w t tm 0 = [] := by
    intro tm
    unfold colSteps World.column?
    rw [h0]
    cases tm <;> rfl
  unfold passSteps colsSteps passRows
  rw [h0]
  simp only [List.length_cons, List.length_nil, List.range_succ, List.range_zero, List.nil_append,
    List.flatMap_cons, List.flatMap_nil, hc, List.append_nil, Option.toList]
  rfl

/-! ### the steps that address one column -/

theorem filter_stepsOf (cbs : List Cb) (tgt : Target) (tk : Taker) (x : Target) :
    (stepsOf cbs tgt tk).filter (fun s => decide (s.tgt = x)) = if tgt = x then stepsOf cbs tgt tk else [] := by
  unfold stepsOf
  by_cases h : tgt = x
  · simp only [h, if_true]
    rw [List.filter_eq_self]
    intro s hs
    rw [List.mem_map] at hs
    obtain ⟨cb, _, e⟩ := hs
    subst e
    simp
  · simp only [h, if_false]
    rw [List.filter_eq_nil_iff]
    intro s hs
    rw [List.mem_map] at hs
    obtain ⟨cb, _, e⟩ := hs
    subst e
    simp [h]

theorem filter_nil_of_tgt {ss : List Step} {x : Target} (h : ∀ s ∈ ss, s.tgt ≠ x) :
    ss.filter (fun s => decide (s.tgt = x)) = [] := by
  rw [List.filter_eq_nil_iff]
  intro s hs
  simp [h s hs]

theorem filter_range_flatMap (f : Nat → List Step) (p : Step → Bool) (n : Nat)
    (hne : ∀ j, j ≠ n → (f j).filter p = []) (heq : (f n).filter p = f n) :
    ∀ m, ((List.range m).flatMap f).filter p = if n < m then f n else [] := by
  intro m
  induction m with
  | zero => simp
  | succ m ih =>
    rw [List.range_succ, List.flatMap_append, List.filter_append, ih]
    simp only [List.flatMap_cons, List.flatMap_nil, List.append_nil]
    by_cases h1 : n < m
    · have : m ≠ n := by omega
      simp [h1, hne m this, Nat.lt_succ_of_lt h1]
    · by_cases h2 : n = m
      · subst h2; simp [heq]
      · have h3 : ¬ n < m + 1 := by omega
        simp [h1, h3, hne m (fun e => h2 e.symm)]

theorem filter_colsSteps (w : World) (t : Nat) (tm : Time) (n : Nat) :
    (colsSteps w t tm).filter (fun s => decide (s.tgt = .column t n)) = colSteps w t tm n := by
  unfold colsSteps
  rw [filter_range_flatMap (colSteps w t tm) _ n]
  · by_cases h : n < (w.table t).columns.length
    · simp [h]
    · simp only [h, if_false]
      unfold colSteps World.column?
      rw [List.getElem?_eq_none (Nat.le_of_not_lt h)]
      rfl
  · intro j hj
    unfold colSteps
    rw [filter_stepsOf]
    simp [hj]
  · unfold colSteps
    rw [filter_stepsOf]
    simp

/-- the callbacks invoked on column `n` of `t` itself during a pass: its own pre-time list, then its
    own post-time list -/
theorem filter_col_passSteps (w : World) (t n : Nat) :
    ((passSteps w t).filter (fun s => decide (s.tgt = .column t n))).map (·.cb) =
      ((w.column? t n).map (fun c => c.selfCbs.pre ++ c.selfCbs.post)).getD [] := by
  unfold passSteps
  simp only [List.filter_append, filter_colsSteps, filter_stepsOf, reduceCtorEq, if_false, List.nil_append,
    List.append_nil]
  have hrows : ((passRows w t).flatMap (rowSteps w t)).filter (fun s => decide (s.tgt = .column t n)) = [] := by
    apply filter_nil_of_tgt
    intro s hs
    rw [List.mem_flatMap] at hs
    obtain ⟨r, _, hs⟩ := hs
    rcases (mem_rowSteps hs).1 with h | ⟨i, h⟩ <;> rw [h] <;> simp
  rw [hrows, List.append_nil]
  unfold colSteps stepsOf
  cases w.column? t n with
  | none => rfl
  | some c => simp [CbSet.at, List.map_append, List.map_map, Function.comp_def]

/-! ### the schedule and the documented event order of C13x -/

theorem stepEvents_append (a b : List Step) : stepEvents (a ++ b) = stepEvents a ++ stepEvents b := by
  simp [stepEvents, List.flatMap_append]

theorem stepEvents_stepsOf (cbs : List Cb) (tgt : Target) (tk : Taker) :
    stepEvents (stepsOf cbs tgt tk) = userEvents cbs tgt := by
  induction cbs with
  | nil => rfl
  | cons cb cbs ih =>
    rw [C13x.userEvents_cons, ← ih]
    simp [stepEvents, stepsOf]

theorem stepEvents_flatMap {α : Type} (l : List α) (f : α → List Step) :
    stepEvents (l.flatMap f) = l.flatMap (fun a => stepEvents (f a)) := by
  simp [stepEvents, List.flatMap_assoc]

theorem stepEvents_cellSteps (w : World) (t r i : Nat) :
    stepEvents (cellSteps w t r i) = cellExpectedAny w t r i := by
  unfold cellSteps cellExpectedAny
  simp only [stepEvents_append, stepEvents_stepsOf, C13.colCellCbs_eq, C13.cellOwn_eq]
  rfl

theorem stepEvents_rowSteps (w : World) (t r : Nat) : stepEvents (rowSteps w t r) = rowExpectedAny w t r := by
  unfold rowSteps rowExpectedAny
  simp only [stepEvents_append, stepEvents_stepsOf, stepEvents_flatMap, stepEvents_cellSteps]
  rfl

theorem stepEvents_colsSteps (w : World) (t : Nat) (tm : Time) :
    stepEvents (colsSteps w t tm) = colsExpectedAny w t tm := by
  unfold colsSteps colsExpectedAny colSteps
  simp only [stepEvents_flatMap, stepEvents_stepsOf, C13.colSelf_eq]

/-- the user events of the schedule are the documented list of `c13x_render_order` -/
theorem stepEvents_passSteps (w : World) (t : Nat) : stepEvents (passSteps w t) = expectedRenderAny w t := by
  unfold passSteps expectedRenderAny passRows renderRows
  simp only [stepEvents_append, stepEvents_stepsOf, stepEvents_flatMap, stepEvents_rowSteps, stepEvents_colsSteps]
  rfl

/-! ### the pass -/

theorem irc_errs (dw : Measure) (w : World) (t t2 : Nat) (ht : t2 < w.tables.length) :
    ((invokeRenderCallbacks dw w t).table t2).errs =
      (w.table t2).errs ++ (passSteps w t).filterMap (Step.errTo t2) := by
  rw [irc_sched, errs_runSteps dw _ w t2 (passSteps_eager w t) ht]

theorem irc_tables_length (dw : Measure) (w : World) (t : Nat) :
    (invokeRenderCallbacks dw w t).tables.length = w.tables.length := by
  rw [irc_sched, tables_length_runSteps]

theorem irc_rows_length (dw : Measure) (w : World) (t : Nat) :
    (invokeRenderCallbacks dw w t).rows.length = w.rows.length := by
  rw [irc_sched, rows_length_runSteps]

theorem irc_items (dw : Measure) (w : World) (t : Nat) : (invokeRenderCallbacks dw w t).items = w.items := by
  rw [irc_sched, items_runSteps]

theorem irc_copies (dw : Measure) (w : World) (t : Nat) : (invokeRenderCallbacks dw w t).copies = w.copies := by
  rw [irc_sched, copies_runSteps]
  intro s hs n
  rcases (mem_passSteps hs).1 with h | ⟨j, h⟩ | ⟨r, _, h | ⟨i, h⟩⟩ <;> rw [h] <;> simp

/-- a row the pass does not visit is untouched (properties, cells, container and all) -/
theorem irc_row_other (dw : Measure) (w : World) (t r0 : Nat) (h0 : r0 ∉ passRows w t) :
    (invokeRenderCallbacks dw w t).row r0 = w.row r0 := by
  rw [irc_sched]
  apply row_runSteps_other
  intro s hs
  obtain ⟨htgt, htk⟩ := mem_passSteps hs
  have hne : ∀ r ∈ passRows w t, r ≠ r0 := fun r hr e => h0 (e ▸ hr)
  refine ⟨?_, ?_, ?_, ?_⟩
  · rcases htgt with h | ⟨j, h⟩ | ⟨r, hr, h | ⟨i, h⟩⟩ <;> rw [h] <;> simp
    exact hne r hr
  · intro c
    rcases htgt with h | ⟨j, h⟩ | ⟨r, hr, h | ⟨i, h⟩⟩ <;> rw [h] <;> simp
    intro e; exact absurd e (hne r hr)
  · rcases htk with h | ⟨r, hr, h⟩
    · rw [h]; simp
    · rw [h]
      rcases rowECTaker_cases w r with h' | h' | ⟨t', h'⟩ <;> rw [h'] <;> simp
      exact hne r hr
  · rcases htk with h | ⟨r, hr, h⟩
    · rw [h]; simp
    · rw [h]
      rcases rowECTaker_cases w r with h' | h' | ⟨t', h'⟩ <;> rw [h'] <;> simp

/-- another table keeps everything but, possibly, its error list (a visited row may share that
    table's container) -/
theorem irc_table_other (dw : Measure) (w : World) (t t2 : Nat) (h : t2 ≠ t) :
    ((invokeRenderCallbacks dw w t).table t2).noErrs = (w.table t2).noErrs := by
  rw [irc_sched]
  apply noErrs_runSteps_other
  intro s hs
  have h' : t ≠ t2 := fun e => h e.symm
  rcases (mem_passSteps hs).1 with h1 | ⟨j, h1⟩ | ⟨r, _, h1 | ⟨i, h1⟩⟩ <;> rw [h1] <;> simp [h']

/-- the chain of each column record of `t` after the pass: the chain before, with the column's own
    pre-time and then post-time callbacks applied in registration order -/
theorem irc_colProps (dw : Measure) (w : World) (t : Nat) :
    ((invokeRenderCallbacks dw w t).table t).columns.map (·.props) =
      (w.table t).columns.map (fun c => (c.selfCbs.pre ++ c.selfCbs.post).foldl Cb.applyChain c.props) := by
  by_cases ht : t < w.tables.length
  · apply List.ext_getElem?
    intro n
    have := colProps_runSteps dw (passSteps w t) w t n ht
    rw [← irc_sched, filter_col_passSteps] at this
    simp only [List.getElem?_map]
    unfold World.column? at this
    rw [this]
    cases (w.table t).columns[n]? <;> rfl
  · have hp := passSteps_oob (Nat.le_of_not_lt ht)
    rw [irc_sched, hp, runSteps_nil, table_oob (Nat.le_of_not_lt ht)]
    rfl

theorem filterMap_congr_on {α β : Type} {l : List α} {f g : α → Option β} (h : ∀ a ∈ l, f a = g a) :
    l.filterMap f = l.filterMap g := by
  induction l with
  | nil => rfl
  | cons a l ih =>
    simp only [List.filterMap_cons, h a (by simp)]
    rw [ih (fun b hb => h b (by simp [hb]))]

/-- when every visited row shares the table's container, every error of the pass lands in the table -/
theorem errTo_attached (w : World) (t : Nat) (ha : ∀ r ∈ passRows w t, (w.row r).ec = .table t) :
    (passSteps w t).filterMap (Step.errTo t) = (passSteps w t).filterMap (fun s => raises s.tgt s.cb) := by
  apply filterMap_congr_on
  intro s hs
  have htk : s.tk = .table t := by
    rcases (mem_passSteps hs).2 with h | ⟨r, hr, h⟩
    · exact h
    · rw [h]; unfold rowECTaker; rw [ha r hr]
  unfold Step.errTo
  rw [if_pos htk]

end E2Ecb
end Tab
