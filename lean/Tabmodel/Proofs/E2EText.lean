/-
  Helpers for the capstone theorems: what the callbacks pass establishes for the cells of the
  view the text / markdown renderers read (`CellOK`, `CellFits`, measured `mdw`), and what the
  measured view looks like as a function of the world before the pass (`canonView`).
-/
import Tabmodel.Proofs.E2EView
import Tabmodel.Proofs.E2EDefs
import Tabmodel.Proofs.TextDims
import Tabmodel.Spec.Markdown
import Tabmodel.Props.C05
namespace Tab
namespace World

/-! ### cells after the pass come from cells before it -/

theorem irc_cell_src (dw : Measure) (w : World) (t : Nat) (hL : LogOnly w t) (r : Nat) (ce' : Cell)
    (h : ce' ∈ (invokeRenderCallbacks dw w t).rowCells r) :
    ∃ ce ∈ w.rowCells r, ce.erase = ce'.erase := by
  have hm : ce'.erase ∈ ((invokeRenderCallbacks dw w t).rowCells r).map Cell.erase :=
    List.mem_map.mpr ⟨ce', h, rfl⟩
  rw [irc_rowCells_erase dw w t hL r] at hm
  obtain ⟨ce, hce, e⟩ := List.mem_map.mp hm
  exact ⟨ce, hce, e⟩

theorem erase_eq_fields {a b : Cell} (h : a.erase = b.erase) :
    a.item = b.item ∧ a.str = b.str ∧ a.width = b.width ∧ a.height = b.height ∧ a.empty = b.empty := by
  have h1 := congrArg Cell.item h
  have h2 := congrArg Cell.str h
  have h3 := congrArg Cell.width h
  have h4 := congrArg Cell.height h
  have h5 := congrArg Cell.empty h
  exact ⟨h1, h2, h3, h4, h5⟩

/-! ### text: `CellOK` and `CellFits` for every cell of the rendered view -/

/-- with the measuring callback of texttable registered, every cell of the view the renderer reads
    carries the two measured properties -/
theorem cell_measured_irc (dw : Measure) (w : World) (t : Nat) (hL : LogOnly w t)
    (hcb : Cb.dimSetter ∈ (w.table t).cellCbs.render) (c : RCell)
    (hc : c ∈ ((invokeRenderCallbacks dw w t).view t).allCells) :
    ∃ r ∈ (w.table t).header.toList ++ (w.table t).rows,
      ∃ ce' ∈ (invokeRenderCallbacks dw w t).rowCells r, c = (invokeRenderCallbacks dw w t).rcell ce' ∧
        ce'.props.get .ttDims = some (dimProps dw ((invokeRenderCallbacks dw w t).item ce'.item) ce').1 ∧
        ce'.props.get .ttLines = some (dimProps dw ((invokeRenderCallbacks dw w t).item ce'.item) ce').2 := by
  obtain ⟨r, hr, ce', hce', e⟩ := mem_allCells_view _ t c hc
  have hM := measAll_irc dw true false w t hL (fun _ => hcb) (fun h => Bool.noConfusion h) r hr ce' hce'
  rw [irc_table dw w t hL] at hr
  exact ⟨r, hr, ce', hce', e, (hM.1 rfl).1, (hM.1 rfl).2⟩

theorem cellOK_irc (dw : Measure) (w : World) (t : Nat) (hL : LogOnly w t)
    (hcb : Cb.dimSetter ∈ (w.table t).cellCbs.render) :
    ∀ c ∈ ((invokeRenderCallbacks dw w t).view t).allCells, Tab.CellOK dw c := by
  intro c hc
  obtain ⟨r, _, ce', _, e, h1, h2⟩ := cell_measured_irc dw w t hL hcb c hc
  rw [e]
  exact rcell_cellOK dw _ _ ce' h1 h2

/-- every cell of the rendered view comes from a cell of the built table: same text, same
    emptiness, and its `cellWidth` is that cell's `TerminalCellWidth` -/
theorem cell_src_irc (dw : Measure) (w : World) (t : Nat) (hL : LogOnly w t)
    (hcb : Cb.dimSetter ∈ (w.table t).cellCbs.render) (c : RCell)
    (hc : c ∈ ((invokeRenderCallbacks dw w t).view t).allCells) :
    ∃ r ∈ (w.table t).header.toList ++ (w.table t).rows, ∃ ce ∈ w.rowCells r,
      c.text = ce.str ∧ c.empty = ce.empty ∧ c.cellWidth = ce.termWidth := by
  obtain ⟨r, hr, ce', hce', e, h1, _⟩ := cell_measured_irc dw w t hL hcb c hc
  obtain ⟨ce, hce, hee⟩ := irc_cell_src dw w t hL r ce' hce'
  obtain ⟨_, f2, f3, _, f5⟩ := erase_eq_fields hee
  refine ⟨r, hr, ce, hce, ?_, ?_, ?_⟩
  · rw [e]; exact f2.symm
  · rw [e]; exact f5.symm
  · rw [e]
    have : ((invokeRenderCallbacks dw w t).rcell ce').cellWidth = ce'.termWidth := by
      unfold World.rcell; rw [h1, dimProps_eq]
    rw [this]
    unfold Cell.termWidth
    rw [f3]

theorem fitsSrc_of_erase_eq {dw : Measure} {it : Item} {a b : Cell} (h : a.erase = b.erase)
    (hf : Cell.FitsSrc dw it a) : Cell.FitsSrc dw it b := by
  obtain ⟨_, h2, h3, _, _⟩ := erase_eq_fields h
  unfold Cell.FitsSrc Cell.lines at hf ⊢
  rw [← h2, ← h3]
  exact hf

theorem viewOK_irc (dw : Measure) (w : World) (t : Nat) (hL : LogOnly w t)
    (hcb : Cb.dimSetter ∈ (w.table t).cellCbs.render) (hF : TableFits dw w t) :
    ViewOK dw ((invokeRenderCallbacks dw w t).view t) := by
  intro c hc
  obtain ⟨r, hr, ce', hce', e, h1, h2⟩ := cell_measured_irc dw w t hL hcb c hc
  obtain ⟨ce, hce, hee⟩ := irc_cell_src dw w t hL r ce' hce'
  have hfit : Cell.FitsSrc dw ((invokeRenderCallbacks dw w t).item ce'.item) ce' := by
    rw [irc_item dw w t hL, ← (erase_eq_fields hee).1]
    exact fitsSrc_of_erase_eq hee (hF r hr ce hce)
  rw [e]
  refine ⟨rcell_cellOK dw _ _ ce' h1 h2, ?_⟩
  have e1 : (dimProps dw ((invokeRenderCallbacks dw w t).item ce'.item) ce').1 =
      .dims ((invokeRenderCallbacks dw w t).rcell ce').cellWidth ce'.hgt := by
    unfold World.rcell; rw [h1, dimProps_eq]
  have e2 : (dimProps dw ((invokeRenderCallbacks dw w t).item ce'.item) ce').2 =
      .lws ((invokeRenderCallbacks dw w t).rcell ce').lws := by
    unfold World.rcell; rw [h2, dimProps_eq]
  rcases hfit with ⟨ha, hb⟩ | ⟨ha, hb⟩
  · exact dimProps_fits_measured dw _ ce' _ _ e1 e2 ha hb
  · exact dimProps_fits_single_declared dw _ ce' _ _ e1 e2 ha hb

/-- a cell freshly computed (`NewCell` / `Cell.Update`) from an item that is not itself a
    `tabular.Cell` and declares no width satisfies `FitsSrc` -/
theorem fitsSrc_update (dw : Measure) (it : Item) (c0 : Cell) (h1 : ∀ s w h e, it.kind ≠ .cell s w h e)
    (hd : it.mWidth = none) : Cell.FitsSrc dw it (Cell.update dw it c0) :=
  Or.inl ⟨hd, update_width_measured dw it c0 h1 hd⟩

/-! ### decorations -/

theorem decoOK_ne_empty {dw : Measure} {d : Decoration} (h : DecoOK dw d) : d ≠ emptyDecoration := by
  intro he
  rcases h with hg | hb
  · exact hg.ne d.topLeft (by simp) (by rw [he]; rfl)
  · have := hb.boxless
    rw [he] at this
    cases this

/-! ### the measured view as a function of the world before the pass -/

theorem view_measured_irc (dw : Measure) (tt md : Bool) (w : World) (t : Nat) (hL : LogOnly w t)
    (htt : tt = true → Cb.dimSetter ∈ (w.table t).cellCbs.render)
    (hmd : md = true → Cb.widthSetter ∈ (w.table t).cellCbs.render) :
    ((invokeRenderCallbacks dw w t).view t).mapCells (RCell.mask tt md) = canonView dw tt md w t := by
  rw [view_irc dw tt md w t hL htt hmd, canonView_bare]

theorem canonCell_content (dw : Measure) (tt md : Bool) (w : World) (ce : Cell) :
    (canonCell dw tt md w ce).text = ce.str ∧ (canonCell dw tt md w ce).empty = ce.empty ∧
    (canonCell dw tt md w ce).json = (w.item ce.item).json := ⟨rfl, rfl, rfl⟩

theorem canonCell_tt (dw : Measure) (md : Bool) (w : World) (ce : Cell) :
    (canonCell dw true md w ce).cellWidth = ce.termWidth ∧
    (canonCell dw true md w ce).lws =
      ce.lines.map (fun l => ({ s := l, w := dimLineW dw (w.item ce.item) ce l } : WidthString)) ++
        List.replicate (max ce.hgt.toNat ce.lines.length - ce.lines.length) blankWS := ⟨rfl, rfl⟩

theorem canonCell_md (dw : Measure) (tt : Bool) (w : World) (ce : Cell) :
    (canonCell dw tt true w ce).mdw = ce.termWidth := rfl

/-! ### CSV records and body rows in terms of the world -/

theorem filterMap_congr_mem {α β : Type} {f g : α → Option β} (l : List α) (h : ∀ a ∈ l, f a = g a) :
    l.filterMap f = l.filterMap g := by
  induction l with
  | nil => rfl
  | cons a l ih =>
    simp only [List.filterMap_cons, h a (List.mem_cons_self ..)]
    rw [ih (fun b hb => h b (List.mem_cons_of_mem _ hb))]

theorem padRow_rcell (w : World) (n r : Nat) :
    padRow n ((w.rowCells r).map w.rcell) = w.rowTexts n r := by
  unfold padRow rowTexts
  rw [List.map_map, List.length_map]
  rfl

theorem records_view (w : World) (t : Nat) : records (w.view t) = w.csvRecords t := by
  unfold records csvRecords view
  simp only
  congr 1
  · cases (w.table t).header with
    | none => rfl
    | some hr => simp only [Option.map_some, padRow_rcell]
  · rw [List.filterMap_map]
    apply filterMap_congr_mem
    intro r _
    simp only [Function.comp]
    cases (w.row r).isSep with
    | true => rfl
    | false => simp only [Bool.false_eq_true, if_false, Option.map_some, padRow_rcell]

theorem bodyRows_view_length (w : World) (t : Nat) : (bodyRows (w.view t)).length = w.bodyRowCount t := by
  unfold bodyRows bodyRowCount view
  simp only
  induction (w.table t).rows with
  | nil => rfl
  | cons r rs ih =>
    simp only [List.map_cons, List.filterMap_cons, List.filter_cons]
    cases (w.row r).isSep with
    | true => simpa using ih
    | false => simpa using ih

theorem filter_isSome_view_length (w : World) (t : Nat) :
    ((w.view t).rows.filter Option.isSome).length = w.bodyRowCount t := by
  rw [← bodyRows_view_length]
  unfold bodyRows
  induction (w.view t).rows with
  | nil => rfl
  | cons r rs ih =>
    cases r with
    | none => simpa using ih
    | some cs => simpa using ih

theorem irc_row_isSep (dw : Measure) (w : World) (t : Nat) (hL : LogOnly w t) (r : Nat) :
    ((invokeRenderCallbacks dw w t).row r).isSep = (w.row r).isSep :=
  of_erase_eq (fun w => (w.row r).isSep) (fun w => by rw [erase_row]; rfl) (erase_irc dw w t hL)

theorem irc_bodyRowCount (dw : Measure) (w : World) (t : Nat) (hL : LogOnly w t) :
    (invokeRenderCallbacks dw w t).bodyRowCount t = w.bodyRowCount t := by
  unfold bodyRowCount
  rw [irc_table dw w t hL]
  congr 1
  apply List.filter_congr
  intro r _
  rw [irc_row_isSep dw w t hL]

end World
end Tab
