/- C13x helper lemmas: projecting the documented render list on one registration id (arbitrary
   callbacks).  Same proofs as in `C13Once.lean`, with `userIds` / `userEvents` for `logIds` / `logEvents`. -/
import Tabmodel.Proofs.C13xSpec
import Tabmodel.Proofs.C13Once
import Tabmodel.Proofs.C13Unique
set_option linter.unusedSimpArgs false
namespace Tab
open World C13
namespace C13x

theorem evOf_userEvents (id : Nat) (cbs : List Cb) (tgt : Target) :
    evOf id (userEvents cbs tgt) = List.replicate ((userIds cbs).count id) ⟨id, tgt⟩ := by
  unfold evOf userEvents
  rw [List.filter_map]
  have : ((fun e : Event => e.cb == id) ∘ fun i => (⟨i, tgt⟩ : Event)) = fun i => i == id := rfl
  rw [this, List.filter_beq, List.map_replicate]

theorem evOf_userEvents_unique {w : World} {id : Nat} {s : CbSlot} {tm : Time} (hu : UniqueAny w id s tm)
    (s' : CbSlot) (tm' : Time) (tgt : Target) :
    evOf id (userEvents (w.cbsAt s' tm') tgt) = if s' = s ∧ tm' = tm then [⟨id, tgt⟩] else [] := by
  rw [evOf_userEvents]
  by_cases h : s' = s ∧ tm' = tm
  · obtain ⟨rfl, rfl⟩ := h
    simp [hu.1]
  · have : id ∉ userIds (w.cbsAt s' tm') := fun hm => h (hu.2 s' tm' hm)
    simp [h, List.count_eq_zero.mpr this]

theorem evOf_colCellAt_any {w : World} {id : Nat} {s : CbSlot} {tm : Time} (hu : UniqueAny w id s tm)
    (r i : Nat) (tm' : Time) (tgt : Target) :
    evOf id (userEvents (colCellAt w r i tm') tgt) =
      match w.columnOf r i with
      | some (t', n) => if CbSlot.colCell t' n = s ∧ tm' = tm then [⟨id, tgt⟩] else []
      | none => [] := by
  unfold colCellAt
  cases w.columnOf r i with
  | none => rfl
  | some p =>
    obtain ⟨t', n⟩ := p
    simp only
    rw [evOf_userEvents_unique hu]

theorem evOf_cellExpectedAny {w : World} {id : Nat} {s : CbSlot} {tm : Time} (hu : UniqueAny w id s tm)
    (t r i : Nat) :
    evOf id (cellExpectedAny w t r i) = if cellFires w t s tm r i = true then [⟨id, .cell r i⟩] else [] := by
  unfold cellExpectedAny
  simp only [evOf_append, evOf_userEvents_unique hu, evOf_colCellAt_any hu]
  cases hc : w.columnOf r i with
  | none =>
    cases s <;> cases tm <;> simp [cellFires, Time.prePost, hc]
  | some p =>
    obtain ⟨t', n⟩ := p
    cases s <;> cases tm <;> simp [cellFires, Time.prePost, hc]

theorem evOf_rowExpectedAny {w : World} {id : Nat} {s : CbSlot} {tm : Time} (hu : UniqueAny w id s tm)
    (t r : Nat) :
    evOf id (rowExpectedAny w t r) =
      ((if rowFires s tm r = true then [Target.row r] else []) ++
        ((List.range (w.rowCells r).length).filter (cellFires w t s tm r)).map (Target.cell r)).map
        (fun tgt => ⟨id, tgt⟩) := by
  unfold rowExpectedAny
  simp only [evOf_append, evOf_flatMap, evOf_userEvents_unique hu, evOf_cellExpectedAny hu, flatMap_ite_singleton,
    List.map_append, List.map_map]
  cases s with
  | rowSelf r' =>
    rw [cellFires_nonCell w t _ tm r (by refine ⟨?_, ?_, ?_, ?_⟩ <;> intros <;> exact CbSlot.noConfusion)]
    cases tm <;> simp [rowFires, Time.prePost, map_ite_singleton, filter_false']
  | _ => cases tm <;> simp [rowFires, Time.prePost, Function.comp_def]

theorem evOf_colsExpectedAny {w : World} {id : Nat} {s : CbSlot} {tm : Time} (hu : UniqueAny w id s tm)
    (t : Nat) (tm' : Time) :
    evOf id (colsExpectedAny w t tm') =
      ((List.range (w.table t).columns.length).filter
        (fun n => decide (CbSlot.colSelf t n = s ∧ tm' = tm))).map (fun n => ⟨id, .column t n⟩) := by
  unfold colsExpectedAny
  simp only [evOf_flatMap, evOf_userEvents_unique hu]
  rw [← flatMap_ite_singleton]
  simp

theorem evOf_expectedRenderAny {w : World} {id : Nat} {s : CbSlot} {tm : Time} (hu : UniqueAny w id s tm)
    (t : Nat) :
    evOf id (expectedRenderAny w t) = (renderTargets w t s tm).map (fun tgt => ⟨id, tgt⟩) := by
  unfold expectedRenderAny renderTargets
  simp only [evOf_append, evOf_flatMap, evOf_userEvents_unique hu, evOf_rowExpectedAny hu, evOf_colsExpectedAny hu,
    List.map_append, List.map_flatMap, List.map_map]
  cases s with
  | tableSelf a =>
    simp only [cellFires_nonCell w t (.tableSelf a) tm _
        (by refine ⟨?_, ?_, ?_, ?_⟩ <;> intros <;> exact CbSlot.noConfusion),
      colFires_nonCol t (.tableSelf a) tm (by intros; exact CbSlot.noConfusion)]
    cases tm <;> simp [tableFires, rowFires, Time.prePost, map_ite_singleton, flatMap_nil', filter_false']
  | colSelf a b =>
    simp only [cellFires_nonCell w t (.colSelf a b) tm _
        (by refine ⟨?_, ?_, ?_, ?_⟩ <;> intros <;> exact CbSlot.noConfusion)]
    cases tm <;> simp [tableFires, colFires_colSelf, rowFires, Time.prePost, flatMap_nil', filter_false', Function.comp_def]
    all_goals (congr 2)
  | rowSelf a =>
    simp only [colFires_nonCol t (.rowSelf a) tm (by intros; exact CbSlot.noConfusion)]
    cases tm <;> simp [tableFires, rowFires, Time.prePost, Function.comp_def, filter_false', flatMap_nil']
  | tableRow a =>
    simp only [colFires_nonCol t (.tableRow a) tm (by intros; exact CbSlot.noConfusion)]
    cases tm <;> simp [tableFires, rowFires, Time.prePost, Function.comp_def, filter_false', flatMap_nil']
  | copyOwn a =>
    simp only [colFires_nonCol t (.copyOwn a) tm (by intros; exact CbSlot.noConfusion)]
    cases tm <;> simp [tableFires, rowFires, Time.prePost, Function.comp_def, filter_false', flatMap_nil']
  | tableCell a =>
    simp only [colFires_nonCol t (.tableCell a) tm (by intros; exact CbSlot.noConfusion)]
    cases tm <;> simp [tableFires, rowFires, Time.prePost, Function.comp_def, filter_false', flatMap_nil']
  | colCell a b =>
    simp only [colFires_nonCol t (.colCell a b) tm (by intros; exact CbSlot.noConfusion)]
    cases tm <;> simp [tableFires, rowFires, Time.prePost, Function.comp_def, filter_false', flatMap_nil']
  | rowCell a =>
    simp only [colFires_nonCol t (.rowCell a) tm (by intros; exact CbSlot.noConfusion)]
    cases tm <;> simp [tableFires, rowFires, Time.prePost, Function.comp_def, filter_false', flatMap_nil']
  | cellOwn a b =>
    simp only [colFires_nonCol t (.cellOwn a b) tm (by intros; exact CbSlot.noConfusion)]
    cases tm <;> simp [tableFires, rowFires, Time.prePost, Function.comp_def, filter_false', flatMap_nil']

theorem uniqueAnyB_sound {w : World} {id : Nat} {s : CbSlot} {tm : Time} (h : uniqueAnyB w id s tm = true) :
    UniqueAny w id s tm := by
  simp only [uniqueAnyB, Bool.and_eq_true, beq_iff_eq, List.all_eq_true, Bool.or_eq_true, Bool.not_eq_true',
    List.contains_eq_mem, decide_eq_false_iff_not] at h
  refine ⟨h.1, fun s' tm' hm => ?_⟩
  by_cases hs : s' ∈ w.cbSlots
  · rcases h.2 s' hs tm' (mem_allTimes tm') with h' | h'
    · exact absurd hm h'
    · exact h'
  · have : w.cbsAt s' tm' = [] := by
      simp only [World.cbsAt, cbSet_of_not_mem_slots hs]
      cases tm' <;> rfl
    rw [this] at hm
    simp [userIds] at hm

end C13x
end Tab
