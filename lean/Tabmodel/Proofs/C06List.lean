/- C06 helpers: generic list lemmas (flatMap / zipIdx / sums) and a congruence for `htmlTr`. -/
import Tabmodel.Model.Html
namespace Tab

theorem flatMap_congr' {α β : Type} (l : List α) (f g : α → List β) (h : ∀ a ∈ l, f a = g a) :
    l.flatMap f = l.flatMap g := by
  induction l with
  | nil => rfl
  | cons a l ih =>
    rw [List.flatMap_cons, List.flatMap_cons, h a (by simp), ih (fun b hb => h b (by simp [hb]))]

theorem flatMap_eq_filterMap_map {α β γ : Type} (l : List α) (f : α → List γ) (g : α → Option β) (h : β → γ)
    (H : ∀ a ∈ l, f a = (g a).toList.map h) : l.flatMap f = (l.filterMap g).map h := by
  induction l with
  | nil => simp
  | cons a l ih =>
    have ha := H a (by simp)
    have := ih (fun b hb => H b (by simp [hb]))
    rw [List.flatMap_cons, ha, this, List.filterMap_cons]
    cases g a <;> simp

theorem sum_map_zipIdx {α : Type} (l : List α) (k : Nat) (F : α × Nat → Nat) (G : α → Nat)
    (h : ∀ a i, F (a, i) = G a) : ((l.zipIdx k).map F).sum = (l.map G).sum := by
  induction l generalizing k with
  | nil => simp
  | cons a l ih => simp [List.zipIdx_cons, ih, h]

theorem length_filterMap_zipIdx {α : Type} (l : List (Option α)) (k : Nat) (g : Option α × Nat → Option Nat)
    (hg : ∀ r i, (g (r, i)).isSome = r.isSome) :
    ((l.zipIdx k).filterMap g).length = (l.filter Option.isSome).length := by
  induction l generalizing k with
  | nil => simp
  | cons a l ih =>
    rw [List.zipIdx_cons, List.filterMap_cons, List.filter_cons]
    have := hg a k
    cases hga : g (a, k) <;> cases a <;> simp_all

theorem sum_map_zero {α : Type} (l : List α) (F : α → Nat) (h : ∀ a, F a = 0) : (l.map F).sum = 0 := by
  induction l with
  | nil => rfl
  | cons a l ih => simp [h, ih]

theorem sum_isSome {α : Type} (l : List (Option α)) (F : Option α → Nat)
    (h : ∀ r, F r = if r.isSome then 1 else 0) : (l.map F).sum = (l.filter Option.isSome).length := by
  induction l with
  | nil => rfl
  | cons a l ih => cases a <;> simp [h, ih] <;> omega

/-- `htmlTr` looks at the row-class generator only at its own row number -/
theorem htmlTr_congr (cfg : HtmlCfg) (f g : Nat → Bytes) (n : Nat) (tag : String) (cells : List RCell)
    (h : f n = g n) :
    htmlTr { cfg with rowClass := some f } n tag cells = htmlTr { cfg with rowClass := some g } n tag cells := by
  simp only [htmlTr, h]

end Tab
