/- C11, history level — per-container counts (`cnt`) and where a taker's errors land (`resolve`). -/
import Tabmodel.Proofs.C11hA
namespace Tab
namespace World

/-- the object whose list an `AddError` through `tk` is appended to (`none`: it is dropped) -/
def resolve (w : World) : Taker → Option Src
  | .drop => none
  | .table t => if t < w.tables.length then some (.table t) else none
  | .rowOwn r => match (w.row r).ec with
    | .own _ => some (.row r)
    | _ => none
  | .rowLazy r =>
    if r < w.rows.length then
      match (w.row r).ec with
      | .table t => if t < w.tables.length then some (.table t) else none
      | _ => some (.row r)
    else none

theorem live_iff_resolve (w : World) (tk : Taker) : live w tk ↔ (resolve w tk).isSome = true := by
  cases tk with
  | drop => simp [live, resolve]
  | table t => simp only [live, resolve]; split <;> simp_all
  | rowOwn r => simp only [live, resolve]; cases (w.row r).ec <;> simp
  | rowLazy r =>
    simp only [live, resolve]
    by_cases hr : r < w.rows.length
    · simp only [hr, true_and, if_true]
      cases (w.row r).ec with
      | none => simp
      | own es => simp
      | table t => simp only; split <;> simp_all
    · simp [hr]

theorem live_of_resolve {w : World} {tk : Taker} {g : Src} (h : resolve w tk = some g) : live w tk :=
  (live_iff_resolve w tk).mpr (by rw [h]; rfl)

theorem resolve_none_of_dead {w : World} {tk : Taker} (h : ¬ live w tk) : resolve w tk = none := by
  cases hr : resolve w tk with
  | none => rfl
  | some g => exact absurd (live_of_resolve hr) h

theorem row_oob (w : World) (r : Nat) (h : w.rows.length ≤ r) : w.row r = {} := by
  simp [row, List.getD_eq_getElem?_getD, List.getElem?_eq_none h]

theorem table_oob (w : World) (t : Nat) (h : w.tables.length ≤ t) : w.table t = {} := by
  simp [table, List.getD_eq_getElem?_getD, List.getElem?_eq_none h]

theorem modTable_oob (w : World) (t : Nat) (f : Table → Table) (h : w.tables.length ≤ t) :
    w.modTable t f = w := by
  simp only [modTable, modify_ge _ _ _ h]

theorem modRow_oob (w : World) (r : Nat) (f : Row → Row) (h : w.rows.length ≤ r) :
    w.modRow r f = w := by
  simp only [modRow, modify_ge _ _ _ h]

theorem cnt_congr {w w' : World} (h₁ : ∀ t, (w'.table t).errs = (w.table t).errs)
    (h₂ : ∀ r, (w'.row r).ec = (w.row r).ec) (e : Nat) (g : Src) : cnt w' e g = cnt w e g := by
  cases g with
  | table t => simp only [cnt, h₁]
  | row r => simp only [cnt, ownCount, h₂]

theorem cnt_events (w : World) (evs : List Event) (e : Nat) (g : Src) :
    cnt { w with events := evs } e g = cnt w e g := by cases g <;> rfl

theorem resolve_events (w : World) (evs : List Event) (tk : Taker) :
    resolve { w with events := evs } tk = resolve w tk := by cases tk <;> rfl

/-- appending one error to table `t`'s list -/
theorem cnt_addTable (w : World) (t e e' : Nat) (g : Src) :
    cnt (w.modTable t (fun tb => { tb with errs := tb.errs ++ [e] })) e' g
      = cnt w e' g + if (t < w.tables.length ∧ g = .table t) ∧ e' = e then 1 else 0 := by
  cases g with
  | row r => simp [cnt]
  | table t' =>
    simp only [cnt, table_modTable]
    by_cases h : t = t' ∧ t' < w.tables.length
    · obtain ⟨h1, h2⟩ := h
      subst h1
      simp only [h2, and_self, if_true, count_snoc, true_and]
    · rw [if_neg h]
      have : ¬ ((t < w.tables.length ∧ Src.table t' = Src.table t) ∧ e' = e) := by
        rintro ⟨⟨h1, h2⟩, _⟩
        cases h2
        exact h ⟨rfl, h1⟩
      rw [if_neg this]; rfl

/-- giving row `r` (in range) the own container `es'` -/
theorem cnt_setOwn (w : World) (r : Nat) (f : Row → Row) (es' : List Nat) (e' : Nat) (g : Src)
    (hr : r < w.rows.length) (hf : (f (w.row r)).ec = .own es') :
    cnt (w.modRow r f) e' g = if g = .row r then es'.count e' else cnt w e' g := by
  cases g with
  | table t => simp [cnt]
  | row r' =>
    by_cases h : r' = r
    · subst h
      simp only [cnt, row_modRow_self _ _ _ hr, ownCount, hf, if_true]
    · have h' : r ≠ r' := fun x => h x.symm
      have : ¬ Src.row r' = Src.row r := by intro x; cases x; exact h rfl
      simp only [cnt, row_modRow_ne _ _ _ _ h', if_neg this]

theorem cnt_modRow_fix (w : World) (r : Nat) (f : Row → Row) (hf : f (w.row r) = w.row r)
    (e' : Nat) (g : Src) : cnt (w.modRow r f) e' g = cnt w e' g := by
  apply cnt_congr
  · intro t; rfl
  · intro r'
    rw [row_modRow]; split
    · next h => rw [← h.1, hf]
    · rfl

/-- The central per-container fact. -/
theorem cnt_addErrTo (w : World) (tk : Taker) (e e' : Nat) (g : Src) :
    cnt (addErrTo w tk e) e' g
      = cnt w e' g + if resolve w tk = some g ∧ e' = e then 1 else 0 := by
  cases tk with
  | drop => simp [addErrTo, resolve]
  | table t =>
    simp only [addErrTo, resolve, cnt_addTable]
    by_cases ht : t < w.tables.length
    · simp only [ht, true_and, if_true, Option.some.injEq]
      congr 1
      by_cases hg : g = .table t
      · subst hg; simp
      · have : ¬ Src.table t = g := fun x => hg x.symm
        simp [hg, this]
    · simp [ht]
  | rowOwn r =>
    cases hec : (w.row r).ec with
    | own es =>
      have hr : r < w.rows.length := row_ec_lt w r (by simp [hec])
      simp only [addErrTo, resolve, hec]
      rw [cnt_setOwn w r _ (es ++ [e]) e' g hr (by simp only [hec])]
      by_cases hg : g = .row r
      · subst hg
        simp only [if_true, cnt, ownCount, hec, count_snoc, true_and]
      · have : ¬ Src.row r = g := fun x => hg x.symm
        simp [hg, this]
    | none =>
      simp only [addErrTo, resolve, hec]
      rw [cnt_modRow_fix w r _ (by simp only [hec])]; simp
    | table t =>
      simp only [addErrTo, resolve, hec]
      rw [cnt_modRow_fix w r _ (by simp only [hec])]; simp
  | rowLazy r =>
    by_cases hr : r < w.rows.length
    · simp only [addErrTo, resolve, hr, if_true]
      cases hec : (w.row r).ec with
      | none =>
        simp only
        rw [cnt_setOwn w r _ [e] e' g hr rfl]
        by_cases hg : g = .row r
        · subst hg
          have := count_snoc [] e e'
          simp only [List.nil_append, List.count_nil, Nat.zero_add] at this
          simp only [if_true, cnt, ownCount, hec, true_and, this, Nat.zero_add]
        · have : ¬ Src.row r = g := fun x => hg x.symm
          simp [hg, this]
      | own es =>
        simp only
        rw [cnt_setOwn w r _ (es ++ [e]) e' g hr rfl]
        by_cases hg : g = .row r
        · subst hg
          simp only [if_true, cnt, ownCount, hec, count_snoc, true_and]
        · have : ¬ Src.row r = g := fun x => hg x.symm
          simp [hg, this]
      | table t =>
        simp only [cnt_addTable]
        by_cases ht : t < w.tables.length
        · simp only [ht, true_and, if_true, Option.some.injEq]
          congr 1
          by_cases hg : g = .table t
          · subst hg; simp
          · have : ¬ Src.table t = g := fun x => hg x.symm
            simp [hg, this]
        · simp [ht]
    · have hr' : w.rows.length ≤ r := Nat.le_of_not_lt hr
      have hec : (w.row r).ec = .none := by rw [row_oob w r hr']
      simp only [addErrTo, resolve, hr, if_false, hec, modRow_oob w r _ hr']
      simp

theorem cnt_setProp (w : World) (tgt : Target) (k : Key) (v : Option Val) (e : Nat) (g : Src) :
    cnt (setProp w tgt k v) e g = cnt w e g :=
  cnt_congr (setProp_errs w tgt k v) (setProp_ec w tgt k v) e g

/-- a taker that lands somewhere keeps landing there -/
theorem resolve_stable {w w' : World} (h : Stable w w') {tk : Taker} {g : Src}
    (hr : resolve w tk = some g) : resolve w' tk = some g := by
  cases tk with
  | drop => simp [resolve] at hr
  | table t =>
    simp only [resolve] at hr ⊢
    rw [h.tlen]; exact hr
  | rowOwn r =>
    simp only [resolve] at hr ⊢
    cases hec : (w.row r).ec with
    | none => simp [hec] at hr
    | table t => simp [hec] at hr
    | own es =>
      obtain ⟨l, hl⟩ := h.ecO r es hec
      simpa [hec, hl] using hr
  | rowLazy r =>
    simp only [resolve] at hr ⊢
    rw [h.rlen]
    by_cases hlt : r < w.rows.length
    · simp only [hlt, if_true] at hr ⊢
      cases hec : (w.row r).ec with
      | table t =>
        have := (h.ecT r t).mp hec
        simp only [hec] at hr
        simp only [this, h.tlen]; exact hr
      | own es =>
        obtain ⟨l, hl⟩ := h.ecO r es hec
        simpa [hec, hl] using hr
      | none =>
        simp only [hec] at hr
        cases hec' : (w'.row r).ec with
        | none => simpa using hr
        | own es => simpa using hr
        | table t => have := (h.ecT r t).mpr hec'; rw [hec] at this; cases this
    · simp [hlt] at hr

theorem cnt_invokeOne (dw : Measure) (w : World) (cb : Cb) (tgt : Target) (tk : Taker)
    (e : Nat) (g : Src) :
    cnt (invokeOne dw w cb tgt tk) e g
      = cnt w e g + if resolve w tk = some g ∧ raises tgt cb = some e then 1 else 0 := by
  have hadd : ∀ (w' : World) (e' : Nat), (∀ g, cnt w' e g = cnt w e g) → resolve w' tk = resolve w tk →
      cnt (addErrTo w' tk e') e g = cnt w e g + if resolve w tk = some g ∧ some e' = some e then 1 else 0 := by
    intro w' e' h1 h2
    rw [cnt_addErrTo, h1, h2]
    simp only [Option.some.injEq, eq_comm]
  cases cb with
  | log id => simp [invokeOne, raises, cnt_events]
  | setProp id k v => simp [invokeOne, raises, cnt_setProp, cnt_events]
  | fail id e' =>
    simp only [invokeOne, raises]
    exact hadd _ e' (cnt_events w _ e) (resolve_events w _ tk)
  | dimSetter =>
    cases tgt with
    | cell r c =>
      simp only [invokeOne, raises]
      split <;> simp [cnt_setProp]
    | table t => simp only [invokeOne, raises]; exact hadd w _ (fun _ => rfl) rfl
    | column t n => simp only [invokeOne, raises]; exact hadd w _ (fun _ => rfl) rfl
    | row r => simp only [invokeOne, raises]; exact hadd w _ (fun _ => rfl) rfl
    | copy n => simp only [invokeOne, raises]; exact hadd w _ (fun _ => rfl) rfl
  | widthSetter =>
    cases tgt with
    | cell r c =>
      simp only [invokeOne, raises]
      split <;> simp [cnt_setProp]
    | table t => simp only [invokeOne, raises]; exact hadd w _ (fun _ => rfl) rfl
    | column t n => simp only [invokeOne, raises]; exact hadd w _ (fun _ => rfl) rfl
    | row r => simp only [invokeOne, raises]; exact hadd w _ (fun _ => rfl) rfl
    | copy n => simp only [invokeOne, raises]; exact hadd w _ (fun _ => rfl) rfl

theorem cnt_invoke (dw : Measure) (w : World) (cbs : List Cb) (tgt : Target) (tk : Taker)
    (e : Nat) (g g0 : Src) (hr : resolve w tk = some g0) :
    cnt (invoke dw w cbs tgt tk) e g
      = cnt w e g + if g = g0 then raiseCount tgt e cbs else 0 := by
  induction cbs generalizing w with
  | nil => simp [invoke, raiseCount]
  | cons cb cbs ih =>
    have h' := resolve_stable (invokeOne_stable dw w cb tgt tk) hr
    have := ih _ h'
    simp only [invoke, List.foldl_cons] at this ⊢
    rw [this, cnt_invokeOne, hr]
    simp only [raiseCount, List.filter_cons, Option.some.injEq]
    by_cases hg : g = g0
    · subst hg
      simp only [true_and, if_true]
      split <;> simp_all <;> omega
    · have : ¬ g0 = g := fun x => hg x.symm
      simp [hg, this]

theorem mass_modRow_fix (w : World) (r : Nat) (f : Row → Row) (e : Nat)
    (hf : f (w.row r) = w.row r) : mass (w.modRow r f) e = mass w e := by
  by_cases hr : r < w.rows.length
  · have := mass_modRow w r f e hr
    rw [hf] at this; omega
  · rw [modRow_oob w r f (Nat.le_of_not_lt hr)]

/-- an `AddError` through a taker that is not live changes no mass -/
theorem mass_addErrTo_gen (w : World) (tk : Taker) (e e' : Nat) :
    mass (addErrTo w tk e) e' = mass w e' + if live w tk ∧ e' = e then 1 else 0 := by
  by_cases hl : live w tk
  · rw [mass_addErrTo w tk e e' hl]; simp [hl]
  · simp only [hl, false_and, if_false, Nat.add_zero]
    cases tk with
    | drop => rfl
    | table t =>
      simp only [live] at hl
      simp only [addErrTo, modTable_oob w t _ (Nat.le_of_not_lt hl)]
    | rowOwn r =>
      simp only [live] at hl
      simp only [addErrTo]
      refine mass_modRow_fix w r _ e' ?_
      cases hec : (w.row r).ec with
      | own es => simp [hec] at hl
      | none => rfl
      | table t => rfl
    | rowLazy r =>
      simp only [live] at hl
      simp only [addErrTo]
      by_cases hr : r < w.rows.length
      · cases hec : (w.row r).ec with
        | none => simp [hr, hec] at hl
        | own es => simp [hr, hec] at hl
        | table t =>
          simp only [hr, hec, true_and] at hl
          simp only [modTable_oob w t _ (Nat.le_of_not_lt hl)]
      · have hr' := Nat.le_of_not_lt hr
        have hec : (w.row r).ec = .none := by rw [row_oob w r hr']
        simp only [hec, modRow_oob w r _ hr']

end World
end Tab
