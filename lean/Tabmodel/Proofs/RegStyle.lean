/- Helper lemmas for C19: string literals as bytes, `asciiLower`, `splitDot`, `resolveStyle`, `listStyles`. -/
import Tabmodel.Proofs.RegOps
namespace Tab

/-! ### `bytesOfString` of a literal (core's `ByteArray.toList` is a well-founded loop, so neither
`decide` nor `rfl` evaluates it; these lemmas do) -/

theorem byteArray_toList_loop (bs : ByteArray) (i : Nat) (r : List UInt8) :
    ByteArray.toList.loop bs i r = r.reverse ++ bs.data.toList.drop i := by
  fun_induction ByteArray.toList.loop bs i r with
  | case1 i r h ih =>
    rw [ih]
    have h' : i < bs.data.toList.length := h
    have h'' : i < bs.data.size := h
    rw [List.drop_eq_getElem_cons h']
    have : bs.get! i = bs.data.toList[i] := by
      cases bs with | mk d =>
      show d[i]! = _
      rw [getElem!_pos d i h'']; simp
    rw [this, List.reverse_cons, List.append_assoc]; rfl
  | case2 i r h =>
    have : bs.data.toList.length ≤ i := Nat.le_of_not_lt h
    rw [List.drop_eq_nil_of_le this, List.append_nil]

theorem toByteArray_toList (l : List UInt8) : l.toByteArray.toList = l := by
  unfold ByteArray.toList
  rw [byteArray_toList_loop, List.data_toByteArray]; simp

theorem bytesOfString_ofList (cs : List Char) :
    bytesOfString (String.ofList cs) = cs.flatMap String.utf8EncodeChar := by
  rw [bytesOfString, String.toUTF8, String.toByteArray_ofList, List.utf8Encode, toByteArray_toList]

def bCsv : Bytes := [99, 115, 118]
def bHtml : Bytes := [104, 116, 109, 108]
def bMarkdown : Bytes := [109, 97, 114, 107, 100, 111, 119, 110]
def bJson : Bytes := [106, 115, 111, 110]
def bTexttable : Bytes := [116, 101, 120, 116, 116, 97, 98, 108, 101]

theorem bytes_csv : bytesOfString "csv" = bCsv := by
  have : "csv" = String.ofList "csv".toList := by rfl
  rw [this, bytesOfString_ofList]; decide
theorem bytes_html : bytesOfString "html" = bHtml := by
  have : "html" = String.ofList "html".toList := by rfl
  rw [this, bytesOfString_ofList]; decide
theorem bytes_markdown : bytesOfString "markdown" = bMarkdown := by
  have : "markdown" = String.ofList "markdown".toList := by rfl
  rw [this, bytesOfString_ofList]; decide
theorem bytes_json : bytesOfString "json" = bJson := by
  have : "json" = String.ofList "json".toList := by rfl
  rw [this, bytesOfString_ofList]; decide
theorem bytes_texttable : bytesOfString "texttable" = bTexttable := by
  have : "texttable" = String.ofList "texttable".toList := by rfl
  rw [this, bytesOfString_ofList]; decide

theorem reserved_lit :
    [bytesOfString "csv", bytesOfString "html", bytesOfString "markdown", bytesOfString "json",
      bytesOfString "texttable"] = [bCsv, bHtml, bMarkdown, bJson, bTexttable] := by
  rw [bytes_csv, bytes_html, bytes_markdown, bytes_json, bytes_texttable]

/-! ### `asciiLower` -/

def lowerByte (b : UInt8) : UInt8 := if 65 ≤ b && b ≤ 90 then b + 32 else b

theorem asciiLower_eq_map (s : Bytes) : asciiLower s = s.map lowerByte := rfl
@[simp] theorem asciiLower_nil : asciiLower [] = [] := rfl
theorem asciiLower_cons (b : UInt8) (s : Bytes) : asciiLower (b :: s) = lowerByte b :: asciiLower s := rfl
theorem asciiLower_append (s t : Bytes) : asciiLower (s ++ t) = asciiLower s ++ asciiLower t := by
  simp [asciiLower]

/-- lower-casing neither creates nor destroys a dot -/
theorem lowerByte_eq_dot (b : UInt8) : lowerByte b = 46 ↔ b = 46 := by
  unfold lowerByte
  split
  next h =>
    simp only [Bool.and_eq_true, decide_eq_true_eq] at h
    have h1 := UInt8.le_iff_toNat_le.mp h.1
    have h2 := UInt8.le_iff_toNat_le.mp h.2
    constructor
    · intro e
      have := congrArg UInt8.toNat e
      rw [UInt8.toNat_add] at this
      simp at this h1 h2
      omega
    · intro e; subst e; simp at h1
  next => exact Iff.rfl

theorem dot_mem_asciiLower (s : Bytes) : (46 : UInt8) ∈ asciiLower s ↔ (46 : UInt8) ∈ s := by
  induction s with
  | nil => simp
  | cons b s ih =>
    rw [asciiLower_cons, List.mem_cons, List.mem_cons, ih]
    constructor
    · rintro (h | h)
      · exact .inl ((lowerByte_eq_dot b).mp h.symm).symm
      · exact .inr h
    · rintro (h | h)
      · exact .inl ((lowerByte_eq_dot b).mpr h.symm).symm
      · exact .inr h

/-! ### `goLower` (ASCII fold + KELVIN SIGN ↦ k + U+0130 ↦ i) -/

@[simp] theorem goLower_nil : goLower [] = [] := by rw [goLower]

/-- `goLower` neither creates nor destroys a dot -/
theorem dot_mem_goLower (s : Bytes) : (46 : UInt8) ∈ goLower s ↔ (46 : UInt8) ∈ s := by
  fun_induction goLower s with
  | case1 rest ih => simp [ih]
  | case2 rest ih => simp [ih]
  | case3 b rest h1 h2 ih =>
    rw [List.mem_cons, List.mem_cons, ih]
    have := lowerByte_eq_dot b
    unfold lowerByte at this
    constructor
    · rintro (h | h)
      · exact .inl (this.mp h.symm).symm
      · exact .inr h
    · rintro (h | h)
      · exact .inl (this.mpr h.symm).symm
      · exact .inr h
  | case4 => simp

/-- on pure ASCII input `goLower` is the ASCII fold -/
theorem goLower_ascii (s : Bytes) (h : ∀ b ∈ s, b < 128) : goLower s = asciiLower s := by
  fun_induction goLower s with
  | case1 rest ih => exact absurd (h 0xE2 (by simp)) (by decide)
  | case2 rest ih => exact absurd (h 0xC4 (by simp)) (by decide)
  | case3 b rest h1 h2 ih =>
    rw [asciiLower_cons, ih (fun x hx => h x (List.mem_cons_of_mem _ hx))]; rfl
  | case4 => rfl

/-! ### `splitDot` -/

theorem splitDot_ne_nil (s : Bytes) : splitDot s ≠ [] := by
  induction s with
  | nil => simp [splitDot]
  | cons b bs ih =>
    unfold splitDot
    split
    · simp
    · split <;> simp

theorem splitDot_cons_dot (bs : Bytes) : splitDot (46 :: bs) = [] :: splitDot bs := by
  rw [splitDot]; simp

theorem splitDot_cons_ne {b : UInt8} (h : b ≠ 46) (bs : Bytes) :
    splitDot (b :: bs) = (b :: (splitDot bs).headD []) :: (splitDot bs).tail := by
  rw [splitDot]
  simp only [h, if_false]
  cases hs : splitDot bs with
  | nil => exact absurd hs (splitDot_ne_nil bs)
  | cons l ls => rfl

/-- a string without a dot is its own single section -/
theorem splitDot_nodot {v : Bytes} (h : (46 : UInt8) ∉ v) : splitDot v = [v] := by
  induction v with
  | nil => rfl
  | cons b bs ih =>
    rw [List.mem_cons, not_or] at h
    rw [splitDot_cons_ne (fun e => h.1 e.symm), ih h.2]; rfl

/-- the first dot ends the first section -/
theorem splitDot_append_dot {v : Bytes} (h : (46 : UInt8) ∉ v) (rest : Bytes) :
    splitDot (v ++ 46 :: rest) = v :: splitDot rest := by
  induction v with
  | nil => exact splitDot_cons_dot rest
  | cons b bs ih =>
    rw [List.mem_cons, not_or] at h
    rw [List.cons_append, splitDot_cons_ne (fun e => h.1 e.symm), ih h.2]; rfl

/-! ### `resolveStyle` -/

/-- `resolveStyle` with the sections made explicit and the literals evaluated -/
theorem resolveStyle_of_sections (reg : Registry) (heavy : Decoration) {style first : Bytes}
    {tl : List Bytes} (h : splitDot style = first :: tl) :
    resolveStyle reg heavy style =
      if goLower first = bCsv then .csv
      else if goLower first = bHtml then .html
      else if goLower first = bMarkdown then .markdown
      else if goLower first = bJson then .json
      else if goLower first = bTexttable then
        match tl with
        | s1 :: _ => .text (reg.named s1)
        | [] => .text heavy
      else .text (reg.named first) := by
  unfold resolveStyle
  simp only [h, List.headD_cons, bytes_csv, bytes_html, bytes_markdown, bytes_json, bytes_texttable]
  cases tl <;> rfl

/-- an executable copy of `resolveStyle` with literal byte strings, for `decide` on concrete cases -/
def resolveStyleLit (reg : Registry) (heavy : Decoration) (style : Bytes) : Format :=
  let sections := splitDot style
  let first := sections.headD []
  let low := goLower first
  if low = bCsv then .csv
  else if low = bHtml then .html
  else if low = bMarkdown then .markdown
  else if low = bJson then .json
  else if low = bTexttable then
    match sections with
    | _ :: s1 :: _ => .text (reg.named s1)
    | _ => .text heavy
  else .text (reg.named first)

theorem resolveStyle_lit (reg : Registry) (heavy : Decoration) (style : Bytes) :
    resolveStyle reg heavy style = resolveStyleLit reg heavy style := by
  unfold resolveStyle resolveStyleLit
  simp only [bytes_csv, bytes_html, bytes_markdown, bytes_json, bytes_texttable]
  rfl

def listStylesLit (reg : Registry) : List Bytes :=
  Registry.sortBytes (reg.names ++ [bCsv, bHtml, bJson, bMarkdown])

theorem listStyles_lit (reg : Registry) : listStyles reg = listStylesLit reg := by
  unfold listStyles listStylesLit
  simp only [bytes_csv, bytes_html, bytes_markdown, bytes_json]

theorem splitDot_cons_exists (style : Bytes) : ∃ first tl, splitDot style = first :: tl := by
  cases h : splitDot style with
  | nil => exact absurd h (splitDot_ne_nil style)
  | cons a l => exact ⟨a, l, rfl⟩

/-! ### the branches of `resolveStyle`, one lemma each -/

section branches
variable (reg : Registry) (heavy : Decoration) {style first : Bytes} {tl : List Bytes}

theorem resolveStyle_csv (h : splitDot style = first :: tl) (hl : goLower first = bCsv) :
    resolveStyle reg heavy style = .csv := by
  rw [resolveStyle_of_sections reg heavy h, if_pos hl]

theorem resolveStyle_html (h : splitDot style = first :: tl) (hl : goLower first = bHtml) :
    resolveStyle reg heavy style = .html := by
  rw [resolveStyle_of_sections reg heavy h, hl, if_neg (by decide), if_pos rfl]

theorem resolveStyle_markdown (h : splitDot style = first :: tl) (hl : goLower first = bMarkdown) :
    resolveStyle reg heavy style = .markdown := by
  rw [resolveStyle_of_sections reg heavy h, hl, if_neg (by decide), if_neg (by decide), if_pos rfl]

theorem resolveStyle_json (h : splitDot style = first :: tl) (hl : goLower first = bJson) :
    resolveStyle reg heavy style = .json := by
  rw [resolveStyle_of_sections reg heavy h, hl, if_neg (by decide), if_neg (by decide),
    if_neg (by decide), if_pos rfl]

theorem resolveStyle_tt_nil (h : splitDot style = [first]) (hl : goLower first = bTexttable) :
    resolveStyle reg heavy style = .text heavy := by
  rw [resolveStyle_of_sections reg heavy h, hl, if_neg (by decide), if_neg (by decide),
    if_neg (by decide), if_neg (by decide), if_pos rfl]

theorem resolveStyle_tt_cons {s1 : Bytes} (h : splitDot style = first :: s1 :: tl)
    (hl : goLower first = bTexttable) :
    resolveStyle reg heavy style = .text (reg.named s1) := by
  rw [resolveStyle_of_sections reg heavy h, hl, if_neg (by decide), if_neg (by decide),
    if_neg (by decide), if_neg (by decide), if_pos rfl]

theorem resolveStyle_other (h : splitDot style = first :: tl)
    (hr : goLower first ∉ [bCsv, bHtml, bMarkdown, bJson, bTexttable]) :
    resolveStyle reg heavy style = .text (reg.named first) := by
  simp only [List.mem_cons, List.not_mem_nil, or_false, not_or] at hr
  rw [resolveStyle_of_sections reg heavy h, if_neg hr.1, if_neg hr.2.1, if_neg hr.2.2.1,
    if_neg hr.2.2.2.1, if_neg hr.2.2.2.2]

end branches

/-- a string that lower-cases to a dot-free string has no dot -/
theorem nodot_of_goLower {v s : Bytes} (h : goLower v = s) (hs : (46 : UInt8) ∉ s) :
    (46 : UInt8) ∉ v := by
  intro hv; apply hs; rw [← h]; exact (dot_mem_goLower v).mpr hv

end Tab
