/-
  Spec side of C06e (definitions only): independent READERS for the token list of an HTML table —
  which text sits in which cell, the caption, and the attributes of a tag.  Nothing here refers to the
  renderer (`htmlBytes`) or to the expected token list (`skeleton`); `HTok`, `isTrOpen` are the spec
  definitions of Props/C06.lean.
-/
import Tabmodel.Props.C06
namespace Tab

/-- a `<th>` or `<td>` tag -/
def isCellOpen : HTok → Bool
  | .tag b => b == bytesOfString "<th>" || b == bytesOfString "<td>"
  | .text _ => false

/-- the text token directly after a tag: `[]` when the next token is a tag (an empty element) -/
def nextText : List HTok → Bytes
  | .text s :: _ => s
  | _ => []

/-- reader, right to left: (raw texts of the cells met so far that belong to the row whose `<tr…>` is
    further left, the complete rows to the right).  A `<tr…>` tag closes the pending cells into a row;
    a cell-opening tag contributes the text token that follows it; every other token is skipped. -/
def readGo : List HTok → List Bytes × List (List Bytes)
  | [] => ([], [])
  | t :: rest =>
    let r := readGo rest
    if isTrOpen t then ([], r.1 :: r.2)
    else if isCellOpen t then (nextText rest :: r.1, r.2)
    else r

/-- one entry per `<tr…>` tag, in document order: the raw (still escaped) texts of its `<th>` / `<td>`
    elements, in order.  Entry 0 is the header row. -/
def htmlReadRows (toks : List HTok) : List (List Bytes) := (readGo toks).2

/-- the raw text of the first `<caption>` element, `none` if there is no such tag -/
def htmlReadCaption : List HTok → Option Bytes
  | [] => none
  | t :: rest => if t = .tag (bytesOfString "<caption>") then some (nextText rest) else htmlReadCaption rest

/-- attribute scanner state -/
inductive AState
  | gap                       -- in the tag name, or after a closing quote: waiting for a space
  | name (n : Bytes)          -- reading an attribute name, up to `=`
  | eq (n : Bytes)            -- after `=`: a `"` must follow
  | val (n v : Bytes)         -- inside the double-quoted value, up to the next `"`

/-- sequential attribute scanner over a tag's source: ` name="value"` … ; a value ends at the FIRST `"` -/
def attrsGo : AState → Bytes → List (Bytes × Bytes)
  | _, [] => []
  | .gap, b :: r => if b = 32 then attrsGo (.name []) r else attrsGo .gap r
  | .name n, b :: r => if b = 61 then attrsGo (.eq n) r else attrsGo (.name (n ++ [b])) r
  | .eq n, b :: r => if b = 34 then attrsGo (.val n []) r else attrsGo .gap r
  | .val n v, b :: r => if b = 34 then (n, v) :: attrsGo .gap r else attrsGo (.val n (v ++ [b])) r

/-- the attribute names `class` and `id` -/
def attrClass : Bytes := [99, 108, 97, 115, 115]
def attrId : Bytes := [105, 100]

/-- a string without NUL byte -/
def NulFree (s : Bytes) : Prop := ∀ b ∈ s, b ≠ 0

instance (s : Bytes) : Decidable (NulFree s) := by unfold NulFree; infer_instance

/-- the (name, raw value) pairs of a tag, in order -/
def tagAttrs (tag : Bytes) : List (Bytes × Bytes) := attrsGo .gap tag

/-- the attributes of the first token (the `<table…>` tag) -/
def htmlReadTableAttrs : List HTok → List (Bytes × Bytes)
  | .tag t :: _ => tagAttrs t
  | _ => []

/-- the attributes of every `<tr…>` tag, in order -/
def htmlReadRowAttrs (toks : List HTok) : List (List (Bytes × Bytes)) :=
  (toks.filter isTrOpen).map (fun t => tagAttrs t.body)

/-- entity-decode the values of an attribute list -/
def decodeAttrs (l : List (Bytes × Bytes)) : List (Bytes × Bytes) := l.map (fun p => (p.1, htmlDecode p.2))

/-! ### a STATEFUL row-class generator (C06 clause 4)

  In Go the generator is `func(rowNum int, ctx interface{}) template.HTMLAttr`; the context (or
  variables the closure captures) may be mutated by each call, so how often and in which order it is
  called is observable.  `σ` is that mutable state.  `htmlBytesSt` is the template of `html/html.go`
  (`Model/Html.lean` `htmlBytes`) with the state threaded through in document order: one step where
  the template says `{{RowClass 0}}` (header row), one where it says `{{RowClass (OnePlus $i)}}`
  (inside `{{if $row.IsSeparator | not}}`), nowhere else. -/

abbrev RowGen (σ : Type) := σ → Nat → Bytes × σ

/-- one `<tr class="…">…</tr>` line; the generator is stepped once -/
def htmlTrSt {σ : Type} (gen : RowGen σ) (s : σ) (n : Nat) (tag : String) (cells : List RCell) : Bytes × σ :=
  let r := gen s n
  (bytesOfString "    <tr" ++
   (bytesOfString " class=\"" ++ htmlEscape r.1 ++ bytesOfString "\"") ++
   bytesOfString ">" ++
   cells.flatMap (fun c => bytesOfString ("<" ++ tag ++ ">") ++ htmlEscape c.text ++ bytesOfString ("</" ++ tag ++ ">")) ++
   bytesOfString "</tr>\n", r.2)

/-- the body rows, in order; separators emit nothing and do not step the generator -/
def htmlBodySt {σ : Type} (gen : RowGen σ) : σ → List (Option (List RCell) × Nat) → Bytes × σ
  | s, [] => ([], s)
  | s, (none, _) :: l => htmlBodySt gen s l
  | s, (some cells, i) :: l =>
    let a := htmlTrSt gen s (i + 1) "td" cells
    let b := htmlBodySt gen a.2 l
    (a.1 ++ b.1, b.2)

/-- the whole document and the generator's final state (`cfg.rowClass` is not read) -/
def htmlBytesSt {σ : Type} (cfg : HtmlCfg) (gen : RowGen σ) (s₀ : σ) (v : RTable) : Bytes × σ :=
  let h := htmlTrSt gen s₀ 0 "th" (v.header.getD [])
  let b := htmlBodySt gen h.2 v.rows.zipIdx
  (bytesOfString "<table" ++
   (if cfg.cls != [] then bytesOfString " class=\"" ++ htmlEscape cfg.cls ++ bytesOfString "\"" else []) ++
   (if cfg.id != [] then bytesOfString " id=\"" ++ htmlEscape cfg.id ++ bytesOfString "\"" else []) ++
   bytesOfString ">\n" ++
   (if cfg.caption != [] then bytesOfString "  <caption>" ++ htmlEscape cfg.caption ++ bytesOfString "</caption>\n" else []) ++
   bytesOfString "  <thead>\n" ++
   h.1 ++
   bytesOfString "  </thead>\n  <tbody>\n" ++
   b.1 ++
   bytesOfString "  </tbody>\n</table>\n", b.2)

/-- SPEC of "stepped exactly once per argument, in order": run the generator along a list of
    arguments; the values it returned, in order, and its final state -/
def stepGen {σ : Type} (gen : RowGen σ) : σ → List Nat → List Bytes × σ
  | s, [] => ([], s)
  | s, n :: ns =>
    let r := gen s n
    let t := stepGen gen r.2 ns
    (r.1 :: t.1, t.2)

/-- the pure function that returns, for the `k`-th argument of `args`, the `k`-th value of `outs`
    (`[]` elsewhere; first occurrence wins) -/
def genFun (args : List Nat) (outs : List Bytes) (n : Nat) : Bytes := ((args.zip outs).lookup n).getD []

/-- the generator instrumented with a call log -/
def logGen {σ : Type} (gen : RowGen σ) : RowGen (σ × List Nat) :=
  fun s n => ((gen s.1 n).1, ((gen s.1 n).2, s.2 ++ [n]))

end Tab
