/- C11, history level — the step law of the operations that raise errors or attach rows. -/
import Tabmodel.Proofs.C11hD
namespace Tab
namespace World

/-! ### `Row.Add` -/

theorem resolve_rowLazy {hs : List Nat} {w : World} (h : HE hs w) (r : Nat) (hr : r < w.rows.length) :
    resolve w (.rowLazy r) = some (w.ownerOf (.row r)) := by
  simp only [resolve, hr, if_true, ownerOf]
  cases hec : (w.row r).ec with
  | none => rfl
  | own es => rfl
  | table t => simp [(h.ect r t hec).1]

theorem sstep_rowAddCell (dw : Measure) {hs : List Nat} {w : World} (h : HE hs w) (r : Nat) (ce : Cell)
    (e : Nat) (hr : r < w.rows.length) :
    SStep e (some (.row r)) (rowAddCellK dw e (w, 0) r ce).2 w (rowAddCell dw w r ce) := by
  have hg := rowAddCellK_good dw (Good.start w e 0 (w.ownerOf (.row r))) r ce (resolve_rowLazy h r hr)
  rw [← rowAddCellK_fst dw e (w, 0) r ce]
  exact SStep.of_good hg rfl

/-! ### direct `AddError` -/

def tkDest : Taker → Option Src
  | .drop => none
  | .table t => some (.table t)
  | .rowOwn r => some (.row r)
  | .rowLazy r => some (.row r)

theorem dest_addErr (tk : Taker) (e : Nat) : (BuildOp.addErr tk e).dest = tkDest tk := by
  cases tk <;> rfl

theorem resolve_eq_dest (w : World) (tk : Taker) (g : Src) :
    resolve w tk = some g ↔ (live w tk ∧ (tkDest tk).map w.ownerOf = some g) := by
  cases tk with
  | drop => simp [resolve, live]
  | table t =>
    simp only [resolve, live, tkDest, Option.map_some, ownerOf]
    by_cases ht : t < w.tables.length <;> simp [ht]
  | rowOwn r =>
    simp only [resolve, live, tkDest, Option.map_some, ownerOf]
    cases (w.row r).ec <;> simp
  | rowLazy r =>
    simp only [resolve, live, tkDest, Option.map_some, ownerOf]
    by_cases hr : r < w.rows.length
    · simp only [hr, if_true, true_and]
      cases (w.row r).ec with
      | none => simp
      | own es => simp
      | table t => by_cases ht : t < w.tables.length <;> simp [ht]
    · simp [hr]

theorem sstep_addErr (w : World) (tk : Taker) (e' e : Nat) :
    SStep e (tkDest tk) (if live w tk ∧ e' = e then 1 else 0) w (addErrTo w tk e') where
  own := (addErrTo_stable w tk e').ecT
  ms := by rw [mass_addErrTo_gen]; simp only [eq_comm]
  ct g := by
    rw [cnt_addErrTo]
    congr 1
    by_cases hr : resolve w tk = some g
    · obtain ⟨h1, h2⟩ := (resolve_eq_dest w tk g).mp hr
      simp only [hr, h1, h2, true_and, if_true, eq_comm]
    · by_cases hl : live w tk
      · have : ¬ (tkDest tk).map w.ownerOf = some g := fun h2 => hr ((resolve_eq_dest w tk g).mpr ⟨hl, h2⟩)
        simp [hr, this]
      · simp [hr, hl]

/-! ### render -/

theorem invokeK_nil (dw : Measure) (e : Nat) (c : Cnt) (cbs : World → List Cb) (tgt : Target)
    (tk : World → Taker) (h : cbs c.1 = []) : invokeK dw e c cbs tgt tk = c := by
  simp only [invokeK, h, invoke, List.foldl_nil, raiseCount, List.filter_nil, List.length_nil,
    Nat.add_zero]

theorem at_default (tm : Time) : ({} : CbSet).at tm = [] := by cases tm <;> rfl

theorem renderK_oob (dw : Measure) (e : Nat) (c : Cnt) (t : Nat) (h : c.1.tables.length ≤ t) :
    renderK dw e c t = c := by
  have hT : c.1.table t = {} := table_oob c.1 t h
  have h1 : invokeK dw e c (fun w => (w.table t).selfCbs.at .pre) (.table t) (fun _ => .table t) = c :=
    invokeK_nil dw e c _ _ _ (by simp only [hT]; rfl)
  have h4 : invokeK dw e c (fun w => (w.table t).selfCbs.at .post) (.table t) (fun _ => .table t) = c :=
    invokeK_nil dw e c _ _ _ (by simp only [hT]; rfl)
  have hcol : ∀ tm, renderColumnsK dw e t tm (c.1.table t).columns.length 0 c = c := by
    intro tm
    have : (c.1.table t).columns.length = 1 := by rw [hT]; rfl
    rw [this, renderColumnsK, renderColumnsK]
    exact invokeK_nil dw e c _ _ _ (by simp only [column?, hT]; cases tm <;> rfl)
  have hh : renderHeaderK dw e t c = c := by simp only [renderHeaderK, hT]
  have hr : (c.1.table t).rows.foldl (renderRowK dw e t) c = c := by rw [hT]; rfl
  unfold renderK
  simp only
  rw [h1, hcol, hh, hr, hcol, h4]

theorem sstep_render (dw : Measure) {hs : List Nat} {w : World} (h : HE hs w) (t e : Nat) :
    SStep e (some (.table t)) (renderK dw e (w, 0) t).2 w (invokeRenderCallbacks dw w t) := by
  by_cases ht : t < w.tables.length
  · rw [← renderK_fst dw e (w, 0) t]
    exact SStep.of_good (renderK_good dw e 0 w t (h.att t ht)) rfl
  · have := renderK_oob dw e (w, 0) t (Nat.le_of_not_lt ht)
    rw [← renderK_fst dw e (w, 0) t, this]
    exact SStep.same (fun _ => rfl) (fun _ => rfl) rfl

/-! ### `AddSeparator` -/

theorem addSeparator_row_ne (w : World) (t r : Nat) (h : r ≠ w.rows.length) :
    (addSeparator w t).row r = w.row r := by
  simp only [addSeparator, newRow]
  rw [row_modRow_ne _ _ _ _ (Ne.symm h), row_modTable]
  exact getD_append_ne w.rows _ {} r h

theorem addSeparator_errs (w : World) (t t' : Nat) :
    ((addSeparator w t).table t').errs = (w.table t').errs := by
  simp only [addSeparator, newRow, table_modRow]
  refine table_modTable_proj _ _ _ (·.errs) ?_ _
  intro _; rfl

theorem addSeparator_rows (w : World) (t : Nat) (ht : t < w.tables.length) :
    ((addSeparator w t).table t).rows = (w.table t).rows ++ [w.rows.length] := by
  simp only [addSeparator, newRow, table_modRow]
  rw [table_modTable_self _ _ _ (by exact ht)]
  rfl

theorem addSeparator_rows_ne (w : World) (t t' : Nat) (h : t ≠ t') :
    ((addSeparator w t).table t').rows = (w.table t').rows := by
  simp only [addSeparator, newRow, table_modRow]
  rw [table_modTable_ne _ _ _ _ h]
  rfl

theorem mass_modRow_zero (w : World) (r : Nat) (f : Row → Row) (e : Nat) (hr : r < w.rows.length)
    (h1 : ownCount e (w.row r) = 0) (h2 : ownCount e (f (w.row r)) = 0) :
    mass (w.modRow r f) e = mass w e := by
  have := mass_modRow w r f e hr
  omega

theorem mass_addSeparator (w : World) (t e : Nat) : mass (addSeparator w t) e = mass w e := by
  simp only [addSeparator, newRow]
  refine (mass_modRow_zero _ _ _ e (by simp) ?_ ?_).trans ?_
  · rw [row_modTable]
    exact congrArg (ownCount e) (getD_append_length w.rows _ _)
  · rfl
  · refine (mass_modTable_same _ _ _ _ ?_).trans ?_
    · intro _; rfl
    · exact mass_newRow w { cells := none, isSep := true } e rfl

theorem astep_addSeparator (w : World) (t e : Nat) :
    AStep e t w.rows.length 0 w (addSeparator w t) where
  un := unattached_oob w _ (Nat.le_refl _)
  ec := (c11_attached_ec_sep w t).1
  own r' hne t' := by rw [addSeparator_row_ne w t r' hne]
  ms := mass_addSeparator w t e
  ctT t' := by
    have h0 := cnt_row_oob w _ e (Nat.le_refl w.rows.length)
    rw [h0]
    simp only [cnt, addSeparator_errs]
    split <;> rfl
  ctR r' hne := by simp only [cnt, addSeparator_row_ne w t r' hne]
where
  c11_attached_ec_sep (w : World) (t : Nat) :
      ((addSeparator w t).row w.rows.length).ec = .table t ∧ True := by
    refine ⟨?_, trivial⟩
    simp only [addSeparator, newRow]
    rw [row_modRow_self _ _ _ (by simp)]

theorem he_addSeparator {hs : List Nat} {w : World} (h : HE hs w) (t : Nat) (ht : t < w.tables.length) :
    HE hs (addSeparator w t) where
  att t' ht' := by
    have : (addSeparator w t).tables.length = w.tables.length := by simp [addSeparator, newRow]
    exact attachedAll_addSeparator w t t' ht (h.att t' (by rw [← this]; exact ht'))
  ect r t' hec := by
    have hl : (addSeparator w t).tables.length = w.tables.length := by simp [addSeparator, newRow]
    rw [hl]
    by_cases hr : r = w.rows.length
    · subst hr
      rw [(astep_addSeparator w t 0).ec] at hec
      cases hec
      exact ⟨ht, Or.inl (by rw [addSeparator_rows w t ht]; simp)⟩
    · rw [addSeparator_row_ne w t r hr] at hec
      obtain ⟨h1, h2⟩ := h.ect r t' hec
      refine ⟨h1, ?_⟩
      rcases h2 with h2 | h2
      · left
        by_cases htt : t = t'
        · subst htt; rw [addSeparator_rows w t ht]; exact List.mem_append_left _ h2
        · rw [addSeparator_rows_ne w t t' htt]; exact h2
      · exact Or.inr h2

end World
end Tab
