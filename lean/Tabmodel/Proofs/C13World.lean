/- C13 helper lemmas: reading the stores after `modTable` / `modRow` / `modColumn` / `modCell`. -/
import Tabmodel.Proofs.C13Spec
set_option linter.unusedSimpArgs false
namespace Tab
open World
namespace C13

theorem table_eq (w : World) (t : Nat) : w.table t = (w.tables[t]?).getD {} := by
  simp [World.table, List.getD_eq_getElem?_getD]
theorem row_eq (w : World) (r : Nat) : w.row r = (w.rows[r]?).getD {} := by
  simp [World.row, List.getD_eq_getElem?_getD]

theorem table_of_lt {w : World} {t : Nat} (h : t < w.tables.length) : w.tables[t]? = some (w.table t) := by
  simp [table_eq, List.getElem?_eq_getElem h]
theorem row_of_lt {w : World} {r : Nat} (h : r < w.rows.length) : w.rows[r]? = some (w.row r) := by
  simp [row_eq, List.getElem?_eq_getElem h]

/-! ### modTable -/

theorem table_modTable (w : World) (t : Nat) (f : Table → Table) (t' : Nat) :
    (w.modTable t f).table t' = if t = t' ∧ t' < w.tables.length then f (w.table t') else w.table t' := by
  simp only [table_eq, World.modTable, List.getElem?_modify]
  by_cases h : t = t'
  · subst h
    by_cases h2 : t < w.tables.length
    · simp [h2, List.getElem?_eq_getElem h2]
    · simp [h2, List.getElem?_eq_none (Nat.le_of_not_lt h2)]
  · simp [h]

theorem table_modTable_same {w : World} {t : Nat} (h : t < w.tables.length) (f : Table → Table) :
    (w.modTable t f).table t = f (w.table t) := by
  rw [table_modTable]; simp [h]

theorem table_modTable_ne {t t' : Nat} (h : t ≠ t') (w : World) (f : Table → Table) :
    (w.modTable t f).table t' = w.table t' := by
  rw [table_modTable]; simp [h]

@[simp] theorem tables_length_modTable (w : World) (t : Nat) (f : Table → Table) :
    (w.modTable t f).tables.length = w.tables.length := by simp [World.modTable]
@[simp] theorem rows_modTable (w : World) (t : Nat) (f : Table → Table) : (w.modTable t f).rows = w.rows := rfl
@[simp] theorem row_modTable (w : World) (t : Nat) (f : Table → Table) (r : Nat) : (w.modTable t f).row r = w.row r := rfl
@[simp] theorem rowCells_modTable (w : World) (t : Nat) (f : Table → Table) (r : Nat) :
    (w.modTable t f).rowCells r = w.rowCells r := rfl
@[simp] theorem cell?_modTable (w : World) (t : Nat) (f : Table → Table) (r c : Nat) :
    (w.modTable t f).cell? r c = w.cell? r c := rfl
@[simp] theorem copies_modTable (w : World) (t : Nat) (f : Table → Table) : (w.modTable t f).copies = w.copies := rfl
@[simp] theorem events_modTable (w : World) (t : Nat) (f : Table → Table) : (w.modTable t f).events = w.events := rfl
@[simp] theorem items_modTable (w : World) (t : Nat) (f : Table → Table) : (w.modTable t f).items = w.items := rfl

/-! ### modRow -/

theorem row_modRow (w : World) (r : Nat) (f : Row → Row) (r' : Nat) :
    (w.modRow r f).row r' = if r = r' ∧ r' < w.rows.length then f (w.row r') else w.row r' := by
  simp only [row_eq, World.modRow, List.getElem?_modify]
  by_cases h : r = r'
  · subst h
    by_cases h2 : r < w.rows.length
    · simp [h2, List.getElem?_eq_getElem h2]
    · simp [h2, List.getElem?_eq_none (Nat.le_of_not_lt h2)]
  · simp [h]

theorem row_modRow_same {w : World} {r : Nat} (h : r < w.rows.length) (f : Row → Row) :
    (w.modRow r f).row r = f (w.row r) := by
  rw [row_modRow]; simp [h]

theorem row_modRow_ne {r r' : Nat} (h : r ≠ r') (w : World) (f : Row → Row) :
    (w.modRow r f).row r' = w.row r' := by
  rw [row_modRow]; simp [h]

@[simp] theorem rows_length_modRow (w : World) (r : Nat) (f : Row → Row) :
    (w.modRow r f).rows.length = w.rows.length := by simp [World.modRow]
@[simp] theorem tables_modRow (w : World) (r : Nat) (f : Row → Row) : (w.modRow r f).tables = w.tables := rfl
@[simp] theorem table_modRow (w : World) (r : Nat) (f : Row → Row) (t : Nat) : (w.modRow r f).table t = w.table t := rfl
@[simp] theorem column?_modRow (w : World) (r : Nat) (f : Row → Row) (t n : Nat) :
    (w.modRow r f).column? t n = w.column? t n := rfl
@[simp] theorem copies_modRow (w : World) (r : Nat) (f : Row → Row) : (w.modRow r f).copies = w.copies := rfl
@[simp] theorem events_modRow (w : World) (r : Nat) (f : Row → Row) : (w.modRow r f).events = w.events := rfl
@[simp] theorem items_modRow (w : World) (r : Nat) (f : Row → Row) : (w.modRow r f).items = w.items := rfl

/-! ### modColumn -/

theorem column?_modColumn (w : World) (t n : Nat) (f : Column → Column) (t' n' : Nat) :
    (w.modColumn t n f).column? t' n' =
      if t = t' ∧ t' < w.tables.length ∧ n = n' then (w.column? t' n').map f else w.column? t' n' := by
  simp only [World.column?, World.modColumn, table_modTable]
  by_cases h : t = t' ∧ t' < w.tables.length
  · by_cases h2 : n = n'
    · simp [h, h2, List.getElem?_modify]
    · simp [h, h2, List.getElem?_modify]
  · have : ¬ (t = t' ∧ t' < w.tables.length ∧ n = n') := fun hh => h ⟨hh.1, hh.2.1⟩
    simp [h, this]

/-! ### modCell -/

theorem rowCells_modRow_cells (w : World) (r : Nat) (g : List Cell → List Cell) (hg : g [] = []) (r' : Nat) :
    (w.modRow r (fun rw => { rw with cells := rw.cells.map g })).rowCells r' =
      if r = r' then g (w.rowCells r') else w.rowCells r' := by
  simp only [World.rowCells, row_modRow]
  by_cases h : r = r'
  · subst h
    by_cases h2 : r < w.rows.length
    · simp only [h2, and_self, if_true]
      cases (w.row r).cells <;> simp [hg]
    · have : w.row r = {} := by simp [row_eq, List.getElem?_eq_none (Nat.le_of_not_lt h2)]
      simp [h2, this, hg]
  · simp [h]

theorem cell?_modCell (w : World) (r c : Nat) (f : Cell → Cell) (r' c' : Nat) :
    (w.modCell r c f).cell? r' c' = if r = r' ∧ c = c' then (w.cell? r' c').map f else w.cell? r' c' := by
  unfold World.cell? World.modCell
  rw [rowCells_modRow_cells w r (fun cs => cs.modify c f) (by simp)]
  by_cases h : r = r'
  · by_cases h2 : c = c' <;> simp [h, h2, List.getElem?_modify]
  · simp [h]

@[simp] theorem table_modCell (w : World) (r c : Nat) (f : Cell → Cell) (t : Nat) : (w.modCell r c f).table t = w.table t := rfl
@[simp] theorem copies_modCell (w : World) (r c : Nat) (f : Cell → Cell) : (w.modCell r c f).copies = w.copies := rfl

end C13
end Tab
