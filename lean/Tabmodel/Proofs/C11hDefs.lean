/-
  C11, history level — spec definitions (lemmas are in `Proofs/C11h.lean`, theorems in
  `Props/C11h.lean`).

  * `raisedBy dw w op e`: how many times error id `e` is *raised* when `op` is applied in `w`.
    It is computed by re-running the operation with a counter (`…K` functions): every
    `invoke` call adds the number of callbacks of the list it is given that return `e` on the
    target (`raiseCount`, which looks only at the callbacks and the target), a misuse of a
    separator / zero row adds one `errNonCellRow`, a direct `addErr` through a live taker adds
    one.  No error container is ever inspected.  The first components of the `…K` functions are
    the model's functions (`applyOpK_fst`).
  * `Src`, `BuildOp.dest`, `ownerOf`, the ledger of a history and `charged`: who an
    operation's errors are raised on, and whose list reports them.
  * `HdrSafe`: the one thing `Valid` does not exclude and the Go API does (the header row is
    not reachable by callers): attaching a row that was created by `AddHeaders`.
  * `HInv`: the invariant of valid histories that makes every taker live.
-/
import Tabmodel.Proofs.C11
import Tabmodel.Spec.World
namespace Tab
namespace World

/-! ### counting what an operation raises -/

/-- a world and a counter -/
abbrev Cnt := World × Nat

/-- `invoke`, counting the callbacks of the list that return `e` on `tgt` -/
def invokeK (dw : Measure) (e : Nat) (c : Cnt) (cbs : World → List Cb) (tgt : Target)
    (tk : World → Taker) : Cnt :=
  (invoke dw c.1 (cbs c.1) tgt (tk c.1), c.2 + raiseCount tgt e (cbs c.1))

/-- `rowAddCell` (`Row.Add`): one `errNonCellRow` on a row without a cell slice, otherwise the
    row's add-time cell callbacks on the new cell -/
def rowAddCellK (dw : Measure) (e : Nat) (c : Cnt) (r : Nat) (ce : Cell) : Cnt :=
  match (c.1.row r).cells with
  | none => (addErrTo c.1 (.rowLazy r) errNonCellRow, c.2 + if errNonCellRow = e then 1 else 0)
  | some cs =>
    invokeK dw e (rowAddCellPre c.1 r ce cs, c.2) (fun w => (w.row r).cellCbs.at .add)
      (.cell r cs.length) (fun _ => .rowLazy r)

def rowAddManyK (dw : Measure) (e : Nat) (r : Nat) : List Nat → Cnt → Cnt
  | [], c => c
  | i :: is, c => rowAddManyK dw e r is (rowAddCellK dw e c r (newCell dw i (c.1.item i)))

def addTimeCellsK (dw : Measure) (e : Nat) (t r : Nat) (tkf : World → Taker) : Nat → Nat → Cnt → Cnt
  | 0, _, c => c
  | n + 1, i, c =>
    let c := invokeK dw e c (fun w => colCellCbs w (columnOf w r i) .add) (.cell r i) tkf
    let c := invokeK dw e c (fun w => (w.table t).cellCbs.at .add) (.cell r i) tkf
    addTimeCellsK dw e t r tkf n (i + 1) c

/-- `addRow`: the structural part (`addRowCore`, which raises nothing) and then the add-time
    callbacks of the row, of the table for rows, of the columns and of the table for cells -/
def addRowK (dw : Measure) (e : Nat) (c : Cnt) (t r : Nat) : Cnt :=
  let c : Cnt := (addRowCore c.1 t r, c.2)
  let c := invokeK dw e c (fun w => (w.row r).selfCbs.at .add) (.row r) (fun _ => .table t)
  let c := invokeK dw e c (fun w => (w.table t).rowCbs.at .add) (.row r) (fun _ => .table t)
  addTimeCellsK dw e t r (fun w => rowECTaker w r) (c.1.rowCells r).length 0 c

def addHeadersK (dw : Measure) (e : Nat) (c : Cnt) (t : Nat) (items : List Nat) : Cnt :=
  let w := c.1.modTable t (fun tb => resizeColumnsAtLeast tb items.length)
  let hr := w.rows.length
  let w := (w.newRow { ec := .table t }).1
  let c := rowAddManyK dw e hr items (w, c.2)
  let c : Cnt := (c.1.modTable t (fun tb => { tb with header := some hr }), c.2)
  let c := invokeK dw e c (fun w => (w.table t).rowCbs.at .add) (.row hr) (fun _ => .table t)
  addTimeCellsK dw e t hr (fun _ => .table t) (c.1.rowCells hr).length 0 c

def renderCellK (dw : Measure) (e : Nat) (t r i : Nat) (c : Cnt) : Cnt :=
  (cellCalls t r i (columnOf c.1 r i)).foldl (fun c d => invokeK dw e c d.1 (.cell r i) d.2) c

def renderCellsK (dw : Measure) (e : Nat) (t r : Nat) : Nat → Nat → Cnt → Cnt
  | 0, _, c => c
  | n + 1, i, c => renderCellsK dw e t r n (i + 1) (renderCellK dw e t r i c)

def renderRowK (dw : Measure) (e : Nat) (t : Nat) (c : Cnt) (r : Nat) : Cnt :=
  let c := invokeK dw e c (fun w => (w.row r).selfCbs.at .pre) (.row r) (fun _ => .table t)
  let c := renderCellsK dw e t r (c.1.rowCells r).length 0 c
  invokeK dw e c (fun w => (w.row r).selfCbs.at .post) (.row r) (fun _ => .table t)

def renderColumnsK (dw : Measure) (e : Nat) (t : Nat) (tm : Time) : Nat → Nat → Cnt → Cnt
  | 0, _, c => c
  | n + 1, i, c =>
    let c := invokeK dw e c (fun w => ((w.column? t i).map (·.selfCbs.at tm)).getD [])
      (.column t i) (fun _ => .table t)
    renderColumnsK dw e t tm n (i + 1) c

def renderHeaderK (dw : Measure) (e : Nat) (t : Nat) (c : Cnt) : Cnt :=
  match (c.1.table t).header with
  | some hr => renderRowK dw e t c hr
  | none => c

def renderK (dw : Measure) (e : Nat) (c : Cnt) (t : Nat) : Cnt :=
  let c := invokeK dw e c (fun w => (w.table t).selfCbs.at .pre) (.table t) (fun _ => .table t)
  let ncol := (c.1.table t).columns.length
  let c := renderColumnsK dw e t .pre ncol 0 c
  let c := renderHeaderK dw e t c
  let c := (c.1.table t).rows.foldl (renderRowK dw e t) c
  let c := renderColumnsK dw e t .post ncol 0 c
  invokeK dw e c (fun w => (w.table t).selfCbs.at .post) (.table t) (fun _ => .table t)

end World
open World

/-- one operation, counting the raises of `e` -/
def applyOpK (dw : Measure) (e : Nat) (c : Cnt) : BuildOp → Cnt
  | .addHeaders t items => addHeadersK dw e c t items
  | .addRowItems t items =>
    addRowK dw e (rowAddManyK dw e c.1.rows.length items ((c.1.newRow {}).1, c.2)) t c.1.rows.length
  | .appendNewRow t => addRowK dw e ((c.1.newRow {}).1, c.2) t c.1.rows.length
  | .rowAdd r i => rowAddCellK dw e c r (newCell dw i (c.1.item i))
  | .rowAddCell r ce => rowAddCellK dw e c r ce
  | .addRow t r => addRowK dw e c t r
  | .addErr tk e' => (addErrTo c.1 tk e', c.2 + if live c.1 tk ∧ e' = e then 1 else 0)
  | .render t => renderK dw e c t
  | op => (applyOp dw c.1 op, c.2)

/-- how many times error id `e` is raised by applying `op` in world `w` -/
def raisedBy (dw : Measure) (w : World) (op : BuildOp) (e : Nat) : Nat := (applyOpK dw e (w, 0) op).2

/-- … summed over a history started in `w` -/
def raisedFrom (dw : Measure) (e : Nat) (w : World) : List BuildOp → Nat
  | [] => 0
  | op :: ops => raisedBy dw w op e + raisedFrom dw e (applyOp dw w op) ops

/-! ### sources, owners, the ledger -/

/-- an object errors are raised on / reported by -/
inductive Src
  | table (t : Nat)
  | row (r : Nat)
  deriving DecidableEq, Repr

/-- the object whose error list reports what is raised on `s`: a table reports its own, a row
    that shares a table's container is reported by that table, any other row by itself -/
def World.ownerOf (w : World) : Src → Src
  | .table t => .table t
  | .row r => match (w.row r).ec with
    | .table t => .table t
    | _ => .row r

/-- occurrences of `e` in the list held for `s` -/
def World.cnt (w : World) (e : Nat) : Src → Nat
  | .table t => (w.table t).errs.count e
  | .row r => ownCount e (w.row r)

/-- the object the errors of an operation are raised on (`none`: the operation raises nothing,
    or, for `addErr .drop`, there is no object) -/
def BuildOp.dest : BuildOp → Option Src
  | .addErr (.table t) _ => some (.table t)
  | .addErr (.rowOwn r) _ => some (.row r)
  | .addErr (.rowLazy r) _ => some (.row r)
  | .rowAdd r _ => some (.row r)
  | .rowAddCell r _ => some (.row r)
  | .addRow t _ => some (.table t)
  | .addHeaders t _ => some (.table t)
  | .addRowItems t _ => some (.table t)
  | .appendNewRow t => some (.table t)
  | .addSeparator t => some (.table t)
  | .render t => some (.table t)
  | _ => none

/-- the ledger of a history: per operation, where its errors are raised and how many `e` -/
def ledgerFrom (dw : Measure) (e : Nat) (w : World) : List BuildOp → List (Option Src × Nat)
  | [] => []
  | op :: ops => (op.dest, raisedBy dw w op e) :: ledgerFrom dw e (applyOp dw w op) ops

/-- the ledger entries whose source is, in world `w`, reported by `g` -/
def World.charged (w : World) (g : Src) (L : List (Option Src × Nat)) : Nat :=
  ((L.filter (fun p => p.1.map w.ownerOf == some g)).map (·.2)).sum

/-! ### validity beyond `Valid`: rows made by `AddHeaders` are never attached -/

def BuildOp.hdrStep (n : Nat) (hs : List Nat) : BuildOp → List Nat
  | .addHeaders _ _ => n :: hs
  | _ => hs

def BuildOp.hdrOk (hs : List Nat) : BuildOp → Bool
  | .addRow _ r => !hs.contains r
  | _ => true

/-- `n`: rows in the store so far; `hs`: ids of rows created by `addHeaders` so far -/
def hdrSafeFrom (n : Nat) (hs : List Nat) : List BuildOp → Bool
  | [] => true
  | op :: ops => op.hdrOk hs && hdrSafeFrom (n + op.newRows) (op.hdrStep n hs) ops

def HdrSafe (ops : List BuildOp) : Bool := hdrSafeFrom 0 [] ops

/-- header-row ids created by a history started with `n` rows and `hs` -/
def hdrIdsFrom (n : Nat) (hs : List Nat) : List BuildOp → List Nat
  | [] => hs
  | op :: ops => hdrIdsFrom (n + op.newRows) (op.hdrStep n hs) ops

/-! ### the invariant of valid histories -/

/-- structural invariant of C02; every existing table has all its rows and its header row
    sharing its container; and a row shares a table's container only if the table exists and
    the row is in its list or was created by `AddHeaders` (so every other row is `unattached`:
    it has no container or its own) -/
structure HInv (hs : List Nat) (w : World) : Prop where
  inv : Inv w
  att : ∀ t, t < w.tables.length → attachedAll w t
  ect : ∀ r t, (w.row r).ec = .table t → t < w.tables.length ∧ (r ∈ (w.table t).rows ∨ r ∈ hs)

end Tab
