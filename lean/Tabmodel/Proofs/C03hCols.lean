/-
  C03h helpers, part 3: the cells of one column of the post-pass view, position by position, are the
  measured images (`canonCell`) of the cells of that column of the built table.
-/
import Tabmodel.Proofs.C03hInv
import Tabmodel.Proofs.E2EcbMeas
import Tabmodel.Proofs.TextFinal
namespace Tab
namespace C03h
open World

theorem bodyColCells_map (m : RCell → RCell) (rows : List (Option (List RCell))) (i : Nat) :
    bodyColCells (rows.map (·.map (·.map m))) i = (bodyColCells rows i).map m := by
  unfold bodyColCells
  induction rows with
  | nil => rfl
  | cons r rs ih =>
    cases r with
    | none => simpa using ih
    | some cells =>
      simp only [List.map_cons, Option.map_some, List.filterMap_cons, Option.bind_some, List.getElem?_map]
      cases cells[i]? with
      | none => simpa using ih
      | some c => simp only [Option.map_some, List.map_cons, ih]

theorem colCells_mapCells (m : RCell → RCell) (v : RTable) (i : Nat) :
    (v.mapCells m).colCells i = (v.colCells i).map m := by
  unfold RTable.colCells RTable.mapCells
  simp only [List.map_append, bodyColCells_map]
  congr 1
  cases v.header with
  | none => rfl
  | some hs =>
    simp only [Option.map_some, List.getElem?_map]
    cases hs[i]? <;> rfl

theorem colCells_withCols (v : RTable) (a s : List (Option Val)) (i : Nat) :
    (v.withCols a s).colCells i = v.colCells i := rfl

/-- the cells of column `i` of `canonView`, when separators carry no cells -/
theorem colCells_canonView (dw : Measure) (tt md : Bool) (w : World) (t i : Nat)
    (hsep : ∀ r, (w.row r).isSep = true → w.rowCells r = []) :
    (canonView dw tt md w t).colCells i = (w.colCellsOf t i).map (canonCell dw tt md w) := by
  unfold RTable.colCells canonView World.colCellsOf
  simp only [List.filterMap_append, List.map_append]
  congr 1
  · cases (w.table t).header with
    | none => rfl
    | some hr =>
      simp only [Option.map_some, List.getElem?_map, Option.toList_some, List.filterMap_cons,
        List.filterMap_nil]
      cases (w.rowCells hr)[i]? <;> rfl
  · unfold bodyColCells
    induction (w.table t).rows with
    | nil => rfl
    | cons r rs ih =>
      simp only [List.map_cons, List.filterMap_cons]
      rw [ih]
      by_cases hs : (w.row r).isSep = true
      · simp [hs, hsep r hs]
      · simp only [hs, Bool.false_eq_true, if_false, Option.bind_some, List.getElem?_map]
        cases (w.rowCells r)[i]? <;> rfl

theorem canonCell_text (dw : Measure) (tt md : Bool) (w : World) (c : Cell) :
    (canonCell dw tt md w c).text = c.str := rfl

theorem canonCell_cellWidth (dw : Measure) (md : Bool) (w : World) (c : Cell) :
    (canonCell dw true md w c).cellWidth = c.termWidth := by
  unfold canonCell World.rcell RCell.mask mval
  simp [Chain.get, dimProps_eq]

/-- position by position: a cell of column `i` of the view after the pass, masked, is the canonical
    image of the corresponding cell of the built table -/
theorem colCells_postpass (dw : Measure) (w : World) (t i : Nat) (hU : w.UserKeysOnly t)
    (hcb : Cb.dimSetter ∈ (w.table t).cellCbs.render)
    (hsep : ∀ r, (w.row r).isSep = true → w.rowCells r = []) :
    (((invokeRenderCallbacks dw w t).view t).colCells i).map (RCell.mask true false) =
      (w.colCellsOf t i).map (canonCell dw true false w) := by
  rw [← colCells_mapCells,
    E2Ecb.view_measured_cb dw true false w t hU (fun _ => hcb) (fun h => Bool.noConfusion h),
    colCells_withCols, colCells_canonView dw true false w t i hsep]

theorem map_eq_map_comp {α β γ δ : Type} {l1 : List α} {l2 : List β} {m : α → γ} {g : β → γ}
    (h : l1.map m = l2.map g) (f : γ → δ) : l1.map (fun a => f (m a)) = l2.map (fun b => f (g b)) := by
  have := congrArg (List.map f) h
  simpa [List.map_map, Function.comp_def] using this

theorem colCellsOf_mem (w : World) (t i : Nat) (ce : Cell) (h : ce ∈ w.colCellsOf t i) :
    ∃ r ∈ (w.table t).header.toList ++ (w.table t).rows, ce ∈ w.rowCells r := by
  unfold World.colCellsOf at h
  obtain ⟨r, hr, e⟩ := List.mem_filterMap.mp h
  exact ⟨r, hr, List.mem_of_getElem? e⟩

theorem measured_termWidth {dw : Measure} {ce : Cell} (h : ce.Measured dw) :
    ce.termWidth = ((longestLine dw ce.str : Nat) : Int) := by
  unfold Cell.termWidth
  rw [h.1]
  split <;> omega

end C03h
end Tab
