/- C03 / C04: layout facts about the spec chunk list (column widths, slot widths, line kinds). -/
import Tabmodel.Proofs.TextRender
namespace Tab

/-! ### maxima -/

theorem foldl_max_ge_init (xs : List Nat) (a : Nat) : a ≤ xs.foldl max a := by
  induction xs generalizing a with
  | nil => exact Nat.le_refl _
  | cons x t ih => simp only [List.foldl_cons]; exact Nat.le_trans (Nat.le_max_left a x) (ih _)

theorem foldl_max_ge_mem (xs : List Nat) (a x : Nat) (h : x ∈ xs) : x ≤ xs.foldl max a := by
  induction xs generalizing a with
  | nil => cases h
  | cons y t ih =>
    simp only [List.foldl_cons]
    rcases List.mem_cons.mp h with rfl | h
    · exact Nat.le_trans (Nat.le_max_right a x) (foldl_max_ge_init t _)
    · exact ih _ h

theorem foldl_max_attained (xs : List Nat) (a : Nat) : xs.foldl max a = a ∨ xs.foldl max a ∈ xs := by
  induction xs generalizing a with
  | nil => exact Or.inl rfl
  | cons y t ih =>
    simp only [List.foldl_cons]
    rcases ih (max a y) with h | h
    · rw [h]
      by_cases hay : y ≤ a
      · left; exact Nat.max_eq_left hay
      · right; rw [Nat.max_eq_right (by omega)]; simp
    · right; exact List.mem_cons_of_mem _ h

theorem le_maxNat (xs : List Nat) (x : Nat) (h : x ∈ xs) : x ≤ maxNat xs := foldl_max_ge_mem xs 0 x h
theorem maxNat_attained (xs : List Nat) : maxNat xs = 0 ∨ maxNat xs ∈ xs := foldl_max_attained xs 0

theorem maxNat_append (xs ys : List Nat) : maxNat (xs ++ ys) = max (maxNat xs) (maxNat ys) := by
  unfold maxNat
  rw [List.foldl_append]
  generalize xs.foldl max 0 = a
  induction ys generalizing a with
  | nil => simp
  | cons y t ih =>
    simp only [List.foldl_cons]
    rw [ih, ih (max 0 y)]
    omega

theorem maxOf_eq_maxNat (f : Bytes → Nat) (ls : List Bytes) : maxOf f ls = maxNat (ls.map f) := by
  unfold maxOf maxNat
  generalize 0 = a
  induction ls generalizing a with
  | nil => rfl
  | cons l t ih =>
    simp only [List.foldl_cons, List.map_cons]
    rw [ih]; congr 1; split <;> omega

theorem longestLine_eq (f : Bytes → Nat) (s : Bytes) : longestLine f s = maxNat ((lines s).map f) := by
  unfold longestLine
  split
  · rename_i h; rw [h]; rfl
  · rename_i l h; rw [h]; simp [maxNat]
  · exact maxOf_eq_maxNat f _

/-! ### column widths -/

theorem colWidth_ge (v : RTable) (i : Nat) (c : RCell) (hc : c ∈ v.colCells i) :
    c.cellWidth ≤ (v.colWidth i : Int) := by
  have : c.cellWidth.toNat ≤ v.colWidth i :=
    le_maxNat _ _ (List.mem_map.mpr ⟨c, hc, rfl⟩)
  omega

theorem colWidth_attained (v : RTable) (i : Nat) :
    v.colWidth i = 0 ∨ ∃ c ∈ v.colCells i, c.cellWidth = (v.colWidth i : Int) := by
  rcases maxNat_attained ((v.colCells i).map (fun c => c.cellWidth.toNat)) with h | h
  · exact Or.inl h
  · obtain ⟨c, hc, he⟩ := List.mem_map.mp h
    by_cases h0 : v.colWidth i = 0
    · exact Or.inl h0
    · right
      refine ⟨c, hc, ?_⟩
      have : c.cellWidth.toNat = v.colWidth i := he
      omega

theorem colWidths_getElem? (v : RTable) (i : Nat) (h : i < v.ncols) : v.colWidths[i]? = some (v.colWidth i) :=
  range_map_getElem? _ _ _ h

theorem effAligns_getD (v : RTable) (i : Nat) (h : i < v.ncols) : v.effAligns.getD i 0 = v.effAlign i := by
  simp [RTable.effAligns, List.getD_eq_getElem?_getD, range_map_getElem? _ _ _ h]

/-- a cell found at position `i` of the header or a body row is a cell of column `i` -/
theorem mem_colCells (v : RTable) (cells : List RCell) (i : Nat) (c : RCell)
    (hrow : v.header = some cells ∨ some cells ∈ v.rows) (hc : cells[i]? = some c) : c ∈ v.colCells i := by
  unfold RTable.colCells
  rcases hrow with h | h
  · apply List.mem_append_left; rw [h]; simp [hc]
  · apply List.mem_append_right
    unfold bodyColCells
    exact List.mem_filterMap.mpr ⟨some cells, h, by simp [hc]⟩

theorem mem_allCells (v : RTable) (cells : List RCell) (c : RCell)
    (hrow : v.header = some cells ∨ some cells ∈ v.rows) (hc : c ∈ cells) : c ∈ v.allCells := by
  unfold RTable.allCells
  rcases hrow with h | h
  · apply List.mem_append_left; rw [h]; exact hc
  · apply List.mem_append_right; exact List.mem_flatMap.mpr ⟨some cells, h, hc⟩

/-! ### slots of a line -/

theorem lineSlots_getElem? (cw aligns : List Nat) (g : Nat → WidthString) (i : Nat) :
    (lineSlots cw aligns g)[i]? = cw[i]?.map (fun w => slotD (g i) w (aligns.getD i 0)) := by
  unfold lineSlots
  rw [List.getElem?_map, List.getElem?_zipIdx]
  cases cw[i]? <;> simp

theorem lineSlots_widths (cw aligns : List Nat) (g : Nat → WidthString)
    (h : ∀ (i w : Nat), cw[i]? = some w → 0 ≤ (g i).w ∧ (g i).w ≤ (w : Int)) :
    (lineSlots cw aligns g).map SlotD.width = cw := by
  apply List.ext_getElem?
  intro i
  rw [List.getElem?_map, lineSlots_getElem?]
  cases hc : cw[i]? with
  | none => rfl
  | some w =>
    have := h i w hc
    simp [slotD_width _ _ _ this.1 this.2]

theorem lineSlots_ne_nil (cw aligns : List Nat) (g : Nat → WidthString) (h : cw ≠ []) :
    lineSlots cw aligns g ≠ [] := by
  intro e
  have := lineSlots_length cw aligns g
  rw [e] at this
  cases cw with
  | nil => exact h rfl
  | cons _ _ => simp at this

/-! ### kinds of chunk -/

theorem mem_rowChunks (L I R : Bytes) (cw al : List Nat) (cells : List RCell) (n : Nat) (ch : Bytes)
    (h : ch ∈ rowChunks L I R cw al cells n) :
    ∃ k, k < rowLineCount cells n ∧ ch = contentLine L I R (rowSlots cw al cells k) := by
  unfold rowChunks at h
  obtain ⟨k, hk, rfl⟩ := List.mem_map.mp h
  exact ⟨k, by simpa using hk, rfl⟩

theorem specChunks_kinds (d : Decoration) (v : RTable) (ch : Bytes) (h : ch ∈ specChunks d v) :
    LineKind d v ch := by
  unfold specChunks at h
  simp only [List.mem_append, List.mem_singleton] at h
  rcases h with (h | h) | h
  · cases hh : v.header with
    | none =>
      rw [hh] at h
      simp only [List.mem_singleton] at h
      subst h
      exact .rule _ _ _ _ (by simp [ruleGlyphs])
    | some hs =>
      rw [hh] at h
      simp only [List.mem_cons, List.mem_append] at h
      rcases h with h | h | h
      · subst h; exact .rule _ _ _ _ (by simp [ruleGlyphs])
      · obtain ⟨k, hk, rfl⟩ := mem_rowChunks _ _ _ _ _ _ _ _ h
        exact .header hs k hh hk
      · rcases h with h | h
        · subst h; exact .rule _ _ _ _ (by simp [ruleGlyphs])
        · cases h
  · obtain ⟨r, hr, hc⟩ := List.mem_flatMap.mp h
    cases r with
    | none =>
      simp only [List.mem_singleton] at hc
      subst hc; exact .rule _ _ _ _ (by simp [ruleGlyphs])
    | some cells =>
      obtain ⟨k, hk, rfl⟩ := mem_rowChunks _ _ _ _ _ _ _ _ hc
      exact .body cells k hr hk
  · subst h; exact .rule _ _ _ _ (by simp [ruleGlyphs])

/-! ### consequences of `CellOK` / `ViewOK` -/

theorem zipWith_mk_getElem? (ls : List Bytes) (wd : List Int) (k : Nat) (hl : wd.length = ls.length) :
    (List.zipWith (fun l w => ({ s := l, w := w } : WidthString)) ls wd)[k]?
      = (ls[k]?).map (fun l => { s := l, w := wd.getD k 0 }) := by
  rw [List.getElem?_zipWith]
  cases h1 : ls[k]? with
  | none => simp
  | some l =>
    have hk : k < wd.length := by
      have := (List.getElem?_eq_some_iff.mp h1).1; omega
    simp [List.getElem?_eq_getElem hk, List.getD_eq_getElem?_getD]

theorem CellOK.nonneg {dw : Measure} {c : RCell} (h : CellOK dw c) : ∀ x ∈ c.lws, 0 ≤ x.w := by
  obtain ⟨_, wd, k, hl, he, hnn, _⟩ := h
  intro x hx
  rw [he] at hx
  rcases List.mem_append.mp hx with hx | hx
  · obtain ⟨i, hi, hxi⟩ := List.getElem_of_mem hx
    have := List.getElem?_eq_getElem hi
    rw [hxi, zipWith_mk_getElem? _ _ _ hl] at this
    cases hli : (lines c.text)[i]? with
    | none => rw [hli] at this; simp at this
    | some l =>
      rw [hli] at this
      simp only [Option.map_some, Option.some.injEq] at this
      rw [← this]
      simp only [List.getD_eq_getElem?_getD]
      cases hw : wd[i]? with
      | none => simp
      | some w => exact hnn w (List.mem_of_getElem? hw)
  · rw [List.eq_of_mem_replicate hx]; simp [blankWS]

/-- C04: entry `k` of a measured cell carries exactly text line `k` (or nothing) -/
theorem CellOK.text {dw : Measure} {c : RCell} (h : CellOK dw c) (k : Nat) :
    (c.lws.getD k blankWS).s = (lines c.text).getD k [] := by
  obtain ⟨_, wd, n, hl, he, _, _⟩ := h
  rw [he]
  simp only [List.getD_eq_getElem?_getD]
  by_cases hk : k < (lines c.text).length
  · have hk' : k < (List.zipWith (fun l w => ({ s := l, w := w } : WidthString)) (lines c.text) wd).length := by
      simp [List.length_zipWith]; omega
    rw [List.getElem?_append_left hk', zipWith_mk_getElem? _ _ _ hl, List.getElem?_eq_getElem hk]
    simp
  · have hk' : (List.zipWith (fun l w => ({ s := l, w := w } : WidthString)) (lines c.text) wd).length ≤ k := by
      simp [List.length_zipWith]; omega
    rw [List.getElem?_append_right hk']
    have : (lines c.text)[k]? = none := by simp; omega
    rw [this]
    simp only [Option.getD_none]
    cases hr : (List.replicate n blankWS)[k - _]? with
    | none => simp [blankWS]
    | some x =>
      have := List.eq_of_mem_replicate (List.mem_of_getElem? hr)
      simp [this, blankWS]

theorem ViewOK.nonneg {dw : Measure} {v : RTable} (h : ViewOK dw v) :
    ∀ c ∈ v.allCells, ∀ x ∈ c.lws, 0 ≤ x.w := fun c hc => (h c hc).1.nonneg

/-- every slot of every content line of a measured, fitting view is exactly its column wide -/
theorem rowSlots_widths (dw : Measure) (v : RTable) (cells : List RCell) (k : Nat)
    (hv : ViewOK dw v) (hrow : v.header = some cells ∨ some cells ∈ v.rows) :
    (rowSlots v.colWidths v.effAligns cells k).map SlotD.width = v.colWidths := by
  unfold rowSlots
  apply lineSlots_widths
  intro i w hw
  have hnn := cellLineWS_nonneg cells (fun c hc => (hv c (mem_allCells v cells c hrow hc)).1.nonneg) i k
  refine ⟨hnn, ?_⟩
  have hi : i < v.ncols := by
    have := (List.getElem?_eq_some_iff.mp hw).1
    rw [colWidths_length] at this; exact this
  rw [colWidths_getElem? v i hi] at hw
  cases hw
  cases hc : cells[i]? with
  | none => simp [cellLineWS, hc, blankWS]
  | some c =>
    have hm := mem_allCells v cells c hrow (List.mem_of_getElem? hc)
    have h1 := cellLineWS_fits cells i k c hc (hv c hm).1.1 (hv c hm).2
    have h2 := colWidth_ge v i c (mem_colCells v cells i c hrow hc)
    omega

end Tab
