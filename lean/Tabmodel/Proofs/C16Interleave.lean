/-
  C16 helpers, part 6: list-level (decidable) ownership, schedules, and the interleaving induction.
-/
import Tabmodel.Proofs.C16Apply
namespace Tab
namespace C16
open World

/-! ### decidable surface predicates -/

/-- row `r` (with contents `rw`) refers to no table other than `t`, and its cells point back to `r` -/
def RowLocal (t r : Nat) (rw : Row) : Prop :=
  (rw.inTable = none ∨ rw.inTable = some t) ∧ ecOK t rw.ec ∧
    ∀ ce ∈ rw.cells.getD [], (ce.inRow = none ∨ ce.inRow = some r)

instance (t r : Nat) (rw : Row) : Decidable (RowLocal t r rw) := by unfold RowLocal; infer_instance

/-- the rows reachable from table `t`: header, then rows -/
def footprint (w : World) (t : Nat) : List Nat := (w.table t).header.toList ++ (w.table t).rows

/-- `R` is a set of existing rows owned by (the goroutine owning) table `t`: it contains the footprint of `t`
    and every row in it is `RowLocal` to `t` -/
def OwnedBy (w : World) (t : Nat) (R : List Nat) : Prop :=
  (∀ r ∈ footprint w t, r ∈ R) ∧ ∀ r ∈ R, r < w.rows.length ∧ RowLocal t r (w.row r)

instance (w : World) (t : Nat) (R : List Nat) : Decidable (OwnedBy w t R) := by unfold OwnedBy; infer_instance

/-- every row reachable from `t` exists and is local to `t` -/
def Local (w : World) (t : Nat) : Prop := OwnedBy w t (footprint w t)

instance (w : World) (t : Nat) : Decidable (Local w t) := by unfold Local; infer_instance

/-- any item -/
def anyItem : Nat → Prop := fun _ => True

theorem mem_footprint {w : World} {t r : Nat} : r ∈ footprint w t ↔ FootT (w.table t) r := by
  unfold footprint FootT
  simp [Option.mem_toList]

theorem inv_of_ownedBy {w : World} {t : Nat} {R : List Nat} {I : Nat → Prop} (h : OwnedBy w t R)
    (hI : ∀ r ∈ R, ∀ ce ∈ w.rowCells r, I ce.item) : Inv t (· ∈ R) I w :=
  ⟨fun r hr => (h.2 r hr).1,
   fun r hr => ⟨(h.2 r hr).2.1, (h.2 r hr).2.2.1, fun ce hce => ⟨(h.2 r hr).2.2.2 ce hce, hI r hr ce hce⟩⟩,
   fun r hr => h.1 r (mem_footprint.2 hr)⟩

theorem ownedBy_of_inv {w : World} {t : Nat} {R : List Nat} {I : Nat → Prop} (h : Inv t (· ∈ R) I w) :
    OwnedBy w t R :=
  ⟨fun r hr => h.foot r (mem_footprint.1 hr),
   fun r hr => ⟨h.inrange r hr, (h.rowok r hr).inT, (h.rowok r hr).ec, fun ce hce => ((h.rowok r hr).cells ce hce).1⟩⟩

theorem ownedBy_iff_inv {w : World} {t : Nat} {R : List Nat} : OwnedBy w t R ↔ Inv t (· ∈ R) anyItem w :=
  ⟨fun h => inv_of_ownedBy h (fun _ _ _ _ => trivial), ownedBy_of_inv⟩

/-- an owner set may be shrunk down to anything that still contains the footprint -/
theorem OwnedBy.shrink {w : World} {t : Nat} {R R' : List Nat} (h : OwnedBy w t R)
    (h1 : ∀ r ∈ footprint w t, r ∈ R') (h2 : ∀ r ∈ R', r ∈ R) : OwnedBy w t R' :=
  ⟨h1, fun r hr => h.2 r (h2 r hr)⟩

theorem OwnedBy.local {w : World} {t : Nat} {R : List Nat} (h : OwnedBy w t R) : Local w t :=
  h.shrink (fun _ hr => hr) h.1

/-- the step is called on table `t` and on rows in `R` -/
def Step.on (s : Step) (t : Nat) (R : List Nat) : Prop := StepOn t (· ∈ R) anyItem s

/-- the owner set after the step (`L` = size of the row store before it) -/
def grow (R : List Nat) (L : Nat) (s : Step) : List Nat := if s.allocs then R ++ [L] else R

theorem mem_grow {R : List Nat} {L : Nat} {s : Step} {r : Nat} : r ∈ grow R L s ↔ growP (· ∈ R) L s r := by
  unfold grow growP
  cases s.allocs <;> simp

/-! ### the explicit footprint of a step -/

/-- the row a property owner lives in -/
def tgtRows : Target → List Nat
  | .row r => [r]
  | .cell r _ => [r]
  | _ => []

/-- the row argument(s) of a step -/
def Step.rowArgs : Step → List Nat
  | .rowAdd r _ => [r]
  | .addRow _ r => [r]
  | .setProp o _ _ => tgtRows o
  | .registerCb o _ _ _ => tgtRows o
  | .rowErrors r => [r]
  | _ => []

def tgtTableOK (t : Nat) : Target → Prop
  | .table t' => t' = t
  | .column t' _ => t' = t
  | _ => True

/-- the table argument of the step (if it has one) is `t` -/
def Step.tableOK (t : Nat) : Step → Prop
  | .addRow t' _ | .addSeparator t' | .addHeaders t' _ | .addRowItems t' _ | .appendNewRow t'
  | .wrap _ t' | .invokeRenderCallbacks t' | .cellAt t' _ _ | .hasColumn t' _ | .tableErrors t' => t' = t
  | .render wr => wr.core = t
  | .setProp o _ _ | .registerCb o _ _ _ => tgtTableOK t o
  | .newRow | .rowAdd _ _ | .rowErrors _ => True

theorem tgtOK_iff (t : Nat) (R : List Nat) (o : Target) :
    TgtOK t (· ∈ R) o ↔ tgtTableOK t o ∧ ∀ r ∈ tgtRows o, r ∈ R := by
  cases o <;> simp [TgtOK, tgtTableOK, tgtRows]

theorem Step.on_iff (s : Step) (t : Nat) (R : List Nat) :
    s.on t R ↔ s.tableOK t ∧ ∀ r ∈ s.rowArgs, r ∈ R := by
  cases s <;>
    simp [Step.on, StepOn, Step.tableOK, Step.rowArgs, anyItem, tgtOK_iff]

/-! ### frames seen from the other table -/

theorem inv_of_frame {a b : Nat} {Pa Pb I : Nat → Prop} {w w' : World} (h : Inv a Pa I w)
    (hf : Frame b Pb w w') (hab : a ≠ b) (hd : ∀ r, Pa r → ¬ Pb r) : Inv a Pa I w' :=
  ⟨fun r hr => Nat.lt_of_lt_of_le (h.inrange r hr) hf.rlen,
   fun r hr => by rw [hf.row (hd r hr) (h.inrange r hr)]; exact h.rowok r hr,
   fun r hr => by rw [hf.table hab] at hr; exact h.foot r hr⟩

theorem agree_of_frame {a b : Nat} {Pa Pb I : Nat → Prop} {w w' : World} (h : Inv a Pa I w)
    (hf : Frame b Pb w w') (hab : a ≠ b) (hd : ∀ r, Pa r → ¬ Pb r) : Agree a Pa I w' w :=
  ⟨hf.tabs a hab, fun r hr => hf.rows r (hd r hr) (h.inrange r hr), fun i _ => by simp [item, hf.items]⟩

theorem agree_newRow_same {t : Nat} {P I : Nat → Prop} {w : World} (h : Inv t P I w) (rw : Row) :
    Agree t P I w (w.newRow rw).1 :=
  ⟨rfl, fun r hr => by simp [List.getElem?_append_left (h.inrange r hr)], fun _ _ => rfl⟩

/-! ### schedules -/

/-- an interleaving of two step sequences: `true` = a step of A, `false` = a step of B -/
abbrev Sched := List (Bool × Step)

/-- run a schedule; collect what the A-steps return -/
def runI (x : Ext) : World → Sched → World × List Obs
  | w, [] => (w, [])
  | w, (g, s) :: rest =>
    let r := runI x (applyW x w s) rest
    (r.1, if g then applyO x w s :: r.2 else r.2)

/-- run a plain sequence; collect what every step returns -/
def run (x : Ext) : World → List Step → World × List Obs
  | w, [] => (w, [])
  | w, s :: rest =>
    let r := run x (applyW x w s) rest
    (r.1, applyO x w s :: r.2)

/-- A's steps -/
def projA (I : Sched) : List Step := (I.filter (·.1)).map (·.2)

/-- the schedule with every B-step replaced by the bare row allocation it performs (or dropped if it
    performs none): B's only remaining influence is on the numbering of rows allocated later -/
def skeleton : Sched → Sched
  | [] => []
  | (true, s) :: rest => (true, s) :: skeleton rest
  | (false, s) :: rest => if s.allocs then (false, .newRow) :: skeleton rest else skeleton rest

/-- every A-step is called on table `a` and rows A owns at that moment; likewise B -/
def ValidRun (x : Ext) (a b : Nat) : World → List Nat → List Nat → Sched → Prop
  | _, _, _, [] => True
  | w, Ra, Rb, (true, s) :: rest =>
    s.on a Ra ∧ ValidRun x a b (applyW x w s) (grow Ra w.rows.length s) Rb rest
  | w, Ra, Rb, (false, s) :: rest =>
    s.on b Rb ∧ ValidRun x a b (applyW x w s) Ra (grow Rb w.rows.length s) rest

/-- A's owner set at the end of the schedule -/
def ownedAfter (x : Ext) : World → List Nat → Sched → List Nat
  | _, R, [] => R
  | w, R, (g, s) :: rest =>
    ownedAfter x (applyW x w s) (if g then grow R w.rows.length s else R) rest

instance (i : Nat) : Decidable (anyItem i) := by unfold anyItem; infer_instance

instance (t : Nat) (R : List Nat) (o : Target) : Decidable (TgtOK t (· ∈ R) o) := by
  cases o <;> unfold TgtOK <;> infer_instance

instance (s : Step) (t : Nat) (R : List Nat) : Decidable (s.on t R) := by
  unfold Step.on; cases s <;> unfold StepOn <;> infer_instance

instance decValidRun (x : Ext) (a b : Nat) :
    ∀ (I : Sched) (w : World) (Ra Rb : List Nat), Decidable (ValidRun x a b w Ra Rb I)
  | [], _, _, _ => isTrue trivial
  | (true, s) :: rest, w, Ra, Rb =>
    have := decValidRun x a b rest (applyW x w s) (grow Ra w.rows.length s) Rb
    inferInstanceAs (Decidable (s.on a Ra ∧ ValidRun x a b (applyW x w s) (grow Ra w.rows.length s) Rb rest))
  | (false, s) :: rest, w, Ra, Rb =>
    have := decValidRun x a b rest (applyW x w s) Ra (grow Rb w.rows.length s)
    inferInstanceAs (Decidable (s.on b Rb ∧ ValidRun x a b (applyW x w s) Ra (grow Rb w.rows.length s) rest))

theorem interleave_main (x : Ext) {a b : Nat} (hab : a ≠ b) (I : Sched) :
    ∀ (W W' : World) (Ra Rb : List Nat),
      Inv a (· ∈ Ra) anyItem W → Inv b (· ∈ Rb) anyItem W → (∀ r ∈ Ra, r ∉ Rb) →
      Inv a (· ∈ Ra) anyItem W' → Agree a (· ∈ Ra) anyItem W W' → W'.rows.length = W.rows.length →
      ValidRun x a b W Ra Rb I →
      Agree a (· ∈ ownedAfter x W Ra I) anyItem (runI x W I).1 (runI x W' (skeleton I)).1 ∧
      (runI x W I).2 = (runI x W' (skeleton I)).2 ∧
      Inv a (· ∈ ownedAfter x W Ra I) anyItem (runI x W I).1 := by
  induction I with
  | nil => intro W W' Ra Rb ia _ _ _ ag _ _; exact ⟨ag, rfl, ia⟩
  | cons p rest ih =>
    intro W W' Ra Rb ia ib hd ia' ag hl hv
    obtain ⟨g, s⟩ := p
    cases g with
    | true =>
      obtain ⟨hs, hv'⟩ := hv
      have res := apply_local x s ia hs
      have res' := apply_local x s ia' hs
      obtain ⟨ag1, ob⟩ := res.dep W' ag hl
      have ia1 : Inv a (· ∈ grow Ra W.rows.length s) anyItem (applyW x W s) :=
        res.inv.congr (fun _ => mem_grow)
      have ib1 : Inv b (· ∈ Rb) anyItem (applyW x W s) :=
        inv_of_frame ib res.frame (Ne.symm hab) (fun r hr hr' => hd r hr' hr)
      have hd1 : ∀ r ∈ grow Ra W.rows.length s, r ∉ Rb := by
        intro r hr hrb
        have := mem_grow.1 hr
        unfold growP at this
        split at this
        · rcases this with h1 | rfl
          · exact hd r h1 hrb
          · exact Nat.lt_irrefl _ (ib.inrange _ hrb)
        · exact hd r this hrb
      have ia1' : Inv a (· ∈ grow Ra W.rows.length s) anyItem (applyW x W' s) := by
        have := res'.inv
        rw [hl] at this
        exact this.congr (fun _ => mem_grow)
      have ag1' : Agree a (· ∈ grow Ra W.rows.length s) anyItem (applyW x W s) (applyW x W' s) :=
        ag1.mono (fun _ hr => mem_grow.1 hr)
      have hl1 : (applyW x W' s).rows.length = (applyW x W s).rows.length := by
        have e1 := res.len; have e2 := res'.len
        simp only at e1 e2
        rw [e1, e2, hl]
      obtain ⟨c1, c2, c3⟩ := ih _ _ _ _ ia1 ib1 hd1 ia1' ag1' hl1 hv'
      refine ⟨c1, ?_, c3⟩
      show applyO x W s :: _ = applyO x W' s :: _
      rw [c2]
      exact congrArg (· :: _) ob
    | false =>
      obtain ⟨hs, hv'⟩ := hv
      have res := apply_local x s ib hs
      have hd' : ∀ r, r ∈ Ra → ¬ r ∈ Rb := hd
      have ia1 : Inv a (· ∈ Ra) anyItem (applyW x W s) := inv_of_frame ia res.frame hab hd'
      have ag0 : Agree a (· ∈ Ra) anyItem (applyW x W s) W := agree_of_frame ia res.frame hab hd'
      have ib1 : Inv b (· ∈ grow Rb W.rows.length s) anyItem (applyW x W s) :=
        res.inv.congr (fun _ => mem_grow)
      have hd1 : ∀ r ∈ Ra, r ∉ grow Rb W.rows.length s := by
        intro r hr hrb
        have := mem_grow.1 hrb
        unfold growP at this
        split at this
        · rcases this with h1 | rfl
          · exact hd r hr h1
          · exact Nat.lt_irrefl _ (ia.inrange _ hr)
        · exact hd r hr this
      have e1 := res.len
      simp only at e1
      cases hal : s.allocs with
      | true =>
        have hl1 : ((W'.newRow {}).1).rows.length = (applyW x W s).rows.length := by
          rw [e1]; simp [Step.nalloc, hal, hl]
        have ia1' := inv_newRow_same ia' ({} : Row)
        have ag1 := (ag0.trans ag).trans (agree_newRow_same ia' ({} : Row))
        obtain ⟨c1, c2, c3⟩ := ih _ _ _ _ ia1 ib1 hd1 ia1' ag1 hl1 hv'
        have sk : skeleton ((false, s) :: rest) = (false, .newRow) :: skeleton rest := by
          simp [skeleton, hal]
        rw [sk]
        exact ⟨c1, c2, c3⟩
      | false =>
        have hl1 : W'.rows.length = (applyW x W s).rows.length := by
          rw [e1]; simp [Step.nalloc, hal, hl]
        obtain ⟨c1, c2, c3⟩ := ih _ _ _ _ ia1 ib1 hd1 ia' (ag0.trans ag) hl1 hv'
        have sk : skeleton ((false, s) :: rest) = skeleton rest := by
          simp [skeleton, hal]
        rw [sk]
        exact ⟨c1, c2, c3⟩

/-! ### when B allocates nothing, the skeleton is A alone -/

theorem skeleton_noalloc (I : Sched) (h : ∀ p ∈ I, p.1 = false → p.2.allocs = false) :
    skeleton I = I.filter (·.1) := by
  induction I with
  | nil => rfl
  | cons p rest ih =>
    obtain ⟨g, s⟩ := p
    have ih' := ih (fun q hq => h q (by simp [hq]))
    cases g with
    | true => simp [skeleton, ih']
    | false =>
      have := h (false, s) (by simp) rfl
      simp only at this
      simp [skeleton, this, ih']

theorem runI_all_true (x : Ext) (J : Sched) (h : ∀ p ∈ J, p.1 = true) :
    ∀ w, runI x w J = run x w (J.map (·.2)) := by
  induction J with
  | nil => intro w; rfl
  | cons p rest ih =>
    intro w
    obtain ⟨g, s⟩ := p
    have hg : g = true := h (g, s) (by simp)
    subst hg
    simp only [runI, List.map_cons, run, if_true]
    rw [ih (fun q hq => h q (by simp [hq]))]

theorem runI_skeleton_noalloc (x : Ext) (w : World) (I : Sched)
    (h : ∀ p ∈ I, p.1 = false → p.2.allocs = false) : runI x w (skeleton I) = run x w (projA I) := by
  rw [skeleton_noalloc I h, runI_all_true x _ (fun p hp => by simpa using (List.mem_filter.1 hp).2)]
  rfl

end C16
end Tab
