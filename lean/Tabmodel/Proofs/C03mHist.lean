/-
  C03m helpers, part 5: history-level side conditions (no declared widths, safe texts) carried to the
  view the text renderer reads after its callbacks pass.
-/
import Tabmodel.Proofs.E2EcbMeas
import Tabmodel.Proofs.C03mDefs
namespace Tab
open World

/-- no item shown in table `t` declares a display width (`TerminalCellWidther`): every laid-out
    line width is then the measure of its own text -/
def World.NoDeclaredWidth (w : World) (t : Nat) : Prop :=
  ∀ r ∈ (w.table t).header.toList ++ (w.table t).rows, ∀ ce ∈ w.rowCells r,
    (w.item ce.item).mWidth = none

instance (w : World) (t : Nat) : Decidable (w.NoDeclaredWidth t) := by
  unfold World.NoDeclaredWidth; infer_instance

/-- every text line of every cell of table `t` may stand between two spaces -/
def World.TextsSafe (J : Junction) (w : World) (t : Nat) : Prop :=
  ∀ r ∈ (w.table t).header.toList ++ (w.table t).rows, ∀ ce ∈ w.rowCells r,
    ∀ l ∈ lines ce.str, TextSafe J l

theorem cellMeasured_cb (dw : Measure) (w : World) (t : Nat) (hU : w.UserKeysOnly t)
    (hcb : Cb.dimSetter ∈ (w.table t).cellCbs.render) (h0 : dw [] = 0) (hD : w.NoDeclaredWidth t) :
    ∀ c ∈ ((invokeRenderCallbacks dw w t).view t).allCells, CellMeasured dw c := by
  intro c hc
  obtain ⟨r, hr, ce', hce', e, _, h2⟩ := E2Ecb.cell_measured_cb dw w t hU hcb c hc
  obtain ⟨ce, hce, hee⟩ := E2Ecb.irc_cell_src_cb dw w t r ce' hce'
  have hit : (invokeRenderCallbacks dw w t).item ce'.item = w.item ce.item := by
    rw [← (E2Ecb.core_eq_fields hee).1]; unfold World.item; rw [E2Ecb.irc_items]
  have hnone : ((invokeRenderCallbacks dw w t).item ce'.item).mWidth = none := by
    rw [hit]; exact hD r hr ce hce
  have hl : ((invokeRenderCallbacks dw w t).rcell ce').lws =
      (ce'.lines.map (fun l => ({ s := l, w := dimLineW dw ((invokeRenderCallbacks dw w t).item ce'.item) ce' l } : WidthString)))
        ++ List.replicate (max ce'.hgt.toNat ce'.lines.length - ce'.lines.length) blankWS := by
    unfold World.rcell; rw [h2, dimProps_eq]
  rw [e]
  intro x hx
  rw [hl] at hx
  rcases List.mem_append.mp hx with hx | hx
  · obtain ⟨l, _, rfl⟩ := List.mem_map.mp hx
    simp [dimLineW, hnone]
  · rw [List.eq_of_mem_replicate hx]; simp [blankWS, h0]

theorem textsSafe_cb (dw : Measure) (J : Junction) (w : World) (t : Nat) (hU : w.UserKeysOnly t)
    (hcb : Cb.dimSetter ∈ (w.table t).cellCbs.render) (hS : w.TextsSafe J t) :
    ∀ c ∈ ((invokeRenderCallbacks dw w t).view t).allCells, ∀ l ∈ lines c.text, TextSafe J l := by
  intro c hc l hl
  obtain ⟨r, hr, ce, hce, ht, _, _⟩ := E2Ecb.cell_src_cb dw w t hU hcb c hc
  rw [ht] at hl
  exact hS r hr ce hce l hl

end Tab
