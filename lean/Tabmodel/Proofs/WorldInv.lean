/-
  The structural invariant of the table world, on shapes (`SInv`), and its preservation
  by every step of the abstract machine of `WorldShape.lean`.  `Inv w := SInv w.shape`.
-/
import Tabmodel.Proofs.WorldShape
namespace Tab
namespace Shape

/-! ### accessor algebra -/

@[simp] theorem tables_modRow (s : Shape) (r : Nat) (f : RowShape → RowShape) :
    (s.modRow r f).tables = s.tables := rfl
@[simp] theorem table_modRow (s : Shape) (r : Nat) (f : RowShape → RowShape) (t : Nat) :
    (s.modRow r f).table t = s.table t := rfl
@[simp] theorem rows_length_modRow (s : Shape) (r : Nat) (f : RowShape → RowShape) :
    (s.modRow r f).rows.length = s.rows.length := by simp [modRow]
@[simp] theorem rows_modTable (s : Shape) (t : Nat) (f : TableShape → TableShape) :
    (s.modTable t f).rows = s.rows := rfl
@[simp] theorem row_modTable (s : Shape) (t : Nat) (f : TableShape → TableShape) (r : Nat) :
    (s.modTable t f).row r = s.row r := rfl
@[simp] theorem width_modTable (s : Shape) (t : Nat) (f : TableShape → TableShape) (r : Nat) :
    (s.modTable t f).width r = s.width r := rfl
@[simp] theorem tables_length_modTable (s : Shape) (t : Nat) (f : TableShape → TableShape) :
    (s.modTable t f).tables.length = s.tables.length := by simp [modTable]

theorem row_modRow (s : Shape) (r : Nat) (f : RowShape → RowShape) (r' : Nat) :
    (s.modRow r f).row r' = if r' = r ∧ r < s.rows.length then f (s.row r) else s.row r' := by
  unfold row modRow
  simp only [List.getD_eq_getElem?_getD, List.getElem?_modify]
  by_cases h : r' = r
  · subst h
    by_cases hl : r' < s.rows.length
    · simp [hl]
    · simp [hl]
  · have h' : ¬ r = r' := fun e => h e.symm
    cases s.rows[r']? <;> simp [h, h']

theorem row_modRow_self (s : Shape) (r : Nat) (f : RowShape → RowShape) (h : r < s.rows.length) :
    (s.modRow r f).row r = f (s.row r) := by simp [row_modRow, h]
theorem row_modRow_ne (s : Shape) (r : Nat) (f : RowShape → RowShape) (r' : Nat) (h : r' ≠ r) :
    (s.modRow r f).row r' = s.row r' := by simp [row_modRow, h]
theorem modRow_oob (s : Shape) (r : Nat) (f : RowShape → RowShape) (h : s.rows.length ≤ r) :
    s.modRow r f = s := by
  unfold modRow; rw [List.modify_eq_self h]

theorem table_modTable (s : Shape) (t : Nat) (f : TableShape → TableShape) (t' : Nat) :
    (s.modTable t f).table t' = if t' = t ∧ t < s.tables.length then f (s.table t) else s.table t' := by
  unfold table modTable
  simp only [List.getD_eq_getElem?_getD, List.getElem?_modify]
  by_cases h : t' = t
  · subst h
    by_cases hl : t' < s.tables.length
    · simp [hl]
    · simp [hl]
  · have h' : ¬ t = t' := fun e => h e.symm
    cases s.tables[t']? <;> simp [h, h']

theorem table_modTable_self (s : Shape) (t : Nat) (f : TableShape → TableShape) (h : t < s.tables.length) :
    (s.modTable t f).table t = f (s.table t) := by simp [table_modTable, h]
theorem table_modTable_ne (s : Shape) (t : Nat) (f : TableShape → TableShape) (t' : Nat) (h : t' ≠ t) :
    (s.modTable t f).table t' = s.table t' := by simp [table_modTable, h]
theorem modTable_oob (s : Shape) (t : Nat) (f : TableShape → TableShape) (h : s.tables.length ≤ t) :
    s.modTable t f = s := by
  unfold modTable; rw [List.modify_eq_self h]

@[simp] theorem tables_newRow (s : Shape) (x : RowShape) : (s.newRow x).tables = s.tables := rfl
@[simp] theorem table_newRow (s : Shape) (x : RowShape) (t : Nat) : (s.newRow x).table t = s.table t := rfl
@[simp] theorem rows_length_newRow (s : Shape) (x : RowShape) :
    (s.newRow x).rows.length = s.rows.length + 1 := by simp [newRow]

theorem row_newRow (s : Shape) (x : RowShape) (r : Nat) :
    (s.newRow x).row r = if r = s.rows.length then x else s.row r := by
  unfold row newRow
  simp only [List.getD_eq_getElem?_getD, List.getElem?_append]
  by_cases h : r < s.rows.length
  · have : r ≠ s.rows.length := by omega
    simp [h, this]
  · by_cases h2 : r = s.rows.length
    · subst h2; simp
    · have h3 : s.rows.length ≤ r := by omega
      have h4 : 1 ≤ r - s.rows.length := by omega
      simp [h, h2, List.getElem?_eq_none (l := [x]) (by simpa using h4)]

theorem row_newRow_lt (s : Shape) (x : RowShape) (r : Nat) (h : r < s.rows.length) :
    (s.newRow x).row r = s.row r := by
  rw [row_newRow]; have : r ≠ s.rows.length := by omega
  simp [this]
theorem row_newRow_self (s : Shape) (x : RowShape) : (s.newRow x).row s.rows.length = x := by
  simp [row_newRow]

@[simp] theorem rows_newTable (s : Shape) : s.newTable.rows = s.rows := rfl
@[simp] theorem row_newTable (s : Shape) (r : Nat) : s.newTable.row r = s.row r := rfl
@[simp] theorem width_newTable (s : Shape) (r : Nat) : s.newTable.width r = s.width r := rfl
@[simp] theorem tables_length_newTable (s : Shape) : s.newTable.tables.length = s.tables.length + 1 := by
  simp [newTable]
/-- appending the empty table is invisible to `table` (its default is the empty table) -/
@[simp] theorem table_newTable (s : Shape) (t : Nat) : s.newTable.table t = s.table t := by
  unfold table newTable
  simp only [List.getD_eq_getElem?_getD, List.getElem?_append]
  by_cases h : t < s.tables.length
  · simp [h]
  · have h3 : s.tables.length ≤ t := by omega
    simp only [h, if_false, List.getElem?_eq_none h3]
    by_cases h4 : t - s.tables.length = 0
    · simp [h4]
    · have h5 : 1 ≤ t - s.tables.length := by omega
      simp [List.getElem?_eq_none (l := [({} : TableShape)]) (by simpa using h5)]

theorem table_oob (s : Shape) (t : Nat) (h : s.tables.length ≤ t) : s.table t = {} := by
  unfold table; simp [List.getD_eq_getElem?_getD, List.getElem?_eq_none h]
theorem row_oob (s : Shape) (r : Nat) (h : s.rows.length ≤ r) : s.row r = {} := by
  unfold row; simp [List.getD_eq_getElem?_getD, List.getElem?_eq_none h]

/-! ### `resize` -/

theorem resize_rows (tb : TableShape) (n : Nat) : (resize tb n).rows = tb.rows := by
  unfold resize; split <;> rfl
theorem resize_header (tb : TableShape) (n : Nat) : (resize tb n).header = tb.header := by
  unfold resize; split <;> rfl
theorem resize_nColumns (tb : TableShape) (n : Nat) : (resize tb n).nColumns = max tb.nColumns n := by
  unfold resize; split
  · omega
  · simp only; omega
theorem resize_cols (tb : TableShape) (n : Nat) (h : tb.nColRecs = tb.nColumns + 1) :
    (resize tb n).nColRecs = (resize tb n).nColumns + 1 := by
  unfold resize; split
  · exact h
  · simp; omega


/-! ### the invariant -/

theorem sinv_init : SInv {} := by
  have ht : ∀ t, ({} : Shape).table t = {} := fun t => table_oob _ _ (Nat.zero_le _)
  have hr : ∀ r, ({} : Shape).row r = {} := fun r => row_oob _ _ (Nat.zero_le _)
  constructor <;> intros <;> simp_all

theorem SInv.att_mem {s : Shape} (h : SInv s) {t r : Nat} (hm : r ∈ (s.table t).rows) :
    (s.row r).inTable = some t := by
  obtain ⟨i, hi⟩ := List.mem_iff_getElem?.mp hm
  exact (h.att t i r hi).1

theorem mem_rows_lt {s : Shape} {t r : Nat} (hm : r ∈ (s.table t).rows) : t < s.tables.length := by
  by_cases h : t < s.tables.length
  · exact h
  · rw [table_oob s t (by omega)] at hm; cases hm

theorem SInv.inTable_lt {s : Shape} (h : SInv s) {t r : Nat} (hi : (s.row r).inTable = some t) :
    t < s.tables.length := mem_rows_lt (h.back r t hi)

/-- same lists, same back-pointers: five clauses of the invariant carry over -/
structure Skel (s s' : Shape) : Prop where
  rowsLen : s'.rows.length = s.rows.length
  rows : ∀ t, (s'.table t).rows = (s.table t).rows
  header : ∀ t, (s'.table t).header = (s.table t).header
  inTable : ∀ r, (s'.row r).inTable = (s.row r).inTable
  rowNum : ∀ r, (s'.row r).rowNum = (s.row r).rowNum
  isSep : ∀ r, (s'.row r).isSep = (s.row r).isSep

theorem SInv.of_skel {s s' : Shape} (h : SInv s) (k : Skel s s')
    (cols : ∀ t, (s'.table t).nColRecs = (s'.table t).nColumns + 1)
    (wid : ∀ t r, r ∈ (s.table t).rows → s'.width r ≤ (s'.table t).nColumns)
    (hwid : ∀ t hd, (s.table t).header = some hd → s'.width hd ≤ (s'.table t).nColumns)
    (geo : ∀ r cs j g, (s'.row r).cells = some cs → cs[j]? = some g → g = (j + 1, some r))
    (sep : ∀ r, (s.row r).isSep = true → (s'.row r).cells = none) : SInv s' where
  cols := cols
  rowsLt := by intro t r hm; rw [k.rows] at hm; rw [k.rowsLen]; exact h.rowsLt t r hm
  hdrLt := by intro t hd hh; rw [k.header] at hh; rw [k.rowsLen]; exact h.hdrLt t hd hh
  att := by intro t i r hi; rw [k.rows] at hi; rw [k.inTable, k.rowNum]; exact h.att t i r hi
  back := by intro r t hi; rw [k.inTable] at hi; rw [k.rows]; exact h.back r t hi
  hdrFree := by intro t hd hh; rw [k.header] at hh; rw [k.inTable]; exact h.hdrFree t hd hh
  wid := by intro t r hm; rw [k.rows] at hm; exact wid t r hm
  hwid := by intro t hd hh; rw [k.header] at hh; exact hwid t hd hh
  geo := geo
  sep := by intro r hs; rw [k.isSep] at hs; exact sep r hs

/-! #### P1: growing the column bookkeeping -/

theorem table_resizeT (s : Shape) (t n t' : Nat) :
    (s.modTable t (fun tb => resize tb n)).table t' = s.table t' ∨
    (t' = t ∧ t < s.tables.length ∧ (s.modTable t (fun tb => resize tb n)).table t' = resize (s.table t') n) := by
  rw [table_modTable]
  by_cases hc : t' = t ∧ t < s.tables.length
  · right; obtain ⟨h1, h2⟩ := hc; subst h1; simp [h2]
  · left; simp [hc]

theorem resizeT_rows (s : Shape) (t n t' : Nat) :
    ((s.modTable t (fun tb => resize tb n)).table t').rows = (s.table t').rows := by
  rcases table_resizeT s t n t' with h | ⟨_, _, h⟩ <;> rw [h]
  exact resize_rows _ _

theorem resizeT_header (s : Shape) (t n t' : Nat) :
    ((s.modTable t (fun tb => resize tb n)).table t').header = (s.table t').header := by
  rcases table_resizeT s t n t' with h | ⟨_, _, h⟩ <;> rw [h]
  exact resize_header _ _

theorem resizeT_nColumns_ge (s : Shape) (t n t' : Nat) :
    (s.table t').nColumns ≤ ((s.modTable t (fun tb => resize tb n)).table t').nColumns := by
  rcases table_resizeT s t n t' with h | ⟨_, _, h⟩ <;> rw [h]
  · exact Nat.le_refl _
  · rw [resize_nColumns]; omega

theorem resizeT_nColumns_self (s : Shape) (t n : Nat) (ht : t < s.tables.length) :
    ((s.modTable t (fun tb => resize tb n)).table t).nColumns = max (s.table t).nColumns n := by
  rw [table_modTable_self _ _ _ ht, resize_nColumns]

theorem resizeT_nColumns_ne (s : Shape) (t n t' : Nat) (hne : t' ≠ t) :
    ((s.modTable t (fun tb => resize tb n)).table t').nColumns = (s.table t').nColumns := by
  rw [table_modTable_ne _ _ _ _ hne]

theorem skel_resizeT (s : Shape) (t n : Nat) : Skel s (s.modTable t (fun tb => resize tb n)) where
  rowsLen := rfl
  rows := resizeT_rows s t n
  header := resizeT_header s t n
  inTable := fun _ => rfl
  rowNum := fun _ => rfl
  isSep := fun _ => rfl

theorem SInv.resizeT {s : Shape} (h : SInv s) (t n : Nat) : SInv (s.modTable t (fun tb => resize tb n)) := by
  apply h.of_skel (skel_resizeT s t n)
  · intro t'
    rcases table_resizeT s t n t' with e | ⟨_, _, e⟩ <;> rw [e]
    · exact h.cols t'
    · exact resize_cols _ _ (h.cols t')
  · intro t' r hm
    exact Nat.le_trans (h.wid t' r hm) (resizeT_nColumns_ge s t n t')
  · intro t' hd hh
    exact Nat.le_trans (h.hwid t' hd hh) (resizeT_nColumns_ge s t n t')
  · exact h.geo
  · exact h.sep

/-! #### P2: a new unattached row -/

theorem width_newRow_lt (s : Shape) (x : RowShape) (r : Nat) (h : r < s.rows.length) :
    (s.newRow x).width r = s.width r := by
  unfold width; rw [row_newRow_lt _ _ _ h]

theorem SInv.newRow {s : Shape} (h : SInv s) (x : RowShape) (hi : x.inTable = none)
    (hc : x.cells = some [] ∨ x.cells = none) (hs : x.isSep = true → x.cells = none) :
    SInv (s.newRow x) where
  cols := h.cols
  rowsLt := by intro t r hm; have := h.rowsLt t r hm; simp; omega
  hdrLt := by intro t hd hh; have := h.hdrLt t hd hh; simp; omega
  att := by
    intro t i r hir
    have hm : r ∈ (s.table t).rows := List.mem_of_getElem? hir
    rw [row_newRow_lt _ _ _ (h.rowsLt t r hm)]
    exact h.att t i r hir
  back := by
    intro r t hir
    rw [row_newRow] at hir
    split at hir
    · rw [hi] at hir; cases hir
    · exact h.back r t hir
  hdrFree := by
    intro t hd hh
    rw [row_newRow_lt _ _ _ (h.hdrLt t hd hh)]
    exact h.hdrFree t hd hh
  wid := by
    intro t r hm
    rw [width_newRow_lt _ _ _ (h.rowsLt t r hm)]
    exact h.wid t r hm
  hwid := by
    intro t hd hh
    rw [width_newRow_lt _ _ _ (h.hdrLt t hd hh)]
    exact h.hwid t hd hh
  geo := by
    intro r cs j g hcs hj
    rw [row_newRow] at hcs
    split at hcs
    · rcases hc with hc | hc <;> rw [hc] at hcs
      · cases hcs; simp at hj
      · cases hcs
    · exact h.geo r cs j g hcs hj
  sep := by
    intro r hr
    rw [row_newRow] at hr ⊢
    split
    · rename_i e; simp only [e, if_true] at hr; exact hs hr
    · rename_i e; simp only [e, if_false] at hr; exact h.sep r hr


/-! #### P3: appending a cell (`Row.Add`) -/

/-- the row update `Row.Add` performs -/
def pushCell (s : Shape) (r : Nat) (cs : List CellGeo) : Shape :=
  s.modRow r (fun rw => { rw with cells := some (cs ++ [(cs.length + 1, some r)]) })

theorem row_pushCell_ne (s : Shape) (r : Nat) (cs : List CellGeo) (r' : Nat) (h : r' ≠ r) :
    (s.pushCell r cs).row r' = s.row r' := row_modRow_ne _ _ _ _ h

theorem row_pushCell_self (s : Shape) (r : Nat) (cs : List CellGeo) (h : r < s.rows.length) :
    (s.pushCell r cs).row r = { s.row r with cells := some (cs ++ [(cs.length + 1, some r)]) } :=
  row_modRow_self _ _ _ h

theorem skel_pushCell (s : Shape) (r : Nat) (cs : List CellGeo) : Skel s (s.pushCell r cs) where
  rowsLen := rows_length_modRow _ _ _
  rows := fun _ => rfl
  header := fun _ => rfl
  inTable := by intro r'; unfold pushCell; rw [row_modRow]; split <;> simp_all
  rowNum := by intro r'; unfold pushCell; rw [row_modRow]; split <;> simp_all
  isSep := by intro r'; unfold pushCell; rw [row_modRow]; split <;> simp_all

theorem width_pushCell_ne (s : Shape) (r : Nat) (cs : List CellGeo) (r' : Nat) (h : r' ≠ r) :
    (s.pushCell r cs).width r' = s.width r' := by
  unfold width; rw [row_pushCell_ne _ _ _ _ h]

theorem width_pushCell_self (s : Shape) (r : Nat) (cs : List CellGeo) (h : r < s.rows.length) :
    (s.pushCell r cs).width r = cs.length + 1 := by
  unfold width; rw [row_pushCell_self _ _ _ h]; simp

theorem SInv.pushCell {s : Shape} (h : SInv s) (r : Nat) (cs : List CellGeo)
    (hc : (s.row r).cells = some cs)
    (hh : ∀ t, (s.table t).header ≠ some r)
    (hw : ∀ t, (s.row r).inTable = some t → cs.length + 1 ≤ (s.table t).nColumns) :
    SInv (s.pushCell r cs) := by
  apply h.of_skel (skel_pushCell s r cs)
  · exact h.cols
  · intro t r' hm
    by_cases e : r' = r
    · subst e
      rw [width_pushCell_self _ _ _ (h.rowsLt t r' hm)]
      exact hw t (h.att_mem hm)
    · rw [width_pushCell_ne _ _ _ _ e]; exact h.wid t r' hm
  · intro t hd hhd
    have e : hd ≠ r := by intro e; subst e; exact hh t hhd
    rw [width_pushCell_ne _ _ _ _ e]; exact h.hwid t hd hhd
  · intro r' cs' j g hcs hj
    by_cases e : r' = r
    · subst e
      by_cases hl : r' < s.rows.length
      · rw [row_pushCell_self _ _ _ hl] at hcs
        simp only [Option.some.injEq] at hcs
        subst hcs
        rw [List.getElem?_append] at hj
        split at hj
        · exact h.geo r' cs j g hc hj
        · rename_i hlt
          by_cases hj0 : j - cs.length = 0
          · have : j = cs.length := by omega
            subst this
            simp at hj; exact hj.symm
          · have h1 : 1 ≤ j - cs.length := by omega
            rw [List.getElem?_eq_none (by simpa using h1)] at hj
            cases hj
      · unfold Shape.pushCell at hcs
        rw [modRow_oob _ _ _ (by omega)] at hcs
        exact h.geo r' cs' j g hcs hj
    · rw [row_pushCell_ne _ _ _ _ e] at hcs; exact h.geo r' cs' j g hcs hj
  · intro r' hs
    by_cases e : r' = r
    · subst e
      have := h.sep r' hs
      rw [hc] at this; cases this
    · rw [row_pushCell_ne _ _ _ _ e]; exact h.sep r' hs

theorem rowAdd_none (s : Shape) (r : Nat) (hc : (s.row r).cells = none) : s.rowAdd r = s := by
  unfold rowAdd; rw [hc]

theorem rowAdd_free (s : Shape) (r : Nat) (cs : List CellGeo) (hc : (s.row r).cells = some cs)
    (hi : (s.row r).inTable = none) : s.rowAdd r = s.pushCell r cs := by
  unfold rowAdd; rw [hc]
  simp only
  have : ((s.pushCell r cs).row r).inTable = none := by rw [(skel_pushCell s r cs).inTable]; exact hi
  unfold Shape.pushCell at this
  rw [this]; rfl

theorem rowAdd_att (s : Shape) (r : Nat) (cs : List CellGeo) (t : Nat) (hc : (s.row r).cells = some cs)
    (hi : (s.row r).inTable = some t) :
    s.rowAdd r = (s.modTable t (fun tb => resize tb (cs.length + 1))).pushCell r cs := by
  unfold rowAdd; rw [hc]
  simp only
  have : ((s.pushCell r cs).row r).inTable = some t := by rw [(skel_pushCell s r cs).inTable]; exact hi
  unfold Shape.pushCell at this
  rw [this]; rfl

theorem SInv.rowAdd {s : Shape} (h : SInv s) (r : Nat) (hh : ∀ t, (s.table t).header ≠ some r) :
    SInv (s.rowAdd r) := by
  cases hc : (s.row r).cells with
  | none => rw [rowAdd_none _ _ hc]; exact h
  | some cs =>
    cases hi : (s.row r).inTable with
    | none =>
      rw [rowAdd_free _ _ _ hc hi]
      exact h.pushCell r cs hc hh (by intro t ht; rw [hi] at ht; cases ht)
    | some t =>
      rw [rowAdd_att _ _ _ _ hc hi]
      apply (h.resizeT t (cs.length + 1)).pushCell r cs hc
      · intro t'; rw [resizeT_header]; exact hh t'
      · intro t' ht'
        have e : t' = t := by
          have : (s.row r).inTable = some t' := ht'
          rw [hi] at this; cases this; rfl
        subst e
        rw [resizeT_nColumns_self _ _ _ (h.inTable_lt hi)]
        omega

/-! frame facts about `rowAdd` -/

theorem skel_rowAdd (s : Shape) (r : Nat) : Skel s (s.rowAdd r) := by
  cases hc : (s.row r).cells with
  | none => rw [rowAdd_none _ _ hc]; exact ⟨rfl, fun _ => rfl, fun _ => rfl, fun _ => rfl, fun _ => rfl, fun _ => rfl⟩
  | some cs =>
    cases hi : (s.row r).inTable with
    | none => rw [rowAdd_free _ _ _ hc hi]; exact skel_pushCell s r cs
    | some t =>
      rw [rowAdd_att _ _ _ _ hc hi]
      have k1 := skel_resizeT s t (cs.length + 1)
      have k2 := skel_pushCell (s.modTable t (fun tb => resize tb (cs.length + 1))) r cs
      exact ⟨k2.rowsLen.trans k1.rowsLen, fun t => (k2.rows t).trans (k1.rows t),
        fun t => (k2.header t).trans (k1.header t), fun r => (k2.inTable r).trans (k1.inTable r),
        fun r => (k2.rowNum r).trans (k1.rowNum r), fun r => (k2.isSep r).trans (k1.isSep r)⟩

theorem rowAdd_tables_length (s : Shape) (r : Nat) : (s.rowAdd r).tables.length = s.tables.length := by
  cases hc : (s.row r).cells with
  | none => rw [rowAdd_none _ _ hc]
  | some cs =>
    cases hi : (s.row r).inTable with
    | none => rw [rowAdd_free _ _ _ hc hi]; rfl
    | some t => rw [rowAdd_att _ _ _ _ hc hi]; simp [Shape.pushCell]

/-- the `resizeColumnsAtLeast` law for `Row.Add` -/
theorem rowAdd_nColumns (s : Shape) (r t : Nat) :
    ((s.rowAdd r).table t).nColumns =
      match (s.row r).cells, (s.row r).inTable with
      | some cs, some t' => if t = t' ∧ t' < s.tables.length then max (s.table t).nColumns (cs.length + 1)
                            else (s.table t).nColumns
      | _, _ => (s.table t).nColumns := by
  cases hc : (s.row r).cells with
  | none => rw [rowAdd_none _ _ hc]
  | some cs =>
    cases hi : (s.row r).inTable with
    | none => rw [rowAdd_free _ _ _ hc hi]; rfl
    | some t' =>
      rw [rowAdd_att _ _ _ _ hc hi]
      simp only [Shape.pushCell, table_modRow]
      rw [table_modTable]
      split
      · rw [resize_nColumns]; rename_i h; rw [h.1]
      · rfl

theorem rowAdd_free_tables (s : Shape) (r : Nat) (hi : (s.row r).inTable = none) :
    (s.rowAdd r).tables = s.tables := by
  cases hc : (s.row r).cells with
  | none => rw [rowAdd_none _ _ hc]
  | some cs => rw [rowAdd_free _ _ _ hc hi]; rfl

theorem rowAdd_width_self (s : Shape) (r : Nat) (cs : List CellGeo) (hr : r < s.rows.length)
    (hc : (s.row r).cells = some cs) :
    ∃ cs', ((s.rowAdd r).row r).cells = some cs' ∧ cs'.length = cs.length + 1 := by
  cases hi : (s.row r).inTable with
  | none =>
    rw [rowAdd_free _ _ _ hc hi, row_pushCell_self _ _ _ hr]
    exact ⟨_, rfl, by simp⟩
  | some t =>
    rw [rowAdd_att _ _ _ _ hc hi, row_pushCell_self _ _ _ (by simpa using hr)]
    exact ⟨_, rfl, by simp⟩

theorem rowAdd_row_ne (s : Shape) (r r' : Nat) (hne : r' ≠ r) : (s.rowAdd r).row r' = s.row r' := by
  cases hc : (s.row r).cells with
  | none => rw [rowAdd_none _ _ hc]
  | some cs =>
    cases hi : (s.row r).inTable with
    | none => rw [rowAdd_free _ _ _ hc hi, row_pushCell_ne _ _ _ _ hne]
    | some t => rw [rowAdd_att _ _ _ _ hc hi, row_pushCell_ne _ _ _ _ hne]; rfl


/-! #### P4: attaching a row (shared by `AddRow` and `AddSeparator`) -/

/-- append `r` to table `t`'s list and tell the row where it is -/
def attach (s : Shape) (t r : Nat) : Shape :=
  (s.modTable t (fun tb => { tb with rows := tb.rows ++ [r] })).modRow r
    (fun rw => { rw with inTable := some t, rowNum := (s.table t).rows.length + 1 })

theorem attach_rows_length (s : Shape) (t r : Nat) : (s.attach t r).rows.length = s.rows.length := by
  simp [attach]

theorem attach_tables_length (s : Shape) (t r : Nat) : (s.attach t r).tables.length = s.tables.length := by
  simp [attach]

theorem table_attach_self (s : Shape) (t r : Nat) (ht : t < s.tables.length) :
    (s.attach t r).table t = { s.table t with rows := (s.table t).rows ++ [r] } := by
  simp [attach, table_modTable_self _ _ _ ht]

theorem table_attach_ne (s : Shape) (t r t' : Nat) (hne : t' ≠ t) :
    (s.attach t r).table t' = s.table t' := by
  simp [attach, table_modTable_ne _ _ _ _ hne]

theorem row_attach_self (s : Shape) (t r : Nat) (hr : r < s.rows.length) :
    (s.attach t r).row r = { s.row r with inTable := some t, rowNum := (s.table t).rows.length + 1 } := by
  unfold attach; rw [row_modRow_self _ _ _ (by simpa using hr)]; rfl

theorem row_attach_ne (s : Shape) (t r r' : Nat) (hne : r' ≠ r) : (s.attach t r).row r' = s.row r' := by
  unfold attach; rw [row_modRow_ne _ _ _ _ hne]; rfl

theorem cells_attach (s : Shape) (t r r' : Nat) : ((s.attach t r).row r').cells = (s.row r').cells := by
  unfold attach; rw [row_modRow]; split
  · rename_i h; rw [h.1]; rfl
  · rfl

theorem isSep_attach (s : Shape) (t r r' : Nat) : ((s.attach t r).row r').isSep = (s.row r').isSep := by
  unfold attach; rw [row_modRow]; split
  · rename_i h; rw [h.1]; rfl
  · rfl

theorem width_attach (s : Shape) (t r r' : Nat) : (s.attach t r).width r' = s.width r' := by
  unfold width; rw [cells_attach]

theorem rows_attach (s : Shape) (t r t' : Nat) (ht : t < s.tables.length) :
    ((s.attach t r).table t').rows = if t' = t then (s.table t').rows ++ [r] else (s.table t').rows := by
  by_cases e : t' = t
  · subst e; rw [table_attach_self _ _ _ ht]; simp
  · rw [table_attach_ne _ _ _ _ e]; simp [e]

theorem header_attach (s : Shape) (t r t' : Nat) : ((s.attach t r).table t').header = (s.table t').header := by
  unfold attach; rw [table_modRow, table_modTable]; split
  · rename_i h; rw [h.1]
  · rfl

theorem nColumns_attach (s : Shape) (t r t' : Nat) : ((s.attach t r).table t').nColumns = (s.table t').nColumns := by
  unfold attach; rw [table_modRow, table_modTable]; split
  · rename_i h; rw [h.1]
  · rfl

theorem nColRecs_attach (s : Shape) (t r t' : Nat) : ((s.attach t r).table t').nColRecs = (s.table t').nColRecs := by
  unfold attach; rw [table_modRow, table_modTable]; split
  · rename_i h; rw [h.1]
  · rfl

theorem SInv.attach {s : Shape} (h : SInv s) (t r : Nat) (ht : t < s.tables.length) (hr : r < s.rows.length)
    (hfree : (s.row r).inTable = none) (hh : ∀ t', (s.table t').header ≠ some r)
    (hw : s.width r ≤ (s.table t).nColumns) : SInv (s.attach t r) := by
  have notin : ∀ t' r', r' ∈ (s.table t').rows → r' ≠ r := by
    intro t' r' hm e; subst e
    have := h.att_mem hm; rw [hfree] at this; cases this
  constructor
  · intro t'; rw [nColRecs_attach, nColumns_attach]; exact h.cols t'
  · intro t' r' hm
    rw [rows_attach _ _ _ _ ht] at hm; rw [attach_rows_length]
    split at hm
    · rcases List.mem_append.mp hm with hm | hm
      · exact h.rowsLt t' r' hm
      · simp at hm; subst hm; exact hr
    · exact h.rowsLt t' r' hm
  · intro t' hd hhd; rw [header_attach] at hhd; rw [attach_rows_length]; exact h.hdrLt t' hd hhd
  · intro t' i r' hi
    rw [rows_attach _ _ _ _ ht] at hi
    split at hi
    · rename_i e; subst e
      rw [List.getElem?_append] at hi
      split at hi
      · have hm : r' ∈ (s.table t').rows := List.mem_of_getElem? hi
        rw [row_attach_ne _ _ _ _ (notin t' r' hm)]
        exact h.att t' i r' hi
      · rename_i hlt
        by_cases hj0 : i - (s.table t').rows.length = 0
        · have : i = (s.table t').rows.length := by omega
          subst this
          simp at hi; subst hi
          rw [row_attach_self _ _ _ hr]; exact ⟨rfl, rfl⟩
        · have h1 : 1 ≤ i - (s.table t').rows.length := by omega
          rw [List.getElem?_eq_none (by simpa using h1)] at hi
          cases hi
    · have hm : r' ∈ (s.table t').rows := List.mem_of_getElem? hi
      rw [row_attach_ne _ _ _ _ (notin t' r' hm)]
      exact h.att t' i r' hi
  · intro r' t' hi
    rw [rows_attach _ _ _ _ ht]
    by_cases e : r' = r
    · subst e
      rw [row_attach_self _ _ _ hr] at hi
      simp only [Option.some.injEq] at hi
      subst hi; simp
    · rw [row_attach_ne _ _ _ _ e] at hi
      have := h.back r' t' hi
      split
      · exact List.mem_append_left _ this
      · exact this
  · intro t' hd hhd
    rw [header_attach] at hhd
    have e : hd ≠ r := by intro e; subst e; exact hh t' hhd
    rw [row_attach_ne _ _ _ _ e]; exact h.hdrFree t' hd hhd
  · intro t' r' hm
    rw [rows_attach _ _ _ _ ht] at hm; rw [width_attach, nColumns_attach]
    split at hm
    · rename_i e; subst e
      rcases List.mem_append.mp hm with hm | hm
      · exact h.wid t' r' hm
      · simp at hm; subst hm; exact hw
    · exact h.wid t' r' hm
  · intro t' hd hhd
    rw [header_attach] at hhd; rw [width_attach, nColumns_attach]; exact h.hwid t' hd hhd
  · intro r' cs j g hcs hj
    rw [cells_attach] at hcs; exact h.geo r' cs j g hcs hj
  · intro r' hs
    rw [isSep_attach] at hs; rw [cells_attach]; exact h.sep r' hs

/-! #### P6: installing a header row -/

def setHeader (s : Shape) (t hr : Nat) : Shape := s.modTable t (fun tb => { tb with header := some hr })

theorem table_setHeader (s : Shape) (t hr t' : Nat) :
    (s.setHeader t hr).table t' = s.table t' ∨
    (t' = t ∧ (s.setHeader t hr).table t' = { s.table t' with header := some hr }) := by
  unfold setHeader; rw [table_modTable]
  by_cases hc : t' = t ∧ t < s.tables.length
  · right; obtain ⟨h1, h2⟩ := hc; subst h1; simp [h2]
  · left; simp [hc]

theorem rows_setHeader (s : Shape) (t hr t' : Nat) : ((s.setHeader t hr).table t').rows = (s.table t').rows := by
  rcases table_setHeader s t hr t' with h | ⟨_, h⟩ <;> rw [h]

theorem nColumns_setHeader (s : Shape) (t hr t' : Nat) :
    ((s.setHeader t hr).table t').nColumns = (s.table t').nColumns := by
  rcases table_setHeader s t hr t' with h | ⟨_, h⟩ <;> rw [h]

theorem SInv.setHeader {s : Shape} (h : SInv s) (t hr : Nat) (hlt : hr < s.rows.length)
    (hfree : (s.row hr).inTable = none) (hw : s.width hr ≤ (s.table t).nColumns) :
    SInv (s.setHeader t hr) := by
  constructor
  · intro t'; rcases table_setHeader s t hr t' with e | ⟨_, e⟩ <;> rw [e] <;> exact h.cols t'
  · intro t' r hm; rw [rows_setHeader] at hm; exact h.rowsLt t' r hm
  · intro t' hd hhd
    rcases table_setHeader s t hr t' with e | ⟨_, e⟩ <;> rw [e] at hhd
    · exact h.hdrLt t' hd hhd
    · simp at hhd; subst hhd; exact hlt
  · intro t' i r hi; rw [rows_setHeader] at hi; exact h.att t' i r hi
  · intro r t' hi; rw [rows_setHeader]; exact h.back r t' hi
  · intro t' hd hhd
    rcases table_setHeader s t hr t' with e | ⟨_, e⟩ <;> rw [e] at hhd
    · exact h.hdrFree t' hd hhd
    · simp at hhd; subst hhd; exact hfree
  · intro t' r hm; rw [rows_setHeader] at hm; rw [nColumns_setHeader]; exact h.wid t' r hm
  · intro t' hd hhd
    rw [nColumns_setHeader]
    rcases table_setHeader s t hr t' with e | ⟨e1, e⟩ <;> rw [e] at hhd
    · exact h.hwid t' hd hhd
    · simp at hhd; subst hhd; subst e1; exact hw
  · exact h.geo
  · exact h.sep


/-! #### the compound operations -/

theorem modify_modify_same {α} (l : List α) (i : Nat) (f g : α → α) :
    (l.modify i f).modify i g = l.modify i (fun a => g (f a)) := by
  apply List.ext_getElem?
  intro j
  simp only [List.getElem?_modify]
  cases l[j]? with
  | none => rfl
  | some a => by_cases h : i = j <;> simp [h]

theorem width_modRow_keep (s : Shape) (r : Nat) (f : RowShape → RowShape) (hf : ∀ rw, (f rw).cells = rw.cells)
    (r' : Nat) : (s.modRow r f).width r' = s.width r' := by
  unfold width; rw [row_modRow]; split
  · rename_i h; rw [hf, h.1]
  · rfl

theorem width_setAtt (s : Shape) (r t n r' : Nat) :
    (s.modRow r (fun rw => { rw with inTable := some t, rowNum := n })).width r' = s.width r' :=
by
  apply width_modRow_keep; intro _; rfl

theorem addRow_eq (s : Shape) (t r : Nat) (ht : t < s.tables.length) :
    s.addRow t r = (s.modTable t (fun tb => resize tb (s.width r))).attach t r := by
  unfold addRow attach
  simp only
  rw [width_setAtt, width_modTable]
  rw [table_modTable_self _ _ _ ht, table_modTable_self _ _ _ ht, resize_rows]
  unfold modTable modRow
  simp only [modify_modify_same, List.length_append, List.length_cons, List.length_nil]
  congr 2
  funext tb
  unfold resize
  split <;> rfl


theorem SInv.addRow {s : Shape} (h : SInv s) (t r : Nat) (ht : t < s.tables.length) (hr : r < s.rows.length)
    (hfree : (s.row r).inTable = none) (hh : ∀ t', (s.table t').header ≠ some r) : SInv (s.addRow t r) := by
  rw [addRow_eq _ _ _ ht]
  apply (h.resizeT t (s.width r)).attach t r (by simpa using ht) hr hfree
  · intro t'; rw [resizeT_header]; exact hh t'
  · rw [width_modTable, resizeT_nColumns_self _ _ _ ht]; omega

theorem addRow_rows (s : Shape) (t r t' : Nat) (ht : t < s.tables.length) :
    ((s.addRow t r).table t').rows = if t' = t then (s.table t').rows ++ [r] else (s.table t').rows := by
  rw [addRow_eq _ _ _ ht, rows_attach _ _ _ _ (by simpa using ht), resizeT_rows]

theorem addRow_nColumns (s : Shape) (t r t' : Nat) (ht : t < s.tables.length) :
    ((s.addRow t r).table t').nColumns =
      if t' = t then max (s.table t').nColumns (s.width r) else (s.table t').nColumns := by
  rw [addRow_eq _ _ _ ht, nColumns_attach]
  by_cases e : t' = t
  · subst e; simp [resizeT_nColumns_self _ _ _ ht]
  · simp [e, resizeT_nColumns_ne _ _ _ _ e]

theorem addRow_rows_length (s : Shape) (t r : Nat) : (s.addRow t r).rows.length = s.rows.length := by
  simp [Shape.addRow]
theorem addRow_tables_length (s : Shape) (t r : Nat) : (s.addRow t r).tables.length = s.tables.length := by
  simp [Shape.addRow]

/-- the separator row as `newSeparator()` makes it -/
def sepRow : RowShape := { cells := none, isSep := true }

theorem addSeparator_eq (s : Shape) (t : Nat) (ht : t < s.tables.length) :
    s.addSeparator t = (s.newRow sepRow).attach t s.rows.length := by
  unfold addSeparator attach
  simp only
  rw [table_modTable_self _ _ _ (by simpa using ht)]
  simp [sepRow]

theorem SInv.addSeparator {s : Shape} (h : SInv s) (t : Nat) (ht : t < s.tables.length) :
    SInv (s.addSeparator t) := by
  rw [addSeparator_eq _ _ ht]
  apply (h.newRow sepRow rfl (Or.inr rfl) (fun _ => rfl)).attach t s.rows.length (by simpa using ht) (by simp)
  · rw [row_newRow_self]; rfl
  · intro t' e
    have := h.hdrLt t' _ e
    omega
  · unfold width; rw [row_newRow_self]; simp [sepRow]

theorem addSeparator_rows (s : Shape) (t t' : Nat) (ht : t < s.tables.length) :
    ((s.addSeparator t).table t').rows =
      if t' = t then (s.table t').rows ++ [s.rows.length] else (s.table t').rows := by
  rw [addSeparator_eq _ _ ht, rows_attach _ _ _ _ (by simpa using ht)]; rfl

theorem addSeparator_nColumns (s : Shape) (t t' : Nat) (ht : t < s.tables.length) :
    ((s.addSeparator t).table t').nColumns = (s.table t').nColumns := by
  rw [addSeparator_eq _ _ ht, nColumns_attach]; rfl

theorem addSeparator_rows_length (s : Shape) (t : Nat) : (s.addSeparator t).rows.length = s.rows.length + 1 := by
  simp [Shape.addSeparator]
theorem addSeparator_tables_length (s : Shape) (t : Nat) : (s.addSeparator t).tables.length = s.tables.length := by
  simp [Shape.addSeparator]

theorem Skel.refl (s : Shape) : Skel s s :=
  ⟨rfl, fun _ => rfl, fun _ => rfl, fun _ => rfl, fun _ => rfl, fun _ => rfl⟩

theorem Skel.trans {a b c : Shape} (k1 : Skel a b) (k2 : Skel b c) : Skel a c :=
  ⟨k2.rowsLen.trans k1.rowsLen, fun t => (k2.rows t).trans (k1.rows t),
    fun t => (k2.header t).trans (k1.header t), fun r => (k2.inTable r).trans (k1.inTable r),
    fun r => (k2.rowNum r).trans (k1.rowNum r), fun r => (k2.isSep r).trans (k1.isSep r)⟩

theorem skel_rowAddN (r n : Nat) (s : Shape) : Skel s (rowAddN r n s) := by
  induction n generalizing s with
  | zero => exact Skel.refl s
  | succ n ih => exact (skel_rowAdd s r).trans (ih (s.rowAdd r))

theorem SInv.rowAddN {s : Shape} (h : SInv s) (r n : Nat) (hh : ∀ t, (s.table t).header ≠ some r) :
    SInv (rowAddN r n s) := by
  induction n generalizing s with
  | zero => exact h
  | succ n ih =>
    apply ih (h.rowAdd r hh)
    intro t; rw [(skel_rowAdd s r).header]; exact hh t

theorem rowAddN_tables_length (r n : Nat) (s : Shape) : (rowAddN r n s).tables.length = s.tables.length := by
  induction n generalizing s with
  | zero => rfl
  | succ n ih => simp only [Shape.rowAddN]; rw [ih, rowAdd_tables_length]

theorem rowAddN_free_tables (r n : Nat) (s : Shape) (hi : (s.row r).inTable = none) :
    (rowAddN r n s).tables = s.tables := by
  induction n generalizing s with
  | zero => rfl
  | succ n ih =>
    simp only [Shape.rowAddN]
    rw [ih _ (by rw [(skel_rowAdd s r).inTable]; exact hi), rowAdd_free_tables _ _ hi]

theorem table_congr {s s' : Shape} (h : s'.tables = s.tables) (t : Nat) : s'.table t = s.table t := by
  unfold table; rw [h]

theorem rowAddN_width (r n : Nat) (s : Shape) (cs : List CellGeo) (hr : r < s.rows.length)
    (hc : (s.row r).cells = some cs) :
    ∃ cs', ((rowAddN r n s).row r).cells = some cs' ∧ cs'.length = cs.length + n := by
  induction n generalizing s cs with
  | zero => exact ⟨cs, hc, rfl⟩
  | succ n ih =>
    obtain ⟨cs1, h1, l1⟩ := rowAdd_width_self s r cs hr hc
    obtain ⟨cs2, h2, l2⟩ := ih (s.rowAdd r) cs1 (by rw [(skel_rowAdd s r).rowsLen]; exact hr) h1
    exact ⟨cs2, h2, by omega⟩

theorem SInv.addHeaders {s : Shape} (h : SInv s) (t n : Nat) (ht : t < s.tables.length) :
    SInv (s.addHeaders t n) := by
  unfold Shape.addHeaders
  simp only [rows_modTable]
  have h0 := h.resizeT t n
  generalize e0 : s.modTable t (fun tb => resize tb n) = s0 at h0 ⊢
  have hl0 : s0.rows.length = s.rows.length := by rw [← e0]; rfl
  have hn0 : n ≤ (s0.table t).nColumns := by rw [← e0, resizeT_nColumns_self _ _ _ ht]; omega
  have h1 := h0.newRow {} rfl (Or.inl rfl) (by intro x; cases x)
  have hh1 : ∀ t', ((s0.newRow {}).table t').header ≠ some s.rows.length := by
    intro t' e
    have := h0.hdrLt t' _ e
    omega
  have h2 := h1.rowAddN s.rows.length n hh1
  have k2 := skel_rowAddN s.rows.length n (s0.newRow {})
  have hfree1 : ((s0.newRow {}).row s.rows.length).inTable = none := by
    rw [← hl0, row_newRow_self]
  have ht2 := rowAddN_free_tables s.rows.length n (s0.newRow {}) hfree1
  obtain ⟨cs', hc', hlen'⟩ := rowAddN_width s.rows.length n (s0.newRow {}) []
    (by simp; omega) (by rw [← hl0, row_newRow_self])
  apply h2.setHeader t s.rows.length
  · rw [k2.rowsLen]; simp; omega
  · rw [k2.inTable]; exact hfree1
  · unfold width; rw [hc', table_congr ht2]
    simp at hlen' ⊢; omega

theorem addHeaders_rows (s : Shape) (t n t' : Nat) :
    ((s.addHeaders t n).table t').rows = (s.table t').rows := by
  unfold Shape.addHeaders
  simp only [rows_modTable]
  rw [show ∀ (x : Shape) (hr : Nat), x.modTable t (fun tb => { tb with header := some hr }) = x.setHeader t hr
    from fun _ _ => rfl, rows_setHeader, (skel_rowAddN _ _ _).rows]
  simp only [table_newRow, resizeT_rows]

theorem addHeaders_nColumns (s : Shape) (t n t' : Nat) (ht : t < s.tables.length) :
    ((s.addHeaders t n).table t').nColumns =
      if t' = t then max (s.table t').nColumns n else (s.table t').nColumns := by
  unfold Shape.addHeaders
  simp only [rows_modTable]
  rw [show ∀ (x : Shape) (hr : Nat), x.modTable t (fun tb => { tb with header := some hr }) = x.setHeader t hr
    from fun _ _ => rfl, nColumns_setHeader]
  rw [table_congr (rowAddN_free_tables _ _ _ (by
    rw [show s.rows.length = (s.modTable t (fun tb => resize tb n)).rows.length from rfl, row_newRow_self]))]
  simp only [table_newRow]
  by_cases e : t' = t
  · subst e; simp [resizeT_nColumns_self _ _ _ ht]
  · simp [e, resizeT_nColumns_ne _ _ _ _ e]

theorem addHeaders_rows_length (s : Shape) (t n : Nat) : (s.addHeaders t n).rows.length = s.rows.length + 1 := by
  unfold Shape.addHeaders
  simp only [rows_modTable]
  rw [(skel_rowAddN _ _ _).rowsLen]; simp

theorem addHeaders_tables_length (s : Shape) (t n : Nat) : (s.addHeaders t n).tables.length = s.tables.length := by
  unfold Shape.addHeaders
  simp only [rows_modTable, tables_length_modTable]
  rw [rowAddN_tables_length]; simp

theorem SInv.addRowItems {s : Shape} (h : SInv s) (t n : Nat) (ht : t < s.tables.length) :
    SInv (s.addRowItems t n) := by
  unfold Shape.addRowItems
  simp only
  have h1 := h.newRow {} rfl (Or.inl rfl) (by intro x; cases x)
  have hh1 : ∀ t', ((s.newRow {}).table t').header ≠ some s.rows.length := by
    intro t' e
    have := h.hdrLt t' _ e
    omega
  have h2 := h1.rowAddN s.rows.length n hh1
  have k2 := skel_rowAddN s.rows.length n (s.newRow {})
  apply h2.addRow t s.rows.length
  · rw [rowAddN_tables_length]; exact ht
  · rw [k2.rowsLen]; simp
  · rw [k2.inTable, row_newRow_self]
  · intro t'; rw [k2.header]; exact hh1 t'

theorem addRowItems_rows (s : Shape) (t n t' : Nat) (ht : t < s.tables.length) :
    ((s.addRowItems t n).table t').rows =
      if t' = t then (s.table t').rows ++ [s.rows.length] else (s.table t').rows := by
  unfold Shape.addRowItems
  simp only
  rw [addRow_rows _ _ _ _ (by rw [rowAddN_tables_length]; exact ht), (skel_rowAddN _ _ _).rows]
  rfl

theorem addRowItems_nColumns (s : Shape) (t n t' : Nat) (ht : t < s.tables.length) :
    ((s.addRowItems t n).table t').nColumns =
      if t' = t then max (s.table t').nColumns n else (s.table t').nColumns := by
  unfold Shape.addRowItems
  simp only
  rw [addRow_nColumns _ _ _ _ (by rw [rowAddN_tables_length]; exact ht)]
  have hfree1 : ((s.newRow {}).row s.rows.length).inTable = none := by rw [row_newRow_self]
  rw [table_congr (rowAddN_free_tables _ _ _ hfree1)]
  obtain ⟨cs', hc', hlen'⟩ := rowAddN_width s.rows.length n (s.newRow {}) [] (by simp) (by rw [row_newRow_self])
  have : (rowAddN s.rows.length n (s.newRow {})).width s.rows.length = n := by
    unfold width; rw [hc']; simpa using hlen'
  rw [this]; rfl

theorem addRowItems_rows_length (s : Shape) (t n : Nat) : (s.addRowItems t n).rows.length = s.rows.length + 1 := by
  unfold Shape.addRowItems
  simp only
  rw [addRow_rows_length, (skel_rowAddN _ _ _).rowsLen]; simp

theorem addRowItems_tables_length (s : Shape) (t n : Nat) : (s.addRowItems t n).tables.length = s.tables.length := by
  unfold Shape.addRowItems
  simp only
  rw [addRow_tables_length, rowAddN_tables_length]; simp

theorem appendNewRow_eq (s : Shape) (t : Nat) : s.appendNewRow t = s.addRowItems t 0 := rfl

end Shape
end Tab
