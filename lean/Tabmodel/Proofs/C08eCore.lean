/-
  Helpers for `Props/C08e.lean` / `Props/C08eH.lean`: the view-level theorems `c08_cells` and
  `c08_delim` transported from the view the Markdown renderer reads (AFTER its callbacks pass) to the
  view of the world BEFORE the pass, and the post-pass alignments as last writes.

  Imports nothing that depends on `Spec/Json.lean`, so that it can be used both next to
  `Props/E2Ecb.lean` and next to `Proofs/E2EcbHist.lean` (which cannot be imported together).
-/
import Tabmodel.Props.C08
import Tabmodel.Props.C02
import Tabmodel.Proofs.E2EcbView
import Tabmodel.Proofs.E2EDefs
namespace Tab
namespace C08e
open World E2Ecb

/-! ### lists -/

theorem filterMap_id_map_map {α β : Type} (f : α → β) (l : List (Option α)) :
    (l.map (·.map f)).filterMap id = (l.filterMap id).map f := by
  induction l with
  | nil => rfl
  | cons a l ih =>
    cases a with
    | none => simpa using ih
    | some x => simpa using ih

theorem bodyRows_content {rs' rs : List (Option (List RCell))}
    (hr : rs'.map (·.map (·.map RCell.content)) = rs.map (·.map (·.map RCell.content))) :
    (rs'.filterMap id).map (·.map RCell.content) = (rs.filterMap id).map (·.map RCell.content) := by
  rw [← filterMap_id_map_map, ← filterMap_id_map_map, hr]

theorem text_of_content {c' c : RCell} (h : c'.content = c.content) : c'.text = c.text :=
  congrArg Prod.fst h

/-- `AlignOK` (values in {unset, left, right, centre}) implies the Markdown renderer's weaker demand
    (same statement as `alignsOK_of_alignOK` of Props/C09.lean, which this file cannot import) -/
theorem alignsOK_of_alignOK' (v : RTable) (hlen : v.colAlign.length = v.ncols + 1) (ha : AlignOK v) :
    AlignsOK v := by
  unfold AlignsOK
  rw [List.all_eq_true]
  intro e he
  obtain ⟨i, hi, hget⟩ := List.getElem_of_mem he
  have hle : i ≤ v.ncols := by omega
  have hd : v.colAlign.getD i none = e := by
    simp [List.getD_eq_getElem?_getD, List.getElem?_eq_getElem hi, hget]
  rcases ha i hle with h | ⟨a, _, h⟩
  · rw [hd] at h; subst h; rfl
  · rw [hd] at h; subst h; rfl

/-! ### cells: from the rendered view to a view with the same content -/

/-- `c08_cells` for the rendered view `v'`, read against ANY view `v` with the same column count and
    the same cell contents (in particular the view before the callbacks pass). -/
theorem cells_of_content_views (dw : Measure) (v v' : RTable) (hn : v'.ncols = v.ncols)
    (hh : v'.header.map (·.map RCell.content) = v.header.map (·.map RCell.content))
    (hr : v'.rows.map (·.map (·.map RCell.content)) = v.rows.map (·.map (·.map RCell.content)))
    (hmd : MdOK v') (hs : List RCell) (hhs : v.header = some hs)
    (k : Nat) (cells : List RCell) (hk : (hs :: bodyRows v)[k]? = some cells) :
    ∃ line, (lines (renderMarkdown dw v').output)[if k = 0 then 0 else k + 1]? = some line ∧
      (∀ j c, cells[j]? = some c →
        ∃ e l r, (splitPipes line)[j + 1]? = some e ∧
          e = spaces (l + 1) ++ mdEscape c.text ++ spaces (r + 1) ∧
          mdDecode (trimSp e) = trimSp c.text) ∧
      (∀ j, cells.length ≤ j → j < v.ncols → (splitPipes line)[j + 1]? = some [32]) := by
  -- the header of the rendered view
  obtain ⟨hs', hhs', hcs⟩ : ∃ hs', v'.header = some hs' ∧ hs'.map RCell.content = hs.map RCell.content := by
    rw [hhs] at hh
    cases h' : v'.header with
    | none => rw [h'] at hh; cases hh
    | some hs' =>
      rw [h'] at hh
      simp only [Option.map_some, Option.some.injEq] at hh
      exact ⟨hs', rfl, hh⟩
  -- the source row of the rendered view
  have hall : (hs' :: bodyRows v').map (·.map RCell.content) = (hs :: bodyRows v).map (·.map RCell.content) := by
    simp only [List.map_cons, hcs]
    congr 1
    exact bodyRows_content hr
  obtain ⟨cells', hk', hcc⟩ : ∃ cells', (hs' :: bodyRows v')[k]? = some cells' ∧
      cells'.map RCell.content = cells.map RCell.content := by
    have := congrArg (·[k]?) hall
    simp only [List.getElem?_map, hk, Option.map_some] at this
    cases h' : (hs' :: bodyRows v')[k]? with
    | none => rw [h'] at this; cases this
    | some cells' =>
      rw [h'] at this
      simp only [Option.map_some, Option.some.injEq] at this
      exact ⟨cells', rfl, this⟩
  have hlen : cells'.length = cells.length := by
    have := congrArg List.length hcc
    simpa using this
  obtain ⟨line, hline, hcell, hpad⟩ := c08_cells dw v' hmd hs' hhs' k cells' hk'
  refine ⟨line, hline, ?_, ?_⟩
  · intro j c hc
    have hj := cells_of_content hcc j
    rw [hc] at hj
    cases h' : cells'[j]? with
    | none => rw [h'] at hj; cases hj
    | some c' =>
      rw [h'] at hj
      simp only [Option.map_some, Option.some.injEq] at hj
      have ht : c'.text = c.text := text_of_content hj
      obtain ⟨e, l, r, h1, h2, h3⟩ := hcell j c' h'
      rw [ht] at h2 h3
      exact ⟨e, l, r, h1, h2, h3⟩
  · intro j h1 h2
    exact hpad j (by rw [hlen]; exact h1) (by rw [hn]; exact h2)

/-! ### the pass -/

/-- the Markdown render of any world is `renderMarkdown` of the view after its own pass, and cells
    read back against the view BEFORE the pass -/
theorem cells_world (x : Ext) (w : World) (wr : Wrapper) (hk : wr.kind = .markdown)
    (hmd : MdOK ((invokeRenderCallbacks x.dw w wr.core).view wr.core))
    (hs : List RCell) (hhs : (w.view wr.core).header = some hs)
    (k : Nat) (cells : List RCell) (hkk : (hs :: bodyRows (w.view wr.core))[k]? = some cells) :
    ∃ line, (lines (w.renderTo x wr).2.output)[if k = 0 then 0 else k + 1]? = some line ∧
      (∀ j c, cells[j]? = some c →
        ∃ e l r, (splitPipes line)[j + 1]? = some e ∧
          e = spaces (l + 1) ++ mdEscape c.text ++ spaces (r + 1) ∧
          mdDecode (trimSp e) = trimSp c.text) ∧
      (∀ j, cells.length ≤ j → j < (w.view wr.core).ncols → (splitPipes line)[j + 1]? = some [32]) := by
  obtain ⟨hn, hh, hr⟩ := irc_view_content x.dw w wr.core wr.core
  rw [renderTo_markdown x w wr hk]
  exact cells_of_content_views x.dw _ _ hn hh hr hmd hs hhs k cells hkk

/-- the alignment entry of column record `n` after the pass, as a last write (chains `Nodup`) -/
theorem colAlign_getD_last_writer (dw : Measure) (w : World) (t : Nat)
    (hnd : ∀ c ∈ (w.table t).columns, c.props.keys.Nodup) (n : Nat) :
    ((invokeRenderCallbacks dw w t).view t).colAlign.getD n none =
      ((w.table t).columns[n]?).bind (fun c =>
        lastWrite .align (c.selfCbs.pre ++ c.selfCbs.post) (c.props.get .align)) := by
  have h : ((invokeRenderCallbacks dw w t).view t).colAlign = (w.table t).columns.map (fun c =>
      lastWrite .align (c.selfCbs.pre ++ c.selfCbs.post) (c.props.get .align)) := by
    show ((invokeRenderCallbacks dw w t).table t).columns.map (·.props.get .align) = _
    rw [irc_colGet]
    exact List.map_congr_left (fun c hc => get_foldl_applyChain _ _ _ (hnd c hc))
  rw [h, List.getD_eq_getElem?_getD, List.getElem?_map]
  cases (w.table t).columns[n]? <;> rfl

/-- `MdOK` of the post-pass view of a table built by a valid history (the hypotheses of
    `e2ecb_markdown` plus "has a header and a column") -/
theorem mdOK_history (dw : Measure) (ops : List BuildOp) (hv : Valid ops = true) (t : Nat)
    (ht : t < (run dw ops).tables.length)
    (ha : AlignOK ((invokeRenderCallbacks dw (run dw ops) t).view t))
    (hh : ((run dw ops).table t).header.isSome = true) (hn : 1 ≤ ((run dw ops).table t).nColumns) :
    MdOK ((invokeRenderCallbacks dw (run dw ops) t).view t) := by
  obtain ⟨_, hwf, hlen, _⟩ := c02_view_wf_after_callbacks dw (c02_inv_run dw ops hv) t ht
  obtain ⟨hnc, hhc, _⟩ := irc_view_content dw (run dw ops) t t
  refine ⟨by rw [hnc]; exact hn, ?_, hwf, alignsOK_of_alignOK' _ hlen ha⟩
  have := congrArg Option.isSome hhc
  simp only [Option.isSome_map] at this
  rw [this, view_header_isSome]; exact hh

/-- the delimiter line of the Markdown render of any world, read in the view after its own pass -/
theorem delim_world (x : Ext) (w : World) (wr : Wrapper) (hk : wr.kind = .markdown)
    (hmd : MdOK ((invokeRenderCallbacks x.dw w wr.core).view wr.core)) (i : Nat)
    (hi : i < ((invokeRenderCallbacks x.dw w wr.core).view wr.core).ncols) :
    let v' := (invokeRenderCallbacks x.dw w wr.core).view wr.core
    ∃ (line : Bytes) (l r nd : Nat),
      (lines (w.renderTo x wr).2.output)[1]? = some line ∧
      (splitPipes line)[i + 1]? =
        some (spaces l ++ mdControlCell (mdColWidth v' i) (effAlignNat v' i) ++ spaces r) ∧
      (mdColWidth v' i ≤ (x.dw (mdControlCell (mdColWidth v' i) (effAlignNat v' i)) : Nat) → l = 0 ∧ r = 0) ∧
      3 ≤ nd ∧ mdColWidth v' i ≤ (nd : Int) ∧
      mdControlCell (mdColWidth v' i) (effAlignNat v' i) =
        (mdMarkers (effAlignNat v' i)).1 :: List.replicate nd 45 ++ [(mdMarkers (effAlignNat v' i)).2] := by
  intro v'
  obtain ⟨line, l, r, h1, h2, h3⟩ := c08_delim x.dw v' hmd i hi
  obtain ⟨nd, h4, h5, h6⟩ := c08_control_cell (mdColWidth v' i) (effAlignNat v' i)
  rw [renderTo_markdown x w wr hk]
  exact ⟨line, l, r, nd, h1, h2, h3, h4, h5, h6⟩

/-- the body rows of a world's view are its non-separator rows, cell by cell -/
theorem bodyRows_view (w : World) (t : Nat) :
    bodyRows (w.view t) =
      ((w.table t).rows.filter (fun r => !(w.row r).isSep)).map (fun r => (w.rowCells r).map w.rcell) := by
  unfold bodyRows World.view
  simp only
  induction (w.table t).rows with
  | nil => rfl
  | cons r rs ih =>
    simp only [List.map_cons, List.filterMap_cons, List.filter_cons]
    cases (w.row r).isSep with
    | true => simpa using ih
    | false => simpa using ih

/-- source rows of the view (header, then body rows) are the source rows of the world -/
theorem srcRows_view (w : World) (t hr : Nat) (hh : (w.table t).header = some hr) :
    (w.view t).header = some ((w.rowCells hr).map w.rcell) ∧
    ((w.rowCells hr).map w.rcell :: bodyRows (w.view t)) =
      (hr :: (w.table t).rows.filter (fun r => !(w.row r).isSep)).map (fun r => (w.rowCells r).map w.rcell) := by
  refine ⟨?_, by rw [bodyRows_view]; rfl⟩
  unfold World.view
  simp only [hh, Option.map_some]

end C08e
end Tab
