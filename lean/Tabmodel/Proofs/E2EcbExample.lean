/-
  The concrete history used by the non-vacuity examples of `Props/E2Ecb.lean` (`dw := List.length`),
  the decidable hypotheses of the theorems evaluated on it, and the other small example worlds.
-/
import Tabmodel.Proofs.E2EExample
import Tabmodel.Proofs.E2EcbMeas
namespace Tab
open World hiding CellOK

def cbHist : List BuildOp :=
  [ .setItems [exItem 97, exItem 98, exItem 99, exItem 100, exItem 101, exItem 102],
    .newTable,
    .regCb (.table 0) .pre .cell (.log 1),
    .regCb (.table 0) .render .cell (.setProp 2 (.user 7) (some (.user 70))),
    .regCb (.table 0) .pre .itself (.fail 3 55),
    .addHeaders 0 [0, 1],            -- row id 0
    .addRowItems 0 [2, 3],           -- row id 1
    .addSeparator 0,                 -- row id 2
    .newRow, .rowAdd 3 4, .addRow 0 3,
    .setProp (.column 0 1) .align (some (.align 2)),
    .regCb (.column 0 1) .pre .itself (.setProp 4 .align (some (.align 3))),
    .regCb (.column 0 2) .pre .itself (.setProp 5 .align (some (.align 2))),
    .regCb (.column 0 2) .post .itself (.setProp 6 .align none),
    .regCb (.column 0 2) .post .itself (.setProp 7 .skipable (some (.bool true))),
    .regCb (.row 1) .post .itself (.fail 8 56),
    .regCb (.column 0 1) .pre .cell (.fail 9 57),
    .regCb (.table 0) .post .cell (.setProp 10 .align (some (.align 1))) ]

def cbOps : List BuildOp := cbHist ++ wrapOps .text 0 ++ wrapOps .markdown 0
/-- the built world -/
def cbW : World := run e2eX.dw cbOps

def cbFrameW : World :=
  run e2eX.dw (e2eHist ++ [.regCb (.table 0) .post .cell (.setProp 10 .align (some (.align 1)))])

def cbTwo : World := run e2eX.dw (cbOps ++ [.newTable, .addHeaders 1 [4], .addRowItems 1 [5]])

def cbShare : World := run e2eX.dw (cbOps ++ [.newTable, .addRow 1 1])

/-- a table whose second column holds an empty text; the column's own pre-time callback sets `skipable` -/
def cbSkipW : World :=
  run e2eX.dw [ .setItems [exItem 97, exItem 98, { exItem 0 with kind := .str [], fmtV := [], json := some [34, 34] }],
    .newTable, .addHeaders 0 [0, 1], .addRowItems 0 [0, 2],
    .regCb (.column 0 2) .pre .itself (.setProp 7 .skipable (some (.bool true))) ]

def cbPriv : World :=
  run e2eX.dw (cbOps ++ [.regCb (.table 0) .post .cell (.setProp 11 .ttDims (some (.dims 100 1)))])

namespace E2EcbExample

theorem hv : Valid cbOps = true := by decide +kernel
theorem ht : 0 < (run e2eX.dw cbOps).tables.length := by decide +kernel
theorem hnd : ∀ c ∈ (cbW.table 0).columns, c.props.keys.Nodup := by decide +kernel
theorem hU : (run e2eX.dw cbOps).UserKeysOnly 0 := by decide +kernel
theorem hNt : Needs (run e2eX.dw cbOps) e2eText := by decide +kernel
theorem hNb : Needs (run e2eX.dw cbOps) e2eBoxless := by decide +kernel
theorem hNm : Needs (run e2eX.dw cbOps) e2eMd := by decide +kernel
theorem ha : AlignOK ((invokeRenderCallbacks e2eX.dw (run e2eX.dw cbOps) 0).view 0) :=
  alignOK_of_alignOKb _ (by decide +kernel)
theorem hn : 1 ≤ ((run e2eX.dw cbOps).table 0).nColumns := by decide +kernel
theorem hF : TableFits e2eX.dw (run e2eX.dw cbOps) 0 := by decide +kernel

end E2EcbExample
end Tab
