/-
  Display cells never exceed twice the runes, for every width measure of the shape go-runewidth
  has: the string is cut into grapheme clusters of one or more whole runes, and each cluster
  contributes the width (at most 2) of one of its runes.
-/
import Tabmodel.Proofs.Length
namespace Tab

/-- drop the first `k` runes (Go's decoder: an invalid byte is one rune) -/
def dropRunes : Nat → Bytes → Bytes
  | 0, s => s
  | _ + 1, [] => []
  | k + 1, s@(_ :: _) => dropRunes k (s.drop (runeLen s))

/-- a cluster-based width: at each step the first cluster has `cr s ≥ 1` runes and width `cw s`;
    `fuel` bounds the number of clusters (the string's length suffices) -/
def clusterWidth (cr cw : Bytes → Nat) : Nat → Bytes → Nat
  | 0, _ => 0
  | _ + 1, [] => 0
  | f + 1, s@(_ :: _) => cw s + clusterWidth cr cw f (dropRunes (cr s) s)

theorem runeCountFuel_nil (f : Nat) : runeCountFuel f [] = 0 := by
  cases f <;> rfl

/-- more fuel than bytes changes nothing -/
theorem runeCountFuel_indep (f1 f2 : Nat) (s : Bytes) (h1 : s.length ≤ f1) (h2 : s.length ≤ f2) :
    runeCountFuel f1 s = runeCountFuel f2 s := by
  induction f1 generalizing f2 s with
  | zero =>
    have : s = [] := List.length_eq_zero_iff.1 (Nat.le_zero.1 h1)
    subst this; rw [runeCountFuel_nil, runeCountFuel_nil]
  | succ n ih =>
    cases s with
    | nil => rw [runeCountFuel_nil, runeCountFuel_nil]
    | cons b bs =>
      cases f2 with
      | zero => simp at h2
      | succ m =>
        simp only [runeCountFuel]
        have hpos := runeLen_pos b bs
        have hlen : ((b :: bs).drop (runeLen (b :: bs))).length ≤ bs.length := by
          simp only [List.length_drop, List.length_cons]; omega
        simp only [List.length_cons] at h1 h2
        rw [ih m _ (by omega) (by omega)]

theorem runeCountFuel_enough (f : Nat) (s : Bytes) (h : s.length ≤ f) :
    runeCountFuel f s = runeCountFuel s.length s :=
  runeCountFuel_indep f s.length s h (Nat.le_refl _)

theorem runeCount_cons (b : UInt8) (bs : Bytes) :
    runeCount (b :: bs) = 1 + runeCount ((b :: bs).drop (runeLen (b :: bs))) := by
  unfold runeCount
  simp only [runeCountFuel, List.length_cons]
  have hpos := runeLen_pos b bs
  rw [runeCountFuel_enough bs.length _ (by simp only [List.length_drop, List.length_cons]; omega)]

theorem runeCount_nil : runeCount [] = 0 := rfl

theorem runeCount_dropRunes_le (k : Nat) (s : Bytes) : runeCount (dropRunes k s) ≤ runeCount s := by
  induction k generalizing s with
  | zero => exact Nat.le_refl _
  | succ k ih =>
    cases s with
    | nil => exact Nat.le_refl _
    | cons b bs =>
      simp only [dropRunes]
      rw [runeCount_cons b bs]
      exact Nat.le_trans (ih _) (by omega)

theorem runeCount_dropRunes_succ (k : Nat) (b : UInt8) (bs : Bytes) :
    runeCount (dropRunes (k + 1) (b :: bs)) + 1 ≤ runeCount (b :: bs) := by
  simp only [dropRunes]
  rw [runeCount_cons b bs]
  have := runeCount_dropRunes_le k ((b :: bs).drop (runeLen (b :: bs)))
  omega

theorem clusterWidth_le (cr cw : Bytes → Nat) (hcr : ∀ s, 1 ≤ cr s) (hcw : ∀ s, cw s ≤ 2)
    (f : Nat) (s : Bytes) : clusterWidth cr cw f s ≤ 2 * runeCount s := by
  induction f generalizing s with
  | zero => simp [clusterWidth]
  | succ n ih =>
    cases s with
    | nil => simp [clusterWidth]
    | cons b bs =>
      simp only [clusterWidth]
      obtain ⟨k, hk⟩ : ∃ k, cr (b :: bs) = k + 1 := ⟨cr (b :: bs) - 1, by have := hcr (b :: bs); omega⟩
      rw [hk]
      have h1 := runeCount_dropRunes_succ k b bs
      have h2 := ih (dropRunes (k + 1) (b :: bs))
      have h3 := hcw (b :: bs)
      omega

end Tab
