/- C08 helpers, part 1: byte-level facts about `mdEscape` and the spec-side readers. -/
import Tabmodel.Spec.Markdown
namespace Tab

/-! ### `mdEscByte`, case by case -/

theorem mdEscByte_amp : mdEscByte 38 = [38, 97, 109, 112, 59] := by decide +kernel
theorem mdEscByte_apos : mdEscByte 39 = [38, 35, 51, 57, 59] := by decide +kernel
theorem mdEscByte_lt : mdEscByte 60 = [38, 108, 116, 59] := by decide +kernel
theorem mdEscByte_gt : mdEscByte 62 = [38, 103, 116, 59] := by decide +kernel
theorem mdEscByte_dq : mdEscByte 34 = [38, 35, 51, 52, 59] := by decide +kernel
theorem mdEscByte_pipe : mdEscByte 124 = [38, 35, 120, 55, 99, 59] := by decide +kernel
theorem mdEscByte_lf : mdEscByte 10 = [38, 35, 120, 48, 97, 59] := by decide +kernel

theorem mdEscByte_other (b : UInt8) (h1 : b ≠ 38) (h2 : b ≠ 39) (h3 : b ≠ 60) (h4 : b ≠ 62)
    (h5 : b ≠ 34) (h6 : b ≠ 124) (h7 : b ≠ 10) : mdEscByte b = [b] := by
  simp [mdEscByte, h1, h2, h3, h4, h5, h6, h7]

/-- the complete case split: `b` is one of the seven escaped bytes and `mdEscByte b` is the
    corresponding table entry, or `b` is kept -/
theorem mdEscByte_spec (b : UInt8) :
    (mdEscByte b, b) ∈ mdEntities ∨
    (b ≠ 38 ∧ b ≠ 39 ∧ b ≠ 60 ∧ b ≠ 62 ∧ b ≠ 34 ∧ b ≠ 124 ∧ b ≠ 10 ∧ mdEscByte b = [b]) := by
  by_cases h1 : b = 38
  · subst h1; left; rw [mdEscByte_amp]; decide
  by_cases h2 : b = 39
  · subst h2; left; rw [mdEscByte_apos]; decide
  by_cases h3 : b = 60
  · subst h3; left; rw [mdEscByte_lt]; decide
  by_cases h4 : b = 62
  · subst h4; left; rw [mdEscByte_gt]; decide
  by_cases h5 : b = 34
  · subst h5; left; rw [mdEscByte_dq]; decide
  by_cases h6 : b = 124
  · subst h6; left; rw [mdEscByte_pipe]; decide
  by_cases h7 : b = 10
  · subst h7; left; rw [mdEscByte_lf]; decide
  · right; exact ⟨h1, h2, h3, h4, h5, h6, h7, mdEscByte_other b h1 h2 h3 h4 h5 h6 h7⟩

/-- a property of all seven table entries and of every kept byte holds of `mdEscByte b` -/
theorem mdEscByte_ind (P : UInt8 → Bytes → Prop) (hent : ∀ p ∈ mdEntities, P p.2 p.1)
    (hoth : ∀ b : UInt8, b ≠ 38 → b ≠ 39 → b ≠ 60 → b ≠ 62 → b ≠ 34 → b ≠ 124 → b ≠ 10 → P b [b])
    (b : UInt8) : P b (mdEscByte b) := by
  rcases mdEscByte_spec b with h | ⟨h1, h2, h3, h4, h5, h6, h7, h⟩
  · exact hent _ h
  · rw [h]; exact hoth b h1 h2 h3 h4 h5 h6 h7

@[simp] theorem mdEscape_nil : mdEscape [] = [] := rfl
@[simp] theorem mdEscape_cons (b : UInt8) (s : Bytes) : mdEscape (b :: s) = mdEscByte b ++ mdEscape s := by
  simp [mdEscape]
theorem mdEscape_append (s t : Bytes) : mdEscape (s ++ t) = mdEscape s ++ mdEscape t := by
  simp [mdEscape]

theorem mdEscByte_inert (b : UInt8) :
    ∀ x ∈ mdEscByte b, x ≠ 124 ∧ x ≠ 10 ∧ x ≠ 60 ∧ x ≠ 62 ∧ x ≠ 34 ∧ x ≠ 39 := by
  refine mdEscByte_ind (fun _ e => ∀ x ∈ e, x ≠ 124 ∧ x ≠ 10 ∧ x ≠ 60 ∧ x ≠ 62 ∧ x ≠ 34 ∧ x ≠ 39) ?_ ?_ b
  · decide
  · intro b h1 h2 h3 h4 h5 h6 h7 x hx
    simp at hx; subst hx
    exact ⟨h6, h7, h3, h4, h5, h2⟩

theorem mdEscByte_ne_nil (b : UInt8) : mdEscByte b ≠ [] := by
  refine mdEscByte_ind (fun _ e => e ≠ []) ?_ ?_ b
  · decide
  · intros; simp

theorem mdEscByte_sp : mdEscByte 32 = [32] := mdEscByte_other 32 (by decide) (by decide) (by decide) (by decide) (by decide) (by decide) (by decide)

theorem mdEscByte_nonsp (b : UInt8) (hb : b ≠ 32) :
    (mdEscByte b).head? ≠ some 32 ∧ trimR (mdEscByte b) = mdEscByte b := by
  refine mdEscByte_ind (fun b e => b ≠ 32 → e.head? ≠ some 32 ∧ trimR e = e) ?_ ?_ b hb
  · decide
  · intro b _ _ _ _ _ _ _ hb
    simp [trimR, hb]

theorem mdDecode_escByte (b : UInt8) : ∀ r, mdDecode (mdEscByte b ++ r) = b :: mdDecode r := by
  refine mdEscByte_ind (fun b e => ∀ r, mdDecode (e ++ r) = b :: mdDecode r) ?_ ?_ b
  · intro p hp r
    simp only [mdEntities, List.mem_cons, List.not_mem_nil, or_false] at hp
    rcases hp with rfl | rfl | rfl | rfl | rfl | rfl | rfl <;>
      simp [mdDecode, mdDecodeFrom, entityAt, mdEntities, List.isPrefixOf]
  · intro b h1 _ _ _ _ _ _ r
    have : entityAt mdEntities (b :: r) = none := by
      simp [entityAt, mdEntities, List.isPrefixOf, Ne.symm h1]
    simp [mdDecode, mdDecodeFrom, this]

theorem mdDecode_mdEscape (s : Bytes) : mdDecode (mdEscape s) = s := by
  induction s with
  | nil => rfl
  | cons b s ih => rw [mdEscape_cons, mdDecode_escByte, ih]

theorem mdEscape_inert (s : Bytes) :
    ∀ x ∈ mdEscape s, x ≠ 124 ∧ x ≠ 10 ∧ x ≠ 60 ∧ x ≠ 62 ∧ x ≠ 34 ∧ x ≠ 39 := by
  intro x hx
  simp only [mdEscape, List.mem_flatMap] at hx
  obtain ⟨b, _, hb⟩ := hx
  exact mdEscByte_inert b x hb

theorem mdEscape_eq_nil {s : Bytes} : mdEscape s = [] ↔ s = [] := by
  cases s with
  | nil => simp
  | cons b s => simp [mdEscByte_ne_nil]

/-! ### trimming -/

@[simp] theorem trimL_nil : trimL [] = [] := rfl
@[simp] theorem trimR_nil : trimR [] = [] := rfl

theorem trimL_spaces_append (n : Nat) (x : Bytes) : trimL (spaces n ++ x) = trimL x := by
  induction n with
  | zero => simp [spaces]
  | succ n ih =>
    have : spaces (n + 1) ++ x = 32 :: (spaces n ++ x) := by simp [spaces, SP, List.replicate_succ]
    rw [this, trimL]; simpa using ih

theorem trimL_of_head {e : Bytes} (hne : e ≠ []) (hh : e.head? ≠ some 32) (x : Bytes) :
    trimL (e ++ x) = e ++ x := by
  cases e with
  | nil => exact absurd rfl hne
  | cons h t =>
    have : h ≠ 32 := by simpa using hh
    simp [trimL, this]

theorem trimR_append (x y : Bytes) :
    trimR (x ++ y) = if trimR y = [] then trimR x else x ++ trimR y := by
  induction x with
  | nil => by_cases h : trimR y = [] <;> simp [h]
  | cons b x ih =>
    simp only [List.cons_append, trimR, ih]
    by_cases h : trimR y = []
    · simp [h]
    · simp [h]

theorem trimR_spaces (n : Nat) : trimR (spaces n) = [] := by
  induction n with
  | zero => rfl
  | succ n ih =>
    have : spaces (n + 1) = 32 :: spaces n := by simp [spaces, SP, List.replicate_succ]
    rw [this, trimR]; simp [ih]

theorem trimR_append_spaces (x : Bytes) (n : Nat) : trimR (x ++ spaces n) = trimR x := by
  rw [trimR_append, trimR_spaces]; simp

theorem trimSp_spaces_append (n : Nat) (x : Bytes) : trimSp (spaces n ++ x) = trimSp x := by
  unfold trimSp
  rw [trimR_append]
  by_cases h : trimR x = []
  · simp [h, trimR_spaces]
  · simp [h, trimL_spaces_append]

theorem trimSp_append_spaces (x : Bytes) (n : Nat) : trimSp (x ++ spaces n) = trimSp x := by
  unfold trimSp; rw [trimR_append_spaces]

theorem trimL_mdEscape (s : Bytes) : trimL (mdEscape s) = mdEscape (trimL s) := by
  induction s with
  | nil => rfl
  | cons b s ih =>
    by_cases hb : b = 32
    · subst hb
      rw [mdEscape_cons, mdEscByte_sp]
      simp [trimL, ih]
    · rw [mdEscape_cons, trimL_of_head (mdEscByte_ne_nil b) (mdEscByte_nonsp b hb).1]
      simp [trimL, hb]

theorem trimR_mdEscape (s : Bytes) : trimR (mdEscape s) = mdEscape (trimR s) := by
  induction s with
  | nil => rfl
  | cons b s ih =>
    rw [mdEscape_cons, trimR_append, ih]
    by_cases hb : b = 32
    · subst hb
      by_cases h : trimR s = []
      · simp [h, trimR, mdEscByte_sp]
      · simp [h, trimR, mdEscape_eq_nil]
    · by_cases h : trimR s = []
      · simp [h, trimR, hb, (mdEscByte_nonsp b hb).2]
      · simp [h, trimR, hb, mdEscape_eq_nil]

theorem trimSp_mdEscape (s : Bytes) : trimSp (mdEscape s) = mdEscape (trimSp s) := by
  unfold trimSp; rw [trimR_mdEscape, trimL_mdEscape]

/-! ### ampersands -/

theorem append_cons_split {α} {pre post x rest : List α} {a : α} (h : pre ++ a :: post = x ++ rest) :
    (∃ t, x = pre ++ a :: t ∧ post = t ++ rest) ∨ (∃ pre', pre = x ++ pre' ∧ rest = pre' ++ a :: post) := by
  rcases List.append_eq_append_iff.mp h with ⟨m, hx, hm⟩ | ⟨m, hp, hr⟩
  · -- x = pre ++ m, a :: post = m ++ rest
    cases m with
    | nil => right; exact ⟨[], by simpa using hx.symm, by simpa using hm.symm⟩
    | cons c m =>
      simp at hm
      left; exact ⟨m, by rw [hx, hm.1], hm.2⟩
  · right; exact ⟨m, hp, hr⟩

/-- every entity is `&` followed by bytes other than `&` -/
theorem mdEntities_shape : ∀ p ∈ mdEntities, ∃ t, p.1 = 38 :: t ∧ 38 ∉ t := by
  intro p hp
  simp only [mdEntities, List.mem_cons, List.not_mem_nil, or_false] at hp
  rcases hp with rfl | rfl | rfl | rfl | rfl | rfl | rfl <;> exact ⟨_, rfl, by decide⟩

theorem mdEscape_amp (s : Bytes) : ∀ pre post, mdEscape s = pre ++ 38 :: post →
    ∃ p ∈ mdEntities, p.1 <+: (38 :: post) := by
  induction s with
  | nil => intro pre post h; simp at h
  | cons b s ih =>
    intro pre post h
    rw [mdEscape_cons] at h
    rcases append_cons_split h.symm with ⟨t, hx, hpost⟩ | ⟨pre', _, hrest⟩
    · rcases mdEscByte_spec b with hent | ⟨h1, _, _, _, _, _, _, hb⟩
      · obtain ⟨t', ht', hnot⟩ := mdEntities_shape _ hent
        simp only at ht'
        refine ⟨_, hent, ?_⟩
        simp only
        -- pre must be empty
        cases pre with
        | nil =>
          rw [hx, hpost]; simp
        | cons c pre =>
          rw [ht'] at hx
          simp at hx
          exact absurd (by rw [hx.2]; simp) hnot
      · rw [hb] at hx
        cases pre with
        | nil => simp at hx; exact absurd hx.1 h1
        | cons c pre => simp at hx
    · exact ih pre' post hrest

/-! ### pipes -/

/-- "the last byte read is a backslash" after reading `s` from state `p` -/
def bsAfter (p : Bool) (s : Bytes) : Bool :=
  match s.getLast? with
  | none => p
  | some b => b == 92

theorem bsAfter_nil (p : Bool) : bsAfter p [] = p := rfl
theorem bsAfter_cons (p : Bool) (b : UInt8) (s : Bytes) : bsAfter p (b :: s) = bsAfter (b == 92) s := by
  cases s with
  | nil => rfl
  | cons c s =>
    cases h : (c :: s).getLast? with
    | none => simp at h
    | some x => simp [bsAfter, List.getLast?_cons_cons, h]

/-- a pipe-free piece that does not leave the reader in the "after backslash" state is split off whole -/
theorem splitPipesFrom_piece (s rest : Bytes) : ∀ p, 124 ∉ s → bsAfter p s = false →
    splitPipesFrom p (s ++ 124 :: rest) = s :: splitPipesFrom false rest := by
  induction s with
  | nil => intro p _ hp; rw [bsAfter_nil] at hp; subst hp; simp [splitPipesFrom]
  | cons b s ih =>
    intro p hmem hbs
    rw [bsAfter_cons] at hbs
    have hb : b ≠ 124 := fun h => hmem (by simp [h])
    have hs : 124 ∉ s := fun h => hmem (by simp [h])
    simp [splitPipesFrom, hb, ih _ hs hbs]

theorem unescapedPipesFrom_piece (s rest : Bytes) : ∀ p, 124 ∉ s → bsAfter p s = false →
    unescapedPipesFrom p (s ++ 124 :: rest) = 1 + unescapedPipesFrom false rest := by
  induction s with
  | nil => intro p _ hp; rw [bsAfter_nil] at hp; subst hp; simp [unescapedPipesFrom]
  | cons b s ih =>
    intro p hmem hbs
    rw [bsAfter_cons] at hbs
    have hb : b ≠ 124 := fun h => hmem (by simp [h])
    have hs : 124 ∉ s := fun h => hmem (by simp [h])
    simp [unescapedPipesFrom, hb, ih _ hs hbs]

/-- a piece that may stand between two structural pipes: no pipe, no line feed, and not ending in a backslash -/
def GoodPiece (s : Bytes) : Prop := 124 ∉ s ∧ 10 ∉ s ∧ s.getLast? ≠ some 92

theorem GoodPiece.bsAfter {s : Bytes} (h : GoodPiece s) : bsAfter false s = false := by
  unfold Tab.bsAfter
  cases hl : s.getLast? with
  | none => rfl
  | some b =>
    have := h.2.2; rw [hl] at this
    simp at this; simpa using this

theorem splitPipesFrom_pieces (bs : List Bytes) (h : ∀ b ∈ bs, GoodPiece b) :
    splitPipesFrom false (bs.flatMap (· ++ [124])) = bs ++ [[]] := by
  induction bs with
  | nil => simp [splitPipesFrom]
  | cons b bs ih =>
    have hb := h b (by simp)
    simp only [List.flatMap_cons, List.append_assoc, List.cons_append]
    rw [splitPipesFrom_piece _ _ _ hb.1 hb.bsAfter]
    simp only [List.nil_append]
    rw [ih (fun c hc => h c (by simp [hc]))]

theorem unescapedPipesFrom_pieces (bs : List Bytes) (h : ∀ b ∈ bs, GoodPiece b) :
    unescapedPipesFrom false (bs.flatMap (· ++ [124])) = bs.length := by
  induction bs with
  | nil => simp [unescapedPipesFrom]
  | cons b bs ih =>
    have hb := h b (by simp)
    simp only [List.flatMap_cons, List.append_assoc, List.singleton_append, List.length_cons]
    rw [unescapedPipesFrom_piece _ _ _ hb.1 hb.bsAfter, ih (fun c hc => h c (by simp [hc]))]
    omega

theorem count_pipe_pieces (bs : List Bytes) (h : ∀ b ∈ bs, GoodPiece b) :
    (bs.flatMap (· ++ [124])).count 124 = bs.length := by
  induction bs with
  | nil => simp
  | cons b bs ih =>
    have hb := h b (by simp)
    simp only [List.flatMap_cons, List.count_append, List.length_cons]
    rw [ih (fun c hc => h c (by simp [hc])), List.count_eq_zero_of_not_mem hb.1]
    simp; omega

theorem not_mem_lf_pieces (bs : List Bytes) (h : ∀ b ∈ bs, GoodPiece b) :
    LF ∉ (124 :: bs.flatMap (· ++ [124])) := by
  intro hm
  simp only [List.mem_cons, List.mem_flatMap, List.mem_append] at hm
  rcases hm with hm | ⟨b, hb, hm | hm⟩
  · exact absurd hm (by decide)
  · exact (h b hb).2.1 hm
  · exact absurd hm (by decide)

/-- the form of every line the renderer writes -/
def pipeLine (bs : List Bytes) : Bytes := 124 :: bs.flatMap (· ++ [124])

theorem splitPipes_pipeLine (bs : List Bytes) (h : ∀ b ∈ bs, GoodPiece b) :
    splitPipes (pipeLine bs) = [] :: (bs ++ [[]]) := by
  simp [splitPipes, pipeLine, splitPipesFrom, splitPipesFrom_pieces bs h]

theorem unescapedPipes_pipeLine (bs : List Bytes) (h : ∀ b ∈ bs, GoodPiece b) :
    unescapedPipes (pipeLine bs) = bs.length + 1 := by
  simp [unescapedPipes, pipeLine, unescapedPipesFrom, unescapedPipesFrom_pieces bs h]; omega

theorem count_pipeLine (bs : List Bytes) (h : ∀ b ∈ bs, GoodPiece b) :
    (pipeLine bs).count 124 = bs.length + 1 := by
  simp [pipeLine, count_pipe_pieces bs h]

theorem splitPipes_pipeLine_get (bs : List Bytes) (h : ∀ b ∈ bs, GoodPiece b) (i : Nat) (hi : i < bs.length) :
    (splitPipes (pipeLine bs))[i + 1]? = bs[i]? := by
  rw [splitPipes_pipeLine bs h]
  simp [List.getElem?_append_left hi]

/-! ### lines -/

theorem splitLF_ne_nil (s : Bytes) : splitLF s ≠ [] := by
  induction s with
  | nil => simp [splitLF]
  | cons b s ih =>
    unfold splitLF
    split
    · simp
    · split <;> simp

theorem splitLF_line (l rest : Bytes) (h : LF ∉ l) : splitLF (l ++ LF :: rest) = l :: splitLF rest := by
  induction l with
  | nil => simp [splitLF]
  | cons b l ih =>
    have hb : b ≠ LF := fun e => h (by simp [e])
    have hl : LF ∉ l := fun e => h (by simp [e])
    simp only [List.cons_append]
    rw [splitLF]
    simp [hb, ih hl]

theorem splitLF_lines (ls : List Bytes) (h : ∀ l ∈ ls, LF ∉ l) :
    splitLF ((ls.map (· ++ [LF])).flatten) = ls ++ [[]] := by
  induction ls with
  | nil => simp [splitLF]
  | cons l ls ih =>
    simp only [List.map_cons, List.flatten_cons, List.append_assoc, List.cons_append]
    rw [splitLF_line _ _ (h l (by simp))]
    simp only [List.nil_append]
    rw [ih (fun m hm => h m (by simp [hm]))]

/-- LF-terminated, LF-free lines are recovered by `lines` (Go's `length.Lines`) -/
theorem lines_flatten (ls : List Bytes) (h : ∀ l ∈ ls, LF ∉ l) :
    lines ((ls.map (· ++ [LF])).flatten) = ls := by
  unfold lines
  rw [splitLF_lines ls h]
  simp

end Tab
