/- C13 helper lemmas: a decidable check for `UniqueIn`. -/
import Tabmodel.Proofs.C13World
set_option linter.unusedSimpArgs false
namespace Tab
open World
namespace C13

theorem table_of_ge {w : World} {t : Nat} (h : w.tables.length ≤ t) : w.table t = {} := by
  simp [table_eq, List.getElem?_eq_none h]
theorem row_of_ge {w : World} {r : Nat} (h : w.rows.length ≤ r) : w.row r = {} := by
  simp [row_eq, List.getElem?_eq_none h]

theorem mem_allTimes (tm : Time) : tm ∈ cbTimes := by cases tm <;> simp [cbTimes]

theorem mem_slots_table {w : World} {t : Nat} (h : t < w.tables.length) :
    CbSlot.tableSelf t ∈ w.cbSlots ∧ CbSlot.tableCell t ∈ w.cbSlots ∧ CbSlot.tableRow t ∈ w.cbSlots := by
  simp only [World.cbSlots, List.mem_append, List.mem_flatMap, List.mem_range, List.mem_cons]
  refine ⟨.inl (.inl ⟨t, h, .inl (.inl rfl)⟩), .inl (.inl ⟨t, h, .inl (.inr (.inl rfl))⟩),
    .inl (.inl ⟨t, h, .inl (.inr (.inr (.inl rfl)))⟩)⟩

theorem mem_slots_col {w : World} {t n : Nat} (h : t < w.tables.length) (hn : n < (w.table t).columns.length) :
    CbSlot.colSelf t n ∈ w.cbSlots ∧ CbSlot.colCell t n ∈ w.cbSlots := by
  simp only [World.cbSlots, List.mem_append, List.mem_flatMap, List.mem_range, List.mem_cons]
  exact ⟨.inl (.inl ⟨t, h, .inr ⟨n, hn, .inl rfl⟩⟩), .inl (.inl ⟨t, h, .inr ⟨n, hn, .inr (.inl rfl)⟩⟩)⟩

theorem mem_slots_row {w : World} {r : Nat} (h : r < w.rows.length) :
    CbSlot.rowSelf r ∈ w.cbSlots ∧ CbSlot.rowCell r ∈ w.cbSlots := by
  simp only [World.cbSlots, List.mem_append, List.mem_flatMap, List.mem_range, List.mem_cons]
  exact ⟨.inl (.inr ⟨r, h, .inl (.inl rfl)⟩), .inl (.inr ⟨r, h, .inl (.inr (.inl rfl))⟩)⟩

theorem mem_slots_cell {w : World} {r i : Nat} (h : r < w.rows.length) (hi : i < (w.rowCells r).length) :
    CbSlot.cellOwn r i ∈ w.cbSlots := by
  simp only [World.cbSlots, List.mem_append, List.mem_flatMap, List.mem_range, List.mem_cons, List.mem_map]
  exact .inl (.inr ⟨r, h, .inr ⟨i, hi, rfl⟩⟩)

theorem mem_slots_copy {w : World} {n : Nat} (h : n < w.copies.length) : CbSlot.copyOwn n ∈ w.cbSlots := by
  simp only [World.cbSlots, List.mem_append, List.mem_map, List.mem_range]
  exact .inr ⟨n, h, rfl⟩

/-- a slot whose owner does not exist holds no callbacks -/
theorem cbSet_of_not_mem_slots {w : World} {s : CbSlot} (h : s ∉ w.cbSlots) : w.cbSet s = {} := by
  cases s with
  | tableSelf t =>
    have : w.tables.length ≤ t := Nat.le_of_not_lt (fun hl => h (mem_slots_table hl).1)
    simp [World.cbSet, table_of_ge this]
  | tableCell t =>
    have : w.tables.length ≤ t := Nat.le_of_not_lt (fun hl => h (mem_slots_table hl).2.1)
    simp [World.cbSet, table_of_ge this]
  | tableRow t =>
    have : w.tables.length ≤ t := Nat.le_of_not_lt (fun hl => h (mem_slots_table hl).2.2)
    simp [World.cbSet, table_of_ge this]
  | colSelf t n =>
    simp only [World.cbSet, World.column?]
    by_cases ht : t < w.tables.length
    · have : (w.table t).columns.length ≤ n := Nat.le_of_not_lt (fun hn => h (mem_slots_col ht hn).1)
      simp [List.getElem?_eq_none this]
    · rw [table_of_ge (Nat.le_of_not_lt ht)]
      cases n <;> simp
  | colCell t n =>
    simp only [World.cbSet, World.column?]
    by_cases ht : t < w.tables.length
    · have : (w.table t).columns.length ≤ n := Nat.le_of_not_lt (fun hn => h (mem_slots_col ht hn).2)
      simp [List.getElem?_eq_none this]
    · rw [table_of_ge (Nat.le_of_not_lt ht)]
      cases n <;> simp
  | rowSelf r =>
    have : w.rows.length ≤ r := Nat.le_of_not_lt (fun hl => h (mem_slots_row hl).1)
    simp [World.cbSet, row_of_ge this]
  | rowCell r =>
    have : w.rows.length ≤ r := Nat.le_of_not_lt (fun hl => h (mem_slots_row hl).2)
    simp [World.cbSet, row_of_ge this]
  | cellOwn r i =>
    simp only [World.cbSet, World.cell?]
    by_cases hr : r < w.rows.length
    · have : (w.rowCells r).length ≤ i := Nat.le_of_not_lt (fun hi => h (mem_slots_cell hr hi))
      simp [List.getElem?_eq_none this]
    · simp [World.rowCells, row_of_ge (Nat.le_of_not_lt hr)]
  | copyOwn n =>
    have : w.copies.length ≤ n := Nat.le_of_not_lt (fun hl => h (mem_slots_copy hl))
    simp [World.cbSet, List.getElem?_eq_none this]

theorem uniqueInB_sound {w : World} {id : Nat} {s : CbSlot} {tm : Time} (h : uniqueInB w id s tm = true) :
    UniqueIn w id s tm := by
  simp only [uniqueInB, Bool.and_eq_true, beq_iff_eq, List.all_eq_true, Bool.or_eq_true, Bool.not_eq_true',
    List.contains_eq_mem, decide_eq_false_iff_not] at h
  refine ⟨h.1, fun s' tm' hm => ?_⟩
  by_cases hs : s' ∈ w.cbSlots
  · rcases h.2 s' hs tm' (mem_allTimes tm') with h' | h'
    · exact absurd hm h'
    · exact h'
  · have : w.cbsAt s' tm' = [] := by
      simp only [World.cbsAt, cbSet_of_not_mem_slots hs]
      cases tm' <;> rfl
    rw [this] at hm
    simp [logIds] at hm

end C13
end Tab
