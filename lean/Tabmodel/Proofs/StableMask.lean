import Tabmodel.Model.Render
import Tabmodel.Proofs.EmitLemmas
namespace Tab

/-- apply `m` to every cell of the view -/
def RTable.mapCells (m : RCell → RCell) (v : RTable) : RTable :=
  { v with header := v.header.map (·.map m), rows := v.rows.map (·.map (·.map m)) }

namespace StableMask
open Emit

theorem forM'_map (g : α → β) (xs : List α) (body : β → Emit Unit) :
    forM' (xs.map g) body = forM' xs (fun x => body (g x)) := by
  induction xs with
  | nil => rfl
  | cons x xs ih => simp only [List.map_cons, forM'_cons, ih]

theorem forM'_congr (xs : List α) (f g : α → Emit Unit) (h : ∀ x, f x = g x) :
    forM' xs f = forM' xs g := by
  have : f = g := funext h
  rw [this]

theorem bind'_idx_map (m : α → β) (cells : List α) (i : Nat) (s : String) (f : β → Emit γ) :
    bind' (idx (cells.map m) i s) f = bind' (idx cells i s) (fun c => f (m c)) := by
  unfold idx
  rw [List.getElem?_map]
  cases cells[i]? with
  | none => simp
  | some c => simp

/-- loop over the rows of a mapped view -/
theorem forM'_rows_map (m : RCell → RCell) (rows : List (Option (List RCell)))
    (f g : Option (List RCell) → Emit Unit) (hn : f none = g none)
    (hs : ∀ cells, f (some (cells.map m)) = g (some cells)) :
    forM' (rows.map (·.map (·.map m))) f = forM' rows g := by
  rw [forM'_map]
  apply forM'_congr
  intro r
  cases r with
  | none => exact hn
  | some cells => exact hs cells

@[simp] theorem mapCells_ncols (m : RCell → RCell) (v : RTable) : (v.mapCells m).ncols = v.ncols := rfl
@[simp] theorem mapCells_colAlign (m : RCell → RCell) (v : RTable) : (v.mapCells m).colAlign = v.colAlign := rfl
@[simp] theorem mapCells_colSkip (m : RCell → RCell) (v : RTable) : (v.mapCells m).colSkip = v.colSkip := rfl
@[simp] theorem mapCells_header (m : RCell → RCell) (v : RTable) :
    (v.mapCells m).header = v.header.map (·.map m) := rfl
@[simp] theorem mapCells_rows (m : RCell → RCell) (v : RTable) :
    (v.mapCells m).rows = v.rows.map (·.map (·.map m)) := rfl

/-! ### CSV -/

theorem csvEmitRow_map (m : RCell → RCell) (ht : ∀ c, (m c).text = c.text) (n : Nat) (cells : List RCell) :
    csvEmitRow n (cells.map m) = csvEmitRow n cells := by
  unfold csvEmitRow
  simp only [List.length_map, ← List.map_take, forM'_map, ht, bind_eq, pure_eq, bind'_idx_map]

/-! ### HTML -/

theorem flatMap_zipIdx_rows (m : RCell → RCell) (rows : List (Option (List RCell)))
    (f g : Option (List RCell) × Nat → Bytes)
    (h : ∀ r i, f (r.map (·.map m), i) = g (r, i)) (k : Nat) :
    ((rows.map (·.map (·.map m))).zipIdx k).flatMap f = (rows.zipIdx k).flatMap g := by
  induction rows generalizing k with
  | nil => rfl
  | cons r rows ih => simp only [List.map_cons, List.zipIdx_cons, List.flatMap_cons, h, ih]

theorem htmlTr_map (m : RCell → RCell) (ht : ∀ c, (m c).text = c.text) (cfg : HtmlCfg) (n : Nat)
    (tag : String) (cells : List RCell) :
    htmlTr cfg n tag (cells.map m) = htmlTr cfg n tag cells := by
  unfold htmlTr
  simp only [List.flatMap_map, ht]

theorem htmlBytes_mapCells (cfg : HtmlCfg) (m : RCell → RCell) (ht : ∀ c, (m c).text = c.text) (v : RTable) :
    htmlBytes cfg (v.mapCells m) = htmlBytes cfg v := by
  unfold htmlBytes
  simp only [mapCells_header, mapCells_rows]
  have e1 : htmlTr cfg 0 "th" ((v.header.map (·.map m)).getD []) = htmlTr cfg 0 "th" (v.header.getD []) := by
    cases v.header with
    | none => rfl
    | some hs => simp only [Option.map_some, Option.getD_some, htmlTr_map m ht]
  rw [e1]
  congr 2
  apply flatMap_zipIdx_rows
  intro r i
  cases r with
  | none => rfl
  | some cells => simp only [Option.map_some, htmlTr_map m ht]

/-! ### JSON -/

theorem idxE_map (m : α → β) (cells : List α) (i : Nat) (site : String) :
    idxE (cells.map m) i site = (idxE cells i site).map m := by
  unfold idxE
  rw [List.getElem?_map]
  cases cells[i]? <;> rfl

theorem jsonKeys_map (js : JsonStr) (m : RCell → RCell) (ht : ∀ c, (m c).text = c.text)
    (v' v : RTable) (hv : v'.colSkip = v.colSkip) (hs : List RCell) (defSkip : Bool)
    (n i : Nat) (seen : List Bytes) (acc : List (Bytes × Bool)) :
    jsonKeys js v' (hs.map m) defSkip n i seen acc = jsonKeys js v hs defSkip n i seen acc := by
  induction n generalizing i seen acc with
  | zero => simp only [jsonKeys]
  | succ n ih =>
    simp only [jsonKeys, idxE_map, hv]
    cases idxE hs i "json.headers[i]" with
    | error e => rfl
    | ok h => simp only [Except.map, bind, Except.bind, ht, ih]

theorem jsonEmitCells_map (js : JsonStr) (m : RCell → RCell) (ht : ∀ c, (m c).text = c.text)
    (he : ∀ c, (m c).empty = c.empty) (hj : ∀ c, (m c).json = c.json)
    (keys : List (Bytes × Bool)) (cells : List RCell) (i : Nat) (opened : Bool) :
    jsonEmitCells js keys (cells.map m) i opened = jsonEmitCells js keys cells i opened := by
  induction cells generalizing i opened with
  | nil => rfl
  | cons c cs ih => simp only [List.map_cons, jsonEmitCells, ht, he, hj, ih]

theorem jsonEmitRow_map (js : JsonStr) (m : RCell → RCell) (ht : ∀ c, (m c).text = c.text)
    (he : ∀ c, (m c).empty = c.empty) (hj : ∀ c, (m c).json = c.json)
    (keys : List (Bytes × Bool)) (cells : List RCell) :
    jsonEmitRow js keys (cells.map m) = jsonEmitRow js keys cells := by
  unfold jsonEmitRow
  simp only [List.length_map, jsonEmitCells_map js m ht he hj]

theorem foldl_zipIdx_rows (m : RCell → RCell) (rows : List (Option (List RCell)))
    (f g : γ → Option (List RCell) × Nat → γ)
    (h : ∀ a r i, f a (r.map (·.map m), i) = g a (r, i)) (k : Nat) (acc : γ) :
    ((rows.map (·.map (·.map m))).zipIdx k).foldl f acc = (rows.zipIdx k).foldl g acc := by
  induction rows generalizing k acc with
  | nil => rfl
  | cons r rows ih => simp only [List.map_cons, List.zipIdx_cons, List.foldl_cons, h, ih]

theorem lastObject_map (m : RCell → RCell) (rows : List (Option (List RCell))) :
    lastObject (rows.map (·.map (·.map m))) = lastObject rows := by
  unfold lastObject
  apply foldl_zipIdx_rows
  intro a r i
  cases r <;> rfl

theorem jsonRows_map (js : JsonStr) (m : RCell → RCell) (ht : ∀ c, (m c).text = c.text)
    (he : ∀ c, (m c).empty = c.empty) (hj : ∀ c, (m c).json = c.json)
    (keys : List (Bytes × Bool)) (lo : Nat) (rows : List (Option (List RCell))) (i : Nat) (nc : Bool) :
    jsonRows js keys lo (rows.map (·.map (·.map m))) i nc = jsonRows js keys lo rows i nc := by
  induction rows generalizing i nc with
  | nil => rfl
  | cons r rows ih =>
    cases r with
    | none => simp only [List.map_cons, Option.map_none, jsonRows, ih]
    | some cells => simp only [List.map_cons, Option.map_some, jsonRows, ih, jsonEmitRow_map js m ht he hj]

/-! ### Markdown -/

theorem foldlM_rows_map (m : RCell → RCell) (rows : List (Option (List RCell)))
    (f g : β → Option (List RCell) → Except Stop β)
    (h : ∀ a r, f a (r.map (·.map m)) = g a r) (init' init : β) (h0 : init' = init) :
    (rows.map (·.map (·.map m))).foldlM f init' = rows.foldlM g init := by
  subst h0
  induction rows generalizing init' with
  | nil => rfl
  | cons r rows ih => simp only [List.map_cons, List.foldlM_cons, h, ih]

theorem mdPadded_map (dw : Measure) (m : RCell → RCell) (ht : ∀ c, (m c).text = c.text)
    (c : RCell) (want : Int) (al : Nat) : mdPadded dw (m c) want al = mdPadded dw c want al := by
  unfold mdPadded
  simp only [ht]

theorem mdEmitCells_map (dw : Measure) (m : RCell → RCell) (ht : ∀ c, (m c).text = c.text)
    (widths : List Int) (aligns : List Nat) (bc br : Bytes) (cells : List RCell) (i : Nat) :
    mdEmitCells dw widths aligns bc br (cells.map m) i = mdEmitCells dw widths aligns bc br cells i := by
  induction cells generalizing i with
  | nil => rfl
  | cons c cs ih =>
    simp only [List.map_cons, mdEmitCells, mdPadded_map dw m ht, List.isEmpty_map, ih]

theorem mdEmitRow_map (dw : Measure) (m : RCell → RCell) (ht : ∀ c, (m c).text = c.text)
    (ncols : Nat) (cells : List RCell) (widths : List Int) (aligns : List Nat) (addPads : Bool) :
    mdEmitRow dw ncols (cells.map m) widths aligns addPads = mdEmitRow dw ncols cells widths aligns addPads := by
  unfold mdEmitRow
  simp only [List.length_map, mdEmitCells_map dw m ht]

theorem mdWiden_map (m : RCell → RCell) (hm : ∀ c, (m c).mdw = c.mdw)
    (widths : List Int) (cells : List RCell) :
    mdWiden widths (cells.map m) = mdWiden widths cells := by
  unfold mdWiden
  congr 1
  funext p
  cases p with
  | mk w i =>
    simp only [List.getElem?_map]
    cases cells[i]? with
    | none => rfl
    | some c => simp only [Option.map_some, hm]

/-! ### Text -/

theorem ttWidenRow_map (m : RCell → RCell) (hc : ∀ c, (m c).cellWidth = c.cellWidth)
    (ncols : Nat) (cells : List RCell) (i : Nat) (ws : List Int) :
    ttWidenRow ncols (cells.map m) i ws = ttWidenRow ncols cells i ws := by
  induction cells generalizing i ws with
  | nil => rfl
  | cons c cs ih => simp only [List.map_cons, ttWidenRow, hc, ih]

theorem ttColumnWidths_mapCells (m : RCell → RCell) (hc : ∀ c, (m c).cellWidth = c.cellWidth)
    (v : RTable) : ttColumnWidths (v.mapCells m) = ttColumnWidths v := by
  unfold ttColumnWidths
  simp only [mapCells_ncols, mapCells_header, mapCells_rows]
  apply foldlM_rows_map
  · intro a r
    cases r with
    | none => rfl
    | some cells => simp only [Option.map_some, ttWidenRow_map m hc]
  · congr 1
    funext i
    cases v.header with
    | none => rfl
    | some hs =>
      simp only [Option.map_some, List.getElem?_map]
      cases hs[i]? with
      | none => rfl
      | some c => simp only [Option.map_some, hc]

theorem ttAligns_mapCells (m : RCell → RCell) (v : RTable) : ttAligns (v.mapCells m) = ttAligns v := rfl

theorem ttRowLines_map (m : RCell → RCell) (hl : ∀ c, (m c).lws = c.lws)
    (cells : List RCell) (ncols : Nat) : ttRowLines (cells.map m) ncols = ttRowLines cells ncols := by
  unfold ttRowLines
  have hcomp : (fun (c : RCell) => c.lws) ∘ m = fun c => c.lws := funext hl
  simp only [List.length_map, ← List.map_take, List.map_map, hcomp]

theorem ttEmitRow_map (m : RCell → RCell) (hl : ∀ c, (m c).lws = c.lws)
    (left inner right : Bytes) (cw : List Nat) (aligns : List Nat) (cells : List RCell) (ncols : Nat) :
    ttEmitRow left inner right cw aligns (cells.map m) ncols
      = ttEmitRow left inner right cw aligns cells ncols := by
  unfold ttEmitRow
  rw [ttRowLines_map m hl]

end StableMask
open StableMask Emit

theorem renderCsv_mapCells (m : RCell → RCell) (ht : ∀ c, (m c).text = c.text) (v : RTable) :
    renderCsv (v.mapCells m) = renderCsv v := by
  unfold renderCsv
  simp only [mapCells_ncols, mapCells_header, mapCells_rows]
  have hrows := forM'_rows_map m v.rows
    (fun r => match r with
      | none => pure ()
      | some cells => csvEmitRow v.ncols cells)
    (fun r => match r with
      | none => pure ()
      | some cells => csvEmitRow v.ncols cells) rfl
    (fun cells => by simp only [csvEmitRow_map m ht])
  by_cases hn : v.ncols < 1
  · simp only [hn, if_true]
  · simp only [hn, if_false]
    cases v.header with
    | none => exact hrows
    | some hs =>
      simp only [Option.map_some, csvEmitRow_map m ht]
      exact congrArg (fun z => bind' (csvEmitRow v.ncols hs) (fun _ => z)) hrows

theorem renderHtml_mapCells (cfg : HtmlCfg) (m : RCell → RCell) (ht : ∀ c, (m c).text = c.text) (v : RTable) :
    renderHtml cfg (v.mapCells m) = renderHtml cfg v := by
  unfold renderHtml
  rw [htmlBytes_mapCells cfg m ht]

theorem renderJson_mapCells (js : JsonStr) (m : RCell → RCell) (ht : ∀ c, (m c).text = c.text)
    (he : ∀ c, (m c).empty = c.empty) (hj : ∀ c, (m c).json = c.json) (v : RTable) :
    renderJson js (v.mapCells m) = renderJson js v := by
  unfold renderJson
  simp only [mapCells_ncols, mapCells_colSkip, mapCells_header, mapCells_rows, lastObject_map,
    jsonRows_map js m ht he hj]
  cases v.header with
  | none => rfl
  | some hs =>
    simp only [Option.map_some, List.length_map,
      jsonKeys_map js m ht (v.mapCells m) v (mapCells_colSkip m v)]

theorem renderMarkdown_mapCells (dw : Measure) (m : RCell → RCell) (ht : ∀ c, (m c).text = c.text)
    (hm : ∀ c, (m c).mdw = c.mdw) (v : RTable) :
    renderMarkdown dw (v.mapCells m) = renderMarkdown dw v := by
  unfold renderMarkdown
  simp only [mapCells_ncols, mapCells_colAlign, mapCells_header, mapCells_rows]
  cases v.header with
  | none => rfl
  | some hs =>
    simp only [Option.map_some, List.length_map, mdEmitRow_map dw m ht, bind_eq]
    by_cases hn : v.ncols < 1
    · simp only [hn, if_true]
    · simp only [hn, if_false]
      by_cases hl : hs.length > v.ncols
      · simp only [hl, if_true]
      · simp only [hl, if_false]
        congr 1
        · congr 1
          apply foldlM_rows_map
          · intro a r
            cases r with
            | none => rfl
            | some cells => simp only [Option.map_some, List.length_map, mdWiden_map m hm]
          · congr 1
            funext i
            simp only [List.getElem?_map]
            cases hs[i]? with
            | none => rfl
            | some c => simp only [Option.map_some, hm]
        · funext widths
          congr 1
          funext aligns
          congr 1
          funext _
          congr 1
          funext _
          apply forM'_rows_map
          · rfl
          · intro cells
            simp only [mdEmitRow_map dw m ht]

theorem renderTextBody_mapCells (d : Decoration) (m : RCell → RCell) (hc : ∀ c, (m c).cellWidth = c.cellWidth)
    (hl : ∀ c, (m c).lws = c.lws) (v : RTable) :
    renderTextBody d (v.mapCells m) = renderTextBody d v := by
  unfold renderTextBody
  simp only [ttColumnWidths_mapCells m hc, ttAligns_mapCells, mapCells_ncols, mapCells_header,
    mapCells_rows, bind_eq]
  cases v.header with
  | none =>
    simp only [Option.map_none]
    congr 1; funext wsI
    congr 1; funext aligns
    congr 1; funext _
    congr 1
    apply forM'_rows_map
    · rfl
    · intro cells
      simp only [ttEmitRow_map m hl]
  | some hs =>
    simp only [Option.map_some, ttEmitRow_map m hl]
    congr 1; funext wsI
    congr 1; funext aligns
    congr 1; funext _
    congr 1; funext _
    congr 1; funext _
    congr 1
    apply forM'_rows_map
    · rfl
    · intro cells
      simp only [ttEmitRow_map m hl]

end Tab
