/-
  C16 helpers, part 10: `InvokeRenderCallbacks`, registration and wrapping commute with the renaming of row ids.
-/
import Tabmodel.Proofs.C16SimSteps
namespace Tab
namespace C16
open World

variable {ρ : Nat → Nat} {t : Nat} {P I : Nat → Prop}

def renderCellsStepC (dw : Measure) (t r i : Nat) (k : World → World) : World → World :=
  rd (fun w => columnOf w r i) (fun col =>
    seq (rd (fun w => (w.table t).cellCbs.at .pre) (fun cbs w => invoke dw w cbs (.cell r i) (.table t)))
    (seq (rd (fun w => colCellCbs w col .pre) (fun cbs => rd (fun w => rowECTaker w r) (fun tk w =>
            invoke dw w cbs (.cell r i) tk)))
    (seq (rd (fun w => (w.row r).cellCbs.at .pre) (fun cbs w => invoke dw w cbs (.cell r i) (.table t)))
    (seq (rd (fun w => (w.table t).cellCbs.at .render) (fun cbs w => invoke dw w cbs (.cell r i) (.table t)))
    (seq (rd (fun w => ((w.cell? r i).map (·.cbs.at .render)).getD [])
            (fun cbs w => invoke dw w cbs (.cell r i) (.table t)))
    (seq (rd (fun w => (w.row r).cellCbs.at .post) (fun cbs w => invoke dw w cbs (.cell r i) (.table t)))
    (seq (rd (fun w => colCellCbs w col .post) (fun cbs => rd (fun w => rowECTaker w r) (fun tk w =>
            invoke dw w cbs (.cell r i) tk)))
    (seq (rd (fun w => (w.table t).cellCbs.at .post) (fun cbs w => invoke dw w cbs (.cell r i) (.table t)))
      k))))))))

theorem renderCells_succ (dw : Measure) (t r n i : Nat) :
    (fun w => renderCells dw t r (n + 1) i w)
      = renderCellsStepC dw t r i (fun w => renderCells dw t r n (i + 1) w) := by
  funext w; rw [renderCells]; rfl

theorem both_renderCells (dw : Measure) {r : Nat} (hr : P r) (n i : Nat) :
    Both ρ t P I (fun w => renderCells dw t r n i w) (fun w => renderCells dw t (ρ r) n i w) := by
  induction n generalizing i with
  | zero => exact Both.id' ρ t P I
  | succ n ih =>
    rw [renderCells_succ, renderCells_succ]
    unfold renderCellsStepC
    refine Both.rdEq (rd_columnOf hr i) (sim_columnOf hr i) (fun col hcol => ?_)
    have inv : ∀ cbs, Both ρ t P I (fun w => invoke dw w cbs (.cell r i) (.table t))
        (fun w => invoke dw w cbs (.cell (ρ r) i) (.table t)) :=
      fun cbs => both_invoke dw cbs (tgt := .cell r i) hr (tk := .table t) rfl
    have tcb : ∀ tm, Both ρ t P I
        (rd (fun w => (w.table t).cellCbs.at tm) (fun cbs w => invoke dw w cbs (.cell r i) (.table t)))
        (rd (fun w => (w.table t).cellCbs.at tm) (fun cbs w => invoke dw w cbs (.cell (ρ r) i) (.table t))) :=
      fun tm => Both.rdEq (rd_tablef (fun tb => tb.cellCbs.at tm))
        (sim_tablef (fun tb => tb.cellCbs.at tm) (fun _ => rfl)) (fun cbs _ => inv cbs)
    have rcb : ∀ tm, Both ρ t P I
        (rd (fun w => (w.row r).cellCbs.at tm) (fun cbs w => invoke dw w cbs (.cell r i) (.table t)))
        (rd (fun w => (w.row (ρ r)).cellCbs.at tm) (fun cbs w => invoke dw w cbs (.cell (ρ r) i) (.table t))) :=
      fun tm => Both.rdEq (rd_rowf hr (fun rw => rw.cellCbs.at tm))
        (sim_rowf (fun rw => rw.cellCbs.at tm) (fun _ => rfl) hr) (fun cbs _ => inv cbs)
    have ccb : ∀ tm, Both ρ t P I
        (rd (fun w => colCellCbs w col tm)
          (fun cbs => rd (fun w => rowECTaker w r) (fun tk w => invoke dw w cbs (.cell r i) tk)))
        (rd (fun w => colCellCbs w col tm)
          (fun cbs => rd (fun w => rowECTaker w (ρ r)) (fun tk w => invoke dw w cbs (.cell (ρ r) i) tk))) :=
      fun tm => Both.rdEq (rd_colCellCbs hcol tm) (sim_colCellCbs hcol tm) (fun cbs _ =>
        Both.rd (rd_rowECTaker hr) (renTaker ρ) (sim_rowECTaker hr)
          (fun tk htk => both_invoke dw cbs (tgt := .cell r i) hr htk))
    refine Both.seq (tcb _) (Both.seq (ccb _) (Both.seq (rcb _) (Both.seq (tcb _)
      (Both.seq ?_ (Both.seq (rcb _) (Both.seq (ccb _) (Both.seq (tcb _) (ih (i + 1)))))))))
    refine Both.rdEq (rd_rowf hr (fun rw => (((rw.cells.getD [])[i]?).map (·.cbs.at .render)).getD []))
      (fun w w₂ h hs => ?_) (fun cbs _ => inv cbs)
    rw [sim_cell? hr i w w₂ h hs]
    cases w.cell? r i <;> rfl

def renderRowC (dw : Measure) (t r : Nat) : World → World :=
  seq (rd (fun w => (w.row r).selfCbs.at .pre) (fun cbs w => invoke dw w cbs (.row r) (.table t)))
  (seq (rd (fun w => (w.rowCells r).length) (fun len w => renderCells dw t r len 0 w))
    (rd (fun w => (w.row r).selfCbs.at .post) (fun cbs w => invoke dw w cbs (.row r) (.table t))))

theorem renderRowC_eq (dw : Measure) (t r : Nat) : (fun w => renderRow dw t w r) = renderRowC dw t r := rfl

theorem both_renderRow (dw : Measure) {r : Nat} (hr : P r) :
    Both ρ t P I (fun w => renderRow dw t w r) (fun w => renderRow dw t w (ρ r)) := by
  rw [renderRowC_eq, renderRowC_eq]
  unfold renderRowC
  have inv : ∀ cbs, Both ρ t P I (fun w => invoke dw w cbs (.row r) (.table t))
      (fun w => invoke dw w cbs (.row (ρ r)) (.table t)) :=
    fun cbs => both_invoke dw cbs (tgt := .row r) hr (tk := .table t) rfl
  exact Both.seq (Both.rdEq (rd_rowf hr (fun rw => rw.selfCbs.at .pre))
      (sim_rowf (fun rw => rw.selfCbs.at .pre) (fun _ => rfl) hr) (fun cbs _ => inv cbs))
    (Both.seq (Both.rdEq (rd_rowf hr (fun rw => (rw.cells.getD []).length))
        (sim_rowf (fun rw => (rw.cells.getD []).length) (renRow_cells_length ρ) hr)
        (fun len _ => both_renderCells dw hr len 0))
      (Both.rdEq (rd_rowf hr (fun rw => rw.selfCbs.at .post))
        (sim_rowf (fun rw => rw.selfCbs.at .post) (fun _ => rfl) hr) (fun cbs _ => inv cbs)))

theorem both_renderColumns (dw : Measure) (tm : Time) (n i : Nat) :
    Both ρ t P I (fun w => renderColumns dw t tm n i w) (fun w => renderColumns dw t tm n i w) := by
  induction n generalizing i with
  | zero => exact Both.id' ρ t P I
  | succ n ih =>
    show Both ρ t P I
      (seq (rd (fun w => ((w.column? t i).map (·.selfCbs.at tm)).getD [])
            (fun cbs w => invoke dw w cbs (.column t i) (.table t)))
        (fun w => renderColumns dw t tm n (i + 1) w))
      (seq (rd (fun w => ((w.column? t i).map (·.selfCbs.at tm)).getD [])
            (fun cbs w => invoke dw w cbs (.column t i) (.table t)))
        (fun w => renderColumns dw t tm n (i + 1) w))
    exact Both.seq (Both.rdEq (rd_tablef (fun tb => ((tb.columns[i]?).map (·.selfCbs.at tm)).getD []))
      (sim_tablef (fun tb => ((tb.columns[i]?).map (·.selfCbs.at tm)).getD []) (fun _ => rfl))
      (fun cbs _ => both_invoke dw cbs (tgt := .column t i) rfl (tk := .table t) rfl)) (ih (i + 1))

def ircC (dw : Measure) (t : Nat) : World → World :=
  seq (rd (fun w => (w.table t).selfCbs.at .pre) (fun cbs w => invoke dw w cbs (.table t) (.table t)))
  (rd (fun w => (w.table t).columns.length) (fun ncol =>
    seq (fun w => renderColumns dw t .pre ncol 0 w)
    (seq (rd (fun w => (w.table t).header) (fun h w => match h with
            | some hr => renderRow dw t w hr
            | none => w))
    (seq (rd (fun w => (w.table t).rows) (fun rows w => rows.foldl (renderRow dw t) w))
    (seq (fun w => renderColumns dw t .post ncol 0 w)
      (rd (fun w => (w.table t).selfCbs.at .post) (fun cbs w => invoke dw w cbs (.table t) (.table t))))))))

theorem ircC_eq (dw : Measure) (t : Nat) : (fun w => invokeRenderCallbacks dw w t) = ircC dw t := rfl

theorem both_invokeRenderCallbacks (dw : Measure) :
    Both ρ t P I (fun w => invokeRenderCallbacks dw w t) (fun w => invokeRenderCallbacks dw w t) := by
  rw [ircC_eq]
  unfold ircC
  have inv : ∀ cbs, Both ρ t P I (fun w => invoke dw w cbs (.table t) (.table t))
      (fun w => invoke dw w cbs (.table t) (.table t)) :=
    fun cbs => both_invoke dw cbs (tgt := .table t) rfl (tk := .table t) rfl
  refine Both.seq (Both.rdEq (rd_tablef (fun tb => tb.selfCbs.at .pre))
      (sim_tablef (fun tb => tb.selfCbs.at .pre) (fun _ => rfl)) (fun cbs _ => inv cbs))
    (Both.rdEq (rd_tablef (fun tb => tb.columns.length))
      (sim_tablef (fun tb => tb.columns.length) (fun _ => rfl)) (fun ncol _ =>
      Both.seq (both_renderColumns dw .pre ncol 0)
      (Both.seq ?_ (Both.seq ?_ (Both.seq (both_renderColumns dw .post ncol 0)
        (Both.rdEq (rd_tablef (fun tb => tb.selfCbs.at .post))
          (sim_tablef (fun tb => tb.selfCbs.at .post) (fun _ => rfl)) (fun cbs _ => inv cbs)))))))
  · refine Both.rd ((rd_table t P I).map (·.header) (fun h => ∀ hr, h = some hr → P hr)
      (fun tb htb hr e => htb hr (.inl e))) (Option.map ρ) (fun w w₂ _ hs => by rw [hs.table]; rfl)
      (fun h hh => ?_)
    cases h with
    | none => exact Both.id' ρ t P I
    | some hr => exact both_renderRow dw (hh hr rfl)
  · refine Both.rd ((rd_table t P I).map (·.rows) (fun rows => ∀ r ∈ rows, P r)
      (fun tb htb r e => htb r (.inr e))) (List.map ρ) (fun w w₂ _ hs => by rw [hs.table]; rfl)
      (fun rows hrows => ?_)
    exact Both.foldl (fun w r => renderRow dw t w r) (fun w r => renderRow dw t w r) ρ rows
      (fun r hr => both_renderRow dw (hrows r hr))

/-! ### registration, wrapping -/

theorem both_registerCb {o : Target} (ho : TgtOK t P o) (tm : Time) (tg : CbTarget) (cb : Cb) :
    Both ρ t P I (fun w => (registerCb w o tm tg cb).getD w)
      (fun w => (registerCb w (renTarget ρ o) tm tg cb).getD w) := by
  cases o with
  | table t' =>
    have : t' = t := ho
    subst this
    cases tg <;> exact both_modTable _ _ (fun _ _ h => .inl h) (fun _ => rfl)
  | column t' n =>
    have : t' = t := ho
    subst this
    cases tg
    · exact both_modColumn n _
    · exact both_modColumn n _
    · exact Both.id' _ _ _ _
  | row r =>
    cases tg <;> exact both_modRow ho _ _ (fun rw h => ⟨h.inT, h.ec, h.cells⟩) (fun _ => rfl)
  | cell r c =>
    cases tg
    · exact both_modCell ho c _ (fun _ => ⟨rfl, rfl⟩) (fun _ => rfl)
    · exact both_modCell ho c _ (fun _ => ⟨rfl, rfl⟩) (fun _ => rfl)
    · exact Both.id' _ _ _ _
  | copy n =>
    cases tg
    · exact both_other _ _ (fun _ => ⟨rfl, rfl, rfl⟩) (fun _ => ⟨rfl, rfl, rfl⟩)
    · exact both_other _ _ (fun _ => ⟨rfl, rfl, rfl⟩) (fun _ => ⟨rfl, rfl, rfl⟩)
    · exact Both.id' _ _ _ _

theorem both_wrapEffect (k : WKind) : Both ρ t P I (fun w => wrapEffect w k t) (fun w => wrapEffect w k t) := by
  cases k
  case text => exact both_modTable _ _ (fun _ _ h => .inl h) (fun _ => rfl)
  case markdown => exact both_modTable _ _ (fun _ _ h => .inl h) (fun _ => rfl)
  all_goals exact Both.id' _ _ _ _

end C16
end Tab
