/-
  E2Ecb helpers, part 5: the render view after a pass with arbitrary callbacks.
  * the content of every cell, the shape and the column count of EVERY table's view depend on the
    world's `core` only, which the pass keeps;
  * the column properties of the rendered table, from the column chains (`irc_colProps`);
  * the view of a table that shares no row with the rendered one is untouched;
  * a view is determined, up to the measurement fields, by its content and column properties.
-/
import Tabmodel.Proofs.E2EcbPass
import Tabmodel.Proofs.E2EView
set_option linter.unusedSimpArgs false
namespace Tab

/-- the value of key `k` after the callbacks `cbs` (in order) were invoked on a non-cell owner
    whose value was `init`: that of the last `.setProp _ k v` among them (`v = none` removes the
    key), `init` if there is none -/
def lastWrite (k : Key) (cbs : List Cb) (init : Option Val) : Option Val :=
  cbs.foldl (fun acc cb => match cb with
    | .setProp _ k' v => if k' = k then v else acc
    | _ => acc) init

/-- a view with other column properties -/
def RTable.withCols (v : RTable) (al sk : List (Option Val)) : RTable := { v with colAlign := al, colSkip := sk }

/-- the cell a content triple describes, measurement fields zero -/
def RCell.ofContent (x : Bytes × Bool × Option Bytes) : RCell := { text := x.1, empty := x.2.1, json := x.2.2 }

namespace E2Ecb
open World

/-! ### chains under a list of callbacks -/

theorem get_applyChain (ch : Chain) (cb : Cb) (k : Key) (h : ch.keys.Nodup) :
    (cb.applyChain ch).get k = (match cb with
      | .setProp _ k' v => if k' = k then v else ch.get k
      | _ => ch.get k) := by
  cases cb with
  | setProp id k' v =>
    simp only [Cb.applyChain]
    by_cases hk : k' = k
    · subst hk; simp only [if_true]; exact C13.chain_get_set ch k' v (Or.inr h)
    · simp only [hk, if_false]; exact C13.chain_get_set_ne ch v hk
  | _ => rfl

theorem nodup_applyChain (ch : Chain) (cb : Cb) (h : ch.keys.Nodup) : (cb.applyChain ch).keys.Nodup := by
  cases cb with
  | setProp id k' v => exact C13.chain_set_keys_nodup ch k' v h
  | _ => exact h

theorem get_foldl_applyChain (cbs : List Cb) (ch : Chain) (k : Key) (h : ch.keys.Nodup) :
    (cbs.foldl Cb.applyChain ch).get k = lastWrite k cbs (ch.get k) := by
  induction cbs generalizing ch with
  | nil => rfl
  | cons cb cbs ih =>
    simp only [List.foldl_cons, lastWrite]
    rw [ih _ (nodup_applyChain ch cb h), get_applyChain ch cb k h]
    rfl

theorem get_foldl_applyChain_frame (cbs : List Cb) (ch : Chain) (k : Key) (h : ∀ cb ∈ cbs, cb.writes k = false) :
    (cbs.foldl Cb.applyChain ch).get k = ch.get k := by
  induction cbs generalizing ch with
  | nil => rfl
  | cons cb cbs ih =>
    simp only [List.foldl_cons]
    rw [ih _ (fun c hc => h c (by simp [hc]))]
    have hw := h cb (by simp)
    cases cb with
    | setProp id k' v =>
      have hk : k' ≠ k := by simpa [Cb.writes] using hw
      exact C13.chain_get_set_ne ch v hk
    | _ => rfl

theorem lastWrite_frame (k : Key) (cbs : List Cb) (init : Option Val) (h : ∀ cb ∈ cbs, cb.writes k = false) :
    lastWrite k cbs init = init := by
  induction cbs generalizing init with
  | nil => rfl
  | cons cb cbs ih =>
    have hw := h cb (by simp)
    have ih' := ih init (fun c hc => h c (by simp [hc]))
    cases cb with
    | setProp id k' v =>
      have hk : k' ≠ k := by simpa [Cb.writes] using hw
      simp only [lastWrite, List.foldl_cons, hk, if_false]
      exact ih'
    | _ => exact ih'

/-! ### column properties of the rendered table -/

theorem irc_colGet (dw : Measure) (w : World) (t : Nat) (k : Key) :
    ((invokeRenderCallbacks dw w t).table t).columns.map (·.props.get k) =
      (w.table t).columns.map (fun c => ((c.selfCbs.pre ++ c.selfCbs.post).foldl Cb.applyChain c.props).get k) := by
  have := congrArg (List.map (fun ch : Chain => ch.get k)) (irc_colProps dw w t)
  simpa [List.map_map, Function.comp_def] using this

/-! ### content through the core -/

theorem rowContent_core (w : World) (r : Nat) :
    ((w.core.rowCells r).map w.core.rcell).map RCell.content = ((w.rowCells r).map w.rcell).map RCell.content := by
  rw [core_rowCells]
  simp only [List.map_map]
  apply List.map_congr_left
  intro c _
  rfl

theorem view_ncols_core (w : World) (t : Nat) : (w.core.view t).ncols = (w.view t).ncols := by
  unfold World.view; simp only [rd_nColumns]

theorem view_header_core (w : World) (t : Nat) :
    (w.core.view t).header.map (·.map RCell.content) = (w.view t).header.map (·.map RCell.content) := by
  unfold World.view
  simp only [rd_header]
  cases (w.table t).header with
  | none => rfl
  | some hr => simp only [Option.map_some]; rw [rowContent_core]

theorem view_rows_core (w : World) (t : Nat) :
    (w.core.view t).rows.map (·.map (·.map RCell.content)) = (w.view t).rows.map (·.map (·.map RCell.content)) := by
  unfold World.view
  simp only [rd_rows, List.map_map]
  apply List.map_congr_left
  intro r _
  simp only [Function.comp, rd_isSep]
  split
  · rfl
  · simp only [Option.map_some]; rw [rowContent_core]

/-- the pass over `t` keeps column count, shape and cell contents of the view of EVERY table -/
theorem irc_view_content (dw : Measure) (w : World) (t t2 : Nat) :
    ((invokeRenderCallbacks dw w t).view t2).ncols = (w.view t2).ncols ∧
    ((invokeRenderCallbacks dw w t).view t2).header.map (·.map RCell.content) =
      (w.view t2).header.map (·.map RCell.content) ∧
    ((invokeRenderCallbacks dw w t).view t2).rows.map (·.map (·.map RCell.content)) =
      (w.view t2).rows.map (·.map (·.map RCell.content)) := by
  have hc := irc_core dw w t
  refine ⟨?_, ?_, ?_⟩
  · rw [← view_ncols_core, hc, view_ncols_core]
  · rw [← view_header_core, hc, view_header_core]
  · rw [← view_rows_core, hc, view_rows_core]

/-! ### a view up to measurements -/

theorem mask_ff (c : RCell) : c.mask false false = RCell.ofContent c.content := rfl

theorem mapCells_mask_of_content {v' v : RTable} (hn : v'.ncols = v.ncols)
    (hh : v'.header.map (·.map RCell.content) = v.header.map (·.map RCell.content))
    (hr : v'.rows.map (·.map (·.map RCell.content)) = v.rows.map (·.map (·.map RCell.content))) :
    v'.mapCells (RCell.mask false false) = (v.withCols v'.colAlign v'.colSkip).mapCells (RCell.mask false false) := by
  have e1 : ∀ h : Option (List RCell), h.map (·.map (RCell.mask false false)) =
      (h.map (·.map RCell.content)).map (·.map RCell.ofContent) := by
    intro h
    cases h with
    | none => rfl
    | some cs => simp [List.map_map, Function.comp_def, mask_ff]
  have e2 : ∀ rs : List (Option (List RCell)), rs.map (·.map (·.map (RCell.mask false false))) =
      (rs.map (·.map (·.map RCell.content))).map (·.map (·.map RCell.ofContent)) := by
    intro rs
    simp only [List.map_map]
    apply List.map_congr_left
    intro r _
    exact e1 r
  unfold RTable.mapCells RTable.withCols
  simp only [RTable.mk.injEq]
  exact ⟨hn, by rw [e1, e1, hh], by rw [e2, e2, hr], trivial, trivial⟩

/-! ### the view of another table -/

theorem rcell_congr {w' w : World} (h : w'.items = w.items) : w'.rcell = w.rcell := by
  funext c
  unfold World.rcell World.item
  rw [h]

theorem view_congr {w' w : World} (t2 : Nat) (htb : (w'.table t2).noErrs = (w.table t2).noErrs)
    (hit : w'.items = w.items) (hrow : ∀ r ∈ passRows w t2, w'.row r = w.row r) : w'.view t2 = w.view t2 := by
  have hn : (w'.table t2).nColumns = (w.table t2).nColumns := by
    have := congrArg Table.nColumns htb; exact this
  have hh : (w'.table t2).header = (w.table t2).header := by
    have := congrArg Table.header htb; exact this
  have hr : (w'.table t2).rows = (w.table t2).rows := by
    have := congrArg Table.rows htb; exact this
  have hc : (w'.table t2).columns = (w.table t2).columns := by
    have := congrArg Table.columns htb; exact this
  have hcells : ∀ r ∈ passRows w t2, w'.rowCells r = w.rowCells r := by
    intro r hr'; unfold World.rowCells; rw [hrow r hr']
  unfold World.view
  simp only [hn, hh, hr, hc, rcell_congr hit, RTable.mk.injEq, true_and, and_true]
  constructor
  · cases hd : (w.table t2).header with
    | none => rfl
    | some r0 =>
      simp only [Option.map_some]
      rw [hcells r0 (by unfold passRows; rw [hd]; simp)]
  · apply List.map_congr_left
    intro r hr'
    have hm : r ∈ passRows w t2 := by unfold passRows; simp [hr']
    rw [hrow r hm, hcells r hm]

/-- a table none of whose rows (header row included) is visited by the pass over `t` keeps its whole
    view, measurements included -/
theorem irc_view_other (dw : Measure) (w : World) (t t2 : Nat) (hne : t2 ≠ t)
    (hd : ∀ r ∈ passRows w t2, r ∉ passRows w t) :
    (invokeRenderCallbacks dw w t).view t2 = w.view t2 :=
  view_congr t2 (irc_table_other dw w t t2 hne) (irc_items dw w t)
    (fun r hr => irc_row_other dw w t r (hd r hr))

end E2Ecb
end Tab
