/- C11, history level — induction over valid histories. -/
import Tabmodel.Proofs.C11hI
namespace Tab
open World

theorem inv_step (dw : Measure) {w : World} (hinv : Inv w) (op : BuildOp)
    (hok : w.shape.ok op = true) : Inv (applyOp dw w op) := by
  unfold Inv; rw [shape_applyOp]; exact Shape.SInv.step hinv op hok

theorem rows_length_step (dw : Measure) (w : World) (op : BuildOp) :
    (applyOp dw w op).rows.length = w.rows.length + op.newRows := by
  have := Shape.step_rows_length w.shape op
  rwa [← shape_applyOp dw, shape_rows_length, shape_rows_length] at this

/-- what a valid history guarantees, from any world satisfying the invariant -/
structure RunOut (dw : Measure) (hs : List Nat) (w : World) (ops : List BuildOp) : Prop where
  inv : Inv (runFrom dw w ops)
  he : HE (hdrIdsFrom w.rows.length hs ops) (runFrom dw w ops)
  grow : Grow w (runFrom dw w ops)
  mass : ∀ e, mass (runFrom dw w ops) e = mass w e + raisedFrom dw e w ops
  led : ∀ e L, Led e w L → Led e (runFrom dw w ops) (L ++ ledgerFrom dw e w ops)

theorem run_all (dw : Measure) (ops : List BuildOp) : ∀ {hs : List Nat} {w : World}, Inv w → HE hs w →
    w.shape.validFrom ops = true → hdrSafeFrom w.rows.length hs ops = true → RunOut dw hs w ops := by
  induction ops with
  | nil =>
    intro hs w hinv h _ _
    exact ⟨hinv, h, Grow.refl w, fun e => rfl, fun e L hl => by simpa [ledgerFrom, runFrom] using hl⟩
  | cons op ops ih =>
    intro hs w hinv h hv hh
    simp only [Shape.validFrom, Bool.and_eq_true] at hv
    simp only [hdrSafeFrom, Bool.and_eq_true] at hh
    have s := step_all dw hinv h op hv.1 hh.1
    have hinv' := inv_step dw hinv op hv.1
    have hv' : (applyOp dw w op).shape.validFrom ops = true := by rw [shape_applyOp]; exact hv.2
    have hh' : hdrSafeFrom (applyOp dw w op).rows.length (op.hdrStep w.rows.length hs) ops = true := by
      rw [rows_length_step]; exact hh.2
    have r := ih hinv' s.he hv' hh'
    have e1 : runFrom dw w (op :: ops) = runFrom dw (applyOp dw w op) ops := rfl
    refine ⟨by rw [e1]; exact r.inv, ?_, by rw [e1]; exact s.grow.trans r.grow, ?_, ?_⟩
    · rw [e1]
      have := r.he
      rw [rows_length_step] at this
      exact this
    · intro e
      rw [e1, r.mass e, s.mass e]
      simp only [raisedFrom]; omega
    · intro e L hl
      rw [e1]
      have := r.led e _ (s.led e L hl)
      simpa only [ledgerFrom, List.append_assoc, List.singleton_append] using this

theorem inv_init : Inv ({} : World) := Shape.sinv_init

theorem he_init : HE [] ({} : World) where
  att t ht := by simp at ht
  ect r t h := by rw [row_oob ({} : World) r (Nat.zero_le _)] at h; cases h

theorem led_init (e : Nat) : Led e ({} : World) [] := by
  intro g _
  cases g with
  | table t => rfl
  | row r => rfl

theorem mass_init (e : Nat) : mass ({} : World) e = 0 := rfl

end Tab
