/- C13 helper lemmas: projecting the documented render list on one registration id. -/
import Tabmodel.Proofs.C13Render
set_option linter.unusedSimpArgs false
namespace Tab
open World
namespace C13

/-- the events of registration `id` -/
def evOf (id : Nat) (es : List Event) : List Event := es.filter (fun e => e.cb == id)

@[simp] theorem evOf_nil (id : Nat) : evOf id [] = [] := rfl
@[simp] theorem evOf_append (id : Nat) (a b : List Event) : evOf id (a ++ b) = evOf id a ++ evOf id b := by
  simp [evOf]
theorem evOf_flatMap {α : Type} (id : Nat) (l : List α) (f : α → List Event) :
    evOf id (l.flatMap f) = l.flatMap (fun a => evOf id (f a)) := by
  simp [evOf, List.filter_flatMap]

theorem evOf_ev (id : Nat) (cbs : List Cb) (tgt : Target) :
    evOf id (logEvents cbs tgt) = List.replicate ((logIds cbs).count id) ⟨id, tgt⟩ := by
  unfold evOf logEvents
  rw [List.filter_map]
  have : ((fun e : Event => e.cb == id) ∘ fun i => (⟨i, tgt⟩ : Event)) = fun i => i == id := rfl
  rw [this, List.filter_beq, List.map_replicate]

theorem count_evOf (id : Nat) (tgt : Target) (es : List Event) :
    (evOf id es).count ⟨id, tgt⟩ = es.count ⟨id, tgt⟩ := by
  unfold evOf
  exact List.count_filter (by simp)

theorem evOf_ev_unique {w : World} {id : Nat} {s : CbSlot} {tm : Time} (hu : UniqueIn w id s tm)
    (s' : CbSlot) (tm' : Time) (tgt : Target) :
    evOf id (logEvents (w.cbsAt s' tm') tgt) = if s' = s ∧ tm' = tm then [⟨id, tgt⟩] else [] := by
  rw [evOf_ev]
  by_cases h : s' = s ∧ tm' = tm
  · obtain ⟨rfl, rfl⟩ := h
    simp [hu.1]
  · have : id ∉ logIds (w.cbsAt s' tm') := fun hm => h (hu.2 s' tm' hm)
    simp [h, List.count_eq_zero.mpr this]

theorem evOf_colCellAt {w : World} {id : Nat} {s : CbSlot} {tm : Time} (hu : UniqueIn w id s tm)
    (hs : ∀ t' n, s ≠ .colCell t' n) (r i : Nat) (tm' : Time) (tgt : Target) :
    evOf id (logEvents (colCellAt w r i tm') tgt) = [] := by
  unfold colCellAt
  cases w.columnOf r i with
  | none => rfl
  | some p =>
    obtain ⟨t', n⟩ := p
    simp only
    rw [evOf_ev_unique hu]
    have : ¬ (CbSlot.colCell t' n = s ∧ tm' = tm) := fun e => hs t' n e.1.symm
    simp [this]

theorem flatMap_nil' {α β : Type} (l : List α) : l.flatMap (fun _ => ([] : List β)) = [] := by
  induction l <;> simp_all

theorem flatMap_singleton' {α β : Type} (l : List α) (f : α → β) : l.flatMap (fun a => [f a]) = l.map f := by
  induction l <;> simp_all

/-! ### table-level cell callbacks -/

theorem evOf_cellExpected_tableCell {w : World} {id t : Nat} {tm : Time}
    (hu : UniqueIn w id (.tableCell t) tm) (htm : tm ≠ .add) (r i : Nat) :
    evOf id (cellExpected w t r i) = [⟨id, .cell r i⟩] := by
  have hc := evOf_colCellAt hu (by intro _ _ h; cases h) r i
  unfold cellExpected
  simp only [evOf_append, hc, evOf_ev_unique hu, reduceCtorEq, false_and, if_false, true_and,
    List.nil_append, List.append_nil]
  cases tm <;> simp at htm ⊢

theorem evOf_rowExpected_tableCell {w : World} {id t : Nat} {tm : Time}
    (hu : UniqueIn w id (.tableCell t) tm) (htm : tm ≠ .add) (r : Nat) :
    evOf id (rowExpected w t r) = (List.range (w.rowCells r).length).map (fun i => ⟨id, .cell r i⟩) := by
  unfold rowExpected
  simp only [evOf_append, evOf_flatMap, evOf_ev_unique hu, evOf_cellExpected_tableCell hu htm, reduceCtorEq,
    false_and, if_false, List.nil_append, List.append_nil, flatMap_singleton']

theorem evOf_colsExpected_of {w : World} {id : Nat} {s : CbSlot} {tm : Time} (hu : UniqueIn w id s tm)
    (hs : ∀ t' n, s ≠ .colSelf t' n) (t : Nat) (tm' : Time) : evOf id (colsExpected w t tm') = [] := by
  unfold colsExpected
  rw [evOf_flatMap]
  have : ∀ j, evOf id (logEvents (w.cbsAt (.colSelf t j) tm') (.column t j)) = [] := by
    intro j
    rw [evOf_ev_unique hu]
    have : ¬ (CbSlot.colSelf t j = s ∧ tm' = tm) := fun e => hs t j e.1.symm
    simp [this]
  simp only [this, flatMap_nil']

theorem evOf_expectedRender_tableCell {w : World} {id t : Nat} {tm : Time}
    (hu : UniqueIn w id (.tableCell t) tm) (htm : tm ≠ .add) :
    evOf id (expectedRender w t) = (cellTargets w t).map (fun tgt => ⟨id, tgt⟩) := by
  have hcols := evOf_colsExpected_of hu (by intro _ _ h; cases h) t
  unfold expectedRender cellTargets
  simp only [evOf_append, evOf_flatMap, hcols, evOf_ev_unique hu, evOf_rowExpected_tableCell hu htm,
    reduceCtorEq, false_and, if_false, List.nil_append, List.append_nil, List.map_flatMap, List.map_map]
  rfl

/-! ### row-itself callbacks -/

theorem evOf_cellExpected_rowSelf {w : World} {id r : Nat} {tm : Time}
    (hu : UniqueIn w id (.rowSelf r) tm) (t r' i : Nat) :
    evOf id (cellExpected w t r' i) = [] := by
  have hc := evOf_colCellAt hu (by intro _ _ h; cases h) r' i
  unfold cellExpected
  simp only [evOf_append, hc, evOf_ev_unique hu, reduceCtorEq, false_and, if_false, List.append_nil]

theorem evOf_rowExpected_rowSelf {w : World} {id r : Nat} {tm : Time}
    (hu : UniqueIn w id (.rowSelf r) tm) (htm : tm = .pre ∨ tm = .post) (t r' : Nat) :
    evOf id (rowExpected w t r') = if r' = r then [⟨id, .row r⟩] else [] := by
  unfold rowExpected
  simp only [evOf_append, evOf_flatMap, evOf_ev_unique hu, evOf_cellExpected_rowSelf hu, flatMap_nil',
    List.append_nil, CbSlot.rowSelf.injEq]
  by_cases h : r' = r
  · subst h
    rcases htm with rfl | rfl <;> simp
  · simp [h]

theorem evOf_expectedRender_rowSelf {w : World} {id r : Nat} {tm : Time}
    (hu : UniqueIn w id (.rowSelf r) tm) (htm : tm = .pre ∨ tm = .post) (t : Nat) :
    evOf id (expectedRender w t) =
      ((renderRows w t).filter (fun r' => r' == r)).map (fun r' => ⟨id, .row r'⟩) := by
  have hcols := evOf_colsExpected_of hu (by intro _ _ h; cases h) t
  unfold expectedRender
  simp only [evOf_append, evOf_flatMap, hcols, evOf_ev_unique hu, evOf_rowExpected_rowSelf hu htm,
    reduceCtorEq, false_and, if_false, List.nil_append, List.append_nil]
  generalize renderRows w t = rs
  induction rs with
  | nil => rfl
  | cons a rs ih =>
    simp only [List.flatMap_cons, ih, List.filter_cons]
    by_cases h : a = r
    · subst h; simp
    · simp [h]

/-! ### counting -/

theorem count_map_inj {α β : Type} [DecidableEq α] [DecidableEq β] (f : α → β)
    (hf : ∀ a b, f a = f b → a = b) (a : α) (l : List α) : (l.map f).count (f a) = l.count a := by
  induction l with
  | nil => rfl
  | cons b l ih =>
    simp only [List.map_cons, List.count_cons, ih]
    by_cases h : b = a
    · subst h; simp
    · have : ¬ f b = f a := fun e => h (hf _ _ e)
      simp [h, this]

theorem nodup_map_inj {α β : Type} (f : α → β) (hf : ∀ a b, f a = f b → a = b) {l : List α} (h : l.Nodup) :
    (l.map f).Nodup := by
  unfold List.Nodup at h ⊢
  rw [List.pairwise_map]
  exact h.imp (fun hne e => hne (hf _ _ e))

theorem cellTargets_nodup {w : World} {t : Nat} (h : (renderRows w t).Nodup) : (cellTargets w t).Nodup := by
  unfold cellTargets List.Nodup
  rw [List.pairwise_flatMap]
  refine ⟨fun r _ => ?_, ?_⟩
  · exact nodup_map_inj _ (fun a b e => by cases e; rfl) List.nodup_range
  · refine List.Pairwise.imp ?_ h
    intro a b hab x hx y hy
    simp only [List.mem_map] at hx hy
    obtain ⟨i, _, rfl⟩ := hx
    obtain ⟨j, _, rfl⟩ := hy
    intro e; cases e; exact hab rfl

theorem mem_cellTargets {w : World} {t : Nat} {tgt : Target} :
    tgt ∈ cellTargets w t ↔ ∃ r i, tgt = .cell r i ∧ r ∈ renderRows w t ∧ i < (w.rowCells r).length := by
  unfold cellTargets
  simp only [List.mem_flatMap, List.mem_map, List.mem_range]
  constructor
  · rintro ⟨r, hr, i, hi, rfl⟩; exact ⟨r, i, rfl, hr, hi⟩
  · rintro ⟨r, i, rfl, hr, hi⟩; exact ⟨r, hr, i, hi, rfl⟩

/-! ### the whole matrix -/

theorem evOf_colCellAt_gen {w : World} {id : Nat} {s : CbSlot} {tm : Time} (hu : UniqueIn w id s tm)
    (r i : Nat) (tm' : Time) (tgt : Target) :
    evOf id (logEvents (colCellAt w r i tm') tgt) =
      match w.columnOf r i with
      | some (t', n) => if CbSlot.colCell t' n = s ∧ tm' = tm then [⟨id, tgt⟩] else []
      | none => [] := by
  unfold colCellAt
  cases w.columnOf r i with
  | none => rfl
  | some p =>
    obtain ⟨t', n⟩ := p
    simp only
    rw [evOf_ev_unique hu]

theorem flatMap_ite_singleton {α β : Type} (l : List α) (p : α → Bool) (f : α → β) :
    l.flatMap (fun a => if p a = true then [f a] else []) = (l.filter p).map f := by
  induction l with
  | nil => rfl
  | cons a l ih =>
    simp only [List.flatMap_cons, ih, List.filter_cons]
    cases p a <;> simp

theorem evOf_cellExpected_gen {w : World} {id : Nat} {s : CbSlot} {tm : Time} (hu : UniqueIn w id s tm)
    (t r i : Nat) :
    evOf id (cellExpected w t r i) = if cellFires w t s tm r i = true then [⟨id, .cell r i⟩] else [] := by
  unfold cellExpected
  simp only [evOf_append, evOf_ev_unique hu, evOf_colCellAt_gen hu]
  cases hc : w.columnOf r i with
  | none =>
    cases s <;> cases tm <;> simp [cellFires, Time.prePost, hc]
  | some p =>
    obtain ⟨t', n⟩ := p
    cases s <;> cases tm <;> simp [cellFires, Time.prePost, hc]

theorem filter_false' {α : Type} (l : List α) : l.filter (fun _ => false) = [] := by
  induction l <;> simp_all

theorem colFires_colSelf (t a b : Nat) (tm : Time) :
    colFires t (.colSelf a b) tm = fun n => t == a && n == b && tm.prePost := rfl

theorem map_ite_singleton {α β : Type} (c : Prop) [Decidable c] (f : α → β) (a : α) :
    List.map f (if c then [a] else []) = if c then [f a] else [] := by
  split <;> rfl

theorem cellFires_nonCell (w : World) (t : Nat) (s : CbSlot) (tm : Time) (r : Nat)
    (hs : (∀ a, s ≠ .tableCell a) ∧ (∀ a b, s ≠ .colCell a b) ∧ (∀ a, s ≠ .rowCell a) ∧ (∀ a b, s ≠ .cellOwn a b)) :
    cellFires w t s tm r = fun _ => false := by
  funext i
  cases s <;> first | rfl | (exfalso; first | exact hs.1 _ rfl | exact hs.2.1 _ _ rfl | exact hs.2.2.1 _ rfl | exact hs.2.2.2 _ _ rfl)

theorem colFires_nonCol (t : Nat) (s : CbSlot) (tm : Time) (hs : ∀ a b, s ≠ .colSelf a b) :
    colFires t s tm = fun _ => false := by
  funext n
  cases s <;> first | rfl | exact absurd rfl (hs _ _)

theorem evOf_rowExpected_gen {w : World} {id : Nat} {s : CbSlot} {tm : Time} (hu : UniqueIn w id s tm)
    (t r : Nat) :
    evOf id (rowExpected w t r) =
      ((if rowFires s tm r = true then [Target.row r] else []) ++
        ((List.range (w.rowCells r).length).filter (cellFires w t s tm r)).map (Target.cell r)).map
        (fun tgt => ⟨id, tgt⟩) := by
  unfold rowExpected
  simp only [evOf_append, evOf_flatMap, evOf_ev_unique hu, evOf_cellExpected_gen hu, flatMap_ite_singleton,
    List.map_append, List.map_map]
  cases s with
  | rowSelf r' =>
    rw [cellFires_nonCell w t _ tm r (by refine ⟨?_, ?_, ?_, ?_⟩ <;> intros <;> exact CbSlot.noConfusion)]
    cases tm <;> simp [rowFires, Time.prePost, map_ite_singleton, filter_false']
  | _ => cases tm <;> simp [rowFires, Time.prePost, Function.comp_def]

theorem evOf_colsExpected_gen {w : World} {id : Nat} {s : CbSlot} {tm : Time} (hu : UniqueIn w id s tm)
    (t : Nat) (tm' : Time) :
    evOf id (colsExpected w t tm') =
      ((List.range (w.table t).columns.length).filter
        (fun n => decide (CbSlot.colSelf t n = s ∧ tm' = tm))).map (fun n => ⟨id, .column t n⟩) := by
  unfold colsExpected
  simp only [evOf_flatMap, evOf_ev_unique hu]
  rw [← flatMap_ite_singleton]
  simp

theorem evOf_expectedRender_gen {w : World} {id : Nat} {s : CbSlot} {tm : Time} (hu : UniqueIn w id s tm)
    (t : Nat) :
    evOf id (expectedRender w t) = (renderTargets w t s tm).map (fun tgt => ⟨id, tgt⟩) := by
  unfold expectedRender renderTargets
  simp only [evOf_append, evOf_flatMap, evOf_ev_unique hu, evOf_rowExpected_gen hu, evOf_colsExpected_gen hu,
    List.map_append, List.map_flatMap, List.map_map]
  cases s with
  | tableSelf a =>
    simp only [cellFires_nonCell w t (.tableSelf a) tm _
        (by refine ⟨?_, ?_, ?_, ?_⟩ <;> intros <;> exact CbSlot.noConfusion),
      colFires_nonCol t (.tableSelf a) tm (by intros; exact CbSlot.noConfusion)]
    cases tm <;> simp [tableFires, rowFires, Time.prePost, map_ite_singleton, flatMap_nil', filter_false']
  | colSelf a b =>
    simp only [cellFires_nonCell w t (.colSelf a b) tm _
        (by refine ⟨?_, ?_, ?_, ?_⟩ <;> intros <;> exact CbSlot.noConfusion)]
    cases tm <;> simp [tableFires, colFires_colSelf, rowFires, Time.prePost, flatMap_nil', filter_false', Function.comp_def]
    all_goals (congr 2)
  | rowSelf a =>
    simp only [colFires_nonCol t (.rowSelf a) tm (by intros; exact CbSlot.noConfusion)]
    cases tm <;> simp [tableFires, rowFires, Time.prePost, Function.comp_def, filter_false', flatMap_nil']
  | tableRow a =>
    simp only [colFires_nonCol t (.tableRow a) tm (by intros; exact CbSlot.noConfusion)]
    cases tm <;> simp [tableFires, rowFires, Time.prePost, Function.comp_def, filter_false', flatMap_nil']
  | copyOwn a =>
    simp only [colFires_nonCol t (.copyOwn a) tm (by intros; exact CbSlot.noConfusion)]
    cases tm <;> simp [tableFires, rowFires, Time.prePost, Function.comp_def, filter_false', flatMap_nil']
  | tableCell a =>
    simp only [colFires_nonCol t (.tableCell a) tm (by intros; exact CbSlot.noConfusion)]
    cases tm <;> simp [tableFires, rowFires, Time.prePost, Function.comp_def, filter_false', flatMap_nil']
  | colCell a b =>
    simp only [colFires_nonCol t (.colCell a b) tm (by intros; exact CbSlot.noConfusion)]
    cases tm <;> simp [tableFires, rowFires, Time.prePost, Function.comp_def, filter_false', flatMap_nil']
  | rowCell a =>
    simp only [colFires_nonCol t (.rowCell a) tm (by intros; exact CbSlot.noConfusion)]
    cases tm <;> simp [tableFires, rowFires, Time.prePost, Function.comp_def, filter_false', flatMap_nil']
  | cellOwn a b =>
    simp only [colFires_nonCol t (.cellOwn a b) tm (by intros; exact CbSlot.noConfusion)]
    cases tm <;> simp [tableFires, rowFires, Time.prePost, Function.comp_def, filter_false', flatMap_nil']

theorem mem_renderTargets {w : World} {t : Nat} {s : CbSlot} {tm : Time} {tgt : Target} :
    tgt ∈ renderTargets w t s tm ↔
      (tableFires t s tm = true ∧ tgt = .table t) ∨
      (∃ n, n < (w.table t).columns.length ∧ colFires t s tm n = true ∧ tgt = .column t n) ∨
      (∃ r, r ∈ renderRows w t ∧
        ((rowFires s tm r = true ∧ tgt = .row r) ∨
         ∃ i, i < (w.rowCells r).length ∧ cellFires w t s tm r i = true ∧ tgt = .cell r i)) := by
  unfold renderTargets
  simp only [List.mem_append, List.mem_flatMap, List.mem_map, List.mem_filter, List.mem_range]
  constructor
  · rintro ((h | h) | h)
    · left; split at h <;> simp_all
    · right; left; obtain ⟨n, ⟨hn, hf⟩, rfl⟩ := h; exact ⟨n, hn, hf, rfl⟩
    · right; right
      obtain ⟨r, hr, h | h⟩ := h
      · refine ⟨r, hr, .inl ?_⟩; split at h <;> simp_all
      · obtain ⟨i, ⟨hi, hf⟩, rfl⟩ := h; exact ⟨r, hr, .inr ⟨i, hi, hf, rfl⟩⟩
  · rintro (⟨hf, rfl⟩ | ⟨n, hn, hf, rfl⟩ | ⟨r, hr, ⟨hf, rfl⟩ | ⟨i, hi, hf, rfl⟩⟩)
    · left; left; simp [hf]
    · left; right; exact ⟨n, ⟨hn, hf⟩, rfl⟩
    · right; exact ⟨r, hr, .inl (by simp [hf])⟩
    · right; exact ⟨r, hr, .inr ⟨i, ⟨hi, hf⟩, rfl⟩⟩

theorem nodup_filter_range_map {β : Type} (n : Nat) (p : Nat → Bool) (f : Nat → β)
    (hf : ∀ a b, f a = f b → a = b) : (((List.range n).filter p).map f).Nodup :=
  nodup_map_inj f hf (List.Nodup.sublist List.filter_sublist List.nodup_range)

theorem nodup_ite_singleton {α : Type} (c : Prop) [Decidable c] (a : α) : (if c then [a] else []).Nodup := by
  split <;> simp

theorem renderTargets_nodup {w : World} {t : Nat} (s : CbSlot) (tm : Time) (h : (renderRows w t).Nodup) :
    (renderTargets w t s tm).Nodup := by
  unfold renderTargets
  rw [List.nodup_append, List.nodup_append]
  refine ⟨⟨nodup_ite_singleton _ _, nodup_filter_range_map _ _ _ (fun a b e => by cases e; rfl), ?_⟩, ?_, ?_⟩
  · intro a ha b hb
    split at ha
    · simp only [List.mem_singleton] at ha; subst ha
      simp only [List.mem_map] at hb
      obtain ⟨n, _, rfl⟩ := hb
      exact Target.noConfusion
    · simp at ha
  · unfold List.Nodup
    rw [List.pairwise_flatMap]
    refine ⟨fun r _ => ?_, ?_⟩
    · show List.Nodup _
      rw [List.nodup_append]
      refine ⟨nodup_ite_singleton _ _, nodup_filter_range_map _ _ _ (fun a b e => by cases e; rfl), ?_⟩
      intro a ha b hb
      split at ha
      · simp only [List.mem_singleton] at ha; subst ha
        simp only [List.mem_map] at hb
        obtain ⟨n, _, rfl⟩ := hb
        exact Target.noConfusion
      · simp at ha
    · refine List.Pairwise.imp ?_ h
      intro a b hab x hx y hy e
      subst e
      simp only [List.mem_append, List.mem_map] at hx hy
      rcases hx with hx | ⟨i, _, rfl⟩
      · split at hx
        · simp only [List.mem_singleton] at hx; subst hx
          rcases hy with hy | ⟨j, _, hj⟩
          · split at hy
            · simp only [List.mem_singleton] at hy; cases hy; exact hab rfl
            · simp at hy
          · cases hj
        · simp at hx
      · rcases hy with hy | ⟨j, _, hj⟩
        · split at hy
          · simp only [List.mem_singleton] at hy; cases hy
          · simp at hy
        · cases hj; exact hab rfl
  · intro a ha b hb e
    subst e
    simp only [List.mem_flatMap, List.mem_append, List.mem_map] at ha hb
    obtain ⟨r, _, hb | ⟨i, _, rfl⟩⟩ := hb
    · split at hb
      · simp only [List.mem_singleton] at hb; subst hb
        rcases ha with ha | ⟨n, _, hn⟩
        · split at ha
          · simp only [List.mem_singleton] at ha; cases ha
          · simp at ha
        · cases hn
      · simp at hb
    · rcases ha with ha | ⟨n, _, hn⟩
      · split at ha
        · simp only [List.mem_singleton] at ha; cases ha
        · simp at ha
      · cases hn

end C13
end Tab
