/- C11 — helper lemmas: list `modify`, store frames, error mass. -/
import Tabmodel.Proofs.C11Defs
namespace Tab

/-! ### lists -/

theorem getD_modify {α} (l : List α) (i j : Nat) (f : α → α) (d : α) :
    (l.modify i f).getD j d = if i = j ∧ j < l.length then f (l.getD j d) else l.getD j d := by
  induction l generalizing i j with
  | nil => simp
  | cons a l ih =>
    cases i with
    | zero =>
      cases j with
      | zero => simp
      | succ j => simp
    | succ i =>
      cases j with
      | zero => simp
      | succ j => simpa using ih i j

theorem sum_map_modify {α} (l : List α) (i : Nat) (f : α → α) (g : α → Nat) (d : α)
    (h : i < l.length) :
    ((l.modify i f).map g).sum + g (l.getD i d) = (l.map g).sum + g (f (l.getD i d)) := by
  induction l generalizing i with
  | nil => simp at h
  | cons a l ih =>
    cases i with
    | zero => simp; omega
    | succ i =>
      have := ih i (by simpa using h)
      simp at this ⊢; omega

theorem map_modify_same {α β} (l : List α) (i : Nat) (f : α → α) (g : α → β)
    (h : ∀ x, g (f x) = g x) : (l.modify i f).map g = l.map g := by
  induction l generalizing i with
  | nil => simp
  | cons a l ih =>
    cases i with
    | zero => simp [h]
    | succ i => simp [ih]

theorem modify_ge {α} (l : List α) (i : Nat) (f : α → α) (h : l.length ≤ i) :
    l.modify i f = l := by
  induction l generalizing i with
  | nil => simp
  | cons a l ih =>
    cases i with
    | zero => simp at h
    | succ i => simp [ih i (by simpa using h)]

namespace World

/-! ### store frames -/

@[simp] theorem modRow_tables (w : World) (r : Nat) (f : Row → Row) :
    (w.modRow r f).tables = w.tables := rfl
@[simp] theorem modTable_rows (w : World) (t : Nat) (f : Table → Table) :
    (w.modTable t f).rows = w.rows := rfl
@[simp] theorem modRow_rows_length (w : World) (r : Nat) (f : Row → Row) :
    (w.modRow r f).rows.length = w.rows.length := by simp [modRow]
@[simp] theorem modTable_tables_length (w : World) (t : Nat) (f : Table → Table) :
    (w.modTable t f).tables.length = w.tables.length := by simp [modTable]
@[simp] theorem table_modRow (w : World) (r : Nat) (f : Row → Row) (t : Nat) :
    (w.modRow r f).table t = w.table t := rfl
@[simp] theorem row_modTable (w : World) (t : Nat) (f : Table → Table) (r : Nat) :
    (w.modTable t f).row r = w.row r := rfl

theorem row_modRow (w : World) (r : Nat) (f : Row → Row) (r' : Nat) :
    (w.modRow r f).row r' = if r = r' ∧ r' < w.rows.length then f (w.row r') else w.row r' :=
  getD_modify _ _ _ _ _

theorem table_modTable (w : World) (t : Nat) (f : Table → Table) (t' : Nat) :
    (w.modTable t f).table t' =
      if t = t' ∧ t' < w.tables.length then f (w.table t') else w.table t' :=
  getD_modify _ _ _ _ _

theorem row_modRow_self (w : World) (r : Nat) (f : Row → Row) (h : r < w.rows.length) :
    (w.modRow r f).row r = f (w.row r) := by simp [row_modRow, h]

theorem table_modTable_self (w : World) (t : Nat) (f : Table → Table) (h : t < w.tables.length) :
    (w.modTable t f).table t = f (w.table t) := by simp [table_modTable, h]

theorem row_modRow_ne (w : World) (r r' : Nat) (f : Row → Row) (h : r ≠ r') :
    (w.modRow r f).row r' = w.row r' := by simp [row_modRow, h]

theorem table_modTable_ne (w : World) (t t' : Nat) (f : Table → Table) (h : t ≠ t') :
    (w.modTable t f).table t' = w.table t' := by simp [table_modTable, h]

/-- a projection of a row that `f` preserves is preserved by `modRow` -/
theorem row_modRow_proj {β} (w : World) (r : Nat) (f : Row → Row) (g : Row → β)
    (h : ∀ x, g (f x) = g x) (r' : Nat) : g ((w.modRow r f).row r') = g (w.row r') := by
  rw [row_modRow]; split <;> simp [h]

theorem table_modTable_proj {β} (w : World) (t : Nat) (f : Table → Table) (g : Table → β)
    (h : ∀ x, g (f x) = g x) (t' : Nat) : g ((w.modTable t f).table t') = g (w.table t') := by
  rw [table_modTable]; split <;> simp [h]

theorem row_ec_lt (w : World) (r : Nat) (h : (w.row r).ec ≠ .none) : r < w.rows.length := by
  apply Classical.byContradiction
  intro hn
  apply h
  have : w.rows.length ≤ r := Nat.le_of_not_lt hn
  simp [row, List.getD_eq_getElem?_getD, List.getElem?_eq_none this]

/-! ### mass under store updates -/

theorem mass_events (w : World) (evs : List Event) (e : Nat) :
    mass { w with events := evs } e = mass w e := rfl

theorem mass_modTable (w : World) (t : Nat) (f : Table → Table) (e : Nat)
    (h : t < w.tables.length) :
    mass (w.modTable t f) e + (w.table t).errs.count e
      = mass w e + (f (w.table t)).errs.count e := by
  have := sum_map_modify w.tables t f (fun tb => tb.errs.count e) {} h
  simp only [mass, modTable, table] at this ⊢
  omega

theorem mass_modTable_same (w : World) (t : Nat) (f : Table → Table) (e : Nat)
    (h : ∀ x, (f x).errs = x.errs) : mass (w.modTable t f) e = mass w e := by
  simp only [mass, modTable]
  rw [map_modify_same _ _ _ _ (fun x => by rw [h x])]

theorem mass_modRow (w : World) (r : Nat) (f : Row → Row) (e : Nat) (h : r < w.rows.length) :
    mass (w.modRow r f) e + ownCount e (w.row r) = mass w e + ownCount e (f (w.row r)) := by
  have := sum_map_modify w.rows r f (ownCount e) {} h
  simp only [mass, modRow, row] at this ⊢
  omega

theorem mass_modRow_same (w : World) (r : Nat) (f : Row → Row) (e : Nat)
    (h : ∀ x, (f x).ec = x.ec) : mass (w.modRow r f) e = mass w e := by
  simp only [mass, modRow]
  rw [map_modify_same _ _ _ _ (fun x => by simp only [ownCount, h x])]

theorem count_snoc (es : List Nat) (e e' : Nat) :
    (es ++ [e]).count e' = es.count e' + if e' = e then 1 else 0 := by
  rw [List.count_append, List.count_singleton]
  by_cases h : e' = e
  · subst h; simp
  · have : ¬ e = e' := fun h' => h h'.symm
    simp [h, this]

/-- The central fact: an `AddError` through a live taker adds exactly one occurrence. -/
theorem mass_addErrTo (w : World) (tk : Taker) (e e' : Nat) (h : w.live tk) :
    mass (addErrTo w tk e) e' = mass w e' + if e' = e then 1 else 0 := by
  cases tk with
  | drop => exact absurd h (by simp [live])
  | table t =>
    have := mass_modTable w t (fun tb => { tb with errs := tb.errs ++ [e] }) e' h
    simp only [count_snoc] at this
    simp only [addErrTo]; omega
  | rowOwn r =>
    simp only [live] at h
    cases hec : (w.row r).ec with
    | none => simp [hec] at h
    | table t => simp [hec] at h
    | own es =>
      have hr : r < w.rows.length := row_ec_lt w r (by simp [hec])
      have key : ∀ F : Row → Row, (F (w.row r)).ec = .own (es ++ [e]) →
          mass (w.modRow r F) e' = mass w e' + if e' = e then 1 else 0 := by
        intro F hF
        have := mass_modRow w r F e' hr
        simp only [ownCount, hec, hF, count_snoc] at this
        omega
      simp only [addErrTo]
      apply key
      simp only [hec]
  | rowLazy r =>
    obtain ⟨hr, ht⟩ := h
    simp only [addErrTo]
    cases hec : (w.row r).ec with
    | none =>
      have := mass_modRow w r (fun rw => { rw with ec := .own [e] }) e' hr
      simp only [ownCount, hec] at this
      have h1 := count_snoc [] e e'
      simp only [List.nil_append, List.count_nil] at h1
      simp only; omega
    | own es =>
      have := mass_modRow w r (fun rw => { rw with ec := .own (es ++ [e]) }) e' hr
      simp only [ownCount, hec, count_snoc] at this
      simp only; omega
    | table t =>
      simp only [hec] at ht
      have := mass_modTable w t (fun tb => { tb with errs := tb.errs ++ [e] }) e' ht
      simp only [count_snoc] at this
      simp only; omega

/-! ### what every callback invocation preserves -/

/-- `Stable w w'`: `w'` has the same stores shape as `w`, the same row lists / header per table,
    the same rows sharing a table's container; and every error list (of a table, or owned by a
    row) has only been appended to. -/
structure Stable (w w' : World) : Prop where
  tlen : w'.tables.length = w.tables.length
  rlen : w'.rows.length = w.rows.length
  trows : ∀ t, (w'.table t).rows = (w.table t).rows
  thdr : ∀ t, (w'.table t).header = (w.table t).header
  terrs : ∀ t, ∃ l, (w'.table t).errs = (w.table t).errs ++ l
  ecT : ∀ r t, (w.row r).ec = .table t ↔ (w'.row r).ec = .table t
  ecO : ∀ r es, (w.row r).ec = .own es → ∃ l, (w'.row r).ec = .own (es ++ l)

theorem Stable.refl (w : World) : Stable w w :=
  ⟨rfl, rfl, fun _ => rfl, fun _ => rfl, fun _ => ⟨[], by simp⟩, fun _ _ => Iff.rfl,
   fun _ es h => ⟨[], by simp [h]⟩⟩

theorem Stable.trans {w₁ w₂ w₃ : World} (h₁ : Stable w₁ w₂) (h₂ : Stable w₂ w₃) : Stable w₁ w₃ where
  tlen := h₂.tlen.trans h₁.tlen
  rlen := h₂.rlen.trans h₁.rlen
  trows t := (h₂.trows t).trans (h₁.trows t)
  thdr t := (h₂.thdr t).trans (h₁.thdr t)
  terrs t := by
    obtain ⟨l₁, e₁⟩ := h₁.terrs t
    obtain ⟨l₂, e₂⟩ := h₂.terrs t
    exact ⟨l₁ ++ l₂, by rw [e₂, e₁, List.append_assoc]⟩
  ecT r t := (h₁.ecT r t).trans (h₂.ecT r t)
  ecO r es h := by
    obtain ⟨l₁, h'⟩ := h₁.ecO r es h
    obtain ⟨l₂, h''⟩ := h₂.ecO r _ h'
    exact ⟨l₁ ++ l₂, by rw [h'', List.append_assoc]⟩

theorem stable_events (w : World) (evs : List Event) : Stable w { w with events := evs } :=
  ⟨rfl, rfl, fun _ => rfl, fun _ => rfl, fun _ => ⟨[], by simp [table]⟩, fun _ _ => Iff.rfl,
   fun _ es h => ⟨[], by simpa [row] using h⟩⟩

theorem stable_copies (w : World) (cs : List Cell) : Stable w { w with copies := cs } :=
  ⟨rfl, rfl, fun _ => rfl, fun _ => rfl, fun _ => ⟨[], by simp [table]⟩, fun _ _ => Iff.rfl,
   fun _ es h => ⟨[], by simpa [row] using h⟩⟩

theorem stable_modTable (w : World) (t : Nat) (f : Table → Table)
    (h₁ : ∀ x, (f x).rows = x.rows) (h₂ : ∀ x, (f x).header = x.header)
    (h₃ : ∀ x, ∃ l, (f x).errs = x.errs ++ l) :
    Stable w (w.modTable t f) where
  tlen := by simp
  rlen := rfl
  trows t' := table_modTable_proj w t f (·.rows) h₁ t'
  thdr t' := table_modTable_proj w t f (·.header) h₂ t'
  terrs t' := by
    rw [table_modTable]; split
    · exact h₃ _
    · exact ⟨[], by simp⟩
  ecT _ _ := Iff.rfl
  ecO _ es h := ⟨[], by simpa using h⟩

theorem stable_modTable_same (w : World) (t : Nat) (f : Table → Table)
    (h₁ : ∀ x, (f x).rows = x.rows) (h₂ : ∀ x, (f x).header = x.header)
    (h₃ : ∀ x, (f x).errs = x.errs) : Stable w (w.modTable t f) :=
  stable_modTable w t f h₁ h₂ (fun x => ⟨[], by simp [h₃ x]⟩)

theorem stable_modRow (w : World) (r : Nat) (f : Row → Row)
    (hT : ∀ x t, x.ec = .table t ↔ (f x).ec = .table t)
    (hO : ∀ x es, x.ec = .own es → ∃ l, (f x).ec = .own (es ++ l)) :
    Stable w (w.modRow r f) where
  tlen := rfl
  rlen := by simp
  trows _ := rfl
  thdr _ := rfl
  terrs _ := ⟨[], by simp⟩
  ecT r' t := by
    rw [row_modRow]; split
    · exact hT _ _
    · exact Iff.rfl
  ecO r' es h := by
    rw [row_modRow]; split
    · exact hO _ _ h
    · exact ⟨[], by simpa using h⟩

theorem stable_modRow_same (w : World) (r : Nat) (f : Row → Row) (h : ∀ x, (f x).ec = x.ec) :
    Stable w (w.modRow r f) :=
  stable_modRow w r f (fun x t => by rw [h x]) (fun x es hx => ⟨[], by rw [h x]; simpa using hx⟩)

theorem live_of_stable {w w' : World} (h : Stable w w') (tk : Taker) (hl : w.live tk) :
    w'.live tk := by
  cases tk with
  | drop => exact hl
  | table t => simp only [live] at hl ⊢; rw [h.tlen]; exact hl
  | rowOwn r =>
    simp only [live] at hl ⊢
    cases hec : (w.row r).ec with
    | none => simp [hec] at hl
    | table t => simp [hec] at hl
    | own es =>
      obtain ⟨es', h'⟩ := h.ecO r es hec
      simp [h']
  | rowLazy r =>
    obtain ⟨hr, ht⟩ := hl
    refine ⟨by rw [h.rlen]; exact hr, ?_⟩
    cases hec' : (w'.row r).ec with
    | none => trivial
    | own es => trivial
    | table t =>
      have := (h.ecT r t).mpr hec'
      simp only [this] at ht
      simp only [h.tlen]; exact ht

/-! ### `setProp` -/

theorem setProp_stable (w : World) (tgt : Target) (k : Key) (v : Option Val) :
    Stable w (setProp w tgt k v) := by
  cases tgt with
  | table t => exact stable_modTable_same _ _ _ (fun _ => rfl) (fun _ => rfl) (fun _ => rfl)
  | column t n => exact stable_modTable_same _ _ _ (fun _ => rfl) (fun _ => rfl) (fun _ => rfl)
  | row r => exact stable_modRow_same _ _ _ (fun _ => rfl)
  | cell r c => exact stable_modRow_same _ _ _ (fun _ => rfl)
  | copy n => exact stable_copies _ _

theorem mass_setProp (w : World) (tgt : Target) (k : Key) (v : Option Val) (e : Nat) :
    mass (setProp w tgt k v) e = mass w e := by
  cases tgt with
  | table t => exact mass_modTable_same _ _ _ _ (fun _ => rfl)
  | column t n => exact mass_modTable_same _ _ _ _ (fun _ => rfl)
  | row r => exact mass_modRow_same _ _ _ _ (fun _ => rfl)
  | cell r c => exact mass_modRow_same _ _ _ _ (fun _ => rfl)
  | copy n => rfl

/-- `setProp` never touches a table's error list -/
theorem setProp_errs (w : World) (tgt : Target) (k : Key) (v : Option Val) (t : Nat) :
    ((setProp w tgt k v).table t).errs = (w.table t).errs := by
  cases tgt with
  | table t' => refine table_modTable_proj _ _ _ (·.errs) ?_ _; intro _; rfl
  | column t' n => refine table_modTable_proj _ _ _ (·.errs) ?_ _; intro _; rfl
  | row r => rfl
  | cell r c => rfl
  | copy n => rfl

/-- `setProp` never touches a row's container -/
theorem setProp_ec (w : World) (tgt : Target) (k : Key) (v : Option Val) (r : Nat) :
    ((setProp w tgt k v).row r).ec = (w.row r).ec := by
  cases tgt with
  | table t' => rfl
  | column t' n => rfl
  | row r' => refine row_modRow_proj _ _ _ (·.ec) ?_ _; intro _; rfl
  | cell r' c => refine row_modRow_proj _ _ _ (·.ec) ?_ _; intro _; rfl
  | copy n => rfl

/-! ### `addErrTo` -/

theorem stable_addTable (w : World) (t e : Nat) :
    Stable w (w.modTable t (fun tb => { tb with errs := tb.errs ++ [e] })) :=
  stable_modTable _ _ _ (fun _ => rfl) (fun _ => rfl) (fun _ => ⟨[e], rfl⟩)

theorem addErrTo_stable (w : World) (tk : Taker) (e : Nat) : Stable w (addErrTo w tk e) := by
  cases tk with
  | drop => exact Stable.refl w
  | table t => exact stable_addTable w t e
  | rowOwn r =>
    apply stable_modRow
    · intro x t; split <;> simp_all
    · intro x es hx; exact ⟨[e], by simp [hx]⟩
  | rowLazy r =>
    simp only [addErrTo]
    split
    · next h =>
      refine ⟨rfl, by simp, fun _ => rfl, fun _ => rfl, fun _ => ⟨[], by simp⟩, ?_, ?_⟩
      · intro r' t; rw [row_modRow]; split
        · next h' => simp [← h'.1, h]
        · exact Iff.rfl
      · intro r' es hx; rw [row_modRow]; split
        · next h' => rw [← h'.1, h] at hx; cases hx
        · exact ⟨[], by simpa using hx⟩
    · next es h =>
      refine ⟨rfl, by simp, fun _ => rfl, fun _ => rfl, fun _ => ⟨[], by simp⟩, ?_, ?_⟩
      · intro r' t; rw [row_modRow]; split
        · next h' => simp [← h'.1, h]
        · exact Iff.rfl
      · intro r' es' hx; rw [row_modRow]; split
        · next h' =>
          rw [← h'.1, h] at hx; cases hx
          exact ⟨[e], rfl⟩
        · exact ⟨[], by simpa using hx⟩
    · exact stable_addTable w _ e

/-! ### `invokeOne` / `invoke` -/

theorem invokeOne_stable (dw : Measure) (w : World) (cb : Cb) (tgt : Target) (tk : Taker) :
    Stable w (invokeOne dw w cb tgt tk) := by
  cases cb with
  | log id => exact stable_events _ _
  | setProp id k v => exact (stable_events _ _).trans (setProp_stable _ _ _ _)
  | fail id e => exact (stable_events _ _).trans (addErrTo_stable _ _ _)
  | dimSetter =>
    simp only [invokeOne]
    split
    · split
      · exact (setProp_stable _ _ _ _).trans (setProp_stable _ _ _ _)
      · exact Stable.refl w
    · exact addErrTo_stable _ _ _
  | widthSetter =>
    simp only [invokeOne]
    split
    · split
      · exact setProp_stable _ _ _ _
      · exact Stable.refl w
    · exact addErrTo_stable _ _ _

theorem invoke_stable (dw : Measure) (w : World) (cbs : List Cb) (tgt : Target) (tk : Taker) :
    Stable w (invoke dw w cbs tgt tk) := by
  induction cbs generalizing w with
  | nil => exact Stable.refl w
  | cons cb cbs ih =>
    exact (invokeOne_stable dw w cb tgt tk).trans (ih _)

theorem live_events (w : World) (evs : List Event) (tk : Taker) :
    live { w with events := evs } tk ↔ live w tk := by
  cases tk <;> exact Iff.rfl

theorem mass_invokeOne (dw : Measure) (w : World) (cb : Cb) (tgt : Target) (tk : Taker) (e : Nat)
    (h : w.live tk) :
    mass (invokeOne dw w cb tgt tk) e
      = mass w e + if raises tgt cb = some e then 1 else 0 := by
  cases cb with
  | log id => simp [invokeOne, raises, mass_events]
  | setProp id k v => simp [invokeOne, raises, mass_setProp, mass_events]
  | fail id e' =>
    simp only [invokeOne, raises]
    rw [mass_addErrTo _ _ _ _ ((live_events _ _ _).mpr h), mass_events]
    simp [eq_comm]
  | dimSetter =>
    cases tgt with
    | cell r c =>
      simp only [invokeOne, raises]
      split <;> simp [mass_setProp]
    | table t => simp only [invokeOne, raises]; rw [mass_addErrTo _ _ _ _ h]; simp [eq_comm]
    | column t n => simp only [invokeOne, raises]; rw [mass_addErrTo _ _ _ _ h]; simp [eq_comm]
    | row r => simp only [invokeOne, raises]; rw [mass_addErrTo _ _ _ _ h]; simp [eq_comm]
    | copy n => simp only [invokeOne, raises]; rw [mass_addErrTo _ _ _ _ h]; simp [eq_comm]
  | widthSetter =>
    cases tgt with
    | cell r c =>
      simp only [invokeOne, raises]
      split <;> simp [mass_setProp]
    | table t => simp only [invokeOne, raises]; rw [mass_addErrTo _ _ _ _ h]; simp [eq_comm]
    | column t n => simp only [invokeOne, raises]; rw [mass_addErrTo _ _ _ _ h]; simp [eq_comm]
    | row r => simp only [invokeOne, raises]; rw [mass_addErrTo _ _ _ _ h]; simp [eq_comm]
    | copy n => simp only [invokeOne, raises]; rw [mass_addErrTo _ _ _ _ h]; simp [eq_comm]

theorem mass_invoke (dw : Measure) (w : World) (cbs : List Cb) (tgt : Target) (tk : Taker) (e : Nat)
    (h : w.live tk) :
    mass (invoke dw w cbs tgt tk) e = mass w e + raiseCount tgt e cbs := by
  induction cbs generalizing w with
  | nil => simp [invoke, raiseCount]
  | cons cb cbs ih =>
    have h' := live_of_stable (invokeOne_stable dw w cb tgt tk) tk h
    have := ih _ h'
    simp only [invoke, List.foldl_cons] at this ⊢
    rw [this, mass_invokeOne dw w cb tgt tk e h]
    simp only [raiseCount, List.filter_cons]
    split <;> simp_all <;> omega

/-! ### log-only callbacks change nothing but the event log -/

theorem invoke_logOnly (dw : Measure) (w : World) (cbs : List Cb) (tgt : Target) (tk : Taker)
    (h : cbs.all isLog = true) : ∃ evs, invoke dw w cbs tgt tk = { w with events := evs } := by
  induction cbs generalizing w with
  | nil => exact ⟨w.events, rfl⟩
  | cons cb cbs ih =>
    simp only [List.all_cons, Bool.and_eq_true] at h
    cases cb with
    | log id =>
      obtain ⟨evs, he⟩ := ih { w with events := w.events ++ [⟨id, tgt⟩] } h.2
      exact ⟨evs, by simp only [invoke, List.foldl_cons, invokeOne] at he ⊢; rw [he]⟩
    | setProp id k v => simp [isLog] at h
    | fail id e => simp [isLog] at h
    | dimSetter => simp [isLog] at h
    | widthSetter => simp [isLog] at h

theorem all_modify {α} (l : List α) (i : Nat) (f : α → α) (p : α → Bool)
    (hf : ∀ x, p x = true → p (f x) = true) (h : l.all p = true) : (l.modify i f).all p = true := by
  induction l generalizing i with
  | nil => simp
  | cons a l ih =>
    simp only [List.all_cons, Bool.and_eq_true] at h
    cases i with
    | zero => simp [hf a h.1, h.2]
    | succ i => simp [h.1, ih i h.2]

theorem quietT_default : quietT {} = true := by decide

theorem quietT_table (w : World) (t : Nat) (h : w.tables.all quietT = true) :
    quietT (w.table t) = true := by
  simp only [table, List.getD_eq_getElem?_getD]
  cases ht : w.tables[t]? with
  | none => exact quietT_default
  | some tb =>
    simp only [Option.getD_some]
    exact List.all_eq_true.mp h tb (List.mem_of_getElem? ht)

theorem tableCellCbs_quiet (w : World) (t : Nat) (h : w.tables.all quietT = true) :
    ((w.table t).cellCbs.at .add).all isLog = true := by
  have := quietT_table w t h
  simp only [quietT, Bool.and_eq_true] at this
  exact this.1

theorem colCellCbs_quiet (w : World) (tc : Option (Nat × Nat)) (h : w.tables.all quietT = true) :
    (colCellCbs w tc .add).all isLog = true := by
  cases tc with
  | none => rfl
  | some p =>
    obtain ⟨t, n⟩ := p
    simp only [colCellCbs, column?]
    cases hc : (w.table t).columns[n]? with
    | none => rfl
    | some c =>
      have := quietT_table w t h
      simp only [quietT, Bool.and_eq_true] at this
      exact List.all_eq_true.mp this.2 c (List.mem_of_getElem? hc)

theorem addTimeCells_quiet (dw : Measure) (t r : Nat) (tkf : World → Taker) (n i : Nat) (w : World)
    (hq : w.tables.all quietT = true) :
    ∃ evs, addTimeCells dw t r tkf n i w = { w with events := evs } := by
  induction n generalizing i w with
  | zero => exact ⟨w.events, rfl⟩
  | succ n ih =>
    simp only [addTimeCells]
    obtain ⟨ev1, h1⟩ := invoke_logOnly dw w (colCellCbs w (columnOf w r i) .add) (.cell r i) (tkf w)
      (colCellCbs_quiet w _ hq)
    rw [h1]
    obtain ⟨ev2, h2⟩ := invoke_logOnly dw { w with events := ev1 }
      ((World.table { w with events := ev1 } t).cellCbs.at .add) (.cell r i)
      (tkf { w with events := ev1 }) (tableCellCbs_quiet w t hq)
    rw [h2]
    obtain ⟨ev3, h3⟩ := ih (i + 1) { w with events := ev2 } hq
    exact ⟨ev3, h3⟩

/-! ### `addRow` -/

/-- the part of `addRow` that runs before any callback -/
def addRowCore (w : World) (t r : Nat) : World :=
  let w := w.modTable t (fun tb => { tb with rows := tb.rows ++ [r] })
  let n := (w.table t).rows.length
  let w := w.modRow r (fun rw => { rw with inTable := some t, rowNum := n })
  let w := w.modTable t (fun tb => resizeColumnsAtLeast tb (w.rowCells r).length)
  let es := w.rowErrors r
  let w := w.modTable t (fun tb => { tb with errs := tb.errs ++ es })
  w.modRow r (fun rw => { rw with ec := .table t })

/-- the add-time callbacks of `addRow` -/
def addRowCbs (dw : Measure) (w : World) (t r : Nat) : World :=
  let w := invoke dw w ((w.row r).selfCbs.at .add) (.row r) (.table t)
  let w := invoke dw w ((w.table t).rowCbs.at .add) (.row r) (.table t)
  addTimeCells dw t r (fun w => rowECTaker w r) (w.rowCells r).length 0 w

theorem addRow_eq (dw : Measure) (w : World) (t r : Nat) :
    addRow dw w t r = addRowCbs dw (addRowCore w t r) t r := rfl

theorem resize_errs (tb : Table) (n : Nat) : (resizeColumnsAtLeast tb n).errs = tb.errs := by
  unfold resizeColumnsAtLeast; split <;> rfl
theorem resize_rows (tb : Table) (n : Nat) : (resizeColumnsAtLeast tb n).rows = tb.rows := by
  unfold resizeColumnsAtLeast; split <;> rfl
theorem resize_header (tb : Table) (n : Nat) : (resizeColumnsAtLeast tb n).header = tb.header := by
  unfold resizeColumnsAtLeast; split <;> rfl
theorem resize_rowCbs (tb : Table) (n : Nat) : (resizeColumnsAtLeast tb n).rowCbs = tb.rowCbs := by
  unfold resizeColumnsAtLeast; split <;> rfl
theorem resize_quiet (tb : Table) (n : Nat) (h : quietT tb = true) :
    quietT (resizeColumnsAtLeast tb n) = true := by
  unfold resizeColumnsAtLeast; split
  · exact h
  · simp only [quietT, Bool.and_eq_true, List.all_append] at h ⊢
    refine ⟨h.1, h.2, ?_⟩
    simp [List.all_replicate]

theorem rowErrors_of_ec (w w' : World) (r : Nat) (h : (w'.row r).ec = (w.row r).ec)
    (hu : w.unattached r) : rowErrors w' r = rowErrors w r := by
  unfold rowErrors; rw [h]
  rcases hu with hu | ⟨es, hu⟩ <;> simp [hu]

theorem addRowCore_tables_length (w : World) (t r : Nat) :
    (addRowCore w t r).tables.length = w.tables.length := by simp [addRowCore]

theorem addRowCore_rows_length (w : World) (t r : Nat) :
    (addRowCore w t r).rows.length = w.rows.length := by simp [addRowCore]

theorem addRowCore_ec (w : World) (t r : Nat) (hr : r < w.rows.length) :
    ((addRowCore w t r).row r).ec = .table t := by
  simp only [addRowCore]
  rw [row_modRow_self _ _ _ (by simpa using hr)]

theorem addRowCore_ec_ne (w : World) (t r r' : Nat) (h : r ≠ r') :
    ((addRowCore w t r).row r').ec = (w.row r').ec := by
  simp only [addRowCore]
  rw [row_modRow_ne _ _ _ _ h]
  simp only [row_modTable]
  rw [row_modRow_ne _ _ _ _ h]
  rfl

/-- the row's container just before it is absorbed is still what it was -/
theorem addRowCore_es (w : World) (t r : Nat) (hu : w.unattached r) :
    rowErrors ((((w.modTable t (fun tb => { tb with rows := tb.rows ++ [r] })).modRow r
      (fun rw => { rw with inTable := some t,
                           rowNum := ((w.modTable t (fun tb => { tb with rows := tb.rows ++ [r] })).table t).rows.length })).modTable t
      (fun tb => resizeColumnsAtLeast tb
        (((w.modTable t (fun tb => { tb with rows := tb.rows ++ [r] })).modRow r
          (fun rw => { rw with inTable := some t,
                               rowNum := ((w.modTable t (fun tb => { tb with rows := tb.rows ++ [r] })).table t).rows.length })).rowCells r).length))) r
      = rowErrors w r := by
  apply rowErrors_of_ec _ _ _ _ hu
  simp only [row_modTable]
  refine (row_modRow_proj _ _ _ (·.ec) ?_ _).trans rfl
  intro _; rfl

theorem addRowCore_errs (w : World) (t r : Nat) (ht : t < w.tables.length) (hu : w.unattached r) :
    ((addRowCore w t r).table t).errs = (w.table t).errs ++ rowErrors w r := by
  simp only [addRowCore, table_modRow]
  rw [addRowCore_es w t r hu]
  rw [table_modTable_self _ _ _ (by simpa using ht)]
  simp only
  congr 1
  refine (table_modTable_proj _ _ _ (·.errs) (fun x => resize_errs x _) _).trans ?_
  simp only [table_modRow]
  refine table_modTable_proj _ _ _ (·.errs) ?_ _
  intro _; rfl

theorem addRowCore_errs_ne (w : World) (t r t' : Nat) (h : t ≠ t') :
    ((addRowCore w t r).table t').errs = (w.table t').errs := by
  simp only [addRowCore, table_modRow]
  rw [table_modTable_ne _ _ _ _ h, table_modTable_ne _ _ _ _ h]
  simp only [table_modRow]
  rw [table_modTable_ne _ _ _ _ h]

theorem addRowCore_mass (w : World) (t r : Nat) (ht : t < w.tables.length) (hr : r < w.rows.length)
    (hu : w.unattached r) (e : Nat) : mass (addRowCore w t r) e = mass w e := by
  simp only [addRowCore]
  rw [addRowCore_es w t r hu]
  -- peel the last modRow
  have h5 := mass_modRow
    ((((w.modTable t (fun tb => { tb with rows := tb.rows ++ [r] })).modRow r
      (fun rw => { rw with inTable := some t,
                           rowNum := ((w.modTable t (fun tb => { tb with rows := tb.rows ++ [r] })).table t).rows.length })).modTable t
      (fun tb => resizeColumnsAtLeast tb
        (((w.modTable t (fun tb => { tb with rows := tb.rows ++ [r] })).modRow r
          (fun rw => { rw with inTable := some t,
                               rowNum := ((w.modTable t (fun tb => { tb with rows := tb.rows ++ [r] })).table t).rows.length })).rowCells r).length)).modTable t
        (fun tb => { tb with errs := tb.errs ++ rowErrors w r }))
    r (fun rw => { rw with ec := .table t }) e (by simpa using hr)
  have h4 := mass_modTable
    (((w.modTable t (fun tb => { tb with rows := tb.rows ++ [r] })).modRow r
      (fun rw => { rw with inTable := some t,
                           rowNum := ((w.modTable t (fun tb => { tb with rows := tb.rows ++ [r] })).table t).rows.length })).modTable t
      (fun tb => resizeColumnsAtLeast tb
        (((w.modTable t (fun tb => { tb with rows := tb.rows ++ [r] })).modRow r
          (fun rw => { rw with inTable := some t,
                               rowNum := ((w.modTable t (fun tb => { tb with rows := tb.rows ++ [r] })).table t).rows.length })).rowCells r).length))
    t (fun tb => { tb with errs := tb.errs ++ rowErrors w r }) e (by simpa using ht)
  have h3 := mass_modTable_same
    ((w.modTable t (fun tb => { tb with rows := tb.rows ++ [r] })).modRow r
      (fun rw => { rw with inTable := some t,
                           rowNum := ((w.modTable t (fun tb => { tb with rows := tb.rows ++ [r] })).table t).rows.length }))
    t (fun tb => resizeColumnsAtLeast tb
        (((w.modTable t (fun tb => { tb with rows := tb.rows ++ [r] })).modRow r
          (fun rw => { rw with inTable := some t,
                               rowNum := ((w.modTable t (fun tb => { tb with rows := tb.rows ++ [r] })).table t).rows.length })).rowCells r).length)
    e (fun x => resize_errs x _)
  have h2 := mass_modRow_same (w.modTable t (fun tb => { tb with rows := tb.rows ++ [r] })) r
      (fun rw => { rw with inTable := some t,
                           rowNum := ((w.modTable t (fun tb => { tb with rows := tb.rows ++ [r] })).table t).rows.length })
      e (fun _ => rfl)
  have h1 := mass_modTable_same w t (fun tb => { tb with rows := tb.rows ++ [r] }) e (fun _ => rfl)
  -- the row's own count before the redirect
  have hown : ownCount e (World.row
      ((((w.modTable t (fun tb => { tb with rows := tb.rows ++ [r] })).modRow r
      (fun rw => { rw with inTable := some t,
                           rowNum := ((w.modTable t (fun tb => { tb with rows := tb.rows ++ [r] })).table t).rows.length })).modTable t
      (fun tb => resizeColumnsAtLeast tb
        (((w.modTable t (fun tb => { tb with rows := tb.rows ++ [r] })).modRow r
          (fun rw => { rw with inTable := some t,
                               rowNum := ((w.modTable t (fun tb => { tb with rows := tb.rows ++ [r] })).table t).rows.length })).rowCells r).length)).modTable t
        (fun tb => { tb with errs := tb.errs ++ rowErrors w r })) r) = (rowErrors w r).count e := by
    simp only [row_modTable]
    have : (World.row ((w.modTable t (fun tb => { tb with rows := tb.rows ++ [r] })).modRow r
      (fun rw => { rw with inTable := some t,
                           rowNum := ((w.modTable t (fun tb => { tb with rows := tb.rows ++ [r] })).table t).rows.length })) r).ec
        = (w.row r).ec := by
      refine (row_modRow_proj _ _ _ (·.ec) ?_ _).trans rfl
      intro _; rfl
    simp only [ownCount, this, rowErrors]
    rcases hu with hu | ⟨es, hu⟩ <;> simp [hu]
  rw [hown] at h5
  simp only [ownCount, List.count_append] at h5 h4
  omega

theorem quiet_modTable (w : World) (t : Nat) (f : Table → Table)
    (hf : ∀ x, quietT x = true → quietT (f x) = true) (h : w.tables.all quietT = true) :
    (w.modTable t f).tables.all quietT = true :=
  all_modify _ _ _ _ hf h

theorem addRowCore_quiet (w : World) (t r : Nat) (h : w.tables.all quietT = true) :
    (addRowCore w t r).tables.all quietT = true := by
  simp only [addRowCore, modRow_tables]
  refine quiet_modTable _ _ _ ?_ ?_
  · intro x hx; exact hx
  refine quiet_modTable _ _ _ (fun x hx => resize_quiet x _ hx) ?_
  simp only [modRow_tables]
  refine quiet_modTable _ _ _ ?_ h
  intro x hx; exact hx

theorem addRowCore_selfCbs (w : World) (t r : Nat) :
    ((addRowCore w t r).row r).selfCbs = (w.row r).selfCbs := by
  simp only [addRowCore]
  refine (row_modRow_proj _ _ _ (·.selfCbs) ?_ _).trans ?_
  · intro _; rfl
  simp only [row_modTable]
  refine (row_modRow_proj _ _ _ (·.selfCbs) ?_ _).trans rfl
  intro _; rfl

theorem addRowCore_rowCbs (w : World) (t r : Nat) :
    ((addRowCore w t r).table t).rowCbs = (w.table t).rowCbs := by
  simp only [addRowCore, table_modRow]
  refine (table_modTable_proj _ _ _ (·.rowCbs) ?_ _).trans ?_
  · intro _; rfl
  refine (table_modTable_proj _ _ _ (·.rowCbs) (fun x => resize_rowCbs x _) _).trans ?_
  simp only [table_modRow]
  refine table_modTable_proj _ _ _ (·.rowCbs) ?_ _
  intro _; rfl

theorem addRowCbs_quiet (dw : Measure) (w : World) (t r : Nat)
    (h₁ : ((w.row r).selfCbs.add).all isLog = true)
    (h₂ : ((w.table t).rowCbs.add).all isLog = true)
    (h₃ : w.tables.all quietT = true) :
    ∃ evs, addRowCbs dw w t r = { w with events := evs } := by
  simp only [addRowCbs]
  obtain ⟨ev1, e1⟩ := invoke_logOnly dw w ((w.row r).selfCbs.at .add) (.row r) (.table t) h₁
  rw [e1]
  obtain ⟨ev2, e2⟩ := invoke_logOnly dw { w with events := ev1 }
    ((World.table { w with events := ev1 } t).rowCbs.at .add) (.row r) (.table t) h₂
  rw [e2]
  obtain ⟨ev3, e3⟩ := addTimeCells_quiet dw t r (fun w => rowECTaker w r)
    (World.rowCells { w with events := ev2 } r).length 0 { w with events := ev2 } h₃
  exact ⟨ev3, e3⟩

theorem addRow_quiet (dw : Measure) (w : World) (t r : Nat) (h : addQuiet w t r = true) :
    ∃ evs, addRow dw w t r = { addRowCore w t r with events := evs } := by
  simp only [addQuiet, Bool.and_eq_true] at h
  rw [addRow_eq]
  apply addRowCbs_quiet
  · rw [addRowCore_selfCbs]; exact h.1.1
  · rw [addRowCore_rowCbs]; exact h.1.2
  · exact addRowCore_quiet w t r h.2

/-! ### the monitored render traversal -/

theorem invokeC_fst (dw : Measure) (c : Chk) (cbs : World → List Cb) (tgt : Target)
    (tk : World → Taker) : (invokeC dw c cbs tgt tk).1 = invoke dw c.1 (cbs c.1) tgt (tk c.1) := rfl

/-- `renderCells`, one cell: the model's eight calls are the fold over `cellCalls` -/
theorem renderCells_succ (dw : Measure) (t r n i : Nat) (w : World) :
    renderCells dw t r (n + 1) i w = renderCells dw t r n (i + 1)
      ((cellCalls t r i (columnOf w r i)).foldl
        (fun w d => invoke dw w (d.1 w) (.cell r i) (d.2 w)) w) := by
  rw [renderCells]; simp only [cellCalls, List.foldl_cons, List.foldl_nil]

theorem foldC_fst (dw : Measure) (tgt : Target)
    (calls : List ((World → List Cb) × (World → Taker))) (c : Chk) :
    (calls.foldl (fun c d => invokeC dw c d.1 tgt d.2) c).1
      = calls.foldl (fun w d => invoke dw w (d.1 w) tgt (d.2 w)) c.1 := by
  induction calls generalizing c with
  | nil => rfl
  | cons d ds ih => simp only [List.foldl_cons, ih, invokeC_fst]

theorem renderCellsC_fst (dw : Measure) (t r n i : Nat) (c : Chk) :
    (renderCellsC dw t r n i c).1 = renderCells dw t r n i c.1 := by
  induction n generalizing i c with
  | zero => rfl
  | succ n ih =>
    rw [renderCellsC, renderCells_succ, ih, renderCellC, foldC_fst]

theorem renderRowC_fst (dw : Measure) (t : Nat) (c : Chk) (r : Nat) :
    (renderRowC dw t c r).1 = renderRow dw t c.1 r := by
  simp only [renderRowC, renderRow, invokeC_fst, renderCellsC_fst]

theorem renderColumnsC_fst (dw : Measure) (t : Nat) (tm : Time) (n i : Nat) (c : Chk) :
    (renderColumnsC dw t tm n i c).1 = renderColumns dw t tm n i c.1 := by
  induction n generalizing i c with
  | zero => rfl
  | succ n ih =>
    rw [renderColumnsC, renderColumns]
    exact ih _ _

theorem foldl_renderRowC_fst (dw : Measure) (t : Nat) (rs : List Nat) (c : Chk) :
    (rs.foldl (renderRowC dw t) c).1 = rs.foldl (renderRow dw t) c.1 := by
  induction rs generalizing c with
  | nil => rfl
  | cons r rs ih => simp only [List.foldl_cons, ih, renderRowC_fst]

/-- the header step of `invokeRenderCallbacks` -/
def renderHeader (dw : Measure) (t : Nat) (w : World) : World :=
  match (w.table t).header with
  | some hr => renderRow dw t w hr
  | none => w

theorem invokeRenderCallbacks_eq (dw : Measure) (w : World) (t : Nat) :
    invokeRenderCallbacks dw w t =
      (let w := invoke dw w ((w.table t).selfCbs.at .pre) (.table t) (.table t)
       let ncol := (w.table t).columns.length
       let w := renderColumns dw t .pre ncol 0 w
       let w := renderHeader dw t w
       let w := (w.table t).rows.foldl (renderRow dw t) w
       let w := renderColumns dw t .post ncol 0 w
       invoke dw w ((w.table t).selfCbs.at .post) (.table t) (.table t)) := rfl

theorem renderHeaderC_fst (dw : Measure) (t : Nat) (c : Chk) :
    (renderHeaderC dw t c).1 = renderHeader dw t c.1 := by
  cases h : (c.1.table t).header <;> simp [renderHeaderC, renderHeader, h, renderRowC_fst]

theorem invokeRenderCallbacksC_fst (dw : Measure) (c : Chk) (t : Nat) :
    (invokeRenderCallbacksC dw c t).1 = invokeRenderCallbacks dw c.1 t := by
  rw [invokeRenderCallbacks_eq]
  simp only [invokeRenderCallbacksC, invokeC_fst, renderColumnsC_fst,
    foldl_renderRowC_fst, renderHeaderC_fst]

/-! ### `Stable` through the render traversal -/

theorem fold_invoke_stable (dw : Measure) (tgt : Target)
    (calls : List ((World → List Cb) × (World → Taker))) (w : World) :
    Stable w (calls.foldl (fun w d => invoke dw w (d.1 w) tgt (d.2 w)) w) := by
  induction calls generalizing w with
  | nil => exact Stable.refl w
  | cons d ds ih => exact (invoke_stable dw w _ tgt _).trans (ih _)

theorem renderCells_stable (dw : Measure) (t r n i : Nat) (w : World) :
    Stable w (renderCells dw t r n i w) := by
  induction n generalizing i w with
  | zero => exact Stable.refl w
  | succ n ih =>
    rw [renderCells_succ]
    exact (fold_invoke_stable dw _ _ w).trans (ih _ _)

theorem renderRow_stable (dw : Measure) (t : Nat) (w : World) (r : Nat) :
    Stable w (renderRow dw t w r) := by
  unfold renderRow
  exact ((invoke_stable dw w _ _ _).trans (renderCells_stable dw t r _ _ _)).trans
    (invoke_stable dw _ _ _ _)

theorem renderColumns_stable (dw : Measure) (t : Nat) (tm : Time) (n i : Nat) (w : World) :
    Stable w (renderColumns dw t tm n i w) := by
  induction n generalizing i w with
  | zero => exact Stable.refl w
  | succ n ih =>
    rw [renderColumns]
    exact (invoke_stable dw w _ _ _).trans (ih _ _)

theorem foldl_renderRow_stable (dw : Measure) (t : Nat) (rs : List Nat) (w : World) :
    Stable w (rs.foldl (renderRow dw t) w) := by
  induction rs generalizing w with
  | nil => exact Stable.refl w
  | cons r rs ih => exact (renderRow_stable dw t w r).trans (ih _)

theorem renderHeader_stable (dw : Measure) (t : Nat) (w : World) :
    Stable w (renderHeader dw t w) := by
  unfold renderHeader; split
  · exact renderRow_stable dw t w _
  · exact Stable.refl w

theorem invokeRenderCallbacks_stable (dw : Measure) (w : World) (t : Nat) :
    Stable w (invokeRenderCallbacks dw w t) := by
  rw [invokeRenderCallbacks_eq]
  exact (((((invoke_stable dw w _ _ _).trans (renderColumns_stable dw t _ _ _ _)).trans
    (renderHeader_stable dw t _)).trans (foldl_renderRow_stable dw t _ _)).trans
    (renderColumns_stable dw t _ _ _ _)).trans (invoke_stable dw _ _ _ _)

/-! ### the monitor stays true when all rows are attached -/

theorem attachedAll_stable {w w' : World} (h : Stable w w') (t : Nat) (ha : attachedAll w t) :
    attachedAll w' t := by
  obtain ⟨ht, hr, hh⟩ := ha
  refine ⟨by rw [h.tlen]; exact ht, ?_, ?_⟩
  · intro r hmem; rw [h.trows] at hmem; exact (h.ecT r t).mp (hr r hmem)
  · intro r hmem; rw [h.thdr] at hmem; exact (h.ecT r t).mp (hh r hmem)

/-- monitor true, table valid, row `r` shares the table's container -/
def OkR (t r : Nat) (c : Chk) : Prop :=
  c.2 ∧ t < c.1.tables.length ∧ (c.1.row r).ec = .table t

theorem OkR_of_stable {t r : Nat} {c c' : Chk} (h : Stable c.1 c'.1) (h2 : c'.2)
    (hk : OkR t r c) : OkR t r c' :=
  ⟨h2, by rw [h.tlen]; exact hk.2.1, (h.ecT r t).mp hk.2.2⟩

theorem invokeC_okR (dw : Measure) (t r : Nat) (c : Chk) (cbs : World → List Cb) (tgt : Target)
    (tk : World → Taker) (hk : OkR t r c)
    (htk : tk c.1 = .table t ∨ tk c.1 = rowECTaker c.1 r) :
    OkR t r (invokeC dw c cbs tgt tk) := by
  have hl : live c.1 (tk c.1) := by
    rcases htk with h | h
    · rw [h]; exact hk.2.1
    · rw [h]; simp only [rowECTaker, hk.2.2]; exact hk.2.1
  exact OkR_of_stable (invoke_stable dw c.1 _ tgt _) ⟨hk.1, hl⟩ hk

theorem foldC_okR (dw : Measure) (t r : Nat) (tgt : Target)
    (calls : List ((World → List Cb) × (World → Taker))) (c : Chk)
    (hcalls : ∀ d ∈ calls, ∀ w, d.2 w = .table t ∨ d.2 w = rowECTaker w r)
    (hk : OkR t r c) : OkR t r (calls.foldl (fun c d => invokeC dw c d.1 tgt d.2) c) := by
  induction calls generalizing c with
  | nil => exact hk
  | cons d ds ih =>
    simp only [List.foldl_cons]
    apply ih
    · intro d' hd'; exact hcalls d' (List.mem_cons_of_mem _ hd')
    · exact invokeC_okR dw t r c d.1 tgt d.2 hk (hcalls d (List.mem_cons_self ..) c.1)

theorem cellCalls_takers (t r i : Nat) (col : Option (Nat × Nat)) :
    ∀ d ∈ cellCalls t r i col, ∀ w, d.2 w = .table t ∨ d.2 w = rowECTaker w r := by
  intro d hd w
  simp only [cellCalls, List.mem_cons, List.not_mem_nil, or_false] at hd
  rcases hd with h | h | h | h | h | h | h | h <;> subst h <;> simp

theorem renderCellsC_okR (dw : Measure) (t r n i : Nat) (c : Chk) (hk : OkR t r c) :
    OkR t r (renderCellsC dw t r n i c) := by
  induction n generalizing i c with
  | zero => exact hk
  | succ n ih =>
    rw [renderCellsC]
    exact ih _ _ (foldC_okR dw t r _ _ c (cellCalls_takers t r i _) hk)

theorem renderRowC_okR (dw : Measure) (t r : Nat) (c : Chk) (hk : OkR t r c) :
    OkR t r (renderRowC dw t c r) := by
  unfold renderRowC
  apply invokeC_okR _ _ _ _ _ _ _ _ (Or.inl rfl)
  apply renderCellsC_okR
  exact invokeC_okR _ _ _ _ _ _ _ hk (Or.inl rfl)

/-- monitor true and all rows of `t` attached -/
def Ok (t : Nat) (c : Chk) : Prop := c.2 ∧ attachedAll c.1 t

theorem Ok_of_stable {t : Nat} {c c' : Chk} (h : Stable c.1 c'.1) (h2 : c'.2) (hk : Ok t c) :
    Ok t c' := ⟨h2, attachedAll_stable h t hk.2⟩

theorem invokeC_ok (dw : Measure) (t : Nat) (c : Chk) (cbs : World → List Cb) (tgt : Target)
    (hk : Ok t c) : Ok t (invokeC dw c cbs tgt (fun _ => .table t)) :=
  Ok_of_stable (invoke_stable dw c.1 _ tgt _) ⟨hk.1, hk.2.1⟩ hk

theorem renderRowC_stable (dw : Measure) (t : Nat) (c : Chk) (r : Nat) :
    Stable c.1 (renderRowC dw t c r).1 := by
  rw [renderRowC_fst]; exact renderRow_stable dw t c.1 r

theorem renderRowC_ok (dw : Measure) (t r : Nat) (c : Chk) (hk : Ok t c)
    (hr : (c.1.row r).ec = .table t) : Ok t (renderRowC dw t c r) :=
  Ok_of_stable (renderRowC_stable dw t c r)
    (renderRowC_okR dw t r c ⟨hk.1, hk.2.1, hr⟩).1 hk

theorem renderColumnsC_ok (dw : Measure) (t : Nat) (tm : Time) (n i : Nat) (c : Chk)
    (hk : Ok t c) : Ok t (renderColumnsC dw t tm n i c) := by
  induction n generalizing i c with
  | zero => exact hk
  | succ n ih =>
    rw [renderColumnsC]
    exact ih _ _ (invokeC_ok dw t c _ _ hk)

theorem foldl_renderRowC_ok (dw : Measure) (t : Nat) (rs : List Nat) (c : Chk) (hk : Ok t c)
    (hrs : ∀ r ∈ rs, (c.1.row r).ec = .table t) : Ok t (rs.foldl (renderRowC dw t) c) := by
  induction rs generalizing c with
  | nil => exact hk
  | cons r rs ih =>
    simp only [List.foldl_cons]
    apply ih
    · exact renderRowC_ok dw t r c hk (hrs r (List.mem_cons_self ..))
    · intro r' hr'
      exact ((renderRowC_stable dw t c r).ecT r' t).mp (hrs r' (List.mem_cons_of_mem _ hr'))

theorem renderHeaderC_ok (dw : Measure) (t : Nat) (c : Chk) (hk : Ok t c) :
    Ok t (renderHeaderC dw t c) := by
  unfold renderHeaderC
  split
  · next hr h => exact renderRowC_ok dw t hr c hk (hk.2.2.2 hr h)
  · exact hk

theorem invokeRenderCallbacksC_ok (dw : Measure) (t : Nat) (c : Chk) (hk : Ok t c) :
    Ok t (invokeRenderCallbacksC dw c t) := by
  unfold invokeRenderCallbacksC
  apply invokeC_ok
  apply renderColumnsC_ok
  have h3 : Ok t (renderHeaderC dw t (renderColumnsC dw t .pre
      ((invokeC dw c (fun w => (w.table t).selfCbs.at .pre) (.table t) (fun _ => .table t)).1.table t).columns.length 0
      (invokeC dw c (fun w => (w.table t).selfCbs.at .pre) (.table t) (fun _ => .table t)))) :=
    renderHeaderC_ok dw t _ (renderColumnsC_ok dw t _ _ _ _ (invokeC_ok dw t c _ _ hk))
  exact foldl_renderRowC_ok dw t _ _ h3 h3.2.2.1

/-! ### `Stable` through the building operations -/

theorem stable_resize (w : World) (t n : Nat) :
    Stable w (w.modTable t (fun tb => resizeColumnsAtLeast tb n)) :=
  stable_modTable_same _ _ _ (fun x => resize_rows x n) (fun x => resize_header x n)
    (fun x => resize_errs x n)

theorem stable_resize_opt (w : World) (o : Option Nat) (n : Nat) :
    Stable w (match o with
      | some t => w.modTable t (fun tb => resizeColumnsAtLeast tb n)
      | none => w) := by
  cases o with
  | none => exact Stable.refl w
  | some t => exact stable_resize w t n

theorem rowAddCell_stable (dw : Measure) (w : World) (r : Nat) (ce : Cell) :
    Stable w (rowAddCell dw w r ce) := by
  unfold rowAddCell
  split
  · exact addErrTo_stable _ _ _
  · refine Stable.trans ?_ (invoke_stable dw _ _ _ _)
    refine Stable.trans ?_ (stable_resize_opt _ _ _)
    refine stable_modRow_same _ _ _ ?_
    intro _; rfl

theorem rowAddMany_stable (dw : Measure) (r : Nat) (is : List Nat) (w : World) :
    Stable w (rowAddMany dw r is w) := by
  induction is generalizing w with
  | nil => exact Stable.refl w
  | cons i is ih =>
    rw [rowAddMany]
    exact (rowAddCell_stable dw w r _).trans (ih _)

theorem addTimeCells_stable (dw : Measure) (t r : Nat) (tkf : World → Taker) (n i : Nat)
    (w : World) : Stable w (addTimeCells dw t r tkf n i w) := by
  induction n generalizing i w with
  | zero => exact Stable.refl w
  | succ n ih =>
    rw [addTimeCells]
    exact ((invoke_stable dw w _ _ _).trans (invoke_stable dw _ _ _ _)).trans (ih _ _)

theorem addRowCbs_stable (dw : Measure) (w : World) (t r : Nat) :
    Stable w (addRowCbs dw w t r) := by
  unfold addRowCbs
  exact ((invoke_stable dw w _ _ _).trans (invoke_stable dw _ _ _ _)).trans
    (addTimeCells_stable dw t r _ _ _ _)

/-! ### no loss through the add-time callbacks of `addRow` (any callbacks) -/

/-- table valid, row `r` shares its container, and the mass of `e` is at least `m` -/
def GeR (t r e m : Nat) (w : World) : Prop :=
  t < w.tables.length ∧ (w.row r).ec = .table t ∧ m ≤ mass w e

theorem invoke_geR (dw : Measure) (t r e m : Nat) (w : World) (cbs : List Cb) (tgt : Target)
    (tk : Taker) (hk : GeR t r e m w) (htk : tk = .table t ∨ tk = rowECTaker w r) :
    GeR t r e m (invoke dw w cbs tgt tk) := by
  have hl : live w tk := by
    rcases htk with h | h
    · rw [h]; exact hk.1
    · rw [h]; simp only [rowECTaker, hk.2.1]; exact hk.1
  have hs := invoke_stable dw w cbs tgt tk
  refine ⟨by rw [hs.tlen]; exact hk.1, (hs.ecT r t).mp hk.2.1, ?_⟩
  rw [mass_invoke dw w cbs tgt tk e hl]
  exact Nat.le_trans hk.2.2 (Nat.le_add_right _ _)

theorem addTimeCells_geR (dw : Measure) (t r e m n i : Nat) (w : World) (hk : GeR t r e m w) :
    GeR t r e m (addTimeCells dw t r (fun w => rowECTaker w r) n i w) := by
  induction n generalizing i w with
  | zero => exact hk
  | succ n ih =>
    rw [addTimeCells]
    apply ih
    apply invoke_geR _ _ _ _ _ _ _ _ _ _ (Or.inr rfl)
    exact invoke_geR _ _ _ _ _ _ _ _ _ hk (Or.inr rfl)

theorem addRowCbs_geR (dw : Measure) (t r e m : Nat) (w : World) (hk : GeR t r e m w) :
    GeR t r e m (addRowCbs dw w t r) := by
  unfold addRowCbs
  apply addTimeCells_geR
  apply invoke_geR _ _ _ _ _ _ _ _ _ _ (Or.inl rfl)
  exact invoke_geR _ _ _ _ _ _ _ _ _ hk (Or.inl rfl)

theorem getD_append_length {α} (l : List α) (a d : α) : (l ++ [a]).getD l.length d = a := by
  simp [List.getD_eq_getElem?_getD]

theorem getD_append_lt {α} (l : List α) (a d : α) (i : Nat) (h : i < l.length) :
    (l ++ [a]).getD i d = l.getD i d := by
  simp [List.getD_eq_getElem?_getD, List.getElem?_append_left h]

/-! ### `attachedAll` is an invariant of the building operations -/

theorem attachedAll_of {w w' : World} {t' : Nat}
    (hlen : w.tables.length ≤ w'.tables.length)
    (hec : ∀ r', (w.row r').ec = .table t' → (w'.row r').ec = .table t')
    (hrows : ∀ r' ∈ (w'.table t').rows, r' ∈ (w.table t').rows ∨ (w'.row r').ec = .table t')
    (hhdr : ∀ r' ∈ (w'.table t').header, r' ∈ (w.table t').header ∨ (w'.row r').ec = .table t')
    (h : attachedAll w t') : attachedAll w' t' := by
  obtain ⟨ht, hr, hh⟩ := h
  refine ⟨Nat.lt_of_lt_of_le ht hlen, ?_, ?_⟩
  · intro r' hm
    rcases hrows r' hm with h' | h'
    · exact hec r' (hr r' h')
    · exact h'
  · intro r' hm
    rcases hhdr r' hm with h' | h'
    · exact hec r' (hh r' h')
    · exact h'

theorem addRowCore_rows (w : World) (t r : Nat) (ht : t < w.tables.length) :
    ((addRowCore w t r).table t).rows = (w.table t).rows ++ [r] := by
  simp only [addRowCore, table_modRow]
  refine (table_modTable_proj _ _ _ (·.rows) ?_ _).trans ?_
  · intro _; rfl
  refine (table_modTable_proj _ _ _ (·.rows) (fun x => resize_rows x _) _).trans ?_
  simp only [table_modRow]
  rw [table_modTable_self _ _ _ ht]

theorem addRowCore_rows_ne (w : World) (t r t' : Nat) (h : t ≠ t') :
    ((addRowCore w t r).table t').rows = (w.table t').rows := by
  simp only [addRowCore, table_modRow]
  rw [table_modTable_ne _ _ _ _ h, table_modTable_ne _ _ _ _ h]
  simp only [table_modRow]
  rw [table_modTable_ne _ _ _ _ h]

theorem addRowCore_header (w : World) (t r t' : Nat) :
    ((addRowCore w t r).table t').header = (w.table t').header := by
  simp only [addRowCore, table_modRow]
  refine (table_modTable_proj _ _ _ (·.header) ?_ _).trans ?_
  · intro _; rfl
  refine (table_modTable_proj _ _ _ (·.header) (fun x => resize_header x _) _).trans ?_
  simp only [table_modRow]
  refine table_modTable_proj _ _ _ (·.header) ?_ _
  intro _; rfl

theorem attachedAll_addRow (dw : Measure) (w : World) (t r t' : Nat) (ht : t < w.tables.length)
    (hr : r < w.rows.length) (hu : unattached w r) (h : attachedAll w t') :
    attachedAll (addRow dw w t r) t' := by
  rw [addRow_eq]
  apply attachedAll_stable (addRowCbs_stable dw _ t r)
  have hne : ∀ r', (w.row r').ec = .table t' → r ≠ r' := by
    intro r' h' heq; subst heq
    rcases hu with hu | ⟨es, hu⟩ <;> simp [hu] at h'
  refine attachedAll_of (w := w) ?_ ?_ ?_ ?_ h
  · rw [addRowCore_tables_length]; exact Nat.le_refl _
  · intro r' h'; rw [addRowCore_ec_ne w t r r' (hne r' h')]; exact h'
  · intro r' hm
    by_cases htt : t = t'
    · subst htt
      rw [addRowCore_rows w t r ht] at hm
      rcases List.mem_append.mp hm with hm | hm
      · exact Or.inl hm
      · simp only [List.mem_singleton] at hm
        subst hm
        exact Or.inr (addRowCore_ec w t r' hr)
    · rw [addRowCore_rows_ne w t r t' htt] at hm; exact Or.inl hm
  · intro r' hm
    rw [addRowCore_header] at hm; exact Or.inl hm

theorem row_newRow_lt (w : World) (rw : Row) (r' : Nat) (h : r' < w.rows.length) :
    (w.newRow rw).1.row r' = w.row r' := getD_append_lt _ _ _ _ h

theorem row_newRow_self (w : World) (rw : Row) : (w.newRow rw).1.row w.rows.length = rw :=
  getD_append_length _ _ _

theorem attachedAll_newRow (w : World) (rw : Row) (t' : Nat) (h : attachedAll w t') :
    attachedAll (w.newRow rw).1 t' := by
  refine attachedAll_of (w := w) (Nat.le_refl _) ?_ (fun _ hm => Or.inl hm) (fun _ hm => Or.inl hm) h
  intro r' h'
  rw [row_newRow_lt w rw r' (row_ec_lt w r' (by simp [h']))]; exact h'

theorem attachedAll_newTable (w : World) (t' : Nat) (h : attachedAll w t') :
    attachedAll w.newTable.1 t' ∧ attachedAll w.newTable.1 w.tables.length := by
  have hfresh : w.newTable.1.table w.tables.length = {} := getD_append_length _ _ _
  refine ⟨?_, ?_, ?_, ?_⟩
  · have hsame : w.newTable.1.table t' = w.table t' := getD_append_lt _ _ _ _ h.1
    refine attachedAll_of (w := w) (by simp [newTable]) (fun _ h' => h') ?_ ?_ h
    · intro r' hm; rw [hsame] at hm; exact Or.inl hm
    · intro r' hm; rw [hsame] at hm; exact Or.inl hm
  · simp [newTable]
  · intro r' hm; rw [hfresh] at hm; simp at hm
  · intro r' hm; rw [hfresh] at hm; simp at hm

theorem attachedAll_addSeparator (w : World) (t t' : Nat) (ht : t < w.tables.length)
    (h : attachedAll w t') : attachedAll (addSeparator w t) t' := by
  have hlt : ∀ r', (w.row r').ec = .table t' → r' < w.rows.length :=
    fun r' h' => row_ec_lt w r' (by simp [h'])
  have hnew : ((addSeparator w t).row w.rows.length).ec = .table t := by
    simp only [addSeparator, newRow]
    rw [row_modRow_self _ _ _ (by simp)]
  refine attachedAll_of (w := w) ?_ ?_ ?_ ?_ h
  · simp [addSeparator, newRow]
  · intro r' h'
    have := hlt r' h'
    simp only [addSeparator, newRow]
    rw [row_modRow_ne _ _ _ _ (Nat.ne_of_gt this), row_modTable]
    exact (congrArg Row.ec (getD_append_lt w.rows _ _ r' this)).trans h'
  · intro r' hm
    simp only [addSeparator, newRow, table_modRow] at hm
    by_cases htt : t = t'
    · subst htt
      rw [table_modTable_self _ _ _ (by exact ht)] at hm
      rcases List.mem_append.mp hm with hm | hm
      · exact Or.inl hm
      · simp only [List.mem_singleton] at hm
        subst hm
        exact Or.inr hnew
    · rw [table_modTable_ne _ _ _ _ htt] at hm; exact Or.inl hm
  · intro r' hm
    simp only [addSeparator, newRow, table_modRow] at hm
    left
    have : ∀ (W : World) , ((W.modTable t fun tb => { tb with rows := tb.rows ++ [w.rows.length] }).table t').header
        = (W.table t').header := by
      intro W; refine table_modTable_proj _ _ _ (·.header) ?_ _; intro _; rfl
    rw [this] at hm; exact hm

theorem attachedAll_addHeaders (dw : Measure) (w : World) (t t' : Nat) (items : List Nat)
    (h : attachedAll w t') :
    attachedAll (addHeaders dw w t items) t' := by
  unfold addHeaders
  simp only [newRow, modTable_rows]
  refine attachedAll_stable ((invoke_stable dw _ _ _ _).trans (addTimeCells_stable dw t _ _ _ _ _)) t' ?_
  -- the world after `rowAddMany`
  have h1 : attachedAll (w.modTable t (fun tb => resizeColumnsAtLeast tb items.length)) t' :=
    attachedAll_stable (stable_resize w t _) t' h
  have h2 := attachedAll_newRow _ { ec := .table t } t' h1
  have h3 := attachedAll_stable (rowAddMany_stable dw w.rows.length items _) t' h2
  have hec3 := ((rowAddMany_stable dw w.rows.length items
      ((w.modTable t (fun tb => resizeColumnsAtLeast tb items.length)).newRow { ec := .table t }).1).ecT
      w.rows.length t).mp (congrArg Row.ec (row_newRow_self _ _))
  simp only [newRow, modTable_rows] at h3 hec3
  refine attachedAll_of ?_ ?_ ?_ ?_ h3
  · simp
  · intro r' h'; exact h'
  · intro r' hm
    left
    refine (congrArg (r' ∈ ·) (table_modTable_proj _ _ _ (·.rows) ?_ _)).mp hm
    intro _; rfl
  · intro r' hm
    rw [table_modTable] at hm
    split at hm
    · simp only [Option.mem_def, Option.some.injEq] at hm
      subst hm
      next hc => rw [← hc.1]; exact Or.inr hec3
    · exact Or.inl hm

theorem registerCb_stable (w w' : World) (owner : Target) (tm : Time) (tg : CbTarget) (cb : Cb)
    (h : registerCb w owner tm tg cb = some w') : Stable w w' := by
  cases owner <;> cases tg <;> simp only [registerCb, Option.some.injEq, reduceCtorEq] at h <;>
    subst h <;>
    first
    | (refine stable_modTable_same _ _ _ ?_ ?_ ?_ <;> intro _ <;> rfl)
    | (refine stable_modRow_same _ _ _ ?_; intro _; rfl)
    | exact stable_copies _ _

/-! ### `rowAddCell` on a cell row -/

/-- `rowAddCell` up to (not including) the add-time cell callbacks -/
def rowAddCellPre (w : World) (r : Nat) (ce : Cell) (cs : List Cell) : World :=
  let col := cs.length + 1
  let w := w.modRow r (fun rw =>
    { rw with cells := some (cs ++ [{ ce with inRow := some r, columnNum := col }]) })
  match (w.row r).inTable with
  | some t => w.modTable t (fun tb => resizeColumnsAtLeast tb col)
  | none => w

theorem rowAddCell_some (dw : Measure) (w : World) (r : Nat) (ce : Cell) (cs : List Cell)
    (hc : (w.row r).cells = some cs) :
    rowAddCell dw w r ce = invoke dw (rowAddCellPre w r ce cs)
      (((rowAddCellPre w r ce cs).row r).cellCbs.at .add) (.cell r cs.length) (.rowLazy r) := by
  simp only [rowAddCell, hc, rowAddCellPre, Nat.add_sub_cancel]
  rfl

theorem rowAddCellPre_stable (w : World) (r : Nat) (ce : Cell) (cs : List Cell) :
    Stable w (rowAddCellPre w r ce cs) := by
  unfold rowAddCellPre
  refine Stable.trans ?_ (stable_resize_opt _ _ _)
  refine stable_modRow_same _ _ _ ?_
  intro _; rfl

theorem rowAddCellPre_mass (w : World) (r : Nat) (ce : Cell) (cs : List Cell) (e : Nat) :
    mass (rowAddCellPre w r ce cs) e = mass w e := by
  unfold rowAddCellPre
  simp only
  split
  · rw [mass_modTable_same _ _ _ _ (fun x => resize_errs x _)]
    refine mass_modRow_same _ _ _ _ ?_; intro _; rfl
  · refine mass_modRow_same _ _ _ _ ?_; intro _; rfl

theorem rowAddCellPre_cellCbs (w : World) (r : Nat) (ce : Cell) (cs : List Cell) :
    ((rowAddCellPre w r ce cs).row r).cellCbs = (w.row r).cellCbs := by
  unfold rowAddCellPre
  simp only
  split
  · rw [row_modTable]
    refine row_modRow_proj _ _ _ (·.cellCbs) ?_ _; intro _; rfl
  · refine row_modRow_proj _ _ _ (·.cellCbs) ?_ _; intro _; rfl

theorem rowAddCell_mass (dw : Measure) (w : World) (r : Nat) (ce : Cell) (cs : List Cell)
    (hc : (w.row r).cells = some cs) (hl : live w (.rowLazy r)) (e : Nat) :
    mass (rowAddCell dw w r ce) e
      = mass w e + raiseCount (.cell r cs.length) e ((w.row r).cellCbs.at .add) := by
  rw [rowAddCell_some dw w r ce cs hc,
    mass_invoke _ _ _ _ _ _ (live_of_stable (rowAddCellPre_stable w r ce cs) _ hl),
    rowAddCellPre_mass, rowAddCellPre_cellCbs]

end World
end Tab
