/- C06 helpers: facts about the model's escaper `htmlEscByte` / `htmlEscape` (model side only). -/
import Tabmodel.Proofs.C06Lit
namespace Tab

/-- the seven arms of `htmlEscByte`, with the entity literals evaluated -/
theorem htmlEscByte_cases (b : UInt8) :
    (b = 0 ∧ htmlEscByte b = [0xEF, 0xBF, 0xBD]) ∨
    (b = 34 ∧ htmlEscByte b = [38, 35, 51, 52, 59]) ∨
    (b = 38 ∧ htmlEscByte b = [38, 97, 109, 112, 59]) ∨
    (b = 39 ∧ htmlEscByte b = [38, 35, 51, 57, 59]) ∨
    (b = 43 ∧ htmlEscByte b = [38, 35, 52, 51, 59]) ∨
    (b = 60 ∧ htmlEscByte b = [38, 108, 116, 59]) ∨
    (b = 62 ∧ htmlEscByte b = [38, 103, 116, 59]) ∨
    ((b ≠ 0 ∧ b ≠ 34 ∧ b ≠ 38 ∧ b ≠ 39 ∧ b ≠ 43 ∧ b ≠ 60 ∧ b ≠ 62) ∧ htmlEscByte b = [b]) := by
  unfold htmlEscByte
  simp only [lit_e34, lit_eamp, lit_e39, lit_e43, lit_elt, lit_egt]
  split; · simp [*]
  split; · simp [*]
  split; · simp [*]
  split; · simp [*]
  split; · simp [*]
  split; · simp [*]
  split; · simp [*]
  simp [*]

theorem htmlEscape_nil : htmlEscape [] = [] := rfl
theorem htmlEscape_cons (b : UInt8) (s : Bytes) : htmlEscape (b :: s) = htmlEscByte b ++ htmlEscape s := by
  simp [htmlEscape]
theorem htmlEscape_append (s t : Bytes) : htmlEscape (s ++ t) = htmlEscape s ++ htmlEscape t := by
  simp [htmlEscape]

theorem htmlEscByte_ne_nil (b : UInt8) : htmlEscByte b ≠ [] := by
  rcases htmlEscByte_cases b with h | h | h | h | h | h | h | h <;> simp [h.2]

theorem htmlEscape_eq_nil {s : Bytes} : htmlEscape s = [] ↔ s = [] := by
  cases s with
  | nil => simp [htmlEscape_nil]
  | cons b s => simp [htmlEscape_cons, htmlEscByte_ne_nil]

theorem htmlEscByte_inert (b c : UInt8) (hc : c ∈ htmlEscByte b) : c ≠ 60 ∧ c ≠ 62 ∧ c ≠ 34 ∧ c ≠ 39 := by
  rcases htmlEscByte_cases b with h | h | h | h | h | h | h | h
  all_goals
    rw [h.2] at hc
    simp only [List.mem_cons, List.not_mem_nil, or_false] at hc
  · rcases hc with rfl | rfl | rfl <;> decide
  · rcases hc with rfl | rfl | rfl | rfl | rfl <;> decide
  · rcases hc with rfl | rfl | rfl | rfl | rfl <;> decide
  · rcases hc with rfl | rfl | rfl | rfl | rfl <;> decide
  · rcases hc with rfl | rfl | rfl | rfl | rfl <;> decide
  · rcases hc with rfl | rfl | rfl | rfl <;> decide
  · rcases hc with rfl | rfl | rfl | rfl <;> decide
  · subst hc; exact ⟨h.1.2.2.2.2.2.1, h.1.2.2.2.2.2.2, h.1.2.1, h.1.2.2.2.1⟩

theorem htmlEscape_inert (s : Bytes) (c : UInt8) (hc : c ∈ htmlEscape s) :
    c ≠ 60 ∧ c ≠ 62 ∧ c ≠ 34 ∧ c ≠ 39 := by
  simp only [htmlEscape, List.mem_flatMap] at hc
  obtain ⟨b, _, hb⟩ := hc
  exact htmlEscByte_inert b c hb

/-- the six entities `htmlEscByte` can produce -/
def escEntities : List Bytes :=
  [[38, 35, 51, 52, 59], [38, 97, 109, 112, 59], [38, 35, 51, 57, 59],
   [38, 35, 52, 51, 59], [38, 108, 116, 59], [38, 103, 116, 59]]

theorem amp_at_head (t p r : Bytes) (ht : (38 : UInt8) ∉ t) (h : (38 : UInt8) :: t = p ++ 38 :: r) : p = [] := by
  cases p with
  | nil => rfl
  | cons a p' =>
    exfalso
    simp only [List.cons_append, List.cons.injEq] at h
    exact ht (by rw [h.2]; simp)

theorem no_amp (l p r : Bytes) (hl : (38 : UInt8) ∉ l) (h : l = p ++ 38 :: r) : False :=
  hl (by rw [h]; simp)

/-- an `&` inside one escaped byte is at its head, and the whole escaped byte is an entity -/
theorem htmlEscByte_amp (b : UInt8) (p r : Bytes) (h : htmlEscByte b = p ++ 38 :: r) :
    p = [] ∧ htmlEscByte b ∈ escEntities := by
  rcases htmlEscByte_cases b with h' | h' | h' | h' | h' | h' | h' | h'
  · exact (no_amp _ p r (by rw [h'.2]; decide) h).elim
  · rw [h'.2] at h ⊢; exact ⟨amp_at_head _ p r (by decide) h, by decide⟩
  · rw [h'.2] at h ⊢; exact ⟨amp_at_head _ p r (by decide) h, by decide⟩
  · rw [h'.2] at h ⊢; exact ⟨amp_at_head _ p r (by decide) h, by decide⟩
  · rw [h'.2] at h ⊢; exact ⟨amp_at_head _ p r (by decide) h, by decide⟩
  · rw [h'.2] at h ⊢; exact ⟨amp_at_head _ p r (by decide) h, by decide⟩
  · rw [h'.2] at h ⊢; exact ⟨amp_at_head _ p r (by decide) h, by decide⟩
  · refine (no_amp _ p r ?_ h).elim
    rw [h'.2]; simp only [List.mem_singleton]; exact fun e => h'.1.2.2.1 e.symm

/-- every `&` of an escaped string starts (a full copy of) one of the six entities -/
theorem htmlEscape_amp (s p r : Bytes) (h : htmlEscape s = p ++ 38 :: r) :
    ∃ e ∈ escEntities, e <+: 38 :: r := by
  induction s generalizing p with
  | nil => simp [htmlEscape_nil] at h
  | cons b s ih =>
    rw [htmlEscape_cons] at h
    rcases List.append_eq_append_iff.mp h with ⟨a', h1, h2⟩ | ⟨c', h1, h2⟩
    · -- p = htmlEscByte b ++ a'
      exact ih a' h2
    · -- htmlEscByte b = p ++ c',  38 :: r = c' ++ htmlEscape s
      cases c' with
      | nil => exact ih [] (by simpa using h2.symm)
      | cons c c'' =>
        simp only [List.cons_append, List.cons.injEq] at h2
        obtain ⟨hc, hr⟩ := h2
        subst hc
        obtain ⟨hp, hmem⟩ := htmlEscByte_amp b p c'' h1
        subst hp
        refine ⟨htmlEscByte b, hmem, ?_⟩
        rw [h1, hr]
        exact ⟨htmlEscape s, by simp⟩

end Tab
