/-
  C09h helper lemmas, part 1: the JSON renderer never panics, proved from the model alone.

  `c07_no_panic` (Props/C07.lean) says the same, but `Props/C07.lean` imports `Spec/Json.lean`, whose
  `PState` clashes with the `PState` of `Proofs/C12hDefs.lean`; `Props/C09h.lean` needs the C12h side,
  so the fact is re-proved here without the JSON reader: every checked index of `renderJson` is in
  range (`jsonKeys` reads `headers[i]` for `i < ncols ≤ headers.length`; `jsonEmitCells` reads
  `keys[i]` for `i < cells.length ≤ keys.length`, the latter guarded by the `structural` refusal).
-/
import Tabmodel.Model.Json
import Tabmodel.Proofs.EmitLemmas
namespace Tab
open Emit
namespace C09h

/-- the program does not end in a panic -/
def NoPanic {α : Type} (m : Emit α) : Prop := ∀ s, m.res ≠ .error (.panic s)

theorem noPanic_bind {α β : Type} {m : Emit α} {f : α → Emit β} (hm : NoPanic m)
    (hf : ∀ a, m.res = .ok a → NoPanic (f a)) : NoPanic (bind' m f) := by
  intro s
  cases h : m.res with
  | ok a => rw [(bind'_ok h f).2]; exact hf a h s
  | error e =>
    rw [(bind'_err h f).2]
    intro he
    injection he with he
    exact hm s (by rw [h, he])

theorem noPanic_pure {α : Type} (a : α) : NoPanic (pure' a) := by intro s h; cases h
theorem noPanic_write (b : Bytes) : NoPanic (write b) := by intro s h; cases h
theorem noPanic_fail {α : Type} (e : ErrClass) : NoPanic (fail e : Emit α) := by intro s h; cases h

/-- a pure partial computation: no panic -/
def NoPanicE {α : Type} (r : Except Stop α) : Prop := ∀ s, r ≠ .error (.panic s)

theorem noPanic_lift {α : Type} {r : Except Stop α} (h : NoPanicE r) : NoPanic (lift r) := h

theorem asBoolOr_noPanic (v : Option Val) (d : Bool) : NoPanicE (asBoolOr v d) := by
  intro s
  unfold asBoolOr
  split <;> (intro h; cases h)

/-- the header loop reads `headers[i] … headers[i+n-1]`, all in range -/
theorem jsonKeys_noPanic (js : JsonStr) (v : RTable) (headers : List RCell) (defSkip : Bool) :
    ∀ (n i : Nat) (seen : List Bytes) (acc : List (Bytes × Bool)), i + n ≤ headers.length →
      NoPanicE (jsonKeys js v headers defSkip n i seen acc) ∧
      ∀ ks, jsonKeys js v headers defSkip n i seen acc = .ok ks → ks.length = acc.length + n := by
  intro n
  induction n with
  | zero =>
    intro i seen acc _
    constructor
    · intro s h; simp only [jsonKeys] at h; cases h
    · intro ks h
      simp only [jsonKeys] at h
      cases h; rfl
  | succ n ih =>
    intro i seen acc hle
    have hi : i < headers.length := by omega
    have hidx : idxE headers i "json.headers[i]" = .ok headers[i] := by
      unfold idxE; rw [List.getElem?_eq_getElem hi]
    simp only [jsonKeys, hidx, bind, Except.bind]
    split
    · constructor
      · intro s h; cases h
      · intro ks h; cases h
    · split
      · constructor
        · intro s h; cases h
        · intro ks h; cases h
      · cases hb : asBoolOr (v.colSkip.getD (i + 1) none) defSkip with
        | error e =>
          simp only
          constructor
          · intro s h
            have := asBoolOr_noPanic (v.colSkip.getD (i + 1) none) defSkip s
            rw [hb] at this
            injection h with h
            exact this (by rw [h])
          · intro ks h; cases h
        | ok sk =>
          simp only
          obtain ⟨h1, h2⟩ := ih (i + 1) (headers[i].text :: seen)
            (acc ++ [(js headers[i].text ++ [58, 32], sk)]) (by omega)
          refine ⟨h1, fun ks h => ?_⟩
          rw [h2 ks h]
          simp only [List.length_append, List.length_cons, List.length_nil]
          omega

/-- the cell loop reads `keys[i] … keys[i + cs.length - 1]`, all in range -/
theorem jsonEmitCells_noPanic (js : JsonStr) (keys : List (Bytes × Bool)) :
    ∀ (cs : List RCell) (i : Nat) (opened : Bool), i + cs.length ≤ keys.length →
      NoPanic (jsonEmitCells js keys cs i opened) := by
  intro cs
  induction cs with
  | nil => intro i opened _; exact noPanic_pure _
  | cons c cs ih =>
    intro i opened hle
    simp only [List.length_cons] at hle
    have hi : i < keys.length := by omega
    have hidx : idx keys i "json.keys[i]" = pure' keys[i] := idx_ok (List.getElem?_eq_getElem hi) _
    simp only [jsonEmitCells, bind_eq, pure_eq, hidx, bind'_pure']
    split
    · exact ih (i + 1) opened (by omega)
    · refine noPanic_bind (noPanic_write _) (fun _ _ => ?_)
      refine noPanic_bind (noPanic_write _) (fun _ _ => ?_)
      refine noPanic_bind ?_ (fun t _ => ?_)
      · split
        · exact noPanic_fail _
        · exact noPanic_pure _
      · exact noPanic_bind (noPanic_write _) (fun _ _ => ih (i + 1) true (by omega))

theorem jsonEmitRow_noPanic (js : JsonStr) (keys : List (Bytes × Bool)) (cells : List RCell) :
    NoPanic (jsonEmitRow js keys cells) := by
  unfold jsonEmitRow
  simp only [bind_eq]
  split
  · exact noPanic_fail _
  · refine noPanic_bind (jsonEmitCells_noPanic js keys cells 0 false (by omega)) (fun o _ => ?_)
    split <;> exact noPanic_write _

theorem jsonRows_noPanic (js : JsonStr) (keys : List (Bytes × Bool)) (lastObj : Nat) :
    ∀ (rs : List (Option (List RCell))) (i : Nat) (nc : Bool), NoPanic (jsonRows js keys lastObj rs i nc) := by
  intro rs
  induction rs with
  | nil => intro i nc; exact noPanic_pure _
  | cons r rs ih =>
    intro i nc
    have hrest : ∀ u : Unit, NoPanic (match r with
        | none => (write [LF]).bind' fun _ => jsonRows js keys lastObj rs (i + 1) false
        | some cells =>
          (jsonEmitRow js keys cells).bind' fun _ => jsonRows js keys lastObj rs (i + 1) (decide (i + 1 < lastObj))) := by
      intro _
      cases r with
      | none => exact noPanic_bind (noPanic_write _) (fun _ _ => ih _ _)
      | some cells => exact noPanic_bind (jsonEmitRow_noPanic js keys cells) (fun _ _ => ih _ _)
    simp only [jsonRows, bind_eq]
    cases nc with
    | true => rw [if_pos rfl]; exact noPanic_bind (noPanic_write _) (fun u _ => hrest u)
    | false => rw [if_neg (by decide)]; exact hrest ()

/-- The JSON renderer never panics, on any view at all. -/
theorem renderJson_noPanic (js : JsonStr) (v : RTable) : ∀ s, (renderJson js v).res ≠ .error (.panic s) := by
  show NoPanic (renderJson js v)
  unfold renderJson
  simp only [bind_eq]
  split
  · exact noPanic_fail _
  · refine noPanic_bind (noPanic_lift (asBoolOr_noPanic _ _)) (fun defSkip _ => ?_)
    cases hh : v.header with
    | none => exact noPanic_fail _
    | some headers =>
      simp only
      split
      · exact noPanic_fail _
      · rename_i hlen
        have hk := jsonKeys_noPanic js v headers defSkip v.ncols 0 [] [] (by omega)
        refine noPanic_bind (noPanic_lift hk.1) (fun keys _ => ?_)
        refine noPanic_bind (noPanic_write _) (fun _ _ => ?_)
        exact noPanic_bind (jsonRows_noPanic js keys _ _ _ _) (fun _ _ => noPanic_write _)

end C09h
end Tab
