/- C12h helper lemmas: one operation of a history against one step of the recorded state. -/
import Tabmodel.Proofs.C12hOps
import Tabmodel.Proofs.WorldHist
set_option linter.unusedSimpArgs false
namespace Tab
open World C13 C13x
namespace C12h

/-! ### the recorded state -/

/-- the operations that set nothing and bring no callback -/
def plain : BuildOp → Bool
  | .setProp _ _ _ => false
  | .regCb _ _ _ _ => false
  | .copyCell _ _ => false
  | .rowAddCell _ _ => false
  | _ => true

theorem step_plain (p : PState) (op : BuildOp) (h : plain op = true) :
    p.step op = { p with shape := p.shape.step op } := by
  cases op <;> first | rfl | (simp [plain] at h)

theorem step_regCb (p : PState) (o : Target) (tm : Time) (tg : CbTarget) (cb : Cb) :
    p.step (.regCb o tm tg cb) = p := rfl

theorem step_shape (p : PState) (op : BuildOp) : (p.step op).shape = p.shape.step op := by
  cases op with
  | setProp o k v => simp only [PState.step]; split <;> rfl
  | copyCell r c => simp only [PState.step]; split <;> rfl
  | rowAddCell r ce =>
    simp only [PState.step]
    split
    · split <;> rfl
    · rfl
  | _ => rfl

theorem hasOwner_iff (w : World) (o : Target) : w.shape.hasOwner w.copies.length o = true ↔ w.hasObj o := by
  cases o with
  | table t => simp [Shape.hasOwner, World.hasObj]
  | column t n => simp [Shape.hasOwner, World.hasObj, shape_table_nColRecs]
  | row r => simp [Shape.hasOwner, World.hasObj]
  | cell r c => simp [Shape.hasOwner, World.hasObj, shape_width, World.cell?]
  | copy n => simp [Shape.hasOwner, World.hasObj]

theorem cell?_isSome_iff (w : World) (r c : Nat) : (w.cell? r c).isSome = true ↔ c < w.shape.width r := by
  simp [shape_width, World.cell?]

/-! ### the plain operations -/

theorem keeps_applyOp (dw : Measure) (k : Key) (w : World) (op : BuildOp) (h : plain op = true) :
    Keeps k w (applyOp dw w op) := by
  cases op with
  | newTable => exact (csame_newTable w).keeps k
  | addHeaders t items => exact keeps_addHeaders dw k w t items
  | addRowItems t items => exact keeps_addRowItems dw k w t items
  | newRow => exact (csame_newRow w {} rfl rfl rfl rfl).keeps k
  | zeroRow => exact (csame_newRow w { cells := none } rfl rfl rfl rfl).keeps k
  | appendNewRow t => exact keeps_appendNewRow dw k w t
  | rowAdd r i => exact keeps_rowAdd dw k w r i
  | addRow t r => exact keeps_addRow dw k w t r
  | addSeparator t => exact (csame_addSeparator w t).keeps k
  | addErr tk e => exact (csame_addErrTo w tk e).keeps k
  | setItems its => exact (csame_items w its).keeps k
  | updateCell r c => exact (csame_updateCell dw w r c).keeps k
  | render t => exact keeps_render dw k w t
  | setProp o k v => simp [plain] at h
  | regCb o tm tg cb => simp [plain] at h
  | copyCell r c => simp [plain] at h
  | rowAddCell r ce => simp [plain] at h

theorem refines_of_keeps {k : Key} {w w' : World} {p p' : PState} (hr : Refines k w p) (hq : Quiet k w)
    (hk : Keeps k w w') (hs : w'.shape = p'.shape) (hn : p'.ncopies = p.ncopies) (hv : p'.val = p.val) :
    Refines k w' p' :=
  ⟨hs, by rw [hk.ncopies, hr.ncopies, hn], fun o => by rw [hk.val hq o, hr.val o, hv]⟩

/-! ### `setProp` -/

theorem refines_setProp {k : Key} {w : World} {p : PState} (hr : Refines k w p) (hn : AllNodup w)
    (o : Target) (k' : Key) (v : Option Val) : Refines k (w.setProp o k' v) (p.step (.setProp o k' v)) := by
  have hown : p.shape.hasOwner p.ncopies o = true ↔ w.hasObj o := by
    rw [← hr.shape, ← hr.ncopies]; exact hasOwner_iff w o
  by_cases ho : w.hasObj o
  · have h1 : p.shape.hasOwner p.ncopies o = true := hown.mpr ho
    simp only [PState.step, h1, if_true]
    refine ⟨by rw [shape_setProp]; exact hr.shape, by rw [copies_length_setProp]; exact hr.ncopies, fun o' => ?_⟩
    show _ = if o' = o ∧ k = k' then v else p.val o' k
    by_cases e : o' = o ∧ k = k'
    · obtain ⟨rfl, rfl⟩ := e
      simp only [and_self, if_true]
      rw [getProp_setProp_self w o' k v ho]
      exact chain_get_set _ k v (.inr (hn o'))
    · rw [if_neg e, ← hr.val o']
      refine getProp_setProp_frame w o k' v o' k ?_
      by_cases e1 : o = o'
      · exact .inr (fun e2 => e ⟨e1.symm, e2.symm⟩)
      · exact .inl e1
  · have h1 : ¬ p.shape.hasOwner p.ncopies o = true := fun h => ho (hown.mp h)
    simp only [PState.step, h1, if_false]
    rw [setProp_noobj w o k' v ho]
    exact hr

/-! ### registration -/

theorem chainOf_registerCb {w w' : World} {o : Target} {tm : Time} {tg : CbTarget} {cb : Cb}
    (e : registerCb w o tm tg cb = some w') (o' : Target) : w'.chainOf o' = w.chainOf o' := by
  cases o with
  | table t =>
    cases tg <;> simp only [registerCb, Option.some.injEq] at e <;> subst e <;>
      (refine chainOf_modTable_of w t _ ?_ ?_ o' <;> intros <;> rfl)
  | column t n =>
    cases tg <;> simp only [registerCb, Option.some.injEq, reduceCtorEq] at e <;> subst e <;>
      (refine chainOf_modColumn_of w t n _ ?_ o' <;> intros <;> rfl)
  | row r =>
    cases tg <;> simp only [registerCb, Option.some.injEq] at e <;> subst e <;>
      (refine chainOf_modRow_of w r _ ?_ ?_ o' <;> intros <;> rfl)
  | cell r c =>
    cases tg <;> simp only [registerCb, Option.some.injEq, reduceCtorEq] at e <;> subst e <;>
      (refine chainOf_modCell_of w r c _ ?_ o' <;> intros <;> rfl)
  | copy n =>
    cases tg <;> simp only [registerCb, Option.some.injEq, reduceCtorEq] at e <;> subst e <;>
      (refine chainOf_modCopy_of w n _ ?_ o' <;> intros <;> rfl)

theorem copies_registerCb {w w' : World} {o : Target} {tm : Time} {tg : CbTarget} {cb : Cb}
    (e : registerCb w o tm tg cb = some w') : w'.copies.length = w.copies.length := by
  cases o <;> cases tg <;> simp only [registerCb, Option.some.injEq, reduceCtorEq] at e <;> subst e <;>
    simp [World.modTable, World.modColumn, World.modRow, World.modCell]

theorem quiet_registerCb {k : Key} {w w' : World} {o : Target} {tm : Time} {tg : CbTarget} {cb : Cb}
    (hq : Quiet k w) (hcb : cb.writes k = false) (e : registerCb w o tm tg cb = some w') : Quiet k w' := by
  by_cases ho : w.hasObj o
  · obtain ⟨s, _, hs⟩ := registerCb_cbSet ho e
    intro s' tm' c hc
    simp only [World.cbsAt, hs s'] at hc
    split at hc
    · rw [CbSet.push_at] at hc
      split at hc
      · rcases List.mem_append.mp hc with h | h
        · exact hq s' tm' c h
        · simp only [List.mem_singleton] at h; subst h; exact hcb
      · exact hq s' tm' c hc
    · exact hq s' tm' c hc
  · rw [registerCb_noobj ho e]; exact hq

/-! ### copying a cell -/

theorem chainOf_copy (w : World) (ce : Cell) (o : Target) :
    ({ w with copies := w.copies ++ [ce] } : World).chainOf o =
      if o = .copy w.copies.length then ce.props else w.chainOf o := by
  cases o with
  | copy n =>
    simp only [World.chainOf, Target.copy.injEq, List.getElem?_append]
    by_cases h : n < w.copies.length
    · have : n ≠ w.copies.length := by omega
      simp [h, this]
    · by_cases h2 : n = w.copies.length
      · subst h2; simp
      · have h3 : w.copies.length ≤ n := by omega
        have h4 : n - w.copies.length ≠ 0 := by omega
        simp [h, h2, List.getElem?_eq_none h3, h4]
  | _ => simp [World.chainOf] <;> rfl

theorem cbSet_copy (w : World) (ce : Cell) (s : CbSlot) :
    ({ w with copies := w.copies ++ [ce] } : World).cbSet s =
      if s = .copyOwn w.copies.length then ce.cbs else w.cbSet s := by
  cases s with
  | copyOwn n =>
    simp only [World.cbSet, CbSlot.copyOwn.injEq, List.getElem?_append]
    by_cases h : n < w.copies.length
    · have : n ≠ w.copies.length := by omega
      simp [h, this]
    · by_cases h2 : n = w.copies.length
      · subst h2; simp
      · have h3 : w.copies.length ≤ n := by omega
        have h4 : n - w.copies.length ≠ 0 := by omega
        simp [h, h2, List.getElem?_eq_none h3, h4]
  | _ => simp [World.cbSet] <;> rfl

end C12h
end Tab
