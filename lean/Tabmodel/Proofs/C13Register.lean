/- C13 helper lemmas: the effect of `registerCb` on the callback slots. -/
import Tabmodel.Proofs.C13World
set_option linter.unusedSimpArgs false
namespace Tab
open World
namespace C13

theorem CbSet.push_at (s : CbSet) (tm : Time) (cb : Cb) (tm' : Time) :
    (s.push tm cb).at tm' = if tm' = tm then s.at tm' ++ [cb] else s.at tm' := by
  cases tm <;> cases tm' <;> simp [CbSet.push, CbSet.at]

theorem rowCells_modRow_of (w : World) (r : Nat) (f : Row → Row) (hf : ∀ rw, (f rw).cells = rw.cells) (r' : Nat) :
    (w.modRow r f).rowCells r' = w.rowCells r' := by
  simp only [World.rowCells, row_modRow]
  split <;> simp [hf]

theorem cell?_modRow_of (w : World) (r : Nat) (f : Row → Row) (hf : ∀ rw, (f rw).cells = rw.cells) (r' c : Nat) :
    (w.modRow r f).cell? r' c = w.cell? r' c := by
  simp only [World.cell?, rowCells_modRow_of w r f hf]

theorem column?_modTable_of (w : World) (t : Nat) (f : Table → Table) (hf : ∀ tb, (f tb).columns = tb.columns)
    (t' n : Nat) : (w.modTable t f).column? t' n = w.column? t' n := by
  simp only [World.column?, table_modTable]
  split <;> simp [hf]

/-- registering on a table -/
theorem cbSet_reg_tableSelf {w : World} {t : Nat} (ht : t < w.tables.length) (g : CbSet → CbSet) (s' : CbSlot) :
    (w.modTable t (fun tb => { tb with selfCbs := g tb.selfCbs })).cbSet s' =
      if s' = .tableSelf t then g (w.cbSet s') else w.cbSet s' := by
  have hcol : ∀ t' n, (w.modTable t (fun tb => { tb with selfCbs := g tb.selfCbs })).column? t' n = w.column? t' n :=
    by intro t' n; apply column?_modTable_of; intro _; rfl
  cases s' <;> simp only [World.cbSet, table_modTable, row_modTable, cell?_modTable, copies_modTable,
    hcol, CbSlot.tableSelf.injEq, reduceCtorEq, if_false]
  case tableSelf t' =>
    by_cases h : t = t'
    · subst h; simp [ht]
    · have : ¬ t' = t := fun e => h e.symm
      simp [h, this]
  all_goals (split <;> rfl)

theorem cbSet_reg_tableCell {w : World} {t : Nat} (ht : t < w.tables.length) (g : CbSet → CbSet) (s' : CbSlot) :
    (w.modTable t (fun tb => { tb with cellCbs := g tb.cellCbs })).cbSet s' =
      if s' = .tableCell t then g (w.cbSet s') else w.cbSet s' := by
  have hcol : ∀ t' n, (w.modTable t (fun tb => { tb with cellCbs := g tb.cellCbs })).column? t' n = w.column? t' n :=
    by intro t' n; apply column?_modTable_of; intro _; rfl
  cases s' <;> simp only [World.cbSet, table_modTable, row_modTable, cell?_modTable, copies_modTable,
    hcol, CbSlot.tableCell.injEq, reduceCtorEq, if_false]
  case tableCell t' =>
    by_cases h : t = t'
    · subst h; simp [ht]
    · have : ¬ t' = t := fun e => h e.symm
      simp [h, this]
  all_goals (split <;> rfl)

theorem cbSet_reg_tableRow {w : World} {t : Nat} (ht : t < w.tables.length) (g : CbSet → CbSet) (s' : CbSlot) :
    (w.modTable t (fun tb => { tb with rowCbs := g tb.rowCbs })).cbSet s' =
      if s' = .tableRow t then g (w.cbSet s') else w.cbSet s' := by
  have hcol : ∀ t' n, (w.modTable t (fun tb => { tb with rowCbs := g tb.rowCbs })).column? t' n = w.column? t' n :=
    by intro t' n; apply column?_modTable_of; intro _; rfl
  cases s' <;> simp only [World.cbSet, table_modTable, row_modTable, cell?_modTable, copies_modTable,
    hcol, CbSlot.tableRow.injEq, reduceCtorEq, if_false]
  case tableRow t' =>
    by_cases h : t = t'
    · subst h; simp [ht]
    · have : ¬ t' = t := fun e => h e.symm
      simp [h, this]
  all_goals (split <;> rfl)

/-- registering on a column -/
theorem cbSet_reg_colSelf {w : World} {t n : Nat} (ht : t < w.tables.length) (hn : n < (w.table t).columns.length)
    (g : CbSet → CbSet) (s' : CbSlot) :
    (w.modColumn t n (fun c => { c with selfCbs := g c.selfCbs })).cbSet s' =
      if s' = .colSelf t n then g (w.cbSet s') else w.cbSet s' := by
  have hc : ∃ c, w.column? t n = some c := ⟨_, List.getElem?_eq_getElem hn⟩
  obtain ⟨c, hc⟩ := hc
  cases s' <;> simp only [World.cbSet, column?_modColumn, CbSlot.colSelf.injEq, reduceCtorEq, if_false]
  case colSelf t' n' =>
    by_cases h : t = t' ∧ n = n'
    · obtain ⟨rfl, rfl⟩ := h; simp [ht, hc]
    · have h1 : ¬ (t = t' ∧ t' < w.tables.length ∧ n = n') := fun e => h ⟨e.1, e.2.2⟩
      have h2 : ¬ (t' = t ∧ n' = n) := fun e => h ⟨e.1.symm, e.2.symm⟩
      simp [h1, h2]
  case colCell t' n' =>
    split
    · cases w.column? t' n' <;> rfl
    · rfl
  case tableSelf t' => simp only [World.modColumn, table_modTable]; split <;> rfl
  case tableCell t' => simp only [World.modColumn, table_modTable]; split <;> rfl
  case tableRow t' => simp only [World.modColumn, table_modTable]; split <;> rfl
  all_goals rfl

theorem cbSet_reg_colCell {w : World} {t n : Nat} (ht : t < w.tables.length) (hn : n < (w.table t).columns.length)
    (g : CbSet → CbSet) (s' : CbSlot) :
    (w.modColumn t n (fun c => { c with cellCbs := g c.cellCbs })).cbSet s' =
      if s' = .colCell t n then g (w.cbSet s') else w.cbSet s' := by
  have hc : ∃ c, w.column? t n = some c := ⟨_, List.getElem?_eq_getElem hn⟩
  obtain ⟨c, hc⟩ := hc
  cases s' <;> simp only [World.cbSet, column?_modColumn, CbSlot.colCell.injEq, reduceCtorEq, if_false]
  case colCell t' n' =>
    by_cases h : t = t' ∧ n = n'
    · obtain ⟨rfl, rfl⟩ := h; simp [ht, hc]
    · have h1 : ¬ (t = t' ∧ t' < w.tables.length ∧ n = n') := fun e => h ⟨e.1, e.2.2⟩
      have h2 : ¬ (t' = t ∧ n' = n) := fun e => h ⟨e.1.symm, e.2.symm⟩
      simp [h1, h2]
  case colSelf t' n' =>
    split
    · cases w.column? t' n' <;> rfl
    · rfl
  case tableSelf t' => simp only [World.modColumn, table_modTable]; split <;> rfl
  case tableCell t' => simp only [World.modColumn, table_modTable]; split <;> rfl
  case tableRow t' => simp only [World.modColumn, table_modTable]; split <;> rfl
  all_goals rfl

/-- registering on a row -/
theorem cbSet_reg_rowSelf {w : World} {r : Nat} (hr : r < w.rows.length) (g : CbSet → CbSet) (s' : CbSlot) :
    (w.modRow r (fun rw => { rw with selfCbs := g rw.selfCbs })).cbSet s' =
      if s' = .rowSelf r then g (w.cbSet s') else w.cbSet s' := by
  have hcell : ∀ r' c, (w.modRow r (fun rw => { rw with selfCbs := g rw.selfCbs })).cell? r' c = w.cell? r' c :=
    by intro r' c; apply cell?_modRow_of; intro _; rfl
  cases s' <;> simp only [World.cbSet, row_modRow, table_modRow, column?_modRow, copies_modRow, hcell,
    CbSlot.rowSelf.injEq, reduceCtorEq, if_false]
  case rowSelf r' =>
    by_cases h : r = r'
    · subst h; simp [hr]
    · have : ¬ r' = r := fun e => h e.symm
      simp [h, this]
  all_goals (split <;> rfl)

theorem cbSet_reg_rowCell {w : World} {r : Nat} (hr : r < w.rows.length) (g : CbSet → CbSet) (s' : CbSlot) :
    (w.modRow r (fun rw => { rw with cellCbs := g rw.cellCbs })).cbSet s' =
      if s' = .rowCell r then g (w.cbSet s') else w.cbSet s' := by
  have hcell : ∀ r' c, (w.modRow r (fun rw => { rw with cellCbs := g rw.cellCbs })).cell? r' c = w.cell? r' c :=
    by intro r' c; apply cell?_modRow_of; intro _; rfl
  cases s' <;> simp only [World.cbSet, row_modRow, table_modRow, column?_modRow, copies_modRow, hcell,
    CbSlot.rowCell.injEq, reduceCtorEq, if_false]
  case rowCell r' =>
    by_cases h : r = r'
    · subst h; simp [hr]
    · have : ¬ r' = r := fun e => h e.symm
      simp [h, this]
  all_goals (split <;> rfl)

/-- registering on a cell -/
theorem cbSet_reg_cellOwn {w : World} {r c : Nat} (hc : (w.cell? r c).isSome = true) (g : CbSet → CbSet) (s' : CbSlot) :
    (w.modCell r c (fun ce => { ce with cbs := g ce.cbs })).cbSet s' =
      if s' = .cellOwn r c then g (w.cbSet s') else w.cbSet s' := by
  obtain ⟨ce, hce⟩ := Option.isSome_iff_exists.mp hc
  cases s' <;> simp only [World.cbSet, cell?_modCell, table_modCell, copies_modCell,
    CbSlot.cellOwn.injEq, reduceCtorEq, if_false]
  case cellOwn r' c' =>
    by_cases h : r = r' ∧ c = c'
    · obtain ⟨rfl, rfl⟩ := h; simp [hce]
    · have h2 : ¬ (r' = r ∧ c' = c) := fun e => h ⟨e.1.symm, e.2.symm⟩
      simp [h, h2]
  case rowSelf r' => simp only [World.modCell, row_modRow]; split <;> rfl
  case rowCell r' => simp only [World.modCell, row_modRow]; split <;> rfl
  all_goals rfl

/-- registering on a cell value held by the caller -/
theorem cbSet_reg_copyOwn {w : World} {n : Nat} (hn : n < w.copies.length) (g : CbSet → CbSet) (s' : CbSlot) :
    ({ w with copies := w.copies.modify n (fun ce => { ce with cbs := g ce.cbs }) } : World).cbSet s' =
      if s' = .copyOwn n then g (w.cbSet s') else w.cbSet s' := by
  cases s' <;> simp only [World.cbSet, CbSlot.copyOwn.injEq, reduceCtorEq, if_false]
  case copyOwn n' =>
    by_cases h : n = n'
    · subst h; simp [List.getElem?_modify, List.getElem?_eq_getElem hn]
    · have : ¬ n' = n := fun e => h e.symm
      simp [List.getElem?_modify, h, this]
  all_goals rfl

/-- The registration matrix, slot by slot: an accepted registration pushes `cb` on the documented
    set at time `tm` and leaves every other set alone. -/
theorem registerCb_cbSet {w w' : World} {owner : Target} {tm : Time} {tg : CbTarget} {cb : Cb}
    (ho : w.hasObj owner) (h : registerCb w owner tm tg cb = some w') :
    ∃ s, slotFor owner tg = some s ∧
      ∀ s', w'.cbSet s' = if s' = s then (w.cbSet s').push tm cb else w.cbSet s' := by
  cases owner with
  | table t =>
    cases tg <;> simp only [registerCb, Option.some.injEq] at h <;> subst h <;> refine ⟨_, rfl, fun s' => ?_⟩
    · exact cbSet_reg_tableSelf ho (fun s => s.push tm cb) s'
    · exact cbSet_reg_tableCell ho (fun s => s.push tm cb) s'
    · exact cbSet_reg_tableRow ho (fun s => s.push tm cb) s'
  | column t n =>
    cases tg <;> simp only [registerCb, Option.some.injEq, reduceCtorEq] at h <;> subst h <;>
      refine ⟨_, rfl, fun s' => ?_⟩
    · exact cbSet_reg_colSelf ho.1 ho.2 (fun s => s.push tm cb) s'
    · exact cbSet_reg_colCell ho.1 ho.2 (fun s => s.push tm cb) s'
  | row r =>
    cases tg <;> simp only [registerCb, Option.some.injEq] at h <;> subst h <;> refine ⟨_, rfl, fun s' => ?_⟩
    · exact cbSet_reg_rowSelf ho (fun s => s.push tm cb) s'
    · exact cbSet_reg_rowCell ho (fun s => s.push tm cb) s'
    · exact cbSet_reg_rowSelf ho (fun s => s.push tm cb) s'
  | cell r c =>
    cases tg <;> simp only [registerCb, Option.some.injEq, reduceCtorEq] at h <;> subst h <;>
      refine ⟨_, rfl, fun s' => ?_⟩
    · exact cbSet_reg_cellOwn ho (fun s => s.push tm cb) s'
    · exact cbSet_reg_cellOwn ho (fun s => s.push tm cb) s'
  | copy n =>
    cases tg <;> simp only [registerCb, Option.some.injEq, reduceCtorEq] at h <;> subst h <;>
      refine ⟨_, rfl, fun s' => ?_⟩
    · exact cbSet_reg_copyOwn ho (fun s => s.push tm cb) s'
    · exact cbSet_reg_copyOwn ho (fun s => s.push tm cb) s'

/-! ### registration touches nothing but callback sets -/

theorem map_modify_of {α β : Type} (l : List α) (i : Nat) (f : α → α) (g : α → β) (h : ∀ x, g (f x) = g x) :
    (l.modify i f).map g = l.map g := by
  apply List.ext_getElem?
  intro j
  simp only [List.getElem?_map, List.getElem?_modify]
  split
  · cases l[j]? <;> simp [h]
  · simp

theorem noCbs_modTable (w : World) (t : Nat) (f : Table → Table) (h : ∀ tb, (f tb).noCbs = tb.noCbs) :
    (w.modTable t f).noCbs = w.noCbs := by
  simp only [World.noCbs, World.modTable, map_modify_of _ _ _ _ h]

theorem noCbs_modRow (w : World) (r : Nat) (f : Row → Row) (h : ∀ rw, (f rw).noCbs = rw.noCbs) :
    (w.modRow r f).noCbs = w.noCbs := by
  simp only [World.noCbs, World.modRow, map_modify_of _ _ _ _ h]

theorem registerCb_noCbs {w w' : World} {owner : Target} {tm : Time} {tg : CbTarget} {cb : Cb}
    (h : registerCb w owner tm tg cb = some w') : w'.noCbs = w.noCbs := by
  cases owner <;> cases tg <;> simp only [registerCb, Option.some.injEq, reduceCtorEq] at h <;> subst h
  case table.itself | table.cell | table.row => exact noCbs_modTable _ _ _ (fun _ => rfl)
  case column.itself | column.cell =>
    refine noCbs_modTable _ _ _ (fun tb => ?_)
    simp only [Table.noCbs]
    rw [map_modify_of]; intro _; rfl
  case row.itself | row.cell | row.row => exact noCbs_modRow _ _ _ (fun _ => rfl)
  case cell.itself | cell.cell =>
    refine noCbs_modRow _ _ _ (fun rw => ?_)
    simp only [Row.noCbs]
    cases rw.cells with
    | none => rfl
    | some cs =>
      simp only [Option.map_some]
      rw [map_modify_of]; intro _; rfl
  case copy.itself | copy.cell =>
    simp only [World.noCbs]
    rw [map_modify_of]; intro _; rfl

end C13
end Tab
