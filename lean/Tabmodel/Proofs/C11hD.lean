/- C11, history level — the two kinds of step (ownership unchanged / a row joins a table) and the
   operations that raise nothing. -/
import Tabmodel.Proofs.C11hC
import Tabmodel.Proofs.WorldObs
namespace Tab
namespace World

/-! ### the error-routing half of `HInv` -/

structure HE (hs : List Nat) (w : World) : Prop where
  att : ∀ t, t < w.tables.length → attachedAll w t
  ect : ∀ r t, (w.row r).ec = .table t → t < w.tables.length ∧ (r ∈ (w.table t).rows ∨ r ∈ hs)

theorem HE.of_stable {hs : List Nat} {w w' : World} (h : HE hs w) (s : Stable w w') : HE hs w' where
  att t ht := attachedAll_stable s t (h.att t (by rw [← s.tlen]; exact ht))
  ect r t hec := by
    obtain ⟨h1, h2⟩ := h.ect r t ((s.ecT r t).mpr hec)
    exact ⟨by rw [s.tlen]; exact h1, by rw [s.trows]; exact h2⟩

theorem unattached_iff (w : World) (r : Nat) : unattached w r ↔ ∀ t, (w.row r).ec ≠ .table t := by
  unfold unattached
  cases (w.row r).ec <;> simp

theorem unattached_oob (w : World) (r : Nat) (h : w.rows.length ≤ r) : unattached w r := by
  left; rw [row_oob w r h]

theorem cnt_row_oob (w : World) (r e : Nat) (h : w.rows.length ≤ r) : cnt w e (.row r) = 0 := by
  simp only [cnt, row_oob w r h]; rfl

theorem cnt_row_unattached (w : World) (r e : Nat) (h : unattached w r) :
    cnt w e (.row r) = (rowErrors w r).count e := by
  simp only [cnt, ownCount, rowErrors]
  rcases h with h | ⟨es, h⟩ <;> simp [h]

theorem ownerOf_congr {w w' : World}
    (h : ∀ r t, (w.row r).ec = .table t ↔ (w'.row r).ec = .table t) (s : Src) :
    w'.ownerOf s = w.ownerOf s := by
  cases s with
  | table t => rfl
  | row r =>
    simp only [ownerOf]
    cases h1 : (w.row r).ec with
    | table t => rw [(h r t).mp h1]
    | none =>
      cases h2 : (w'.row r).ec with
      | table t => have := (h r t).mpr h2; rw [h1] at this; cases this
      | none => rfl
      | own es => rfl
    | own es =>
      cases h2 : (w'.row r).ec with
      | table t => have := (h r t).mpr h2; rw [h1] at this; cases this
      | none => rfl
      | own es => rfl

theorem ownerOf_row_unattached {w : World} {r : Nat} (h : unattached w r) :
    w.ownerOf (.row r) = .row r := by
  simp only [ownerOf]
  rcases h with h | ⟨es, h⟩ <;> simp [h]

/-! ### the two kinds of step -/

/-- ownership unchanged; `n` errors `e` raised on `d` -/
structure SStep (e : Nat) (d : Option Src) (n : Nat) (w w' : World) : Prop where
  own : ∀ r t, (w.row r).ec = .table t ↔ (w'.row r).ec = .table t
  ms : mass w' e = mass w e + n
  ct : ∀ g, cnt w' e g = cnt w e g + if d.map w.ownerOf = some g then n else 0

/-- the unattached row `r` joins table `t`; `n` errors `e` raised on the table -/
structure AStep (e t r n : Nat) (w w' : World) : Prop where
  un : unattached w r
  ec : (w'.row r).ec = .table t
  own : ∀ r', r' ≠ r → ∀ t', (w.row r').ec = .table t' ↔ (w'.row r').ec = .table t'
  ms : mass w' e = mass w e + n
  ctT : ∀ t', cnt w' e (.table t') = cnt w e (.table t') + if t' = t then cnt w e (.row r) + n else 0
  ctR : ∀ r', r' ≠ r → cnt w' e (.row r') = cnt w e (.row r')

theorem SStep.same {e : Nat} {d : Option Src} {w w' : World}
    (h₁ : ∀ t, (w'.table t).errs = (w.table t).errs) (h₂ : ∀ r, (w'.row r).ec = (w.row r).ec)
    (hm : mass w' e = mass w e) : SStep e d 0 w w' :=
  ⟨fun r t => by rw [h₂], by rw [hm]; rfl, fun g => by rw [cnt_congr h₁ h₂]; simp⟩

theorem SStep.of_good {e n : Nat} {d : Option Src} {g0 : Src} {w w' : World}
    (h : Good w e 0 g0 (w', n)) (hd : d.map w.ownerOf = some g0) : SStep e d n w w' where
  own := h.st.ecT
  ms := by have := h.ms; simpa using this
  ct g := by
    have := h.ct g
    simp only [Nat.sub_zero] at this
    rw [this, hd]
    by_cases hg : g = g0
    · subst hg; simp
    · have : ¬ g0 = g := fun x => hg x.symm
      simp [hg, this]

/-! ### stores that grow -/

theorem getD_append_default {α} (l : List α) (d : α) (i : Nat) : (l ++ [d]).getD i d = l.getD i d := by
  rcases Nat.lt_trichotomy i l.length with h | h | h
  · exact getD_append_lt l d d i h
  · subst h
    rw [getD_append_length]
    simp [List.getD_eq_getElem?_getD]
  · have h1 : l.length ≤ i := Nat.le_of_lt h
    have h2 : (l ++ [d]).length ≤ i := by simp; omega
    simp [List.getD_eq_getElem?_getD, List.getElem?_eq_none h1, List.getElem?_eq_none h2]

theorem getD_append_ne {α} (l : List α) (a d : α) (i : Nat) (h : i ≠ l.length) :
    (l ++ [a]).getD i d = l.getD i d := by
  rcases Nat.lt_or_gt_of_ne h with h | h
  · exact getD_append_lt l a d i h
  · have h1 : l.length ≤ i := Nat.le_of_lt h
    have h2 : (l ++ [a]).length ≤ i := by simp; omega
    simp [List.getD_eq_getElem?_getD, List.getElem?_eq_none h1, List.getElem?_eq_none h2]

theorem table_newTable (w : World) (t : Nat) : w.newTable.1.table t = w.table t :=
  getD_append_default w.tables {} t

theorem row_newRow_ne (w : World) (rw : Row) (r : Nat) (h : r ≠ w.rows.length) :
    (w.newRow rw).1.row r = w.row r := getD_append_ne w.rows rw {} r h

theorem ec_newRow (w : World) (rw : Row) (h : rw.ec = .none) (r : Nat) :
    ((w.newRow rw).1.row r).ec = (w.row r).ec := by
  by_cases hr : r = w.rows.length
  · subst hr; rw [row_newRow_self, row_oob w _ (Nat.le_refl _)]; exact h
  · rw [row_newRow_ne w rw r hr]

theorem mass_newTable (w : World) (e : Nat) : mass w.newTable.1 e = mass w e := by
  simp [mass, newTable]

theorem mass_newRow (w : World) (rw : Row) (e : Nat) (h : ownCount e rw = 0) :
    mass (w.newRow rw).1 e = mass w e := by
  simp [mass, newRow, h]

theorem sstep_newTable (w : World) (e : Nat) (d : Option Src) : SStep e d 0 w w.newTable.1 :=
  SStep.same (fun t => by rw [table_newTable]) (fun _ => rfl) (mass_newTable w e)

theorem sstep_newRow (w : World) (rw : Row) (h : rw.ec = .none) (e : Nat) (d : Option Src) :
    SStep e d 0 w (w.newRow rw).1 :=
  SStep.same (fun _ => rfl) (ec_newRow w rw h) (mass_newRow w rw e (by simp [ownCount, h]))

theorem he_newTable {hs : List Nat} {w : World} (h : HE hs w) : HE hs w.newTable.1 where
  att t ht := by
    have hlen : w.newTable.1.tables.length = w.tables.length + 1 := by simp [newTable]
    rw [hlen] at ht
    by_cases h' : t < w.tables.length
    · exact (attachedAll_newTable w t (h.att t h')).1
    · have : t = w.tables.length := by omega
      subst this
      refine ⟨by rw [hlen]; omega, ?_, ?_⟩
      · intro r hm; rw [table_newTable, table_oob w _ (Nat.le_refl _)] at hm; simp at hm
      · intro r hm; rw [table_newTable, table_oob w _ (Nat.le_refl _)] at hm; simp at hm
  ect r t hec := by
    obtain ⟨h1, h2⟩ := h.ect r t hec
    refine ⟨by simp [newTable]; omega, ?_⟩
    rw [table_newTable]; exact h2

theorem he_newRow {hs : List Nat} {w : World} (h : HE hs w) (rw : Row) (hn : rw.ec = .none) :
    HE hs (w.newRow rw).1 where
  att t ht := attachedAll_newRow w rw t (h.att t ht)
  ect r t hec := by
    rw [ec_newRow w rw hn] at hec
    exact h.ect r t hec

/-! ### operations that touch neither lists nor containers -/

theorem stable_items (w : World) (its : List Item) : Stable w { w with items := its } :=
  ⟨rfl, rfl, fun _ => rfl, fun _ => rfl, fun _ => ⟨[], by simp [table]⟩, fun _ _ => Iff.rfl,
   fun _ es h => ⟨[], by simpa [row] using h⟩⟩

theorem registerCb_same (w w' : World) (owner : Target) (tm : Time) (tg : CbTarget) (cb : Cb)
    (h : registerCb w owner tm tg cb = some w') :
    (∀ t, (w'.table t).errs = (w.table t).errs) ∧ (∀ r, (w'.row r).ec = (w.row r).ec) ∧
    ∀ e, mass w' e = mass w e := by
  cases owner <;> cases tg <;> simp only [registerCb, Option.some.injEq, reduceCtorEq] at h <;>
    subst h <;>
    first
    | exact ⟨fun t => by refine table_modTable_proj _ _ _ (·.errs) ?_ _; intro _; rfl,
        fun _ => rfl, fun e => by refine mass_modTable_same _ _ _ _ ?_; intro _; rfl⟩
    | exact ⟨fun _ => rfl,
        fun r => by refine row_modRow_proj _ _ _ (·.ec) ?_ _; intro _; rfl,
        fun e => by refine mass_modRow_same _ _ _ _ ?_; intro _; rfl⟩
    | exact ⟨fun _ => rfl, fun _ => rfl, fun _ => rfl⟩

end World
end Tab
