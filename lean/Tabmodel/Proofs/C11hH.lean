/- C11, history level — lists only grow (`Grow`), and the ledger invariant. -/
import Tabmodel.Proofs.C11hG
namespace Tab
namespace World

/-! ### lists only ever grow by appending -/

/-- From `w` to `w'`: every table's list has only been appended to; a row sharing a table's
    container still does; a row's own list has only been appended to, or has been absorbed, as a
    contiguous block, into the list of the table the row now belongs to. -/
structure Grow (w w' : World) : Prop where
  terrs : ∀ t, (w.table t).errs <+: (w'.table t).errs
  ecT : ∀ r t, (w.row r).ec = .table t → (w'.row r).ec = .table t
  ecO : ∀ r es, (w.row r).ec = .own es →
    (∃ l, (w'.row r).ec = .own (es ++ l)) ∨
    (∃ t, (w'.row r).ec = .table t ∧ es <:+: (w'.table t).errs)

theorem Grow.refl (w : World) : Grow w w :=
  ⟨fun _ => List.prefix_refl _, fun _ _ h => h, fun _ es h => Or.inl ⟨[], by simpa using h⟩⟩

theorem Grow.trans {a b c : World} (h₁ : Grow a b) (h₂ : Grow b c) : Grow a c where
  terrs t := (h₁.terrs t).trans (h₂.terrs t)
  ecT r t h := h₂.ecT r t (h₁.ecT r t h)
  ecO r es h := by
    rcases h₁.ecO r es h with ⟨l, hl⟩ | ⟨t, ht, hin⟩
    · rcases h₂.ecO r _ hl with ⟨l', hl'⟩ | ⟨t, ht, hin⟩
      · exact Or.inl ⟨l ++ l', by rw [hl', List.append_assoc]⟩
      · refine Or.inr ⟨t, ht, ?_⟩
        exact (List.prefix_append es l).isInfix.trans hin
    · exact Or.inr ⟨t, h₂.ecT r t ht, hin.trans (h₂.terrs t).isInfix⟩

theorem Grow.of_stable {w w' : World} (s : Stable w w') : Grow w w' where
  terrs t := by obtain ⟨l, hl⟩ := s.terrs t; rw [hl]; exact List.prefix_append _ _
  ecT r t h := (s.ecT r t).mp h
  ecO r es h := Or.inl (s.ecO r es h)

theorem Grow.of_same {w w' : World} (h₁ : ∀ t, (w'.table t).errs = (w.table t).errs)
    (h₂ : ∀ r, (w'.row r).ec = (w.row r).ec) : Grow w w' where
  terrs t := by rw [h₁]; exact List.prefix_refl _
  ecT r t h := by rw [h₂]; exact h
  ecO r es h := Or.inl ⟨[], by rw [h₂]; simpa using h⟩

theorem grow_addRow (dw : Measure) (w : World) (t r : Nat) (ht : t < w.tables.length)
    (hr : r < w.rows.length) (hu : unattached w r) : Grow w (addRow dw w t r) := by
  have hs := addRowCbs_stable dw (addRowCore w t r) t r
  have herr : ∀ t', (w.table t').errs <+: ((addRow dw w t r).table t').errs := by
    intro t'
    rw [addRow_eq]
    obtain ⟨l, hl⟩ := hs.terrs t'
    rw [hl]
    by_cases htt : t' = t
    · subst htt
      rw [addRowCore_errs w t' r ht hu, List.append_assoc]; exact List.prefix_append _ _
    · rw [addRowCore_errs_ne w t r t' (Ne.symm htt)]; exact List.prefix_append _ _
  refine ⟨herr, ?_, ?_⟩
  · intro r' t' h
    have hne : r' ≠ r := by
      intro x; subst x
      exact ((unattached_iff w r').mp hu t') h
    rw [addRow_eq]
    refine (hs.ecT r' t').mp ?_
    rw [addRowCore_ec_ne w t r r' (Ne.symm hne)]; exact h
  · intro r' es h
    by_cases hne : r' = r
    · subst hne
      refine Or.inr ⟨t, addRow_ec dw w t r' hr, ?_⟩
      rw [addRow_eq]
      obtain ⟨l, hl⟩ := hs.terrs t
      rw [hl, addRowCore_errs w t r' ht hu]
      have : rowErrors w r' = es := by simp only [rowErrors, h]
      rw [this]
      exact ⟨(w.table t).errs, l, by simp⟩
    · left
      rw [addRow_eq]
      exact hs.ecO r' es (by rw [addRowCore_ec_ne w t r r' (Ne.symm hne)]; exact h)

theorem grow_newRow (w : World) (rw : Row) (h : rw.ec = .none) : Grow w (w.newRow rw).1 :=
  Grow.of_same (fun _ => rfl) (ec_newRow w rw h)

theorem grow_addSeparator (w : World) (t : Nat) : Grow w (addSeparator w t) where
  terrs t' := by rw [addSeparator_errs]; exact List.prefix_refl _
  ecT r t' h := by
    have : r ≠ w.rows.length := by
      intro x; subst x; rw [row_oob w _ (Nat.le_refl _)] at h; cases h
    rw [addSeparator_row_ne w t r this]; exact h
  ecO r es h := by
    have : r ≠ w.rows.length := by
      intro x; subst x; rw [row_oob w _ (Nat.le_refl _)] at h; cases h
    exact Or.inl ⟨[], by rw [addSeparator_row_ne w t r this]; simpa using h⟩

theorem grow_addHeaders (dw : Measure) (w : World) (t : Nat) (items : List Nat)
    (ht : t < w.tables.length) : Grow w (addHeaders dw w t items) := by
  obtain ⟨A, _, _, herr, hown⟩ := addHeaders_law dw 0 w t items ht
  rw [addHeadersK_fst] at A herr hown
  refine ⟨herr, ?_, ?_⟩
  · intro r t' h
    have : r ≠ w.rows.length := by
      intro x; subst x; rw [row_oob w _ (Nat.le_refl _)] at h; cases h
    exact (A.own r this t').mp h
  · intro r es h
    have : r ≠ w.rows.length := by
      intro x; subst x; rw [row_oob w _ (Nat.le_refl _)] at h; cases h
    exact Or.inl (hown r es this h)

/-! ### the ledger -/

/-- `g` reports for itself: a table; a row that does not share a table's container -/
def Home (w : World) : Src → Prop
  | .table _ => True
  | .row r => unattached w r

/-- every self-reporting object holds exactly what the ledger charges to it -/
def Led (e : Nat) (w : World) (L : List (Option Src × Nat)) : Prop :=
  ∀ g, Home w g → cnt w e g = charged w g L

theorem charged_nil (w : World) (g : Src) : charged w g [] = 0 := rfl

theorem charged_cons (w : World) (g : Src) (d : Option Src) (n : Nat) (L : List (Option Src × Nat)) :
    charged w g ((d, n) :: L) = (if d.map w.ownerOf = some g then n else 0) + charged w g L := by
  simp only [charged, List.filter_cons]
  by_cases h : d.map w.ownerOf = some g <;> simp [h]

theorem charged_append (w : World) (g : Src) (A B : List (Option Src × Nat)) :
    charged w g (A ++ B) = charged w g A + charged w g B := by
  simp [charged, List.filter_append]

theorem charged_congr {w w' : World} (h : ∀ s, w'.ownerOf s = w.ownerOf s) (g : Src)
    (L : List (Option Src × Nat)) : charged w' g L = charged w g L := by
  have : w'.ownerOf = w.ownerOf := funext h
  simp only [charged, this]

theorem ownerOf_ne_row (w : World) (s : Src) (r : Nat) (hs : s ≠ .row r) : w.ownerOf s ≠ .row r := by
  cases s with
  | table t => intro x; cases x
  | row r' =>
    simp only [ownerOf]
    cases (w.row r').ec with
    | table t => intro x; cases x
    | none => exact hs
    | own es => exact hs

/-- when row `r` (which reported for itself) joins table `t`, what was charged to it is now
    charged to the table -/
theorem charged_transfer {w w' : World} {t r : Nat}
    (ho : ∀ s, w'.ownerOf s = if s = .row r then .table t else w.ownerOf s)
    (hu : w.ownerOf (.row r) = .row r) (g : Src) (hg : g ≠ .row r) (L : List (Option Src × Nat)) :
    charged w' g L = charged w g L + if g = .table t then charged w (.row r) L else 0 := by
  induction L with
  | nil => simp [charged_nil]
  | cons p L ih =>
    obtain ⟨d, n⟩ := p
    rw [charged_cons, charged_cons, charged_cons, ih]
    cases d with
    | none => simp
    | some s =>
      simp only [Option.map_some, Option.some.injEq, ho]
      by_cases hs : s = .row r
      · subst hs
        simp only [if_true, hu]
        have : ¬ Src.row r = g := fun x => hg x.symm
        simp only [this, if_false]
        by_cases hgt : g = .table t
        · subst hgt; simp; omega
        · have : ¬ Src.table t = g := fun x => hgt x.symm
          simp [hgt, this]
      · have h1 : w.ownerOf s ≠ .row r := ownerOf_ne_row w s r hs
        simp only [hs, if_false, h1]
        split <;> split <;> omega

theorem Led.sstep {e n : Nat} {d : Option Src} {w w' : World} {L : List (Option Src × Nat)}
    (h : Led e w L) (s : SStep e d n w w') : Led e w' (L ++ [(d, n)]) := by
  have ho := ownerOf_congr s.own
  intro g hg
  have hg' : Home w g := by
    cases g with
    | table t => trivial
    | row r =>
      simp only [Home, unattached_iff] at hg ⊢
      intro t ht; exact hg t ((s.own r t).mp ht)
  rw [s.ct g, h g hg', charged_append, charged_congr ho, charged_cons, charged_nil]
  have : w'.ownerOf = w.ownerOf := funext ho
  rw [this]; simp

theorem Led.astep {e t r n : Nat} {w w' : World} {L : List (Option Src × Nat)}
    (h : Led e w L) (a : AStep e t r n w w') : Led e w' (L ++ [(some (.table t), n)]) := by
  have hu := ownerOf_row_unattached a.un
  have ho : ∀ s, w'.ownerOf s = if s = .row r then .table t else w.ownerOf s := by
    intro s
    cases s with
    | table t' => simp [ownerOf]
    | row r' =>
      by_cases hr : r' = r
      · subst hr; simp [ownerOf, a.ec]
      · have : ¬ Src.row r' = Src.row r := by intro x; cases x; exact hr rfl
        simp only [this, if_false]
        -- same ownership for the other rows
        simp only [ownerOf]
        cases h1 : (w.row r').ec with
        | table t' => rw [(a.own r' hr t').mp h1]
        | none =>
          cases h2 : (w'.row r').ec with
          | table t' => have := (a.own r' hr t').mpr h2; rw [h1] at this; cases this
          | none => rfl
          | own es => rfl
        | own es =>
          cases h2 : (w'.row r').ec with
          | table t' => have := (a.own r' hr t').mpr h2; rw [h1] at this; cases this
          | none => rfl
          | own es => rfl
  intro g hg
  cases g with
  | table t' =>
    rw [a.ctT t', h (.table t') trivial, h (.row r) a.un, charged_append,
      charged_transfer ho hu (.table t') (by intro x; cases x), charged_cons, charged_nil]
    simp only [Option.map_some, ho, Option.some.injEq]
    have h1 : ¬ Src.table t = Src.row r := by intro x; cases x
    simp only [h1, if_false, ownerOf]
    by_cases htt : t' = t
    · subst htt; simp; omega
    · have h2 : ¬ Src.table t' = Src.table t := by intro x; cases x; exact htt rfl
      have h3 : ¬ Src.table t = Src.table t' := by intro x; cases x; exact htt rfl
      simp [htt, h2, h3]
  | row r' =>
    have hg : unattached w' r' := hg
    have hne : r' ≠ r := by
      intro x; subst x
      exact ((unattached_iff w' r').mp hg t) a.ec
    have hg' : unattached w r' := by
      rw [unattached_iff] at hg ⊢
      intro t' ht'; exact hg t' ((a.own r' hne t').mp ht')
    have h1 : ¬ Src.row r' = Src.row r := by intro x; cases x; exact hne rfl
    rw [a.ctR r' hne, h (.row r') hg', charged_append, charged_transfer ho hu (.row r') h1,
      charged_cons, charged_nil]
    simp only [Option.map_some, ho, Option.some.injEq]
    have h2 : ¬ Src.table t = Src.row r := by intro x; cases x
    have h3 : ¬ Src.row r' = Src.table t := by intro x; cases x
    have h4 : ¬ Src.table t = Src.row r' := by intro x; cases x
    simp [h2, h3, h4, ownerOf]

end World
end Tab
