/- Model-side lemmas for C05: what `csvEmitRow` / `renderCsv` write, as a function of the view. -/
import Tabmodel.Model.Csv
import Tabmodel.Proofs.EmitLemmas
namespace Tab
open Emit

/-- wire format of one all-fields-quoted record -/
def csvEncRow : List Bytes → Bytes
  | [] => [LF]
  | [f] => csvEscape f ++ [LF]
  | f :: f' :: fs => csvEscape f ++ COMMA :: csvEncRow (f' :: fs)

/-- the texts of a row, right-padded with empty fields to `n` -/
def csvPad (n : Nat) (cells : List RCell) : List Bytes :=
  cells.map (·.text) ++ List.replicate (n - cells.length) []

theorem csvEncRow_cons_ne (f : Bytes) {t : List Bytes} (ht : t ≠ []) :
    csvEncRow (f :: t) = csvEscape f ++ COMMA :: csvEncRow t := by
  cases t with
  | nil => exact absurd rfl ht
  | cons f' fs => rfl

theorem csvEncRow_pad (l : Bytes) (k : Nat) :
    csvEncRow (l :: List.replicate k []) =
      csvEscape l ++ ((List.replicate k [COMMA, DQ, DQ]).flatten ++ [LF]) := by
  induction k generalizing l with
  | zero => simp [csvEncRow]
  | succ k ih =>
    rw [List.replicate_succ, csvEncRow_cons_ne _ (by simp), ih []]
    simp [csvEscape, csvEscBody, List.replicate_succ]

theorem csvEncRow_general (fs : List Bytes) (l : Bytes) (k : Nat) :
    csvEncRow (fs ++ l :: List.replicate k []) =
      (fs.map (fun f => csvEscape f ++ [COMMA])).flatten ++
        (csvEscape l ++ ((List.replicate k [COMMA, DQ, DQ]).flatten ++ [LF])) := by
  induction fs with
  | nil => simpa using csvEncRow_pad l k
  | cons f fs ih =>
    rw [List.cons_append, csvEncRow_cons_ne _ (by simp), ih]
    simp

theorem bind'_mk_ok (cs : List Bytes) (a : α) (f : α → Emit β) :
    bind' (⟨cs, .ok a⟩ : Emit α) f = ⟨cs ++ (f a).chunks, (f a).res⟩ := by
  unfold bind'; rfl

theorem forM'_write (xs : List α) (g : α → Bytes) :
    forM' xs (fun x => write (g x)) = ⟨xs.map g, .ok ()⟩ := by
  induction xs with
  | nil => rfl
  | cons x xs ih => simp [ih]

/-- too many cells: the structural error, nothing written -/
theorem csvEmitRow_structural {ncols : Nat} {cells : List RCell} (h : ncols < cells.length) :
    csvEmitRow ncols cells = fail .structural := by
  unfold csvEmitRow; simp [h]

/-- the chunk trace of a well-shaped row -/
theorem csvEmitRow_eq {ncols : Nat} (L : List RCell) (lastText : Bytes) (cells : List RCell)
    (hlen : cells.length ≤ ncols)
    (htake : cells.take (cells.length - 1) = L)
    (hlast : (if cells.length > 0 then
        (idx cells (cells.length - 1) "csv.emitRow.cells[i]").bind' fun c => pure' c.text
        else pure' []) = pure' lastText) :
    csvEmitRow ncols cells =
      ⟨L.map (fun c => csvEscape c.text ++ [COMMA]) ++ csvEscape lastText ::
        ((List.range (ncols - (cells.length - 1 + 1))).map (fun _ => [COMMA, DQ, DQ]) ++ [[LF]]),
       .ok ()⟩ := by
  unfold csvEmitRow
  simp only [bind_eq, pure_eq]
  rw [if_neg (by omega), hlast, htake, forM'_write, forM'_write]
  simp [bind'_mk_ok, write]

theorem csvEmitRow_ok {ncols : Nat} {cells : List RCell} (h1 : 1 ≤ ncols) (hlen : cells.length ≤ ncols) :
    (csvEmitRow ncols cells).res = .ok () ∧
    (csvEmitRow ncols cells).output = csvEncRow (csvPad ncols cells) := by
  rcases List.eq_nil_or_concat cells with rfl | ⟨L, b, rfl⟩
  · rw [csvEmitRow_eq [] [] [] hlen rfl rfl]
    refine ⟨rfl, ?_⟩
    have : csvPad ncols [] = [] ++ [] :: List.replicate (ncols - 1) [] := by
      obtain ⟨k, rfl⟩ : ∃ k, ncols = k + 1 := ⟨ncols - 1, by omega⟩
      simp [csvPad, List.replicate_succ]
    rw [this, csvEncRow_general]
    simp [output, List.map_const']
  · rw [List.concat_eq_append] at hlen ⊢
    have hl : (L ++ [b]).length - 1 = L.length := by simp
    rw [csvEmitRow_eq L b.text (L ++ [b]) hlen (by rw [hl]; simp)
      (by rw [hl, if_pos (by simp), idx_ok (x := b) (by simp)]; simp)]
    refine ⟨rfl, ?_⟩
    have : csvPad ncols (L ++ [b]) =
        L.map (·.text) ++ b.text :: List.replicate (ncols - (L ++ [b]).length) [] := by
      simp [csvPad]
    rw [this, csvEncRow_general]
    simp [output, List.map_const', List.map_map, Function.comp_def]

theorem output_bind'_ok {m : Emit α} {a : α} (h : m.res = .ok a) (f : α → Emit β) :
    (bind' m f).output = m.output ++ (f a).output := by
  simp [output, (bind'_ok h f).1]

/-- the per-row body of the `RenderTo` loop -/
def csvBody (n : Nat) (r : Option (List RCell)) : Emit Unit :=
  match r with
  | none => pure' ()
  | some cells => csvEmitRow n cells

/-- the records of a row list: separators dropped, the rest padded -/
def csvRowRecs (n : Nat) (rows : List (Option (List RCell))) : List (List Bytes) :=
  rows.filterMap (fun r => r.map (csvPad n))

theorem csvRows_ok {n : Nat} (h1 : 1 ≤ n) (rows : List (Option (List RCell)))
    (hr : ∀ cells, some cells ∈ rows → cells.length ≤ n) :
    (forM' rows (csvBody n)).res = .ok () ∧
    (forM' rows (csvBody n)).output = (csvRowRecs n rows).flatMap csvEncRow := by
  induction rows with
  | nil => exact ⟨rfl, rfl⟩
  | cons r rows ih =>
    have ih' := ih (fun c hc => hr c (List.mem_cons_of_mem _ hc))
    cases r with
    | none =>
      simp only [forM'_cons, csvBody, bind'_pure']
      simpa [csvRowRecs] using ih'
    | some cells =>
      have hc := csvEmitRow_ok h1 (hr cells (by simp))
      simp only [forM'_cons, csvBody]
      refine ⟨(bind'_ok hc.1 _).2.trans ih'.1, ?_⟩
      rw [output_bind'_ok hc.1, hc.2, ih'.2]
      simp [csvRowRecs]

theorem csvRows_bad {n : Nat} (h1 : 1 ≤ n) (rows : List (Option (List RCell)))
    (hr : ∃ cells, some cells ∈ rows ∧ n < cells.length) :
    (forM' rows (csvBody n)).res = .error (.err .structural) := by
  induction rows with
  | nil => obtain ⟨c, hc, _⟩ := hr; simp at hc
  | cons r rows ih =>
    cases r with
    | none =>
      simp only [forM'_cons, csvBody, bind'_pure']
      apply ih
      obtain ⟨c, hc, hlt⟩ := hr
      exact ⟨c, by simpa using hc, hlt⟩
    | some cells =>
      simp only [forM'_cons, csvBody]
      by_cases hlt : n < cells.length
      · rw [csvEmitRow_structural hlt]; simp
      · have hc := csvEmitRow_ok h1 (Nat.le_of_not_lt hlt)
        rw [(bind'_ok hc.1 _).2]
        apply ih
        obtain ⟨c, hc, hlt'⟩ := hr
        rcases List.mem_cons.1 hc with heq | hmem
        · cases heq; exact absurd hlt' hlt
        · exact ⟨c, hmem, hlt'⟩

/-- `renderCsv` past the column check, with the loop body named -/
theorem renderCsv_eq {v : RTable} (h1 : 1 ≤ v.ncols) :
    renderCsv v = bind' (csvBody v.ncols v.header) (fun _ => forM' v.rows (csvBody v.ncols)) := by
  unfold renderCsv
  simp only [bind_eq, pure_eq]
  rw [if_neg (by omega)]
  cases v.header with
  | none => simp only [csvBody, bind'_pure']; rfl
  | some hs => rfl

theorem renderCsv_noColumns {v : RTable} (h0 : v.ncols = 0) : renderCsv v = fail .noColumns := by
  unfold renderCsv; simp [h0]

/-- header record (if any) followed by the row records -/
def csvRecs (v : RTable) : List (List Bytes) := csvRowRecs v.ncols (v.header :: v.rows)

theorem renderCsv_ok {v : RTable} (h1 : 1 ≤ v.ncols)
    (hh : ∀ hs, v.header = some hs → hs.length ≤ v.ncols)
    (hr : ∀ cells, some cells ∈ v.rows → cells.length ≤ v.ncols) :
    (renderCsv v).res = .ok () ∧ (renderCsv v).output = (csvRecs v).flatMap csvEncRow := by
  have := csvRows_ok h1 (v.header :: v.rows) (by
    intro c hc
    rcases List.mem_cons.1 hc with heq | hmem
    · exact hh c heq.symm
    · exact hr c hmem)
  rw [renderCsv_eq h1]
  exact this

theorem renderCsv_bad {v : RTable} (h1 : 1 ≤ v.ncols)
    (hb : (∃ hs, v.header = some hs ∧ v.ncols < hs.length) ∨
          (∃ cells, some cells ∈ v.rows ∧ v.ncols < cells.length)) :
    (renderCsv v).res = .error (.err .structural) := by
  rw [renderCsv_eq h1]
  apply csvRows_bad h1 (v.header :: v.rows)
  rcases hb with ⟨hs, hh, hlt⟩ | ⟨c, hc, hlt⟩
  · exact ⟨hs, by simp [hh], hlt⟩
  · exact ⟨c, List.mem_cons_of_mem _ hc, hlt⟩

end Tab
