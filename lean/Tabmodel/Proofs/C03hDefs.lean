/-
  Definitions for `Props/C03h.lean` (definitions and their `Decidable` instances only).

  * `Item.isPlain`, `Item.Fits`: the items whose cells are measured / fit their declared width;
  * `Cell.Measured`: "the cached width is the widest text line, the cached height the line count";
  * `PlainItems dw ops`, `FitItems dw ops`: the two decidable classes of build histories for which
    `World.TableFits` (Proofs/E2EDefs.lean) is discharged;
  * `World.colTexts`: the texts of the header and body cells of one column of a built table.
-/
import Tabmodel.Proofs.E2EDefs
import Tabmodel.Spec.World
namespace Tab

/-- the item is itself a `tabular.Cell` value (the arm of `Cell.Update` that copies the inner fields) -/
def Item.isNested (it : Item) : Bool :=
  match it.kind with
  | .cell _ _ _ _ => true
  | _ => false

/-- "plain": not a nested `Cell`, declares neither `TerminalCellWidth()` nor `Height()`
    (`nil` is plain: its cell has the empty text, width 0, height 0) -/
def Item.isPlain (it : Item) : Prop := it.mWidth = none ∧ it.mHeight = none ∧ it.isNested = false

instance (it : Item) : Decidable it.isPlain := by unfold Item.isPlain; infer_instance

/-- The weakest per-item condition under which the cell `Cell.Update` builds from the item satisfies
    `Cell.FitsSrc`: an item that declares a width has a single-line text (`textForm`, C01); an item
    that declares none is measured by `Update` itself, except a nested `Cell`, whose cached width is
    copied and must already be the widest line of its text.  Heights are unconstrained. -/
def Item.Fits (dw : Measure) (it : Item) : Prop :=
  match it.mWidth with
  | some _ => (lines (textForm it)).length = 1
  | none =>
    match it.kind with
    | .cell s w _ _ => w = (longestLine dw s : Nat)
    | _ => True

instance (dw : Measure) (it : Item) : Decidable (it.Fits dw) := by
  unfold Item.Fits
  cases it.mWidth with
  | some _ => exact inferInstanceAs (Decidable (_ = _))
  | none =>
    cases it.kind with
    | cell s w h e => exact inferInstanceAs (Decidable (_ = _))
    | _ => exact inferInstanceAs (Decidable True)

/-- the cell's cached sizes are those of its text: width = widest line (display cells), height =
    number of lines -/
def Cell.Measured (dw : Measure) (ce : Cell) : Prop :=
  ce.width = (longestLine dw ce.str : Nat) ∧ ce.height = ((Tab.lines ce.str).length : Nat)

instance (dw : Measure) (ce : Cell) : Decidable (ce.Measured dw) := by unfold Cell.Measured; infer_instance

namespace BuildOp

/-- the item ids the operation makes cells from -/
def madeFrom : BuildOp → List Nat
  | .addHeaders _ items => items
  | .addRowItems _ items => items
  | .rowAdd _ i => [i]
  | .rowAddCell _ ce => [ce.item]
  | _ => []

/-- the item store after the operation -/
def storeAfter (s : List Item) : BuildOp → List Item
  | .setItems its => its
  | _ => s

/-- one operation of a plain history: every item of a new store is plain; a cell VALUE handed to
    `Row.Add` (in Go: a by-value copy of a cell, or the zero `Cell{}`) is measured -/
def PlainStep (dw : Measure) : BuildOp → Prop
  | .setItems its => ∀ it ∈ its, it.isPlain
  | .rowAddCell _ ce => ce.Measured dw
  | _ => True

instance (dw : Measure) (op : BuildOp) : Decidable (op.PlainStep dw) := by
  cases op <;> unfold PlainStep <;> infer_instance

/-- one operation of a fitting history, when the store is `s` and cells have been made from the item
    ids `u` so far: every item of a new store `Fits`, and no id in use changes whether it declares a
    width; a cell value handed to `Row.Add` satisfies `Cell.FitsSrc` for the item it names -/
def FitStep (dw : Measure) (s : List Item) (u : List Nat) : BuildOp → Prop
  | .setItems its =>
    (∀ it ∈ its, it.Fits dw) ∧
    ∀ i ∈ u, (its.getD i default).mWidth.isSome = (s.getD i default).mWidth.isSome
  | .rowAddCell _ ce => Cell.FitsSrc dw (s.getD ce.item default) ce
  | _ => True

instance (dw : Measure) (s : List Item) (u : List Nat) (op : BuildOp) : Decidable (op.FitStep dw s u) := by
  cases op <;> unfold FitStep <;> infer_instance

end BuildOp

/-- PLAIN HISTORIES: every item of every item store the history installs is plain, and every cell
    value added with `Row.Add(cell)` is measured.  (`dw` occurs only in the second clause.) -/
def PlainItems (dw : Measure) (ops : List BuildOp) : Prop := ∀ op ∈ ops, op.PlainStep dw

instance (dw : Measure) (ops : List BuildOp) : Decidable (PlainItems dw ops) := by
  unfold PlainItems; infer_instance

/-- `FitItems` from a given store and set of ids in use -/
def fitFrom (dw : Measure) : List Item → List Nat → List BuildOp → Prop
  | _, _, [] => True
  | s, u, op :: ops => op.FitStep dw s u ∧ fitFrom dw (op.storeAfter s) (op.madeFrom ++ u) ops

instance fitFromDec (dw : Measure) : (s : List Item) → (u : List Nat) → (ops : List BuildOp) →
    Decidable (fitFrom dw s u ops)
  | _, _, [] => isTrue trivial
  | s, u, op :: ops =>
    have := fitFromDec dw (op.storeAfter s) (op.madeFrom ++ u) ops
    inferInstanceAs (Decidable (_ ∧ _))

/-- the item store a history ends with, and the item ids it made cells from -/
def finalStore (s : List Item) (ops : List BuildOp) : List Item := ops.foldl (fun s op => op.storeAfter s) s
def finalUsed (u : List Nat) (ops : List BuildOp) : List Nat := ops.foldl (fun u op => op.madeFrom ++ u) u

/-- FITTING HISTORIES (weaker than `PlainItems`): a syntactic fold over the history that tracks the
    current item store and the item ids cells were made from.  Items may declare heights freely, and
    may declare a width when their text is a single line. -/
def FitItems (dw : Measure) (ops : List BuildOp) : Prop := fitFrom dw [] [] ops

instance (dw : Measure) (ops : List BuildOp) : Decidable (FitItems dw ops) := by
  unfold FitItems; infer_instance

namespace World

/-- the cells of (0-based) column `i` of table `t`: the header's, then every row's that has one -/
def colCellsOf (w : World) (t i : Nat) : List Cell :=
  ((w.table t).header.toList ++ (w.table t).rows).filterMap (fun r => (w.rowCells r)[i]?)

/-- their texts -/
def colTexts (w : World) (t i : Nat) : List Bytes := (w.colCellsOf t i).map (·.str)

end World

/-! ### the weaker class: what the renderer needs, rather than what `Cell.FitsSrc` asks -/

/-- `Cell.FitsSrc` without the clause "`it.mWidth = none`" in its first disjunct: the cached width is
    the widest line of the cached text (whether or not the item declares a width: the measuring
    callback uses a declared width for single-line texts only), or the item declares a width and the
    text is a single line -/
def Cell.FitsW (dw : Measure) (it : Item) (ce : Cell) : Prop :=
  ce.width = (longestLine dw ce.str : Nat) ∨ (it.mWidth.isSome = true ∧ ce.lines.length = 1)

instance (dw : Measure) (it : Item) (ce : Cell) : Decidable (Cell.FitsW dw it ce) := by
  unfold Cell.FitsW; infer_instance

/-- the cell `Update` builds from the item satisfies `Cell.FitsW` (the result of `Update` does not
    depend on the cell it is applied to) -/
def Item.FitsW (dw : Measure) (it : Item) : Prop := Cell.FitsW dw it (Cell.update dw it default)

instance (dw : Measure) (it : Item) : Decidable (it.FitsW dw) := by unfold Item.FitsW; infer_instance

namespace World
def TableFitsW (dw : Measure) (w : World) (t : Nat) : Prop :=
  ∀ r ∈ (w.table t).header.toList ++ (w.table t).rows, ∀ ce ∈ w.rowCells r,
    Cell.FitsW dw (w.item ce.item) ce

instance (dw : Measure) (w : World) (t : Nat) : Decidable (TableFitsW dw w t) := by
  unfold TableFitsW; infer_instance
end World

/-- as `FitStep`, with `FitsW`; an id in use may START declaring a width, not stop -/
def BuildOp.FitStepW (dw : Measure) (s : List Item) (u : List Nat) : BuildOp → Prop
  | .setItems its =>
    (∀ it ∈ its, it.FitsW dw) ∧
    ∀ i ∈ u, (s.getD i default).mWidth.isSome = true → (its.getD i default).mWidth.isSome = true
  | .rowAddCell _ ce => Cell.FitsW dw (s.getD ce.item default) ce
  | _ => True

instance (dw : Measure) (s : List Item) (u : List Nat) (op : BuildOp) : Decidable (op.FitStepW dw s u) := by
  cases op <;> unfold BuildOp.FitStepW <;> infer_instance

def fitFromW (dw : Measure) : List Item → List Nat → List BuildOp → Prop
  | _, _, [] => True
  | s, u, op :: ops => op.FitStepW dw s u ∧ fitFromW dw (op.storeAfter s) (op.madeFrom ++ u) ops

instance fitFromWDec (dw : Measure) : (s : List Item) → (u : List Nat) → (ops : List BuildOp) →
    Decidable (fitFromW dw s u ops)
  | _, _, [] => isTrue trivial
  | s, u, op :: ops =>
    have := fitFromWDec dw (op.storeAfter s) (op.madeFrom ++ u) ops
    inferInstanceAs (Decidable (_ ∧ _))

/-- WEAKLY FITTING HISTORIES: enough for the rectangle, not for `TableFits` as defined -/
def FitItemsW (dw : Measure) (ops : List BuildOp) : Prop := fitFromW dw [] [] ops

instance (dw : Measure) (ops : List BuildOp) : Decidable (FitItemsW dw ops) := by
  unfold FitItemsW; infer_instance

end Tab
