/- C13 helper lemmas: add-time callbacks (`Row.Add`, `AddRow`, `AddHeaders`). -/
import Tabmodel.Proofs.C13Render
import Tabmodel.Proofs.C13World
set_option linter.unusedSimpArgs false
namespace Tab
open World
namespace C13

/-! ### structural updates that keep every callback slot -/

theorem cbSet_modRow_of (w : World) (r : Nat) (f : Row → Row)
    (h1 : ∀ rw, (f rw).selfCbs = rw.selfCbs) (h2 : ∀ rw, (f rw).cellCbs = rw.cellCbs)
    (h3 : ∀ rw, (f rw).cells = rw.cells) (s : CbSlot) : (w.modRow r f).cbSet s = w.cbSet s := by
  have hcell : ∀ r' c, (w.modRow r f).cell? r' c = w.cell? r' c := by
    intro r' c
    simp only [World.cell?, World.rowCells, row_modRow]
    split <;> simp [h3]
  cases s <;> simp only [World.cbSet, row_modRow, table_modRow, column?_modRow, copies_modRow, hcell]
  case rowSelf r' => split <;> first | rfl | exact h1 _
  case rowCell r' => split <;> first | rfl | exact h2 _

theorem cbSet_modTable_of (w : World) (t : Nat) (f : Table → Table)
    (h1 : ∀ tb, (f tb).selfCbs = tb.selfCbs) (h2 : ∀ tb, (f tb).cellCbs = tb.cellCbs)
    (h3 : ∀ tb, (f tb).rowCbs = tb.rowCbs)
    (h4 : ∀ (tb : Table) (n : Nat), (((f tb).columns[n]?).map Column.selfCbs).getD {} = ((tb.columns[n]?).map Column.selfCbs).getD {})
    (h5 : ∀ (tb : Table) (n : Nat), (((f tb).columns[n]?).map Column.cellCbs).getD {} = ((tb.columns[n]?).map Column.cellCbs).getD {})
    (s : CbSlot) : (w.modTable t f).cbSet s = w.cbSet s := by
  cases s <;> simp only [World.cbSet, World.column?, table_modTable, row_modTable, cell?_modTable, copies_modTable]
  case tableSelf t' => split <;> first | rfl | exact h1 _
  case tableCell t' => split <;> first | rfl | exact h2 _
  case tableRow t' => split <;> first | rfl | exact h3 _
  case colSelf t' n => split <;> first | rfl | exact h4 _ _
  case colCell t' n => split <;> first | rfl | exact h5 _ _

theorem resize_selfCbs (tb : Table) (n : Nat) : (resizeColumnsAtLeast tb n).selfCbs = tb.selfCbs := by
  unfold resizeColumnsAtLeast; split <;> rfl
theorem resize_cellCbs (tb : Table) (n : Nat) : (resizeColumnsAtLeast tb n).cellCbs = tb.cellCbs := by
  unfold resizeColumnsAtLeast; split <;> rfl
theorem resize_rowCbs (tb : Table) (n : Nat) : (resizeColumnsAtLeast tb n).rowCbs = tb.rowCbs := by
  unfold resizeColumnsAtLeast; split <;> rfl

theorem getElem?_append_replicate_default (cs : List Column) (k n : Nat) (g : Column → CbSet)
    (hg : g ({} : Column) = ({} : CbSet)) :
    (((cs ++ List.replicate k ({} : Column))[n]?).map g).getD {} = ((cs[n]?).map g).getD {} := by
  by_cases h : n < cs.length
  · simp [List.getElem?_append_left h]
  · have h' : cs.length ≤ n := Nat.le_of_not_lt h
    rw [List.getElem?_append_right h', List.getElem?_eq_none h']
    by_cases h2 : n - cs.length < k
    · simp [List.getElem?_replicate, h2, hg]
    · simp [List.getElem?_replicate, h2]

theorem resize_col (tb : Table) (m n : Nat) (g : Column → CbSet) (hg : g ({} : Column) = ({} : CbSet)) :
    ((((resizeColumnsAtLeast tb m).columns)[n]?).map g).getD {} = ((tb.columns[n]?).map g).getD {} := by
  unfold resizeColumnsAtLeast
  split
  · rfl
  · exact getElem?_append_replicate_default _ _ _ g hg

theorem cbSet_resize (w : World) (t m : Nat) (s : CbSlot) :
    (w.modTable t (fun tb => resizeColumnsAtLeast tb m)).cbSet s = w.cbSet s :=
  cbSet_modTable_of w t _ (fun tb => resize_selfCbs tb m) (fun tb => resize_cellCbs tb m)
    (fun tb => resize_rowCbs tb m) (fun tb n => resize_col tb m n _ rfl) (fun tb n => resize_col tb m n _ rfl) s

theorem logOnlyAt_of_cbSet {w w' : World} (h : LogOnlyAt w) (e : ∀ s, w'.cbSet s = w.cbSet s) : LogOnlyAt w' := by
  intro s tm
  simp only [World.cbsAt, e s]
  exact h s tm

/-! ### `Row.Add` -/

theorem rowAddCell_nil (dw : Measure) (w : World) (r : Nat) (ce : Cell) (h : (w.row r).cells = none) :
    rowAddCell dw w r ce = addErrTo w (.rowLazy r) errNonCellRow := by
  unfold rowAddCell; rw [h]

theorem events_addErrTo (w : World) (tk : Taker) (e : Nat) : (addErrTo w tk e).events = w.events := by
  unfold addErrTo
  cases tk with
  | drop => rfl
  | table t => rfl
  | rowOwn r => rfl
  | rowLazy r => dsimp only; split <;> rfl

theorem rowCells_addErrTo (w : World) (tk : Taker) (e : Nat) (r' : Nat) :
    (addErrTo w tk e).rowCells r' = w.rowCells r' := by
  unfold addErrTo
  cases tk with
  | drop => rfl
  | table t => rfl
  | rowOwn r =>
    simp only [World.rowCells, row_modRow]
    split
    · split <;> rfl
    · rfl
  | rowLazy r =>
    dsimp only
    split
    · simp only [World.rowCells, row_modRow]; split <;> rfl
    · simp only [World.rowCells, row_modRow]; split <;> rfl
    · rfl

theorem rowAddLinked_row_cbs (w : World) (r : Nat) (ce : Cell) (cs : List Cell) :
    ((rowAddLinked w r ce cs).row r).cellCbs = (w.row r).cellCbs := by
  unfold rowAddLinked
  dsimp only
  split
  · simp only [row_modTable, row_modRow]; split <;> rfl
  · simp only [row_modRow]; split <;> rfl

theorem rowAddLinked_events (w : World) (r : Nat) (ce : Cell) (cs : List Cell) :
    (rowAddLinked w r ce cs).events = w.events := by
  unfold rowAddLinked
  dsimp only
  split <;> rfl

theorem rowAddLinked_rowCells {w : World} {r : Nat} (hr : r < w.rows.length) (ce : Cell) (cs : List Cell) :
    (rowAddLinked w r ce cs).rowCells r = cs ++ [placedCell r cs.length ce] := by
  unfold rowAddLinked
  dsimp only
  split
  · simp [World.rowCells, row_modRow, hr]
  · simp [World.rowCells, row_modRow, hr]

theorem rowAddCell_log (dw : Measure) {w : World} (h : LogOnlyAt w) (r : Nat) (ce : Cell) (cs : List Cell)
    (hcs : (w.row r).cells = some cs) :
    rowAddCell dw w r ce =
      (rowAddLinked w r ce cs).addEv (logEvents (w.cbsAt (.rowCell r) .add) (.cell r cs.length)) := by
  have hl : ∀ cb ∈ ((rowAddLinked w r ce cs).row r).cellCbs.at .add, cb.isLog = true := by
    rw [rowAddLinked_row_cbs]; exact h (.rowCell r) .add
  have := invoke_log dw (rowAddLinked w r ce cs) _ (.cell r cs.length) (.rowLazy r) hl
  unfold rowAddCell
  rw [hcs]
  dsimp only
  refine Eq.trans this ?_
  rw [rowAddLinked_row_cbs]
  rfl

/-! ### per-cell part of `AddRow` / `AddHeaders` -/

theorem addTimeCells_log (dw : Measure) {w : World} (t r : Nat) (colTaker : World → Taker)
    (hc : ∀ j, ∀ cb ∈ colCellAt w r j .add, cb.isLog = true)
    (ht : ∀ cb ∈ w.cbsAt (.tableCell t) .add, cb.isLog = true) :
    ∀ (n i : Nat) (es : List Event),
      addTimeCells dw t r colTaker n i (w.addEv es) = w.addEv (es ++ addCellsExpected w t r i n) := by
  intro n
  induction n with
  | zero => intro i es; simp [addTimeCells, addCellsExpected]
  | succ n ih =>
    intro i es
    have ht' : ∀ cb ∈ (w.table t).cellCbs.at .add, cb.isLog = true := ht
    unfold addTimeCells
    simp only [columnOf_addEv, colCellCbs_addEv, colCellCbs_eq]
    rw [invoke_log' dw w es _ _ _ (hc i)]
    simp only [table_addEv]
    rw [invoke_log' dw w _ _ _ _ ht', ih]
    simp only [addCellsExpected, List.range'_succ, List.flatMap_cons, World.cbsAt, World.cbSet, List.append_assoc]

/-! ### `AddRow` -/

theorem cbSet_addRowLinked (w : World) (t r : Nat) (s : CbSlot) : (addRowLinked w t r).cbSet s = w.cbSet s := by
  unfold addRowLinked
  dsimp only
  refine (cbSet_modRow_of _ _ _ (by intro _; rfl) (by intro _; rfl) (by intro _; rfl) s).trans ?_
  refine (cbSet_modTable_of _ _ _ (by intro _; rfl) (by intro _; rfl) (by intro _; rfl)
    (by intro _ _; rfl) (by intro _ _; rfl) s).trans ?_
  refine (cbSet_resize _ _ _ s).trans ?_
  refine (cbSet_modRow_of _ _ _ (by intro _; rfl) (by intro _; rfl) (by intro _; rfl) s).trans ?_
  exact cbSet_modTable_of _ _ _ (by intro _; rfl) (by intro _; rfl) (by intro _; rfl)
    (by intro _ _; rfl) (by intro _ _; rfl) s

theorem addRow_log (dw : Measure) {w : World} (h : LogOnlyAt w) (t r : Nat) :
    addRow dw w t r = (addRowLinked w t r).addEv (expectedAddRow (addRowLinked w t r) t r) := by
  have e : ∀ wl, wl = addRowLinked w t r → addRow dw w t r =
      (let w1 := invoke dw wl ((wl.row r).selfCbs.at .add) (.row r) (.table t)
       let w2 := invoke dw w1 ((w1.table t).rowCbs.at .add) (.row r) (.table t)
       addTimeCells dw t r (fun w => rowECTaker w r) (w2.rowCells r).length 0 w2) := by
    intro wl hwl; subst hwl; rfl
  have hl : LogOnlyAt (addRowLinked w t r) := logOnlyAt_of_cbSet h (cbSet_addRowLinked w t r)
  obtain ⟨wl, hwl⟩ : ∃ wl, wl = addRowLinked w t r := ⟨_, rfl⟩
  rw [e wl hwl, ← hwl]
  rw [← hwl] at hl
  have h1 : ∀ cb ∈ (wl.row r).selfCbs.at .add, cb.isLog = true := hl (.rowSelf r) .add
  have h2 : ∀ cb ∈ (wl.table t).rowCbs.at .add, cb.isLog = true := hl (.tableRow t) .add
  dsimp only
  rw [invoke_log dw _ _ _ _ h1]
  simp only [table_addEv, rowCells_addEv]
  rw [invoke_log' dw _ _ _ _ _ h2]
  rw [addTimeCells_log dw t r _ (fun j => colCellAt_log hl r j .add) (hl (.tableCell t) .add)]
  simp only [expectedAddRow, World.cbsAt, World.cbSet, List.append_assoc, rowCells_addEv]

/-! ### `AddRow` of a well-formed row, in terms of the world before the call -/

theorem resize_nColumns_ge (tb : Table) (n : Nat) : n ≤ (resizeColumnsAtLeast tb n).nColumns := by
  unfold resizeColumnsAtLeast
  split
  · assumption
  · exact Nat.le_refl _

theorem rowCells_modRow_keep (w : World) (r : Nat) (f : Row → Row) (hf : ∀ rw, (f rw).cells = rw.cells)
    (r' : Nat) : (w.modRow r f).rowCells r' = w.rowCells r' := by
  simp only [World.rowCells, row_modRow]
  split <;> simp [hf]

theorem addRowLinked_rowCells (w : World) (t r r' : Nat) : (addRowLinked w t r).rowCells r' = w.rowCells r' := by
  unfold addRowLinked
  dsimp only
  refine (rowCells_modRow_keep _ _ _ (by intro _; rfl) _).trans ?_
  refine (rowCells_modTable _ _ _ _).trans ?_
  refine (rowCells_modTable _ _ _ _).trans ?_
  refine (rowCells_modRow_keep _ _ _ (by intro _; rfl) _).trans ?_
  exact rowCells_modTable _ _ _ _

theorem addRowLinked_inTable {w : World} (t : Nat) {r : Nat} (hr : r < w.rows.length) :
    ((addRowLinked w t r).row r).inTable = some t := by
  unfold addRowLinked
  simp [row_modRow, hr]

theorem addRowLinked_nColumns {w : World} {t : Nat} (ht : t < w.tables.length) (r : Nat) :
    (w.rowCells r).length ≤ ((addRowLinked w t r).table t).nColumns := by
  unfold addRowLinked
  simp only [table_modRow, table_modTable, tables_length_modTable, tables_modRow, ht, and_self, if_true,
    rowCells_modTable]
  rw [show ∀ (w' : World) (f : Row → Row), (∀ rw, (f rw).cells = rw.cells) → (w'.modRow r f).rowCells r = w'.rowCells r
    from fun w' f hf => rowCells_modRow_keep w' r f hf r]
  · exact resize_nColumns_ge _ _
  · intro _; rfl

theorem columnOf_addRowLinked {w : World} {t r j : Nat} (ht : t < w.tables.length) (hr : r < w.rows.length)
    (hwf : RowAddWF w r) (hj : j < (w.rowCells r).length) :
    (addRowLinked w t r).columnOf r j = some (t, j + 1) := by
  have hcell : (addRowLinked w t r).cell? r j = w.cell? r j := by
    simp only [World.cell?, addRowLinked_rowCells]
  obtain ⟨ce, hce⟩ : ∃ ce, w.cell? r j = some ce := ⟨_, List.getElem?_eq_getElem hj⟩
  obtain ⟨h1, h2⟩ := hwf (ce, j) (List.mk_mem_zipIdx_iff_getElem?.mpr hce)
  simp only at h1 h2
  have hn := addRowLinked_nColumns ht r
  unfold World.columnOf
  rw [hcell, hce]
  simp only [h1, h2, addRowLinked_inTable t hr]
  have : ¬ (j + 1 < 1) := by omega
  have : ¬ (j + 1 > ((addRowLinked w t r).table t).nColumns) := by omega
  simp [*]

theorem flatMap_congr' {α β : Type} {l : List α} {f g : α → List β} (h : ∀ a ∈ l, f a = g a) :
    l.flatMap f = l.flatMap g := by
  induction l with
  | nil => rfl
  | cons a l ih =>
    simp only [List.flatMap_cons]
    rw [h a (by simp), ih (fun b hb => h b (by simp [hb]))]

theorem expectedAddRow_wf {w : World} {t r : Nat} (ht : t < w.tables.length) (hr : r < w.rows.length)
    (hwf : RowAddWF w r) : expectedAddRow (addRowLinked w t r) t r = expectedAddRowWF w t r := by
  unfold expectedAddRow expectedAddRowWF addCellsExpected
  simp only [World.cbsAt, cbSet_addRowLinked, addRowLinked_rowCells, ← List.range_eq_range']
  congr 1
  apply flatMap_congr'
  intro j hj
  simp only [List.mem_range] at hj
  simp only [colCellAt, columnOf_addRowLinked ht hr hwf hj, World.cbsAt, cbSet_addRowLinked]

/-! ### `AddHeaders` -/

theorem modify_length_append {α : Type} (pre : List α) (x : α) (f : α → α) :
    (pre ++ [x]).modify pre.length f = pre ++ [f x] := by
  induction pre with
  | nil => rfl
  | cons a pre ih => simp [ih]

theorem modRow_last (w : World) (pre : List Row) (rw : Row) (h : w.rows = pre ++ [rw]) (f : Row → Row) :
    w.modRow pre.length f = { w with rows := pre ++ [f rw] } := by
  unfold World.modRow; rw [h, modify_length_append]

theorem row_last (w : World) (pre : List Row) (rw : Row) (h : w.rows = pre ++ [rw]) : w.row pre.length = rw := by
  simp [row_eq, h]

/-- `Row.Add` on a last-allocated row that is in no table and has no add-time cell callbacks -/
theorem rowAddCell_last (dw : Measure) (w : World) (pre : List Row) (rw : Row) (cs : List Cell) (ce : Cell)
    (hrows : w.rows = pre ++ [rw]) (hcs : rw.cells = some cs) (hin : rw.inTable = none)
    (hcb : rw.cellCbs.add = []) :
    rowAddCell dw w pre.length ce =
      { w with rows := pre ++ [{ rw with cells := some (cs ++ [placedCell pre.length cs.length ce]) }] } := by
  have hrow := row_last w pre rw hrows
  unfold rowAddCell
  rw [hrow, hcs]
  dsimp only
  rw [modRow_last w pre rw hrows]
  have hr' : ∀ x : Row, ({ w with rows := pre ++ [x] } : World).row pre.length = x := fun x =>
    row_last _ pre x rfl
  simp only [hr', hin]
  simp [invoke, CbSet.at, hcb, placedCell]

theorem rowAddMany_last (dw : Measure) (pre : List Row) :
    ∀ (items : List Nat) (w : World) (rw : Row) (cs : List Cell),
      w.rows = pre ++ [rw] → rw.cells = some cs → rw.inTable = none → rw.cellCbs.add = [] →
      rowAddMany dw pre.length items w =
        { w with rows := pre ++ [{ rw with cells := some (cs ++ (items.zipIdx cs.length).map
            (fun p => placedCell pre.length p.2 (newCell dw p.1 (w.item p.1)))) }] } := by
  intro items
  induction items with
  | nil =>
    intro w rw cs hrows hcs _ _
    cases w; cases rw
    simp only at hrows hcs
    subst hrows hcs
    simp [rowAddMany]
  | cons i is ih =>
    intro w rw cs hrows hcs hin hcb
    simp only [rowAddMany, rowAdd]
    rw [rowAddCell_last dw w pre rw cs _ hrows hcs hin hcb]
    rw [ih _ { rw with cells := some (cs ++ [placedCell pre.length cs.length (newCell dw i (w.item i))]) }
      (cs ++ [placedCell pre.length cs.length (newCell dw i (w.item i))]) rfl rfl hin hcb]
    simp [List.zipIdx_cons, World.item]

theorem addHeaders_pre (dw : Measure) (w : World) (t : Nat) (items : List Nat) :
    addHeaders dw w t items =
      (let wl := addHeadersLinked dw w t items
       let hr := w.rows.length
       let w5 := invoke dw wl ((wl.table t).rowCbs.at .add) (.row hr) (.table t)
       addTimeCells dw t hr (fun _ => .table t) (w5.rowCells hr).length 0 w5) := by
  unfold addHeaders
  simp only [newRow]
  have := rowAddMany_last dw (w.modTable t (fun tb => resizeColumnsAtLeast tb items.length)).rows items
    { (w.modTable t (fun tb => resizeColumnsAtLeast tb items.length)) with
      rows := (w.modTable t (fun tb => resizeColumnsAtLeast tb items.length)).rows ++ [{ ec := .table t }] }
    { ec := .table t } [] rfl rfl rfl rfl
  rw [this]
  simp only [addHeadersLinked, addHeadersCells, List.nil_append, List.length_nil, rows_modTable, World.item,
    items_modTable]

theorem addHeadersLinked_rows (dw : Measure) (w : World) (t : Nat) (items : List Nat) :
    (addHeadersLinked dw w t items).rows =
      w.rows ++ [{ cells := some (addHeadersCells dw w w.rows.length items), ec := .table t }] := rfl

theorem addHeadersLinked_row (dw : Measure) (w : World) (t : Nat) (items : List Nat) :
    (addHeadersLinked dw w t items).row w.rows.length =
      { cells := some (addHeadersCells dw w w.rows.length items), ec := .table t } :=
  row_last _ _ _ (addHeadersLinked_rows dw w t items)

theorem addHeadersLinked_rowCells (dw : Measure) (w : World) (t : Nat) (items : List Nat) :
    (addHeadersLinked dw w t items).rowCells w.rows.length = addHeadersCells dw w w.rows.length items := by
  simp [World.rowCells, addHeadersLinked_row]

theorem addHeadersCells_length (dw : Measure) (w : World) (hr : Nat) (items : List Nat) :
    (addHeadersCells dw w hr items).length = items.length := by
  simp [addHeadersCells]

theorem addHeadersLinked_table_cbs (dw : Measure) (w : World) (t : Nat) (items : List Nat) :
    ((addHeadersLinked dw w t items).table t).rowCbs = (w.table t).rowCbs ∧
    ((addHeadersLinked dw w t items).table t).cellCbs = (w.table t).cellCbs := by
  have e : (addHeadersLinked dw w t items).table t =
      ((w.modTable t (fun tb => resizeColumnsAtLeast tb items.length)).modTable t
        (fun tb => { tb with header := some w.rows.length })).table t := rfl
  rw [e]
  simp only [table_modTable, tables_length_modTable]
  split
  · exact ⟨resize_rowCbs _ _, resize_cellCbs _ _⟩
  · exact ⟨rfl, rfl⟩

theorem addHeadersLinked_columnOf (dw : Measure) (w : World) (t : Nat) (items : List Nat) (j : Nat) :
    (addHeadersLinked dw w t items).columnOf w.rows.length j = none := by
  unfold World.columnOf
  cases hc : (addHeadersLinked dw w t items).cell? w.rows.length j with
  | none => rfl
  | some ce =>
    have hmem : ce ∈ addHeadersCells dw w w.rows.length items := by
      unfold World.cell? at hc
      rw [addHeadersLinked_rowCells] at hc
      exact List.mem_of_getElem? hc
    have hin : ce.inRow = some w.rows.length := by
      simp only [addHeadersCells, List.mem_map] at hmem
      obtain ⟨p, _, rfl⟩ := hmem
      rfl
    simp only [hin, addHeadersLinked_row]
    split <;> rfl

theorem addHeaders_log (dw : Measure) {w : World} (h : LogOnlyAt w) (t : Nat) (items : List Nat) :
    addHeaders dw w t items = (addHeadersLinked dw w t items).addEv (expectedAddHeaders w t items) := by
  rw [addHeaders_pre]
  obtain ⟨wl, hwl⟩ : ∃ wl, wl = addHeadersLinked dw w t items := ⟨_, rfl⟩
  have hcb := addHeadersLinked_table_cbs dw w t items
  have hcol := addHeadersLinked_columnOf dw w t items
  have hcells := addHeadersLinked_rowCells dw w t items
  rw [← hwl] at hcb hcol hcells ⊢
  have h2 : ∀ cb ∈ (wl.table t).rowCbs.at .add, cb.isLog = true := by
    rw [hcb.1]; exact h (.tableRow t) .add
  have h3 : ∀ cb ∈ wl.cbsAt (.tableCell t) .add, cb.isLog = true := by
    show ∀ cb ∈ (wl.table t).cellCbs.at .add, cb.isLog = true
    rw [hcb.2]; exact h (.tableCell t) .add
  have h4 : ∀ j, colCellAt wl w.rows.length j .add = [] := by
    intro j; simp only [colCellAt, hcol]
  dsimp only
  rw [invoke_log dw _ _ _ _ h2]
  rw [← addEv_nil wl, addEv_addEv]
  rw [addTimeCells_log dw t w.rows.length _ (by intro j; rw [h4]; simp) h3]
  simp only [rowCells_addEv, table_addEv, hcells, addHeadersCells_length, expectedAddHeaders, addCellsExpected, h4,
    ev_nil, List.nil_append, World.cbsAt, World.cbSet, hcb.1, hcb.2, List.range_eq_range', addEv_nil]

end C13
end Tab
