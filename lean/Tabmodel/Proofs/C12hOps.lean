/- C12h helper lemmas: the operations that set nothing (building calls, renders, bookkeeping). -/
import Tabmodel.Proofs.C12hCb
set_option linter.unusedSimpArgs false
namespace Tab
open World C13 C13x
namespace C12h

variable (dw : Measure) (k : Key)

/-! ### render -/

theorem keeps_render (w : World) (t : Nat) : Keeps k w (invokeRenderCallbacks dw w t) :=
  keeps_of_any dw (fun _ hJ h0 => invokeRenderCallbacks_any dw hJ t h0)

/-! ### `AddRow` -/

theorem csame_addRowLinked (w : World) (t r : Nat) : CSame (addRowLinked w t r) w := by
  simp only [addRowLinked]
  refine CSame.trans (csame_modRow_fields _ _ _ (fun _ => rfl) (fun _ => rfl) (fun _ => rfl) (fun _ => rfl)) ?_
  refine CSame.trans (csame_modTable_fields _ _ _ (fun _ => rfl) (fun _ => rfl) (fun _ => rfl) (fun _ => rfl)
    (fun _ => rfl)) ?_
  refine CSame.trans (csame_resize _ _ _) ?_
  refine CSame.trans (csame_modRow_fields _ _ _ (fun _ => rfl) (fun _ => rfl) (fun _ => rfl) (fun _ => rfl)) ?_
  exact csame_modTable_fields _ _ _ (fun _ => rfl) (fun _ => rfl) (fun _ => rfl) (fun _ => rfl) (fun _ => rfl)

theorem keeps_addRow (w : World) (t r : Nat) : Keeps k w (addRow dw w t r) :=
  Keeps.trans ((csame_addRowLinked w t r).keeps k)
    (keeps_of_any dw (fun _ hJ h0 => addRow_any dw w t r hJ h0))

/-! ### `Row.Add` -/

/-- the cells of the row after the new cell has been stored -/
theorem cell?_store {w : World} {r : Nat} {cs : List Cell} (hr : r < w.rows.length)
    (hcs : (w.row r).cells = some cs) (pc : Cell) (r' c : Nat) :
    (w.modRow r (fun rw => { rw with cells := some (cs ++ [pc]) })).cell? r' c =
      if r' = r ∧ c = cs.length then some pc else w.cell? r' c := by
  simp only [World.cell?, World.rowCells, row_modRow]
  by_cases h : r = r'
  · subst h
    simp only [hr, and_self, if_true, true_and, Option.getD_some, hcs]
    by_cases hc : c = cs.length
    · subst hc; simp
    · rw [if_neg hc]
      by_cases hlt : c < cs.length
      · rw [List.getElem?_append_left hlt]
      · have h1 : cs.length ≤ c := Nat.le_of_not_lt hlt
        rw [List.getElem?_append_right h1, List.getElem?_eq_none h1]
        have : c - cs.length ≠ 0 := by omega
        cases hh : c - cs.length with
        | zero => exact absurd hh this
        | succ m => rfl
  · have : ¬ (r' = r ∧ c = cs.length) := fun hh => h hh.1.symm
    simp [h, this]

theorem row_store_fields (w : World) (r : Nat) (x : Option (List Cell)) (r' : Nat) :
    ((w.modRow r (fun rw => { rw with cells := x })).row r').props = (w.row r').props ∧
    ((w.modRow r (fun rw => { rw with cells := x })).row r').selfCbs = (w.row r').selfCbs ∧
    ((w.modRow r (fun rw => { rw with cells := x })).row r').cellCbs = (w.row r').cellCbs := by
  rw [row_modRow]; split <;> exact ⟨rfl, rfl, rfl⟩

theorem chainOf_store {w : World} {r : Nat} {cs : List Cell} (hr : r < w.rows.length)
    (hcs : (w.row r).cells = some cs) (pc : Cell) (o : Target) :
    (w.modRow r (fun rw => { rw with cells := some (cs ++ [pc]) })).chainOf o =
      if o = .cell r cs.length then pc.props else w.chainOf o := by
  cases o with
  | table t => simp [World.chainOf]
  | column t n => simp [World.chainOf]
  | row r' => simp only [World.chainOf, (row_store_fields w r _ r').1]; simp
  | copy n => simp [World.chainOf]
  | cell r' c =>
    simp only [World.chainOf, cell?_store hr hcs, Target.cell.injEq]
    split <;> rfl

theorem cbSet_store {w : World} {r : Nat} {cs : List Cell} (hr : r < w.rows.length)
    (hcs : (w.row r).cells = some cs) (pc : Cell) (s : CbSlot) :
    (w.modRow r (fun rw => { rw with cells := some (cs ++ [pc]) })).cbSet s =
      if s = .cellOwn r cs.length then pc.cbs else w.cbSet s := by
  cases s with
  | tableSelf t => simp [World.cbSet]
  | tableCell t => simp [World.cbSet]
  | tableRow t => simp [World.cbSet]
  | colSelf t n => simp [World.cbSet]
  | colCell t n => simp [World.cbSet]
  | rowSelf r' => simp only [World.cbSet, (row_store_fields w r _ r').2.1]; simp
  | rowCell r' => simp only [World.cbSet, (row_store_fields w r _ r').2.2]; simp
  | copyOwn n => simp [World.cbSet]
  | cellOwn r' c =>
    simp only [World.cbSet, cell?_store hr hcs, CbSlot.cellOwn.injEq]
    split <;> rfl

/-- the linked state of `Row.Add` is the stored state, possibly with a wider table -/
theorem csame_rowAddLinked (w : World) (r : Nat) (ce : Cell) (cs : List Cell) :
    CSame (rowAddLinked w r ce cs)
      (w.modRow r (fun rw => { rw with cells := some (cs ++ [placedCell r cs.length ce]) })) := by
  unfold rowAddLinked
  dsimp only
  split
  · exact csame_resize _ _ _
  · exact CSame.refl _

theorem chainOf_rowAddLinked {w : World} {r : Nat} {cs : List Cell} (hr : r < w.rows.length)
    (hcs : (w.row r).cells = some cs) (ce : Cell) (o : Target) :
    (rowAddLinked w r ce cs).chainOf o = if o = .cell r cs.length then ce.props else w.chainOf o := by
  rw [(csame_rowAddLinked w r ce cs).chain, chainOf_store hr hcs]; rfl

theorem cbSet_rowAddLinked {w : World} {r : Nat} {cs : List Cell} (hr : r < w.rows.length)
    (hcs : (w.row r).cells = some cs) (ce : Cell) (s : CbSlot) :
    (rowAddLinked w r ce cs).cbSet s = if s = .cellOwn r cs.length then ce.cbs else w.cbSet s := by
  rw [(csame_rowAddLinked w r ce cs).cbs, cbSet_store hr hcs]; rfl

theorem copies_rowAddLinked (w : World) (r : Nat) (ce : Cell) (cs : List Cell) :
    (rowAddLinked w r ce cs).copies.length = w.copies.length := by
  rw [(csame_rowAddLinked w r ce cs).ncopies]; rfl

theorem rowAddLinked_noobj {w : World} {r : Nat} (hr : w.rows.length ≤ r) (ce : Cell) (cs : List Cell) :
    rowAddLinked w r ce cs = w := by
  unfold rowAddLinked
  dsimp only
  rw [modRow_noobj w r _ hr, row_default hr]

theorem cell?_len_none {w : World} {r : Nat} {cs : List Cell} (hcs : (w.row r).cells = some cs) :
    w.cell? r cs.length = none := by
  simp [World.cell?, World.rowCells, hcs]

/-- `Row.Add` of a cell value with no properties and no callbacks of its own (`NewCell(item)`) -/
theorem csame_rowAddLinked_plain {w : World} {r : Nat} {cs : List Cell} (hcs : (w.row r).cells = some cs)
    (ce : Cell) (h0 : ce.props = []) (h1 : ce.cbs = {}) : CSame (rowAddLinked w r ce cs) w := by
  by_cases hr : r < w.rows.length
  · refine ⟨fun o => ?_, fun s => ?_, copies_rowAddLinked w r ce cs, rowAddLinked_events w r ce cs⟩
    · rw [chainOf_rowAddLinked hr hcs]
      split
      · rename_i e; subst e; simp [World.chainOf, cell?_len_none hcs, h0]
      · rfl
    · rw [cbSet_rowAddLinked hr hcs]
      split
      · rename_i e; subst e; simp [World.cbSet, cell?_len_none hcs, h1]
      · rfl
  · rw [rowAddLinked_noobj (Nat.le_of_not_lt hr)]; exact CSame.refl w

theorem keeps_rowAddCell_linked {w : World} {r : Nat} {cs : List Cell} (hcs : (w.row r).cells = some cs)
    (ce : Cell) : Keeps k (rowAddLinked w r ce cs) (rowAddCell dw w r ce) :=
  keeps_of_any dw (fun _ hJ h0 => rowAddCell_any dw w r ce cs hcs hJ h0)

theorem keeps_rowAddCell_plain (w : World) (r : Nat) (ce : Cell) (h0 : ce.props = []) (h1 : ce.cbs = {}) :
    Keeps k w (rowAddCell dw w r ce) := by
  cases hcs : (w.row r).cells with
  | none => rw [rowAddCell_nil dw w r ce hcs]; exact (csame_addErrTo w _ _).keeps k
  | some cs =>
    exact Keeps.trans ((csame_rowAddLinked_plain hcs ce h0 h1).keeps k) (keeps_rowAddCell_linked dw k hcs ce)

theorem newCell_props (i : Nat) (it : Item) : (newCell dw i it).props = [] := by
  unfold newCell Cell.update; split <;> rfl
theorem newCell_cbs (i : Nat) (it : Item) : (newCell dw i it).cbs = {} := by
  unfold newCell Cell.update; split <;> rfl

theorem keeps_rowAdd (w : World) (r i : Nat) : Keeps k w (rowAdd dw w r i) :=
  keeps_rowAddCell_plain dw k w r _ (newCell_props dw i _) (newCell_cbs dw i _)

theorem keeps_rowAddMany (r : Nat) : ∀ (is : List Nat) (w : World), Keeps k w (rowAddMany dw r is w) := by
  intro is
  induction is with
  | nil => intro w; exact Keeps.refl k w
  | cons i is ih => intro w; exact Keeps.trans (keeps_rowAdd dw k w r i) (ih _)

/-! ### the composite building calls -/

theorem csame_newRow_plain (w : World) : CSame (w.newRow {}).1 w := csame_newRow w {} rfl rfl rfl rfl

theorem keeps_addRowItems (w : World) (t : Nat) (items : List Nat) : Keeps k w (w.addRowItems dw t items).1 := by
  show Keeps k w (addRow dw (rowAddMany dw w.rows.length items (w.newRow {}).1) t w.rows.length)
  exact Keeps.trans ((csame_newRow_plain w).keeps k)
    (Keeps.trans (keeps_rowAddMany dw k _ items _) (keeps_addRow dw k _ t _))

theorem keeps_appendNewRow (w : World) (t : Nat) : Keeps k w (w.appendNewRow dw t).1 := by
  show Keeps k w (addRow dw (w.newRow {}).1 t w.rows.length)
  exact Keeps.trans ((csame_newRow_plain w).keeps k) (keeps_addRow dw k _ t _)

theorem csame_addSeparator (w : World) (t : Nat) : CSame (w.addSeparator t) w := by
  show CSame (((w.newRow { cells := none, isSep := true }).1.modTable t _).modRow w.rows.length _) w
  refine CSame.trans (csame_modRow_fields _ _ _ (fun _ => rfl) (fun _ => rfl) (fun _ => rfl) (fun _ => rfl)) ?_
  refine CSame.trans (csame_modTable_fields _ _ _ (fun _ => rfl) (fun _ => rfl) (fun _ => rfl) (fun _ => rfl)
    (fun _ => rfl)) ?_
  exact csame_newRow w _ rfl rfl rfl rfl

theorem addHeaders_eq (w : World) (t : Nat) (items : List Nat) :
    addHeaders dw w t items =
      (let w1 := w.modTable t (fun tb => resizeColumnsAtLeast tb items.length)
       let hr := w1.rows.length
       let w2 := (w1.newRow { ec := .table t }).1
       let w3 := rowAddMany dw hr items w2
       let w4 := w3.modTable t (fun tb => { tb with header := some hr })
       let w5 := invoke dw w4 ((w4.table t).rowCbs.at .add) (.row hr) (.table t)
       addTimeCells dw t hr (fun _ => .table t) (w5.rowCells hr).length 0 w5) := rfl

theorem keeps_addHeaders (w : World) (t : Nat) (items : List Nat) : Keeps k w (addHeaders dw w t items) := by
  rw [addHeaders_eq]
  extract_lets w1 hr w2 w3 w4 w5
  have h1 : Keeps k w w1 := (csame_resize w t _).keeps k
  have h2 : Keeps k w1 w2 := (csame_newRow w1 { ec := .table t } rfl rfl rfl rfl).keeps k
  have h3 : Keeps k w2 w3 := keeps_rowAddMany dw k hr items w2
  have h4 : Keeps k w3 w4 :=
    (csame_modTable_fields w3 t (fun tb => { tb with header := some hr }) (fun _ => rfl) (fun _ => rfl)
      (fun _ => rfl) (fun _ => rfl) (fun _ => rfl)).keeps k
  have h5 : Keeps k w4 (addTimeCells dw t hr (fun _ => Taker.table t) (w5.rowCells hr).length 0 w5) := by
    refine keeps_of_any dw (es := [] ++ userEvents (w4.cbsAt (.tableRow t) .add) (.row hr) ++
      addCellsExpectedAny w4 t hr 0 (w5.rowCells hr).length) (fun J hJ h0 => ?_)
    have e0 : Ext w4 J w4 [] := ⟨same_refl _, by simp, h0⟩
    have e1 : Ext w4 J w5 ([] ++ userEvents (w4.cbsAt (.tableRow t) .add) (.row hr)) :=
      ext_invoke_slot dw hJ e0 (.tableRow t) .add (fun _ => rfl) _ _
    exact addTimeCells_any dw hJ t hr (fun _ => Taker.table t) _ 0 _ _ e1
  exact Keeps.trans h1 (Keeps.trans h2 (Keeps.trans h3 (Keeps.trans h4 h5)))

/-! ### bookkeeping operations -/

theorem update_props (it : Item) (c : Cell) : (c.update dw it).props = c.props := by
  unfold Cell.update; split <;> rfl
theorem update_cbs (it : Item) (c : Cell) : (c.update dw it).cbs = c.cbs := by
  unfold Cell.update; split <;> rfl

theorem csame_updateCell (w : World) (r c : Nat) :
    CSame (w.modCell r c (fun ce => ce.update dw (w.item ce.item))) w :=
  csame_modCell_fields w r c _ (fun ce => update_props dw _ ce) (fun ce => update_cbs dw _ ce)

end C12h
end Tab
