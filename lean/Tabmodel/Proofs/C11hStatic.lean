/-
  C11, history level — spec definitions: what `addRow`'s callbacks and a render raise, written
  as plain sums over the callback lists registered in ONE world (no re-run, no intermediate
  worlds).  `Props/C11h.lean` proves `raisedBy` equal to these.
-/
import Tabmodel.Proofs.C11hS1
namespace Tab
namespace World

/-- add-time cell callbacks (of the cell's column, then of the table) on cells `i … i+n-1` of row `r` -/
def addCellsCount (w : World) (e t r : Nat) : Nat → Nat → Nat
  | 0, _ => 0
  | n + 1, i =>
    raiseCount (.cell r i) e (colCellCbs w (columnOf w r i) .add)
      + raiseCount (.cell r i) e ((w.table t).cellCbs.at .add)
      + addCellsCount w e t r n (i + 1)

/-- all add-time callbacks `addRow t r` / `addHeaders` run on row `r`: the row's own, the table's
    row callbacks, then the cell callbacks, all as registered in `w` -/
def addCbsCount (w : World) (e t r : Nat) (withSelf : Bool) : Nat :=
  (if withSelf then raiseCount (.row r) e ((w.row r).selfCbs.at .add) else 0)
    + raiseCount (.row r) e ((w.table t).rowCbs.at .add)
    + addCellsCount w e t r (w.rowCells r).length 0

/-- the eight render-time calls on cell `i` of row `r` -/
def cellRenderCount (w : World) (e t r i : Nat) : Nat :=
  ((cellCalls t r i (columnOf w r i)).map (fun d => raiseCount (.cell r i) e (d.1 w))).sum

def cellsRenderCount (w : World) (e t r : Nat) : Nat → Nat → Nat
  | 0, _ => 0
  | n + 1, i => cellRenderCount w e t r i + cellsRenderCount w e t r n (i + 1)

def rowRenderCount (w : World) (e t : Nat) (r : Nat) : Nat :=
  raiseCount (.row r) e ((w.row r).selfCbs.at .pre)
    + cellsRenderCount w e t r (w.rowCells r).length 0
    + raiseCount (.row r) e ((w.row r).selfCbs.at .post)

def colsRenderCount (w : World) (e t : Nat) (tm : Time) : Nat → Nat → Nat
  | 0, _ => 0
  | n + 1, i =>
    raiseCount (.column t i) e (((w.column? t i).map (·.selfCbs.at tm)).getD [])
      + colsRenderCount w e t tm n (i + 1)

/-- the header row's part of a render (nothing when there is no header) -/
def hdrRenderCount (w : World) (e t : Nat) : Nat :=
  match (w.table t).header with
  | some hr => rowRenderCount w e t hr
  | none => 0

/-- everything a render of table `t` raises, as registered in `w` -/
def renderCount (w : World) (e t : Nat) : Nat :=
  raiseCount (.table t) e ((w.table t).selfCbs.at .pre)
    + colsRenderCount w e t .pre (w.table t).columns.length 0
    + hdrRenderCount w e t
    + ((w.table t).rows.map (rowRenderCount w e t)).sum
    + colsRenderCount w e t .post (w.table t).columns.length 0
    + raiseCount (.table t) e ((w.table t).selfCbs.at .post)

end World
end Tab
