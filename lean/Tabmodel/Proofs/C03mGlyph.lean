/-
  C03m helpers, part 1: from the regenerated glyph-width table to `GlyphOK dw` / `BoxlessOK`,
  and the glyph fields `Populate` produces.
-/
import Tabmodel.Props.C03Decor
import Tabmodel.Proofs.TextFinal
namespace Tab
open Generated

/-- the table of the library's own glyph measurements agrees with `dw` -/
def TableAgrees (dw : Measure) : Prop := ∀ p ∈ glyphWidths, dw p.1 = p.2

theorem measured_sound (dw : Measure) (hT : TableAgrees dw) (g : Bytes) (k : Nat)
    (h : measured g = some k) : dw g = k := by
  unfold measured at h
  cases hf : glyphWidths.find? (fun p => p.1 == g) with
  | none => rw [hf] at h; cases h
  | some p =>
    rw [hf] at h
    have hk : p.2 = k := by simpa using h
    have hmem : p ∈ glyphWidths := List.mem_of_find?_eq_some hf
    have hp : p.1 = g := by simpa using List.find?_some hf
    rw [← hp, ← hk]
    exact hT p hmem

/-- the 18 glyph fields in the order `GlyphOK` lists them -/
def glyphOKFields (d : Decoration) : List Bytes :=
  [d.topLeft, d.hOuter, d.hTopDown, d.topRight, d.hBLeft, d.hBCross, d.hBRight, d.bTopDown,
   d.bottomLeft, d.bBottomUp, d.bottomRight, d.leftBodyRule, d.hRule, d.crossPiece, d.rightBodyRule,
   d.vHeader, d.vBodyBorder, d.vBodyInner]

theorem mem_renderGlyphs_of_field (d : Decoration) (g : Bytes) (h : g ∈ glyphOKFields d) :
    g ∈ renderGlyphs d := by
  simp only [glyphOKFields, List.mem_cons, List.not_mem_nil, or_false] at h
  simp only [renderGlyphs, List.mem_cons, List.not_mem_nil, or_false]
  rcases h with h | h | h | h | h | h | h | h | h | h | h | h | h | h | h | h | h | h <;> simp [h]

theorem mem_field_of_renderGlyphs (d : Decoration) (g : Bytes) (h : g ∈ renderGlyphs d) :
    g ∈ glyphOKFields d := by
  simp only [renderGlyphs, List.mem_cons, List.not_mem_nil, or_false] at h
  simp only [glyphOKFields, List.mem_cons, List.not_mem_nil, or_false]
  rcases h with h | h | h | h | h | h | h | h | h | h | h | h | h | h | h | h | h | h <;> simp [h]

/-- `GlyphOK`, restated over `renderGlyphs` -/
theorem glyphOK_iff (dw : Measure) (d : Decoration) :
    GlyphOK dw d ↔ d.isBoxless = false ∧ ∀ g ∈ renderGlyphs d, g ≠ [] ∧ dw g = 1 := by
  constructor
  · intro h
    exact ⟨h.boxed, fun g hg =>
      ⟨h.ne g (mem_field_of_renderGlyphs d g hg), h.one g (mem_field_of_renderGlyphs d g hg)⟩⟩
  · rintro ⟨hb, h⟩
    exact ⟨hb, fun g hg => (h g (mem_renderGlyphs_of_field d g hg)).1,
      fun g hg => (h g (mem_renderGlyphs_of_field d g hg)).2⟩

/-- the table-driven check implies `GlyphOK` for every measure that agrees with the table -/
theorem glyphOK_of_glyphOKBy (dw : Measure) (hT : TableAgrees dw) (d : Decoration)
    (hb : d.isBoxless = false) (h : glyphOKBy d = true) : GlyphOK dw d := by
  rw [glyphOK_iff]
  refine ⟨hb, fun g hg => ?_⟩
  unfold glyphOKBy at h
  rw [List.all_eq_true] at h
  have := h g hg
  simp only [Bool.and_eq_true, bne_iff_ne, ne_eq, beq_iff_eq] at this
  exact ⟨this.1, measured_sound dw hT g 1 this.2⟩

theorem boxlessOK_of_all_empty (d : Decoration) (hb : d.isBoxless = true)
    (h : (renderGlyphs d).all (· == []) = true) : BoxlessOK d := by
  rw [List.all_eq_true] at h
  have e : ∀ g ∈ renderGlyphs d, g = [] := fun g hg => by simpa using h g hg
  exact ⟨hb, e _ (by simp [renderGlyphs]), e _ (by simp [renderGlyphs]), e _ (by simp [renderGlyphs])⟩

/-! ### Populate: where each render glyph comes from -/

theorem dflt_cases (x src : Bytes) : (dflt x src = x ∧ x ≠ []) ∨ (dflt x src = src ∧ x = []) := by
  unfold dflt
  split
  · rename_i h; left; exact ⟨rfl, fun e => by rw [e] at h; simp at h⟩
  · rename_i h; right; exact ⟨rfl, by
      cases x with
      | nil => rfl
      | cons a t => simp at h⟩

/-- every field of the record, as written by the caller -/
def Decoration.fields (d : Decoration) : List Bytes :=
  [d.horizontal, d.vertical, d.crossPiece, d.topDown, d.vBorder, d.hOuter, d.hRule, d.vHeader,
   d.vBodyBorder, d.vBodyInner, d.topLeft, d.topRight, d.bottomLeft, d.bottomRight, d.leftBodyRule,
   d.rightBodyRule, d.hTopDown, d.bTopDown, d.bBottomUp, d.hBCross, d.hBLeft, d.hBRight]

/-- `dflt x src` is `x` or `src` -/
theorem dflt_mem (x src : Bytes) (S : List Bytes) (hx : x ≠ [] → x ∈ S) (hs : src ∈ S) :
    dflt x src ∈ S := by
  rcases dflt_cases x src with ⟨e, hne⟩ | ⟨e, _⟩
  · rw [e]; exact hx hne
  · rw [e]; exact hs

/-- where a render glyph of a populated decoration can come from: a non-empty field the caller
    wrote, or one of the three built-in defaults "H", "V", "X" -/
def populateSources (d : Decoration) : List Bytes :=
  d.fields.filter (fun x => x != []) ++ [[72], [86], [88]]

theorem populate_sources (d : Decoration) : ∀ g ∈ renderGlyphs d.populate, g ∈ populateSources d := by
  have hf : ∀ x ∈ d.fields, x ≠ [] → x ∈ populateSources d := by
    intro x hx hne
    unfold populateSources
    exact List.mem_append_left _ (List.mem_filter.mpr ⟨hx, by simpa using hne⟩)
  have hH : dflt d.horizontal [72] ∈ populateSources d :=
    dflt_mem _ _ _ (hf _ (by simp [Decoration.fields])) (by simp [populateSources])
  have hV : dflt d.vertical [86] ∈ populateSources d :=
    dflt_mem _ _ _ (hf _ (by simp [Decoration.fields])) (by simp [populateSources])
  have hX : dflt d.crossPiece [88] ∈ populateSources d :=
    dflt_mem _ _ _ (hf _ (by simp [Decoration.fields])) (by simp [populateSources])
  have hTD : dflt d.topDown (dflt d.crossPiece [88]) ∈ populateSources d :=
    dflt_mem _ _ _ (hf _ (by simp [Decoration.fields])) hX
  have hVB : dflt d.vBorder (dflt d.vertical [86]) ∈ populateSources d :=
    dflt_mem _ _ _ (hf _ (by simp [Decoration.fields])) hV
  have hLB : dflt d.leftBodyRule (dflt d.crossPiece [88]) ∈ populateSources d :=
    dflt_mem _ _ _ (hf _ (by simp [Decoration.fields])) hX
  have hRB : dflt d.rightBodyRule (dflt d.crossPiece [88]) ∈ populateSources d :=
    dflt_mem _ _ _ (hf _ (by simp [Decoration.fields])) hX
  intro g hg
  simp only [renderGlyphs, Decoration.populate, List.mem_cons, List.not_mem_nil, or_false] at hg
  rcases hg with h | h | h | h | h | h | h | h | h | h | h | h | h | h | h | h | h | h <;> subst h <;>
    first
    | exact hX
    | exact dflt_mem _ _ _ (hf _ (by simp [Decoration.fields])) hH
    | exact dflt_mem _ _ _ (hf _ (by simp [Decoration.fields])) hV
    | exact dflt_mem _ _ _ (hf _ (by simp [Decoration.fields])) hX
    | exact dflt_mem _ _ _ (hf _ (by simp [Decoration.fields])) hTD
    | exact dflt_mem _ _ _ (hf _ (by simp [Decoration.fields])) hVB
    | exact dflt_mem _ _ _ (hf _ (by simp [Decoration.fields])) hLB
    | exact dflt_mem _ _ _ (hf _ (by simp [Decoration.fields])) hRB

end Tab
