/-
  C12, history level — specification vocabulary (definitions only, no proofs).

  `lastSetOn ops o k` is computed by a forward pass over the history that keeps, besides the
  "last value set" table, only what is needed to know which owners exist: the structural skeleton
  (pa_world's reference machine `Shape.step`) and the number of caller-held cell copies.
-/
import Tabmodel.Proofs.C13xSpec
namespace Tab

/-- the keys a user of the library can set: any user (type, value) pair, `align.PropertyType`,
    `properties.Skipable`; the other three are private to texttable / markdown -/
def Key.isUser : Key → Bool
  | .user _ => true
  | .align => true
  | .skipable => true
  | _ => false

/-- does the owner exist in a structure `s` with `nc` caller-held copies? -/
def Shape.hasOwner (s : Shape) (nc : Nat) : Target → Bool
  | .table t => decide (t < s.tables.length)
  | .column t n => decide (t < s.tables.length) && decide (n < (s.table t).nColRecs)
  | .row r => decide (r < s.rows.length)
  | .cell r c => decide (c < s.width r)
  | .copy n => decide (n < nc)

/-- What a history has established so far: the structure, the number of copies, and for every
    (owner, key) the value last set (`none`: never set, or last set to nil). -/
structure PState where
  shape : Shape := {}
  ncopies : Nat := 0
  val : Target → Key → Option Val := fun _ _ => none

/-- One operation.
    * `setProp o k v` on an existing owner records `v` for `(o, k)` and nothing else;
      on an owner that does not exist (yet) it is a no-op, as in the model;
    * `copyCell r c` of an existing cell creates copy number `ncopies`, which starts with whatever
      the original has at that moment (for every key);
    * `rowAddCell r ce` (Row.Add of a caller-built cell value) creates cell `(r, len)`, which starts
      with what the value `ce` carries;
    * every other operation (all building calls, `Row.Add(NewCell(item))`, callback registration,
      renders, ...) changes no recorded value.  New owners start with nothing set. -/
def PState.step (p : PState) : BuildOp → PState
  | .setProp o k v =>
    if p.shape.hasOwner p.ncopies o then
      { p with val := fun o' k' => if o' = o ∧ k' = k then v else p.val o' k' }
    else p
  | .copyCell r c =>
    if c < p.shape.width r then
      { p with ncopies := p.ncopies + 1,
               val := fun o' k' => if o' = .copy p.ncopies then p.val (.cell r c) k' else p.val o' k' }
    else p
  | .rowAddCell r ce =>
    let s' := p.shape.step (.rowAddCell r ce)
    if r < p.shape.rows.length then
      match (p.shape.row r).cells with
      | some cs =>
        { p with shape := s',
                 val := fun o' k' => if o' = .cell r cs.length then ce.props.get k' else p.val o' k' }
      | none => { p with shape := s' }
    else { p with shape := s' }
  | op => { p with shape := p.shape.step op }

/-- the state after a history, from nothing -/
def PState.after (ops : List BuildOp) : PState := ops.foldl PState.step {}

/-- The value of the last `setProp o k v` of the history addressed to exactly the owner `o` and the
    key `k` (`none` if there is none, or it set nil); for a copy with no set since it was made, what
    the original had when it was copied; for a cell put into its row as a ready-made value with no
    set since, what that value carried. -/
def lastSetOn (ops : List BuildOp) (o : Target) (k : Key) : Option Val := (PState.after ops).val o k

/-- the keys an operation mentions: the key it sets, or the keys a ready-made cell value carries -/
def BuildOp.setKeys : BuildOp → List Key
  | .setProp _ k _ => [k]
  | .rowAddCell _ ce => ce.props.keys
  | _ => []

/-- the distinct keys of a history -/
def histKeys (ops : List BuildOp) : List Key := (ops.flatMap BuildOp.setKeys).eraseDups

/-- the distinct keys that are set on owner `o` after the history (last set not nil) -/
def keysSetOn (ops : List BuildOp) (o : Target) : List Key :=
  (histKeys ops).filter (fun k => (lastSetOn ops o k).isSome)

/-! ### the plain reading, for owners that never inherit a value -/

/-- the `(key, value)` pairs of the `setProp` operations addressed to exactly `o`, in order -/
def setsOn (ops : List BuildOp) (o : Target) : List (Key × Option Val) :=
  ops.filterMap (fun op => match op with
    | .setProp o' k v => if o' = o then some (k, v) else none
    | _ => none)

def PState.addressedFrom (p : PState) : List BuildOp → Bool
  | [] => true
  | op :: ops =>
    (match op with
     | .setProp o _ _ => p.shape.hasOwner p.ncopies o
     | _ => true) && PState.addressedFrom (p.step op) ops

/-- every `setProp` of the history addresses an owner that exists at that point (a caller of the Go
    API cannot do otherwise: it needs the object to call `SetProperty` on) -/
def Addressed (ops : List BuildOp) : Prop := PState.addressedFrom {} ops = true

def BuildOp.isRowAddCell : BuildOp → Bool
  | .rowAddCell _ _ => true
  | _ => false

/-- owners that never start with inherited values: tables, columns, rows; cells too when the history
    never adds a ready-made cell value (copies always inherit) -/
def NoInherit (ops : List BuildOp) : Target → Bool
  | .copy _ => false
  | .cell _ _ => ops.all (fun op => !op.isRowAddCell)
  | _ => true

/-- user callbacks that write no property at all -/
def Cb.isPassive : Cb → Bool
  | .log _ => true
  | .fail _ _ => true
  | _ => false

/-! ### hypotheses on histories (all decidable) -/

def Cb.isSetProp : Cb → Bool
  | .setProp _ _ _ => true
  | _ => false

def CbSet.all (s : CbSet) (p : Cb → Bool) : Bool := s.add.all p && s.pre.all p && s.render.all p && s.post.all p

/-- the callbacks an operation brings into the world: the one it registers, or the ones a
    ready-made cell value carries -/
def BuildOp.cbsAll (p : Cb → Bool) : BuildOp → Bool
  | .regCb _ _ _ cb => p cb
  | .rowAddCell _ ce => ce.cbs.all p
  | _ => true

/-- no callback of the history may write key `k` (`Cb.writes`, C13x) -/
def QuietFor (k : Key) (ops : List BuildOp) : Prop := ops.all (BuildOp.cbsAll (fun cb => !cb.writes k)) = true

/-- no `.setProp` callback anywhere in the history: user callbacks only log or fail; the two
    measuring callbacks of texttable / markdown are allowed -/
def NoSetCbs (ops : List BuildOp) : Prop := ops.all (BuildOp.cbsAll (fun cb => !cb.isSetProp)) = true

/-- the property chain a ready-made cell value carries holds one link per key (every value the Go
    API can produce does: chains are only ever built by `SetProperty`) -/
def BuildOp.cellOk : BuildOp → Bool
  | .rowAddCell _ ce => decide ce.props.keys.Nodup
  | _ => true

def CellsOk (ops : List BuildOp) : Prop := ops.all BuildOp.cellOk = true

/-- every callback of the history only logs or fails -/
def Passive (ops : List BuildOp) : Prop := ops.all (BuildOp.cbsAll Cb.isPassive) = true

instance (ops : List BuildOp) : Decidable (Passive ops) := by unfold Passive; infer_instance
instance (ops : List BuildOp) : Decidable (Addressed ops) := by unfold Addressed; infer_instance
instance (k : Key) (ops : List BuildOp) : Decidable (QuietFor k ops) := by unfold QuietFor; infer_instance
instance (ops : List BuildOp) : Decidable (NoSetCbs ops) := by unfold NoSetCbs; infer_instance
instance (ops : List BuildOp) : Decidable (CellsOk ops) := by unfold CellsOk; infer_instance

/-! ### world-side invariants -/

/-- every owner's chain holds at most one link per key -/
def AllNodup (w : World) : Prop := ∀ o, (w.chainOf o).keys.Nodup

/-- no callback registered anywhere in the world may write `k` -/
def Quiet (k : Key) (w : World) : Prop := ∀ s tm, ∀ cb ∈ w.cbsAt s tm, cb.writes k = false

/-- `w'` has the same callback sets and the same number of copies as `w`, one link per key if `w`
    has, and — when no callback of `w` may write `k` — reads like `w` on key `k` for every owner -/
structure Keeps (k : Key) (w w' : World) : Prop where
  val : Quiet k w → ∀ o, w'.getProp o k = w.getProp o k
  cbs : ∀ s, w'.cbSet s = w.cbSet s
  ncopies : w'.copies.length = w.copies.length
  nodup : AllNodup w → AllNodup w'

/-- all chains, callback sets, the number of copies and the event log are the same -/
structure CSame (w' w : World) : Prop where
  chain : ∀ o, w'.chainOf o = w.chainOf o
  cbs : ∀ s, w'.cbSet s = w.cbSet s
  ncopies : w'.copies.length = w.copies.length
  events : w'.events = w.events

/-- the world refines the recorded state on key `k` -/
structure Refines (k : Key) (w : World) (p : PState) : Prop where
  shape : w.shape = p.shape
  ncopies : w.copies.length = p.ncopies
  val : ∀ o, w.getProp o k = p.val o k

/-! ### callbacks that write the key: the event log as the schedule of sets -/

/-- `f id = some v`: the callbacks with id `id` are `.setProp id k v` (they write `v` on key `k`);
    `f id = none`: the callbacks with id `id` do not write `k`.  `agrees` says a callback fits. -/
def Cb.agrees (f : Nat → Option (Option Val)) (k : Key) : Cb → Bool
  | .setProp id k' v => if k' = k then decide (f id = some v) else decide (f id = none)
  | .log id => decide (f id = none)
  | .fail id _ => decide (f id = none)
  | .dimSetter => !(Cb.dimSetter.writes k)
  | .widthSetter => !(Cb.widthSetter.writes k)

/-- every callback of the history fits the writer table `f` for key `k` -/
def WritersOk (f : Nat → Option (Option Val)) (k : Key) (ops : List BuildOp) : Prop :=
  ops.all (BuildOp.cbsAll (Cb.agrees f k)) = true

instance (f : Nat → Option (Option Val)) (k : Key) (ops : List BuildOp) : Decidable (WritersOk f k ops) := by
  unfold WritersOk; infer_instance

/-- every callback of the world satisfies `P` -/
def CbsAll (P : Cb → Bool) (w : World) : Prop := ∀ s tm, ∀ cb ∈ w.cbsAt s tm, P cb = true

def World.has (w : World) (o : Target) : Bool := decide (w.hasObj o)

/-- one logged invocation `⟨id, tgt⟩`: if `id` is a writer of the key and the target exists, it sets
    the writer's value on the target, exactly like a `setProp` -/
def evApply (f : Nat → Option (Option Val)) (has : Target → Bool) (m : Target → Option Val) (e : Event) :
    Target → Option Val :=
  match f e.cb with
  | some v => if has e.tgt then fun o => if o = e.tgt then v else m o else m
  | none => m

/-- the direct effect of one operation on the values of key `k` (read in the world `w` it is applied
    in): the three value-giving operations of `PState.step` -/
def directK (k : Key) (w : World) (m : Target → Option Val) : BuildOp → Target → Option Val
  | .setProp o k' v => if k' = k ∧ w.hasObj o then fun o' => if o' = o then v else m o' else m
  | .copyCell r c =>
    if w.hasObj (.cell r c) then fun o' => if o' = .copy w.copies.length then m (.cell r c) else m o' else m
  | .rowAddCell r ce =>
    match (w.row r).cells with
    | some cs => if r < w.rows.length then fun o' => if o' = .cell r cs.length then ce.props.get k else m o' else m
    | none => m
  | _ => m

/-- one operation: its direct effect, then the invocations it logged, in log order -/
def stepW (f : Nat → Option (Option Val)) (dw : Measure) (k : Key) (s : World × (Target → Option Val))
    (op : BuildOp) : World × (Target → Option Val) :=
  let w' := applyOp dw s.1 op
  (w', (w'.events.drop s.1.events.length).foldl (evApply f w'.has) (directK k s.1 s.2 op))

/-- `lastSetOn` for key `k`, counting callback firings: the last value given to `(o, k)` by a `setProp`
    operation, by inheritance (copy / ready-made cell), or by an invocation of a writer callback on `o`
    recorded in the event log (whose order C13x documents) — whichever came last -/
def lastSetOnCb (f : Nat → Option (Option Val)) (dw : Measure) (ops : List BuildOp) (k : Key) (o : Target) :
    Option Val :=
  (ops.foldl (stepW f dw k) ({}, fun _ => none)).2 o

/-- `w'` extends `w`'s event log by `es`, keeps callback sets, copies and the one-link-per-key
    invariant, and reads on key `k` like `w` with the invocations `es` replayed as sets -/
structure TracksEs (f : Nat → Option (Option Val)) (k : Key) (w w' : World) (es : List Event) : Prop where
  cbs : ∀ s, w'.cbSet s = w.cbSet s
  ncopies : w'.copies.length = w.copies.length
  nodup : AllNodup w → AllNodup w'
  events : w'.events = w.events ++ es
  val : CbsAll (Cb.agrees f k) w → AllNodup w →
    ∀ o, w'.getProp o k = es.foldl (evApply f w'.has) (fun o => w.getProp o k) o

def Tracks (f : Nat → Option (Option Val)) (k : Key) (w w' : World) : Prop := ∃ es, TracksEs f k w w' es

end Tab
