/-
  C16 helpers, part 3: the API-level functions of `Model/World.lean` that do not allocate
  (`rowAdd`, `addRow`, `invokeRenderCallbacks`, `registerCb`, `wrapEffect`, …) are local steps.
-/
import Tabmodel.Proofs.C16Prim
namespace Tab
namespace C16
open World

variable {t : Nat} {P I : Nat → Prop}

/-! ### derived reads -/

theorem rd_columnOf {r : Nat} (hr : P r) (c : Nat) :
    Rd t P I (fun w => columnOf w r c) (fun tc => ∀ t' n, tc = some (t', n) → t' = t) := by
  constructor
  · intro w h t' n
    have hrow := h.rowok r hr
    unfold columnOf cell? rowCells
    cases hc : ((w.row r).cells.getD [])[c]? with
    | none => simp
    | some ce =>
      have hce := hrow.cells ce (List.mem_of_getElem? hc)
      rcases hce.1 with h1 | h1
      · simp only [h1]; split <;> simp
      · simp only [h1]
        rcases hrow.inT with h2 | h2
        · simp only [h2]; split <;> simp
        · simp only [h2]
          split
          · simp
          · split
            · simp
            · intro e; simp only [Option.some.injEq, Prod.mk.injEq] at e; exact e.1.symm
  · intro w w₂ h ha
    have e1 : w₂.row r = w.row r := (ha.row hr).symm
    have e2 : w₂.table t = w.table t := ha.table.symm
    have hrow := h.rowok r hr
    unfold columnOf cell? rowCells
    rw [e1]
    cases hc : ((w.row r).cells.getD [])[c]? with
    | none => rfl
    | some ce =>
      have hce := hrow.cells ce (List.mem_of_getElem? hc)
      rcases hce.1 with h1 | h1
      · simp only [h1]
      · simp only [h1, e1]
        rcases hrow.inT with h2 | h2
        · simp only [h2]
        · simp only [h2, e2]

theorem rd_colCellCbs {tc : Option (Nat × Nat)} (htc : ∀ t' n, tc = some (t', n) → t' = t) (tm : Time) :
    Rd t P I (fun w => colCellCbs w tc tm) (fun _ => True) := by
  refine ⟨fun _ _ => trivial, fun w w₂ _ ha => ?_⟩
  cases tc with
  | none => rfl
  | some p =>
    obtain ⟨t', n⟩ := p
    have : t' = t := htc t' n rfl
    subst this
    simp only [colCellCbs, column?, ha.table]

theorem rd_rowECTaker {r : Nat} (hr : P r) : Rd t P I (fun w => rowECTaker w r) (TakerOK t P) := by
  refine ⟨fun w h => ?_, fun w w₂ _ ha => by simp only [rowECTaker, ha.row hr]⟩
  have := (h.rowok r hr).ec
  unfold rowECTaker
  cases he : (w.row r).ec with
  | none => trivial
  | own es => exact hr
  | table t' => rw [he] at this; exact this

theorem rd_rowErrors {r : Nat} (hr : P r) : Rd t P I (fun w => rowErrors w r) (fun _ => True) := by
  refine ⟨fun _ _ => trivial, fun w w₂ h ha => ?_⟩
  have hec := (h.rowok r hr).ec
  unfold rowErrors
  rw [← ha.row hr]
  cases he : (w.row r).ec with
  | none => rfl
  | own es => rfl
  | table t' =>
    rw [he] at hec
    have : t' = t := hec
    subst this
    simp only [ha.table]

theorem rd_rowf {α : Type} {r : Nat} (hr : P r) (f : Row → α) : Rd t P I (fun w => f (w.row r)) (fun _ => True) :=
  (rd_row hr).map f _ (fun _ _ => trivial)

theorem rd_tablef {α : Type} (f : Table → α) : Rd t P I (fun w => f (w.table t)) (fun _ => True) :=
  (rd_table t P I).map f _ (fun _ _ => trivial)

theorem foot_resize (tb : Table) (n r : Nat) (h : FootT (resizeColumnsAtLeast tb n) r) : FootT tb r ∨ P r := by
  unfold resizeColumnsAtLeast at h
  split at h
  · exact .inl h
  · exact .inl h

theorem ls_resize (n : Nat) : LocalStep t P I (fun w => w.modTable t (fun tb => resizeColumnsAtLeast tb n)) :=
  ls_modTable _ (fun tb r h => foot_resize tb n r h)

/-! ### `Row.Add` -/

theorem ls_rowAddCell (dw : Measure) {r : Nat} (hr : P r) (ce : Cell) (hce : I ce.item) :
    LocalStep t P I (fun w => rowAddCell dw w r ce) := by
  show LocalStep t P I (rd (fun w => (w.row r).cells) (fun cells w => match cells with
    | none => addErrTo w (.rowLazy r) errNonCellRow
    | some cs =>
      seq (fun w => w.modRow r (fun rw =>
            { rw with cells := some (cs ++ [{ ce with inRow := some r, columnNum := cs.length + 1 }]) }))
        (seq (rd (fun w => (w.row r).inTable) (fun it w => match it with
              | some t => w.modTable t (fun tb => resizeColumnsAtLeast tb (cs.length + 1))
              | none => w))
          (rd (fun w => (w.row r).cellCbs.at .add)
            (fun cbs w => invoke dw w cbs (.cell r (cs.length + 1 - 1)) (.rowLazy r)))) w))
  refine LocalStep.rd ((rd_row hr).map (·.cells) (fun oc => ∀ cs, oc = some cs → ∀ c ∈ cs, CellOK r I c)
    (fun rw h cs hcs c hc => h.cells c (by simp [hcs, hc]))) (fun cells hcells => ?_)
  cases cells with
  | none => exact ls_addErrTo (tk := .rowLazy r) hr _
  | some cs =>
    refine LocalStep.seq (ls_modRow hr _ (fun rw h => ⟨h.inT, h.ec, fun c hc => ?_⟩)) (LocalStep.seq ?_ ?_)
    · simp only [Option.getD_some, List.mem_append, List.mem_singleton] at hc
      rcases hc with hc | rfl
      · exact hcells cs rfl c hc
      · exact ⟨.inr rfl, hce⟩
    · refine LocalStep.rd ((rd_row hr).map (·.inTable) (fun it => it = none ∨ it = some t) (fun _ h => h.inT))
        (fun it hit => ?_)
      rcases hit with rfl | rfl
      · exact LocalStep.id' t P I
      · exact ls_resize _
    · exact LocalStep.rd (rd_rowf hr (fun rw => rw.cellCbs.at .add))
        (fun cbs _ => ls_invoke dw cbs (tgt := .cell r _) hr (tk := .rowLazy r) hr)

theorem ls_rowAdd (dw : Measure) {r : Nat} (hr : P r) {i : Nat} (hi : I i) :
    LocalStep t P I (fun w => rowAdd dw w r i) := by
  show LocalStep t P I (rd (fun w => w.item i) (fun it w => rowAddCell dw w r (newCell dw i it)))
  refine LocalStep.rd (rd_item hi) (fun it _ => ls_rowAddCell dw hr _ ?_)
  have : ∀ c : Cell, (Cell.update dw it c).item = c.item := by
    intro c; unfold Cell.update; split <;> rfl
  show I (Cell.update dw it { item := i }).item
  rw [this]; exact hi

theorem ls_rowAddMany (dw : Measure) {r : Nat} (hr : P r) (items : List Nat) (hi : ∀ i ∈ items, I i) :
    LocalStep t P I (fun w => rowAddMany dw r items w) := by
  induction items with
  | nil => exact LocalStep.id' t P I
  | cons i is ih =>
    exact LocalStep.seq (ls_rowAdd dw hr (hi i (by simp))) (ih (fun j hj => hi j (by simp [hj])))

/-! ### `AddRow` -/

theorem ls_addTimeCells (dw : Measure) {r : Nat} (hr : P r) (colTaker : World → Taker)
    (hct : Rd t P I colTaker (TakerOK t P)) (n i : Nat) :
    LocalStep t P I (fun w => addTimeCells dw t r colTaker n i w) := by
  induction n generalizing i with
  | zero => exact LocalStep.id' t P I
  | succ n ih =>
    show LocalStep t P I
      (seq (rd (fun w => colCellCbs w (columnOf w r i) .add) (fun cbs => rd colTaker (fun tk w =>
              invoke dw w cbs (.cell r i) tk)))
        (seq (rd (fun w => (w.table t).cellCbs.at .add) (fun cbs => rd colTaker (fun tk w =>
              invoke dw w cbs (.cell r i) tk)))
          (fun w => addTimeCells dw t r colTaker n (i + 1) w)))
    refine LocalStep.seq ?_ (LocalStep.seq ?_ (ih (i + 1)))
    · refine LocalStep.rd (Q := fun _ => True) ⟨fun _ _ => trivial, fun w w₂ h ha => ?_⟩
        (fun cbs _ => LocalStep.rd hct (fun tk htk => ls_invoke dw cbs (tgt := .cell r i) hr htk))
      have e := (rd_columnOf hr i).ag w w₂ h ha
      have q := (rd_columnOf (t := t) (P := P) (I := I) hr i).q w h
      simp only [← e]
      exact (rd_colCellCbs q .add).ag w w₂ h ha
    · exact LocalStep.rd (rd_tablef (fun tb => tb.cellCbs.at .add))
        (fun cbs _ => LocalStep.rd hct (fun tk htk => ls_invoke dw cbs (tgt := .cell r i) hr htk))

theorem ls_addRow (dw : Measure) {r : Nat} (hr : P r) : LocalStep t P I (fun w => addRow dw w t r) := by
  show LocalStep t P I
    (seq (fun w => w.modTable t (fun tb => { tb with rows := tb.rows ++ [r] }))
    (rd (fun w => (w.table t).rows.length) (fun n =>
      seq (fun w => w.modRow r (fun rw => { rw with inTable := some t, rowNum := n }))
      (seq (rd (fun w => (w.rowCells r).length) (fun len w =>
              w.modTable t (fun tb => resizeColumnsAtLeast tb len)))
      (rd (fun w => w.rowErrors r) (fun es =>
        seq (fun w => w.modTable t (fun tb => { tb with errs := tb.errs ++ es }))
        (seq (fun w => w.modRow r (fun rw => { rw with ec := .table t }))
        (seq (rd (fun w => (w.row r).selfCbs.at .add) (fun cbs w => invoke dw w cbs (.row r) (.table t)))
        (seq (rd (fun w => (w.table t).rowCbs.at .add) (fun cbs w => invoke dw w cbs (.row r) (.table t)))
          (rd (fun w => (w.rowCells r).length) (fun len w =>
            addTimeCells dw t r (fun w => rowECTaker w r) len 0 w)))))))))))
  refine LocalStep.seq (ls_modTable _ (fun tb r' h => ?_)) (LocalStep.rd (rd_tablef (fun tb => tb.rows.length)) (fun n _ => ?_))
  · rcases h with h | h
    · exact .inl (.inl h)
    · simp only [List.mem_append, List.mem_singleton] at h
      rcases h with h | rfl
      · exact .inl (.inr h)
      · exact .inr hr
  refine LocalStep.seq (ls_modRow hr _ (fun rw h => ⟨.inr rfl, h.ec, h.cells⟩)) (LocalStep.seq ?_ ?_)
  · exact LocalStep.rd (rd_rowf hr (fun rw => (rw.cells.getD []).length)) (fun len _ => ls_resize len)
  refine LocalStep.rd (rd_rowErrors hr) (fun es _ => ?_)
  refine LocalStep.seq (ls_modTable _ (fun _ _ h => .inl h)) ?_
  refine LocalStep.seq (ls_modRow hr _ (fun rw h => ⟨h.inT, rfl, h.cells⟩)) ?_
  refine LocalStep.seq (LocalStep.rd (rd_rowf hr (fun rw => rw.selfCbs.at .add)) (fun cbs _ =>
    ls_invoke dw cbs (tgt := .row r) hr (tk := .table t) rfl)) ?_
  refine LocalStep.seq (LocalStep.rd (rd_tablef (fun tb => tb.rowCbs.at .add)) (fun cbs _ =>
    ls_invoke dw cbs (tgt := .row r) hr (tk := .table t) rfl)) ?_
  exact LocalStep.rd (rd_rowf hr (fun rw => (rw.cells.getD []).length))
    (fun len _ => ls_addTimeCells dw hr _ (rd_rowECTaker hr) len 0)

/-! ### `InvokeRenderCallbacks` -/

theorem ls_renderCells (dw : Measure) {r : Nat} (hr : P r) (n i : Nat) :
    LocalStep t P I (fun w => renderCells dw t r n i w) := by
  induction n generalizing i with
  | zero => exact LocalStep.id' t P I
  | succ n ih =>
    have e : (fun w => renderCells dw t r (n + 1) i w) = (rd (fun w => columnOf w r i) (fun col =>
      seq (rd (fun w => (w.table t).cellCbs.at .pre) (fun cbs w => invoke dw w cbs (.cell r i) (.table t)))
      (seq (rd (fun w => colCellCbs w col .pre) (fun cbs => rd (fun w => rowECTaker w r) (fun tk w =>
              invoke dw w cbs (.cell r i) tk)))
      (seq (rd (fun w => (w.row r).cellCbs.at .pre) (fun cbs w => invoke dw w cbs (.cell r i) (.table t)))
      (seq (rd (fun w => (w.table t).cellCbs.at .render) (fun cbs w => invoke dw w cbs (.cell r i) (.table t)))
      (seq (rd (fun w => ((w.cell? r i).map (·.cbs.at .render)).getD [])
              (fun cbs w => invoke dw w cbs (.cell r i) (.table t)))
      (seq (rd (fun w => (w.row r).cellCbs.at .post) (fun cbs w => invoke dw w cbs (.cell r i) (.table t)))
      (seq (rd (fun w => colCellCbs w col .post) (fun cbs => rd (fun w => rowECTaker w r) (fun tk w =>
              invoke dw w cbs (.cell r i) tk)))
      (seq (rd (fun w => (w.table t).cellCbs.at .post) (fun cbs w => invoke dw w cbs (.cell r i) (.table t)))
        (fun w => renderCells dw t r n (i + 1) w)))))))))) := by
      funext w; rw [renderCells]; rfl
    rw [e]
    refine LocalStep.rd (rd_columnOf hr i) (fun col hcol => ?_)
    have inv : ∀ cbs, LocalStep t P I (fun w => invoke dw w cbs (.cell r i) (.table t)) :=
      fun cbs => ls_invoke dw cbs (tgt := .cell r i) hr (tk := .table t) rfl
    have tcb : ∀ tm, LocalStep t P I (rd (fun w => (w.table t).cellCbs.at tm)
        (fun cbs w => invoke dw w cbs (.cell r i) (.table t))) :=
      fun tm => LocalStep.rd (rd_tablef (fun tb => tb.cellCbs.at tm)) (fun cbs _ => inv cbs)
    have rcb : ∀ tm, LocalStep t P I (rd (fun w => (w.row r).cellCbs.at tm)
        (fun cbs w => invoke dw w cbs (.cell r i) (.table t))) :=
      fun tm => LocalStep.rd (rd_rowf hr (fun rw => rw.cellCbs.at tm)) (fun cbs _ => inv cbs)
    have ccb : ∀ tm, LocalStep t P I (rd (fun w => colCellCbs w col tm)
        (fun cbs => rd (fun w => rowECTaker w r) (fun tk w => invoke dw w cbs (.cell r i) tk))) :=
      fun tm => LocalStep.rd (rd_colCellCbs hcol tm) (fun cbs _ =>
        LocalStep.rd (rd_rowECTaker hr) (fun tk htk => ls_invoke dw cbs (tgt := .cell r i) hr htk))
    refine LocalStep.seq (tcb _) (LocalStep.seq (ccb _) (LocalStep.seq (rcb _) (LocalStep.seq (tcb _)
      (LocalStep.seq ?_ (LocalStep.seq (rcb _) (LocalStep.seq (ccb _) (LocalStep.seq (tcb _) (ih (i + 1)))))))))
    exact LocalStep.rd (rd_rowf hr (fun rw => (((rw.cells.getD [])[i]?).map (·.cbs.at .render)).getD []))
      (fun cbs _ => inv cbs)

theorem ls_renderRow (dw : Measure) {r : Nat} (hr : P r) : LocalStep t P I (fun w => renderRow dw t w r) := by
  show LocalStep t P I
    (seq (rd (fun w => (w.row r).selfCbs.at .pre) (fun cbs w => invoke dw w cbs (.row r) (.table t)))
    (seq (rd (fun w => (w.rowCells r).length) (fun len w => renderCells dw t r len 0 w))
      (rd (fun w => (w.row r).selfCbs.at .post) (fun cbs w => invoke dw w cbs (.row r) (.table t)))))
  have inv : ∀ cbs, LocalStep t P I (fun w => invoke dw w cbs (.row r) (.table t)) :=
    fun cbs => ls_invoke dw cbs (tgt := .row r) hr (tk := .table t) rfl
  exact LocalStep.seq (LocalStep.rd (rd_rowf hr (fun rw => rw.selfCbs.at .pre)) (fun cbs _ => inv cbs))
    (LocalStep.seq (LocalStep.rd (rd_rowf hr (fun rw => (rw.cells.getD []).length))
        (fun len _ => ls_renderCells dw hr len 0))
      (LocalStep.rd (rd_rowf hr (fun rw => rw.selfCbs.at .post)) (fun cbs _ => inv cbs)))

theorem ls_renderColumns (dw : Measure) (tm : Time) (n i : Nat) :
    LocalStep t P I (fun w => renderColumns dw t tm n i w) := by
  induction n generalizing i with
  | zero => exact LocalStep.id' t P I
  | succ n ih =>
    show LocalStep t P I
      (seq (rd (fun w => ((w.column? t i).map (·.selfCbs.at tm)).getD [])
            (fun cbs w => invoke dw w cbs (.column t i) (.table t)))
        (fun w => renderColumns dw t tm n (i + 1) w))
    exact LocalStep.seq (LocalStep.rd (rd_tablef (fun tb => ((tb.columns[i]?).map (·.selfCbs.at tm)).getD []))
      (fun cbs _ => ls_invoke dw cbs (tgt := .column t i) rfl (tk := .table t) rfl)) (ih (i + 1))

theorem ls_invokeRenderCallbacks (dw : Measure) : LocalStep t P I (fun w => invokeRenderCallbacks dw w t) := by
  show LocalStep t P I
    (seq (rd (fun w => (w.table t).selfCbs.at .pre) (fun cbs w => invoke dw w cbs (.table t) (.table t)))
    (rd (fun w => (w.table t).columns.length) (fun ncol =>
      seq (fun w => renderColumns dw t .pre ncol 0 w)
      (seq (rd (fun w => (w.table t).header) (fun h w => match h with
              | some hr => renderRow dw t w hr
              | none => w))
      (seq (rd (fun w => (w.table t).rows) (fun rows w => rows.foldl (renderRow dw t) w))
      (seq (fun w => renderColumns dw t .post ncol 0 w)
        (rd (fun w => (w.table t).selfCbs.at .post) (fun cbs w => invoke dw w cbs (.table t) (.table t)))))))))
  have inv : ∀ cbs, LocalStep t P I (fun w => invoke dw w cbs (.table t) (.table t)) :=
    fun cbs => ls_invoke dw cbs (tgt := .table t) rfl (tk := .table t) rfl
  refine LocalStep.seq (LocalStep.rd (rd_tablef (fun tb => tb.selfCbs.at .pre)) (fun cbs _ => inv cbs))
    (LocalStep.rd (rd_tablef (fun tb => tb.columns.length)) (fun ncol _ =>
      LocalStep.seq (ls_renderColumns dw .pre ncol 0)
      (LocalStep.seq ?_ (LocalStep.seq ?_ (LocalStep.seq (ls_renderColumns dw .post ncol 0)
        (LocalStep.rd (rd_tablef (fun tb => tb.selfCbs.at .post)) (fun cbs _ => inv cbs)))))))
  · refine LocalStep.rd ((rd_table t P I).map (·.header) (fun h => ∀ hr, h = some hr → P hr)
      (fun tb htb hr e => htb hr (.inl e))) (fun h hh => ?_)
    cases h with
    | none => exact LocalStep.id' t P I
    | some hr => exact ls_renderRow dw (hh hr rfl)
  · refine LocalStep.rd ((rd_table t P I).map (·.rows) (fun rows => ∀ r ∈ rows, P r)
      (fun tb htb r e => htb r (.inr e))) (fun rows hrows => ?_)
    exact LocalStep.foldl (fun w r => renderRow dw t w r) rows (fun r hr => ls_renderRow dw (hrows r hr))

/-! ### registration, wrapping -/

theorem ls_registerCb {o : Target} (ho : TgtOK t P o) (tm : Time) (tg : CbTarget) (cb : Cb) :
    LocalStep t P I (fun w => (registerCb w o tm tg cb).getD w) := by
  cases o with
  | table t' =>
    have : t' = t := ho
    subst this
    cases tg <;> exact ls_modTable _ (fun _ _ h => .inl h)
  | column t' n =>
    have : t' = t := ho
    subst this
    cases tg
    · exact ls_modColumn n _
    · exact ls_modColumn n _
    · exact LocalStep.id' _ _ _
  | row r =>
    cases tg <;> exact ls_modRow ho _ (fun rw h => ⟨h.inT, h.ec, h.cells⟩)
  | cell r c =>
    cases tg
    · exact ls_modCell ho c _ (fun _ => ⟨rfl, rfl⟩)
    · exact ls_modCell ho c _ (fun _ => ⟨rfl, rfl⟩)
    · exact LocalStep.id' _ _ _
  | copy n =>
    cases tg
    · exact ls_other _ (fun _ => ⟨rfl, rfl, rfl⟩)
    · exact ls_other _ (fun _ => ⟨rfl, rfl, rfl⟩)
    · exact LocalStep.id' _ _ _

theorem ls_wrapEffect (k : WKind) : LocalStep t P I (fun w => wrapEffect w k t) := by
  cases k
  case text => exact ls_modTable _ (fun _ _ h => .inl h)
  case markdown => exact ls_modTable _ (fun _ _ h => .inl h)
  all_goals exact LocalStep.id' _ _ _

end C16
end Tab
