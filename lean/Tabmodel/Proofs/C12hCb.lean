/- C12h helper lemmas: `setProp` chain by chain; what callback invocations keep; the traversals. -/
import Tabmodel.Proofs.C12hPrim
set_option linter.unusedSimpArgs false
namespace Tab
open World C13 C13x
namespace C12h

/-! ### a set on one owner leaves every other owner's chain alone -/

theorem chainOf_setProp_ne (w : World) (o : Target) (k : Key) (v : Option Val) (o' : Target) (h : o ≠ o') :
    (w.setProp o k v).chainOf o' = w.chainOf o' := by
  cases o with
  | table t =>
    cases o' with
    | table t' =>
      simp only [World.chainOf, World.setProp, table_modTable]
      split
      · rename_i hh; exact absurd (by rw [hh.1]) h
      · rfl
    | column t' n =>
      have := column?_modTable_of w t (fun tb => { tb with props := tb.props.set k v }) (by intro _; rfl) t' n
      simp only [World.chainOf, World.setProp, this]
    | row r => rfl
    | cell r c => rfl
    | copy n => rfl
  | column t n =>
    cases o' with
    | table t' =>
      simp only [World.chainOf, World.setProp, World.modColumn, table_modTable]
      split <;> rfl
    | column t' n' =>
      simp only [World.chainOf, World.setProp, column?_modColumn]
      split
      · rename_i hh; obtain ⟨rfl, _, rfl⟩ := hh; exact absurd rfl h
      · rfl
    | row r => rfl
    | cell r c => rfl
    | copy n => rfl
  | row r =>
    cases o' with
    | table t' => rfl
    | column t' n' => rfl
    | row r' =>
      simp only [World.chainOf, World.setProp, row_modRow]
      split
      · rename_i hh; exact absurd (by rw [hh.1]) h
      · rfl
    | cell r' c =>
      have := cell?_modRow_of w r (fun rw => { rw with props := rw.props.set k v }) (by intro _; rfl) r' c
      simp only [World.chainOf, World.setProp, this]
    | copy n => rfl
  | cell r c =>
    cases o' with
    | table t' => rfl
    | column t' n' => rfl
    | row r' =>
      simp only [World.chainOf, World.setProp, World.modCell, row_modRow]
      split <;> rfl
    | cell r' c' =>
      simp only [World.chainOf, World.setProp, cell?_modCell]
      split
      · rename_i hh; obtain ⟨rfl, rfl⟩ := hh; exact absurd rfl h
      · rfl
    | copy n => rfl
  | copy n =>
    cases o' with
    | table t' => rfl
    | column t' n' => rfl
    | row r' => rfl
    | cell r' c' => rfl
    | copy n' =>
      simp only [World.chainOf, World.setProp, List.getElem?_modify]
      split
      · rename_i hh; subst hh; exact absurd rfl h
      · simp

/-- the chain of every owner after a set, in one formula -/
theorem chainOf_setProp (w : World) (o : Target) (k : Key) (v : Option Val) (o' : Target) :
    (w.setProp o k v).chainOf o' = if o' = o ∧ w.hasObj o then (w.chainOf o).set k v else w.chainOf o' := by
  by_cases ho : w.hasObj o
  · by_cases e : o' = o
    · subst e; simp only [ho, and_self, if_true]; exact chainOf_setProp_self w o' k v ho
    · have : ¬ (o' = o ∧ w.hasObj o) := fun hh => e hh.1
      rw [if_neg this]; exact chainOf_setProp_ne w o k v o' (fun e' => e e'.symm)
  · have : ¬ (o' = o ∧ w.hasObj o) := fun hh => ho hh.2
    rw [if_neg this, setProp_noobj w o k v ho]

theorem allNodup_setProp {w : World} (h : AllNodup w) (o : Target) (k : Key) (v : Option Val) :
    AllNodup (w.setProp o k v) := by
  intro o'
  rw [chainOf_setProp]
  split
  · exact chain_set_keys_nodup _ k v (h o)
  · exact h o'

theorem allNodup_csame {w' w : World} (e : CSame w' w) (h : AllNodup w) : AllNodup w' := by
  intro o; rw [e.chain]; exact h o

theorem allNodup_invokeOne (dw : Measure) {w : World} (h : AllNodup w) (cb : Cb) (tgt : Target) (tk : Taker) :
    AllNodup (invokeOne dw w cb tgt tk) := by
  have hev : ∀ es, AllNodup ({ w with events := es } : World) := fun es o => by rw [chainOf_events]; exact h o
  unfold World.invokeOne
  split
  · exact hev _
  · exact allNodup_setProp (hev _) _ _ _
  · exact allNodup_csame (csame_addErrTo _ _ _) (hev _)
  · split
    · split
      · exact allNodup_setProp (allNodup_setProp h _ _ _) _ _ _
      · exact h
    · exact allNodup_csame (csame_addErrTo _ _ _) h
  · split
    · split
      · exact allNodup_setProp h _ _ _
      · exact h
    · exact allNodup_csame (csame_addErrTo _ _ _) h

/-! ### the two invariants carried through any traversal -/

theorem stepInv_nodup (dw : Measure) (w0 : World) : StepInv dw w0 (fun w' _ => AllNodup w') := by
  intro w' es cb tgt tk _ _ hJ
  exact allNodup_invokeOne dw hJ cb tgt tk

theorem stepInv_val (dw : Measure) {k : Key} {w0 : World} (hq : Quiet k w0) :
    StepInv dw w0 (fun w' _ => ∀ o, w'.getProp o k = w0.getProp o k) := by
  intro w' es cb tgt tk _ hmem hJ o
  obtain ⟨s, tm, hcb⟩ := hmem
  rw [getProp_invokeOne_not_writes dw w' cb tgt tk k (hq s tm cb hcb) o]
  exact hJ o

/-- whatever a traversal principle of C13x applies to keeps every key that no callback of the starting
    world may write, and the one-link-per-key invariant -/
theorem keeps_of_any (dw : Measure) {k : Key} {w0 w' : World} {es : List Event}
    (h : ∀ J : World → List Event → Prop, StepInv dw w0 J → J w0 [] → Ext w0 J w' es) : Keeps k w0 w' := by
  have h1 := h (fun _ _ => True) (fun _ _ _ _ _ _ _ _ => trivial) trivial
  exact ⟨fun hq => (h _ (stepInv_val dw hq) (fun _ => rfl)).inv, h1.same.cbs, h1.same.ncopies,
    fun hn => (h _ (stepInv_nodup dw w0) hn).inv⟩

end C12h
end Tab
