/- Helper lemmas for C17/C19: `bytesLt` is a strict total order; `sortBytes` is a sorting permutation. -/
import Tabmodel.Model.Registry
namespace Tab
namespace Registry

/-! ### `bytesLt` -/

@[simp] theorem bytesLt_nil_nil : bytesLt [] [] = false := rfl
@[simp] theorem bytesLt_nil_cons (b : UInt8) (bs : Bytes) : bytesLt [] (b :: bs) = true := rfl
@[simp] theorem bytesLt_cons_nil (a : UInt8) (as : Bytes) : bytesLt (a :: as) [] = false := rfl
theorem bytesLt_cons_cons (a b : UInt8) (as bs : Bytes) :
    bytesLt (a :: as) (b :: bs) = if a < b then true else if b < a then false else bytesLt as bs := rfl

theorem bytesLt_irrefl (a : Bytes) : bytesLt a a = false := by
  induction a with
  | nil => rfl
  | cons x xs ih => rw [bytesLt_cons_cons]; simp [UInt8.lt_irrefl, ih]

theorem bytesLt_asymm {a b : Bytes} : bytesLt a b = true → bytesLt b a = false := by
  induction a generalizing b with
  | nil => cases b <;> simp
  | cons x xs ih =>
    cases b with
    | nil => simp
    | cons y ys =>
      rw [bytesLt_cons_cons, bytesLt_cons_cons]
      by_cases h1 : x < y
      · have h2 : ¬ y < x := UInt8.lt_asymm h1
        simp [h1, h2]
      · by_cases h2 : y < x
        · simp [h1, h2]
        · simp only [h1, h2, if_false]; exact ih

theorem bytesLt_trans {a b c : Bytes} : bytesLt a b = true → bytesLt b c = true → bytesLt a c = true := by
  induction a generalizing b c with
  | nil =>
    cases b with
    | nil => simp
    | cons y ys => cases c <;> simp
  | cons x xs ih =>
    cases b with
    | nil => simp
    | cons y ys =>
      cases c with
      | nil => simp
      | cons z zs =>
        rw [bytesLt_cons_cons, bytesLt_cons_cons, bytesLt_cons_cons]
        by_cases hxy : x < y
        · by_cases hyz : y < z
          · have := UInt8.lt_trans hxy hyz; simp [this]
          · by_cases hzy : z < y
            · simp [hyz, hzy]
            · have : y = z := UInt8.le_antisymm (UInt8.not_lt.mp hzy) (UInt8.not_lt.mp hyz)
              subst this; simp [hxy]
        · by_cases hyx : y < x
          · simp [hxy, hyx]
          · have : x = y := UInt8.le_antisymm (UInt8.not_lt.mp hyx) (UInt8.not_lt.mp hxy)
            subst this
            simp only [UInt8.lt_irrefl, if_false]
            by_cases hxz : x < z
            · simp [hxz]
            · by_cases hzx : z < x
              · simp [hxz, hzx]
              · simp only [hxz, hzx, if_false]; exact ih

/-- trichotomy, in the form "neither below the other → equal" -/
theorem bytesLt_eq_of_not_lt {a b : Bytes} : bytesLt a b = false → bytesLt b a = false → a = b := by
  induction a generalizing b with
  | nil => cases b <;> simp
  | cons x xs ih =>
    cases b with
    | nil => simp
    | cons y ys =>
      rw [bytesLt_cons_cons, bytesLt_cons_cons]
      by_cases hxy : x < y
      · simp [hxy]
      · by_cases hyx : y < x
        · simp [hxy, hyx]
        · have : x = y := UInt8.le_antisymm (UInt8.not_lt.mp hyx) (UInt8.not_lt.mp hxy)
          subst this
          simp only [UInt8.lt_irrefl, if_false]
          intro h1 h2; rw [ih h1 h2]

theorem bytesLt_trichotomy (a b : Bytes) : bytesLt a b = true ∨ a = b ∨ bytesLt b a = true := by
  cases h1 : bytesLt a b with
  | true => exact .inl rfl
  | false =>
    cases h2 : bytesLt b a with
    | true => exact .inr (.inr rfl)
    | false => exact .inr (.inl (bytesLt_eq_of_not_lt h1 h2))

/-- the non-strict order: `a ≤ b` iff not `b < a` -/
abbrev BLe (a b : Bytes) : Prop := bytesLt b a = false
/-- the strict order as a `Prop` -/
abbrev BLt (a b : Bytes) : Prop := bytesLt a b = true

theorem BLe.of_lt {a b : Bytes} (h : BLt a b) : BLe a b := bytesLt_asymm h

theorem BLe.trans {a b c : Bytes} (h1 : BLe a b) (h2 : BLe b c) : BLe a c := by
  unfold BLe at *
  cases h : bytesLt c a with
  | false => rfl
  | true =>
    -- c < a; a ≤ b so (a = b or a < b) hence c < b, contradiction with b ≤ c
    rcases bytesLt_trichotomy a b with hab | hab | hab
    · rw [bytesLt_trans h hab] at h2; cases h2
    · subst hab; rw [h] at h2; cases h2
    · rw [hab] at h1; cases h1

theorem BLe.antisymm {a b : Bytes} (h1 : BLe a b) (h2 : BLe b a) : a = b :=
  bytesLt_eq_of_not_lt h2 h1

theorem BLt.of_le_of_ne {a b : Bytes} (h : BLe a b) (hne : a ≠ b) : BLt a b := by
  rcases bytesLt_trichotomy a b with hab | hab | hab
  · exact hab
  · exact absurd hab hne
  · unfold BLe at h; rw [hab] at h; cases h

theorem BLt.ne {a b : Bytes} (h : BLt a b) : a ≠ b := by
  intro e; subst e; unfold BLt at h; rw [bytesLt_irrefl] at h; cases h

/-! ### insertion sort -/

theorem insertSorted_perm (x : Bytes) (l : List Bytes) : (insertSorted x l).Perm (x :: l) := by
  induction l with
  | nil => exact List.Perm.refl _
  | cons y ys ih =>
    unfold insertSorted
    split
    · exact (List.Perm.cons y ih).trans (List.Perm.swap x y ys)
    · exact List.Perm.refl _

theorem sortBytes_nil : sortBytes [] = [] := rfl
theorem sortBytes_cons (x : Bytes) (l : List Bytes) : sortBytes (x :: l) = insertSorted x (sortBytes l) := rfl

theorem sortBytes_perm (l : List Bytes) : (sortBytes l).Perm l := by
  induction l with
  | nil => exact List.Perm.refl _
  | cons x xs ih =>
    rw [sortBytes_cons]
    exact (insertSorted_perm x _).trans (List.Perm.cons x ih)

theorem mem_sortBytes {l : List Bytes} {x : Bytes} : x ∈ sortBytes l ↔ x ∈ l :=
  (sortBytes_perm l).mem_iff

theorem insertSorted_sorted (x : Bytes) (l : List Bytes) (h : l.Pairwise BLe) :
    (insertSorted x l).Pairwise BLe := by
  induction l with
  | nil => simp [insertSorted]
  | cons y ys ih =>
    have hy : ∀ z ∈ ys, BLe y z := fun z hz => List.rel_of_pairwise_cons h hz
    have hys := List.Pairwise.of_cons h
    unfold insertSorted
    split
    next hlt =>
      refine List.Pairwise.cons ?_ (ih hys)
      intro z hz
      rcases List.mem_cons.mp ((insertSorted_perm x ys).mem_iff.mp hz) with rfl | hz
      · exact BLe.of_lt hlt
      · exact hy z hz
    next hnlt =>
      have hxy : BLe x y := by simpa using hnlt
      refine List.Pairwise.cons ?_ h
      intro z hz
      rcases List.mem_cons.mp hz with rfl | hz
      · exact hxy
      · exact hxy.trans (hy z hz)

/-- `sortBytes` yields a `bytesLt`-nondecreasing list -/
theorem sortBytes_sorted (l : List Bytes) : (sortBytes l).Pairwise BLe := by
  induction l with
  | nil => exact List.Pairwise.nil
  | cons x xs ih => rw [sortBytes_cons]; exact insertSorted_sorted x _ ih

theorem sortBytes_nodup {l : List Bytes} (h : l.Nodup) : (sortBytes l).Nodup :=
  (sortBytes_perm l).nodup_iff.mpr h

/-- on a duplicate-free input the result is strictly increasing -/
theorem sortBytes_strict {l : List Bytes} (h : l.Nodup) : (sortBytes l).Pairwise BLt := by
  have h1 := sortBytes_sorted l
  have h2 : (sortBytes l).Pairwise (· ≠ ·) := sortBytes_nodup h
  exact (h1.and h2).imp (fun ⟨a, b⟩ => BLt.of_le_of_ne a b)

/-- a strictly increasing list has no duplicates -/
theorem nodup_of_strict {l : List Bytes} (h : l.Pairwise BLt) : l.Nodup :=
  h.imp BLt.ne

/-- sorting is insensitive to the order of the input (the map's iteration order) -/
theorem sortBytes_eq_of_perm {l₁ l₂ : List Bytes} (h : l₁.Perm l₂) : sortBytes l₁ = sortBytes l₂ :=
  List.Perm.eq_of_pairwise (le := BLe) (fun _ _ _ _ h1 h2 => BLe.antisymm h1 h2)
    (sortBytes_sorted l₁) (sortBytes_sorted l₂)
    ((sortBytes_perm l₁).trans (h.trans (sortBytes_perm l₂).symm))

/-- an already sorted list is a fixed point -/
theorem sortBytes_of_sorted {l : List Bytes} (h : l.Pairwise BLe) : sortBytes l = l :=
  List.Perm.eq_of_pairwise (le := BLe) (fun _ _ _ _ h1 h2 => BLe.antisymm h1 h2)
    (sortBytes_sorted l) h (sortBytes_perm l)

end Registry
end Tab
