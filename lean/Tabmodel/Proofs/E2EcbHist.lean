/-
  E2Ecb helpers, part 6: the pass theorems composed with the invariants of histories
  (`c11h_invariant`, `c12h_nodup`).  Kept apart from `Props/E2Ecb.lean` because `Props/C11h.lean`
  (via `Proofs/C11.lean`, `World.Stable`) and `Props/C12h.lean` (via `Proofs/C12hDefs.lean`, `PState`)
  clash with declarations imported by `Props/E2E.lean` and cannot be imported into one file with it.
-/
import Tabmodel.Props.C11h
import Tabmodel.Props.C12h
import Tabmodel.Proofs.E2EcbPass
namespace Tab
namespace E2Ecb
open World

/-- For the table a `Valid`, `HdrSafe` history built: a render pass with ANY callbacks appends to the
    table's error list exactly the errors its callbacks returned, in firing order. -/
theorem errors_history (dw : Measure) (ops : List BuildOp) (hv : Valid ops = true)
    (hs : HdrSafe ops = true) (t : Nat) (ht : t < (run dw ops).tables.length) :
    ((invokeRenderCallbacks dw (run dw ops) t).table t).errs =
      ((run dw ops).table t).errs ++ (passSteps (run dw ops) t).filterMap (fun s => raises s.tgt s.cb) := by
  obtain ⟨_, h1, h2⟩ := (c11h_invariant dw ops hv hs).2.1 t ht
  rw [irc_errs dw _ t t ht, errTo_attached]
  intro r hr
  unfold passRows at hr
  rcases List.mem_append.mp hr with h | h
  · exact h2 r (by simpa using h)
  · exact h1 r h

/-- The column chains of a table built by any history of well-formed cell values hold one link per
    key: the hypothesis of `e2ecb_props_last_writer`. -/
theorem columns_nodup_history (dw : Measure) (ops : List BuildOp) (hc : CellsOk ops) (t : Nat) :
    ∀ c ∈ ((run dw ops).table t).columns, c.props.keys.Nodup := by
  intro c hcm
  obtain ⟨n, hn, hget⟩ := List.getElem_of_mem hcm
  have := c12h_nodup dw ops hc (.column t n)
  have hcol : (run dw ops).column? t n = some c := by
    unfold World.column?; rw [List.getElem?_eq_getElem hn, hget]
  simpa [World.chainOf, hcol] using this

end E2Ecb
end Tab
