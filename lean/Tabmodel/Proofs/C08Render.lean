/- C08 helpers, part 2: what `mdEmitRow` and `renderMarkdown` write. -/
import Tabmodel.Proofs.C08Bytes
import Tabmodel.Proofs.EmitLemmas
namespace Tab
open Emit

/-! ### one row -/

/-- the chunks `mdEmitCells` writes -/
def mdCellChunks (dw : Measure) (widths : List Int) (aligns : List Nat) (bc br : Bytes) :
    List RCell → Nat → List Bytes
  | [], _ => []
  | c :: cs, i =>
    (mdPadded dw c (widths.getD i 0) (aligns.getD i 0) ++ (if cs.isEmpty then br else bc)) ::
      mdCellChunks dw widths aligns bc br cs (i + 1)

theorem mdEmitCells_ok (dw : Measure) (widths : List Int) (aligns : List Nat) (bc br : Bytes) :
    ∀ (cells : List RCell) (i : Nat), i + cells.length ≤ widths.length → i + cells.length ≤ aligns.length →
      (mdEmitCells dw widths aligns bc br cells i).res = .ok () ∧
      (mdEmitCells dw widths aligns bc br cells i).chunks = mdCellChunks dw widths aligns bc br cells i := by
  intro cells
  induction cells with
  | nil => intro i _ _; simp [mdEmitCells, mdCellChunks]
  | cons c cs ih =>
    intro i hw ha
    simp only [List.length_cons] at hw ha
    have hwi : widths[i]? = some (widths.getD i 0) := by
      rw [List.getD_eq_getElem?_getD, List.getElem?_eq_getElem (by omega)]; simp
    have hai : aligns[i]? = some (aligns.getD i 0) := by
      rw [List.getD_eq_getElem?_getD, List.getElem?_eq_getElem (by omega)]; simp
    obtain ⟨ih1, ih2⟩ := ih (i + 1) (by omega) (by omega)
    simp only [mdEmitCells, bind_eq, idx_ok hwi, idx_ok hai, bind'_pure', bind'_write, mdCellChunks]
    exact ⟨ih1, by rw [ih2]⟩

/-- what stands between two structural pipes for a present cell -/
def mdSeg (addPads : Bool) (x : Bytes) : Bytes := if addPads then [32] ++ x ++ [32] else x

def mdCellBodies (dw : Measure) (widths : List Int) (aligns : List Nat) (addPads : Bool) :
    List RCell → Nat → List Bytes
  | [], _ => []
  | c :: cs, i =>
    mdSeg addPads (mdPadded dw c (widths.getD i 0) (aligns.getD i 0)) ::
      mdCellBodies dw widths aligns addPads cs (i + 1)

/-- the pieces between the `ncols + 1` structural pipes of one row -/
def mdRowBodies (dw : Measure) (ncols : Nat) (cells : List RCell) (widths : List Int) (aligns : List Nat)
    (addPads : Bool) : List Bytes :=
  mdCellBodies dw widths aligns addPads cells 0 ++ List.replicate (ncols - cells.length) [32]

def mdRowLine (dw : Measure) (ncols : Nat) (cells : List RCell) (widths : List Int) (aligns : List Nat)
    (addPads : Bool) : Bytes :=
  pipeLine (mdRowBodies dw ncols cells widths aligns addPads)

theorem mdCellBodies_length (dw : Measure) (widths : List Int) (aligns : List Nat) (addPads : Bool) :
    ∀ (cells : List RCell) (i : Nat), (mdCellBodies dw widths aligns addPads cells i).length = cells.length := by
  intro cells; induction cells with
  | nil => intro i; rfl
  | cons c cs ih => intro i; simp [mdCellBodies, ih]

theorem mdCellBodies_get (dw : Measure) (widths : List Int) (aligns : List Nat) (addPads : Bool) :
    ∀ (cells : List RCell) (i j : Nat), (mdCellBodies dw widths aligns addPads cells i)[j]? =
      cells[j]?.map (fun c => mdSeg addPads (mdPadded dw c (widths.getD (i + j) 0) (aligns.getD (i + j) 0))) := by
  intro cells; induction cells with
  | nil => intro i j; simp [mdCellBodies]
  | cons c cs ih =>
    intro i j
    cases j with
    | zero => simp [mdCellBodies]
    | succ j => simp [mdCellBodies, ih, Nat.add_assoc, Nat.add_comm 1 j]

theorem mdRowBodies_length (dw : Measure) (ncols : Nat) (cells : List RCell) (widths : List Int)
    (aligns : List Nat) (addPads : Bool) (h : cells.length ≤ ncols) :
    (mdRowBodies dw ncols cells widths aligns addPads).length = ncols := by
  simp [mdRowBodies, mdCellBodies_length]; omega

/-- regrouping: the separators' leading space belongs to the next cell's piece -/
theorem mdCellChunks_flatten (dw : Measure) (widths : List Int) (aligns : List Nat) (addPads : Bool) :
    ∀ (cells : List RCell) (i : Nat), cells ≠ [] →
      (if addPads then [32] else []) ++
        (mdCellChunks dw widths aligns (if addPads then [32, 124, 32] else [124])
          (if addPads then [32, 124] else [124]) cells i).flatten =
      (mdCellBodies dw widths aligns addPads cells i).flatMap (· ++ [124]) := by
  intro cells
  induction cells with
  | nil => intro i h; exact absurd rfl h
  | cons c cs ih =>
    intro i _
    cases cs with
    | nil => cases addPads <;> simp [mdCellChunks, mdCellBodies, mdSeg]
    | cons c' cs' =>
      have := ih (i + 1) (by simp)
      rw [mdCellBodies, List.flatMap_cons, ← this]
      cases addPads <;> simp [mdCellChunks, mdSeg]

theorem flatMap_range_const {α} (n : Nat) (b : α) : (List.range n).flatMap (fun _ => [b]) = List.replicate n b := by
  induction n with
  | zero => rfl
  | succ n ih => rw [List.range_succ, List.flatMap_append, ih, List.replicate_succ']; simp

theorem forM'_const_write (n : Nat) (b : Bytes) :
    (forM' (List.range n) (fun _ => write b)).res = .ok () ∧
    (forM' (List.range n) (fun _ => write b)).chunks = List.replicate n b := by
  have := forM'_ok (List.range n) (fun _ => write b) (by intros; rfl)
  refine ⟨this.1, ?_⟩
  rw [this.2]
  simp only [write_chunks]
  exact flatMap_range_const n b

theorem extras_flatten (k : Nat) :
    (List.replicate k ([32, 124] : Bytes)).flatten = (List.replicate k ([32] : Bytes)).flatMap (· ++ [124]) := by
  induction k with
  | zero => rfl
  | succ k ih => simp [List.replicate_succ, ih]

theorem mdEmitRow_ok (dw : Measure) (ncols : Nat) (cells : List RCell) (widths : List Int)
    (aligns : List Nat) (addPads : Bool) (hc : cells.length ≤ ncols) (hw : widths.length = ncols)
    (ha : aligns.length = ncols) :
    (mdEmitRow dw ncols cells widths aligns addPads).res = .ok () ∧
    (mdEmitRow dw ncols cells widths aligns addPads).chunks.flatten =
      mdRowLine dw ncols cells widths aligns addPads ++ [LF] := by
  obtain ⟨c1, c2⟩ := mdEmitCells_ok dw widths aligns (if addPads then [32, 124, 32] else [124])
    (if addPads then [32, 124] else [124]) cells 0 (by omega) (by omega)
  obtain ⟨f1, f2⟩ := forM'_const_write (ncols - cells.length) [32, 124]
  have hlt : ¬ ncols < cells.length := by omega
  unfold mdEmitRow
  simp only [hlt, if_false, bind_eq, bind'_write]
  constructor
  · rw [(bind'_ok c1 _).2, (bind'_ok f1 _).2]; rfl
  · rw [(bind'_ok c1 _).1, (bind'_ok f1 _).1, c2, f2]
    simp only [write_chunks, List.flatten_cons, List.flatten_append, mdRowLine, pipeLine, mdRowBodies,
      List.flatMap_append]
    cases hcs : cells with
    | nil => 
      subst hcs
      simp [mdCellChunks, mdCellBodies, List.flatMap_replicate]
    | cons c cs =>
      have := mdCellChunks_flatten dw widths aligns addPads (c :: cs) 0 (by simp)
      rw [← this]
      cases addPads <;> simp [extras_flatten]

/-! ### the pieces are good -/

/-- `mdPadded` only ever adds spaces around the escaped text; none when the measure already reaches `want` -/
theorem mdPadded_shape (dw : Measure) (c : RCell) (want : Int) (al : Nat) :
    ∃ l r, mdPadded dw c want al = spaces l ++ mdEscape c.text ++ spaces r ∧
      (want ≤ (dw (mdEscape c.text) : Nat) → l = 0 ∧ r = 0) := by
  unfold mdPadded
  simp only
  split
  · exact ⟨0, 0, by simp [spaces], fun _ => ⟨rfl, rfl⟩⟩
  · rename_i hlt
    split
    · exact ⟨(want - ↑(dw (mdEscape c.text))).toNat, 0, by simp [spaces], fun h => absurd h hlt⟩
    · split
      · exact ⟨_, _, rfl, fun h => absurd h hlt⟩
      · exact ⟨0, (want - ↑(dw (mdEscape c.text))).toNat, by simp [spaces], fun h => absurd h hlt⟩

theorem mem_spaces {x : UInt8} {n : Nat} (h : x ∈ spaces n) : x = 32 := by
  simp [spaces, SP] at h; exact h.2

theorem mdPadded_mem (dw : Measure) (c : RCell) (want : Int) (al : Nat) :
    ∀ x ∈ mdPadded dw c want al, x = 32 ∨ x ∈ mdEscape c.text := by
  obtain ⟨l, r, h, _⟩ := mdPadded_shape dw c want al
  intro x hx
  rw [h] at hx
  simp only [List.mem_append] at hx
  rcases hx with (hx | hx) | hx
  · exact .inl (mem_spaces hx)
  · exact .inr hx
  · exact .inl (mem_spaces hx)

theorem goodPiece_sp : GoodPiece [32] := by unfold GoodPiece; decide

theorem goodPiece_seg_true (dw : Measure) (c : RCell) (want : Int) (al : Nat) :
    GoodPiece (mdSeg true (mdPadded dw c want al)) := by
  have hm := mdPadded_mem dw c want al
  refine ⟨?_, ?_, ?_⟩
  · intro h
    simp only [mdSeg, if_true, List.mem_append, List.mem_singleton] at h
    rcases h with (h | h) | h
    · exact absurd h (by decide)
    · rcases hm _ h with h' | h'
      · exact absurd h' (by decide)
      · exact (mdEscape_inert _ _ h').1 rfl
    · exact absurd h (by decide)
  · intro h
    simp only [mdSeg, if_true, List.mem_append, List.mem_singleton] at h
    rcases h with (h | h) | h
    · exact absurd h (by decide)
    · rcases hm _ h with h' | h'
      · exact absurd h' (by decide)
      · exact (mdEscape_inert _ _ h').2.1 rfl
    · exact absurd h (by decide)
  · simp [mdSeg, List.getLast?_cons, List.getLast?_append]

/-- bytes of a delimiter cell -/
def DelimByte (x : UInt8) : Prop := x = 32 ∨ x = 45 ∨ x = 58

theorem mdControlCell_bytes (w : Int) (al : Nat) : ∀ x ∈ mdControlCell w al, DelimByte x := by
  intro x hx
  unfold mdControlCell at hx
  simp only at hx
  have key : ∀ (a b : UInt8) (n : Nat), DelimByte a → DelimByte b → x ∈ [a] ++ List.replicate n 45 ++ [b] →
      DelimByte x := by
    intro a b n ha hb hx
    simp only [List.mem_append, List.mem_singleton, List.mem_replicate] at hx
    rcases hx with (hx | hx) | hx
    · rw [hx]; exact ha
    · rw [hx.2]; exact .inr (.inl rfl)
    · rw [hx]; exact hb
  split at hx
  · exact key _ _ _ (.inl rfl) (.inr (.inr rfl)) hx
  · split at hx
    · exact key _ _ _ (.inr (.inr rfl)) (.inr (.inr rfl)) hx
    · exact key _ _ _ (.inl rfl) (.inl rfl) hx

theorem mdEscape_id {s : Bytes}
    (h : ∀ x ∈ s, x ≠ 38 ∧ x ≠ 39 ∧ x ≠ 60 ∧ x ≠ 62 ∧ x ≠ 34 ∧ x ≠ 124 ∧ x ≠ 10) : mdEscape s = s := by
  induction s with
  | nil => rfl
  | cons b s ih =>
    obtain ⟨h1, h2, h3, h4, h5, h6, h7⟩ := h b (by simp)
    rw [mdEscape_cons, mdEscByte_other b h1 h2 h3 h4 h5 h6 h7, ih (fun x hx => h x (by simp [hx]))]
    rfl

theorem mdEscape_controlCell (w : Int) (al : Nat) : mdEscape (mdControlCell w al) = mdControlCell w al := by
  apply mdEscape_id
  intro x hx
  rcases mdControlCell_bytes w al x hx with h | h | h <;> subst h <;> decide

theorem goodPiece_of_delimBytes {s : Bytes} (h : ∀ x ∈ s, DelimByte x) : GoodPiece s := by
  refine ⟨?_, ?_, ?_⟩
  · intro hm; rcases h _ hm with h | h | h <;> exact absurd h (by decide)
  · intro hm; rcases h _ hm with h | h | h <;> exact absurd h (by decide)
  · intro hl
    have hm : (92 : UInt8) ∈ s := List.mem_of_getLast? hl
    rcases h _ hm with h | h | h <;> exact absurd h (by decide)

theorem goodPiece_seg_control (dw : Measure) (w want : Int) (al al' : Nat) :
    GoodPiece (mdSeg false (mdPadded dw { text := mdControlCell w al } want al')) := by
  apply goodPiece_of_delimBytes
  intro x hx
  simp only [mdSeg] at hx
  rcases mdPadded_mem dw _ want al' x hx with h | h
  · exact .inl h
  · simp only [mdEscape_controlCell] at h
    exact mdControlCell_bytes w al x h

/-! ### widths and alignments -/

def mdWidths0 (ncols : Nat) (headers : List RCell) : List Int :=
  (List.range ncols).map (fun i => match headers[i]? with | some h => h.mdw | none => 0)

def mdWidthsOf (v : RTable) (headers : List RCell) : List Int :=
  v.rows.foldl (fun ws r => match r with | none => ws | some cells => mdWiden ws cells)
    (mdWidths0 v.ncols headers)

def mdAlignsOf (v : RTable) : List Nat := (List.range v.ncols).map (effAlignNat v)

theorem mdWiden_length (ws : List Int) (cells : List RCell) : (mdWiden ws cells).length = ws.length := by
  simp [mdWiden]

theorem foldl_widen_length (rows : List (Option (List RCell))) : ∀ ws : List Int,
    (rows.foldl (fun ws r => match r with | none => ws | some cells => mdWiden ws cells) ws).length = ws.length := by
  induction rows with
  | nil => intro ws; rfl
  | cons r rows ih =>
    intro ws
    rw [List.foldl_cons, ih]
    cases r <;> simp [mdWiden_length]

theorem mdWidthsOf_length (v : RTable) (hs : List RCell) : (mdWidthsOf v hs).length = v.ncols := by
  simp [mdWidthsOf, foldl_widen_length, mdWidths0]

theorem mdAlignsOf_length (v : RTable) : (mdAlignsOf v).length = v.ncols := by simp [mdAlignsOf]

theorem foldlM_widen (n : Nat) (rows : List (Option (List RCell))) (h : ∀ cs, some cs ∈ rows → cs.length ≤ n) :
    ∀ ws : List Int,
    rows.foldlM (fun (ws : List Int) r =>
      match r with
      | none => (.ok ws : Except Stop (List Int))
      | some cells => if cells.length > n then .error (.err .structural) else .ok (mdWiden ws cells)) ws =
    .ok (rows.foldl (fun ws r => match r with | none => ws | some cells => mdWiden ws cells) ws) := by
  induction rows with
  | nil => intro ws; rfl
  | cons r rows ih =>
    intro ws
    have ih' := ih (fun cs hcs => h cs (by simp [hcs]))
    cases r with
    | none => simp only [List.foldlM_cons, List.foldl_cons]; exact ih' ws
    | some cells =>
      have : ¬ cells.length > n := by have := h cells (by simp); omega
      simp only [List.foldlM_cons, List.foldl_cons, this, if_false]
      exact ih' _

theorem mapM_ok {α β} (f : α → Except Stop β) (g : α → β) (l : List α) (h : ∀ x ∈ l, f x = .ok (g x)) :
    l.mapM f = .ok (l.map g) := by
  induction l with
  | nil => rfl
  | cons a l ih =>
    rw [List.mapM_cons, h a (by simp), ih (fun x hx => h x (by simp [hx]))]
    rfl

theorem alignEntry_of_getD (v : RTable) (hv : AlignsOK v) (k : Nat) (a : Val)
    (h : v.colAlign.getD k none = some a) : ∃ n, a = .align n := by
  have hm : some a ∈ v.colAlign := by
    rw [List.getD_eq_getElem?_getD] at h
    cases hk : v.colAlign[k]? with
    | none => rw [hk] at h; simp at h
    | some x =>
      rw [hk] at h; simp at h; subst h
      exact List.mem_of_getElem? hk
  have := List.all_eq_true.mp hv _ hm
  cases a <;> simp [alignEntryOK] at this
  exact ⟨_, rfl⟩

theorem alignOf_effAlign (v : RTable) (hv : AlignsOK v) (i : Nat) :
    alignOf (effAlign v i) = .ok (effAlignNat v i) := by
  unfold effAlignNat
  cases h : effAlign v i with
  | none => rfl
  | some a =>
    have : ∃ n, a = .align n := by
      unfold effAlign at h
      split at h
      · rename_i a' ha'
        cases h
        exact alignEntry_of_getD v hv _ _ ha'
      · exact alignEntry_of_getD v hv _ _ h
    obtain ⟨n, rfl⟩ := this
    rfl

/-! ### the whole table -/

def mdControlRow (v : RTable) (widths : List Int) (aligns : List Nat) : List RCell :=
  (List.range v.ncols).map (fun i => { text := mdControlCell (widths.getD i 0) (aligns.getD i 0) })

/-- the lines (without their LF) the renderer writes for an accepted view -/
def mdLinesOf (dw : Measure) (v : RTable) (hs : List RCell) : List Bytes :=
  mdRowLine dw v.ncols hs (mdWidthsOf v hs) (mdAlignsOf v) true ::
  mdRowLine dw v.ncols (mdControlRow v (mdWidthsOf v hs) (mdAlignsOf v)) (mdWidthsOf v hs) (mdAlignsOf v) false ::
  (bodyRows v).map (fun cells => mdRowLine dw v.ncols cells (mdWidthsOf v hs) (mdAlignsOf v) true)

theorem rows_chunks_flatten (rows : List (Option (List RCell))) (body : Option (List RCell) → Emit Unit)
    (line : List RCell → Bytes) (hn : (body none).chunks = [])
    (hs : ∀ cs, some cs ∈ rows → (body (some cs)).chunks.flatten = line cs ++ [LF]) :
    (rows.flatMap (fun r => (body r).chunks)).flatten =
      ((rows.filterMap id).map (fun cs => line cs ++ [LF])).flatten := by
  induction rows with
  | nil => rfl
  | cons r rows ih =>
    have ih' := ih (fun cs h => hs cs (by simp [h]))
    cases r with
    | none => simp [hn, ih']
    | some cs => simp [hs cs (by simp), ih']

theorem renderMarkdown_ok (dw : Measure) (v : RTable) (hs : List RCell) (hn : 1 ≤ v.ncols)
    (hh : v.header = some hs) (hshape : WFShape v) (hal : AlignsOK v) :
    (renderMarkdown dw v).res = .ok () ∧
    (renderMarkdown dw v).chunks.flatten = ((mdLinesOf dw v hs).map (· ++ [LF])).flatten := by
  have hhl : hs.length ≤ v.ncols := hshape.1 hs hh
  have hwl := mdWidthsOf_length v hs
  have hall := mdAlignsOf_length v
  have hfold : v.rows.foldlM (fun (ws : List Int) r =>
      match r with
      | none => (.ok ws : Except Stop (List Int))
      | some cells => if cells.length > v.ncols then .error (.err .structural) else .ok (mdWiden ws cells))
      ((List.range v.ncols).map (fun i => match hs[i]? with | some h => h.mdw | none => 0)) =
      .ok (mdWidthsOf v hs) := foldlM_widen v.ncols v.rows hshape.2 (mdWidths0 v.ncols hs)
  have hmap : (List.range v.ncols).mapM (fun i =>
      alignOf (match v.colAlign.getD (i + 1) none with
        | some a => some a
        | none => v.colAlign.getD 0 none)) = .ok (mdAlignsOf v) :=
    mapM_ok _ _ _ (fun i _ => alignOf_effAlign v hal i)
  obtain ⟨r1, k1⟩ := mdEmitRow_ok dw v.ncols hs (mdWidthsOf v hs) (mdAlignsOf v) true hhl hwl hall
  obtain ⟨r2, k2⟩ := mdEmitRow_ok dw v.ncols (mdControlRow v (mdWidthsOf v hs) (mdAlignsOf v))
    (mdWidthsOf v hs) (mdAlignsOf v) false (by simp [mdControlRow]) hwl hall
  have hrows := forM'_ok v.rows (fun r =>
      match r with
      | none => pure ()
      | some cells => mdEmitRow dw v.ncols cells (mdWidthsOf v hs) (mdAlignsOf v) true)
    (by
      intro r hr
      cases r with
      | none => rfl
      | some cells => exact (mdEmitRow_ok dw v.ncols cells _ _ true (hshape.2 cells hr) hwl hall).1)
  have hnc : ¬ v.ncols < 1 := by omega
  have hhl' : ¬ hs.length > v.ncols := by omega
  unfold renderMarkdown
  simp only [hnc, if_false, hh, hhl', bind_eq]
  erw [hfold]
  rw [bind'_lift_ok]
  erw [hmap]
  rw [bind'_lift_ok]
  change (bind' (mdEmitRow dw v.ncols hs (mdWidthsOf v hs) (mdAlignsOf v) true) fun _ =>
      bind' (mdEmitRow dw v.ncols (mdControlRow v (mdWidthsOf v hs) (mdAlignsOf v)) (mdWidthsOf v hs) (mdAlignsOf v) false)
        fun _ => forM' v.rows _).res = _ ∧
    (bind' (mdEmitRow dw v.ncols hs (mdWidthsOf v hs) (mdAlignsOf v) true) fun _ =>
      bind' (mdEmitRow dw v.ncols (mdControlRow v (mdWidthsOf v hs) (mdAlignsOf v)) (mdWidthsOf v hs) (mdAlignsOf v) false)
        fun _ => forM' v.rows _).chunks.flatten = _
  constructor
  · rw [(bind'_ok r1 _).2, (bind'_ok r2 _).2]; exact hrows.1
  · rw [(bind'_ok r1 _).1, (bind'_ok r2 _).1]
    erw [hrows.2]
    simp only [List.flatten_append, k1, k2, mdLinesOf, List.map_cons, List.flatten_cons, List.map_map]
    congr 2
    exact rows_chunks_flatten v.rows _ (fun cells => mdRowLine dw v.ncols cells (mdWidthsOf v hs) (mdAlignsOf v) true)
      rfl (fun cs hcs => (mdEmitRow_ok dw v.ncols cs _ _ true (hshape.2 cs hcs) hwl hall).2)

/-! ### refusals -/

theorem foldlM_widen_fail (n : Nat) (rows : List (Option (List RCell)))
    (h : ∃ cs, some cs ∈ rows ∧ n < cs.length) : ∀ ws : List Int,
    rows.foldlM (fun (ws : List Int) r =>
      match r with
      | none => (.ok ws : Except Stop (List Int))
      | some cells => if cells.length > n then .error (.err .structural) else .ok (mdWiden ws cells)) ws =
    .error (.err .structural) := by
  induction rows with
  | nil => obtain ⟨cs, hm, _⟩ := h; simp at hm
  | cons r rows ih =>
    intro ws
    obtain ⟨cs, hm, hlen⟩ := h
    cases r with
    | none =>
      simp only [List.foldlM_cons]
      exact ih ⟨cs, by simpa using hm, hlen⟩ ws
    | some cells =>
      by_cases hc : cells.length > n
      · simp only [List.foldlM_cons, hc, if_true]; rfl
      · simp only [List.foldlM_cons, hc, if_false]
        have : some cs ∈ rows := by
          rcases List.mem_cons.mp hm with e | e
          · cases e; exact absurd hlen hc
          · exact e
        exact ih ⟨cs, this, hlen⟩ _

theorem renderMarkdown_no_columns (dw : Measure) (v : RTable) (h : v.ncols < 1) :
    renderMarkdown dw v = fail .noColumns := by
  unfold renderMarkdown; simp only [h, if_true]

theorem renderMarkdown_no_headers (dw : Measure) (v : RTable) (h : ¬ v.ncols < 1) (hh : v.header = none) :
    renderMarkdown dw v = fail .noHeaders := by
  unfold renderMarkdown; simp only [h, if_false, hh]

theorem renderMarkdown_long_header (dw : Measure) (v : RTable) (hs : List RCell) (h : ¬ v.ncols < 1)
    (hh : v.header = some hs) (hl : hs.length > v.ncols) :
    renderMarkdown dw v = fail .structural := by
  unfold renderMarkdown; simp only [h, if_false, hh, hl, if_true]

theorem renderMarkdown_long_row (dw : Measure) (v : RTable) (hs : List RCell) (h : ¬ v.ncols < 1)
    (hh : v.header = some hs) (hl : ¬ hs.length > v.ncols) (hr : ∃ cs, some cs ∈ v.rows ∧ v.ncols < cs.length) :
    (renderMarkdown dw v).res = .error (.err .structural) ∧ (renderMarkdown dw v).chunks = [] := by
  have hfold := foldlM_widen_fail v.ncols v.rows hr
    ((List.range v.ncols).map (fun i => match hs[i]? with | some h => h.mdw | none => 0))
  unfold renderMarkdown
  simp only [h, if_false, hh, hl, bind_eq]
  erw [hfold]
  rw [bind'_lift_err]
  exact ⟨rfl, rfl⟩

/-! ### widths and alignments, by column -/

theorem mdWiden_get (ws : List Int) (cells : List RCell) (i : Nat) :
    (mdWiden ws cells)[i]? = ws[i]?.map (fun w =>
      match cells[i]? with | some c => if c.mdw > w then c.mdw else w | none => w) := by
  unfold mdWiden
  rw [List.getElem?_map, List.getElem?_zipIdx]
  cases ws[i]? with
  | none => simp
  | some w => simp; cases cells[i]? <;> rfl

theorem foldl_widen_get (rows : List (Option (List RCell))) (i : Nat) : ∀ ws : List Int,
    (rows.foldl (fun ws r => match r with | none => ws | some cells => mdWiden ws cells) ws)[i]? =
    ws[i]?.map (fun w => rows.foldl (fun w r =>
      match r with
      | some cells => (match cells[i]? with | some c => if c.mdw > w then c.mdw else w | none => w)
      | none => w) w) := by
  induction rows with
  | nil => intro ws; simp
  | cons r rows ih =>
    intro ws
    rw [List.foldl_cons, ih]
    cases r with
    | none => simp
    | some cells => rw [mdWiden_get]; cases ws[i]? <;> simp

theorem mdWidthsOf_get (v : RTable) (hs : List RCell) (hh : v.header = some hs) (i : Nat) (hi : i < v.ncols) :
    (mdWidthsOf v hs).getD i 0 = mdColWidth v i := by
  rw [List.getD_eq_getElem?_getD, mdWidthsOf]
  erw [foldl_widen_get]
  rw [mdColWidth, hh]
  simp [mdWidths0, hi]
  rfl

theorem mdAlignsOf_get (v : RTable) (i : Nat) (hi : i < v.ncols) : (mdAlignsOf v).getD i 0 = effAlignNat v i := by
  rw [List.getD_eq_getElem?_getD, mdAlignsOf]
  simp [hi]

/-! ### every line is a `pipeLine` of good pieces -/

theorem mdCellBodies_mem (dw : Measure) (widths : List Int) (aligns : List Nat) (addPads : Bool) :
    ∀ (cells : List RCell) (i : Nat) (b : Bytes), b ∈ mdCellBodies dw widths aligns addPads cells i →
      ∃ c ∈ cells, ∃ w a, b = mdSeg addPads (mdPadded dw c w a) := by
  intro cells; induction cells with
  | nil => intro i b h; simp [mdCellBodies] at h
  | cons c cs ih =>
    intro i b h
    simp only [mdCellBodies, List.mem_cons] at h
    rcases h with h | h
    · exact ⟨c, by simp, _, _, h⟩
    · obtain ⟨c', hc', w, a, e⟩ := ih _ _ h
      exact ⟨c', by simp [hc'], w, a, e⟩

theorem mdRowBodies_good_true (dw : Measure) (ncols : Nat) (cells : List RCell) (widths : List Int)
    (aligns : List Nat) : ∀ b ∈ mdRowBodies dw ncols cells widths aligns true, GoodPiece b := by
  intro b hb
  simp only [mdRowBodies, List.mem_append, List.mem_replicate] at hb
  rcases hb with hb | hb
  · obtain ⟨c, _, w, a, e⟩ := mdCellBodies_mem _ _ _ _ _ _ _ hb
    rw [e]; exact goodPiece_seg_true dw c w a
  · rw [hb.2]; exact goodPiece_sp

theorem mdRowBodies_good_control (dw : Measure) (v : RTable) (ws : List Int) (as : List Nat)
    (widths : List Int) (aligns : List Nat) :
    ∀ b ∈ mdRowBodies dw v.ncols (mdControlRow v ws as) widths aligns false, GoodPiece b := by
  intro b hb
  simp only [mdRowBodies, List.mem_append, List.mem_replicate] at hb
  rcases hb with hb | hb
  · obtain ⟨c, hc, w, a, e⟩ := mdCellBodies_mem _ _ _ _ _ _ _ hb
    simp only [mdControlRow, List.mem_map] at hc
    obtain ⟨i, _, rfl⟩ := hc
    rw [e]; exact goodPiece_seg_control dw _ w _ a
  · rw [hb.2]; exact goodPiece_sp

/-- a line of `ncols + 1` structural pipes around `ncols` good pieces -/
def IsPipeLine (ncols : Nat) (l : Bytes) : Prop :=
  ∃ bs : List Bytes, l = pipeLine bs ∧ bs.length = ncols ∧ ∀ b ∈ bs, GoodPiece b

theorem mdLinesOf_form (dw : Measure) (v : RTable) (hs : List RCell) (hh : v.header = some hs)
    (hshape : WFShape v) : ∀ l ∈ mdLinesOf dw v hs, IsPipeLine v.ncols l := by
  intro l hl
  simp only [mdLinesOf, List.mem_cons, List.mem_map] at hl
  rcases hl with rfl | rfl | ⟨cells, hc, rfl⟩
  · exact ⟨_, rfl, mdRowBodies_length _ _ _ _ _ _ (hshape.1 hs hh), mdRowBodies_good_true _ _ _ _ _⟩
  · exact ⟨_, rfl, mdRowBodies_length _ _ _ _ _ _ (by simp [mdControlRow]), mdRowBodies_good_control _ _ _ _ _ _⟩
  · have : some cells ∈ v.rows := by
      simp only [bodyRows, List.mem_filterMap, id] at hc
      obtain ⟨r, hr, e⟩ := hc
      rw [← e]; exact hr
    exact ⟨_, rfl, mdRowBodies_length _ _ _ _ _ _ (hshape.2 cells this), mdRowBodies_good_true _ _ _ _ _⟩

theorem IsPipeLine.facts {n : Nat} {l : Bytes} (h : IsPipeLine n l) :
    LF ∉ l ∧ unescapedPipes l = n + 1 ∧ l.count 124 = n + 1 ∧ (splitPipes l).length = n + 2 := by
  obtain ⟨bs, rfl, hlen, hg⟩ := h
  refine ⟨not_mem_lf_pieces bs hg, ?_, ?_, ?_⟩
  · rw [unescapedPipes_pipeLine bs hg, hlen]
  · rw [count_pipeLine bs hg, hlen]
  · rw [splitPipes_pipeLine bs hg]; simp [hlen]

/-- reading cell `j` back out of a row's line -/
theorem mdRowLine_get (dw : Measure) (ncols : Nat) (cells : List RCell) (widths : List Int)
    (aligns : List Nat) (addPads : Bool) (hg : ∀ b ∈ mdRowBodies dw ncols cells widths aligns addPads, GoodPiece b)
    (hc : cells.length ≤ ncols) (j : Nat) (hj : j < ncols) :
    (splitPipes (mdRowLine dw ncols cells widths aligns addPads))[j + 1]? =
      some (match cells[j]? with
        | some c => mdSeg addPads (mdPadded dw c (widths.getD j 0) (aligns.getD j 0))
        | none => [32]) := by
  have hlen := mdRowBodies_length dw ncols cells widths aligns addPads hc
  rw [mdRowLine, splitPipes_pipeLine_get _ hg j (by omega), mdRowBodies]
  by_cases hjc : j < cells.length
  · rw [List.getElem?_append_left (by simpa [mdCellBodies_length] using hjc), mdCellBodies_get]
    simp [List.getElem?_eq_getElem hjc]
  · rw [List.getElem?_append_right (by simp [mdCellBodies_length]; omega)]
    have : cells[j]? = none := List.getElem?_eq_none (by omega)
    simp only [this, mdCellBodies_length, List.getElem?_replicate]
    rw [if_pos (by omega)]

theorem mdLinesOf_length (dw : Measure) (v : RTable) (hs : List RCell) :
    (mdLinesOf dw v hs).length = 2 + (bodyRows v).length := by
  simp [mdLinesOf]; omega

/-! ### the panic branch -/

theorem mapM_err {α β} (f : α → Except Stop β) (e : Stop) (l : List α)
    (h1 : ∀ x ∈ l, (∃ y, f x = .ok y) ∨ f x = .error e) (h2 : ∃ x ∈ l, f x = .error e) :
    l.mapM f = .error e := by
  induction l with
  | nil => obtain ⟨x, hx, _⟩ := h2; simp at hx
  | cons a l ih =>
    rw [List.mapM_cons]
    rcases h1 a (by simp) with ⟨y, hy⟩ | he
    · rw [hy]
      obtain ⟨x, hx, hxe⟩ := h2
      have hxl : x ∈ l := by
        rcases List.mem_cons.mp hx with rfl | h
        · rw [hy] at hxe; cases hxe
        · exact h
      rw [ih (fun z hz => h1 z (by simp [hz])) ⟨x, hxl, hxe⟩]
      rfl
    · rw [he]; rfl

theorem alignOf_cases (raw : Option Val) :
    (∃ a, alignOf raw = .ok a) ∨ alignOf raw = .error (.panic "interface conversion: not align.Alignment") := by
  cases raw with
  | none => exact .inl ⟨0, rfl⟩
  | some x => cases x <;> first | exact .inl ⟨_, rfl⟩ | exact .inr rfl

theorem alignOf_bad (raw : Option Val) (h : alignEntryOK raw = false) :
    alignOf raw = .error (.panic "interface conversion: not align.Alignment") := by
  cases raw with
  | none => simp [alignEntryOK] at h
  | some x => cases x <;> first | rfl | simp [alignEntryOK] at h

theorem renderMarkdown_bad_align (dw : Measure) (v : RTable) (hs : List RCell) (hn : 1 ≤ v.ncols)
    (hh : v.header = some hs) (hshape : WFShape v)
    (hbad : ∃ i, i < v.ncols ∧ alignEntryOK (effAlign v i) = false) :
    (renderMarkdown dw v).res = .error (.panic "interface conversion: not align.Alignment") ∧
    (renderMarkdown dw v).chunks = [] := by
  have hhl : hs.length ≤ v.ncols := hshape.1 hs hh
  have hfold : v.rows.foldlM (fun (ws : List Int) r =>
      match r with
      | none => (.ok ws : Except Stop (List Int))
      | some cells => if cells.length > v.ncols then .error (.err .structural) else .ok (mdWiden ws cells))
      ((List.range v.ncols).map (fun i => match hs[i]? with | some h => h.mdw | none => 0)) =
      .ok (mdWidthsOf v hs) := foldlM_widen v.ncols v.rows hshape.2 (mdWidths0 v.ncols hs)
  have hmap : (List.range v.ncols).mapM (fun i =>
      alignOf (match v.colAlign.getD (i + 1) none with
        | some a => some a
        | none => v.colAlign.getD 0 none)) = .error (.panic "interface conversion: not align.Alignment") := by
    apply mapM_err
    · intro i _; exact alignOf_cases _
    · obtain ⟨i, hi, hb⟩ := hbad
      exact ⟨i, by simp [hi], alignOf_bad _ hb⟩
  have hnc : ¬ v.ncols < 1 := by omega
  have hhl' : ¬ hs.length > v.ncols := by omega
  unfold renderMarkdown
  simp only [hnc, if_false, hh, hhl', bind_eq]
  erw [hfold]
  rw [bind'_lift_ok]
  erw [hmap]
  rw [bind'_lift_err]
  exact ⟨rfl, rfl⟩

end Tab
