/-
  E2Ecb helpers, part 2: the static schedule of a render pass.

  `passSteps w t` is the list of single callback invocations (callback, target, error taker) that
  `InvokeRenderCallbacks` on table `t` performs, computed from the world BEFORE the pass alone
  (list comprehensions over the world's contents, no traversal code).  `irc_sched`: whatever the
  callbacks are, the pass IS the left fold of `invokeOne` over that list — callbacks cannot change
  which callbacks run, on what, or where their errors go.
-/
import Tabmodel.Proofs.E2EcbCore
namespace Tab

/-- one callback invocation: the callback, the owner it is handed, where its error goes -/
structure Step where
  cb : Cb
  tgt : Target
  tk : Taker
  deriving DecidableEq, Repr

/-- `invokePropertyCallbacks(list, owner, taker)` as steps -/
def stepsOf (cbs : List Cb) (tgt : Target) (tk : Taker) : List Step := cbs.map (fun cb => ⟨cb, tgt, tk⟩)

namespace World

/-- run single invocations in order -/
def runSteps (dw : Measure) (w : World) (ss : List Step) : World :=
  ss.foldl (fun w s => invokeOne dw w s.cb s.tgt s.tk) w

/-- the eight calls on cell `i` of row `r`, in the documented order; errors of the column's cell
    callbacks go to the row's container, all others to the table -/
def cellSteps (w : World) (t r i : Nat) : List Step :=
  let tgt := Target.cell r i
  stepsOf ((w.table t).cellCbs.at .pre) tgt (.table t) ++
  stepsOf (colCellCbs w (columnOf w r i) .pre) tgt (rowECTaker w r) ++
  stepsOf ((w.row r).cellCbs.at .pre) tgt (.table t) ++
  stepsOf ((w.table t).cellCbs.at .render) tgt (.table t) ++
  stepsOf (((w.cell? r i).map (·.cbs.at .render)).getD []) tgt (.table t) ++
  stepsOf ((w.row r).cellCbs.at .post) tgt (.table t) ++
  stepsOf (colCellCbs w (columnOf w r i) .post) tgt (rowECTaker w r) ++
  stepsOf ((w.table t).cellCbs.at .post) tgt (.table t)

def cellsStepsFrom (w : World) (t r i n : Nat) : List Step :=
  (List.range' i n).flatMap (cellSteps w t r)

/-- the row itself (pre), its cells left to right, the row itself (post) -/
def rowSteps (w : World) (t r : Nat) : List Step :=
  stepsOf ((w.row r).selfCbs.at .pre) (.row r) (.table t) ++
  (List.range (w.rowCells r).length).flatMap (cellSteps w t r) ++
  stepsOf ((w.row r).selfCbs.at .post) (.row r) (.table t)

def colSteps (w : World) (t : Nat) (tm : Time) (j : Nat) : List Step :=
  stepsOf (((w.column? t j).map (·.selfCbs.at tm)).getD []) (.column t j) (.table t)

def colsStepsFrom (w : World) (t : Nat) (tm : Time) (i n : Nat) : List Step :=
  (List.range' i n).flatMap (colSteps w t tm)

/-- every column record itself, the defaults column 0 first -/
def colsSteps (w : World) (t : Nat) (tm : Time) : List Step :=
  (List.range (w.table t).columns.length).flatMap (colSteps w t tm)

/-- the rows a pass visits: the header row (if any), then the body rows -/
def passRows (w : World) (t : Nat) : List Nat := (w.table t).header.toList ++ (w.table t).rows

/-- the whole pass: table (pre), columns (pre), header row, rows, columns (post), table (post) -/
def passSteps (w : World) (t : Nat) : List Step :=
  stepsOf ((w.table t).selfCbs.at .pre) (.table t) (.table t) ++
  colsSteps w t .pre ++
  (passRows w t).flatMap (rowSteps w t) ++
  colsSteps w t .post ++
  stepsOf ((w.table t).selfCbs.at .post) (.table t) (.table t)

end World

namespace E2Ecb
open World

theorem runSteps_nil (dw : Measure) (w : World) : runSteps dw w [] = w := rfl

theorem runSteps_append (dw : Measure) (w : World) (a b : List Step) :
    runSteps dw w (a ++ b) = runSteps dw (runSteps dw w a) b := by
  unfold runSteps; rw [List.foldl_append]

theorem runSteps_cons (dw : Measure) (w : World) (s : Step) (ss : List Step) :
    runSteps dw w (s :: ss) = runSteps dw (invokeOne dw w s.cb s.tgt s.tk) ss := rfl

theorem invoke_eq_runSteps (dw : Measure) (w : World) (cbs : List Cb) (tgt : Target) (tk : Taker) :
    invoke dw w cbs tgt tk = runSteps dw w (stepsOf cbs tgt tk) := by
  unfold invoke runSteps stepsOf
  rw [List.foldl_map]

theorem core_runSteps (dw : Measure) (ss : List Step) (w : World) (h : ∀ s ∈ ss, s.tk.eager = true) :
    (runSteps dw w ss).core = w.core := by
  induction ss generalizing w with
  | nil => rfl
  | cons s ss ih =>
    rw [runSteps_cons, ih _ (fun s' hs' => h s' (by simp [hs'])), core_invokeOne dw w s.cb s.tgt s.tk (h s (by simp))]

theorem stepsOf_eager (cbs : List Cb) (tgt : Target) {tk : Taker} (h : tk.eager = true) :
    ∀ s ∈ stepsOf cbs tgt tk, s.tk.eager = true := by
  intro s hs
  unfold stepsOf at hs
  rw [List.mem_map] at hs
  obtain ⟨cb, _, e⟩ := hs
  subst e
  exact h

/-! ### the traversal, top down -/

/-- `w'` is reached from `w` by running `ss`, all of whose takers are eager; `w` (hence `w'`) has
    the core of `w0` -/
structure Sch (dw : Measure) (w0 w w' : World) (ss : List Step) : Prop where
  eq : w' = runSteps dw w ss
  core : w'.core = w0.core
  eager : ∀ s ∈ ss, s.tk.eager = true

theorem sch_refl (dw : Measure) {w0 w : World} (h : w.core = w0.core) : Sch dw w0 w w [] :=
  ⟨rfl, h, fun _ hs => by simp at hs⟩

theorem Sch.cast {dw : Measure} {w0 w w' : World} {ss ss' : List Step} (h : Sch dw w0 w w' ss) (e : ss = ss') :
    Sch dw w0 w w' ss' := e ▸ h

theorem sch_invoke {dw : Measure} {w0 w w1 : World} {ss : List Step} (h : Sch dw w0 w w1 ss)
    {cbs X : List Cb} (tgt : Target) {tk Y : Taker}
    (hc : w1.core = w0.core → cbs = X) (hk : w1.core = w0.core → tk = Y) (hY : Y.eager = true) :
    Sch dw w0 w (invoke dw w1 cbs tgt tk) (ss ++ stepsOf X tgt Y) := by
  rw [hc h.core, hk h.core]
  refine ⟨?_, ?_, ?_⟩
  · rw [runSteps_append, ← h.eq, invoke_eq_runSteps]
  · rw [invoke_eq_runSteps, core_runSteps dw _ _ (stepsOf_eager X tgt hY)]; exact h.core
  · intro s hs
    rcases List.mem_append.mp hs with h1 | h1
    · exact h.eager s h1
    · exact stepsOf_eager X tgt hY s h1

theorem cellsStepsFrom_succ (w : World) (t r i n : Nat) :
    cellsStepsFrom w t r i (n + 1) = cellSteps w t r i ++ cellsStepsFrom w t r (i + 1) n := by
  simp [cellsStepsFrom, List.range'_succ]

theorem colsStepsFrom_succ (w : World) (t : Nat) (tm : Time) (i n : Nat) :
    colsStepsFrom w t tm i (n + 1) = colSteps w t tm i ++ colsStepsFrom w t tm (i + 1) n := by
  simp [colsStepsFrom, List.range'_succ]

theorem colCellCbs_core {w0 wa wb : World} (ha : wa.core = w0.core) (hb : wb.core = w0.core) (r i : Nat) (tm : Time) :
    wb.colCellCbs (wa.columnOf r i) tm = w0.colCellCbs (w0.columnOf r i) tm := by
  rw [of_core_eq (fun w => w.columnOf r i) (rd_columnOf r i) ha]
  exact of_core_eq (fun w => w.colCellCbs (w0.columnOf r i) tm) (rd_colCellCbs _ tm) hb

theorem cellOwn_core {w0 w' : World} (hc : w'.core = w0.core) (r i : Nat) (tm : Time) :
    ((w'.cell? r i).map (·.cbs.at tm)).getD [] = ((w0.cell? r i).map (·.cbs.at tm)).getD [] :=
  of_core_eq (fun w => ((w.cell? r i).map (·.cbs.at tm)).getD []) (rd_cellCbs r i tm) hc

theorem renderCells_sch (dw : Measure) (w0 w : World) (t r : Nat) :
    ∀ (n i : Nat) (w1 : World) (ss : List Step), Sch dw w0 w w1 ss →
      Sch dw w0 w (renderCells dw t r n i w1) (ss ++ cellsStepsFrom w0 t r i n) := by
  intro n
  induction n with
  | zero => intro i w1 ss h; simpa [renderCells, cellsStepsFrom] using h
  | succ n ih =>
    intro i w1 ss h
    rw [cellsStepsFrom_succ, ← List.append_assoc]
    simp only [renderCells]
    apply ih
    unfold cellSteps
    simp only [← List.append_assoc]
    refine sch_invoke ?_ _ (fun hc => of_core_eq (fun w => (w.table t).cellCbs.at .post)
      (fun w => by simp only [rd_tableCell]) hc) (fun _ => rfl) rfl
    refine sch_invoke ?_ _ (fun hc => colCellCbs_core h.core hc r i .post)
      (fun hc => of_core_eq (fun w => w.rowECTaker r) (rd_rowECTaker r) hc) (rowECTaker_eager w0 r)
    refine sch_invoke ?_ _ (fun hc => of_core_eq (fun w => (w.row r).cellCbs.at .post)
      (fun w => by simp only [rd_rowCell]) hc) (fun _ => rfl) rfl
    refine sch_invoke ?_ _ (fun hc => cellOwn_core hc r i .render) (fun _ => rfl) rfl
    refine sch_invoke ?_ _ (fun hc => of_core_eq (fun w => (w.table t).cellCbs.at .render)
      (fun w => by simp only [rd_tableCell]) hc) (fun _ => rfl) rfl
    refine sch_invoke ?_ _ (fun hc => of_core_eq (fun w => (w.row r).cellCbs.at .pre)
      (fun w => by simp only [rd_rowCell]) hc) (fun _ => rfl) rfl
    refine sch_invoke ?_ _ (fun hc => colCellCbs_core h.core hc r i .pre)
      (fun hc => of_core_eq (fun w => w.rowECTaker r) (rd_rowECTaker r) hc) (rowECTaker_eager w0 r)
    exact sch_invoke h _ (fun hc => of_core_eq (fun w => (w.table t).cellCbs.at .pre)
      (fun w => by simp only [rd_tableCell]) hc) (fun _ => rfl) rfl

theorem renderRow_sch (dw : Measure) (w0 w : World) (t r : Nat) (w1 : World) (ss : List Step)
    (h : Sch dw w0 w w1 ss) : Sch dw w0 w (renderRow dw t w1 r) (ss ++ rowSteps w0 t r) := by
  have h1 := sch_invoke h (cbs := (w1.row r).selfCbs.at .pre) (.row r) (tk := .table t)
    (fun hc => of_core_eq (fun w => (w.row r).selfCbs.at .pre) (fun w => by simp only [rd_rowSelf]) hc)
    (fun _ => rfl) rfl
  have h2 := (renderCells_sch dw w0 w t r
    (((invoke dw w1 ((w1.row r).selfCbs.at .pre) (.row r) (.table t)).rowCells r).length) 0 _ _ h1).cast
    (ss' := ss ++ stepsOf ((w0.row r).selfCbs.at .pre) (.row r) (.table t) ++
      cellsStepsFrom w0 t r 0 (w0.rowCells r).length)
    (by rw [of_core_eq (fun w => (w.rowCells r).length) (rd_rowCellsLen r) h1.core])
  have h3 := sch_invoke h2 (.row r) (tk := .table t)
    (fun hc => of_core_eq (fun w => (w.row r).selfCbs.at .post) (fun w => by simp only [rd_rowSelf]) hc)
    (fun _ => rfl) rfl
  refine Sch.cast h3 ?_
  simp only [rowSteps, cellsStepsFrom, List.range_eq_range', List.append_assoc]

theorem renderRows_sch (dw : Measure) (w0 w : World) (t : Nat) :
    ∀ (rs : List Nat) (w1 : World) (ss : List Step), Sch dw w0 w w1 ss →
      Sch dw w0 w (rs.foldl (renderRow dw t) w1) (ss ++ rs.flatMap (rowSteps w0 t)) := by
  intro rs
  induction rs with
  | nil => intro w1 ss h; simpa using h
  | cons r rs ih =>
    intro w1 ss h
    simp only [List.foldl_cons, List.flatMap_cons, ← List.append_assoc]
    exact ih _ _ (renderRow_sch dw w0 w t r w1 ss h)

theorem renderColumns_sch (dw : Measure) (w0 w : World) (t : Nat) (tm : Time) :
    ∀ (n i : Nat) (w1 : World) (ss : List Step), Sch dw w0 w w1 ss →
      Sch dw w0 w (renderColumns dw t tm n i w1) (ss ++ colsStepsFrom w0 t tm i n) := by
  intro n
  induction n with
  | zero => intro i w1 ss h; simpa [renderColumns, colsStepsFrom] using h
  | succ n ih =>
    intro i w1 ss h
    rw [colsStepsFrom_succ, ← List.append_assoc]
    simp only [renderColumns]
    apply ih
    exact sch_invoke h _ (fun hc => of_core_eq (fun w => ((w.column? t i).map (·.selfCbs.at tm)).getD [])
      (rd_colSelf t i tm) hc) (fun _ => rfl) rfl

theorem colsSteps_eq (w : World) (t : Nat) (tm : Time) :
    colsSteps w t tm = colsStepsFrom w t tm 0 (w.table t).columns.length := by
  simp only [colsSteps, colsStepsFrom, List.range_eq_range']

/-- the pass is the fold of single invocations over the static schedule -/
theorem irc_sch (dw : Measure) (w : World) (t : Nat) :
    Sch dw w w (invokeRenderCallbacks dw w t) (passSteps w t) := by
  have e0 : Sch dw w w w [] := sch_refl dw rfl
  unfold invokeRenderCallbacks
  extract_lets w1 ncol w2 w3 w4 w5
  have e1 : Sch dw w w w1 ([] ++ stepsOf ((w.table t).selfCbs.at .pre) (.table t) (.table t)) :=
    sch_invoke e0 _ (fun _ => rfl) (fun _ => rfl) rfl
  have hn : ncol = (w.table t).columns.length :=
    of_core_eq (fun w => (w.table t).columns.length) (rd_ncolrecs t) e1.core
  have e2 : Sch dw w w w2 (_ ++ colsStepsFrom w t .pre 0 ncol) := renderColumns_sch dw w w t .pre ncol 0 _ _ e1
  have e3 : Sch dw w w w3 ([] ++ stepsOf ((w.table t).selfCbs.at .pre) (.table t) (.table t) ++
      colsStepsFrom w t .pre 0 ncol ++ (w.table t).header.toList.flatMap (rowSteps w t)) := by
    have hh : (w2.table t).header = (w.table t).header :=
      of_core_eq (fun w => (w.table t).header) (rd_header t) e2.core
    show Sch dw w w (match (w2.table t).header with | some hr => renderRow dw t w2 hr | none => w2) _
    rw [hh]
    cases (w.table t).header with
    | none => simpa using e2
    | some hr => simpa using renderRow_sch dw w w t hr _ _ e2
  have e4 : Sch dw w w w4 ([] ++ stepsOf ((w.table t).selfCbs.at .pre) (.table t) (.table t) ++
      colsStepsFrom w t .pre 0 ncol ++ (w.table t).header.toList.flatMap (rowSteps w t) ++
      (w.table t).rows.flatMap (rowSteps w t)) :=
    (renderRows_sch dw w w t (w3.table t).rows _ _ e3).cast
      (by rw [of_core_eq (fun w => (w.table t).rows) (rd_rows t) e3.core])
  have e5 := renderColumns_sch dw w w t .post ncol 0 _ _ e4
  have e6 := sch_invoke e5 (cbs := (w5.table t).selfCbs.at .post) (.table t) (tk := .table t)
    (fun hc => of_core_eq (fun w => (w.table t).selfCbs.at .post) (fun w => by simp only [rd_tableSelf]) hc)
    (fun _ => rfl) rfl
  refine Sch.cast e6 ?_
  simp only [passSteps, passRows, colsSteps_eq, hn, List.flatMap_append, List.append_assoc, List.nil_append]

theorem irc_sched (dw : Measure) (w : World) (t : Nat) :
    invokeRenderCallbacks dw w t = runSteps dw w (passSteps w t) := (irc_sch dw w t).eq

theorem irc_core (dw : Measure) (w : World) (t : Nat) : (invokeRenderCallbacks dw w t).core = w.core :=
  (irc_sch dw w t).core

theorem passSteps_eager (w : World) (t : Nat) : ∀ s ∈ passSteps w t, s.tk.eager = true :=
  (irc_sch (fun _ => 0) w t).eager

end E2Ecb
end Tab
