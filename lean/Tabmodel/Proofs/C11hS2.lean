/- C11, history level — the counting re-runs equal the static sums. -/
import Tabmodel.Proofs.C11hStatic
namespace Tab
namespace World

theorem invokeK_static {w0 : World} (dw : Measure) (e : Nat) (c : Cnt) (cbs : World → List Cb)
    (tgt : Target) (tk : World → Taker) (h : Same w0 c.1) (hcbs : ∀ w, Same w0 w → cbs w = cbs w0) :
    Same w0 (invokeK dw e c cbs tgt tk).1 ∧
    (invokeK dw e c cbs tgt tk).2 = c.2 + raiseCount tgt e (cbs w0) :=
  ⟨h.trans (same_invoke dw c.1 _ tgt _), by rw [invokeK_snd, hcbs c.1 h]⟩

/-! ### add-time cell callbacks -/

theorem addTimeCellsK_static {w0 : World} (dw : Measure) (e t r : Nat) (tkf : World → Taker)
    (n i : Nat) (c : Cnt) (h : Same w0 c.1) :
    Same w0 (addTimeCellsK dw e t r tkf n i c).1 ∧
    (addTimeCellsK dw e t r tkf n i c).2 = c.2 + addCellsCount w0 e t r n i := by
  induction n generalizing i c with
  | zero => exact ⟨h, rfl⟩
  | succ n ih =>
    rw [addTimeCellsK, addCellsCount]
    obtain ⟨s1, n1⟩ := invokeK_static dw e c (fun w => colCellCbs w (columnOf w r i) .add)
      (.cell r i) tkf h (fun w hw => by simp only [same_columnOf hw, same_colCellCbs hw])
    obtain ⟨s2, n2⟩ := invokeK_static dw e _ (fun w => (w.table t).cellCbs.at .add)
      (.cell r i) tkf s1 (fun w hw => by simp only [same_table_cellCbs hw])
    obtain ⟨s3, n3⟩ := ih (i + 1) _ s2
    refine ⟨s3, ?_⟩
    rw [n3, n2, n1]; omega

/-- the add-time callbacks of `addRow` on the world `w0` that `addRowCore` produced -/
theorem addRowCbsK_static (dw : Measure) (e k : Nat) (w0 : World) (t r : Nat) :
    (addTimeCellsK dw e t r (fun w => rowECTaker w r)
        (((invokeK dw e (invokeK dw e (w0, k) (fun w => (w.row r).selfCbs.at .add) (.row r)
            (fun _ => .table t)) (fun w => (w.table t).rowCbs.at .add) (.row r)
            (fun _ => .table t)).1.rowCells r).length) 0
        (invokeK dw e (invokeK dw e (w0, k) (fun w => (w.row r).selfCbs.at .add) (.row r)
            (fun _ => .table t)) (fun w => (w.table t).rowCbs.at .add) (.row r)
            (fun _ => .table t))).2 = k + addCbsCount w0 e t r true := by
  obtain ⟨s1, n1⟩ := invokeK_static dw e (w0, k) (fun w => (w.row r).selfCbs.at .add) (.row r)
    (fun _ => .table t) (Same.refl w0) (fun w hw => by simp only [same_row_selfCbs hw])
  obtain ⟨s2, n2⟩ := invokeK_static dw e _ (fun w => (w.table t).rowCbs.at .add) (.row r)
    (fun _ => .table t) s1 (fun w hw => by simp only [same_table_rowCbs hw])
  obtain ⟨_, n3⟩ := addTimeCellsK_static dw e t r (fun w => rowECTaker w r)
    (((invokeK dw e (invokeK dw e (w0, k) (fun w => (w.row r).selfCbs.at .add) (.row r)
            (fun _ => .table t)) (fun w => (w.table t).rowCbs.at .add) (.row r)
            (fun _ => .table t)).1.rowCells r).length) 0 _ s2
  rw [n3, n2, n1, same_rowCells_length s2]
  simp only [addCbsCount, if_true]; omega

theorem addRowK_static (dw : Measure) (e k : Nat) (w : World) (t r : Nat) :
    (addRowK dw e (w, k) t r).2 = k + addCbsCount (addRowCore w t r) e t r true := by
  have := addRowCbsK_static dw e k (addRowCore w t r) t r
  unfold addRowK
  exact this

/-! ### render -/

theorem cellCalls_frame {w0 : World} (t r i : Nat) (col : Option (Nat × Nat)) :
    ∀ d ∈ cellCalls t r i col, ∀ w, Same w0 w → d.1 w = d.1 w0 := by
  intro d hd w hw
  simp only [cellCalls, List.mem_cons, List.not_mem_nil, or_false] at hd
  rcases hd with h | h | h | h | h | h | h | h <;> subst h <;>
    simp only [same_table_cellCbs hw, same_colCellCbs hw, same_row_cellCbs hw, same_cell_render hw]

theorem foldK_static {w0 : World} (dw : Measure) (e : Nat) (tgt : Target)
    (calls : List ((World → List Cb) × (World → Taker))) (c : Cnt) (h : Same w0 c.1)
    (hcalls : ∀ d ∈ calls, ∀ w, Same w0 w → d.1 w = d.1 w0) :
    Same w0 (calls.foldl (fun c d => invokeK dw e c d.1 tgt d.2) c).1 ∧
    (calls.foldl (fun c d => invokeK dw e c d.1 tgt d.2) c).2
      = c.2 + (calls.map (fun d => raiseCount tgt e (d.1 w0))).sum := by
  induction calls generalizing c with
  | nil => exact ⟨h, rfl⟩
  | cons d ds ih =>
    simp only [List.foldl_cons, List.map_cons, List.sum_cons]
    obtain ⟨s1, n1⟩ := invokeK_static dw e c d.1 tgt d.2 h (hcalls d (List.mem_cons_self ..))
    obtain ⟨s2, n2⟩ := ih _ s1 (fun d' hd' => hcalls d' (List.mem_cons_of_mem _ hd'))
    exact ⟨s2, by rw [n2, n1]; omega⟩

theorem renderCellsK_static {w0 : World} (dw : Measure) (e t r n i : Nat) (c : Cnt) (h : Same w0 c.1) :
    Same w0 (renderCellsK dw e t r n i c).1 ∧
    (renderCellsK dw e t r n i c).2 = c.2 + cellsRenderCount w0 e t r n i := by
  induction n generalizing i c with
  | zero => exact ⟨h, rfl⟩
  | succ n ih =>
    rw [renderCellsK, cellsRenderCount, renderCellK]
    obtain ⟨s1, n1⟩ := foldK_static dw e (.cell r i) (cellCalls t r i (columnOf c.1 r i)) c h
      (cellCalls_frame t r i _)
    obtain ⟨s2, n2⟩ := ih (i + 1) _ s1
    refine ⟨s2, ?_⟩
    rw [n2, n1, same_columnOf h]
    simp only [cellRenderCount]; omega

theorem renderRowK_static {w0 : World} (dw : Measure) (e t : Nat) (c : Cnt) (r : Nat) (h : Same w0 c.1) :
    Same w0 (renderRowK dw e t c r).1 ∧
    (renderRowK dw e t c r).2 = c.2 + rowRenderCount w0 e t r := by
  unfold renderRowK
  obtain ⟨s1, n1⟩ := invokeK_static dw e c (fun w => (w.row r).selfCbs.at .pre) (.row r)
    (fun _ => .table t) h (fun w hw => by simp only [same_row_selfCbs hw])
  obtain ⟨s2, n2⟩ := renderCellsK_static dw e t r
    ((invokeK dw e c (fun w => (w.row r).selfCbs.at .pre) (.row r) (fun _ => .table t)).1.rowCells r).length
    0 _ s1
  obtain ⟨s3, n3⟩ := invokeK_static dw e _ (fun w => (w.row r).selfCbs.at .post) (.row r)
    (fun _ => .table t) s2 (fun w hw => by simp only [same_row_selfCbs hw])
  refine ⟨s3, ?_⟩
  simp only
  rw [n3, n2, n1, same_rowCells_length s1]
  simp only [rowRenderCount]; omega

theorem renderColumnsK_static {w0 : World} (dw : Measure) (e t : Nat) (tm : Time) (n i : Nat) (c : Cnt)
    (h : Same w0 c.1) :
    Same w0 (renderColumnsK dw e t tm n i c).1 ∧
    (renderColumnsK dw e t tm n i c).2 = c.2 + colsRenderCount w0 e t tm n i := by
  induction n generalizing i c with
  | zero => exact ⟨h, rfl⟩
  | succ n ih =>
    rw [renderColumnsK, colsRenderCount]
    obtain ⟨s1, n1⟩ := invokeK_static dw e c
      (fun w => ((w.column? t i).map (·.selfCbs.at tm)).getD []) (.column t i) (fun _ => .table t) h
      (fun w hw => same_column_selfCbs hw t i tm)
    obtain ⟨s2, n2⟩ := ih (i + 1) _ s1
    exact ⟨s2, by rw [n2, n1]; omega⟩

theorem foldl_renderRowK_static {w0 : World} (dw : Measure) (e t : Nat) (rs : List Nat) (c : Cnt)
    (h : Same w0 c.1) :
    Same w0 (rs.foldl (renderRowK dw e t) c).1 ∧
    (rs.foldl (renderRowK dw e t) c).2 = c.2 + (rs.map (rowRenderCount w0 e t)).sum := by
  induction rs generalizing c with
  | nil => exact ⟨h, rfl⟩
  | cons r rs ih =>
    simp only [List.foldl_cons, List.map_cons, List.sum_cons]
    obtain ⟨s1, n1⟩ := renderRowK_static dw e t c r h
    obtain ⟨s2, n2⟩ := ih _ s1
    exact ⟨s2, by rw [n2, n1]; omega⟩

theorem renderHeaderK_static {w0 : World} (dw : Measure) (e t : Nat) (c : Cnt) (h : Same w0 c.1) :
    Same w0 (renderHeaderK dw e t c).1 ∧
    (renderHeaderK dw e t c).2 = c.2 + hdrRenderCount w0 e t := by
  unfold renderHeaderK hdrRenderCount
  rw [same_header h]
  cases (w0.table t).header with
  | none => exact ⟨h, rfl⟩
  | some hr => exact renderRowK_static dw e t c hr h

theorem renderK_static (dw : Measure) (e k : Nat) (w0 : World) (t : Nat) :
    (renderK dw e (w0, k) t).2 = k + renderCount w0 e t := by
  unfold renderK
  obtain ⟨s1, n1⟩ := invokeK_static dw e (w0, k) (fun w => (w.table t).selfCbs.at .pre) (.table t)
    (fun _ => .table t) (Same.refl w0) (fun w hw => by simp only [same_table_selfCbs hw])
  generalize invokeK dw e (w0, k) (fun w => (w.table t).selfCbs.at .pre) (.table t)
    (fun _ => .table t) = c1 at s1 n1 ⊢
  simp only
  rw [same_columns_length s1]
  obtain ⟨s2, n2⟩ := renderColumnsK_static dw e t .pre (w0.table t).columns.length 0 c1 s1
  generalize renderColumnsK dw e t .pre (w0.table t).columns.length 0 c1 = c2 at s2 n2 ⊢
  obtain ⟨s3, n3⟩ := renderHeaderK_static dw e t c2 s2
  generalize renderHeaderK dw e t c2 = c3 at s3 n3 ⊢
  rw [same_rows s3]
  obtain ⟨s4, n4⟩ := foldl_renderRowK_static dw e t (w0.table t).rows c3 s3
  generalize (w0.table t).rows.foldl (renderRowK dw e t) c3 = c4 at s4 n4 ⊢
  obtain ⟨s5, n5⟩ := renderColumnsK_static dw e t .post (w0.table t).columns.length 0 c4 s4
  generalize renderColumnsK dw e t .post (w0.table t).columns.length 0 c4 = c5 at s5 n5 ⊢
  obtain ⟨_, n6⟩ := invokeK_static dw e c5 (fun w => (w.table t).selfCbs.at .post) (.table t)
    (fun _ => .table t) s5 (fun w hw => by simp only [same_table_selfCbs hw])
  rw [n6, n5, n4, n3, n2, n1]
  simp only [renderCount]; omega

end World
end Tab
