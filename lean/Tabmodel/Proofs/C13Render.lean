/- C13 helper lemmas: log-only invocation appends events and nothing else; render traversal. -/
import Tabmodel.Proofs.C13Spec
set_option linter.unusedSimpArgs false
namespace Tab
open World
namespace C13

/-! ### `logEvents`, `logIds` -/

@[simp] theorem logIds_nil : logIds [] = [] := rfl
@[simp] theorem logIds_cons_log (id : Nat) (cbs : List Cb) : logIds (.log id :: cbs) = id :: logIds cbs := rfl
theorem logIds_append (a b : List Cb) : logIds (a ++ b) = logIds a ++ logIds b := by
  simp [logIds, List.filterMap_append]
@[simp] theorem ev_nil (tgt : Target) : logEvents [] tgt = [] := rfl
@[simp] theorem ev_cons_log (id : Nat) (cbs : List Cb) (tgt : Target) :
    logEvents (.log id :: cbs) tgt = ⟨id, tgt⟩ :: logEvents cbs tgt := rfl

@[simp] theorem CbSet.empty_at (tm : Time) : ({} : CbSet).at tm = [] := by cases tm <;> rfl

/-! ### `addEv` -/

@[simp] theorem addEv_nil (w : World) : w.addEv [] = w := by
  simp [World.addEv]
@[simp] theorem addEv_addEv (w : World) (a b : List Event) : (w.addEv a).addEv b = w.addEv (a ++ b) := by
  simp [World.addEv, List.append_assoc]
@[simp] theorem addEv_events (w : World) (a : List Event) : (w.addEv a).events = w.events ++ a := rfl
theorem addEv_frame (w : World) (a : List Event) : { w.addEv a with events := w.events } = w := rfl

@[simp] theorem table_addEv (w : World) (a : List Event) (t : Nat) : (w.addEv a).table t = w.table t := rfl
@[simp] theorem row_addEv (w : World) (a : List Event) (r : Nat) : (w.addEv a).row r = w.row r := rfl
@[simp] theorem rowCells_addEv (w : World) (a : List Event) (r : Nat) : (w.addEv a).rowCells r = w.rowCells r := rfl
@[simp] theorem cell?_addEv (w : World) (a : List Event) (r c : Nat) : (w.addEv a).cell? r c = w.cell? r c := rfl
@[simp] theorem column?_addEv (w : World) (a : List Event) (t n : Nat) : (w.addEv a).column? t n = w.column? t n := rfl
@[simp] theorem columnOf_addEv (w : World) (a : List Event) (r c : Nat) : (w.addEv a).columnOf r c = w.columnOf r c := rfl
@[simp] theorem colCellCbs_addEv (w : World) (a : List Event) (tc : Option (Nat × Nat)) (tm : Time) :
    (w.addEv a).colCellCbs tc tm = w.colCellCbs tc tm := rfl
@[simp] theorem cbSet_addEv (w : World) (a : List Event) (s : CbSlot) : (w.addEv a).cbSet s = w.cbSet s := by
  cases s <;> rfl
@[simp] theorem cbsAt_addEv (w : World) (a : List Event) (s : CbSlot) (tm : Time) :
    (w.addEv a).cbsAt s tm = w.cbsAt s tm := by simp [World.cbsAt]

/-! ### the model's callback-list expressions are the slots -/

theorem getD_map_at {α : Type} (o : Option α) (f : α → CbSet) (tm : Time) :
    (o.map (fun x => (f x).at tm)).getD [] = ((o.map f).getD {}).at tm := by
  cases o <;> simp

theorem colCellCbs_eq (w : World) (r i : Nat) (tm : Time) :
    w.colCellCbs (w.columnOf r i) tm = colCellAt w r i tm := by
  unfold World.colCellCbs colCellAt World.cbsAt World.cbSet
  cases w.columnOf r i with
  | none => rfl
  | some p =>
    obtain ⟨t', n⟩ := p
    exact getD_map_at _ _ _

theorem cellOwn_eq (w : World) (r i : Nat) (tm : Time) :
    ((w.cell? r i).map (·.cbs.at tm)).getD [] = w.cbsAt (.cellOwn r i) tm :=
  getD_map_at _ _ _

theorem colSelf_eq (w : World) (t n : Nat) (tm : Time) :
    ((w.column? t n).map (·.selfCbs.at tm)).getD [] = w.cbsAt (.colSelf t n) tm :=
  getD_map_at _ _ _

theorem colCellAt_log {w : World} (h : LogOnlyAt w) (r i : Nat) (tm : Time) :
    ∀ cb ∈ colCellAt w r i tm, cb.isLog = true := by
  unfold colCellAt
  cases w.columnOf r i with
  | none => simp
  | some p => exact h _ _

/-! ### invoking `.log` callbacks -/

theorem invoke_log (dw : Measure) (w : World) (cbs : List Cb) (tgt : Target) (tk : Taker)
    (h : ∀ cb ∈ cbs, cb.isLog = true) : invoke dw w cbs tgt tk = w.addEv (logEvents cbs tgt) := by
  induction cbs generalizing w with
  | nil => simp [invoke]
  | cons cb cbs ih =>
    have hcb := h cb (by simp)
    cases cb with
    | log id =>
      have := ih (invokeOne dw w (.log id) tgt tk) (fun c hc => h c (by simp [hc]))
      simp only [invoke, List.foldl_cons] at this ⊢
      rw [this]
      simp [invokeOne, World.addEv, List.append_assoc]
    | _ => simp [Cb.isLog] at hcb

/-- the form used along a traversal: the current world is `w` plus events -/
theorem invoke_log' (dw : Measure) (w : World) (es : List Event) (cbs : List Cb) (tgt : Target) (tk : Taker)
    (h : ∀ cb ∈ cbs, cb.isLog = true) :
    invoke dw (w.addEv es) cbs tgt tk = w.addEv (es ++ logEvents cbs tgt) := by
  rw [invoke_log dw _ cbs tgt tk h, addEv_addEv]

/-! ### render traversal -/

/-- push accessors through `addEv` and name the model's callback-list expressions -/
local macro "acc_simp" : tactic =>
  `(tactic| try simp only [table_addEv, row_addEv, rowCells_addEv, cell?_addEv, column?_addEv, columnOf_addEv,
      colCellCbs_addEv, cbsAt_addEv, colCellCbs_eq, cellOwn_eq, colSelf_eq])

theorem renderCells_log (dw : Measure) {w : World} (h : LogOnlyAt w) (t r : Nat) :
    ∀ (n i : Nat) (es : List Event),
      renderCells dw t r n i (w.addEv es) = w.addEv (es ++ cellsExpected w t r i n) := by
  intro n
  induction n with
  | zero => intro i es; simp [renderCells, cellsExpected]
  | succ n ih =>
    intro i es
    have hT : ∀ tm, ∀ cb ∈ (w.table t).cellCbs.at tm, cb.isLog = true := fun tm => h (.tableCell t) tm
    have hR : ∀ tm, ∀ cb ∈ (w.row r).cellCbs.at tm, cb.isLog = true := fun tm => h (.rowCell r) tm
    have hC : ∀ tm, ∀ cb ∈ colCellAt w r i tm, cb.isLog = true := fun tm => colCellAt_log h r i tm
    have hO : ∀ cb ∈ w.cbsAt (.cellOwn r i) .render, cb.isLog = true := h (.cellOwn r i) .render
    unfold renderCells
    simp only [table_addEv, columnOf_addEv]
    rw [invoke_log' dw w es _ _ _ (hT .pre)]
    acc_simp
    rw [invoke_log' dw w _ _ _ _ (hC .pre)]
    acc_simp
    rw [invoke_log' dw w _ _ _ _ (hR .pre)]
    acc_simp
    rw [invoke_log' dw w _ _ _ _ (hT .render)]
    acc_simp
    rw [invoke_log' dw w _ _ _ _ hO]
    acc_simp
    rw [invoke_log' dw w _ _ _ _ (hR .post)]
    acc_simp
    rw [invoke_log' dw w _ _ _ _ (hC .post)]
    acc_simp
    rw [invoke_log' dw w _ _ _ _ (hT .post)]
    rw [ih]
    simp only [cellsExpected, List.range'_succ, List.flatMap_cons, cellExpected, World.cbsAt, World.cbSet,
      List.append_assoc]

theorem renderRow_log (dw : Measure) {w : World} (h : LogOnlyAt w) (t r : Nat) (es : List Event) :
    renderRow dw t (w.addEv es) r = w.addEv (es ++ rowExpected w t r) := by
  have hS : ∀ tm, ∀ cb ∈ (w.row r).selfCbs.at tm, cb.isLog = true := fun tm => h (.rowSelf r) tm
  unfold renderRow
  simp only [row_addEv]
  rw [invoke_log' dw w es _ _ _ (hS .pre)]
  acc_simp
  rw [renderCells_log dw h]
  acc_simp
  rw [invoke_log' dw w _ _ _ _ (hS .post)]
  simp only [rowExpected, cellsExpected, List.range_eq_range', World.cbsAt, World.cbSet, List.append_assoc]

theorem renderRows_log (dw : Measure) {w : World} (h : LogOnlyAt w) (t : Nat) :
    ∀ (rs : List Nat) (es : List Event),
      rs.foldl (renderRow dw t) (w.addEv es) = w.addEv (es ++ rs.flatMap (rowExpected w t)) := by
  intro rs
  induction rs with
  | nil => intro es; simp
  | cons r rs ih =>
    intro es
    simp only [List.foldl_cons, List.flatMap_cons]
    rw [renderRow_log dw h, ih, List.append_assoc]

theorem renderColumns_log (dw : Measure) {w : World} (h : LogOnlyAt w) (t : Nat) (tm : Time) :
    ∀ (n i : Nat) (es : List Event),
      renderColumns dw t tm n i (w.addEv es) = w.addEv (es ++ colsExpectedFrom w t tm i n) := by
  intro n
  induction n with
  | zero => intro i es; simp [renderColumns, colsExpectedFrom]
  | succ n ih =>
    intro i es
    unfold renderColumns
    acc_simp
    rw [invoke_log' dw w es _ _ _ (h (.colSelf t i) tm), ih]
    simp only [colsExpectedFrom, List.range'_succ, List.flatMap_cons, List.append_assoc]

theorem colsExpected_eq (w : World) (t : Nat) (tm : Time) :
    colsExpected w t tm = colsExpectedFrom w t tm 0 (w.table t).columns.length := by
  simp only [colsExpected, colsExpectedFrom, List.range_eq_range']

/-- One render pass in a log-only world appends exactly the documented list and changes nothing else. -/
theorem invokeRenderCallbacks_log (dw : Measure) {w : World} (h : LogOnlyAt w) (t : Nat) :
    invokeRenderCallbacks dw w t = w.addEv (expectedRender w t) := by
  have hS : ∀ tm, ∀ cb ∈ (w.table t).selfCbs.at tm, cb.isLog = true := fun tm => h (.tableSelf t) tm
  unfold invokeRenderCallbacks
  rw [invoke_log dw w _ _ _ (hS .pre)]
  acc_simp
  rw [renderColumns_log dw h]
  acc_simp
  cases hh : (w.table t).header with
  | none =>
    dsimp only
    acc_simp
    rw [renderRows_log dw h]
    acc_simp
    rw [renderColumns_log dw h]
    acc_simp
    rw [invoke_log' dw w _ _ _ _ (hS .post)]
    simp only [expectedRender, renderRows, hh, Option.toList_none, colsExpected_eq, World.cbsAt, World.cbSet,
      List.append_assoc, List.nil_append]
  | some hr =>
    dsimp only
    rw [renderRow_log dw h]
    acc_simp
    rw [renderRows_log dw h]
    acc_simp
    rw [renderColumns_log dw h]
    acc_simp
    rw [invoke_log' dw w _ _ _ _ (hS .post)]
    simp only [expectedRender, renderRows, hh, Option.toList_some, colsExpected_eq, World.cbsAt, World.cbSet,
      List.append_assoc, List.nil_append, List.flatMap_cons, List.flatMap_nil, List.flatMap_append,
      List.cons_append, List.singleton_append, List.append_nil]

/-! ### `LogOnlyAll` gives `LogOnlyAt` -/

theorem CbSet.allLog_at {s : CbSet} (h : s.allLog = true) (tm : Time) : ∀ cb ∈ s.at tm, cb.isLog = true := by
  simp only [CbSet.allLog, Bool.and_eq_true, List.all_eq_true] at h
  cases tm
  · exact h.1.1.1
  · exact h.1.1.2
  · exact h.1.2
  · exact h.2

theorem CbSet.allLog_empty : ({} : CbSet).allLog = true := rfl

theorem Table.allLog_default : ({} : Table).allLog = true := rfl
theorem Row.allLog_default : ({} : Row).allLog = true := rfl

theorem logOnlyAll_table {w : World} (h : LogOnlyAll w) (t : Nat) : (w.table t).allLog = true := by
  unfold World.table
  rw [List.getD_eq_getElem?_getD]
  cases ht : w.tables[t]? with
  | none => rfl
  | some tb =>
    have := List.all_eq_true.mp h.1 tb (List.mem_of_getElem? ht)
    simpa using this

theorem logOnlyAll_row {w : World} (h : LogOnlyAll w) (r : Nat) : (w.row r).allLog = true := by
  unfold World.row
  rw [List.getD_eq_getElem?_getD]
  cases hr : w.rows[r]? with
  | none => rfl
  | some rw =>
    have := List.all_eq_true.mp h.2.1 rw (List.mem_of_getElem? hr)
    simpa using this

theorem logOnlyAll_at {w : World} (h : LogOnlyAll w) : LogOnlyAt w := by
  intro s tm
  have hT := fun t => logOnlyAll_table h t
  have hR := fun r => logOnlyAll_row h r
  unfold World.cbsAt World.cbSet
  cases s with
  | tableSelf t =>
    have := hT t; simp only [Table.allLog, Bool.and_eq_true] at this
    exact CbSet.allLog_at this.1.1.1 tm
  | tableCell t =>
    have := hT t; simp only [Table.allLog, Bool.and_eq_true] at this
    exact CbSet.allLog_at this.1.1.2 tm
  | tableRow t =>
    have := hT t; simp only [Table.allLog, Bool.and_eq_true] at this
    exact CbSet.allLog_at this.1.2 tm
  | colSelf t n =>
    have := hT t; simp only [Table.allLog, Bool.and_eq_true, List.all_eq_true] at this
    simp only [World.column?]
    cases hc : (w.table t).columns[n]? with
    | none => simp
    | some c =>
      have hc' := this.2 c (List.mem_of_getElem? hc)
      simp only [Column.allLog, Bool.and_eq_true] at hc'
      exact CbSet.allLog_at hc'.1 tm
  | colCell t n =>
    have := hT t; simp only [Table.allLog, Bool.and_eq_true, List.all_eq_true] at this
    simp only [World.column?]
    cases hc : (w.table t).columns[n]? with
    | none => simp
    | some c =>
      have hc' := this.2 c (List.mem_of_getElem? hc)
      simp only [Column.allLog, Bool.and_eq_true] at hc'
      exact CbSet.allLog_at hc'.2 tm
  | rowSelf r =>
    have := hR r; simp only [Row.allLog, Bool.and_eq_true] at this
    exact CbSet.allLog_at this.1.1 tm
  | rowCell r =>
    have := hR r; simp only [Row.allLog, Bool.and_eq_true] at this
    exact CbSet.allLog_at this.1.2 tm
  | cellOwn r i =>
    have := hR r; simp only [Row.allLog, Bool.and_eq_true, List.all_eq_true] at this
    simp only [World.cell?, World.rowCells]
    cases hc : ((w.row r).cells.getD [])[i]? with
    | none => simp
    | some c => exact CbSet.allLog_at (this.2 c (List.mem_of_getElem? hc)) tm
  | copyOwn n =>
    show ∀ cb ∈ (((w.copies[n]?).map (fun (c : Cell) => c.cbs)).getD {}).at tm, Cb.isLog cb = true
    cases hc : w.copies[n]? with
    | none => simp
    | some c => exact CbSet.allLog_at (List.all_eq_true.mp h.2.2 c (List.mem_of_getElem? hc)) tm

end C13
end Tab
