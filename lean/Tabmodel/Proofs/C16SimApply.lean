/-
  C16 helpers, part 12: the renamed step, `apply_sim`, `runAlone`, and the comparison of an interleaved run
  with the run of A alone.
-/
import Tabmodel.Proofs.C16SimRun
namespace Tab
namespace C16
open World

variable {ρ : Nat → Nat} {t : Nat} {P I : Nat → Prop}

/-! ### the rendered view forgets row ids -/

theorem rcell_ren {w w₂ : World} (hs : Sim ρ t P I w w₂) {ce : Cell} (hce : I ce.item) :
    w₂.rcell (renCell ρ ce) = w.rcell ce := by
  unfold rcell renCell
  simp only [hs.items _ hce]

theorem rcells_ren {w w₂ : World} (h : Inv t P I w) (hs : Sim ρ t P I w w₂) {r : Nat} (hr : P r) :
    (w₂.rowCells (ρ r)).map w₂.rcell = (w.rowCells r).map w.rcell := by
  have e : w₂.rowCells (ρ r) = (w.rowCells r).map (renCell ρ) := by
    unfold rowCells
    rw [hs.row hr]
    unfold renRow
    cases (w.row r).cells <;> simp
  rw [e, List.map_map]
  apply List.map_congr_left
  intro ce hce
  exact rcell_ren hs ((h.rowok r hr).cells ce hce).2

theorem sim_view {w w₂ : World} (h : Inv t P I w) (hs : Sim ρ t P I w w₂) : w₂.view t = w.view t := by
  unfold view
  simp only [hs.table]
  unfold renTable
  simp only []
  congr 1
  · cases hh : (w.table t).header with
    | none => rfl
    | some hr =>
      simp only [Option.map_some]
      rw [rcells_ren h hs (h.foot hr (.inl hh))]
  · rw [List.map_map]
    apply List.map_congr_left
    intro r hr
    have hP : P r := h.foot r (.inr hr)
    simp only [Function.comp]
    rw [rcells_ren h hs hP, hs.row hP]
    rfl

theorem sim_cellAt (r c : Int) (w w₂ : World) (h : Inv t P I w) (hs : Sim ρ t P I w w₂) :
    cellAt w₂ t r c = (cellAt w t r c).map (fun p => (ρ p.1, p.2)) := by
  unfold cellAt
  simp only [hs.table]
  unfold renTable
  simp only [List.length_map, List.getElem?_map]
  split
  · rfl
  · cases hk : (w.table t).rows[r.toNat - 1]? with
    | none => rfl
    | some rid =>
      have hP : P rid := h.foot rid (.inr (List.mem_of_getElem? hk))
      simp only [Option.map_some, hs.row hP]
      unfold renRow
      cases (w.row rid).cells with
      | none => rfl
      | some cs =>
        simp only [Option.map_some, List.length_map]
        split <;> rfl

/-! ### the renamed step -/

/-- the same API call made on the renamed row handles -/
def renStep (ρ : Nat → Nat) : Step → Step
  | .rowAdd r i => .rowAdd (ρ r) i
  | .addRow t r => .addRow t (ρ r)
  | .setProp o k v => .setProp (renTarget ρ o) k v
  | .registerCb o tm tg cb => .registerCb (renTarget ρ o) tm tg cb
  | .rowErrors r => .rowErrors (ρ r)
  | s => s

/-- an observation with the identity of row handles forgotten -/
def Obs.erase : Obs → Obs
  | .row _ => .row 0
  | .cell c => .cell (c.map (fun p => (0, p.2)))
  | o => o

/-- the renaming after the step: extended at the fresh id when the step allocates -/
def updS (ρ : Nat → Nat) (L L₂ : Nat) (s : Step) : Nat → Nat := if s.allocs then upd ρ L L₂ else ρ

theorem registerCb_isSome_ren (w w₂ : World) (o : Target) (tm : Time) (tg : CbTarget) (cb : Cb) :
    (registerCb w₂ (renTarget ρ o) tm tg cb).isSome = (registerCb w o tm tg cb).isSome := by
  cases o <;> cases tg <;> rfl

theorem renRow_default (ρ' : Nat → Nat) : renRow ρ' {} = {} := rfl

theorem both_renderTo_world (x : Ext) (wr : Wrapper) (hwr : wr.core = t) :
    Both ρ t P I (fun w => (renderTo x w wr).1) (fun w => (renderTo x w wr).1) := by
  subst hwr
  unfold renderTo
  cases hk : wr.kind
  case text =>
    simp only []
    by_cases hd : wr.decor = emptyDecoration
    · simp only [hd, if_true]; exact Both.id' _ _ _ _
    · simp only [hd, if_false]; exact both_invokeRenderCallbacks x.dw
  all_goals exact both_invokeRenderCallbacks x.dw

theorem apply_sim (x : Ext) (s : Step) {w w₂ : World} (hi : Inv t P I w) (hs : Sim ρ t P I w w₂)
    (hon : StepOn t P I s) :
    Sim (updS ρ w.rows.length w₂.rows.length s) t (growP P w.rows.length s) I
      (applyW x w s) (applyW x w₂ (renStep ρ s)) ∧
    (applyO x w₂ (renStep ρ s)).erase = (applyO x w s).erase := by
  cases s with
  | newRow =>
    refine ⟨?_, rfl⟩
    exact sim_alloc (pre := fun w => w) (rw0 := {}) (post := fun _ => (fun w => w))
      (Both.id' ρ t P I) (fun _ => rfl) renRow_default rowOK_default (fun ρ' L => Both.id' _ _ _ _) hi hs
  | rowAdd r i => exact ⟨(both_rowAdd x.dw hon.1 hon.2).sim w w₂ hi hs, rfl⟩
  | addRow t' r =>
    obtain ⟨rfl, hr⟩ := hon
    exact ⟨(both_addRow x.dw hr).sim w w₂ hi hs, rfl⟩
  | addSeparator t' =>
    have : t' = t := hon
    subst this
    refine ⟨?_, rfl⟩
    refine sim_alloc (pre := fun w => w) (rw0 := { cells := none, isSep := true })
      (post := fun L => seq (fun w => w.modTable t' (fun tb => { tb with rows := tb.rows ++ [L] }))
        (rd (fun w => (w.table t').rows.length) (fun n w =>
          w.modRow L (fun rw => { rw with inTable := some t', rowNum := n, ec := .table t' }))))
      (Both.id' ρ t' P I) (fun _ => rfl) (fun _ => rfl)
      (fun L => ⟨.inl rfl, trivial, fun _ hc => by simp at hc⟩)
      (fun ρ' L => Both.seq (both_modTable _ _ (fun tb r hr => ?_) (fun tb => by simp [renTable]))
        (Both.rdEq (rd_tablef (fun tb => tb.rows.length))
          (sim_tablef (fun tb => tb.rows.length) (fun tb => by simp [renTable])) (fun n _ =>
          both_modRow (.inr rfl) _ _ (fun rw hrw => ⟨.inr rfl, rfl, hrw.cells⟩) (fun _ => rfl)))) hi hs
    rcases hr with hr | hr
    · exact .inl (.inl hr)
    · simp only [List.mem_append, List.mem_singleton] at hr
      rcases hr with hr | rfl
      · exact .inl (.inr hr)
      · exact .inr (.inr rfl)
  | addHeaders t' items =>
    obtain ⟨rfl, hitems⟩ := hon
    refine ⟨?_, rfl⟩
    refine sim_alloc
      (pre := fun w => w.modTable t' (fun tb => resizeColumnsAtLeast tb items.length))
      (rw0 := { ec := .table t' })
      (post := fun L => seq (fun w => rowAddMany x.dw L items w)
        (seq (fun w => w.modTable t' (fun tb => { tb with header := some L }))
        (seq (rd (fun w => (w.table t').rowCbs.at .add) (fun cbs w => invoke x.dw w cbs (.row L) (.table t')))
          (rd (fun w => (w.rowCells L).length) (fun len w =>
            addTimeCells x.dw t' L (fun _ => .table t') len 0 w)))))
      (both_resize _) (fun _ => rfl) (fun _ => rfl) (fun L => ⟨.inl rfl, rfl, fun _ hc => by simp at hc⟩)
      (fun ρ' L => Both.seq (both_rowAddMany x.dw (.inr rfl) items hitems)
        (Both.seq (both_modTable _ _ (fun tb r hr => ?_) (fun tb => by simp [renTable]))
        (Both.seq (Both.rdEq (rd_tablef (fun tb => tb.rowCbs.at .add))
            (sim_tablef (fun tb => tb.rowCbs.at .add) (fun _ => rfl)) (fun cbs _ =>
            both_invoke x.dw cbs (tgt := .row L) (.inr rfl) (tk := .table t') rfl))
          (Both.rdEq (rd_rowf (r := L) (.inr rfl) (fun rw => (rw.cells.getD []).length))
            (sim_rowf (fun rw => (rw.cells.getD []).length) (renRow_cells_length ρ') (.inr rfl)) (fun len _ =>
            both_addTimeCells x.dw (.inr rfl) (fun _ => Taker.table t') (fun _ => Taker.table t')
              ⟨fun _ _ => (rfl : t' = t'), fun _ _ _ _ => rfl⟩ (fun _ _ _ _ => rfl) len 0))))) hi hs
    rcases hr with hr | hr
    · simp only [Option.some.injEq] at hr
      exact .inr (.inr hr.symm)
    · exact .inl (.inr hr)
  | addRowItems t' items =>
    obtain ⟨rfl, hitems⟩ := hon
    refine ⟨?_, rfl⟩
    exact sim_alloc (pre := fun w => w) (rw0 := {})
      (post := fun L => seq (fun w => rowAddMany x.dw L items w) (fun w => addRow x.dw w t' L))
      (Both.id' ρ t' P I) (fun _ => rfl) renRow_default rowOK_default
      (fun ρ' L => Both.seq (both_rowAddMany x.dw (.inr rfl) items hitems) (both_addRow x.dw (.inr rfl))) hi hs
  | appendNewRow t' =>
    have : t' = t := hon
    subst this
    refine ⟨?_, rfl⟩
    exact sim_alloc (pre := fun w => w) (rw0 := {})
      (post := fun L => (fun w => addRow x.dw w t' L))
      (Both.id' ρ t' P I) (fun _ => rfl) renRow_default rowOK_default
      (fun ρ' L => both_addRow x.dw (.inr rfl)) hi hs
  | setProp o k v => exact ⟨(both_setProp hon k v).sim w w₂ hi hs, rfl⟩
  | registerCb o tm tg cb =>
    refine ⟨(both_registerCb hon tm tg cb).sim w w₂ hi hs, ?_⟩
    show Obs.erase (if (registerCb w₂ (renTarget ρ o) tm tg cb).isSome then Obs.unit else Obs.refused)
      = Obs.erase (if (registerCb w o tm tg cb).isSome then Obs.unit else Obs.refused)
    rw [registerCb_isSome_ren w w₂]
  | wrap k t' =>
    have : t' = t := hon
    subst this
    exact ⟨(both_wrapEffect k).sim w w₂ hi hs, rfl⟩
  | invokeRenderCallbacks t' =>
    have : t' = t := hon
    subst this
    exact ⟨(both_invokeRenderCallbacks x.dw).sim w w₂ hi hs, rfl⟩
  | render wr =>
    have hwr : wr.core = t := hon
    refine ⟨(both_renderTo_world x wr hwr).sim w w₂ hi hs, ?_⟩
    subst hwr
    have b := both_invokeRenderCallbacks (ρ := ρ) (t := wr.core) (P := P) (I := I) x.dw
    have hv := sim_view (b.ls w hi).inv (b.sim w w₂ hi hs)
    show Obs.erase (.rendered (renderTo x w₂ wr).2) = Obs.erase (.rendered (renderTo x w wr).2)
    rw [renderTo_out_agree x wr hv]
  | cellAt t' r c =>
    have : t' = t := hon
    subst this
    refine ⟨hs, ?_⟩
    show Obs.erase (.cell (cellAt w₂ t' r c)) = Obs.erase (.cell (cellAt w t' r c))
    rw [sim_cellAt r c w w₂ hi hs]
    cases cellAt w t' r c <;> rfl
  | hasColumn t' n =>
    have : t' = t := hon
    subst this
    refine ⟨hs, ?_⟩
    show Obs.erase (.bool (hasColumn w₂ t' n)) = Obs.erase (.bool (hasColumn w t' n))
    have : hasColumn w₂ t' n = hasColumn w t' n := by simp only [hasColumn, hs.table]; rfl
    rw [this]
  | rowErrors r =>
    refine ⟨hs, ?_⟩
    show Obs.erase (.errs (rowErrors w₂ (ρ r))) = Obs.erase (.errs (rowErrors w r))
    rw [sim_rowErrors hon w w₂ hi hs]
  | tableErrors t' =>
    have : t' = t := hon
    subst this
    refine ⟨hs, ?_⟩
    show Obs.erase (.errs (w₂.table t').errs) = Obs.erase (.errs (w.table t').errs)
    rw [hs.table]; rfl

end C16
end Tab
