/- Helper lemmas about splitLF / joinLF / lines / maxOf / runeCount. -/
import Tabmodel.Model.Bytes
namespace Tab

theorem splitLF_ne_nil (s : Bytes) : splitLF s ≠ [] := by
  induction s with
  | nil => simp [splitLF]
  | cons b bs ih =>
    unfold splitLF
    split
    · simp
    · split <;> simp

theorem splitLF_cons_LF (bs : Bytes) : splitLF (LF :: bs) = [] :: splitLF bs := by
  simp [splitLF]

theorem splitLF_cons_ne {b : UInt8} (h : b ≠ LF) (bs : Bytes) :
    ∃ l ls, splitLF bs = l :: ls ∧ splitLF (b :: bs) = (b :: l) :: ls := by
  cases hs : splitLF bs with
  | nil => exact absurd hs (splitLF_ne_nil bs)
  | cons l ls => exact ⟨l, ls, rfl, by simp [splitLF, h, hs]⟩

theorem joinLF_cons_cons (l l' : Bytes) (ls : List Bytes) :
    joinLF (l :: l' :: ls) = l ++ LF :: joinLF (l' :: ls) := rfl

theorem joinLF_cons_of_ne_nil (l : Bytes) {ls : List Bytes} (h : ls ≠ []) :
    joinLF (l :: ls) = l ++ LF :: joinLF ls := by
  cases ls with
  | nil => exact absurd rfl h
  | cons l' ls => rfl

/-- split then join is the identity: nothing but the separators is removed -/
theorem joinLF_splitLF (s : Bytes) : joinLF (splitLF s) = s := by
  induction s with
  | nil => rfl
  | cons b bs ih =>
    by_cases h : b = LF
    · subst h
      rw [splitLF_cons_LF, joinLF_cons_of_ne_nil _ (splitLF_ne_nil bs), ih]; rfl
    · obtain ⟨l, ls, h1, h2⟩ := splitLF_cons_ne h bs
      rw [h2]
      rw [h1] at ih
      cases ls with
      | nil => simp [joinLF] at ih ⊢; exact ih
      | cons l' ls =>
        rw [joinLF_cons_cons] at ih ⊢
        simp [← ih]

theorem splitLF_noLF (s : Bytes) : ∀ l ∈ splitLF s, LF ∉ l := by
  induction s with
  | nil => simp [splitLF]
  | cons b bs ih =>
    by_cases h : b = LF
    · subst h
      rw [splitLF_cons_LF]
      intro l hl
      rcases List.mem_cons.1 hl with rfl | hl
      · simp
      · exact ih l hl
    · obtain ⟨l, ls, h1, h2⟩ := splitLF_cons_ne h bs
      rw [h2]
      rw [h1] at ih
      intro x hx
      rcases List.mem_cons.1 hx with rfl | hx
      · intro hm
        rcases List.mem_cons.1 hm with hb | hm
        · exact h hb.symm
        · exact ih l (by simp) hm
      · exact ih x (by simp [hx])

theorem joinLF_append_nil_seg {init : List Bytes} (h : init ≠ []) :
    joinLF (init ++ [[]]) = joinLF init ++ [LF] := by
  induction init with
  | nil => exact absurd rfl h
  | cons l ls ih =>
    cases ls with
    | nil => simp [joinLF]
    | cons l' ls =>
      have := ih (by simp)
      simp only [List.cons_append] at this ⊢
      rw [joinLF_cons_cons, joinLF_cons_cons, this]
      simp [List.append_assoc]

theorem lines_cases (s : Bytes) :
    (lines s = splitLF s ∧ (splitLF s).getLast? ≠ some []) ∨
    (splitLF s = lines s ++ [[]]) := by
  unfold lines
  simp only []
  cases hl : (splitLF s).getLast? with
  | none => left; simp
  | some l =>
    cases l with
    | nil =>
      right
      obtain ⟨ys, hys⟩ := List.getLast?_eq_some_iff.1 hl
      rw [hys]
      simp
    | cons a as => left; simp

theorem maxOf_foldl_ge (f : Bytes → Nat) (ls : List Bytes) (m : Nat) :
    m ≤ ls.foldl (fun m l => if f l > m then f l else m) m := by
  induction ls generalizing m with
  | nil => simp
  | cons l ls ih =>
    simp only [List.foldl_cons]
    split
    · exact Nat.le_trans (by omega) (ih _)
    · exact ih _

theorem maxOf_foldl_mem (f : Bytes → Nat) (ls : List Bytes) (m : Nat) :
    ∀ l ∈ ls, f l ≤ ls.foldl (fun m l => if f l > m then f l else m) m := by
  induction ls generalizing m with
  | nil => simp
  | cons x xs ih =>
    intro l hl
    simp only [List.foldl_cons]
    rcases List.mem_cons.1 hl with rfl | hl
    · split
      · exact maxOf_foldl_ge f xs _
      · exact Nat.le_trans (by omega) (maxOf_foldl_ge f xs m)
    · exact ih _ l hl

theorem maxOf_foldl_attained (f : Bytes → Nat) (ls : List Bytes) (m : Nat) :
    ls.foldl (fun m l => if f l > m then f l else m) m = m ∨
    ∃ l ∈ ls, ls.foldl (fun m l => if f l > m then f l else m) m = f l := by
  induction ls generalizing m with
  | nil => left; rfl
  | cons x xs ih =>
    simp only [List.foldl_cons]
    split
    · rcases ih (f x) with h | ⟨l, hl, h⟩
      · right; exact ⟨x, by simp, h⟩
      · right; exact ⟨l, by simp [hl], h⟩
    · rcases ih m with h | ⟨l, hl, h⟩
      · left; exact h
      · right; exact ⟨l, by simp [hl], h⟩

theorem runeLen_pos (b : UInt8) (bs : Bytes) : 1 ≤ runeLen (b :: bs) := by
  unfold runeLen
  simp only []
  repeat' (first | omega | split)

theorem runeLen_le_four (s : Bytes) : runeLen s ≤ 4 := by
  unfold runeLen
  simp only []
  repeat' (first | omega | split)

theorem runeCountFuel_le (fuel : Nat) (s : Bytes) : runeCountFuel fuel s ≤ s.length := by
  induction fuel generalizing s with
  | zero => simp [runeCountFuel]
  | succ n ih =>
    cases s with
    | nil => simp [runeCountFuel]
    | cons b bs =>
      simp only [runeCountFuel]
      have h1 := runeLen_pos b bs
      have h2 := ih ((b :: bs).drop (runeLen (b :: bs)))
      simp only [List.length_drop, List.length_cons] at h2 ⊢
      omega

end Tab
