/-
  From worlds to outputs: `obs`, `LogOnly`, `Needs` and (masked) `view` read a world only through
  `erase` / `bare` plus the measured private properties; the render pass keeps the former and
  establishes the latter; so two worlds with the same `bare` form render the same.
-/
import Tabmodel.Proofs.StableTraverse
import Tabmodel.Proofs.StableMask
namespace Tab

/-! ### `obs` and `LogOnly` through `erase` -/
namespace World

theorem cellObs_erase (w : World) (ce : Cell) : w.erase.cellObs ce.erase = w.cellObs ce := by
  unfold cellObs cellLocation
  simp only [Cell.erase_str, Cell.erase_inRow, Cell.erase_columnNum]
  congr 1
  · cases ce.inRow with
    | none => rfl
    | some r => simp only [erase_row]; rfl
  · exact userGet_user ce.props

theorem rowErrors_erase (w : World) (r : Nat) : w.erase.rowErrors r = w.rowErrors r := by
  unfold rowErrors; rw [rd_rowEc]; rfl

theorem rowObs_erase (w : World) (r : Nat) : w.erase.rowObs r = w.rowObs r := by
  unfold rowObs
  rw [rowErrors_erase, erase_rowCells, List.map_map]
  congr 1
  · rw [erase_row]; rfl
  · apply List.map_congr_left
    intro ce _
    exact cellObs_erase w ce
  · rw [erase_row]; rfl

theorem obs_erase (w : World) (t : Nat) : w.erase.obs t = w.obs t := by
  unfold obs
  simp only [erase_table]
  congr 1
  · cases (w.table t).header with
    | none => rfl
    | some hr => simp only [Option.map_some, rowObs_erase]
  · apply List.map_congr_left
    intro r _
    exact rowObs_erase w r

theorem rowLogOnly_erase (w : World) (r : Nat) : RowLogOnly w.erase r ↔ RowLogOnly w r := by
  unfold RowLogOnly
  rw [rd_rowSelf, rd_rowCell, rd_rowCellsLen]
  have h3 : (∀ ce ∈ w.erase.rowCells r, ce.cbs.okCell = true) ↔ (∀ ce ∈ w.rowCells r, ce.cbs.okCell = true) := by
    rw [erase_rowCells]
    simp only [List.mem_map, forall_exists_index, and_imp, forall_apply_eq_imp_iff₂, Cell.erase_cbs]
  rw [h3]
  simp only [rd_columnOf, rd_colCellCbs]

theorem logOnly_erase (w : World) (t : Nat) : LogOnly w.erase t ↔ LogOnly w t := by
  unfold LogOnly
  simp only [erase_table, rowLogOnly_erase]

theorem logOnly_of_erase_eq {w w' : World} (h : w.erase = w'.erase) (t : Nat) : LogOnly w t ↔ LogOnly w' t := by
  rw [← logOnly_erase w, h, logOnly_erase]

theorem needs_of_erase_eq {w w' : World} (h : w.erase = w'.erase) (wr : Wrapper) : Needs w wr ↔ Needs w' wr := by
  unfold Needs
  rw [of_erase_eq (fun w => w.table wr.core) (rd_table wr.core) h]

end World

/-! ### `bare` -/

theorem Chain.user_eq_of_erase (c : Cell) : c.erase.props = c.props.user := rfl

theorem Cell.bare_erase (c : Cell) : c.erase.bare = c.bare := by
  unfold Cell.bare Cell.erase
  simp only [Chain.user_user]

theorem Row.bare_erase (r : Row) : r.erase.bare = r.bare := by
  unfold Row.bare Row.erase
  simp only
  congr 1
  cases r.cells with
  | none => rfl
  | some cs =>
    simp only [Option.map_some, List.map_map]
    congr 1
    apply List.map_congr_left
    intro c _
    exact Cell.bare_erase c

namespace World

theorem bare_erase (w : World) : w.erase.bare = w.bare := by
  unfold bare erase
  simp only [List.map_map]
  congr 1
  apply List.map_congr_left
  intro r _
  exact Row.bare_erase r

theorem bare_of_erase_eq {w w' : World} (h : w.erase = w'.erase) : w.bare = w'.bare := by
  rw [← bare_erase w, h, bare_erase]

theorem bare_wrapEffect (w : World) (k : WKind) (t : Nat) : (w.wrapEffect k t).bare = w.bare := by
  unfold wrapEffect
  cases k <;> try rfl
  all_goals
    unfold modTable bare
    simp only
    congr 1
    apply map_modify_of_eq
    intro tb
    rfl

theorem Table.bare_default : Table.bare {} = {} := rfl
theorem Row.bare_default : Row.bare {} = {} := rfl

theorem bare_table (w : World) (t : Nat) : w.bare.table t = (w.table t).bare := by
  unfold table bare
  exact getD_map_default_eq Table.bare w.tables t {} {} Table.bare_default

theorem bare_row (w : World) (r : Nat) : w.bare.row r = (w.row r).bare := by
  unfold row bare
  exact getD_map_default_eq Row.bare w.rows r {} {} Row.bare_default

theorem bare_rowCells (w : World) (r : Nat) : w.bare.rowCells r = (w.rowCells r).map Cell.bare := by
  unfold rowCells
  rw [bare_row]
  unfold Row.bare
  cases (w.row r).cells <;> rfl

@[simp] theorem bare_item (w : World) (i : Nat) : w.bare.item i = w.item i := rfl

/-! ### the masked view as a function of `bare` -/

/-- the three private properties of a cell are the measured ones, as far as `tt` / `md` ask -/
def CellOK (dw : Measure) (tt md : Bool) (w : World) (c : Cell) : Prop :=
  (tt = true → c.props.get .ttDims = some (mval dw w c .ttDims) ∧ c.props.get .ttLines = some (mval dw w c .ttLines)) ∧
  (md = true → c.props.get .mdWidth = some (mval dw w c .mdWidth))

def MeasAll (dw : Measure) (tt md : Bool) (w : World) (t : Nat) : Prop :=
  ∀ r ∈ (w.table t).header.toList ++ (w.table t).rows, ∀ ce ∈ w.rowCells r, CellOK dw tt md w ce

/-- what a measured cell looks like to the renderers that read the `tt` / `md` fields -/
def canonCell (dw : Measure) (tt md : Bool) (w : World) (c : Cell) : RCell :=
  (w.rcell { c with props := [(.ttDims, mval dw w c .ttDims), (.ttLines, mval dw w c .ttLines),
                             (.mdWidth, mval dw w c .mdWidth)] }).mask tt md

def canonView (dw : Measure) (tt md : Bool) (w : World) (t : Nat) : RTable :=
  { ncols := (w.table t).nColumns
    header := (w.table t).header.map (fun hr => (w.rowCells hr).map (canonCell dw tt md w))
    rows := (w.table t).rows.map (fun r =>
      if (w.row r).isSep then none else some ((w.rowCells r).map (canonCell dw tt md w)))
    colAlign := (w.table t).columns.map (·.props.get .align)
    colSkip := (w.table t).columns.map (·.props.get .skipable) }

theorem rcell_mask_eq_canon (dw : Measure) (tt md : Bool) (w : World) (c : Cell) (h : CellOK dw tt md w c) :
    (w.rcell c).mask tt md = canonCell dw tt md w c := by
  unfold canonCell rcell RCell.mask
  obtain ⟨h1, h2⟩ := h
  cases tt <;> cases md <;> simp only [Bool.false_eq_true, if_false, if_true] <;>
    simp [Chain.get, *]

theorem canonCell_bare (dw : Measure) (tt md : Bool) (w : World) (c : Cell) :
    canonCell dw tt md w.bare c.bare = canonCell dw tt md w c := by
  have hm : mval dw w.bare c.bare = mval dw w c := mval_frame dw w w.bare { c with cbs := {} } _ (fun _ => rfl)
  unfold canonCell
  rw [hm]
  rfl

theorem view_mask_eq_canon (dw : Measure) (tt md : Bool) (w : World) (t : Nat) (h : MeasAll dw tt md w t) :
    (w.view t).mapCells (RCell.mask tt md) = canonView dw tt md w t := by
  unfold view RTable.mapCells canonView
  simp only
  congr 1
  · cases hh : (w.table t).header with
    | none => rfl
    | some hr =>
      simp only [Option.map_some, List.map_map]
      congr 1
      apply List.map_congr_left
      intro ce hce
      exact rcell_mask_eq_canon dw tt md w ce (h hr (by simp [hh]) ce hce)
  · rw [List.map_map]
    apply List.map_congr_left
    intro r hr
    simp only [Function.comp]
    cases (w.row r).isSep with
    | true => rfl
    | false =>
      simp only [Bool.false_eq_true, if_false, Option.map_some, List.map_map]
      congr 1
      apply List.map_congr_left
      intro ce hce
      exact rcell_mask_eq_canon dw tt md w ce (h r (by simp [hr]) ce hce)

theorem canonView_bare (dw : Measure) (tt md : Bool) (w : World) (t : Nat) :
    canonView dw tt md w.bare t = canonView dw tt md w t := by
  unfold canonView
  rw [bare_table]
  have hcols : ∀ k, (w.table t).bare.columns.map (·.props.get k) = (w.table t).columns.map (·.props.get k) := by
    intro k
    show ((w.table t).columns.map Column.bare).map _ = _
    rw [List.map_map]; rfl
  rw [hcols, hcols]
  congr 1
  · show (w.table t).header.map _ = _
    cases (w.table t).header with
    | none => rfl
    | some hr =>
      simp only [Option.map_some, bare_rowCells, List.map_map]
      exact congrArg some (List.map_congr_left (fun ce _ => canonCell_bare dw tt md w ce))
  · show (w.table t).rows.map _ = _
    apply List.map_congr_left
    intro r _
    rw [bare_row]
    show (if (w.row r).isSep = true then _ else _) = _
    cases (w.row r).isSep with
    | true => rfl
    | false =>
      simp only [Bool.false_eq_true, if_false, bare_rowCells, List.map_map]
      exact congrArg some (List.map_congr_left (fun ce _ => canonCell_bare dw tt md w ce))

/-! ### the pass: keeps `erase`, measures what is asked -/

theorem erase_irc (dw : Measure) (w : World) (t : Nat) (hL : LogOnly w t) :
    (invokeRenderCallbacks dw w t).erase = w.erase :=
  irc_inv (stepInv_erase dw w.erase) (fun _ h => h) hL rfl

theorem measAll_irc (dw : Measure) (tt md : Bool) (w : World) (t : Nat) (hL : LogOnly w t)
    (htt : tt = true → Cb.dimSetter ∈ (w.table t).cellCbs.render)
    (hmd : md = true → Cb.widthSetter ∈ (w.table t).cellCbs.render) :
    MeasAll dw tt md (invokeRenderCallbacks dw w t) t := by
  have he := erase_irc dw w t hL
  have ht : (invokeRenderCallbacks dw w t).table t = w.table t := of_erase_eq (fun w => w.table t) (rd_table t) he
  intro r hr ce hce
  rw [ht] at hr
  obtain ⟨j, hj⟩ := List.getElem?_of_mem hce
  have hlen : ((invokeRenderCallbacks dw w t).rowCells r).length = (w.rowCells r).length :=
    of_erase_eq (fun w => (w.rowCells r).length) (rd_rowCellsLen r) he
  have hjlt : j < (w.rowCells r).length := by
    rw [← hlen]
    exact (List.getElem?_eq_some_iff.mp hj).1
  constructor
  · intro h
    have := irc_est (dimSpec dw) hL (htt h) r hr j hjlt
    exact ⟨this.1 ce hj, this.2 ce hj⟩
  · intro h
    exact irc_est (widSpec dw) hL (hmd h) r hr j hjlt ce hj

/-- the masked view after the pass, as a function of the `bare` form of the world before it -/
theorem view_irc (dw : Measure) (tt md : Bool) (w : World) (t : Nat) (hL : LogOnly w t)
    (htt : tt = true → Cb.dimSetter ∈ (w.table t).cellCbs.render)
    (hmd : md = true → Cb.widthSetter ∈ (w.table t).cellCbs.render) :
    ((invokeRenderCallbacks dw w t).view t).mapCells (RCell.mask tt md) = canonView dw tt md w.bare t := by
  rw [view_mask_eq_canon dw tt md _ t (measAll_irc dw tt md w t hL htt hmd), ← canonView_bare,
    bare_of_erase_eq (erase_irc dw w t hL)]

/-- two worlds with the same `bare` form give the same masked view after their passes -/
theorem view_irc_congr (dw : Measure) (tt md : Bool) (w1 w2 : World) (t : Nat) (hb : w1.bare = w2.bare)
    (hL1 : LogOnly w1 t) (hL2 : LogOnly w2 t)
    (h1tt : tt = true → Cb.dimSetter ∈ (w1.table t).cellCbs.render)
    (h1md : md = true → Cb.widthSetter ∈ (w1.table t).cellCbs.render)
    (h2tt : tt = true → Cb.dimSetter ∈ (w2.table t).cellCbs.render)
    (h2md : md = true → Cb.widthSetter ∈ (w2.table t).cellCbs.render) :
    ((invokeRenderCallbacks dw w1 t).view t).mapCells (RCell.mask tt md) =
      ((invokeRenderCallbacks dw w2 t).view t).mapCells (RCell.mask tt md) := by
  rw [view_irc dw tt md w1 t hL1 h1tt h1md, view_irc dw tt md w2 t hL2 h2tt h2md, hb]

/-! ### `renderTo` -/

theorem erase_renderTo (x : Ext) (w : World) (wr : Wrapper) (hL : LogOnly w wr.core) :
    (renderTo x w wr).1.erase = w.erase := by
  unfold renderTo
  cases wr.kind with
  | text =>
    simp only
    split
    · rfl
    · exact erase_irc x.dw w wr.core hL
  | _ => exact erase_irc x.dw w wr.core hL

/-- same `bare` form, `LogOnly` and the needed measuring callback on both sides: same output -/
theorem render_congr (x : Ext) (w1 w2 : World) (wr : Wrapper) (hb : w1.bare = w2.bare)
    (hL1 : LogOnly w1 wr.core) (hL2 : LogOnly w2 wr.core) (hN1 : Needs w1 wr) (hN2 : Needs w2 wr) :
    (renderTo x w1 wr).2 = (renderTo x w2 wr).2 := by
  unfold renderTo
  cases hk : wr.kind with
  | csv =>
    simp only
    have hv := view_irc_congr x.dw false false w1 w2 wr.core hb hL1 hL2 (by simp) (by simp) (by simp) (by simp)
    rw [← renderCsv_mapCells (RCell.mask false false) (fun _ => rfl), hv]
    exact renderCsv_mapCells (RCell.mask false false) (fun _ => rfl) _
  | json =>
    simp only
    have hv := view_irc_congr x.dw false false w1 w2 wr.core hb hL1 hL2 (by simp) (by simp) (by simp) (by simp)
    rw [← renderJson_mapCells x.js (RCell.mask false false) (fun _ => rfl) (fun _ => rfl) (fun _ => rfl), hv]
    exact renderJson_mapCells x.js (RCell.mask false false) (fun _ => rfl) (fun _ => rfl) (fun _ => rfl) _
  | html =>
    simp only
    have hv := view_irc_congr x.dw false false w1 w2 wr.core hb hL1 hL2 (by simp) (by simp) (by simp) (by simp)
    rw [← renderHtml_mapCells wr.html (RCell.mask false false) (fun _ => rfl), hv]
    exact renderHtml_mapCells wr.html (RCell.mask false false) (fun _ => rfl) _
  | markdown =>
    simp only
    have hv := view_irc_congr x.dw false true w1 w2 wr.core hb hL1 hL2 (by simp) (fun _ => hN1.2 hk)
      (by simp) (fun _ => hN2.2 hk)
    rw [← renderMarkdown_mapCells x.dw (RCell.mask false true) (fun _ => rfl) (fun _ => rfl), hv]
    exact renderMarkdown_mapCells x.dw (RCell.mask false true) (fun _ => rfl) (fun _ => rfl) _
  | text =>
    simp only
    split
    · rfl
    · simp only
      have hv := view_irc_congr x.dw true false w1 w2 wr.core hb hL1 hL2 (fun _ => hN1.1 hk) (by simp)
        (fun _ => hN2.1 hk) (by simp)
      rw [← renderTextBody_mapCells wr.decor (RCell.mask true false) (fun _ => rfl) (fun _ => rfl), hv]
      exact renderTextBody_mapCells wr.decor (RCell.mask true false) (fun _ => rfl) (fun _ => rfl) _

end World
end Tab
