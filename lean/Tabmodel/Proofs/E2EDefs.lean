/-
  Definitions for the capstone theorems (`Props/E2E.lean`); definitions only.

  * `Cell.FitsSrc`, `World.TableFits`: the decidable condition on the cells of the BUILT world
    under which every laid-out text line fits its cell's width (the premise of
    `c03_dimProps_cellOK`'s second half), i.e. "no size override that is smaller than the text";
  * `World.csvRecords`: what a CSV reader must get back, written from the world's cells;
  * `World.bodyRowCount`: number of non-separator rows of a table.
-/
import Tabmodel.Model.Render
import Tabmodel.Spec.Text
namespace Tab

/-- the cell's stored width is what its text measures (item declares no width), or the item
    declares a width and the text is a single line -/
def Cell.FitsSrc (dw : Measure) (it : Item) (ce : Cell) : Prop :=
  (it.mWidth = none ∧ ce.width = (longestLine dw ce.str : Nat)) ∨
  (it.mWidth.isSome = true ∧ ce.lines.length = 1)

instance (dw : Measure) (it : Item) (ce : Cell) : Decidable (Cell.FitsSrc dw it ce) := by
  unfold Cell.FitsSrc; infer_instance

namespace World

/-- every cell of the header and of every row of table `t` satisfies `Cell.FitsSrc` -/
def TableFits (dw : Measure) (w : World) (t : Nat) : Prop :=
  ∀ r ∈ (w.table t).header.toList ++ (w.table t).rows, ∀ ce ∈ w.rowCells r,
    Cell.FitsSrc dw (w.item ce.item) ce

instance (dw : Measure) (w : World) (t : Nat) : Decidable (TableFits dw w t) := by
  unfold TableFits; infer_instance

/-- the texts of a row's cells, padded on the right with empty fields to `n` fields -/
def rowTexts (w : World) (n r : Nat) : List Bytes :=
  (w.rowCells r).map (·.str) ++ List.replicate (n - (w.rowCells r).length) []

/-- header row (if any), then every non-separator row in order: the cell texts the history put
    into the table, each row padded to `nColumns` fields -/
def csvRecords (w : World) (t : Nat) : List (List Bytes) :=
  (match (w.table t).header with
    | some hr => [w.rowTexts (w.table t).nColumns hr]
    | none => []) ++
  (w.table t).rows.filterMap (fun r =>
    if (w.row r).isSep then none else some (w.rowTexts (w.table t).nColumns r))

/-- number of non-separator rows of table `t` -/
def bodyRowCount (w : World) (t : Nat) : Nat :=
  ((w.table t).rows.filter (fun r => !(w.row r).isSep)).length

end World
end Tab
