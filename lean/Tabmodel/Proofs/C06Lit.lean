/- C06 helpers: `bytesOfString` on string literals.  `ByteArray.toList` is a well-founded loop that
   neither `decide` nor `rfl` unfolds, so we first show it is `data.toList`, then evaluate every literal
   the HTML model (and the C06 spec) uses to an explicit byte list. -/
import Tabmodel.Model.Html
namespace Tab

theorem ByteArray_toList_loop (bs : ByteArray) (i : Nat) (r : List UInt8) :
    ByteArray.toList.loop bs i r = r.reverse ++ bs.data.toList.drop i := by
  fun_induction ByteArray.toList.loop bs i r with
  | case1 i r h ih =>
    rw [ih]
    have hi : i < bs.data.toList.length := by
      rw [Array.length_toList, ByteArray.size_data]; exact h
    rw [List.drop_eq_getElem_cons hi]
    have hg : bs.get! i = bs.data.toList[i] := by
      cases bs with
      | mk d =>
        show d[i]! = d.toList[i]
        have : i < d.size := by simpa using hi
        rw [getElem!_pos d i this]; simp
    rw [hg]; simp
  | case2 i r h =>
    have : bs.data.toList.length ≤ i := by
      rw [Array.length_toList, ByteArray.size_data]; omega
    rw [List.drop_eq_nil_of_le this]; simp

theorem ByteArray_toList (bs : ByteArray) : bs.toList = bs.data.toList := by
  simp [ByteArray.toList, ByteArray_toList_loop]

theorem bytesOfString_ofList (l : List Char) :
    bytesOfString (String.ofList l) = l.flatMap String.utf8EncodeChar := by
  simp [bytesOfString, String.toUTF8, ByteArray_toList, List.utf8Encode]

theorem bytesOfString_append (a b : String) :
    bytesOfString (a ++ b) = bytesOfString a ++ bytesOfString b := by
  simp [bytesOfString, String.toUTF8, ByteArray_toList]

theorem lit_table : bytesOfString "<table" = [60, 116, 97, 98, 108, 101] :=
  (bytesOfString_ofList [Char.ofNat 60, Char.ofNat 116, Char.ofNat 97, Char.ofNat 98, Char.ofNat 108, Char.ofNat 101]).trans (by decide)
theorem lit_classq : bytesOfString " class=\"" = [32, 99, 108, 97, 115, 115, 61, 34] :=
  (bytesOfString_ofList [Char.ofNat 32, Char.ofNat 99, Char.ofNat 108, Char.ofNat 97, Char.ofNat 115, Char.ofNat 115, Char.ofNat 61, Char.ofNat 34]).trans (by decide)
theorem lit_q : bytesOfString "\"" = [34] :=
  (bytesOfString_ofList [Char.ofNat 34]).trans (by decide)
theorem lit_idq : bytesOfString " id=\"" = [32, 105, 100, 61, 34] :=
  (bytesOfString_ofList [Char.ofNat 32, Char.ofNat 105, Char.ofNat 100, Char.ofNat 61, Char.ofNat 34]).trans (by decide)
theorem lit_gtnl : bytesOfString ">\n" = [62, 10] :=
  (bytesOfString_ofList [Char.ofNat 62, Char.ofNat 10]).trans (by decide)
theorem lit_caption_o : bytesOfString "  <caption>" = [32, 32, 60, 99, 97, 112, 116, 105, 111, 110, 62] :=
  (bytesOfString_ofList [Char.ofNat 32, Char.ofNat 32, Char.ofNat 60, Char.ofNat 99, Char.ofNat 97, Char.ofNat 112, Char.ofNat 116, Char.ofNat 105, Char.ofNat 111, Char.ofNat 110, Char.ofNat 62]).trans (by decide)
theorem lit_caption_c : bytesOfString "</caption>\n" = [60, 47, 99, 97, 112, 116, 105, 111, 110, 62, 10] :=
  (bytesOfString_ofList [Char.ofNat 60, Char.ofNat 47, Char.ofNat 99, Char.ofNat 97, Char.ofNat 112, Char.ofNat 116, Char.ofNat 105, Char.ofNat 111, Char.ofNat 110, Char.ofNat 62, Char.ofNat 10]).trans (by decide)
theorem lit_thead_o : bytesOfString "  <thead>\n" = [32, 32, 60, 116, 104, 101, 97, 100, 62, 10] :=
  (bytesOfString_ofList [Char.ofNat 32, Char.ofNat 32, Char.ofNat 60, Char.ofNat 116, Char.ofNat 104, Char.ofNat 101, Char.ofNat 97, Char.ofNat 100, Char.ofNat 62, Char.ofNat 10]).trans (by decide)
theorem lit_thead_tbody : bytesOfString "  </thead>\n  <tbody>\n" = [32, 32, 60, 47, 116, 104, 101, 97, 100, 62, 10, 32, 32, 60, 116, 98, 111, 100, 121, 62, 10] :=
  (bytesOfString_ofList [Char.ofNat 32, Char.ofNat 32, Char.ofNat 60, Char.ofNat 47, Char.ofNat 116, Char.ofNat 104, Char.ofNat 101, Char.ofNat 97, Char.ofNat 100, Char.ofNat 62, Char.ofNat 10, Char.ofNat 32, Char.ofNat 32, Char.ofNat 60, Char.ofNat 116, Char.ofNat 98, Char.ofNat 111, Char.ofNat 100, Char.ofNat 121, Char.ofNat 62, Char.ofNat 10]).trans (by decide)
theorem lit_tbody_table_c : bytesOfString "  </tbody>\n</table>\n" = [32, 32, 60, 47, 116, 98, 111, 100, 121, 62, 10, 60, 47, 116, 97, 98, 108, 101, 62, 10] :=
  (bytesOfString_ofList [Char.ofNat 32, Char.ofNat 32, Char.ofNat 60, Char.ofNat 47, Char.ofNat 116, Char.ofNat 98, Char.ofNat 111, Char.ofNat 100, Char.ofNat 121, Char.ofNat 62, Char.ofNat 10, Char.ofNat 60, Char.ofNat 47, Char.ofNat 116, Char.ofNat 97, Char.ofNat 98, Char.ofNat 108, Char.ofNat 101, Char.ofNat 62, Char.ofNat 10]).trans (by decide)
theorem lit_tr_o : bytesOfString "    <tr" = [32, 32, 32, 32, 60, 116, 114] :=
  (bytesOfString_ofList [Char.ofNat 32, Char.ofNat 32, Char.ofNat 32, Char.ofNat 32, Char.ofNat 60, Char.ofNat 116, Char.ofNat 114]).trans (by decide)
theorem lit_gt : bytesOfString ">" = [62] :=
  (bytesOfString_ofList [Char.ofNat 62]).trans (by decide)
theorem lit_tr_c : bytesOfString "</tr>\n" = [60, 47, 116, 114, 62, 10] :=
  (bytesOfString_ofList [Char.ofNat 60, Char.ofNat 47, Char.ofNat 116, Char.ofNat 114, Char.ofNat 62, Char.ofNat 10]).trans (by decide)
theorem lit_lt : bytesOfString "<" = [60] :=
  (bytesOfString_ofList [Char.ofNat 60]).trans (by decide)
theorem lit_ltsl : bytesOfString "</" = [60, 47] :=
  (bytesOfString_ofList [Char.ofNat 60, Char.ofNat 47]).trans (by decide)
theorem lit_th : bytesOfString "th" = [116, 104] :=
  (bytesOfString_ofList [Char.ofNat 116, Char.ofNat 104]).trans (by decide)
theorem lit_td : bytesOfString "td" = [116, 100] :=
  (bytesOfString_ofList [Char.ofNat 116, Char.ofNat 100]).trans (by decide)
theorem lit_e34 : bytesOfString "&#34;" = [38, 35, 51, 52, 59] :=
  (bytesOfString_ofList [Char.ofNat 38, Char.ofNat 35, Char.ofNat 51, Char.ofNat 52, Char.ofNat 59]).trans (by decide)
theorem lit_eamp : bytesOfString "&amp;" = [38, 97, 109, 112, 59] :=
  (bytesOfString_ofList [Char.ofNat 38, Char.ofNat 97, Char.ofNat 109, Char.ofNat 112, Char.ofNat 59]).trans (by decide)
theorem lit_e39 : bytesOfString "&#39;" = [38, 35, 51, 57, 59] :=
  (bytesOfString_ofList [Char.ofNat 38, Char.ofNat 35, Char.ofNat 51, Char.ofNat 57, Char.ofNat 59]).trans (by decide)
theorem lit_e43 : bytesOfString "&#43;" = [38, 35, 52, 51, 59] :=
  (bytesOfString_ofList [Char.ofNat 38, Char.ofNat 35, Char.ofNat 52, Char.ofNat 51, Char.ofNat 59]).trans (by decide)
theorem lit_elt : bytesOfString "&lt;" = [38, 108, 116, 59] :=
  (bytesOfString_ofList [Char.ofNat 38, Char.ofNat 108, Char.ofNat 116, Char.ofNat 59]).trans (by decide)
theorem lit_egt : bytesOfString "&gt;" = [38, 103, 116, 59] :=
  (bytesOfString_ofList [Char.ofNat 38, Char.ofNat 103, Char.ofNat 116, Char.ofNat 59]).trans (by decide)
theorem lit_s_nl2 : bytesOfString "\n  " = [10, 32, 32] :=
  (bytesOfString_ofList [Char.ofNat 10, Char.ofNat 32, Char.ofNat 32]).trans (by decide)
theorem lit_s_nl4 : bytesOfString "\n    " = [10, 32, 32, 32, 32] :=
  (bytesOfString_ofList [Char.ofNat 10, Char.ofNat 32, Char.ofNat 32, Char.ofNat 32, Char.ofNat 32]).trans (by decide)
theorem lit_s_nl : bytesOfString "\n" = [10] :=
  (bytesOfString_ofList [Char.ofNat 10]).trans (by decide)
theorem lit_s_caption_o : bytesOfString "<caption>" = [60, 99, 97, 112, 116, 105, 111, 110, 62] :=
  (bytesOfString_ofList [Char.ofNat 60, Char.ofNat 99, Char.ofNat 97, Char.ofNat 112, Char.ofNat 116, Char.ofNat 105, Char.ofNat 111, Char.ofNat 110, Char.ofNat 62]).trans (by decide)
theorem lit_s_caption_c : bytesOfString "</caption>" = [60, 47, 99, 97, 112, 116, 105, 111, 110, 62] :=
  (bytesOfString_ofList [Char.ofNat 60, Char.ofNat 47, Char.ofNat 99, Char.ofNat 97, Char.ofNat 112, Char.ofNat 116, Char.ofNat 105, Char.ofNat 111, Char.ofNat 110, Char.ofNat 62]).trans (by decide)
theorem lit_s_thead_o : bytesOfString "<thead>" = [60, 116, 104, 101, 97, 100, 62] :=
  (bytesOfString_ofList [Char.ofNat 60, Char.ofNat 116, Char.ofNat 104, Char.ofNat 101, Char.ofNat 97, Char.ofNat 100, Char.ofNat 62]).trans (by decide)
theorem lit_s_thead_c : bytesOfString "</thead>" = [60, 47, 116, 104, 101, 97, 100, 62] :=
  (bytesOfString_ofList [Char.ofNat 60, Char.ofNat 47, Char.ofNat 116, Char.ofNat 104, Char.ofNat 101, Char.ofNat 97, Char.ofNat 100, Char.ofNat 62]).trans (by decide)
theorem lit_s_tbody_o : bytesOfString "<tbody>" = [60, 116, 98, 111, 100, 121, 62] :=
  (bytesOfString_ofList [Char.ofNat 60, Char.ofNat 116, Char.ofNat 98, Char.ofNat 111, Char.ofNat 100, Char.ofNat 121, Char.ofNat 62]).trans (by decide)
theorem lit_s_tbody_c : bytesOfString "</tbody>" = [60, 47, 116, 98, 111, 100, 121, 62] :=
  (bytesOfString_ofList [Char.ofNat 60, Char.ofNat 47, Char.ofNat 116, Char.ofNat 98, Char.ofNat 111, Char.ofNat 100, Char.ofNat 121, Char.ofNat 62]).trans (by decide)
theorem lit_s_table_c : bytesOfString "</table>" = [60, 47, 116, 97, 98, 108, 101, 62] :=
  (bytesOfString_ofList [Char.ofNat 60, Char.ofNat 47, Char.ofNat 116, Char.ofNat 97, Char.ofNat 98, Char.ofNat 108, Char.ofNat 101, Char.ofNat 62]).trans (by decide)
theorem lit_s_tr_c : bytesOfString "</tr>" = [60, 47, 116, 114, 62] :=
  (bytesOfString_ofList [Char.ofNat 60, Char.ofNat 47, Char.ofNat 116, Char.ofNat 114, Char.ofNat 62]).trans (by decide)
theorem lit_s_tr : bytesOfString "<tr" = [60, 116, 114] :=
  (bytesOfString_ofList [Char.ofNat 60, Char.ofNat 116, Char.ofNat 114]).trans (by decide)
theorem lit_s_th_o : bytesOfString "<th>" = [60, 116, 104, 62] :=
  (bytesOfString_ofList [Char.ofNat 60, Char.ofNat 116, Char.ofNat 104, Char.ofNat 62]).trans (by decide)
theorem lit_s_th_c : bytesOfString "</th>" = [60, 47, 116, 104, 62] :=
  (bytesOfString_ofList [Char.ofNat 60, Char.ofNat 47, Char.ofNat 116, Char.ofNat 104, Char.ofNat 62]).trans (by decide)
theorem lit_s_td_o : bytesOfString "<td>" = [60, 116, 100, 62] :=
  (bytesOfString_ofList [Char.ofNat 60, Char.ofNat 116, Char.ofNat 100, Char.ofNat 62]).trans (by decide)
theorem lit_s_td_c : bytesOfString "</td>" = [60, 47, 116, 100, 62] :=
  (bytesOfString_ofList [Char.ofNat 60, Char.ofNat 47, Char.ofNat 116, Char.ofNat 100, Char.ofNat 62]).trans (by decide)
theorem lit_s_tr_plain : bytesOfString "<tr>" = [60, 116, 114, 62] :=
  (bytesOfString_ofList [Char.ofNat 60, Char.ofNat 116, Char.ofNat 114, Char.ofNat 62]).trans (by decide)
theorem lit_s_tr_class : bytesOfString "<tr class=\"" = [60, 116, 114, 32, 99, 108, 97, 115, 115, 61, 34] :=
  (bytesOfString_ofList [Char.ofNat 60, Char.ofNat 116, Char.ofNat 114, Char.ofNat 32, Char.ofNat 99, Char.ofNat 108, Char.ofNat 97, Char.ofNat 115, Char.ofNat 115, Char.ofNat 61, Char.ofNat 34]).trans (by decide)
theorem lit_s_qgt : bytesOfString "\">" = [34, 62] :=
  (bytesOfString_ofList [Char.ofNat 34, Char.ofNat 62]).trans (by decide)

/-- generic evaluation of `bytesOfString` on a literal: rewrite with this, then `decide` -/
theorem bytesOfString_eq (s : String) : bytesOfString s = s.toList.flatMap String.utf8EncodeChar := by
  rw [← bytesOfString_ofList, String.ofList_toList]

/-- evaluate all `bytesOfString` literals of the HTML model and of the C06 spec -/
macro "html_lits" loc:(Lean.Parser.Tactic.location)? : tactic => `(tactic| simp only [bytesOfString_append, lit_table, lit_classq, lit_q, lit_idq, lit_gtnl, lit_caption_o, lit_caption_c, lit_thead_o, lit_thead_tbody, lit_tbody_table_c, lit_tr_o, lit_gt, lit_tr_c, lit_lt, lit_ltsl, lit_th, lit_td, lit_e34, lit_eamp, lit_e39, lit_e43, lit_elt, lit_egt, lit_s_nl2, lit_s_nl4, lit_s_nl, lit_s_caption_o, lit_s_caption_c, lit_s_thead_o, lit_s_thead_c, lit_s_tbody_o, lit_s_tbody_c, lit_s_table_c, lit_s_tr_c, lit_s_tr, lit_s_th_o, lit_s_th_c, lit_s_td_o, lit_s_td_c, lit_s_tr_plain, lit_s_tr_class, lit_s_qgt] $[$loc]?)

end Tab
