/-
  C09t helper lemmas, part 1: the text renderer is total for EVERY decoration value.

  After the repair recorded as D28 (`commonRenderedLine` only touches the last field when there is
  one; model: `fields.dropLast`), `renderedLine` has no panic branch left after the per-column step, so
  the hypotheses `LineSafe` / `DivsOK` of `Proofs/TextTotal.lean` are no longer needed.  These are the
  lemmas of that file with the decoration hypothesis removed (`rlFinish_ok` there already ignores it;
  it cannot simply be instantiated, because `LineSafe L I cw` is false for `L = []`, `I ≠ []`, `cw = []`).
-/
import Tabmodel.Proofs.TextTotal
namespace Tab
open Emit

/-- the last step of `renderedLine` (left border, columns, right border, join) never fails: all four
    branches return -/
theorem rlFinish_total (L I R : Bytes) (cols : List (List Bytes)) : ∃ b, rlFinish L I R cols = .ok b := by
  unfold rlFinish
  simp only []
  split
  · exact ⟨_, rfl⟩
  · split
    · exact ⟨_, rfl⟩
    · split
      · exact ⟨_, rfl⟩
      · exact ⟨_, rfl⟩

/-- one content line never fails, whatever the three dividers -/
theorem renderedLine_total (L I R : Bytes) (cw : List Nat) (parts : List WidthString) (aligns : List Nat)
    (hparts : cw.length ≤ parts.length) (hal : cw.length ≤ aligns.length) (hal3 : ∀ a ∈ aligns, a ≤ 3) :
    ∃ b, renderedLine L I R cw parts aligns = .ok b := by
  obtain ⟨cols, hc, _, _⟩ := renderedLine_cols_total I cw parts aligns hparts hal hal3
  rw [renderedLine_eq, hc]
  exact rlFinish_total L I R cols

/-- one row never fails, whatever the three dividers -/
theorem ttEmitRow_res_total (L I R : Bytes) (cw aligns : List Nat) (cells : List RCell) (n : Nat)
    (hcw : cw.length = n) (hal : aligns.length = n) (hal3 : ∀ a ∈ aligns, a ≤ 3) :
    (ttEmitRow L I R cw aligns cells n).res = .ok () := by
  unfold ttEmitRow
  refine (forM'_ok _ _ ?_).1
  intro parts hp
  rw [ttRowLines_eq] at hp
  obtain ⟨k, _, rfl⟩ := List.mem_map.mp hp
  obtain ⟨b, hb⟩ := renderedLine_total L I R cw ((List.range n).map (fun c => cellLineWS cells c k)) aligns
    (by simp; omega) (by omega) hal3
  simp only [bind_eq, hb, bind'_lift_ok]
  rfl

/-- `renderTextBody` returns `.ok ()` — neither an error nor a panic — for EVERY decoration value
    (Populate-completed or hand-assembled, boxless or not, the all-empty one included) on every
    well-shaped view with handled alignment values, zero-column views included. -/
theorem renderTextBody_total (d : Decoration) (v : RTable) (hs : WFShape v) (ha : AlignOK v) :
    (renderTextBody d v).res = .ok () := by
  obtain ⟨wsI, hws, hcw⟩ := ttColumnWidths_eq v hs
  have hrow : ∀ cells L I R,
      (ttEmitRow L I R v.colWidths v.effAligns cells v.ncols).res = .ok () := fun cells L I R =>
    ttEmitRow_res_total L I R _ _ cells v.ncols (colWidths_length v) (effAligns_length v) (effAligns_le3 v ha)
  unfold renderTextBody
  simp only [bind_eq, hws, bind'_lift_ok, ttAligns_eq v ha, hcw]
  have hbody : ∀ f : Unit → Emit Unit, (f ()).res = .ok () →
      (bind' (forM' v.rows (fun r => match r with
        | none => write (lineSeparator d v.colWidths)
        | some cells => ttEmitRow d.vBodyBorder d.vBodyInner d.vBodyBorder v.colWidths v.effAligns cells v.ncols)) f).res
        = .ok () := by
    intro f hf
    refine tt_bind_res_ok (forM'_ok _ _ ?_).1 hf
    intro r _
    cases r with
    | none => rfl
    | some cells => exact hrow cells _ _ _
  cases hh : v.header with
  | none =>
    simp only [bind'_write]
    exact hbody _ rfl
  | some hs' =>
    simp only [bind'_write]
    refine tt_bind_res_ok (hrow hs' _ _ _) ?_
    exact hbody _ rfl

end Tab
