/-
  C16 helpers, part 11: allocation under renaming, the renamed step, `apply_sim`, and the comparison of an
  interleaved run with the run of A alone (`runAlone`).
-/
import Tabmodel.Proofs.C16SimRender
namespace Tab
namespace C16
open World

variable {ρ : Nat → Nat} {t : Nat} {P I : Nat → Prop}

/-! ### congruence of renamings -/

theorem renRow_congr {ρ ρ' : Nat → Nat} (rw : Row)
    (h : ∀ ce ∈ rw.cells.getD [], ∀ r', ce.inRow = some r' → ρ' r' = ρ r') : renRow ρ' rw = renRow ρ rw := by
  unfold renRow
  cases hc : rw.cells with
  | none => rfl
  | some cs =>
    simp only [Option.map_some]
    congr 2
    apply List.map_congr_left
    intro ce hce
    unfold renCell
    cases hi : ce.inRow with
    | none => rfl
    | some r' =>
      have := h ce (by simp [hc, hce]) r' hi
      simp only [Option.map_some, this]

theorem renTable_congr {ρ ρ' : Nat → Nat} (tb : Table) (h : ∀ r, FootT tb r → ρ' r = ρ r) :
    renTable ρ' tb = renTable ρ tb := by
  unfold renTable
  congr 1
  · cases hh : tb.header with
    | none => rfl
    | some hr => simp [h hr (.inl hh)]
  · apply List.map_congr_left
    intro r hr
    exact h r (.inr hr)

theorem renRow_id (rw : Row) : renRow (fun r => r) rw = rw := by
  unfold renRow renCell
  cases hc : rw.cells with
  | none => cases rw; simp_all
  | some cs =>
    have : (List.map (fun ce : Cell => { ce with inRow := Option.map (fun r => r) ce.inRow }) cs) = cs := by
      have : ∀ ce : Cell, ({ ce with inRow := Option.map (fun r => r) ce.inRow } : Cell) = ce := by
        intro ce; cases ce; simp
      simp
    cases rw
    simp_all

theorem renTable_id (tb : Table) : renTable (fun r => r) tb = tb := by
  unfold renTable
  cases tb
  simp

theorem Sim.refl (t : Nat) (P I : Nat → Prop) (w : World) : Sim (fun r => r) t P I w w := by
  refine ⟨?_, fun r _ => ?_, fun _ _ => rfl, fun _ _ _ _ h => h⟩
  · cases w.tables[t]? <;> simp [renTable_id]
  · cases w.rows[r]? <;> simp [renRow_id]

theorem Sim.mono {P' : Nat → Prop} {w w₂ : World} (h : Sim ρ t P I w w₂) (e : ∀ r, P' r → P r) :
    Sim ρ t P' I w w₂ :=
  ⟨h.tab, fun r hr => h.rows r (e r hr), h.items, fun r r' hr hr' => h.inj r r' (e r hr) (e r' hr')⟩

theorem Sim.of_agree_left {w w' w₂ : World} (ha : Agree t P I w' w) (h : Sim ρ t P I w w₂) :
    Sim ρ t P I w' w₂ :=
  ⟨by rw [ha.tab]; exact h.tab, fun r hr => by rw [ha.rows r hr]; exact h.rows r hr,
   fun i hi => (ha.items i hi).trans (h.items i hi), h.inj⟩

/-- the image of an owned row exists in the renamed world -/
theorem Sim.inrange {w w₂ : World} (hi : Inv t P I w) (h : Sim ρ t P I w w₂) {r : Nat} (hr : P r) :
    ρ r < w₂.rows.length := by
  have h1 := h.rows r hr
  rw [List.getElem?_eq_getElem (hi.inrange r hr)] at h1
  simp only [Option.map_some] at h1
  exact (List.getElem?_eq_some_iff.1 h1).1

/-! ### allocation -/

/-- the renaming extended at the fresh id -/
def upd (ρ : Nat → Nat) (L L₂ : Nat) : Nat → Nat := fun r => if r = L then L₂ else ρ r

theorem upd_old {L L₂ r : Nat} (h : r ≠ L) : upd ρ L L₂ r = ρ r := by simp [upd, h]
theorem upd_new (L L₂ : Nat) : upd ρ L L₂ L = L₂ := by simp [upd]

theorem sim_newRow {w w₂ : World} (hi : Inv t P I w) (hs : Sim ρ t P I w w₂) (rw0 : Row)
    (hrw0 : ∀ ρ', renRow ρ' rw0 = rw0) :
    Sim (upd ρ w.rows.length w₂.rows.length) t (fun r => P r ∨ r = w.rows.length) I
      (w.newRow rw0).1 (w₂.newRow rw0).1 := by
  have hne : ∀ r, P r → r ≠ w.rows.length := fun r hr => Nat.ne_of_lt (hi.inrange r hr)
  refine ⟨?_, fun r hr => ?_, hs.items, fun r r' hr hr' e => ?_⟩
  · show w₂.tables[t]? = Option.map (renTable (upd ρ w.rows.length w₂.rows.length)) w.tables[t]?
    rw [hs.tab]
    cases ht : w.tables[t]? with
    | none => rfl
    | some tb =>
      simp only [Option.map_some]
      congr 1
      have : tb = w.table t := by simp [table_def, ht]
      subst this
      exact (renTable_congr (ρ := ρ) (ρ' := upd ρ w.rows.length w₂.rows.length) _
        (fun r hr => upd_old (hne r (hi.foot r hr)))).symm
  · rcases hr with hr | rfl
    · rw [upd_old (hne r hr)]
      simp only [newRow_rows]
      rw [List.getElem?_append_left (hs.inrange hi hr), List.getElem?_append_left (hi.inrange r hr),
        hs.rows r hr]
      cases hw : w.rows[r]? with
      | none => rfl
      | some rw =>
        simp only [Option.map_some]
        congr 1
        have : rw = w.row r := by simp [row_def, hw]
        subst this
        refine (renRow_congr _ (fun ce hce r' hr' => ?_)).symm
        rcases ((hi.rowok r hr).cells ce hce).1 with h1 | h1
        · rw [h1] at hr'; cases hr'
        · rw [h1] at hr'; cases hr'; exact upd_old (hne r hr)
    · rw [upd_new]
      simp only [newRow_rows]
      rw [List.getElem?_append_right (Nat.le_refl _), List.getElem?_append_right (Nat.le_refl _)]
      simp [hrw0]
  · rcases hr with hr | rfl
    · rcases hr' with hr' | rfl
      · rw [upd_old (hne r hr), upd_old (hne r' hr')] at e
        exact hs.inj r r' hr hr' e
      · rw [upd_old (hne r hr), upd_new] at e
        exact absurd e (Nat.ne_of_lt (hs.inrange hi hr))
    · rcases hr' with hr' | rfl
      · rw [upd_old (hne r' hr'), upd_new] at e
        exact absurd e.symm (Nat.ne_of_lt (hs.inrange hi hr'))
      · rfl

/-- a step of the shape `post L (newRow (pre w) rw0)` under renaming -/
theorem sim_alloc {pre : World → World} {rw0 : Row} {post : Nat → World → World}
    (hpre : Both ρ t P I pre pre) (hprelen : ∀ w, (pre w).rows.length = w.rows.length)
    (hrw0 : ∀ ρ', renRow ρ' rw0 = rw0) (hrow : ∀ L, RowOK t L I rw0)
    (hpost : ∀ (ρ' : Nat → Nat) (L : Nat), Both ρ' t (fun r => P r ∨ r = L) I (post L) (post (ρ' L)))
    {w w₂ : World} (hi : Inv t P I w) (hs : Sim ρ t P I w w₂) :
    Sim (upd ρ w.rows.length w₂.rows.length) t (fun r => P r ∨ r = w.rows.length) I
      (post w.rows.length ((pre w).newRow rw0).1) (post w₂.rows.length ((pre w₂).newRow rw0).1) := by
  have i1 := (hpre.ls w hi).inv
  have s1 := hpre.sim w w₂ hi hs
  have s2 := sim_newRow i1 s1 rw0 hrw0
  rw [hprelen, hprelen] at s2
  have i2 : Inv t (fun r => P r ∨ r = w.rows.length) I ((pre w).newRow rw0).1 := by
    have := inv_newRow_grow i1 (hrow (pre w).rows.length)
    rw [hprelen] at this; exact this
  have := (hpost (upd ρ w.rows.length w₂.rows.length) w.rows.length).sim _ _ i2 s2
  rw [upd_new] at this
  exact this

end C16
end Tab
