/- C11, history level — the step law of `addHeaders`. -/
import Tabmodel.Proofs.C11hF
namespace Tab
namespace World

/-- the worlds `addHeaders` goes through -/
def hdrW2 (w : World) (t : Nat) (n : Nat) : World :=
  ((w.modTable t (fun tb => resizeColumnsAtLeast tb n)).newRow { ec := .table t }).1

theorem hdrW2_row_self (w : World) (t n : Nat) : (hdrW2 w t n).row w.rows.length = { ec := .table t } :=
  row_newRow_self _ _

theorem hdrW2_row_ne (w : World) (t n r : Nat) (h : r ≠ w.rows.length) :
    (hdrW2 w t n).row r = w.row r := by
  unfold hdrW2
  rw [row_newRow_ne _ _ _ (by exact h)]
  rfl

theorem hdrW2_errs (w : World) (t n t' : Nat) : ((hdrW2 w t n).table t').errs = (w.table t').errs := by
  unfold hdrW2
  exact table_modTable_proj _ _ _ (·.errs) (fun x => resize_errs x _) _

theorem hdrW2_rows (w : World) (t n t' : Nat) : ((hdrW2 w t n).table t').rows = (w.table t').rows := by
  unfold hdrW2
  exact table_modTable_proj _ _ _ (·.rows) (fun x => resize_rows x _) _

theorem hdrW2_tables_length (w : World) (t n : Nat) : (hdrW2 w t n).tables.length = w.tables.length := by
  simp [hdrW2, newRow]

theorem hdrW2_rows_length (w : World) (t n : Nat) : (hdrW2 w t n).rows.length = w.rows.length + 1 := by
  simp [hdrW2, newRow]

theorem hdrW2_mass (w : World) (t n e : Nat) : mass (hdrW2 w t n) e = mass w e := by
  unfold hdrW2
  rw [mass_newRow _ _ _ rfl]
  exact mass_modTable_same _ _ _ _ (fun x => resize_errs x _)

theorem addHeadersK_eq (dw : Measure) (e : Nat) (w : World) (t : Nat) (items : List Nat) :
    addHeadersK dw e (w, 0) t items =
      addTimeCellsK dw e t w.rows.length (fun _ => .table t)
        (((invokeK dw e
          ((rowAddManyK dw e w.rows.length items (hdrW2 w t items.length, 0)).1.modTable t
              (fun tb => { tb with header := some w.rows.length }),
            (rowAddManyK dw e w.rows.length items (hdrW2 w t items.length, 0)).2)
          (fun w => (w.table t).rowCbs.at .add) (.row w.rows.length) (fun _ => .table t)).1.rowCells
            w.rows.length).length) 0
        (invokeK dw e
          ((rowAddManyK dw e w.rows.length items (hdrW2 w t items.length, 0)).1.modTable t
              (fun tb => { tb with header := some w.rows.length }),
            (rowAddManyK dw e w.rows.length items (hdrW2 w t items.length, 0)).2)
          (fun w => (w.table t).rowCbs.at .add) (.row w.rows.length) (fun _ => .table t)) := rfl

/-- everything about one `addHeaders` -/
theorem addHeaders_law (dw : Measure) (e : Nat) (w : World) (t : Nat) (items : List Nat)
    (ht : t < w.tables.length) :
    AStep e t w.rows.length (addHeadersK dw e (w, 0) t items).2 w (addHeadersK dw e (w, 0) t items).1 ∧
    (addHeadersK dw e (w, 0) t items).1.tables.length = w.tables.length ∧
    (∀ t', ((addHeadersK dw e (w, 0) t items).1.table t').rows = (w.table t').rows) ∧
    (∀ t', (w.table t').errs <+: ((addHeadersK dw e (w, 0) t items).1.table t').errs) ∧
    (∀ r' es, r' ≠ w.rows.length → (w.row r').ec = .own es →
      ∃ l, ((addHeadersK dw e (w, 0) t items).1.row r').ec = .own (es ++ l)) := by
  rw [addHeadersK_eq]
  -- segment A: the cells are added to the fresh header row
  have ht2 : t < (hdrW2 w t items.length).tables.length := by rw [hdrW2_tables_length]; exact ht
  have hres : resolve (hdrW2 w t items.length) (.rowLazy w.rows.length) = some (.table t) := by
    have : w.rows.length < (hdrW2 w t items.length).rows.length := by rw [hdrW2_rows_length]; omega
    simp only [resolve, this, if_true, hdrW2_row_self, ht2]
  have G3 := rowAddManyK_good dw w.rows.length items _
    (Good.start (hdrW2 w t items.length) e 0 (.table t)) hres
  generalize rowAddManyK dw e w.rows.length items (hdrW2 w t items.length, 0) = c3 at G3 ⊢
  -- segment B: header set, then the add-time callbacks
  have ht4 : t < (c3.1.modTable t (fun tb => { tb with header := some w.rows.length })).tables.length := by
    rw [modTable_tables_length, G3.st.tlen]; exact ht2
  have G4 := invokeK_good dw
    (Good.start (c3.1.modTable t (fun tb => { tb with header := some w.rows.length })) e c3.2 (.table t))
    (fun w => (w.table t).rowCbs.at .add) (.row w.rows.length) (fun _ => .table t) (resolve_table ht4)
  have G5 := addTimeCellsK_good dw t w.rows.length (fun _ => .table t)
    (((invokeK dw e (c3.1.modTable t (fun tb => { tb with header := some w.rows.length }), c3.2)
      (fun w => (w.table t).rowCbs.at .add) (.row w.rows.length) (fun _ => .table t)).1.rowCells
        w.rows.length).length) 0 _ G4 (fun _ _ => resolve_table ht4)
  generalize addTimeCellsK dw e t w.rows.length (fun _ => .table t)
    (((invokeK dw e (c3.1.modTable t (fun tb => { tb with header := some w.rows.length }), c3.2)
      (fun w => (w.table t).rowCbs.at .add) (.row w.rows.length) (fun _ => .table t)).1.rowCells
        w.rows.length).length) 0
    (invokeK dw e (c3.1.modTable t (fun tb => { tb with header := some w.rows.length }), c3.2)
      (fun w => (w.table t).rowCbs.at .add) (.row w.rows.length) (fun _ => .table t)) = c at G5 ⊢
  clear G4
  -- facts about the world with the header set
  have e4 : ∀ t', ((c3.1.modTable t (fun tb => { tb with header := some w.rows.length })).table t').errs
      = (c3.1.table t').errs := by
    intro t'; refine table_modTable_proj _ _ _ (·.errs) ?_ _; intro _; rfl
  have r4 : ∀ t', ((c3.1.modTable t (fun tb => { tb with header := some w.rows.length })).table t').rows
      = (c3.1.table t').rows := by
    intro t'; refine table_modTable_proj _ _ _ (·.rows) ?_ _; intro _; rfl
  have m4 : mass (c3.1.modTable t (fun tb => { tb with header := some w.rows.length })) e = mass c3.1 e := by
    refine mass_modTable_same _ _ _ _ ?_; intro _; rfl
  have c4 : ∀ g, cnt (c3.1.modTable t (fun tb => { tb with header := some w.rows.length })) e g
      = cnt c3.1 e g := fun g => cnt_congr e4 (fun _ => rfl) e g
  have h0 : cnt w e (.row w.rows.length) = 0 := cnt_row_oob w _ e (Nat.le_refl _)
  have cw2 : ∀ g, g ≠ .row w.rows.length → cnt (hdrW2 w t items.length) e g = cnt w e g := by
    intro g hg
    cases g with
    | table t' => simp only [cnt, hdrW2_errs]
    | row r' =>
      have : r' ≠ w.rows.length := fun x => hg (by rw [x])
      simp only [cnt, hdrW2_row_ne w t _ r' this]
  have hle3 := G3.le
  have hle5 := G5.le
  refine ⟨⟨unattached_oob w _ (Nat.le_refl _), ?_, ?_, ?_, ?_, ?_⟩, ?_, ?_, ?_, ?_⟩
  · -- the header row shares the table's container
    refine (G5.st.ecT _ t).mp ?_
    rw [row_modTable]
    refine (G3.st.ecT _ t).mp ?_
    rw [hdrW2_row_self]
  · intro r' hne t'
    rw [← G5.st.ecT r' t', row_modTable, ← G3.st.ecT r' t', hdrW2_row_ne w t _ r' hne]
  · rw [G5.ms, m4, G3.ms, hdrW2_mass]; omega
  · intro t'
    rw [G5.ct (.table t'), c4, G3.ct (.table t'), cw2 _ (by intro x; cases x), h0]
    by_cases htt : t' = t
    · subst htt; simp only [if_true]; omega
    · have : ¬ Src.table t' = Src.table t := by intro x; cases x; exact htt rfl
      simp only [htt, this, if_false]
  · intro r' hne
    have h1 : ¬ Src.row r' = Src.table t := by intro x; cases x
    rw [G5.ct (.row r'), c4, G3.ct (.row r'),
      cw2 _ (by intro x; cases x; exact hne rfl)]
    simp only [h1, if_false, Nat.add_zero]
  · rw [G5.st.tlen, modTable_tables_length, G3.st.tlen, hdrW2_tables_length]
  · intro t'
    rw [G5.st.trows, r4, G3.st.trows, hdrW2_rows]
  · intro t'
    obtain ⟨l5, h5⟩ := G5.st.terrs t'
    obtain ⟨l3, h3⟩ := G3.st.terrs t'
    rw [h5, e4, h3, hdrW2_errs, List.append_assoc]
    exact List.prefix_append _ _
  · intro r' es hne hes
    have h2 : ((hdrW2 w t items.length).row r').ec = .own es := by rw [hdrW2_row_ne w t _ r' hne]; exact hes
    obtain ⟨l3, h3⟩ := G3.st.ecO r' es h2
    obtain ⟨l5, h5⟩ := G5.st.ecO r' (es ++ l3) (by rw [row_modTable]; exact h3)
    exact ⟨l3 ++ l5, by rw [h5, List.append_assoc]⟩

theorem he_addHeaders (dw : Measure) {hs : List Nat} {w : World} (h : HE hs w) (t : Nat)
    (items : List Nat) (ht : t < w.tables.length) :
    HE (w.rows.length :: hs) (addHeaders dw w t items) := by
  obtain ⟨A, hlen, hrows, _, _⟩ := addHeaders_law dw 0 w t items ht
  rw [addHeadersK_fst] at A hlen hrows
  refine ⟨?_, ?_⟩
  · intro t' ht'
    rw [hlen] at ht'
    exact attachedAll_addHeaders dw w t t' items (h.att t' ht')
  · intro r t' hec
    rw [hlen, hrows]
    by_cases hr : r = w.rows.length
    · subst hr
      rw [A.ec] at hec; cases hec
      exact ⟨ht, Or.inr (List.mem_cons_self ..)⟩
    · obtain ⟨h1, h2⟩ := h.ect r t' ((A.own r hr t').mpr hec)
      exact ⟨h1, h2.imp id (List.mem_cons_of_mem _)⟩

end World
end Tab
