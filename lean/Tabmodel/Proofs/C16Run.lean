/-
  C16 helpers, part 4: allocation, the rendered view, the step language (`Step`, `applyW`, `applyO`)
  and the per-step locality theorem `apply_local`.
-/
import Tabmodel.Proofs.C16Steps
namespace Tab
namespace C16
open World

variable {t : Nat} {P I : Nat → Prop}

/-! ### congruence in the ownership predicate -/

theorem Inv.congr {P' : Nat → Prop} {w : World} (h : Inv t P I w) (e : ∀ r, P' r ↔ P r) : Inv t P' I w :=
  ⟨fun r hr => h.inrange r ((e r).1 hr), fun r hr => h.rowok r ((e r).1 hr), fun r hr => (e r).2 (h.foot r hr)⟩

theorem Agree.mono {P' : Nat → Prop} {w w₂ : World} (h : Agree t P I w w₂) (e : ∀ r, P' r → P r) :
    Agree t P' I w w₂ :=
  ⟨h.tab, fun r hr => h.rows r (e r hr), h.items⟩

/-! ### allocation -/

@[simp] theorem newRow_rows (w : World) (rw : Row) : (w.newRow rw).1.rows = w.rows ++ [rw] := rfl
@[simp] theorem newRow_tables (w : World) (rw : Row) : (w.newRow rw).1.tables = w.tables := rfl
@[simp] theorem newRow_items (w : World) (rw : Row) : (w.newRow rw).1.items = w.items := rfl
@[simp] theorem newRow_id (w : World) (rw : Row) : (w.newRow rw).2 = w.rows.length := rfl

theorem newRow_row_old (w : World) (rw : Row) {r : Nat} (h : r < w.rows.length) :
    (w.newRow rw).1.row r = w.row r := by
  simp [row_def, List.getElem?_append_left h]

theorem newRow_row_new (w : World) (rw : Row) : (w.newRow rw).1.row w.rows.length = rw := by
  simp [row_def]

theorem frame_newRow (w : World) (rw : Row) : Frame t P w (w.newRow rw).1 :=
  ⟨rfl, fun _ _ => rfl, by simp, fun r _ hl => by simp [List.getElem?_append_left hl], rfl⟩

/-- allocation keeps `Inv` for the old owner set … -/
theorem inv_newRow_same {w : World} (h : Inv t P I w) (rw : Row) : Inv t P I (w.newRow rw).1 :=
  ⟨fun r hr => by simp; exact Nat.lt_succ_of_lt (h.inrange r hr),
   fun r hr => by rw [newRow_row_old w rw (h.inrange r hr)]; exact h.rowok r hr, h.foot⟩

/-- … and for the owner set extended by the new id, if the new row is well-formed -/
theorem inv_newRow_grow {w : World} (h : Inv t P I w) {rw : Row} (hrw : RowOK t w.rows.length I rw) :
    Inv t (fun r => P r ∨ r = w.rows.length) I (w.newRow rw).1 := by
  refine ⟨fun r hr => ?_, fun r hr => ?_, fun r hr => .inl (h.foot r hr)⟩
  · rcases hr with hr | rfl
    · simp; exact Nat.lt_succ_of_lt (h.inrange r hr)
    · simp
  · rcases hr with hr | rfl
    · rw [newRow_row_old w rw (h.inrange r hr)]; exact h.rowok r hr
    · rw [newRow_row_new]; exact hrw

theorem agree_newRow_grow {w w₂ : World} (h : Inv t P I w) (ha : Agree t P I w w₂)
    (hl : w₂.rows.length = w.rows.length) (rw : Row) :
    Agree t (fun r => P r ∨ r = w.rows.length) I (w.newRow rw).1 (w₂.newRow rw).1 := by
  refine ⟨ha.tab, fun r hr => ?_, ha.items⟩
  rcases hr with hr | rfl
  · have h1 := h.inrange r hr
    simp only [newRow_rows]
    rw [List.getElem?_append_left h1, List.getElem?_append_left (hl ▸ h1)]
    exact ha.rows r hr
  · simp only [newRow_rows]
    rw [List.getElem?_append_right (Nat.le_refl _), List.getElem?_append_right (by rw [hl]; exact Nat.le_refl _), hl]

/-- result of one API step `F` (world part `.1`, observation `.2`) started in `w` -/
structure StepRes {β : Type} (t : Nat) (P P' I : Nat → Prop) (L' : Nat) (w : World) (F : World → World × β) : Prop where
  frame : Frame t P w (F w).1
  inv : Inv t P' I (F w).1
  len : (F w).1.rows.length = L'
  dep : ∀ w₂, Agree t P I w w₂ → w₂.rows.length = w.rows.length →
    Agree t P' I (F w).1 (F w₂).1 ∧ (F w).2 = (F w₂).2

theorem stepRes_of_ls {β : Type} {f : World → World} (hf : LocalStep t P I f) (o : World → β)
    (ho : Rd t P I o (fun _ => True)) {w : World} (h : Inv t P I w) :
    StepRes t P P I w.rows.length w (fun w => (f w, o w)) :=
  have h1 := hf w h
  ⟨h1.frame, h1.inv, h1.len, fun w₂ ha _ => ⟨h1.dep w₂ ha, ho.ag w w₂ h ha⟩⟩

/-- a step of the shape `post L (newRow (pre w) rw0)` where `L` is the fresh id -/
theorem stepRes_alloc {pre : World → World} {rw0 : Row} {post : Nat → World → World}
    (hpre : LocalStep t P I pre) (hprelen : ∀ w, (pre w).rows.length = w.rows.length)
    (hrow : ∀ L, RowOK t L I rw0)
    (hpost : ∀ L, LocalStep t (fun r => P r ∨ r = L) I (post L)) {w : World} (h : Inv t P I w) :
    StepRes t P (fun r => P r ∨ r = w.rows.length) I (w.rows.length + 1) w
      (fun w => (post w.rows.length ((pre w).newRow rw0).1, w.rows.length)) := by
  have h1 := hpre w h
  have hL : (pre w).rows.length = w.rows.length := hprelen w
  have i2 : Inv t (fun r => P r ∨ r = w.rows.length) I ((pre w).newRow rw0).1 := by
    have := inv_newRow_grow h1.inv (hrow (pre w).rows.length)
    rw [hL] at this; exact this
  have h3 := hpost w.rows.length _ i2
  refine ⟨?_, h3.inv, ?_, fun w₂ ha hl => ⟨?_, hl.symm⟩⟩
  · have f12 : Frame t P w ((pre w).newRow rw0).1 := h1.frame.trans (frame_newRow _ _)
    have f3 := (f12.mono (P' := fun r => P r ∨ r = w.rows.length) (fun r _ hr => .inl hr)).trans h3.frame
    refine f3.mono (fun r hl hr => ?_)
    rcases hr with hr | rfl
    · exact hr
    · exact absurd hl (Nat.lt_irrefl _)
  · rw [h3.len]; simp [hL]
  · have a1 := h1.dep w₂ ha
    have a2 := agree_newRow_grow h1.inv a1 (by rw [hprelen, hprelen, hl]) rw0
    rw [hL] at a2
    have := h3.dep _ a2
    simp only [hl]
    exact this

/-! ### the rendered view and the observers -/

theorem rcell_agree {w w₂ : World} (ha : Agree t P I w w₂) {ce : Cell} (hce : I ce.item) :
    w.rcell ce = w₂.rcell ce := by
  unfold rcell; rw [ha.items _ hce]

theorem rcells_agree {w w₂ : World} (h : Inv t P I w) (ha : Agree t P I w w₂) {r : Nat} (hr : P r) :
    (w.rowCells r).map w.rcell = (w₂.rowCells r).map w₂.rcell := by
  have e : w₂.rowCells r = w.rowCells r := by simp only [rowCells, ha.row hr]
  rw [e]
  apply List.map_congr_left
  intro ce hce
  exact rcell_agree ha ((h.rowok r hr).cells ce hce).2

theorem view_agree {w w₂ : World} (h : Inv t P I w) (ha : Agree t P I w w₂) : w.view t = w₂.view t := by
  have et : w₂.table t = w.table t := ha.table.symm
  unfold view
  simp only [et]
  congr 1
  · cases hh : (w.table t).header with
    | none => rfl
    | some hr =>
      simp only [Option.map_some]
      rw [rcells_agree h ha (h.foot hr (.inl hh))]
  · apply List.map_congr_left
    intro r hr
    have hP : P r := h.foot r (.inr hr)
    rw [rcells_agree h ha hP, ha.row hP]

theorem rd_view : Rd t P I (fun w => w.view t) (fun _ => True) :=
  ⟨fun _ _ => trivial, fun _ _ h ha => view_agree h ha⟩

theorem rd_cellAt (r c : Int) : Rd t P I (fun w => cellAt w t r c) (fun _ => True) := by
  refine ⟨fun _ _ => trivial, fun w w₂ h ha => ?_⟩
  have et : w₂.table t = w.table t := ha.table.symm
  unfold cellAt
  simp only [et]
  split
  · rfl
  · cases hk : (w.table t).rows[r.toNat - 1]? with
    | none => rfl
    | some rid =>
      have hP : P rid := h.foot rid (.inr (List.mem_of_getElem? hk))
      simp only [ha.row hP]

theorem rd_hasColumn (n : Int) : Rd t P I (fun w => hasColumn w t n) (fun _ => True) :=
  ⟨fun _ _ => trivial, fun _ _ _ ha => by simp only [hasColumn, ha.table]⟩

/-! ### the step language -/

/-- what the caller of a step gets back -/
inductive Obs
  | unit
  | row (r : Nat)                      -- the `*Row` returned
  | refused                            -- `RegisterPropertyCallback` returned an error
  | rendered (m : Emit Unit)           -- the emitted chunks and result of `RenderTo`
  | cell (c : Option (Nat × Nat))      -- `CellAt`
  | bool (b : Bool)                    -- `Column(n) != nil`
  | errs (es : List Nat)               -- `Errors()`

/-- API calls on tables and rows, at the granularity of `Model/World.lean` and `Model/Render.lean` -/
inductive Step
  | newRow                                           -- `tabular.NewRow()`
  | rowAdd (r item : Nat)                            -- `row.Add(NewCell(item))`
  | addRow (t r : Nat)
  | addSeparator (t : Nat)
  | addHeaders (t : Nat) (items : List Nat)
  | addRowItems (t : Nat) (items : List Nat)
  | appendNewRow (t : Nat)
  | setProp (o : Target) (k : Key) (v : Option Val)
  | registerCb (o : Target) (tm : Time) (tg : CbTarget) (cb : Cb)
  | wrap (k : WKind) (t : Nat)                       -- `X.Wrap(t)`
  | invokeRenderCallbacks (t : Nat)
  | render (wr : Wrapper)                            -- `wr.RenderTo(w)`
  | cellAt (t : Nat) (r c : Int)
  | hasColumn (t : Nat) (n : Int)
  | rowErrors (r : Nat)
  | tableErrors (t : Nat)

/-- does the step allocate a row (always exactly one, independent of the state) -/
def Step.allocs : Step → Bool
  | .newRow | .addSeparator _ | .addHeaders _ _ | .addRowItems _ _ | .appendNewRow _ => true
  | _ => false

/-- the world after the step -/
def applyW (x : Ext) (w : World) : Step → World
  | .newRow => (w.newRow {}).1
  | .rowAdd r i => rowAdd x.dw w r i
  | .addRow t r => addRow x.dw w t r
  | .addSeparator t => addSeparator w t
  | .addHeaders t items => addHeaders x.dw w t items
  | .addRowItems t items => (addRowItems x.dw w t items).1
  | .appendNewRow t => (appendNewRow x.dw w t).1
  | .setProp o k v => setProp w o k v
  | .registerCb o tm tg cb => (registerCb w o tm tg cb).getD w
  | .wrap k t => wrapEffect w k t
  | .invokeRenderCallbacks t => invokeRenderCallbacks x.dw w t
  | .render wr => (renderTo x w wr).1
  | .cellAt _ _ _ | .hasColumn _ _ | .rowErrors _ | .tableErrors _ => w

/-- what the step returns -/
def applyO (x : Ext) (w : World) : Step → Obs
  | .newRow => .row (w.newRow {}).2
  | .addRowItems t items => .row (addRowItems x.dw w t items).2
  | .appendNewRow t => .row (appendNewRow x.dw w t).2
  | .registerCb o tm tg cb => if (registerCb w o tm tg cb).isSome then .unit else .refused
  | .render wr => .rendered (renderTo x w wr).2
  | .cellAt t r c => .cell (cellAt w t r c)
  | .hasColumn t n => .bool (hasColumn w t n)
  | .rowErrors r => .errs (rowErrors w r)
  | .tableErrors t => .errs (w.table t).errs
  | _ => .unit

/-- the step is called on table `t`, on rows in `P`, with items in `I` -/
def StepOn (t : Nat) (P I : Nat → Prop) : Step → Prop
  | .newRow => True
  | .rowAdd r i => P r ∧ I i
  | .addRow t' r => t' = t ∧ P r
  | .addSeparator t' => t' = t
  | .addHeaders t' items => t' = t ∧ ∀ i ∈ items, I i
  | .addRowItems t' items => t' = t ∧ ∀ i ∈ items, I i
  | .appendNewRow t' => t' = t
  | .setProp o _ _ => TgtOK t P o
  | .registerCb o _ _ _ => TgtOK t P o
  | .wrap _ t' => t' = t
  | .invokeRenderCallbacks t' => t' = t
  | .render wr => wr.core = t
  | .cellAt t' _ _ => t' = t
  | .hasColumn t' _ => t' = t
  | .rowErrors r => P r
  | .tableErrors t' => t' = t

/-- the owner's row set after the step: the fresh id `L` joins it when the step allocates -/
def growP (P : Nat → Prop) (L : Nat) (s : Step) : Nat → Prop :=
  if s.allocs then (fun r => P r ∨ r = L) else P

def Step.nalloc (s : Step) : Nat := if s.allocs then 1 else 0

theorem registerCb_isSome (w w₂ : World) (o : Target) (tm : Time) (tg : CbTarget) (cb : Cb) :
    (registerCb w o tm tg cb).isSome = (registerCb w₂ o tm tg cb).isSome := by
  cases o <;> cases tg <;> rfl

theorem rowOK_default (L : Nat) : RowOK t L I {} :=
  ⟨.inl rfl, trivial, fun _ h => by simp at h⟩

theorem ls_renderTo_world (x : Ext) (wr : Wrapper) (hwr : wr.core = t) :
    LocalStep t P I (fun w => (renderTo x w wr).1) := by
  subst hwr
  unfold renderTo
  cases hk : wr.kind
  case text =>
    simp only []
    by_cases hd : wr.decor = emptyDecoration
    · simp only [hd, if_true]; exact LocalStep.id' _ _ _
    · simp only [hd, if_false]; exact ls_invokeRenderCallbacks x.dw
  all_goals exact ls_invokeRenderCallbacks x.dw

/-- the emitted program of `RenderTo` is a function of the view after the callbacks pass -/
theorem renderTo_out_agree (x : Ext) (wr : Wrapper) {w w₂ : World}
    (hv : ((invokeRenderCallbacks x.dw w wr.core).view wr.core)
        = ((invokeRenderCallbacks x.dw w₂ wr.core).view wr.core)) :
    (renderTo x w wr).2 = (renderTo x w₂ wr).2 := by
  unfold renderTo
  cases hk : wr.kind
  case text =>
    simp only []
    by_cases hd : wr.decor = emptyDecoration
    · simp only [hd, if_true]
    · simp only [hd, if_false, hv]
  all_goals simp only [hv]

end C16
end Tab
