/- C12h helper lemmas: callbacks that write the key — every operation, then whole histories. -/
import Tabmodel.Proofs.C12hW
set_option linter.unusedSimpArgs false
namespace Tab
open World C13 C13x
namespace C12h

variable (f : Nat → Option (Option Val)) (k : Key) (dw : Measure)

theorem directK_plain (w : World) (m : Target → Option Val) (op : BuildOp) (h : plain op = true) :
    directK k w m op = m := by
  cases op <;> first | rfl | (simp [plain] at h)

theorem stepW_snd (w : World) (m : Target → Option Val) (op : BuildOp) :
    (stepW f dw k (w, m) op).2 =
      ((applyOp dw w op).events.drop w.events.length).foldl (evApply f (applyOp dw w op).has) (directK k w m op) := rfl

theorem stepW_fst (w : World) (m : Target → Option Val) (op : BuildOp) :
    (stepW f dw k (w, m) op).1 = applyOp dw w op := rfl

theorem drop_events {w w' : World} {es : List Event} (h : w'.events = w.events ++ es) :
    w'.events.drop w.events.length = es := by
  rw [h, List.drop_left]

theorem drop_events_same {w w' : World} (h : w'.events = w.events) : w'.events.drop w.events.length = [] := by
  rw [h, List.drop_length]

theorem events_registerCb {w w' : World} {o : Target} {tm : Time} {tg : CbTarget} {cb : Cb}
    (e : registerCb w o tm tg cb = some w') : w'.events = w.events := by
  cases o <;> cases tg <;> simp only [registerCb, Option.some.injEq, reduceCtorEq] at e <;> subst e <;> rfl

/-- one operation refines one step of the replay -/
theorem stepW_refines {w : World} (hw : CbsAll (Cb.agrees f k) w) (hn : AllNodup w) (op : BuildOp)
    (hop : op.cbsAll (Cb.agrees f k) = true) (hc : op.cellOk = true) (o : Target) :
    (applyOp dw w op).getProp o k = (stepW f dw k (w, fun o => w.getProp o k) op).2 o := by
  rw [stepW_snd]
  by_cases hp : plain op = true
  · obtain ⟨es, ht⟩ := tracks_applyOp f k dw w op hp
    rw [drop_events ht.events, directK_plain k w _ op hp]
    exact ht.val hw hn o
  · cases op with
    | setProp o' k' v =>
      have hev : (applyOp dw w (.setProp o' k' v)).events = w.events := events_setProp w o' k' v
      rw [drop_events_same hev, List.foldl_nil]
      show (w.setProp o' k' v).getProp o k = directK k w _ (.setProp o' k' v) o
      simp only [directK]
      by_cases hh : k' = k ∧ w.hasObj o'
      · rw [if_pos hh]
        obtain ⟨rfl, ho⟩ := hh
        by_cases e : o = o'
        · subst e
          simp only [if_true]
          rw [getProp_setProp_self w o k' v ho]
          exact chain_get_set _ k' v (.inr (hn o))
        · rw [if_neg e]
          exact getProp_setProp_frame w o' k' v o k' (.inl (fun e' => e e'.symm))
      · rw [if_neg hh]
        by_cases ho : w.hasObj o'
        · have hk : k' ≠ k := fun e => hh ⟨e, ho⟩
          exact getProp_setProp_frame w o' k' v o k (.inr hk)
        · rw [setProp_noobj w o' k' v ho]
    | regCb o' tm tg cb =>
      simp only [applyOp, directK]
      cases e : registerCb w o' tm tg cb with
      | none => simp
      | some w' =>
        simp only [Option.getD_some]
        rw [drop_events_same (events_registerCb e), List.foldl_nil, getProp_eq_get, chainOf_registerCb e,
          ← getProp_eq_get]
    | copyCell r c =>
      simp only [applyOp, directK]
      cases hce : w.cell? r c with
      | none =>
        have : ¬ w.hasObj (.cell r c) := by simp [World.hasObj, hce]
        simp [this]
      | some ce =>
        have : w.hasObj (.cell r c) := by simp [World.hasObj, hce]
        simp only [this, if_true]
        rw [drop_events_same rfl, List.foldl_nil, getProp_eq_get, chainOf_copy]
        split
        · rw [getProp_eq_get]; simp [World.chainOf, hce]
        · rw [getProp_eq_get]
    | rowAddCell r ce =>
      have hc' : ce.props.keys.Nodup := by simpa [BuildOp.cellOk] using hc
      show (rowAddCell dw w r ce).getProp o k = _
      simp only [applyOp, directK]
      by_cases hr : r < w.rows.length
      · cases hcs : (w.row r).cells with
        | none =>
          rw [rowAddCell_nil dw w r ce hcs]
          have ht := silent_of_csame f k (csame_addErrTo w (.rowLazy r) errNonCellRow)
          rw [drop_events ht.events]
          exact ht.val hw hn o
        | some cs =>
          simp only [hr, if_true]
          have ht := tracksEs_rowAddCell_linked f k dw hcs ce
          have hev : (rowAddCell dw w r ce).events =
              w.events ++ userEvents (w.cbsAt (.rowCell r) .add) (.cell r cs.length) := by
            rw [ht.events, rowAddLinked_events]
          rw [drop_events hev, ht.val (cbsAll_rowAddLinked hw hr hcs ce hop) (allNodup_rowAddLinked hn hr hcs ce hc') o]
          have e : (fun o => (rowAddLinked w r ce cs).getProp o k) =
              (fun o' => if o' = Target.cell r cs.length then ce.props.get k else w.getProp o' k) := by
            funext o'
            rw [getProp_eq_get, chainOf_rowAddLinked hr hcs]
            split
            · rfl
            · rw [getProp_eq_get]
          rw [e]
      · have hd := row_default (Nat.le_of_not_lt hr)
        have hcs : (w.row r).cells = some [] := by rw [hd]
        have ht := tracksEs_rowAddCell_linked f k dw hcs ce
        rw [rowAddLinked_noobj (Nat.le_of_not_lt hr)] at ht
        simp only [hcs, hr, if_false]
        rw [drop_events ht.events]
        exact ht.val hw hn o
    | _ => simp [plain] at hp

theorem runW_refines : ∀ (ops : List BuildOp) (w : World) (m : Target → Option Val),
    (∀ o, w.getProp o k = m o) → CbsAll (Cb.agrees f k) w → AllNodup w →
    ops.all (BuildOp.cbsAll (Cb.agrees f k)) = true → ops.all BuildOp.cellOk = true →
    (ops.foldl (stepW f dw k) (w, m)).1 = runFrom dw w ops ∧
    ∀ o, (runFrom dw w ops).getProp o k = (ops.foldl (stepW f dw k) (w, m)).2 o := by
  intro ops
  induction ops with
  | nil => intro w m hv _ _ _ _; exact ⟨rfl, hv⟩
  | cons op ops ih =>
    intro w m hv hw hn hop hc
    simp only [List.all_cons, Bool.and_eq_true] at hop hc
    have hm : m = fun o => w.getProp o k := funext (fun o => (hv o).symm)
    subst hm
    simp only [List.foldl_cons, runFrom]
    have := ih (applyOp dw w op) (stepW f dw k (w, fun o => w.getProp o k) op).2
      (fun o => stepW_refines f k dw hw hn op hop.1 hc.1 o) (cbsAll_applyOp dw hw op hop.1)
      (allNodup_applyOp dw hn op hc.1) hop.2 hc.2
    exact this

theorem foldl_stepW_fst : ∀ (ops : List BuildOp) (w : World) (m : Target → Option Val),
    (ops.foldl (stepW f dw k) (w, m)).1 = runFrom dw w ops := by
  intro ops
  induction ops with
  | nil => intro w m; rfl
  | cons op ops ih => intro w m; simp only [List.foldl_cons, runFrom]; exact ih _ _

theorem lastSetOnCb_snoc (ops : List BuildOp) (op : BuildOp) :
    lastSetOnCb f dw (ops ++ [op]) k = (stepW f dw k (run dw ops, lastSetOnCb f dw ops k) op).2 := by
  funext o
  simp only [lastSetOnCb, List.foldl_append, List.foldl_cons, List.foldl_nil]
  have : (ops.foldl (stepW f dw k) ({}, fun _ => none)) = (run dw ops, lastSetOnCb f dw ops k) := by
    apply Prod.ext
    · exact foldl_stepW_fst f k dw ops {} _
    · rfl
  rw [this]

theorem agrees_none (cb : Cb) : cb.agrees (fun _ => none) k = !cb.writes k := by
  cases cb with
  | setProp id k' v => by_cases h : k' = k <;> simp [Cb.agrees, Cb.writes, h]
  | log id => simp [Cb.agrees, Cb.writes]
  | fail id e => simp [Cb.agrees, Cb.writes]
  | dimSetter => rfl
  | widthSetter => rfl

theorem writersOk_none {ops : List BuildOp} (h : QuietFor k ops) : WritersOk (fun _ => none) k ops := by
  unfold QuietFor at h
  unfold WritersOk
  have : Cb.agrees (fun _ => none) k = fun cb => !cb.writes k := funext (agrees_none k)
  rw [this]; exact h

theorem cbsAll_runFrom {P : Cb → Bool} : ∀ (ops : List BuildOp) (w : World), CbsAll P w →
    ops.all (BuildOp.cbsAll P) = true → CbsAll P (runFrom dw w ops) := by
  intro ops
  induction ops with
  | nil => intro w h _; exact h
  | cons op ops ih =>
    intro w h hop
    simp only [List.all_cons, Bool.and_eq_true] at hop
    exact ih _ (cbsAll_applyOp dw h op hop.1) hop.2

theorem cbsAll_run {P : Cb → Bool} (ops : List BuildOp) (h : ops.all (BuildOp.cbsAll P) = true) :
    CbsAll P (run dw ops) := cbsAll_runFrom dw ops {} (cbsAll_empty P) h

end C12h
end Tab
