/-
  C10cb helper lemmas: C10 for ARBITRARY user callbacks (no `LogOnly`).

  * `X.Wrap` adds only measuring callbacks to a pass: `UserKeysOnly` is kept, in both directions;
  * `CbStable w w'`: same `bare` form (Proofs/StableDefs.lean: every callback set, the log and the three
    private measurement properties forgotten), same column records, `UserKeysOnly` for the same tables;
  * `render_congr_cb`: two worlds so related, both with the measuring callback the renderer needs and
    both `UserKeysOnly`, emit the same program.
-/
import Tabmodel.Props.E2Ecb
set_option linter.unusedSimpArgs false
namespace Tab
open World hiding CellOK
open E2Ecb
namespace C10cb

/-! ### `UserKeysOnly` as a Boolean fold over the schedule -/

def stepsOK (ss : List Step) : Bool := ss.all (fun s => s.cb.userKeyOnly)

theorem userKeysOnly_iff (w : World) (t : Nat) : w.UserKeysOnly t ↔ stepsOK (passSteps w t) = true := by
  unfold World.UserKeysOnly stepsOK
  rw [List.all_eq_true]

theorem stepsOK_append (a b : List Step) : stepsOK (a ++ b) = (stepsOK a && stepsOK b) := by
  unfold stepsOK; rw [List.all_append]

theorem stepsOK_stepsOf (cbs : List Cb) (tgt : Target) (tk : Taker) :
    stepsOK (stepsOf cbs tgt tk) = cbs.all Cb.userKeyOnly := by
  unfold stepsOK stepsOf
  rw [List.all_map]
  rfl

theorem stepsOK_flatMap {α : Type} (l : List α) (f : α → List Step) :
    stepsOK (l.flatMap f) = l.all (fun a => stepsOK (f a)) := by
  unfold stepsOK; rw [List.all_flatMap]

/-! ### what `wrapEffect` changes of a table -/

/-- the callbacks `Wrap` appends to list `tm` of table `c`'s cell callbacks -/
def wrapExtra (w : World) (k : WKind) (t c : Nat) (tm : Time) : List Cb :=
  match wrapCb k with
  | some cb => if (t = c ∧ t < w.tables.length) ∧ tm = .render then [cb] else []
  | none => []

theorem wrapExtra_all (w : World) (k : WKind) (t c : Nat) (tm : Time) :
    (wrapExtra w k t c tm).all Cb.userKeyOnly = true := by
  unfold wrapExtra
  cases k <;> simp only [wrapCb, List.all_nil] <;> split <;> rfl

theorem cellCbs_at_wrapEffect (w : World) (k : WKind) (t c : Nat) (tm : Time) :
    ((w.wrapEffect k t).table c).cellCbs.at tm = (w.table c).cellCbs.at tm ++ wrapExtra w k t c tm := by
  rw [table_wrapEffect]
  unfold wrapExtra
  cases wrapCb k with
  | none => simp
  | some cb =>
    simp only
    by_cases h : t = c ∧ t < w.tables.length
    · obtain ⟨rfl, hlt⟩ := h
      cases tm <;> simp [CbSet.push, CbSet.at, hlt]
    · simp only [h, if_false, false_and, List.append_nil]

theorem selfCbs_wrapEffect (w : World) (k : WKind) (t c : Nat) :
    ((w.wrapEffect k t).table c).selfCbs = (w.table c).selfCbs := by
  rw [table_wrapEffect_skel]

theorem columns_wrapEffect (w : World) (k : WKind) (t c : Nat) :
    ((w.wrapEffect k t).table c).columns = (w.table c).columns := by
  rw [table_wrapEffect_skel]

theorem header_wrapEffect (w : World) (k : WKind) (t c : Nat) :
    ((w.wrapEffect k t).table c).header = (w.table c).header := by
  rw [table_wrapEffect_skel]

theorem rows_wrapEffect (w : World) (k : WKind) (t c : Nat) :
    ((w.wrapEffect k t).table c).rows = (w.table c).rows := by
  rw [table_wrapEffect_skel]

theorem column?_wrapEffect (w : World) (k : WKind) (t c n : Nat) :
    (w.wrapEffect k t).column? c n = w.column? c n := by
  unfold World.column?; rw [columns_wrapEffect]

/-! ### the schedule after a wrap -/

theorem stepsOK_cellSteps_wrapEffect (w : World) (k : WKind) (t c r i : Nat) :
    stepsOK (cellSteps (w.wrapEffect k t) c r i) = stepsOK (cellSteps w c r i) := by
  unfold cellSteps
  simp only [stepsOK_append, stepsOK_stepsOf, row_wrapEffect, cell?_wrapEffect, columnOf_wrapEffect,
    colCellCbs_wrapEffect, cellCbs_at_wrapEffect, List.all_append, wrapExtra_all, Bool.and_true]

theorem stepsOK_rowSteps_wrapEffect (w : World) (k : WKind) (t c r : Nat) :
    stepsOK (rowSteps (w.wrapEffect k t) c r) = stepsOK (rowSteps w c r) := by
  unfold rowSteps
  simp only [stepsOK_append, stepsOK_stepsOf, stepsOK_flatMap, row_wrapEffect, rowCells_wrapEffect,
    stepsOK_cellSteps_wrapEffect]

theorem colsSteps_wrapEffect (w : World) (k : WKind) (t c : Nat) (tm : Time) :
    colsSteps (w.wrapEffect k t) c tm = colsSteps w c tm := by
  unfold colsSteps colSteps
  simp only [columns_wrapEffect, column?_wrapEffect]

theorem stepsOK_passSteps_wrapEffect (w : World) (k : WKind) (t c : Nat) :
    stepsOK (passSteps (w.wrapEffect k t) c) = stepsOK (passSteps w c) := by
  unfold passSteps passRows
  simp only [stepsOK_append, stepsOK_stepsOf, stepsOK_flatMap, selfCbs_wrapEffect, colsSteps_wrapEffect,
    header_wrapEffect, rows_wrapEffect, stepsOK_rowSteps_wrapEffect]

/-- One more wrapper around any table: the passes of the world invoke, besides what they invoked
    before, measuring callbacks only. -/
theorem userKeysOnly_wrapEffect (w : World) (k : WKind) (t c : Nat) :
    (w.wrapEffect k t).UserKeysOnly c ↔ w.UserKeysOnly c := by
  rw [userKeysOnly_iff, userKeysOnly_iff, stepsOK_passSteps_wrapEffect]

/-! ### the relation kept by wraps -/

/-- `w'` shows the same contents and the same column records as `w`, and its passes name a private
    key iff `w`'s do (true of `w` after any wraps) -/
structure CbStable (w w' : World) : Prop where
  bare : w'.bare = w.bare
  cols : ∀ t, (w'.table t).columns = (w.table t).columns
  user : ∀ t, w'.UserKeysOnly t ↔ w.UserKeysOnly t
  needs : ∀ wr, Needs w wr → Needs w' wr
  ntables : w'.tables.length = w.tables.length

theorem CbStable.refl (w : World) : CbStable w w := ⟨rfl, fun _ => rfl, fun _ => Iff.rfl, fun _ h => h, rfl⟩

theorem CbStable.trans {a b c : World} (h1 : CbStable a b) (h2 : CbStable b c) : CbStable a c :=
  ⟨h2.bare.trans h1.bare, fun t => (h2.cols t).trans (h1.cols t), fun t => (h2.user t).trans (h1.user t),
   fun wr h => h2.needs wr (h1.needs wr h), h2.ntables.trans h1.ntables⟩

theorem CbStable.wrap (w : World) (k : WKind) (t : Nat) : CbStable w (w.wrapEffect k t) :=
  ⟨bare_wrapEffect w k t, fun c => columns_wrapEffect w k t c, fun c => userKeysOnly_wrapEffect w k t c,
   fun wr h => needs_wrapEffect w k t wr h, ntables_wrapEffect w k t⟩

theorem cbStable_wraps (t : Nat) (ks : List WKind) (w : World) :
    CbStable w (ks.foldl (fun w k => w.wrapEffect k t) w) := by
  suffices h : ∀ w', CbStable w w' → CbStable w (ks.foldl (fun w k => w.wrapEffect k t) w') from
    h w (CbStable.refl w)
  induction ks with
  | nil => intro w' h; exact h
  | cons k ks ih =>
    intro w' h
    rw [List.foldl_cons]
    exact ih _ (h.trans (CbStable.wrap w' k t))

/-! ### rendering two related worlds -/

theorem canonView_of_bare (dw : Measure) (tt md : Bool) {w1 w2 : World} (hb : w1.bare = w2.bare) (t : Nat) :
    canonView dw tt md w1 t = canonView dw tt md w2 t := by
  rw [← canonView_bare dw tt md w1, hb, canonView_bare]

/-- the column properties the renderer reads after its pass depend on the column records only -/
theorem postCols_congr (dw : Measure) {w1 w2 : World} (t : Nat) (hc : (w1.table t).columns = (w2.table t).columns) :
    ((invokeRenderCallbacks dw w1 t).view t).colAlign = ((invokeRenderCallbacks dw w2 t).view t).colAlign ∧
    ((invokeRenderCallbacks dw w1 t).view t).colSkip = ((invokeRenderCallbacks dw w2 t).view t).colSkip := by
  constructor
  · show ((invokeRenderCallbacks dw w1 t).table t).columns.map (·.props.get .align) =
      ((invokeRenderCallbacks dw w2 t).table t).columns.map (·.props.get .align)
    rw [irc_colGet, irc_colGet, hc]
  · show ((invokeRenderCallbacks dw w1 t).table t).columns.map (·.props.get .skipable) =
      ((invokeRenderCallbacks dw w2 t).table t).columns.map (·.props.get .skipable)
    rw [irc_colGet, irc_colGet, hc]

/-- the view with every measurement field masked is a function of `bare` -/
theorem view_mask_of_bare (dw : Measure) {w1 w2 : World} (hb : w1.bare = w2.bare) (t : Nat) :
    (w1.view t).mapCells (RCell.mask false false) = (w2.view t).mapCells (RCell.mask false false) := by
  have hM : ∀ w : World, MeasAll dw false false w t :=
    fun w r _ ce _ => ⟨fun h => Bool.noConfusion h, fun h => Bool.noConfusion h⟩
  rw [view_mask_eq_canon dw false false w1 t (hM w1), view_mask_eq_canon dw false false w2 t (hM w2),
    canonView_of_bare dw false false hb t]

theorem mapCells_withCols (m : RCell → RCell) (v : RTable) (a s : List (Option Val)) :
    (v.withCols a s).mapCells m = (v.mapCells m).withCols a s := rfl

/-- Two worlds with the same `bare` form and the same column records of the core table, both with
    the measuring callback the renderer needs and with user callbacks that name no private key —
    but otherwise ARBITRARY: setting user keys, `align`, `skipable` on anything, failing — emit the
    same program. -/
theorem render_congr_cb (x : Ext) (w1 w2 : World) (wr : Wrapper) (hb : w1.bare = w2.bare)
    (hc : (w1.table wr.core).columns = (w2.table wr.core).columns)
    (hU1 : w1.UserKeysOnly wr.core) (hU2 : w2.UserKeysOnly wr.core) (hN1 : Needs w1 wr) (hN2 : Needs w2 wr) :
    (renderTo x w1 wr).2 = (renderTo x w2 wr).2 := by
  obtain ⟨ha, hs⟩ := postCols_congr x.dw wr.core hc
  cases hk : wr.kind with
  | text =>
    by_cases hd : wr.decor = emptyDecoration
    · unfold renderTo; rw [hk]; simp only [hd, if_true]
    · rw [(e2ecb_measured_view x w1 wr hU1 hN1).1 hk hd, (e2ecb_measured_view x w2 wr hU2 hN2).1 hk hd,
        canonView_of_bare x.dw true false hb, ha, hs]
  | markdown =>
    rw [(e2ecb_measured_view x w1 wr hU1 hN1).2 hk, (e2ecb_measured_view x w2 wr hU2 hN2).2 hk,
      canonView_of_bare x.dw false true hb, ha, hs]
  | csv =>
    rw [(e2ecb_render_unmeasured x w1 wr).1 hk, (e2ecb_render_unmeasured x w2 wr).1 hk,
      ← renderCsv_mapCells (RCell.mask false false) (fun _ => rfl) (w1.view wr.core),
      view_mask_of_bare x.dw hb, renderCsv_mapCells (RCell.mask false false) (fun _ => rfl)]
  | html =>
    rw [(e2ecb_render_unmeasured x w1 wr).2.1 hk, (e2ecb_render_unmeasured x w2 wr).2.1 hk,
      ← renderHtml_mapCells wr.html (RCell.mask false false) (fun _ => rfl) (w1.view wr.core),
      view_mask_of_bare x.dw hb, renderHtml_mapCells wr.html (RCell.mask false false) (fun _ => rfl)]
  | json =>
    rw [(e2ecb_render_unmeasured x w1 wr).2.2 hk, (e2ecb_render_unmeasured x w2 wr).2.2 hk, ha, hs,
      ← renderJson_mapCells x.js (RCell.mask false false) (fun _ => rfl) (fun _ => rfl) (fun _ => rfl)
        ((w1.view wr.core).withCols _ _),
      mapCells_withCols, view_mask_of_bare x.dw hb, ← mapCells_withCols,
      renderJson_mapCells x.js (RCell.mask false false) (fun _ => rfl) (fun _ => rfl) (fun _ => rfl)]

/-- the output of a render is the same from every world `CbStable`-related to `w` -/
theorem CbStable.render_eq {w w' : World} (h : CbStable w w') (x : Ext) (wr : Wrapper)
    (hU : w.UserKeysOnly wr.core) (hN : Needs w wr) : (renderTo x w' wr).2 = (renderTo x w wr).2 :=
  render_congr_cb x w' w wr h.bare (h.cols wr.core) ((h.user wr.core).mpr hU) hU (h.needs wr hN) hN

end C10cb
end Tab
