/- Helper lemmas for C17/C19: `register` / `named` / `names` on the association list. -/
import Tabmodel.Proofs.RegOrder
namespace Tab
namespace Registry

@[simp] theorem named_nil (n : Bytes) : named [] n = emptyDecoration := rfl

theorem named_cons (p : Bytes × Decoration) (r : Registry) (n : Bytes) :
    named (p :: r) n = if p.1 = n then p.2 else named r n := by
  unfold named
  rw [List.find?_cons]
  by_cases h : p.1 = n
  · simp [h]
  · have : (p.1 == n) = false := by simpa using h
    simp [this, h]

theorem named_filter_ne (r : Registry) {n m : Bytes} (h : m ≠ n) :
    named (r.filter (fun p => p.1 != n)) m = named r m := by
  induction r with
  | nil => rfl
  | cons p r ih =>
    rw [List.filter_cons]
    by_cases hp : p.1 = n
    · have hpm : ¬ p.1 = m := by rw [hp]; exact fun e => h e.symm
      simp only [hp, bne_self_eq_false, Bool.false_eq_true, if_false]
      rw [ih, named_cons, if_neg hpm]
    · have : (p.1 != n) = true := by simpa using hp
      simp only [this, if_true]
      rw [named_cons, named_cons, ih]

theorem named_register (r : Registry) (n : Bytes) (d : Decoration) (m : Bytes) :
    named (register r n d) m = if m = n then d else named r m := by
  unfold register
  rw [named_cons]
  by_cases h : m = n
  · subst h; simp
  · have h' : ¬ n = m := fun e => h e.symm
    simp only [h, h', if_false]
    exact named_filter_ne r h

theorem named_register_self (r : Registry) (n : Bytes) (d : Decoration) :
    named (register r n d) n = d := by rw [named_register, if_pos rfl]

theorem named_register_ne (r : Registry) {n m : Bytes} (d : Decoration) (h : m ≠ n) :
    named (register r n d) m = named r m := by rw [named_register, if_neg h]

/-- a name that is not a key resolves to the empty decoration -/
theorem named_of_not_mem {r : Registry} {n : Bytes} (h : n ∉ r.map Prod.fst) :
    named r n = emptyDecoration := by
  induction r with
  | nil => rfl
  | cons p r ih =>
    rw [List.map_cons, List.mem_cons, not_or] at h
    rw [named_cons, if_neg (fun e => h.1 e.symm)]
    exact ih h.2

/-- with duplicate-free keys, a stored pair is what `named` returns -/
theorem named_of_mem {r : Registry} {n : Bytes} {d : Decoration}
    (hnd : (r.map Prod.fst).Nodup) (h : (n, d) ∈ r) : named r n = d := by
  induction r with
  | nil => cases h
  | cons p r ih =>
    rw [List.map_cons, List.nodup_cons] at hnd
    rw [named_cons]
    rcases List.mem_cons.mp h with rfl | h
    · simp
    · have : p.1 ≠ n := by
        intro e; apply hnd.1; rw [e]; exact List.mem_map_of_mem (f := Prod.fst) h
      rw [if_neg this]; exact ih hnd.2 h

/-- what `named` returns, when not empty, is stored under that name -/
theorem mem_of_named_ne_empty {r : Registry} {n : Bytes} (h : named r n ≠ emptyDecoration) :
    (n, named r n) ∈ r := by
  induction r with
  | nil => exact absurd rfl h
  | cons p r ih =>
    rw [named_cons] at h ⊢
    by_cases hp : p.1 = n
    · rw [if_pos hp]; rw [← hp]; exact List.mem_cons_self
    · rw [if_neg hp] at h ⊢; exact List.mem_cons_of_mem _ (ih h)

/-- for a key, what `named` returns is stored under that key (the first such entry) -/
theorem mem_of_mem_keys {r : Registry} {n : Bytes} (h : n ∈ r.map Prod.fst) : (n, named r n) ∈ r := by
  induction r with
  | nil => cases h
  | cons p r ih =>
    rw [named_cons]
    by_cases hp : p.1 = n
    · rw [if_pos hp, ← hp]; exact List.mem_cons_self
    · rw [if_neg hp]
      rw [List.map_cons, List.mem_cons] at h
      rcases h with h | h
      · exact absurd h.symm hp
      · exact List.mem_cons_of_mem _ (ih h)

/-! ### keys -/

theorem keys_filter (r : Registry) (n : Bytes) :
    (r.filter (fun p => p.1 != n)).map Prod.fst = (r.map Prod.fst).filter (fun k => k != n) := by
  induction r with
  | nil => rfl
  | cons p r ih =>
    rw [List.filter_cons, List.map_cons, List.filter_cons]
    cases hp : (p.1 != n)
    · simp only [Bool.false_eq_true, if_false, ih]
    · simp only [if_true, List.map_cons, ih]

theorem keys_register (r : Registry) (n : Bytes) (d : Decoration) :
    (register r n d).map Prod.fst = n :: (r.map Prod.fst).filter (fun k => k != n) := by
  unfold register; rw [List.map_cons, keys_filter]

theorem mem_keys_register {r : Registry} {n : Bytes} {d : Decoration} {m : Bytes} :
    m ∈ (register r n d).map Prod.fst ↔ m = n ∨ m ∈ r.map Prod.fst := by
  rw [keys_register, List.mem_cons, List.mem_filter]
  constructor
  · rintro (h | h)
    · exact .inl h
    · exact .inr h.1
  · rintro (h | h)
    · exact .inl h
    · by_cases e : m = n
      · exact .inl e
      · exact .inr ⟨h, by simpa using e⟩

/-- `register` keeps the keys duplicate-free (the Go map has one slot per key) -/
theorem nodup_register {r : Registry} (h : (r.map Prod.fst).Nodup) (n : Bytes) (d : Decoration) :
    ((register r n d).map Prod.fst).Nodup := by
  rw [keys_register, List.nodup_cons]
  refine ⟨?_, h.filter _⟩
  intro hm
  have := (List.mem_filter.mp hm).2
  simp at this

/-- overwriting: the earlier registration of the same name leaves no trace at all -/
theorem register_register_same (r : Registry) (n : Bytes) (d₁ d₂ : Decoration) :
    (r.register n d₁).register n d₂ = r.register n d₂ := by
  unfold register
  rw [List.filter_cons]
  simp only [bne_self_eq_false, Bool.false_eq_true, if_false, List.filter_filter, Bool.and_self]

/-! ### names -/

theorem mem_names {r : Registry} {m : Bytes} : m ∈ names r ↔ m ∈ r.map Prod.fst := mem_sortBytes

theorem names_sorted (r : Registry) : (names r).Pairwise BLe := sortBytes_sorted _

theorem names_strict {r : Registry} (h : (r.map Prod.fst).Nodup) : (names r).Pairwise BLt :=
  sortBytes_strict h

theorem names_nodup {r : Registry} (h : (r.map Prod.fst).Nodup) : (names r).Nodup :=
  sortBytes_nodup h

/-! ### observational equivalence of registries -/

/-- two registries that no sequence of operations can tell apart -/
def ObsEq (r r' : Registry) : Prop :=
  (r.map Prod.fst).Perm (r'.map Prod.fst) ∧ ∀ k, named r k = named r' k

theorem ObsEq.refl (r : Registry) : ObsEq r r := ⟨List.Perm.refl _, fun _ => rfl⟩

theorem ObsEq.names {r r' : Registry} (h : ObsEq r r') : names r = names r' :=
  sortBytes_eq_of_perm h.1

theorem ObsEq.register {r r' : Registry} (h : ObsEq r r') (n : Bytes) (d : Decoration) :
    ObsEq (register r n d) (register r' n d) := by
  refine ⟨?_, fun k => ?_⟩
  · rw [keys_register, keys_register]
    exact List.Perm.cons n (h.1.filter _)
  · rw [named_register, named_register, h.2 k]

/-- registrations of distinct names commute up to observational equivalence -/
theorem register_comm_obsEq (r : Registry) {n m : Bytes} (hnm : n ≠ m) (d e : Decoration) :
    ObsEq ((r.register n d).register m e) ((r.register m e).register n d) := by
  refine ⟨?_, fun k => ?_⟩
  · rw [keys_register, keys_register, keys_register, keys_register]
    have h1 : (n != m) = true := by simpa using hnm
    have h2 : (m != n) = true := by simpa using fun e => hnm e.symm
    rw [List.filter_cons, List.filter_cons]
    simp only [h1, h2, if_true, List.filter_filter]
    refine (List.Perm.swap n m _).trans (List.Perm.cons n (List.Perm.cons m ?_))
    apply List.Perm.of_eq
    apply List.filter_congr
    intro x _; exact Bool.and_comm _ _
  · rw [named_register, named_register, named_register, named_register]
    by_cases hk : k = m
    · subst hk
      have : ¬ k = n := fun e => hnm e.symm
      simp [this]
    · simp [hk]

end Registry
end Tab
