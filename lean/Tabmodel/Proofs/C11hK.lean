/- C11, history level — splitting a history, and the history sum as a sum over positions. -/
import Tabmodel.Proofs.C11hJ
namespace Tab
open World

/-- rows in the store after a history started with `n` rows -/
def rowsFrom (n : Nat) : List BuildOp → Nat
  | [] => n
  | op :: ops => rowsFrom (n + op.newRows) ops

theorem validFrom_append (s : Shape) (a b : List BuildOp) :
    s.validFrom (a ++ b) = (s.validFrom a && (s.runFrom a).validFrom b) := by
  induction a generalizing s with
  | nil => simp [Shape.validFrom, Shape.runFrom]
  | cons op a ih =>
    simp only [List.cons_append, Shape.validFrom, ih, Bool.and_assoc]
    rfl

theorem hdrSafeFrom_append (n : Nat) (hs : List Nat) (a b : List BuildOp) :
    hdrSafeFrom n hs (a ++ b)
      = (hdrSafeFrom n hs a && hdrSafeFrom (rowsFrom n a) (hdrIdsFrom n hs a) b) := by
  induction a generalizing n hs with
  | nil => simp [hdrSafeFrom, rowsFrom, hdrIdsFrom]
  | cons op a ih =>
    simp only [List.cons_append, hdrSafeFrom, ih, Bool.and_assoc, rowsFrom, hdrIdsFrom]

theorem rows_length_runFrom (dw : Measure) (w : World) (a : List BuildOp) :
    (runFrom dw w a).rows.length = rowsFrom w.rows.length a := by
  induction a generalizing w with
  | nil => rfl
  | cons op a ih =>
    have e1 : runFrom dw w (op :: a) = runFrom dw (applyOp dw w op) a := rfl
    rw [e1, ih, rows_length_step]; rfl

theorem runFrom_append (dw : Measure) (w : World) (a b : List BuildOp) :
    runFrom dw w (a ++ b) = runFrom dw (runFrom dw w a) b := by
  simp [runFrom, List.foldl_append]

/-- the recursive history sum is the sum, over the positions of the history, of what the
    operation at that position raises in the world built by the operations before it -/
theorem raisedFrom_eq_sum (dw : Measure) (e : Nat) (w : World) (ops : List BuildOp) :
    raisedFrom dw e w ops =
      ((List.range ops.length).map
        (fun i => raisedBy dw (runFrom dw w (ops.take i)) (ops[i]?.getD .newTable) e)).sum := by
  induction ops generalizing w with
  | nil => rfl
  | cons op ops ih =>
    rw [raisedFrom, ih, List.length_cons, List.range_succ_eq_map]
    simp only [List.map_cons, List.sum_cons, List.map_map]
    congr 1

theorem ledgerFrom_snd_sum (dw : Measure) (e : Nat) (w : World) (ops : List BuildOp) :
    ((ledgerFrom dw e w ops).map (·.2)).sum = raisedFrom dw e w ops := by
  induction ops generalizing w with
  | nil => rfl
  | cons op ops ih => simp only [ledgerFrom, raisedFrom, List.map_cons, List.sum_cons, ih]

end Tab
