/-
  Definitions for C19e (`Props/C19e.lean`): the decidable predicate `GoodTable w t` — "a well-formed
  table", i.e. one that EVERY renderer (csv, html, markdown, json, texttable) accepts — written on the
  world (tables, rows, cells, items, column properties, callbacks), not on the render view.
  Definitions only.
-/
import Tabmodel.Proofs.StableDefs
import Tabmodel.Spec.Json
namespace Tab

/-- an alignment property in its documented domain: unset, or left (1) / right (2) / centre (3) -/
def alignValOK : Option Val → Bool
  | none => true
  | some (.align a) => a == 1 || a == 2 || a == 3
  | some _ => false

namespace World

/-- the header texts of table `t` (`[]` when there is no header) -/
def headerTexts (w : World) (t : Nat) : List Bytes :=
  match (w.table t).header with
  | none => []
  | some hr => (w.rowCells hr).map (·.str)

/-- A well-formed table:
    * it exists and has at least one column;
    * it has a header, with exactly `nColumns` cells, whose texts are non-empty and pairwise
      distinct (what the JSON renderer wants for object keys; markdown wants the header);
    * the item of every cell of every row marshals (`json.Marshal` succeeds);
    * the `Skipable` property of every column (incl. the defaults column 0) is unset or a bool;
    * the alignment property of every column is unset or left / right / centre;
    * its render-time user callbacks only log (`LogOnly`: none fails, none mutates).
    That header and rows have at most `nColumns` cells is NOT asked: it is the structural invariant
    (`Inv`, C02), which every valid build history establishes. -/
def GoodTable (w : World) (t : Nat) : Prop :=
  t < w.tables.length ∧
  1 ≤ (w.table t).nColumns ∧
  (w.table t).header.isSome = true ∧
  (w.headerTexts t).length = (w.table t).nColumns ∧
  [] ∉ w.headerTexts t ∧
  (w.headerTexts t).Nodup ∧
  (∀ r ∈ (w.table t).rows, ∀ ce ∈ w.rowCells r, (w.item ce.item).json ≠ none) ∧
  (∀ c ∈ (w.table t).columns, boolOrNone (c.props.get .skipable) = true) ∧
  (∀ c ∈ (w.table t).columns, alignValOK (c.props.get .align) = true) ∧
  LogOnly w t

instance (w : World) (t : Nat) : Decidable (GoodTable w t) := by unfold GoodTable; infer_instance

end World
end Tab
