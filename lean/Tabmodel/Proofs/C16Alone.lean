/-
  C16 helpers, part 13: an interleaved run compared with the run of A alone, in which every call of A is made
  on the row handles that A's own earlier calls returned in that run (`runAlone`).
-/
import Tabmodel.Proofs.C16SimApply
namespace Tab
namespace C16
open World

/-- A alone.  The first world follows the whole schedule and is only used to know which id each of A's
    allocations received there; `ρ` maps those ids to the ids the same allocations receive when A runs
    alone in the second world.  B's steps are not executed in the second world at all. -/
def runAlone (x : Ext) : World → World → (Nat → Nat) → Sched → World × List Obs
  | _, W₂, _, [] => (W₂, [])
  | W, W₂, ρ, (true, s) :: rest =>
    let r := runAlone x (applyW x W s) (applyW x W₂ (renStep ρ s))
      (updS ρ W.rows.length W₂.rows.length s) rest
    (r.1, applyO x W₂ (renStep ρ s) :: r.2)
  | W, W₂, ρ, (false, s) :: rest => runAlone x (applyW x W s) W₂ ρ rest

theorem alone_main (x : Ext) {a b : Nat} (hab : a ≠ b) (I : Sched) :
    ∀ (W W₂ : World) (ρ : Nat → Nat) (Ra Rb : List Nat),
      Inv a (· ∈ Ra) anyItem W → Inv b (· ∈ Rb) anyItem W → (∀ r ∈ Ra, r ∉ Rb) →
      Sim ρ a (· ∈ Ra) anyItem W W₂ → ValidRun x a b W Ra Rb I →
      (∃ ρ', Sim ρ' a (· ∈ ownedAfter x W Ra I) anyItem (runI x W I).1 (runAlone x W W₂ ρ I).1) ∧
      (runAlone x W W₂ ρ I).2.map Obs.erase = (runI x W I).2.map Obs.erase ∧
      Inv a (· ∈ ownedAfter x W Ra I) anyItem (runI x W I).1 := by
  induction I with
  | nil => intro W W₂ ρ Ra Rb ia _ _ hs _; exact ⟨⟨ρ, hs⟩, rfl, ia⟩
  | cons p rest ih =>
    intro W W₂ ρ Ra Rb ia ib hd hs hv
    obtain ⟨g, s⟩ := p
    cases g with
    | true =>
      obtain ⟨hon, hv'⟩ := hv
      have res := apply_local x s ia hon
      obtain ⟨s1, ob⟩ := apply_sim x s ia hs hon
      have ia1 : Inv a (· ∈ grow Ra W.rows.length s) anyItem (applyW x W s) :=
        res.inv.congr (fun _ => mem_grow)
      have ib1 : Inv b (· ∈ Rb) anyItem (applyW x W s) :=
        inv_of_frame ib res.frame (Ne.symm hab) (fun r hr hr' => hd r hr' hr)
      have hd1 : ∀ r ∈ grow Ra W.rows.length s, r ∉ Rb := by
        intro r hr hrb
        have := mem_grow.1 hr
        unfold growP at this
        split at this
        · rcases this with h1 | rfl
          · exact hd r h1 hrb
          · exact Nat.lt_irrefl _ (ib.inrange _ hrb)
        · exact hd r this hrb
      have s1' := s1.mono (P' := (· ∈ grow Ra W.rows.length s)) (fun _ hr => mem_grow.1 hr)
      obtain ⟨c1, c2, c3⟩ := ih _ _ _ _ _ ia1 ib1 hd1 s1' hv'
      refine ⟨c1, ?_, c3⟩
      show (applyO x W₂ (renStep ρ s) :: _).map Obs.erase = (applyO x W s :: _).map Obs.erase
      simp only [List.map_cons, ob]
      exact congrArg _ c2
    | false =>
      obtain ⟨hon, hv'⟩ := hv
      have res := apply_local x s ib hon
      have hd' : ∀ r, r ∈ Ra → ¬ r ∈ Rb := hd
      have ia1 : Inv a (· ∈ Ra) anyItem (applyW x W s) := inv_of_frame ia res.frame hab hd'
      have ag0 : Agree a (· ∈ Ra) anyItem (applyW x W s) W := agree_of_frame ia res.frame hab hd'
      have ib1 : Inv b (· ∈ grow Rb W.rows.length s) anyItem (applyW x W s) :=
        res.inv.congr (fun _ => mem_grow)
      have hd1 : ∀ r ∈ Ra, r ∉ grow Rb W.rows.length s := by
        intro r hr hrb
        have := mem_grow.1 hrb
        unfold growP at this
        split at this
        · rcases this with h1 | rfl
          · exact hd r hr h1
          · exact Nat.lt_irrefl _ (ia.inrange _ hr)
        · exact hd r hr this
      exact ih _ _ _ _ _ ia1 ib1 hd1 (Sim.of_agree_left ag0 hs) hv'

/-! ### programs without explicit row handles -/

theorem renTarget_of_noRows (ρ : Nat → Nat) (o : Target) (h : tgtRows o = []) : renTarget ρ o = o := by
  cases o <;> simp_all [tgtRows, renTarget]

theorem renStep_of_noRows (ρ : Nat → Nat) (s : Step) (h : s.rowArgs = []) : renStep ρ s = s := by
  cases s <;> simp_all [Step.rowArgs, renStep, renTarget_of_noRows]

theorem runAlone_noRows (x : Ext) (I : Sched) (h : ∀ p ∈ I, p.1 = true → p.2.rowArgs = []) :
    ∀ (W W₂ : World) (ρ : Nat → Nat), runAlone x W W₂ ρ I = run x W₂ (projA I) := by
  induction I with
  | nil => intro _ _ _; rfl
  | cons p rest ih =>
    intro W W₂ ρ
    obtain ⟨g, s⟩ := p
    have ih' := ih (fun q hq => h q (by simp [hq]))
    cases g with
    | true =>
      have hs : renStep ρ s = s := renStep_of_noRows ρ s (h (true, s) (by simp) rfl)
      simp only [runAlone, hs, ih']
      rfl
    | false =>
      simp only [runAlone, ih']
      rfl

end C16
end Tab
