/- C03 / C04: what the measuring callback (`World.dimProps`, texttable `dimensionSetter`) establishes. -/
import Tabmodel.Proofs.TextLayout
namespace Tab
open World

theorem zipWith_map_mk (ls : List Bytes) (f : Bytes → Int) :
    List.zipWith (fun l w => ({ s := l, w := w } : WidthString)) ls (ls.map f)
      = ls.map (fun l => { s := l, w := f l }) := by
  induction ls with
  | nil => rfl
  | cons l t ih => simp [ih]

theorem termWidth_nonneg (c : Cell) : 0 ≤ c.termWidth := by
  unfold Cell.termWidth; split <;> omega

/-- the width `dimProps` lays line `l` out with -/
def dimLineW (dw : Measure) (it : Item) (c : Cell) (l : Bytes) : Int :=
  if it.mWidth.isSome && c.lines.length == 1 then c.termWidth else ((dw l : Nat) : Int)

/-- what `dimProps` computes, spelled out -/
theorem dimProps_eq (dw : Measure) (it : Item) (c : Cell) :
    dimProps dw it c =
      (Val.dims c.termWidth c.hgt,
       Val.lws ((c.lines.map (fun l => ({ s := l, w := dimLineW dw it c l } : WidthString)))
             ++ List.replicate (max c.hgt.toNat c.lines.length - c.lines.length) blankWS)) := rfl

/-- C03/C04: the measuring callback establishes `CellOK` for the view cell it fills. -/
theorem dimProps_cellOK (dw : Measure) (it : Item) (c : Cell) (rc : RCell) (h : Int)
    (ht : rc.text = c.str) (hd : (dimProps dw it c).1 = .dims rc.cellWidth h)
    (hl : (dimProps dw it c).2 = .lws rc.lws) : CellOK dw rc := by
  rw [dimProps_eq] at hd hl
  simp only [Val.dims.injEq, Val.lws.injEq] at hd hl
  refine ⟨by rw [← hd.1]; exact termWidth_nonneg c, (lines rc.text).map (dimLineW dw it c),
    max c.hgt.toNat c.lines.length - c.lines.length, by simp, ?_, ?_, ?_⟩
  · rw [← hl, zipWith_map_mk, ht]; rfl
  · intro w hw
    obtain ⟨l, _, rfl⟩ := List.mem_map.mp hw
    unfold dimLineW; split
    · exact termWidth_nonneg c
    · omega
  · by_cases hdec : (it.mWidth.isSome && c.lines.length == 1) = true
    · right
      have hlen : (lines rc.text).length = 1 := by
        rw [ht]; simp at hdec; exact hdec.2
      refine ⟨hlen, ?_⟩
      match hls : lines rc.text, hlen with
      | [l], _ => simp [dimLineW, hdec, hd.1]
    · left
      apply List.map_congr_left
      intro l _
      simp [dimLineW, hdec]

/-- fit, case 1: no declared width and the cell's width is the measured longest line
    (what `Cell.update` stores for every item that is not itself a `tabular.Cell`) -/
theorem dimProps_fits_measured (dw : Measure) (it : Item) (c : Cell) (rc : RCell) (h : Int)
    (hd : (dimProps dw it c).1 = .dims rc.cellWidth h)
    (hl : (dimProps dw it c).2 = .lws rc.lws)
    (hnd : it.mWidth = none) (hw : c.width = (longestLine dw c.str : Nat)) : CellFits rc := by
  rw [dimProps_eq] at hd hl
  simp only [Val.dims.injEq, Val.lws.injEq] at hd hl
  intro x hx
  rw [← hl] at hx
  rw [← hd.1]
  have htw : c.termWidth = (longestLine dw c.str : Nat) := by
    unfold Cell.termWidth; rw [hw]; split <;> omega
  rcases List.mem_append.mp hx with hx | hx
  · obtain ⟨l, hlm, rfl⟩ := List.mem_map.mp hx
    simp only [dimLineW, hnd, Option.isSome_none, Bool.false_and, Bool.false_eq_true, if_false]
    rw [htw, longestLine_eq]
    unfold Cell.lines at hlm
    exact Int.ofNat_le.mpr (le_maxNat ((lines c.str).map dw) (dw l) (List.mem_map.mpr ⟨l, hlm, rfl⟩))
  · rw [List.eq_of_mem_replicate hx]; simp only [blankWS]; exact termWidth_nonneg c

/-- fit, case 2: a single text line (declared width or not, provided the width is declared
    or measured) -/
theorem dimProps_fits_single_declared (dw : Measure) (it : Item) (c : Cell) (rc : RCell) (h : Int)
    (hd : (dimProps dw it c).1 = .dims rc.cellWidth h)
    (hl : (dimProps dw it c).2 = .lws rc.lws)
    (hdec : it.mWidth.isSome = true) (h1 : c.lines.length = 1) : CellFits rc := by
  rw [dimProps_eq] at hd hl
  simp only [Val.dims.injEq, Val.lws.injEq] at hd hl
  intro x hx
  rw [← hl] at hx
  rw [← hd.1]
  rcases List.mem_append.mp hx with hx | hx
  · obtain ⟨l, hlm, rfl⟩ := List.mem_map.mp hx
    simp [dimLineW, hdec, h1]
  · rw [List.eq_of_mem_replicate hx]; simp only [blankWS]; exact termWidth_nonneg c

/-- C04 declared width: a single-line item declaring width `dd` is laid out as `max dd 0` wide,
    and that is also the cell width the column is widened by -/
theorem dimProps_declared_width (dw : Measure) (it : Item) (c : Cell) (l : Bytes) (dd : Int)
    (hdec : it.mWidth.isSome = true) (hw : c.width = dd) (h1 : c.lines = [l]) :
    dimProps dw it c = (.dims (max dd 0) c.hgt,
      .lws ({ s := l, w := max dd 0 } :: List.replicate (c.hgt.toNat - 1) blankWS)) := by
  have htw : c.termWidth = max dd 0 := by
    unfold Cell.termWidth; rw [hw]; split <;> omega
  rw [dimProps_eq, h1]
  simp only [List.map_cons, List.map_nil, dimLineW, h1, hdec, htw, List.length_singleton]
  simp only [beq_self_eq_true, Bool.and_self, if_true, List.cons_append, List.nil_append]
  congr 4
  omega

/-- C04 declared height: the measured line list has `max (height) (number of text lines)` entries -/
theorem dimProps_lws_length (dw : Measure) (it : Item) (c : Cell) (ls : List WidthString)
    (hl : (dimProps dw it c).2 = .lws ls) : ls.length = max c.hgt.toNat c.lines.length := by
  rw [dimProps_eq] at hl
  simp only [Val.lws.injEq] at hl
  rw [← hl]; simp; omega

theorem hgt_of_height (c : Cell) (h : 1 ≤ c.height) : c.hgt = c.height := by
  unfold Cell.hgt; split <;> omega

/-! ### what `Cell.update` stores -/

theorem update_width_declared (dw : Measure) (it : Item) (c : Cell) (hp : it.plain) (dd : Int)
    (hd : it.mWidth = some dd) : (Cell.update dw it c).width = dd := by
  unfold Cell.update
  obtain ⟨h1, h2⟩ := hp
  cases hk : it.kind with
  | nil => exact absurd hk h2
  | cell s w h e => exact absurd hk (h1 s w h e)
  | str s => simp [sizeWidth, hd]
  | rune r => simp [sizeWidth, hd]
  | other => simp [sizeWidth, hd]

theorem update_height_declared (dw : Measure) (it : Item) (c : Cell) (hp : it.plain) (hh : Int)
    (hd : it.mHeight = some hh) : (Cell.update dw it c).height = hh := by
  unfold Cell.update
  obtain ⟨h1, h2⟩ := hp
  cases hk : it.kind with
  | nil => exact absurd hk h2
  | cell s w h e => exact absurd hk (h1 s w h e)
  | str s => simp [sizeHeight, hd]
  | rune r => simp [sizeHeight, hd]
  | other => simp [sizeHeight, hd]

theorem tt_lines_nil : lines [] = [] := by decide

theorem ite_beq_nil (s : Bytes) (f : Bytes → Nat) (h0 : f [] = 0) :
    (if (s == []) = true then (0 : Int) else ((f s : Nat) : Int)) = ((f s : Nat) : Int) := by
  by_cases hs : s = []
  · subst hs; simp [h0]
  · simp [hs]

theorem update_width_measured (dw : Measure) (it : Item) (c : Cell) (h1 : ∀ s w h e, it.kind ≠ .cell s w h e)
    (hd : it.mWidth = none) :
    (Cell.update dw it c).width = (longestLine dw (Cell.update dw it c).str : Nat) := by
  have l0 : longestLine dw [] = 0 := by simp [longestLine, tt_lines_nil]
  unfold Cell.update
  cases hk : it.kind with
  | nil => simp [l0]
  | cell s w h e => exact absurd hk (h1 s w h e)
  | str s => simp only [sizeWidth, hd]; exact ite_beq_nil _ _ l0
  | rune r => simp only [sizeWidth, hd]; exact ite_beq_nil _ _ l0
  | other => simp only [sizeWidth, hd]; exact ite_beq_nil _ _ l0

/-! ### the callback in the world -/

theorem tt_chain_get_set_same (c : Chain) (k : Key) (v : Val) : (c.set k (some v)).get k = some v := by
  simp [Chain.set, Chain.get]

theorem tt_chain_get_strip_ne (c : Chain) (k k' : Key) (h : k' ≠ k) : (c.strip k').get k = c.get k := by
  induction c with
  | nil => rfl
  | cons p t ih =>
    obtain ⟨k0, v0⟩ := p
    unfold Chain.strip
    by_cases h0 : k0 = k'
    · subst h0; simp [Chain.get, h]
    · simp only [h0, if_false, Chain.get]; rw [ih]

theorem tt_chain_get_set_ne (c : Chain) (k k' : Key) (v : Val) (h : k' ≠ k) :
    (c.set k' (some v)).get k = c.get k := by
  simp only [Chain.set, Chain.get, h, if_false]
  exact tt_chain_get_strip_ne c k k' h

/-- the view cell read back from a cell whose two texttable properties were written by `dimProps` -/
theorem rcell_cellOK (dw : Measure) (w : World) (it : Item) (c : Cell)
    (h1 : c.props.get .ttDims = some (dimProps dw it c).1)
    (h2 : c.props.get .ttLines = some (dimProps dw it c).2) : CellOK dw (w.rcell c) := by
  apply dimProps_cellOK dw it c (w.rcell c) c.hgt rfl
  · unfold World.rcell; rw [h1, dimProps_eq]
  · unfold World.rcell; rw [h2, dimProps_eq]

theorem dimProps_props_irrel (dw : Measure) (it : Item) (c : Cell) (p : Chain) :
    dimProps dw it { c with props := p } = dimProps dw it c := rfl

theorem tt_cell?_modCell (w : World) (r i : Nat) (f : Cell → Cell) (ce : Cell) (h : w.cell? r i = some ce) :
    (w.modCell r i f).cell? r i = some (f ce) := by
  unfold World.cell? World.rowCells World.row at h
  unfold World.cell? World.rowCells World.row World.modCell World.modRow
  simp only [List.getD_eq_getElem?_getD] at *
  by_cases hr : r < w.rows.length
  · rw [List.getElem?_modify, List.getElem?_eq_getElem hr] at *
    simp only [if_true, Option.getD_some] at *
    cases hc : (w.rows[r]).cells with
    | none => rw [hc] at h; simp at h
    | some cs =>
      rw [hc] at h
      show (((some _ : Option Row).getD { }).cells.getD [])[i]? = some (f ce)
      simp only [Option.getD_some, hc, Option.map_some]
      have h' : cs[i]? = some ce := h
      rw [List.getElem?_modify]; simp [h']
  · have : w.rows[r]? = none := by simp; omega
    rw [this] at h
    simp at h

theorem invokeOne_dimSetter (dw : Measure) (w : World) (r i : Nat) (tk : Taker) (ce : Cell)
    (h : w.cell? r i = some ce) :
    invokeOne dw w .dimSetter (.cell r i) tk =
      (w.modCell r i (fun c => { c with props := c.props.set .ttDims (some (dimProps dw (w.item ce.item) ce).1) })).modCell
        r i (fun c => { c with props := c.props.set .ttLines (some (dimProps dw (w.item ce.item) ce).2) }) := by
  unfold invokeOne
  simp only [h]
  rfl

/-- C03/C04: running the measuring callback on a cell of the world makes its view cell `CellOK`
    (whatever world the view is later read in: `rcell` reads only the cell's own properties). -/
theorem dimSetter_cellOK (dw : Measure) (w : World) (r i : Nat) (tk : Taker) (ce : Cell)
    (h : w.cell? r i = some ce) :
    ∃ ce', (invokeOne dw w .dimSetter (.cell r i) tk).cell? r i = some ce' ∧
      ce'.str = ce.str ∧ ce'.width = ce.width ∧ ce'.height = ce.height ∧
      ∀ w', CellOK dw (World.rcell w' ce') := by
  rw [invokeOne_dimSetter dw w r i tk ce h]
  have e1 := tt_cell?_modCell w r i (fun c => { c with props := c.props.set .ttDims (some (dimProps dw (w.item ce.item) ce).1) }) ce h
  have e2 := tt_cell?_modCell _ r i (fun c => { c with props := c.props.set .ttLines (some (dimProps dw (w.item ce.item) ce).2) }) _ e1
  refine ⟨_, e2, rfl, rfl, rfl, ?_⟩
  intro w'
  apply rcell_cellOK dw w' (w.item ce.item)
  · simp only [dimProps_props_irrel]
    rw [tt_chain_get_set_ne _ _ _ _ (by decide), tt_chain_get_set_same]
  · simp only [dimProps_props_irrel]
    rw [tt_chain_get_set_same]

end Tab
